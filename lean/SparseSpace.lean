import SparseSpace.Model.Combi
