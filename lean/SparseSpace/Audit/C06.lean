import SparseSpace.Properties.C06
#print axioms SparseSpace.C06.valid_init
#print axioms SparseSpace.C06.validLevels_iff
#print axioms SparseSpace.C06.valid_split
#print axioms SparseSpace.C06.split_keeps_structure
#print axioms SparseSpace.C06.valid_nearest_lower
#print axioms SparseSpace.C06.valid_rotate
#print axioms SparseSpace.C06.valid_rebalance
#print axioms SparseSpace.C06.selection_exact
#print axioms SparseSpace.C06.init_wf
#print axioms SparseSpace.C06.step_wf
#print axioms SparseSpace.C06.raise_lmax_terminates
#print axioms SparseSpace.C06.raiseLoop_terminates
#print axioms SparseSpace.C06.evaluate_transparent
#print axioms SparseSpace.C06.reachable_wf
#print axioms SparseSpace.C06.wf_clauses
#print axioms SparseSpace.C06.all_histories
