import SparseSpace.Properties.C04c
#print axioms SparseSpace.C04c.keeps_initial_false_v6_v8
#print axioms SparseSpace.C04c.keeps_initial_false_v7
#print axioms SparseSpace.C04c.keeps_initial_false_v3_float
#print axioms SparseSpace.C04c.keeps_initial_true_on_the_same_histories
#print axioms SparseSpace.C04c.witness_not_in_index_set
#print axioms SparseSpace.C04c.run_nr
#print axioms SparseSpace.C04c.all_histories_no_rebalancing
#print axioms SparseSpace.C04c.index_set_contains_open_simplex
#print axioms SparseSpace.index_set_contains
#print axioms SparseSpace.fwdClosed_update
#print axioms SparseSpace.raiseLoop_fix
#print axioms SparseSpace.step_nr
