import SparseSpace.Properties.C07
import SparseSpace.Properties.C07b
import SparseSpace.Properties.C07gen
#print axioms SparseSpace.C07.children_partition_all
#print axioms SparseSpace.C07.children_partition_single
#print axioms SparseSpace.C07.tiles_meaning
#print axioms SparseSpace.C07.leaves_tile
#print axioms SparseSpace.C07.container_is_leaves
#print axioms SparseSpace.C07.container_tiles
#print axioms SparseSpace.C07.assign_unique
#print axioms SparseSpace.C07.assign_interior_leaf
#print axioms SparseSpace.C07.assign_unique_single
#print axioms SparseSpace.C07.coarsening_nonneg
#print axioms SparseSpace.C07.coarsening_nonneg_when_used
#print axioms SparseSpace.C07.v0_local_is_standard
#print axioms SparseSpace.C07.v0_pointwise
#print axioms SparseSpace.C07.v0_reproduces
#print axioms SparseSpace.C07.reachable_level_ok
#print axioms SparseSpace.C07.localValid_sound
#print axioms SparseSpace.C07.v12_local_invalid
#print axioms SparseSpace.C07.v12_counterexample
#print axioms SparseSpace.C07.v12_witness_reachable
#print axioms SparseSpace.C07.coarsen_loop_fuel
#print axioms SparseSpace.C07.assign_lists_unique
#print axioms SparseSpace.C07.v0_local_depends_on_difference
#print axioms SparseSpace.C07.v0_local_value_invariant
#print axioms SparseSpace.C07.surviving_leaf_keeps_level
#print axioms SparseSpace.C07.v12_local_valid_lmin1_bounded
-- versions 1/2 with lmin = 1 for all dim, lmax, c (Properties/C07b.lean)
#print axioms SparseSpace.C07b.pushforward_valid
#print axioms SparseSpace.C07b.localValid_iff
#print axioms SparseSpace.C07b.coarsen_loop_dominates_iff
#print axioms SparseSpace.C07b.v12_coarsening_adjoint
#print axioms SparseSpace.C07b.v12_computed_is_pushforward
#print axioms SparseSpace.C07b.v1_local_valid_lmin1
#print axioms SparseSpace.C07b.v2_local_valid_lmin1
#print axioms SparseSpace.C07b.v12_pointwise
#print axioms SparseSpace.C07b.v12_index_set
#print axioms SparseSpace.C07b.v12_total_one
#print axioms SparseSpace.C07b.v12_reproduces
#print axioms SparseSpace.C07b.v12_reachable_valid
#print axioms SparseSpace.C07b.v1_2d_is_standard
-- translator tie (Properties/C07gen.lean): coarsen_grid / collision dictionary / flexible-evaluation prefix generated from the source by tools/py2lean agree with Model/ExtendSplit
#print axioms SparseSpace.C07gen.add_level_agrees
#print axioms SparseSpace.C07gen.is_already_calculated_agrees
#print axioms SparseSpace.C07gen.update_agrees
#print axioms SparseSpace.C07gen.sorted_top_agrees
#print axioms SparseSpace.C07gen.v0_loop_agrees
#print axioms SparseSpace.C07gen.v12_loop_agrees
#print axioms SparseSpace.C07gen.coarsen_grid_agrees
#print axioms SparseSpace.C07gen.pass_agrees
#print axioms SparseSpace.C07gen.flex_prefix_agrees
#print axioms SparseSpace.C07gen.gen_v0_local_is_standard
#print axioms SparseSpace.C07gen.gen_v12_local_valid_lmin1
#print axioms SparseSpace.C07gen.gen_coarsening_nonneg_when_used
