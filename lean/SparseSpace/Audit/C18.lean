import SparseSpace.Properties.C18
#print axioms SparseSpace.C18.scale_range_ends
#print axioms SparseSpace.C18.revert_restores
#print axioms SparseSpace.C18.scaling_keeps_labels
#print axioms SparseSpace.C18.shuffle_perm
#print axioms SparseSpace.C18.move_boundaries_perm
#print axioms SparseSpace.C18.split_labels_perm
#print axioms SparseSpace.C18.split_pieces_exact
#print axioms SparseSpace.C18.split_without_labels_perm
#print axioms SparseSpace.C18.remove_samples_perm
#print axioms SparseSpace.C18.remove_oob_rejects_unchanged
#print axioms SparseSpace.C18.concatenate_samples
#print axioms SparseSpace.C18.attrs_carried
#print axioms SparseSpace.C18.wf_preserved
#print axioms SparseSpace.C18.revert_restores_reachable
#print axioms SparseSpace.C18.concat_never_refuses
#print axioms SparseSpace.C18.concat_refuses_mismatch_counterexample
#print axioms SparseSpace.C18.pool_inplace_others_unchanged
