import SparseSpace.Properties.C17
#print axioms SparseSpace.C17.key_determines_entry
#print axioms SparseSpace.C17.equal_keys_equal_entries
#print axioms SparseSpace.C17.memo_transparent
#print axioms SparseSpace.C17.matrix_reuse_transparent
#print axioms SparseSpace.C17.matrices_equal_for_every_history
#print axioms SparseSpace.C17.copy_rule_sound
#print axioms SparseSpace.C17.recompute_eq_sample_mean
#print axioms SparseSpace.C17.reuse_rhs_regression_witness
#print axioms SparseSpace.C17.rhs_paths_agree_dimension_wise
#print axioms SparseSpace.C17.rhs_paths_agree_uniform
#print axioms SparseSpace.C17.interpolation_paths_agree
#print axioms SparseSpace.C17.hat_paths_agree_all
