import SparseSpace.Properties.C13
#print axioms SparseSpace.C13.stopNow_iff
#print axioms SparseSpace.C13.stops_at_first
#print axioms SparseSpace.C13.stops_iff
#print axioms SparseSpace.C13.arrays_len
#print axioms SparseSpace.C13.stream_obsAt
#print axioms SparseSpace.C13.error_nonneg
#print axioms SparseSpace.C13.error_zero_iff
#print axioms SparseSpace.C13.error_scalar
#print axioms SparseSpace.C13.error_inf_is_max
#print axioms SparseSpace.C13.estimate_nonneg
#print axioms SparseSpace.C13.benefit_nonneg
#print axioms SparseSpace.C13.points_count_distinct
#print axioms SparseSpace.C13.points_monotone
