import SparseSpace.Properties.C13
import SparseSpace.Properties.C13gen
#print axioms SparseSpace.C13.stopNow_iff
#print axioms SparseSpace.C13.stops_at_first
#print axioms SparseSpace.C13.stops_iff
#print axioms SparseSpace.C13.arrays_len
#print axioms SparseSpace.C13.stream_obsAt
#print axioms SparseSpace.C13.error_nonneg
#print axioms SparseSpace.C13.error_zero_iff
#print axioms SparseSpace.C13.error_scalar
#print axioms SparseSpace.C13.error_inf_is_max
#print axioms SparseSpace.C13.estimate_nonneg
#print axioms SparseSpace.C13.benefit_nonneg
#print axioms SparseSpace.C13.points_count_distinct
#print axioms SparseSpace.C13.points_monotone
-- translator tie (Properties/C13gen.lean): performSpatiallyAdaptiv / continue_adaptive_refinement generated from spatiallyAdaptiveBase.py by tools/py2lean (spec adaptdriver.json) agree with Model/AdaptDriver
#print axioms SparseSpace.C13gen.stop_test_agrees
#print axioms SparseSpace.C13gen.round_agrees
#print axioms SparseSpace.C13gen.loop_agrees
#print axioms SparseSpace.C13gen.continue_agrees
#print axioms SparseSpace.C13gen.perform_agrees
#print axioms SparseSpace.C13gen.gen_stops_at_first
