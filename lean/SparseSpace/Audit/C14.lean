import SparseSpace.Properties.C14
#print axioms SparseSpace.C14.resume_from_index
#print axioms SparseSpace.C14.resume_sim
#print axioms SparseSpace.C14.resume_eq_single
#print axioms SparseSpace.C14.restore_id
#print axioms SparseSpace.C14.scratch_reentrant
#print axioms SparseSpace.C14.incremental_reentrant
#print axioms SparseSpace.C14.resume_incremental
#print axioms SparseSpace.C14.resume_eq_single_fails_without_reentrance
#print axioms SparseSpace.C14.resume_scratch
