import SparseSpace.Properties.C07b
#print axioms SparseSpace.C07b.pushforward_valid
#print axioms SparseSpace.C07b.localValid_iff
#print axioms SparseSpace.C07b.coarsen_loop_dominates_iff
#print axioms SparseSpace.C07b.v12_coarsening_adjoint
#print axioms SparseSpace.C07b.v12_computed_is_pushforward
#print axioms SparseSpace.C07b.v1_local_valid_lmin1
#print axioms SparseSpace.C07b.v2_local_valid_lmin1
#print axioms SparseSpace.C07b.v12_pointwise
#print axioms SparseSpace.C07b.v12_index_set
#print axioms SparseSpace.C07b.v12_total_one
#print axioms SparseSpace.C07b.v12_reproduces
#print axioms SparseSpace.C07b.v12_reachable_valid
#print axioms SparseSpace.C07b.v1_2d_is_standard
