import SparseSpace.Properties.C11
import SparseSpace.Properties.C11b
import SparseSpace.Properties.C11gen
#print axioms SparseSpace.C11.romberg_coeff_sum
#print axioms SparseSpace.C11.romberg_coeff_order
#print axioms SparseSpace.C11.slice_weights
#print axioms SparseSpace.C11.extrapolation_weights_exact
#print axioms SparseSpace.C11.valid_tree_weights_defined
#print axioms SparseSpace.C11.valid_tree_weights_exact
#print axioms SparseSpace.C11.container_default_is_romberg
#print axioms SparseSpace.C11.romberg_degree_partial
#print axioms SparseSpace.C11.balanced_weights_exact
#print axioms SparseSpace.C11.balanced_weights_defined
#print axioms SparseSpace.C11.simpson_container_exact
#print axioms SparseSpace.C11.two_point_grid_weights
#print axioms SparseSpace.C11.init_tree_round_trip
#print axioms SparseSpace.C11.full_tree_keeps_points
#print axioms SparseSpace.C11.full_tree_is_full
#print axioms SparseSpace.C11.full_tree_dyadic
-- degree 2m+1 of the default Romberg variant for every depth m (Properties/C11b.lean)
#print axioms SparseSpace.C11b.trapezoid_monomial_expansion
#print axioms SparseSpace.C11b.romberg_rule_degree
#print axioms SparseSpace.C11b.romberg_rule_degree_monomial
#print axioms SparseSpace.C11b.romberg_degree
#print axioms SparseSpace.C11b.romberg_degree_monomial
#print axioms SparseSpace.C11b.romberg_degree_complete_grid
#print axioms SparseSpace.C11b.unit_complete_grid_is_romberg
#print axioms SparseSpace.C11b.romberg_degree_complete_grid_unit
#print axioms SparseSpace.C11b.romberg_degree_default_variants
#print axioms SparseSpace.C11b.polyInt_monomial
#print axioms SparseSpace.C11b.polyInt_derivative
-- balanced variant degree 2m-1 (Properties/C11b.lean)
#print axioms SparseSpace.C11b.midpoint_monomial_expansion
#print axioms SparseSpace.C11b.balanced_complete_grid_is_romberg_table
#print axioms SparseSpace.C11b.romberg_table_value
#print axioms SparseSpace.C11b.balanced_degree
#print axioms SparseSpace.C11b.balanced_degree_monomial
#print axioms SparseSpace.C11gen.step_width_agrees
#print axioms SparseSpace.C11gen.romberg_coefficient_agrees
#print axioms SparseSpace.C11gen.get_coefficient_agrees
#print axioms SparseSpace.C11gen.class_exponents
#print axioms SparseSpace.C11gen.trapezoidal_weights_agree
#print axioms SparseSpace.C11gen.simpson_weights_agree
#print axioms SparseSpace.C11gen.weights_forwarders_agree
#print axioms SparseSpace.C11gen.gen_coeff_sum
#print axioms SparseSpace.C11gen.gen_coeff_order
