import SparseSpace.Properties.C10
#print axioms SparseSpace.C10.lagrange_cardinal
#print axioms SparseSpace.C10.lagrangeR_cardinal
#print axioms SparseSpace.C10.lagrange_derivative
#print axioms SparseSpace.C10.poly_reproduction
#print axioms SparseSpace.C10.lagrange_partition
#print axioms SparseSpace.C10.gaussSolve_sound
#print axioms SparseSpace.C10.hierarchise_interpolate_id
#print axioms SparseSpace.C10.hierarchise_interpolate_id_solver
#print axioms SparseSpace.C10.hierarchise_interpolate_id_table
#print axioms SparseSpace.C10.unitriangular_unique
#print axioms SparseSpace.C10.inj1_of_levelTriangular
#print axioms SparseSpace.C10.hierarchise_surpluses_unique
#print axioms SparseSpace.C10.hier_reproduces_span
