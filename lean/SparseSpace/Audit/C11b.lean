import SparseSpace.Properties.C11b
#print axioms SparseSpace.C11b.trapezoid_monomial_expansion
#print axioms SparseSpace.C11b.romberg_rule_degree
#print axioms SparseSpace.C11b.romberg_rule_degree_monomial
#print axioms SparseSpace.C11b.romberg_degree
#print axioms SparseSpace.C11b.romberg_degree_monomial
#print axioms SparseSpace.C11b.romberg_degree_complete_grid
#print axioms SparseSpace.C11b.unit_complete_grid_is_romberg
#print axioms SparseSpace.C11b.romberg_degree_complete_grid_unit
#print axioms SparseSpace.C11b.romberg_degree_default_variants
#print axioms SparseSpace.C11b.midpoint_monomial_expansion
#print axioms SparseSpace.C11b.balanced_complete_grid_is_romberg_table
#print axioms SparseSpace.C11b.romberg_table_value
#print axioms SparseSpace.C11b.balanced_degree
#print axioms SparseSpace.C11b.balanced_degree_monomial
#print axioms SparseSpace.C11b.polyInt_monomial
#print axioms SparseSpace.C11b.polyInt_derivative
