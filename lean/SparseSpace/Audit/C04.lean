import SparseSpace.Properties.C04
import SparseSpace.Properties.C04c
import SparseSpace.Properties.C04b
#print axioms SparseSpace.C04.interp_reproduces_pl
#print axioms SparseSpace.C04.trap_exact_pl
#print axioms SparseSpace.C04.trap_exact_affine
#print axioms SparseSpace.C04.trap_refine_affine
#print axioms SparseSpace.C04.modified_rule_affine_exact
#print axioms SparseSpace.C04.noBoundary_rule
#print axioms SparseSpace.C04.exactness_criterion
#print axioms SparseSpace.C04.exactness_criterion_adaptive
#print axioms SparseSpace.C04.dimwise_integral_exact
#print axioms SparseSpace.C04.dimwise_interp_exact
#print axioms SparseSpace.C04.dimwise_integral_exact_noBoundary
#print axioms SparseSpace.C04.dimwise_modified_linear_exact
#print axioms SparseSpace.C04.keepsInitial_integral_exact
#print axioms SparseSpace.C04.keepsInitial_interp_exact
#print axioms SparseSpace.C04.keepsInitial_integral_exact_adaptive
#print axioms SparseSpace.C04.initial_hats_in_space
#print axioms SparseSpace.C04.es_multilinear_exact
#print axioms SparseSpace.C04.es_interp_exact
#print axioms SparseSpace.C04.cell_stencil_sum
#print axioms SparseSpace.C04.cell_multilinear_exact
#print axioms SparseSpace.C04.dimwise_version2_counterexample
#print axioms SparseSpace.C04.version3_clip_keeps_lmin_level
#print axioms SparseSpace.C04.dimwise_version3_lmin2_repaired
#print axioms SparseSpace.C04.dimwise_rebalancing_counterexample
-- bridge to the refinement model of C03/C06 (Properties/C04b.lean)
#print axioms SparseSpace.C04b.keep_low_levels
#print axioms SparseSpace.C04b.direct_form_false
#print axioms SparseSpace.C04b.keepsInitial_examples
-- all histories without rebalancing: invariants, index-set characterisation, counterexamples to keepsInitial (Properties/C04c.lean)
#print axioms SparseSpace.C04c.keeps_initial_false_v6_v8
#print axioms SparseSpace.C04c.keeps_initial_false_v7
#print axioms SparseSpace.C04c.keeps_initial_false_v3_float
#print axioms SparseSpace.C04c.keeps_initial_true_on_the_same_histories
#print axioms SparseSpace.C04c.witness_not_in_index_set
#print axioms SparseSpace.C04c.run_nr
#print axioms SparseSpace.C04c.all_histories_no_rebalancing
#print axioms SparseSpace.C04c.index_set_contains_open_simplex
#print axioms SparseSpace.index_set_contains
#print axioms SparseSpace.fwdClosed_update
#print axioms SparseSpace.raiseLoop_fix
#print axioms SparseSpace.step_nr
-- positive side (Properties/C04c.lean, Lemmas/DimWiseKeep{Pair,Pts,Tab,Main}.lean): (H_keep) for ALL histories without rebalancing, versions 6/7/8 (and 3 with exact rounding), dim = 2 or lmax - lmin <= 2
#print axioms SparseSpace.C04c.dimwise_keeps_initial_of_class
#print axioms SparseSpace.C04c.dimwise_keeps_initial_v678
#print axioms SparseSpace.C04c.dimwise_keeps_initial_v6_dim2
#print axioms SparseSpace.C04c.dimwise_keeps_initial_v6_span2
#print axioms SparseSpace.C04c.loopOK_678
#print axioms SparseSpace.C04c.dimwise_keeps_initial_v3_exact
#print axioms SparseSpace.v3Exact_ok
#print axioms SparseSpace.keepsInitial_of_shape
#print axioms SparseSpace.witness_in_index_set
#print axioms SparseSpace.good_dim
#print axioms SparseSpace.mMax_pair
#print axioms SparseSpace.pair_bound
#print axioms SparseSpace.scheme_tabulated
#print axioms SparseSpace.run_ub
#print axioms SparseSpace.dyadic_in_initObjs
