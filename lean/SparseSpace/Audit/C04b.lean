import SparseSpace.Properties.C04b
#print axioms SparseSpace.C04b.keep_low_levels
#print axioms SparseSpace.C04b.direct_form_false
#print axioms SparseSpace.C04b.keepsInitial_examples
