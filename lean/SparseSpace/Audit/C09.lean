import SparseSpace.Properties.C09
import SparseSpace.Properties.C09gen
#print axioms SparseSpace.C09.trap_eq_plIntegral
#print axioms SparseSpace.C09.trap_zero_boundary
#print axioms SparseSpace.C09.modTrap_eq_plIntegral_extrap
#print axioms SparseSpace.C09.modTrap_weights_eq_plIntegral_extrap
#print axioms SparseSpace.C09.trap_linear_exact
#print axioms SparseSpace.C09.modTrap_linear_exact
#print axioms SparseSpace.C09.modTrap_three
#print axioms SparseSpace.C09.trap_nonneg
#print axioms SparseSpace.C09.modTrap_can_be_negative
#print axioms SparseSpace.C09.weights_depend_on_points_only
#print axioms SparseSpace.C09.tensor_exact
#print axioms SparseSpace.C09.tensor_bilinear_exact
#print axioms SparseSpace.C09gen.plain_agrees
#print axioms SparseSpace.C09gen.modified_agrees
#print axioms SparseSpace.C09gen.compute_weights_agrees
#print axioms SparseSpace.C09gen.quad_weights_agrees
#print axioms SparseSpace.C09gen.quad_weights_levels_irrelevant
#print axioms SparseSpace.C09gen.gen_trap_eq_plIntegral
#print axioms SparseSpace.C09gen.gen_trap_nonneg
#print axioms SparseSpace.C09gen.gen_modTrap_eq_plIntegral_extrap
#print axioms SparseSpace.C09gen.setGrid_uses_generated
