import SparseSpace.Properties.C03
#print axioms SparseSpace.C03.threshold_mono
#print axioms SparseSpace.C03.subValue_fuel_enough
#print axioms SparseSpace.C03.subValue_loops_terminate
#print axioms SparseSpace.C03.dimPoints_nested
#print axioms SparseSpace.C03.dimPoints_level_only
#print axioms SparseSpace.C03.dimPoints_sorted_endpoints
#print axioms SparseSpace.C03.dimwise_point_coeff_sum
#print axioms SparseSpace.C03.dimwise_nodal_exact
#print axioms SparseSpace.C03.dimwise_nodal_exact_no_boundary
#print axioms SparseSpace.C03.all_histories
