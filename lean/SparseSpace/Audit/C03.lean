import SparseSpace.Properties.C03
import SparseSpace.Properties.C03gen
#print axioms SparseSpace.C03.threshold_mono
#print axioms SparseSpace.C03.subValue_fuel_enough
#print axioms SparseSpace.C03.subValue_loops_terminate
#print axioms SparseSpace.C03.dimPoints_nested
#print axioms SparseSpace.C03.dimPoints_level_only
#print axioms SparseSpace.C03.dimPoints_sorted_endpoints
#print axioms SparseSpace.C03.dimwise_point_coeff_sum
#print axioms SparseSpace.C03.dimwise_nodal_exact
#print axioms SparseSpace.C03.dimwise_nodal_exact_no_boundary
#print axioms SparseSpace.C03.all_histories
-- translator tie (Properties/C03gen.lean): definitions generated from spatiallyAdaptiveSingleDimension2.py by tools/py2lean (spec dimwise.json) agree with Model/DimWise
#print axioms SparseSpace.C03gen.modify_agrees
#print axioms SparseSpace.C03gen.is_child_agrees
#print axioms SparseSpace.C03gen.count_agrees
#print axioms SparseSpace.C03gen.v3_rounding_agrees
#print axioms SparseSpace.C03gen.max_level_agrees
#print axioms SparseSpace.C03gen.max_level_cached_agrees
#print axioms SparseSpace.C03gen.subtraction_value_agrees
#print axioms SparseSpace.C03gen.subtraction_value_full
#print axioms SparseSpace.C03gen.cache_after
#print axioms SparseSpace.C03gen.gen_threshold_mono
#print axioms SparseSpace.C03gen.gen_fuel_enough
#print axioms SparseSpace.C03gen.update_coarsening_agrees
#print axioms SparseSpace.C03gen.raise_lmax_agrees
#print axioms SparseSpace.C03gen.gen_raise_lmax_ends
