import SparseSpace.Properties.C01
import SparseSpace.Properties.C01gen
#print axioms SparseSpace.C01.inv_init
#print axioms SparseSpace.C01.inv_update
#print axioms SparseSpace.C01.inv_reachable
#print axioms SparseSpace.C01.update_not_refinable
#print axioms SparseSpace.C01.downward_closed
#print axioms SparseSpace.C01.disjoint_and_no_forward
#print axioms SparseSpace.C01.coeff_identity
#print axioms SparseSpace.C01.coeff_support
#print axioms SparseSpace.C01.coeff_total
#print axioms SparseSpace.C01.reachable_scheme_valid
#print axioms SparseSpace.C01.std_perm_init
#print axioms SparseSpace.C01.std_eq_init_lookup
#print axioms SparseSpace.C01.combination_collapses
-- translator tie (Properties/C01gen.lean): the definitions generated from combiScheme.py by tools/py2lean agree with the hand model ...
#print axioms SparseSpace.C01gen.getGrids_agrees
#print axioms SparseSpace.C01gen.getGrids_fuel_irrelevant
#print axioms SparseSpace.C01gen.init_active_agrees
#print axioms SparseSpace.C01gen.init_old_agrees
#print axioms SparseSpace.C01gen.init_adaptive_agrees
#print axioms SparseSpace.C01gen.is_refinable_agrees
#print axioms SparseSpace.C01gen.refine_scheme_agrees
#print axioms SparseSpace.C01gen.update_agrees
#print axioms SparseSpace.C01gen.update_state_agrees
#print axioms SparseSpace.C01gen.coefficients_agree
#print axioms SparseSpace.C01gen.getCombiScheme_adaptive_agrees
#print axioms SparseSpace.C01gen.getCombiScheme_std_agrees
#print axioms SparseSpace.C01gen.scheme_perm_hand_model
#print axioms SparseSpace.C01gen.get_index_set_agrees
#print axioms SparseSpace.C01gen.in_index_set_agrees
#print axioms SparseSpace.C01gen.is_old_index_agrees
#print axioms SparseSpace.C01gen.has_forward_neighbour_agrees
#print axioms SparseSpace.C01gen.history_agrees
-- ... and the C01 theorems transferred to the generated definitions
#print axioms SparseSpace.C01gen.gen_inv_init
#print axioms SparseSpace.C01gen.gen_inv_update
#print axioms SparseSpace.C01gen.gen_inv_reachable
#print axioms SparseSpace.C01gen.gen_update_not_refinable
#print axioms SparseSpace.C01gen.gen_index_set_clauses
#print axioms SparseSpace.C01gen.gen_coeff_identity
#print axioms SparseSpace.C01gen.gen_coeff_support
#print axioms SparseSpace.C01gen.gen_coeff_total
#print axioms SparseSpace.C01gen.gen_reachable_scheme_valid
#print axioms SparseSpace.C01gen.gen_std_perm_init
