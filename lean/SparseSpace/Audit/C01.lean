import SparseSpace.Properties.C01
#print axioms SparseSpace.C01.inv_init
#print axioms SparseSpace.C01.inv_update
#print axioms SparseSpace.C01.inv_reachable
#print axioms SparseSpace.C01.update_not_refinable
#print axioms SparseSpace.C01.downward_closed
#print axioms SparseSpace.C01.disjoint_and_no_forward
#print axioms SparseSpace.C01.coeff_identity
#print axioms SparseSpace.C01.coeff_support
#print axioms SparseSpace.C01.coeff_total
#print axioms SparseSpace.C01.reachable_scheme_valid
#print axioms SparseSpace.C01.std_perm_init
#print axioms SparseSpace.C01.std_eq_init_lookup
#print axioms SparseSpace.C01.combination_collapses
