import SparseSpace.Properties.C01
#print axioms SparseSpace.C01.placeholder
