import SparseSpace.Model.AdaptDriver
import SparseSpace.Drive.Util
/-! Line-protocol driver for the adaptive-driver model (C13, C14).

    run <tol> <min> <max|none> <stream>             → stop i=<i> evals=<n> refines=<k> lens=<e>,<p>,<s> last=<err>:<pts> pts=[..]
                                                      | nostop            (fuel = length of the stream)
    resume <tol1> <min1> <max1> <tol2> <min2> <max2> <stream>
                                                    → stop1 i=<i> | stop i=.. (as `run`, arrays of both calls) | nostop1 | nostop2
    grow <tol1> <min1> <max1> <tol2> <min2> <max2>  → true | false
    err <inf|1|2> <ref|none> <res> <surplus>        → <p/q> | undef          (2-norm: the SQUARE)
    benefit <error> <evaluations>                   → <p/q>
    totals <errors> <benefits>                      → <total> <maxbenefit>
    cache <batch>|<batch>|...                       → [n1,n2,..]   sizes after each call; batch = point;point;.. , point = x,y,..
    inceval <acc> <startNew> <areas>                → <acc'> <startNew'>   (extend–split discipline, one evaluate_operation)
    screval <areas>                                 → <acc'>        (dimension-wise discipline)

    stream = err:pts:sur;err:pts:sur;...   rationals as p/q
-/
namespace SparseSpace.Drive.C13
open SparseSpace.Adapt SparseSpace.Drive

def parseObs? (s : String) : Option Obs :=
  match s.splitOn ":" with
  | [e, p, u] => do
    let e ← parseRat? e
    let p ← parseNat? p
    let u ← parseRat? u
    some ⟨e, p, u⟩
  | _ => none

def parseStream? (s : String) : Option (List Obs) :=
  let s := s.trimAscii.toString
  if s == "-" then some [] else (s.splitOn ";").mapM parseObs?

def parseMax? (s : String) : Option (Option Int) :=
  if s.trimAscii.toString == "none" then some none else (parseInt? s).map some

def parseLimits? (t mn mx : String) : Option Limits := do
  let t ← parseRat? t
  let mn ← parseInt? mn
  let mx ← parseMax? mx
  some ⟨t, mn, mx⟩

def parseNorm? (s : String) : Option Norm :=
  match s.trimAscii.toString with
  | "inf" => some .inf
  | "1" => some .one
  | "2" => some .two
  | _ => none

def parseBatch? (s : String) : Option (List (List Rat)) :=
  let s := s.trimAscii.toString
  if s == "-" then some [] else (s.splitOn ";").mapM parseRatVec?

def fmtResult (r : Result (List Obs)) : String :=
  s!"stop i={r.refines} evals={r.evals} refines={r.refines} lens={r.hist.errs.length},{r.hist.pts.length},{r.hist.surs.length} last={fmtRat r.last.err}:{r.last.pts} pts={fmtNatVec r.hist.pts}"

def dflt : Obs := ⟨0, 0, 0⟩

/-- `Limits.grow` as a Boolean (same three comparisons) -/
def growB (L1 L2 : Limits) : Bool :=
  decide (L2.tol ≤ L1.tol) && decide (L1.minE ≤ L2.minE) &&
  (match L1.maxE, L2.maxE with
   | _, none => true
   | none, some _ => false
   | some m1, some m2 => decide (m1 ≤ m2))

def step (s : Unit) (line : String) : Unit × String :=
  match (line.trimAscii.toString.splitOn " ").filter (· ≠ "") with
  | ["run", t, mn, mx, st] =>
    match parseLimits? t mn mx, parseStream? st with
    | some L, some l =>
      match run (streamMachine dflt) L l.length l with
      | some r => (s, fmtResult r)
      | none => (s, "nostop")
    | _, _ => (s, "bad-op")
  | ["resume", t1, mn1, mx1, t2, mn2, mx2, st] =>
    match parseLimits? t1 mn1 mx1, parseLimits? t2 mn2 mx2, parseStream? st with
    | some L1, some L2, some l =>
      match run (streamMachine dflt) L1 l.length l with
      | none => (s, "nostop1")
      | some r1 =>
        match resume (streamMachine dflt) L1 L2 l.length (l.length - r1.refines) l with
        | some r2 => (s, s!"stop1 i={r1.refines} " ++ fmtResult r2)
        | none => (s, "nostop2")
    | _, _, _ => (s, "bad-op")
  | ["grow", t1, mn1, mx1, t2, mn2, mx2] =>
    match parseLimits? t1 mn1 mx1, parseLimits? t2 mn2 mx2 with
    | some L1, some L2 => (s, toString (growB L1 L2))
    | _, _ => (s, "bad-op")
  | ["err", p, ref, res, sur] =>
    match parseNorm? p, parseRatVec? res, parseRat? sur with
    | some p, some res, some sur =>
      if ref.trimAscii.toString == "none" then
        (s, match reportedError p none res sur with | some e => fmtRat e | none => "undef")
      else match parseRatVec? ref with
        | some ref =>
          if ref.length ≠ res.length || res.isEmpty then (s, "assert")
          else (s, match reportedError p (some ref) res sur with | some e => fmtRat e | none => "undef")
        | none => (s, "bad-op")
    | _, _, _ => (s, "bad-op")
  | ["benefit", e, n] =>
    match parseRat? e, parseRat? n with
    | some e, some n => (s, fmtRat (benefit e n))
    | _, _ => (s, "bad-op")
  | ["totals", es, bs] =>
    match parseRatVec? es, parseRatVec? bs with
    | some es, some bs => (s, fmtRat (totalError es) ++ " " ++ fmtRat (maxBenefit bs))
    | _, _ => (s, "bad-op")
  | ["cache", bs] =>
    match (bs.splitOn "|").mapM parseBatch? with
    | some bs =>
      let sizes := (bs.foldl (fun (acc : List (List Rat) × List Nat) b =>
        let c := cacheCall acc.1 b
        (c, acc.2 ++ [c.length])) ([], [])).2
      (s, fmtNatVec sizes)
    | none => (s, "bad-op")
  | ["inceval", acc, sn, areas] =>
    match parseRat? acc, parseNat? sn, parseRatVec? areas with
    | some acc, some sn, some areas =>
      let r := (incEval ⟨acc, areas, sn, areas.map fun _ => 0, [], none⟩).1
      (s, fmtRat r.acc ++ " " ++ toString r.startNew)
    | _, _, _ => (s, "bad-op")
  | ["screval", areas] =>
    match parseRatVec? areas with
    | some areas => (s, fmtRat (scrEval ⟨0, areas, 0, areas.map fun _ => 0, [], none⟩).1.acc)
    | none => (s, "bad-op")
  | _ => (s, "bad-op")

end SparseSpace.Drive.C13

def main : IO Unit := SparseSpace.Drive.runLoop SparseSpace.Drive.C13.step ()
