import SparseSpace.Model.ExtendSplit
import SparseSpace.Drive.Util
/-! Line-protocol driver for the extend–split model (C07).

    init <dim> <lmin> <lmax> <nrbe> <version> <auto01> <single01> <a1,a2,..> <b1,b2,..>   → ok | assert
    refine <pos> <ext01> <dims|->       → ext | split <n> | noop      (state changes as `EState.refine`)
    endround                            → ok
    lmax                                → <int>
    objects                             → container in order:  s1,s2|e1,e2|coarsening|needExtend;...
    leaves                              → leaves reachable from root_cell in traversal order, same format
    nodes                               → every object of the tree (inner nodes too) in preorder from the initial objects, same format
    pop                                 → popArray
    cg <pos> <l1,l2,..>                 → c1,c2|<do_compute01> | assert    (updates the object's dictionary, as the code)
    computed <pos>                      → pass over the model's own scheme from the object's current dictionary (pure):
                                          l..:c..:coeff:do;...
    valid <pos>                         → 1 | 0   `localValid` of the grids computed in that pass
    assign <x1,x2,..>                   → s..|e.. of the leaf | none
    scheme                              → l..:coeff;...  (code order)
    flex <lmax> <coarsening>            → <coarseningValue carried> <lmax of the scheme used>   (`flexEval`)
    wf                                  → 1 | 0   executable state invariant
    pass <version> <dim> <lmin> <lmax> <c> <l..;l..;...>
                                        → `coarsen_grid` on a fresh area of coarsening c for the given level vectors in
                                          the given order (dictionary threaded): c..|do;...   (assert for a failed assert)
-/
namespace SparseSpace.Drive.C07
open SparseSpace SparseSpace.Drive

def fmtR (l : List Rat) : String := ",".intercalate (l.map fmtRat)
def fmtI (l : List Int) : String := ",".intercalate (l.map toString)

def fmtArea (a : ESArea) : String :=
  fmtR (a.box.map (·.1)) ++ "|" ++ fmtR (a.box.map (·.2)) ++ "|" ++ toString a.coarsening ++ "|" ++ toString a.needExtend

def fmtAreas (l : List ESArea) : String := ";".intercalate (l.map fmtArea)

def b01 (s : String) : Option Bool := if s == "1" then some true else if s == "0" then some false else none

/-- the pass of `computedFrom`, but reporting every component grid -/
def passAll (s : EState) (c : Int) : List (LV × Int) → List (LV × LV) → List String
  | [], _ => []
  | (lv, coeff) :: rest, dict =>
      match coarsenGrid s.version s.dim s.lmin s.lmax lv c dict with
      | none => (fmtI lv ++ ":assert") :: passAll s c rest dict
      | some (coarse, doC, dict') =>
          (fmtI lv ++ ":" ++ fmtI coarse ++ ":" ++ toString coeff ++ ":" ++ (if doC then "1" else "0")) :: passAll s c rest dict'

/-- executable well-formedness: every inner node's children tile it (checked through volumes, containment of the
children and pairwise separation), coarsening values within `[0, lmax - lmax0]`, identities unique, the container
(minus the objects awaiting removal) = the leaves -/
def sepB : Box → Box → Bool
  | a :: as, b :: bs => decide (a.2 ≤ b.1) || decide (b.2 ≤ a.1) || sepB as bs
  | _, _ => false

def subB : Box → Box → Bool
  | [], [] => true
  | a :: as, b :: bs => decide (b.1 ≤ a.1) && decide (a.2 ≤ b.2) && decide (a.1 < a.2) && subB as bs
  | _, _ => false

def pairwiseB (r : Box → Box → Bool) : List Box → Bool
  | [] => true
  | x :: xs => xs.all (r x) && pairwiseB r xs

def tilesB (parent : Box) (cs : List Box) : Bool :=
  cs.all (subB · parent) && pairwiseB sepB cs && ((cs.map boxVol).sum == boxVol parent)

def nodupB : List Nat → Bool
  | [] => true
  | x :: xs => !xs.contains x && nodupB xs

def wfForest (lo hi : Int) : Forest → Bool
  | .nil => true
  | .cons a ch sib =>
      decide (lo ≤ a.coarsening) && decide (a.coarsening ≤ hi) &&
      (ch.isNil || tilesB a.box (ch.tops.map (·.box))) && wfForest lo hi ch && wfForest lo hi sib

def step (s : Option EState) (line : String) : Option EState × String :=
  match (line.trimAscii.toString.splitOn " ").filter (· ≠ "") with
  | ["init", d, lmin, lmax, nrbe, ver, au, si, a, b] =>
    match parseNat? d, parseInt? lmin, parseInt? lmax, parseInt? nrbe, parseNat? ver, b01 au, b01 si, parseRatVec? a, parseRatVec? b with
    | some d, some lmin, some lmax, some nrbe, some ver, some au, some si, some a, some b =>
      if d ≥ 2 && a.length == d && b.length == d && lmin ≥ 1 && lmax ≥ lmin && ver ≤ 2 && nrbe ≥ 0
          && (a.zip b).all (fun q => decide (q.1 < q.2)) then
        (some (EState.init d lmin lmax nrbe ver au si (a.zip b)), "ok")
      else (s, "assert")
    | _, _, _, _, _, _, _, _, _ => (s, "bad-op")
  | ["refine", pos, ext, dims] =>
    match s, parseNat? pos, b01 ext, parseVec? dims with
    | some st, some pos, some ext, some dims =>
      if dims.any (· < 0) then (s, "bad-op") else
      let st' := st.refine pos ext (dims.map Int.toNat)
      let n := st'.objs.length - st.objs.length
      (some st', if n == 0 then "noop" else if n == 1 then "ext" else s!"split {n}")
    | _, _, _, _ => (s, "bad-op")
  | ["endround"] =>
    match s with
    | some st => (some st.endRound, "ok")
    | none => (s, "bad-op")
  | ["lmax"] =>
    match s with
    | some st => (s, toString st.lmax)
    | none => (s, "bad-op")
  | ["objects"] =>
    match s with
    | some st => (s, fmtAreas st.objects)
    | none => (s, "bad-op")
  | ["leaves"] =>
    match s with
    | some st => (s, fmtAreas st.rootLeaves)
    | none => (s, "bad-op")
  | ["nodes"] =>
    match s with
    | some st => (s, fmtAreas st.forest.nodes)
    | none => (s, "bad-op")
  | ["pop"] =>
    match s with
    | some st => (s, fmtNatVec st.pop)
    | none => (s, "bad-op")
  | ["cg", pos, lv] =>
    match s, parseNat? pos, parseVec? lv with
    | some st, some pos, some lv =>
      match st.objs[pos]? with
      | none => (s, "bad-op")
      | some i =>
        match st.forest.find? i with
        | none => (s, "bad-op")
        | some (a, _) =>
          match coarsenGrid st.version st.dim st.lmin st.lmax lv a.coarsening a.dict with
          | none => (s, "assert")
          | some (coarse, doC, dict') =>
            (some { st with forest := st.forest.mapAreas (fun a' => if a'.id == i then { a' with dict := dict' } else a') },
              fmtI coarse ++ "|" ++ (if doC then "1" else "0"))
    | _, _, _ => (s, "bad-op")
  | ["computed", pos] =>
    match s, parseNat? pos with
    | some st, some pos =>
      match (st.objs[pos]?).bind (fun i => st.forest.find? i) with
      | none => (s, "bad-op")
      | some (a, _) => (s, ";".intercalate (passAll st a.coarsening (stdScheme st.dim st.lmin st.lmax) a.dict))
    | _, _ => (s, "bad-op")
  | ["valid", pos] =>
    match s, parseNat? pos with
    | some st, some pos =>
      match (st.objs[pos]?).bind (fun i => st.forest.find? i) with
      | none => (s, "bad-op")
      | some (a, _) =>
        (s, if localValid st.dim st.lmin
              (computedFrom st.version st.dim st.lmin st.lmax a.coarsening (stdScheme st.dim st.lmin st.lmax) a.dict)
            then "1" else "0")
    | _, _ => (s, "bad-op")
  | ["assign", x] =>
    match s, parseRatVec? x with
    | some st, some x =>
      (s, match st.assign x with
          | none => "none"
          | some a => fmtR (a.box.map (·.1)) ++ "|" ++ fmtR (a.box.map (·.2)))
    | _, _ => (s, "bad-op")
  | ["scheme"] =>
    match s with
    | some st => (s, ";".intercalate ((stdScheme st.dim st.lmin st.lmax).map fun p => fmtI p.1 ++ ":" ++ toString p.2))
    | none => (s, "bad-op")
  | ["pass", ver, d, lmin, lmax, c, lvs] =>
    match parseNat? ver, parseNat? d, parseInt? lmin, parseInt? lmax, parseInt? c, (lvs.splitOn ";").mapM parseVec? with
    | some ver, some d, some lmin, some lmax, some c, some lvs =>
      let r := lvs.foldl (fun (acc : List String × List (LV × LV)) lv =>
        match coarsenGrid ver d lmin lmax lv c acc.2 with
        | none => (acc.1 ++ ["assert"], acc.2)
        | some (coarse, doC, dict') => (acc.1 ++ [fmtI coarse ++ "|" ++ (if doC then "1" else "0")], dict')) ([], [])
      (s, ";".intercalate r.1)
    | _, _, _, _, _, _ => (s, "bad-op")
  | ["flex", lmax, c] =>
    match parseInt? lmax, parseInt? c with
    | some lmax, some c => (s, s!"{(flexEval lmax c).1} {(flexEval lmax c).2}")
    | _, _ => (s, "bad-op")
  | ["wf"] =>
    match s with
    | some st =>
      (s, if tilesB st.root (st.forest.tops.map (·.box)) && wfForest 0 (st.lmax - st.lmax0) st.forest
              && nodupB (st.forest.nodes.map (·.id)) && st.forest.nodes.all (fun a => decide (a.id < st.next))
              && nodupB st.objs
              && (eraseIdxs st.objs st.pop).mergeSort == (st.forest.leaves.map (·.id)).mergeSort
            then "1" else "0")
    | none => (s, "bad-op")
  | _ => (s, "bad-op")

end SparseSpace.Drive.C07

def main : IO Unit := SparseSpace.Drive.runLoop SparseSpace.Drive.C07.step none
