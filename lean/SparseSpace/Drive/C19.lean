import SparseSpace.Model.Classify
import SparseSpace.Drive.Util
/-! Line-protocol driver for the `Classification` model (C19).

Data sets: samples separated by `;`, a sample is `x1,x2,..:label` (rationals `p/q`), the empty set is `-`.

    stage1 <lo1,..|hi1,..  or -> <data>        → ok SC lo,hi,f;.. F <0|1> K <flags> U <data> O <data>   (first half of _initialize)
    stage2 <perm or -> <idx or -> <p> <0|1>    → ok L <data> T <data>                                  (second half; full `initialise` is run)
    dens <scaled pt> <row>                     → ok            (one row of the density oracle, keyed by the exact scaled position)
    perform                                    → ok K <k> C <classes> D <len densities>
    pts <a,b or -> <data>                      → ok <data>     (coordinates `_internal_scaling` gives the samples, before removal)
    call <a,b or -> <data>                     → ok E <pt:class;..> R <data> D <n>
    test <a,b or -> <data>                     → ok U <pt:label:class;..> O <data> R <data> S <wrong> <total> <pct> C <classes> D <n>
    evaluate                                   → ok <wrong> <total> <pct>
    state                                      → T <n> C <classes> D <n> O <n> P <0|1> K <k>
    errors                                     → err <kind> ;  malformed lines → bad-op
-/
namespace SparseSpace.Drive.C19
open SparseSpace SparseSpace.Drive SparseSpace.Classify

structure DS where
  raw : Data := []
  range : Option (List Rat × List Rat) := none
  st : Option State := none
  table : List (Pt × List Rat) := []

def parseSample? (s : String) : Option Sample :=
  match s.splitOn ":" with
  | [p, l] => do
      let pt ← parseRatVec? p
      let lab ← parseInt? l
      some { pt := pt, label := lab }
  | _ => none

def parseData? (s : String) : Option Data :=
  let s := s.trimAscii.toString
  if s == "-" then some [] else (s.splitOn ";").mapM parseSample?

def parseRange? (s : String) : Option (Option (List Rat × List Rat)) :=
  let s := s.trimAscii.toString
  if s == "-" then some none else
  match s.splitOn "|" with
  | [a, b] => do
      let lo ← parseRatVec? a
      let hi ← parseRatVec? b
      some (some (lo, hi))
  | _ => none

def parsePre? (s : String) : Option (Option (Rat × Rat)) :=
  let s := s.trimAscii.toString
  if s == "-" then some none else
  match parseRatVec? s with
  | some [a, b] => some (some (a, b))
  | _ => none

def parseNatList? (s : String) : Option (List Nat) :=
  let s := s.trimAscii.toString
  if s == "-" then some [] else (s.splitOn ",").mapM parseNat?

def fmtPt (p : Pt) : String := ",".intercalate (p.map fmtRat)
def fmtSample (s : Sample) : String := fmtPt s.pt ++ ":" ++ toString s.label
def fmtData (d : Data) : String := if d.isEmpty then "-" else ";".intercalate (d.map fmtSample)
def fmtNats (l : List Nat) : String := if l.isEmpty then "-" else ",".intercalate (l.map toString)
def fmtInts (l : List Int) : String := if l.isEmpty then "-" else ",".intercalate (l.map toString)

def fmtErr : Err → String
  | .notPerformed => "notPerformed" | .emptyInput => "emptyInput" | .dimMismatch => "dimMismatch"
  | .scalingMismatch => "scalingMismatch" | .allOutOfBounds => "allOutOfBounds" | .emptyClassify => "emptyClassify"
  | .lengthMismatch => "lengthMismatch" | .nothingToEvaluate => "nothingToEvaluate" | .divZero => "divZero"
  | .emptyLearning => "emptyLearning" | .invalidRange => "invalidRange" | .twice => "twice"
  | .badSplitInput => "badSplitInput"

/-- the density oracle of the run: the rows read from the implementation, keyed by exact scaled position -/
def densOf (table : List (Pt × List Rat)) (c : Nat) (p : Pt) : Rat :=
  match table.lookup p with
  | some row => row.getD c 0
  | none => 0

def fmtSummary (s : Summary) : String := s!"{s.wrong} {s.total} {fmtRat s.pct}"

def step (s : DS) (line : String) : DS × String :=
  match (line.trimAscii.toString.splitOn " ").filter (· ≠ "") with
  | ["stage1", r, d] =>
    match parseRange? r, parseData? d with
    | some range, some raw =>
      match initScale raw range with
      | .error e => ({ s with st := none }, "err " ++ fmtErr e)
      | .ok (sc, fitted, scaled, om) =>
        let flags := (labelled raw).map fun smp =>
          if fitted then 1 else (if outOfRange (scalePt sc smp.pt) then 0 else 1)
        ({ s with raw := raw, range := range, st := none, table := [] },
          "ok SC " ++ ";".intercalate (sc.map fun a => fmtRat a.lo ++ "," ++ fmtRat a.hi ++ "," ++ fmtRat a.f) ++
          " F " ++ (if fitted then "1" else "0") ++ " K " ++ fmtNats flags ++
          " U " ++ fmtData scaled ++ " O " ++ fmtData om)
    | _, _ => (s, "bad-op")
  | ["stage2", pm, ix, p, ev] =>
    match parseNatList? pm, parseNatList? ix, parseRat? p, parseNat? ev with
    | some perm, some idx, some p, some ev =>
      let perm := if pm.trimAscii.toString == "-" then none else some perm
      match initialise s.raw s.range perm idx p (ev != 0) with
      | .error e => ({ s with st := none }, "err " ++ fmtErr e)
      | .ok st => ({ s with st := some st }, "ok L " ++ fmtData st.learning ++ " T " ++ fmtData st.testing)
    | _, _, _, _ => (s, "bad-op")
  | ["dens", p, row] =>
    match parseRatVec? p, parseRatVec? row with
    | some p, some row => ({ s with table := (p, row) :: s.table }, "ok")
    | _, _ => (s, "bad-op")
  | ["perform"] =>
    match s.st with
    | some st =>
      match perform (densOf s.table) st with
      | .error e => (s, "err " ++ fmtErr e)
      | .ok st' => ({ s with st := some st' }, s!"ok K {st'.k} C {fmtInts st'.classes} D {st'.densities.length}")
    | none => (s, "bad-op")
  | ["pts", pr, d] =>
    match s.st, parsePre? pr, parseData? d with
    | some st, some pre, some d =>
      match internalPts st { data := d, pre := pre } with
      | .error e => (s, "err " ++ fmtErr e)
      | .ok pts => (s, "ok " ++ fmtData pts)
    | _, _, _ => (s, "bad-op")
  | ["call", pr, d] =>
    match s.st, parsePre? pr, parseData? d with
    | some st, some pre, some d =>
      match call (densOf s.table) st { data := d, pre := pre } with
      | .error e => (s, "err " ++ fmtErr e)
      | .ok (st', r) =>
        let ev := if r.evaluated.isEmpty then "-" else
          ";".intercalate (r.evaluated.map fun (p : Pt × Int) => fmtPt p.1 ++ ":" ++ toString p.2)
        ({ s with st := some st' }, s!"ok E {ev} R {fmtData r.removed} D {st'.densities.length}")
    | _, _, _ => (s, "bad-op")
  | ["test", pr, d] =>
    match s.st, parsePre? pr, parseData? d with
    | some st, some pre, some d =>
      match test (densOf s.table) st { data := d, pre := pre } with
      | .error e => ({ s with st := some (testFailState st { data := d, pre := pre }) }, "err " ++ fmtErr e)
      | .ok (st', r) =>
        let us := if r.used.isEmpty then "-" else
          ";".intercalate (r.used.map fun (p : Sample × Int) => fmtSample p.1 ++ ":" ++ toString p.2)
        ({ s with st := some st' },
          s!"ok U {us} O {fmtData r.omitted} R {fmtData r.removed} S {fmtSummary r.summary} C {fmtInts st'.classes} D {st'.densities.length}")
    | _, _, _ => (s, "bad-op")
  | ["evaluate"] =>
    match s.st with
    | some st =>
      match evaluate st with
      | .error e => (s, "err " ++ fmtErr e)
      | .ok sm => (s, "ok " ++ fmtSummary sm)
    | none => (s, "bad-op")
  | ["state"] =>
    match s.st with
    | some st =>
      (s, s!"T {st.testing.length} C {fmtInts st.classes} D {st.densities.length} O {st.omitted.length} P {if st.performed then 1 else 0} K {st.k}")
    | none => (s, "bad-op")
  | _ => (s, "bad-op")

end SparseSpace.Drive.C19

def main : IO Unit := SparseSpace.Drive.runLoop SparseSpace.Drive.C19.step {}
