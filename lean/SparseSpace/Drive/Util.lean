/-! Shared helpers of the line-protocol drivers (import-free). -/
namespace SparseSpace.Drive

def parseInt? (s : String) : Option Int := s.trimAscii.toString.toInt?

def parseNat? (s : String) : Option Nat := s.trimAscii.toString.toNat?

/-- `1,2,3` → `[1,2,3]`; `-` is the empty list; any bad component rejects the whole vector -/
def parseVec? (s : String) : Option (List Int) :=
  let s := s.trimAscii.toString
  if s == "-" then some [] else
  (s.splitOn ",").mapM parseInt?

/-- rational `p/q` or integer `p` -/
def parseRat? (s : String) : Option Rat :=
  match s.trimAscii.toString.splitOn "/" with
  | [p] => (parseInt? p).map (fun (n : Int) => (n : Rat))
  | [p, q] => do
      let n ← parseInt? p
      let d ← parseNat? q
      if d == 0 then none else some ((n : Rat) / (d : Rat))
  | _ => none

def parseRatVec? (s : String) : Option (List Rat) :=
  let s := s.trimAscii.toString
  if s == "-" then some [] else
  (s.splitOn ",").mapM parseRat?

def fmtRat (r : Rat) : String :=
  if r.den == 1 then toString r.num else s!"{r.num}/{r.den}"

def fmtVec (l : List Int) : String := "[" ++ ",".intercalate (l.map toString) ++ "]"

def fmtRatVec (l : List Rat) : String := "[" ++ ",".intercalate (l.map fmtRat) ++ "]"

def fmtNatVec (l : List Nat) : String := "[" ++ ",".intercalate (l.map toString) ++ "]"

def lexLe : List Int → List Int → Bool
  | [], _ => true
  | _ :: _, [] => false
  | x :: xs, y :: ys => if x < y then true else if x > y then false else lexLe xs ys

def sortVecs (l : List (List Int)) : List (List Int) := l.mergeSort lexLe

def fmtVecs (l : List (List Int)) : String := "[" ++ ",".intercalate (l.map fmtVec) ++ "]"

/-- read stdin line by line, thread a state, print one output line per input line -/
partial def loop {σ : Type} (step : σ → String → σ × String) (h : IO.FS.Stream) (out : IO.FS.Stream) (s : σ) : IO Unit := do
  let line ← h.getLine
  if line.isEmpty then return ()
  let (s', o) := step s line
  out.putStrLn o
  out.flush
  loop step h out s'

def runLoop {σ : Type} (step : σ → String → σ × String) (init : σ) : IO Unit := do
  loop step (← IO.getStdin) (← IO.getStdout) init

end SparseSpace.Drive
