import SparseSpace.Model.FuncCache
import SparseSpace.Model.AnalyticTrans
import SparseSpace.Drive.Util
/-! Line-protocol driver for the `FuncCache` / `AnalyticInt` models (C12).

    fn const <v> | fn linear <c,..> | fn poly <k> <c,..> | fn multilin <c,..> | fn poly1d <c,..>
    fn table <outlen> generic|override          → ok     (new instance: empty dictionaries, caching on, empty history)
    def <pt> <val>                              → ok     (table functions: the value of `eval` at a point)
    single <pt>                                 → val [..] miss|hit   | err index|assert|shape
    batch <pt>;<pt>;..   |  batch []            → vals [[..],..]      | err ..
    reset | deact                               → ok
    size                                        → <n>
    keys                                        → [[..],..]  (sorted)
    trace                                       → on|off counted=<n> distinct=<n> guard=<true|false>
    ana const <v> <s> <e> | ana linear <c> <s> <e> | ana poly <k> <c> <s> <e> | ana multilin <c> <s> <e>
    ana multilincoded|multilinfixed <c> <s> <e> | ana poly1d <c> <s> <e>      → <rational>
    (`ana multilin` is the formula of the code under test, `anaMultilinearCurrent`; the model variant is `Cfg.current`)
    evl linear|multilin <c> <x> | evl poly <k> <c> <x> | evl poly1d <c> <x> | evl linearvec <c> <x>   → <rational>
    a point is `x1,x2,..` with rationals `p/q`; `-` is the empty tuple
    anaT pp|c0|disc <c> <m|b> <s> <e> | anaT expvar <s> <e> | anaT osz <c> <o> <s> <e> | anaT corner <c> <s> <e>
    evlT pp|c0|disc <c> <m|b> <x>     | evlT expvar <x>     | evlT osz <c> <o> <x>     | evlT corner <c> <x>
        → the IEEE-754 bits of the `Float` instance of the Model/AnalyticTrans term, as a decimal UInt64
        (arguments are the exact rationals of the Python floats)
-/
namespace SparseSpace.Drive.C12
open SparseSpace SparseSpace.Drive SparseSpace.FuncCache SparseSpace.AnalyticInt SparseSpace.AnalyticTrans

/-! the `Float` instance of the carrier of Model/AnalyticTrans (C `double`, libm) -/
instance : NatCast Float := ⟨Nat.toFloat⟩
instance : HPow Float Nat Float := ⟨fun x n => Float.pow x n.toFloat⟩
instance : NumOps Float :=
  { exp := Float.exp, cos := Float.cos, sin := Float.sin, arctan := Float.atan, rpow := Float.pow,
    pi := 3.141592653589793 }

/-- the exact rational of a Python float back to the float (numerator and denominator are exactly representable) -/
def ratToFloat (r : Rat) : Float := Float.ofInt r.num / Float.ofNat r.den

def fvec? (s : String) : Option (List Float) := (parseRatVec? s).map (·.map ratToFloat)
def fnum? (s : String) : Option Float := (parseRat? s).map ratToFloat
def fmtBits (x : Float) : String := toString x.toBits

def transLine : List String → Option String
  | ["anaT", "pp", c, m, a, b] => do some (fmtBits (anaProductPeak (← fvec? c) (← fvec? m) (← fvec? a) (← fvec? b)))
  | ["anaT", "c0", c, m, a, b] => do some (fmtBits (anaC0 (← fvec? c) (← fvec? m) (← fvec? a) (← fvec? b)))
  | ["anaT", "disc", c, m, a, b] => do some (fmtBits (anaDisc (← fvec? c) (← fvec? m) (← fvec? a) (← fvec? b)))
  | ["anaT", "expvar", a, b] => do some (fmtBits (anaExpVar (← fvec? a) (← fvec? b)))
  | ["anaT", "osz", c, o, a, b] => do some (fmtBits (anaOsz (← fvec? c) (← fnum? o) (← fvec? a) (← fvec? b)))
  | ["anaT", "corner", c, a, b] => do some (fmtBits (anaCornerPeak (← fvec? c) (← fvec? a) (← fvec? b)))
  | ["evlT", "pp", c, m, x] => do some (fmtBits (evalProductPeak (← fvec? c) (← fvec? m) (← fvec? x)))
  | ["evlT", "c0", c, m, x] => do some (fmtBits (evalC0 (← fvec? c) (← fvec? m) (← fvec? x)))
  | ["evlT", "disc", c, m, x] => do some (fmtBits (evalDisc (← fvec? c) (← fvec? m) (← fvec? x)))
  | ["evlT", "expvar", x] => do some (fmtBits (evalExpVar (← fvec? x)))
  | ["evlT", "osz", c, o, x] => do some (fmtBits (evalOsz (← fvec? c) (← fnum? o) (← fvec? x)))
  | ["evlT", "corner", c, x] => do some (fmtBits (evalCornerPeak (← fvec? c) (← fvec? x)))
  | _ => none

inductive Desc
  | const (v : Rat) | linear (c : List Rat) | poly (k : Nat) (c : List Rat) | multilin (c : List Rat)
  | poly1d (c : List Rat) | table (tbl : Dict) (n : Nat) (ov : Bool)

def Desc.fn : Desc → Fn
  | .const v => constFn v
  | .linear c => linearFn c
  | .poly k c => polynomialFn k c
  | .multilin c => multilinearFn c
  | .poly1d c => poly1dFn c
  | .table t n ov => tableFn t n ov

structure DS where
  desc : Desc
  st : St
  /-- the operations so far, newest first -/
  hist : List Op

def lexLeRat : List Rat → List Rat → Bool
  | [], _ => true
  | _ :: _, [] => false
  | x :: xs, y :: ys => if x < y then true else if y < x then false else lexLeRat xs ys

def fmtVals (vs : List Val) : String := "[" ++ ",".intercalate (vs.map fmtRatVec) ++ "]"

def fmtErr : Err → String
  | .index => "err index" | .assertLen => "err assert" | .shape => "err shape"

def fmtOut : Out → String
  | .value v miss => "val " ++ fmtRatVec v ++ (if miss then " miss" else " hit")
  | .values vs => "vals " ++ fmtVals vs
  | .count n => toString n
  | .unit => "ok"
  | .error e => fmtErr e

def parseBatch? (s : String) : Option (List Pt) :=
  if s == "[]" then some [] else (s.splitOn ";").mapM parseRatVec?

def doOp (d : DS) (o : Op) : DS × String :=
  let r := step Cfg.current d.desc.fn d.st o
  ({ d with st := r.1, hist := o :: d.hist }, fmtOut r.2)

def fresh (desc : Desc) : Option DS × String := (some { desc, st := St.init, hist := [] }, "ok")

def stepLine (s : Option DS) (line : String) : Option DS × String :=
  match (line.trimAscii.toString.splitOn " ").filter (· ≠ "") with
  | ["fn", "const", v] => match parseRat? v with | some v => fresh (.const v) | none => (s, "bad-op")
  | ["fn", "linear", c] => match parseRatVec? c with | some c => fresh (.linear c) | none => (s, "bad-op")
  | ["fn", "poly", k, c] =>
    match parseNat? k, parseRatVec? c with | some k, some c => fresh (.poly k c) | _, _ => (s, "bad-op")
  | ["fn", "multilin", c] => match parseRatVec? c with | some c => fresh (.multilin c) | none => (s, "bad-op")
  | ["fn", "poly1d", c] => match parseRatVec? c with | some c => fresh (.poly1d c) | none => (s, "bad-op")
  | ["fn", "table", n, kind] =>
    match parseNat? n, kind with
    | some n, "generic" => fresh (.table [] n false)
    | some n, "override" => fresh (.table [] n true)
    | _, _ => (s, "bad-op")
  | ["def", p, v] =>
    match s, parseRatVec? p, parseRatVec? v with
    | some d, some p, some v =>
      match d.desc with
      | .table t n ov => (some { d with desc := .table (dset t p v) n ov }, "ok")
      | _ => (s, "bad-op")
    | _, _, _ => (s, "bad-op")
  | ["single", p] =>
    match s, parseRatVec? p with
    | some d, some p => let r := doOp d (.single p); (some r.1, r.2)
    | _, _ => (s, "bad-op")
  | ["batch", ps] =>
    match s, parseBatch? ps with
    | some d, some ps => let r := doOp d (.batch ps); (some r.1, r.2)
    | _, _ => (s, "bad-op")
  | ["reset"] => match s with | some d => let r := doOp d .reset; (some r.1, r.2) | none => (s, "bad-op")
  | ["deact"] => match s with | some d => let r := doOp d .deactivate; (some r.1, r.2) | none => (s, "bad-op")
  | ["size"] => match s with | some d => let r := doOp d .size; (some r.1, r.2) | none => (s, "bad-op")
  | ["keys"] =>
    match s with
    | some d => (s, fmtVals ((keys d.st.fdict).mergeSort lexLeRat))
    | none => (s, "bad-op")
  | ["trace"] =>
    match s with
    | some d =>
      let ops := d.hist.reverse
      let t := trace Cfg.current ops
      (s, s!"{if t.cacheOn then "on" else "off"} counted={t.counted.length} distinct={(t.evaluated.foldl insertNew []).length} guard={noSingleWhileOff true ops}")
    | none => (s, "bad-op")
  | ["ana", "const", v, a, b] =>
    match parseRat? v, parseRatVec? a, parseRatVec? b with
    | some v, some a, some b => (s, fmtRat (anaConst v a b)) | _, _, _ => (s, "bad-op")
  | ["ana", "linear", c, a, b] =>
    match parseRatVec? c, parseRatVec? a, parseRatVec? b with
    | some c, some a, some b => (s, fmtRat (anaLinear c a b)) | _, _, _ => (s, "bad-op")
  | ["ana", "poly", k, c, a, b] =>
    match parseNat? k, parseRatVec? c, parseRatVec? a, parseRatVec? b with
    | some k, some c, some a, some b => (s, fmtRat (anaPolynomial k c a b)) | _, _, _, _ => (s, "bad-op")
  | ["ana", "multilin", c, a, b] =>
    match parseRatVec? c, parseRatVec? a, parseRatVec? b with
    | some c, some a, some b => (s, fmtRat (anaMultilinearCurrent c a b)) | _, _, _ => (s, "bad-op")
  | ["ana", "multilincoded", c, a, b] =>
    match parseRatVec? c, parseRatVec? a, parseRatVec? b with
    | some c, some a, some b => (s, fmtRat (anaMultilinear c a b)) | _, _, _ => (s, "bad-op")
  | ["ana", "multilinfixed", c, a, b] =>
    match parseRatVec? c, parseRatVec? a, parseRatVec? b with
    | some c, some a, some b => (s, fmtRat (anaMultilinearFixed c a b)) | _, _, _ => (s, "bad-op")
  | ["ana", "poly1d", c, a, b] =>
    match parseRatVec? c, parseRat? a, parseRat? b with
    | some c, some a, some b => (s, fmtRat (anaPoly1d c a b)) | _, _, _ => (s, "bad-op")
  | ["evl", "linear", c, x] =>
    match parseRatVec? c, parseRatVec? x with
    | some c, some x => (s, fmtRat (evalLinear c x)) | _, _ => (s, "bad-op")
  | ["evl", "linearvec", c, x] =>
    match parseRatVec? c, parseRatVec? x with
    | some c, some x => (s, fmtRat (evalLinearVec c x)) | _, _ => (s, "bad-op")
  | ["evl", "multilin", c, x] =>
    match parseRatVec? c, parseRatVec? x with
    | some c, some x => (s, fmtRat (evalMultilinear c x)) | _, _ => (s, "bad-op")
  | ["evl", "poly", k, c, x] =>
    match parseNat? k, parseRatVec? c, parseRatVec? x with
    | some k, some c, some x => (s, fmtRat (evalPolynomial k c x)) | _, _, _ => (s, "bad-op")
  | ["evl", "poly1d", c, x] =>
    match parseRatVec? c, parseRat? x with
    | some c, some x => (s, fmtRat (evalPoly1d c x)) | _, _ => (s, "bad-op")
  | toks =>
    match toks with
    | "anaT" :: _ | "evlT" :: _ => (s, (transLine toks).getD "bad-op")
    | _ => (s, "bad-op")

end SparseSpace.Drive.C12

def main : IO Unit := SparseSpace.Drive.runLoop SparseSpace.Drive.C12.stepLine none
