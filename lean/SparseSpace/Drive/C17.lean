import SparseSpace.Model.DensityCache
import SparseSpace.Drive.Util
/-! Line-protocol driver for the cache model of `DensityEstimation` (C17).  Stateful.

    init <reuse 0|1> <lambda> <data> <signs|-> <argsort per dim: i,j,..;i,j,..>   → ok
    grid <stripes> <max_levels>      → R <matrix> B <vector>             (N <= 40)
                                     → RS <row sums> RD <diagonal> RW <R·c> B <vector>   (larger; c_j = ((7919 j) mod 13 + 1)/16)
    post                             → ok            (post_processing)
    rcache                           → number of entries of old_R
    key <hats I> <hats J>            → <flag>|<widths>|<distances> value <keyValue> entry <rValue>
    recompute <hats>                 → the entry as recomputed by the reuse path | the sample mean
    interp small|large <stripes> <alpha> <x>  → rational
-/
namespace SparseSpace.Drive.C17
open SparseSpace SparseSpace.Drive SparseSpace.Gram SparseSpace.DCache

structure St where
  reuse : Bool
  lam : Rat
  data : List (List Rat)
  sg : List Rat
  sortedIdx : List (List Nat)
  cache : Cache

def parseRatVecs? (s : String) : Option (List (List Rat)) :=
  let s := s.trimAscii.toString
  if s == "-" then some [] else (s.splitOn ";").mapM parseRatVec?

def parseNatVecs? (s : String) : Option (List (List Nat)) := do
  let s := s.trimAscii.toString
  let vs ← (s.splitOn ";").mapM parseVec?
  vs.mapM fun v => v.mapM fun (x : Int) => if x ≥ 0 then some x.toNat else none

def parseHats? (s : String) : Option (List Hat1) := do
  let vs ← parseRatVecs? s
  vs.mapM fun v => match v with
    | [p, lo, hi] => some ⟨p, lo, hi⟩
    | _ => none

def parseBool? (s : String) : Option Bool :=
  match s.trimAscii.toString with
  | "0" => some false
  | "1" => some true
  | _ => none

def fmtMat (m : List (List Rat)) : String := "[" ++ ",".intercalate (m.map fmtRatVec) ++ "]"

def validStripes (st : List (List Rat)) : Bool :=
  !st.isEmpty && st.all fun s => decide (s.length ≥ 3) && (s.zip (s.drop 1)).all fun p => decide (p.1 < p.2)

def isPerm (m : Nat) (l : List Nat) : Bool := l.length == m && (List.range m).all fun i => l.contains i

def probeVec (n : Nat) : List Rat := (List.range n).map fun (j : Nat) => (((7919 * j) % 13 + 1 : Nat) : Rat) / 16

def fmtR (R : List (List Rat)) : String :=
  if R.length ≤ 40 then "R " ++ fmtMat R else
    "RS " ++ fmtRatVec (R.map List.sum) ++ " RD " ++ fmtRatVec ((enum R).map fun (ir : Nat × List Rat) => ir.2.getD ir.1 0)
      ++ " RW " ++ fmtRatVec (matVec R (probeVec R.length))

def step (s : Option St) (line : String) : Option St × String :=
  match (line.trimAscii.toString.splitOn " ").filter (· ≠ "") with
  | ["init", reuse, lam, data, sg, sidx] =>
    match parseBool? reuse, parseRat? lam, parseRatVecs? data, parseNatVecs? sidx with
    | some reuse, some lam, some data, some sidx =>
      let sgs : Option (List Rat) := if sg == "-" then some (List.replicate data.length 1) else parseRatVec? sg
      match sgs with
      | some sgs =>
        if data.isEmpty || sgs.length ≠ data.length || !(sidx.all (isPerm data.length))
            || !(data.all fun v => v.length == sidx.length) then (s, "assert")
        else (some ⟨reuse, lam, data, sgs, sidx, {}⟩, "ok")
      | none => (s, "bad-op")
    | _, _, _, _ => (s, "bad-op")
  | ["grid", st, ml] =>
    match s, parseRatVecs? st, parseVec? ml with
    | some S, some st, some ml =>
      if !validStripes st || st.length ≠ S.sortedIdx.length || ml.length ≠ st.length then (s, "assert") else
      let r := evalGrid S.reuse S.cache st ml S.lam S.data S.sg S.sortedIdx
      (some { S with cache := r.2 }, fmtR r.1.1 ++ " B " ++ fmtRatVec r.1.2)
    | _, _, _ => (s, "bad-op")
  | ["post"] =>
    match s with
    | some S => (some { S with cache := postProcessing S.reuse S.cache }, "ok")
    | none => (s, "bad-op")
  | ["rcache"] =>
    match s with
    | some S => (s, toString S.cache.oldR.length)
    | none => (s, "bad-op")
  | ["key", hi, hj] =>
    match parseHats? hi, parseHats? hj with
    | some I, some J =>
      if I.length ≠ J.length || I.isEmpty then (s, "assert") else
      let k := overlapKey I J
      (s, s!"{k.1}|{fmtRatVec k.2.1}|{fmtRatVec k.2.2} value {fmtRat (keyValue k)} entry {fmtRat (rValue I J)}")
    | _, _ => (s, "bad-op")
  | ["recompute", hs] =>
    match s, parseHats? hs with
    | some S, some h =>
      if h.length ≠ S.sortedIdx.length then (s, "assert") else
      (s, fmtRat (bRecompute S.data S.sg S.sortedIdx h) ++ " | " ++ fmtRat (bSpec S.data S.sg h))
    | _, _ => (s, "bad-op")
  | ["interp", kind, st, al, x] =>
    match parseRatVecs? st, parseRatVec? al, parseRatVec? x with
    | some st, some al, some x =>
      if !validStripes st || al.length ≠ (hatsND st).length || x.length ≠ st.length
          || !(x.all fun c => decide (0 ≤ c) && decide (c ≤ 1)) then (s, "assert") else
      match kind with
      | "small" => (s, fmtRat (interpSmallDW st al x))
      | "large" => (s, fmtRat (interpLargeDW st al x))
      | _ => (s, "bad-op")
    | _, _, _ => (s, "bad-op")
  | _ => (s, "bad-op")

end SparseSpace.Drive.C17

def main : IO Unit := SparseSpace.Drive.runLoop SparseSpace.Drive.C17.step none
