import SparseSpace.Model.Romberg
import SparseSpace.Drive.Util
/-! Line-protocol driver for the Romberg extrapolation model (C11).  Stateless: one op per line.

    coeff <e> <m> <j> <a> <b>               → <rat>        get_romberg_coefficient(m, j, e) on [a,b]
    bw <ver> <a> <b> <m>                    → <rat>        RombergWeightFactory.get(a,b,ver).get_boundary_point_weight(m)
    iw <ver> <a> <b> <l> <m>                → <rat> | assert   …get_inner_point_weight(l, m)   (ver 1 default, 2 linear, 3 simpson)
    wts <g> <sv> <cv> <fb> <grid> <levels>  → ok [w,..] | assert-set-grid | assert-weights
         g 1 UNIT 2 GROUPED 3 GROUPED_OPTIMIZED; sv 1 ROMBERG_DEFAULT 2 TRAPEZOID; cv 1 ROMBERG_DEFAULT 4 SIMPSON_ROMBERG; fb 0/1
    state <g> <sv> <cv> <fb> <grid> <levels> → G [..] L [..] C [sizes] S [[l:r;l:r;..],..] | assert
    bal <grid> <levels>                     → ok [w,..] | error
    tree <grid> <levels>                    → G [..] L [..] | assert          init_tree; get_grid; get_grid_levels
    full <grid> <levels>                    → G [..] L [..] | assert          … force_full_tree_invariant …
    incr <grid> <levels>                    → G [..] L [..] | assert          … increment_level_in_each_subtree …
-/
namespace SparseSpace.Drive.C11
open SparseSpace SparseSpace.Drive SparseSpace.Romberg

def parseNatVec? (s : String) : Option (List Nat) :=
  let s := s.trimAscii.toString
  if s == "-" then some [] else (s.splitOn ",").mapM parseNat?

def parseCfg? (g sv cv fb : String) : Option Cfg := do
  let g ← match g with | "1" => some Grouping.unit | "2" => some Grouping.grouped | "3" => some Grouping.optimized | _ => none
  let sv ← match sv with | "1" => some SliceVer.romberg | "2" => some SliceVer.trapezoid | _ => none
  let cv ← match cv with | "1" => some ContVer.default | "4" => some ContVer.simpson | _ => none
  let fb ← match fb with | "0" => some false | "1" => some true | _ => none
  pure ⟨g, sv, cv, fb⟩

def fmtSeq (l : List (Rat × Rat)) : String :=
  "[" ++ ";".intercalate (l.map fun p => fmtRat p.1 ++ ":" ++ fmtRat p.2) ++ "]"

def fmtTree (t : GBT) : String := s!"G {fmtRatVec t.grid} L {fmtNatVec t.gridLevels}"

def step (s : Unit) (line : String) : Unit × String :=
  match (line.trimAscii.toString.splitOn " ").filter (· ≠ "") with
  | ["coeff", e, m, j, a, b] =>
    match parseNat? e, parseNat? m, parseNat? j, parseRat? a, parseRat? b with
    | some e, some m, some j, some a, some b => (s, fmtRat (coeff a b e m j))
    | _, _, _, _, _ => (s, "bad-op")
  | ["bw", v, a, b, m] =>
    match parseNat? v, parseRat? a, parseRat? b, parseNat? m with
    | some 1, some a, some b, some m => (s, fmtRat (trapBoundary a b 2 m))
    | some 2, some a, some b, some m => (s, fmtRat (trapBoundary a b 1 m))
    | some 3, some a, some b, some m => (s, fmtRat (simpBoundary a b m))
    | _, _, _, _ => (s, "bad-op")
  | ["iw", v, a, b, l, m] =>
    match parseNat? v, parseRat? a, parseRat? b, parseNat? l, parseNat? m with
    | some v, some a, some b, some l, some m =>
      if v < 1 ∨ v > 3 then (s, "bad-op") else
      if ¬ (1 ≤ l ∧ l ≤ m) then (s, "assert") else
      (s, fmtRat (if v = 1 then trapInner a b 2 l m else if v = 2 then trapInner a b 1 l m else simpInner a b l m))
    | _, _, _, _, _ => (s, "bad-op")
  | ["wts", g, sv, cv, fb, grid, lv] =>
    match parseCfg? g sv cv fb, parseRatVec? grid, parseNatVec? lv with
    | some cfg, some grid, some lv =>
      match weights cfg grid lv with
      | .ok w => (s, "ok " ++ fmtRatVec w)
      | .assertSetGrid => (s, "assert-set-grid")
      | .assertWeights => (s, "assert-weights")
    | _, _, _ => (s, "bad-op")
  | ["state", g, sv, cv, fb, grid, lv] =>
    match parseCfg? g sv cv fb, parseRatVec? grid, parseNatVec? lv with
    | some cfg, some grid, some lv =>
      match setGrid cfg grid lv with
      | some st =>
        (s, s!"G {fmtRatVec st.grid} L {fmtNatVec st.lv} C {fmtNatVec (st.containers.map (·.length))} S [{",".intercalate (st.slices.map fun x => fmtSeq x.seq)}]")
      | none => (s, "assert")
    | _, _, _ => (s, "bad-op")
  | ["bal", grid, lv] =>
    match parseRatVec? grid, parseNatVec? lv with
    | some grid, some lv =>
      match balancedWeights grid lv with
      | some w => (s, "ok " ++ fmtRatVec w)
      | none => (s, "error")
    | _, _ => (s, "bad-op")
  | [op, grid, lv] =>
    if op ≠ "tree" ∧ op ≠ "full" ∧ op ≠ "incr" then (s, "bad-op") else
    match parseRatVec? grid, parseNatVec? lv with
    | some grid, some lv =>
      match GBT.initTree grid lv with
      | none => (s, "assert")
      | some t => (s, fmtTree (if op = "tree" then t else if op = "full" then t.forceFull else t.incr))
    | _, _ => (s, "bad-op")
  | _ => (s, "bad-op")

end SparseSpace.Drive.C11

def main : IO Unit := SparseSpace.Drive.runLoop SparseSpace.Drive.C11.step ()
