import SparseSpace.Model.Exactness
import SparseSpace.Model.DimWise
import SparseSpace.Drive.Util
/-! Line-protocol driver for the exactness model (C04).

    dw <dim> <lmin> <lmax0> <std|nobd|mod>   → ok      (new dimension-wise state, everything cleared)
    dom <d> <a> <b>                          → ok      (domain ends of dimension d; d must be the next dimension)
    newstate                                 → ok      (clears scheme, index set, table, areas, cells; keeps dw/dom)
    pts <d> <j> <x0,x1,..>                   → ok      (table entry: component level j in dimension d)
    coef <l1,..> <c>                         → ok
    idx <l1,..>                              → ok
    dwint <spec_0> .. <spec_{dim-1}>         → p/q     (combined integral of the tensor function)
    dwval <x0,..> <spec_0> ..                → p/q     (combined interpolant at a point)
    keeps                                    → true | false <k0>
    initidx                                  → [[..],..]
    dyadic <a> <b> <k>                       → [..]
    weights <x0,..>                          → [..]
    quad1 <std|nobd|mod> <spec> <x0,..>      → p/q     (1-D rule)
    interp1 <std|nobd|mod> <spec> <x> <x0,..>→ p/q
    area <s1,e1,s2,e2,..>                    → ok      (new extend–split area)
    act <l1,..> <c>                          → ok      (active component grid of the last area)
    esint <spec_0> ..                        → p/q
    esval <areaindex> <x0,..> <spec_0> ..    → p/q
    cellmin <l1,..>                          → ok
    cell <s1,e1,..> <l1,..>                  → ok
    cellint <spec_0> ..                      → p/q
    cellparents <lmin..> <lv..>              → [[..]:c,..]
    thr <l> <sub> <lmin>                     → int     (level threshold of a component grid with clipped subtraction value)
    subv <version> <dim> <d> <lmin> <lmax_d> <mc_0,..> <max_level> <l>
                                             → int | loop   (Model/DimWise.subValue = get_subtraction_value, exact version-3 rounding)
  spec:  h:<k>:<i>  (hat of level k, index i on the domain of that dimension)  |  a:<alpha>:<beta>
-/
namespace SparseSpace.Drive.C04
open SparseSpace.Exact SparseSpace.Drive

structure St where
  dw : DWState
  rule : Rule
  areas : List Area
  cmin : LV
  cells : List Cell

def St.empty : St :=
  { dw := { dim := 0, lmin := 0, lmax0 := 0, dom := [], scheme := [], idx := [], tbl := [] },
    rule := .std, areas := [], cmin := [], cells := [] }

def parseRule? : String → Option Rule
  | "std" => some .std
  | "nobd" => some .noBd
  | "mod" => some .modified
  | _ => none

def parseSpec? (ab : Rat × Rat) (s : String) : Option Fn1 :=
  match s.splitOn ":" with
  | ["h", k, i] => do
      let k ← parseNat? k
      let i ← parseNat? i
      if i ≤ 2 ^ k && k ≤ 20 then some (.hat ab.1 ab.2 k i) else none
  | ["a", al, be] => do
      let al ← parseRat? al
      let be ← parseRat? be
      some (.aff al be)
  | _ => none

def parseSpecs? (dom : List (Rat × Rat)) (ss : List String) : Option (List Fn1) :=
  if ss.length != dom.length then none else
  (List.zip dom ss).mapM fun p => parseSpec? p.1 p.2

def pairs? : List Rat → Option (List (Rat × Rat))
  | [] => some []
  | s :: e :: rest => (pairs? rest).map ((s, e) :: ·)
  | _ => none

def setEntry (t : List (Int × List Rat)) (j : Int) (xs : List Rat) : List (Int × List Rat) :=
  if t.any (·.1 == j) then t.map (fun e => if e.1 == j then (j, xs) else e) else t ++ [(j, xs)]

def fmtScheme (c : List (LV × Int)) : String :=
  "[" ++ ",".intercalate (c.map fun p => fmtVec p.1 ++ ":" ++ toString p.2) ++ "]"

def uOf (fs : List Fn1) : Nat → Rat → Rat := fun d => (fs.getD d (.aff 0 0)).eval

def step (s : St) (line : String) : St × String :=
  match (line.trimAscii.toString.splitOn " ").filter (· ≠ "") with
  | ["dw", d, lmin, lmax0, r] =>
    match parseNat? d, parseInt? lmin, parseInt? lmax0, parseRule? r with
    | some d, some lmin, some lmax0, some r =>
      if d ≥ 1 && d ≤ 8 && lmin ≥ 0 && lmax0 ≥ lmin && lmax0 ≤ 12 then
        ({ St.empty with dw := { St.empty.dw with dim := d, lmin := lmin, lmax0 := lmax0 }, rule := r }, "ok")
      else (s, "assert")
    | _, _, _, _ => (s, "bad-op")
  | ["dom", d, a, b] =>
    match parseNat? d, parseRat? a, parseRat? b with
    | some d, some a, some b =>
      if d == s.dw.dom.length && d < s.dw.dim && a < b then
        ({ s with dw := { s.dw with dom := s.dw.dom ++ [(a, b)], tbl := s.dw.tbl ++ [[]] } }, "ok")
      else (s, "assert")
    | _, _, _ => (s, "bad-op")
  | ["newstate"] =>
    ({ s with dw := { s.dw with scheme := [], idx := [], tbl := s.dw.dom.map fun _ => [] }, areas := [], cells := [] }, "ok")
  | ["pts", d, j, xs] =>
    match parseNat? d, parseInt? j, parseRatVec? xs with
    | some d, some j, some xs =>
      if d < s.dw.tbl.length then
        ({ s with dw := { s.dw with tbl := s.dw.tbl.modify d (fun t => setEntry t j xs) } }, "ok")
      else (s, "assert")
    | _, _, _ => (s, "bad-op")
  | ["coef", l, c] =>
    match parseVec? l, parseInt? c with
    | some l, some c => ({ s with dw := { s.dw with scheme := s.dw.scheme ++ [(l, c)] } }, "ok")
    | _, _ => (s, "bad-op")
  | ["idx", l] =>
    match parseVec? l with
    | some l => ({ s with dw := { s.dw with idx := s.dw.idx ++ [l] } }, "ok")
    | _ => (s, "bad-op")
  | "dwint" :: specs =>
    match parseSpecs? s.dw.dom specs with
    | some fs => if s.dw.dom.length == s.dw.dim then (s, fmtRat (s.dw.integral s.rule fs)) else (s, "assert")
    | none => (s, "bad-op")
  | "dwval" :: x :: specs =>
    match parseRatVec? x, parseSpecs? s.dw.dom specs with
    | some x, some fs =>
      if s.dw.dom.length == s.dw.dim && x.length == s.dw.dim then (s, fmtRat (s.dw.value s.rule fs x)) else (s, "assert")
    | _, _ => (s, "bad-op")
  | ["keeps"] =>
    if s.dw.dom.length != s.dw.dim then (s, "assert") else
    if keepsInitial s.dw then (s, "true") else
      (s, "false " ++ (match lostLevel s.dw with | some k => fmtVec k | none => "scheme-not-tabulated"))
  | ["initidx"] => (s, fmtVecs (sortVecs (initIdx s.dw.dim s.dw.lmin s.dw.lmax0)))
  | ["dyadic", a, b, k] =>
    match parseRat? a, parseRat? b, parseNat? k with
    | some a, some b, some k => if k ≤ 12 then (s, fmtRatVec (dyadic a b k)) else (s, "assert")
    | _, _, _ => (s, "bad-op")
  | ["weights", xs] =>
    match parseRatVec? xs with
    | some xs => (s, fmtRatVec (weights xs))
    | none => (s, "bad-op")
  | ["quad1", r, spec, xs] =>
    match parseRule? r, parseRatVec? xs with
    | some r, some xs =>
      match parseSpec? (firstD xs, lastD xs) spec with
      | some f => (s, fmtRat (r.quad f.eval xs))
      | none => (s, "bad-op")
    | _, _ => (s, "bad-op")
  | ["interp1", r, spec, x, xs] =>
    match parseRule? r, parseRat? x, parseRatVec? xs with
    | some r, some x, some xs =>
      match parseSpec? (firstD xs, lastD xs) spec with
      | some f => if firstD xs ≤ x && x ≤ lastD xs && xs.length ≥ 2 then (s, fmtRat (r.interp f.eval xs x)) else (s, "assert")
      | none => (s, "bad-op")
    | _, _, _ => (s, "bad-op")
  | ["area", b] =>
    match (parseRatVec? b).bind pairs? with
    | some box => if box.length == s.dw.dim then ({ s with areas := s.areas ++ [{ box := box, act := [] }] }, "ok") else (s, "assert")
    | none => (s, "bad-op")
  | ["act", l, c] =>
    match parseVec? l, parseInt? c, s.areas.getLast? with
    | some l, some c, some A =>
      if l.length == s.dw.dim && l.all (fun j => decide (0 ≤ j ∧ j ≤ 12)) then
        ({ s with areas := s.areas.dropLast ++ [{ A with act := A.act ++ [(l, c)] }] }, "ok")
      else (s, "assert")
    | _, _, _ => (s, "bad-op")
  | "esint" :: specs =>
    match parseSpecs? s.dw.dom specs with
    | some fs => (s, fmtRat (esIntegral s.areas (uOf fs)))
    | none => (s, "bad-op")
  | "esval" :: i :: x :: specs =>
    match parseNat? i, parseRatVec? x, parseSpecs? s.dw.dom specs with
    | some i, some x, some fs =>
      match s.areas[i]? with
      | some A => (s, fmtRat (A.value (uOf fs) x))
      | none => (s, "assert")
    | _, _, _ => (s, "bad-op")
  | ["cellmin", l] =>
    match parseVec? l with
    | some l => if l.length == s.dw.dim then ({ s with cmin := l, cells := [] }, "ok") else (s, "assert")
    | none => (s, "bad-op")
  | ["cell", b, l] =>
    match (parseRatVec? b).bind pairs?, parseVec? l with
    | some box, some l =>
      if box.length == s.dw.dim && l.length == s.dw.dim && l.all (fun j => decide (0 ≤ j ∧ j ≤ 20)) then
        ({ s with cells := s.cells ++ [{ box := box, lv := l }] }, "ok")
      else (s, "assert")
    | _, _ => (s, "bad-op")
  | "cellint" :: specs =>
    match parseSpecs? s.dw.dom specs with
    | some fs => (s, fmtRat (cellIntegral s.dw.dom s.cmin (uOf fs) s.cells))
    | none => (s, "bad-op")
  | ["subv", v, dim, d, lmin, lmaxd, mcs, ml, l] =>
    match parseNat? v, parseNat? dim, parseNat? d, parseInt? lmin, parseInt? lmaxd, parseVec? mcs, parseNat? ml, parseInt? l with
    | some v, some dim, some d, some lmin, some lmaxd, some mcs, some ml, some l =>
      if dim ≥ 1 && d < dim && mcs.length == dim && lmaxd ≤ 64 && lmaxd ≥ 0 then
        let r := SparseSpace.subValue v dim d SparseSpace.v3Exact lmin lmaxd mcs ml l
        (s, if r.2 then toString r.1 else "loop")
      else (s, "assert")
    | _, _, _, _, _, _, _, _ => (s, "bad-op")
  | ["thr", l, sub, lmin] =>
    match parseInt? l, parseInt? sub, parseInt? lmin with
    | some l, some sub, some lmin => (s, toString (keepThreshold l sub lmin))
    | _, _, _ => (s, "bad-op")
  | ["cellparents", lmin, lv] =>
    match parseVec? lmin, parseVec? lv with
    | some lmin, some lv => if lmin.length == lv.length then (s, fmtScheme (cellParents lmin lv)) else (s, "assert")
    | _, _ => (s, "bad-op")
  | _ => (s, "bad-op")

end SparseSpace.Drive.C04

def main : IO Unit := SparseSpace.Drive.runLoop SparseSpace.Drive.C04.step SparseSpace.Drive.C04.St.empty
