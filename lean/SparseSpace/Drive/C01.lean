import SparseSpace.Model.Combi
import SparseSpace.Drive.Util
/-! Line-protocol driver for the `CombiScheme` model (C01).

    init <dim> <lmax> <lmin>   → ok
    upd <v1,v2,..>             → none | ret [d,..]
    state                      → A [[..],..] O [[..],..] L <lmax_adaptive>
    scheme                     → [[l..]:c,...]  (sorted)
    std <dim> <lmin> <lmax>    → same format
    domsum <t1,t2,..>          → <int>
-/
namespace SparseSpace.Drive.C01
open SparseSpace SparseSpace.Drive

def fmtScheme (c : List (LV × Int)) : String :=
  let c := c.mergeSort (fun a b => lexLe a.1 b.1)
  "[" ++ ",".intercalate (c.map fun p => fmtVec p.1 ++ ":" ++ toString p.2) ++ "]"

def step (s : Option CS) (line : String) : Option CS × String :=
  match (line.trimAscii.toString.splitOn " ").filter (· ≠ "") with
  | ["init", d, lmax, lmin] =>
    match parseNat? d, parseInt? lmax, parseInt? lmin with
    | some d, some lmax, some lmin =>
      if d ≥ 1 && lmin ≥ 0 && lmax ≥ lmin then (some (CS.init d lmax lmin), "ok") else (s, "assert")
    | _, _, _ => (s, "bad-op")
  | ["upd", v] =>
    match s, parseVec? v with
    | some st, some lv =>
      let r := st.update lv
      (some r.1, match r.2 with | none => "none" | some ds => "ret " ++ fmtNatVec ds)
    | _, _ => (s, "bad-op")
  | ["state"] =>
    match s with
    | some st => (s, s!"A {fmtVecs (sortVecs st.active)} O {fmtVecs (sortVecs st.old)} L {st.lmaxAd}")
    | none => (s, "bad-op")
  | ["scheme"] =>
    match s with
    | some st => (s, fmtScheme st.coeffs)
    | none => (s, "bad-op")
  | ["std", d, lmin, lmax] =>
    match parseNat? d, parseInt? lmin, parseInt? lmax with
    | some d, some lmin, some lmax => (s, fmtScheme (stdScheme d lmin lmax))
    | _, _, _ => (s, "bad-op")
  | ["domsum", v] =>
    match s, parseVec? v with
    | some st, some t => (s, toString (domSum st.coeffs t))
    | _, _ => (s, "bad-op")
  | _ => (s, "bad-op")

end SparseSpace.Drive.C01

def main : IO Unit := SparseSpace.Drive.runLoop SparseSpace.Drive.C01.step none
