import SparseSpace.Model.DimWise
import SparseSpace.Drive.Util
/-! Line-protocol driver for the dimension-wise refinement model (C06 and C03).

    init <lmin> <lmax> <a1,..> <b1,..>               → ok | assert
    cfg <version> <sv:d:val;…|->                     → ok          (component-grid version, float roundings of version 3)
    step|try <margin> <reb 0|1> <sf> <p:q:n:b;…|-> <bens0>|<bens1>|…
                                                     → ok R <d:i,…> C <p:q:n,…;…> F <0|1>   | fail
    eval            → ok   (cursor effect of evaluate_operation: clear_new_objects)
    objs <d>        → s:e:l0:l1:c,…          cursors → cur sp,… sn,… pop;…
    lmax            → [..]                   cs      → A [[..]] O [[..]] L n          scheme → [[..]:c,…]
    wf <a1,..> <b1,..> → 1|0 per clause      pts <l1,..> → c,..;l,..|…  D <0|1>
    pcs <x1,..|x1,..|…> → <int>,…            interp <seed> <bd 0|1> <a> <b> <x1,..|…> → p/q,…   (try = step without commit)
    f <seed> <x1,..> → p/q
-/
namespace SparseSpace.Drive.C06
open SparseSpace SparseSpace.Drive

structure S where
  st : Option DW := none
  cfg : PtCfg := { version := 6 }

def fmtIval (x : Ival) : String :=
  s!"{fmtRat x.s}:{fmtRat x.e}:{x.l0}:{x.l1}:{x.c}"

def fmtScheme (c : List (LV × Int)) : String :=
  let c := c.mergeSort (fun a b => lexLe a.1 b.1)
  "[" ++ ",".intercalate (c.map fun p => fmtVec p.1 ++ ":" ++ toString p.2) ++ "]"

def parseBens (s : String) : Option (List (List Rat)) :=
  (s.splitOn "|").mapM parseRatVec?

def parseQuad (s : String) : Option ((Nat × Nat × Nat) × Bool) :=
  match s.splitOn ":" with
  | [p, q, n, b] => do
    let p ← parseNat? p; let q ← parseNat? q; let n ← parseNat? n; let b ← parseNat? b
    if b > 1 then none else some ((p, q, n), b == 1)
  | _ => none

def parseOverrides (s : String) : Option (List ((Nat × Nat × Nat) × Bool)) :=
  if s == "-" then some [] else (s.splitOn ";").mapM parseQuad

def parseFix (s : String) : Option (List ((Int × Nat) × Int)) :=
  if s == "-" then some [] else
  (s.splitOn ";").mapM fun t =>
    match t.splitOn ":" with
    | [sv, d, v] => do
      let sv ← parseInt? sv; let d ← parseNat? d; let v ← parseInt? v
      some ((sv, d), v)
    | _ => none

/-- value table: an integer hash of the reduced numerators / denominators, in eighths -/
def tableF (seed : Nat) (p : List Rat) : Rat :=
  let h : Int := (p.zipIdx.foldl (fun (acc : Int) (q : Rat × Nat) =>
      acc + (q.1.num * 7919 + (q.1.den : Int) * 104729) * (((q.2 : Int) + 1) * 31 + (seed : Int))) (seed : Int)) % 65
  (h : Rat) / 8 - 4

def fmtPts (st : DW) (cfg : PtCfg) (lv : LV) : String :=
  let parts := lv.zipIdx.map fun (p : Int × Nat) =>
    let pts := st.dimPoints cfg p.2 p.1
    ",".intercalate (pts.map (fun q => fmtRat q.1)) ++ ";" ++ ",".intercalate (pts.map (fun q => toString q.2))
  let done := lv.zipIdx.all fun (p : Int × Nat) => st.dimPointsDone cfg p.2 p.1
  "|".intercalate parts ++ " D " ++ (if done then "1" else "0")

def wfLine (st : DW) (a b : List Rat) : String :=
  let per := st.m.conts.zipIdx.map fun (p : Cont × Nat) =>
    let objs := p.1.objs
    let lm := st.lmax.getD p.2 0
    let t := tilingOK (a.getD p.2 0) (b.getD p.2 0) objs
    let v := validLevels 0 0 (innerLevels objs)
    let c := objs.all fun x => x.c == lm - ((max x.l0 x.l1 : Nat) : Int) && x.c ≥ 0
    let m := objs.all fun x => ((max x.l0 x.l1 : Nat) : Int) ≤ lm
    let cur := p.1.pop.isEmpty && (p.1.startNew == 0 || p.1.startNew == objs.length) && p.1.searchPos == 0
    s!"{if t then 1 else 0}{if v then 1 else 0}{if c then 1 else 0}{if m then 1 else 0}{if cur then 1 else 0}"
  ",".intercalate per

def doStep (s : S) (commit : Bool) (margin reb sf ov bens : String) : S × String :=
  match s.st, parseRat? margin, parseNat? reb, parseRat? sf, parseOverrides ov, parseBens bens with
  | some st, some margin, some reb, some sf, some ov, some bens =>
    if reb > 1 || bens.map (·.length) != st.m.conts.map (·.objs.length) then (s, "bad-op") else
    let dec := fun p q n => match ov.lookup (p, q, n) with
                            | some b => b
                            | none => ratDec sf p q n
    match st.step bens margin (reb == 1) dec with
    | none => (s, "fail")
    | some o =>
      let r := ",".intercalate (o.refined.map fun p => s!"{p.1}:{p.2}")
      let c := ";".intercalate (o.cmps.map fun t => ",".intercalate (t.map fun q => s!"{q.1}:{q.2.1}:{q.2.2}"))
      ((if commit then { s with st := some o.st } else s), s!"ok R {r} C {c} F {if o.raiseDone then 1 else 0}")
  | _, _, _, _, _, _ => (s, "bad-op")

def step (s : S) (line : String) : S × String :=
  match (line.trimAscii.toString.splitOn " ").filter (· ≠ "") with
  | ["init", lmin, lmax, a, b] =>
    match parseNat? lmin, parseNat? lmax, parseRatVec? a, parseRatVec? b with
    | some lmin, some lmax, some a, some b =>
      if a.length == b.length && a.length ≥ 1 && lmax > 1 && lmax ≥ lmin
          && (List.zipWith (fun x y => decide (x < y)) a b).all id then
        ({ s with st := some (DW.init lmin lmax a b) }, "ok")
      else (s, "assert")
    | _, _, _, _ => (s, "bad-op")
  | ["cfg", v, fix] =>
    match parseNat? v, parseFix fix with
    | some v, some fix =>
      if v == 2 || v == 3 || v == 6 || v == 7 || v == 8 then
        ({ s with cfg := { version := v,
                           v3r := fun sv dim d => match fix.lookup (sv, d) with
                                                  | some r => r
                                                  | none => v3Exact sv dim d } }, "ok")
      else (s, "bad-op")
    | _, _ => (s, "bad-op")
  | ["step", margin, reb, sf, ov, bens] => doStep s true margin reb sf ov bens
  | ["try", margin, reb, sf, ov, bens] => doStep s false margin reb sf ov bens
  | ["eval"] =>
    match s.st with
    | some st => ({ s with st := some st.evaluate }, "ok")
    | none => (s, "bad-op")
  | ["objs", d] =>
    match s.st, parseNat? d with
    | some st, some d =>
      if d < st.m.conts.length then (s, ",".intercalate ((st.objsOf d).map fmtIval)) else (s, "bad-op")
    | _, _ => (s, "bad-op")
  | ["cursors"] =>
    match s.st with
    | some st =>
      let cs := st.m.conts
      (s, s!"{st.m.cur} {fmtNatVec (cs.map (·.searchPos))} {fmtNatVec (cs.map (·.startNew))} {";".intercalate (cs.map fun c => fmtNatVec c.pop)}")
    | none => (s, "bad-op")
  | ["lmax"] =>
    match s.st with
    | some st => (s, fmtVec st.lmax)
    | none => (s, "bad-op")
  | ["cs"] =>
    match s.st with
    | some st => (s, s!"A {fmtVecs (sortVecs st.cs.active)} O {fmtVecs (sortVecs st.cs.old)} L {st.cs.lmaxAd}")
    | none => (s, "bad-op")
  | ["scheme"] =>
    match s.st with
    | some st => (s, fmtScheme st.cs.coeffs)
    | none => (s, "bad-op")
  | ["wf", a, b] =>
    match s.st, parseRatVec? a, parseRatVec? b with
    | some st, some a, some b => (s, wfLine st a b)
    | _, _, _ => (s, "bad-op")
  | ["pts", lv] =>
    match s.st, parseVec? lv with
    | some st, some lv => if lv.length == st.dim then (s, fmtPts st s.cfg lv) else (s, "bad-op")
    | _, _ => (s, "bad-op")
  | ["pcs", xs] =>
    match s.st, (xs.splitOn "|").mapM parseRatVec? with
    | some st, some xs =>
      if xs.all (·.length == st.dim) then
        let gs := st.schemeGrids s.cfg
        (s, ",".intercalate (xs.map fun x => toString (pointCoeffSumG gs x)))
      else (s, "bad-op")
    | _, _ => (s, "bad-op")
  | ["interp", seed, bd, a, b, xs] =>
    match s.st, parseNat? seed, parseNat? bd, parseRatVec? a, parseRatVec? b, (xs.splitOn "|").mapM parseRatVec? with
    | some st, some seed, some bd, some a, some b, some xs =>
      if !(xs.all (·.length == st.dim)) || bd > 1 then (s, "bad-op") else
      let f := if bd == 1 then tableF seed else zeroBoundary a b (tableF seed)
      let gs := st.schemeGrids s.cfg
      (s, ",".intercalate (xs.map fun x => fmtRat (combiInterpG gs f x)))
    | _, _, _, _, _, _ => (s, "bad-op")
  | ["f", seed, x] =>
    match parseNat? seed, parseRatVec? x with
    | some seed, some x => (s, fmtRat (tableF seed x))
    | _, _ => (s, "bad-op")
  | _ => (s, "bad-op")

end SparseSpace.Drive.C06

def main : IO Unit := SparseSpace.Drive.runLoop SparseSpace.Drive.C06.step {}
