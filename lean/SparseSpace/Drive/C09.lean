import SparseSpace.Model.GlobalQuad
import SparseSpace.Drive.Util
/-! Line-protocol driver for the global trapezoidal model (C09).

    cw <md:0|1> <a> <b> <pts>                       → [w,..] | err <kind>
    setgrid <boundary> <md> <a> <b> <pts> <levels>  → C [..] W [..] L [..] | err <kind>
    integ <boundary> <md> <a> <b> <pts> <vals>      → Σ w_i f_i over the grid's own points (vals for coords) | err <kind>
    tensor <ws> <vs>                                → [w_i * v_j ...] (first factor outermost)
    pl <pts> <vals>                                 → plIntegral
    plz <pts> <ivals>                               → plIntegralZero
    plx <pts> <ivals>                               → plIntegralExtrap
-/
namespace SparseSpace.Drive.C09
open SparseSpace SparseSpace.GlobalQuad SparseSpace.Drive

def fmtErr : GQErr → String
  | .index => "err index"
  | .assert => "err assert"
  | .zerodiv => "err zerodiv"

def parseBool? (s : String) : Option Bool :=
  if s == "1" then some true else if s == "0" then some false else none

def step (s : Unit) (line : String) : Unit × String :=
  match (line.trimAscii.toString.splitOn " ").filter (· ≠ "") with
  | ["cw", md, a, b, pts] =>
    match parseBool? md, parseRat? a, parseRat? b, parseRatVec? pts with
    | some md, some a, some b, some pts =>
      (s, match computeWeights pts a b md with
          | .ok ws => fmtRatVec ws
          | .error e => fmtErr e)
    | _, _, _, _ => (s, "bad-op")
  | ["setgrid", bd, md, a, b, pts, lv] =>
    match parseBool? bd, parseBool? md, parseRat? a, parseRat? b, parseRatVec? pts, parseVec? lv with
    | some bd, some md, some a, some b, some pts, some lv =>
      (s, match setGrid bd md a b pts lv with
          | .ok g => s!"C {fmtRatVec g.coords} W {fmtRatVec g.weights} L {fmtVec g.levels}"
          | .error e => fmtErr e)
    | _, _, _, _, _, _ => (s, "bad-op")
  | ["integ", bd, md, a, b, pts, vals] =>
    match parseBool? bd, parseBool? md, parseRat? a, parseRat? b, parseRatVec? pts, parseRatVec? vals with
    | some bd, some md, some a, some b, some pts, some vals =>
      (s, match setGrid bd md a b pts (pts.map fun _ => 0) with
          | .ok g => if g.coords.length == vals.length then fmtRat (dot g.weights vals) else "bad-op"
          | .error e => fmtErr e)
    | _, _, _, _, _, _ => (s, "bad-op")
  | ["tensor", ws, vs] =>
    match parseRatVec? ws, parseRatVec? vs with
    | some ws, some vs => (s, fmtRatVec (tensor ws vs))
    | _, _ => (s, "bad-op")
  | ["pl", pts, vals] =>
    match parseRatVec? pts, parseRatVec? vals with
    | some pts, some vals => if pts.length == vals.length then (s, fmtRat (plIntegral pts vals)) else (s, "bad-op")
    | _, _ => (s, "bad-op")
  | ["plz", pts, vals] =>
    match parseRatVec? pts, parseRatVec? vals with
    | some pts, some vals => if pts.length == vals.length + 2 then (s, fmtRat (plIntegralZero pts vals)) else (s, "bad-op")
    | _, _ => (s, "bad-op")
  | ["plx", pts, vals] =>
    match parseRatVec? pts, parseRatVec? vals with
    | some pts, some vals => if pts.length == vals.length + 2 then (s, fmtRat (plIntegralExtrap pts vals)) else (s, "bad-op")
    | _, _ => (s, "bad-op")
  | _ => (s, "bad-op")

end SparseSpace.Drive.C09

def main : IO Unit := SparseSpace.Drive.runLoop SparseSpace.Drive.C09.step ()
