import SparseSpace.Model.DataSet
import SparseSpace.Drive.Util
/-! Line-protocol driver for the `DataSet` model (C18).  State: the pool of live objects (ids 0,1,2,…).

    reset                          → ok
    new <rows> <labels>            → id <n> | err value        rows `1/2,3;4,5` (`-` = no rows), labels `0,-1` (`-`)
    get <id>                       → canonical state of the object
    n                              → number of objects
    sr <id> <lo> <hi> <ov>         → ok | err <kind>           scale_range
    sf <id> <S q|V q,..> <ov>      → ok | err <kind>           scale_factor
    sh <id> <S q|V q,..> <ov>      → ok | err <kind>           shift_value
    rv <id>                        → ok | err <kind>           revert_scaling
    shuf <id> <perm>               → ok                        (perm must be a permutation of 0..n-1, else bad-op)
    bnd <id>                       → [i,..]                    boundary rows (sorted)
    mb <id> <order>                → ok                        (order must enumerate the boundary rows, else bad-op)
    labs <id>                      → [l,..]                    distinct labels (sorted)
    sl <id> <order>                → ids a b .. | err <kind>   split_labels (order must enumerate the labels)
    sw <id>                        → ids a b | err <kind>      split_without_labels
    sp <id> <p>                    → ids a b | err <kind>      split_pieces
    rm <id> <idx>                  → id r | err <kind>         remove_samples
    rlc <id> <p>                   → <count>                   number of labels remove_labels(p) removes
    rl <id> <p> <idx>              → ok | err <kind>           remove_labels (idx must be `count` distinct labelled positions)
    cc <i> <j>                     → id r | err <kind>         concatenate (r may be i or j)
    lc <ids>                       → id r | err <kind>         list_concatenate
    ss <i> <j>                     → true | false | err <kind> same_scaling
    cp <i>                         → id r                      objs[i].copy()
    mk <i>                         → id r                      DataSet(objs[i].get_data())
    cells <i>                      → v=<n> l=<n>               identities of the value / label array of object i
-/
namespace SparseSpace.Drive.C18
open SparseSpace.DSM SparseSpace.Drive

def fmtErr : Err → String
  | .value => "err value" | .index => "err index" | .type => "err type"
  | .zerodiv => "err zerodiv" | .attr => "err attr" | .nonfinite => "err nonfinite"

def fmtB (b : Bool) : String := if b then "1" else "0"

def fmtOptVec : Option (List Rat) → String
  | none => "none"
  | some v => fmtRatVec v

def fmtDS (s : DS) : String :=
  let smp := "[" ++ ",".intercalate (s.samples.map fun p => fmtRatVec p.1 ++ ":" ++ fmtRat p.2) ++ "]"
  let rng := match s.range with
    | none => "none"
    | some (.pair lo hi) => s!"P {fmtRat lo} {fmtRat hi}"
    | some (.arrs a b) => s!"A {fmtRatVec a} {fmtRatVec b}"
  let fac := match s.factor with
    | none => "none"
    | some (.scalar q) => s!"S {fmtRat q}"
    | some (.vec v) => s!"V {fmtRatVec v}"
  let off := match s.offset with
    | none => "none"
    | some (.scalar q) => s!"S {fmtRat q}"
    | some (.vec v) => s!"V {fmtRatVec v}"
  s!"S {smp} dim={s.dim} flat={fmtB s.flat} shuf={fmtB s.shuffled} scaled={fmtB s.scaled} range={rng} fac={fac} omin={fmtOptVec s.omin} omax={fmtOptVec s.omax} off={off}"

def parseRows? (s : String) : Option (List Row) :=
  let s := s.trimAscii.toString
  if s == "-" then some [] else (s.splitOn ";").mapM parseRatVec?

def parseNatVec? (s : String) : Option (List Nat) :=
  let s := s.trimAscii.toString
  if s == "-" then some [] else (s.splitOn ",").mapM parseNat?

def parseBool? (s : String) : Option Bool :=
  match s.trimAscii.toString with
  | "0" => some false
  | "1" => some true
  | _ => none

def parseFac? (k v : String) : Option Fac :=
  match k with
  | "S" => (parseRat? v).map Fac.scalar
  | "V" => (parseRatVec? v).map Fac.vec
  | _ => none

def sortNat (l : List Nat) : List Nat := l.mergeSort (· ≤ ·)
def sortInt (l : List Int) : List Int := l.mergeSort (· ≤ ·)
def sortRat (l : List Rat) : List Rat := l.mergeSort (fun a b => decide (a ≤ b))

def isPermOfRange (perm : List Nat) (n : Nat) : Bool := sortNat perm == List.range n

def distinctLabels (s : DS) : List Rat := sortRat s.labels.eraseDups

def fmtIds (from_ n : Nat) : String := "ids " ++ " ".intercalate ((List.range n).map fun k => toString (from_ + k))

def inplaceOut (r : Pool × Option Err) : Pool × String :=
  (r.1, match r.2 with | none => "ok" | some e => fmtErr e)

def step (P : Pool) (line : String) : Pool × String :=
  match (line.trimAscii.toString.splitOn " ").filter (· ≠ "") with
  | ["reset"] => (Pool.empty, "ok")
  | ["n"] => (P, toString P.objs.length)
  | ["new", rows, labs] =>
    match parseRows? rows, parseRatVec? labs with
    | some rs, some ls =>
      if rs.length != ls.length then (P, "bad-op")
      else if rs.any (fun r => r.length != (rs.head?.map List.length).getD 0) then (P, "bad-op")
      else match ctorChecked (rs.zip ls) with
        | .error e => (P, fmtErr e)
        | .ok d => (P.add d none none, s!"id {P.objs.length}")
    | _, _ => (P, "bad-op")
  | ["get", i] =>
    match (parseNat? i).bind P.get? with
    | some o => (P, fmtDS o.ds)
    | none => (P, "bad-op")
  | ["sr", i, lo, hi, ov] =>
    match parseNat? i, parseRat? lo, parseRat? hi, parseBool? ov with
    | some i, some lo, some hi, some ov =>
      if i < P.objs.length then inplaceOut (P.inplace i (.scaleRange lo hi ov)) else (P, "bad-op")
    | _, _, _, _ => (P, "bad-op")
  | ["sf", i, k, v, ov] =>
    match parseNat? i, parseFac? k v, parseBool? ov with
    | some i, some f, some ov =>
      if i < P.objs.length then inplaceOut (P.inplace i (.scaleFactor f ov)) else (P, "bad-op")
    | _, _, _ => (P, "bad-op")
  | ["sh", i, k, v, ov] =>
    match parseNat? i, parseFac? k v, parseBool? ov with
    | some i, some f, some ov =>
      if i < P.objs.length then inplaceOut (P.inplace i (.shiftValue f ov)) else (P, "bad-op")
    | _, _, _ => (P, "bad-op")
  | ["rv", i] =>
    match parseNat? i with
    | some i => if i < P.objs.length then inplaceOut (P.inplace i .revert) else (P, "bad-op")
    | none => (P, "bad-op")
  | ["shuf", i, perm] =>
    match (parseNat? i).bind P.get?, parseNat? i, parseNatVec? perm with
    | some o, some i, some perm =>
      if isPermOfRange perm o.ds.samples.length then inplaceOut (P.inplace i (.shuffle perm)) else (P, "bad-op")
    | _, _, _ => (P, "bad-op")
  | ["bnd", i] =>
    match (parseNat? i).bind P.get? with
    | some o => (P, fmtNatVec (boundaryRows o.ds))
    | none => (P, "bad-op")
  | ["mb", i, order] =>
    match (parseNat? i).bind P.get?, parseNat? i, parseNatVec? order with
    | some o, some i, some order =>
      if sortNat order == boundaryRows o.ds then inplaceOut (P.inplace i (.moveBoundaries order)) else (P, "bad-op")
    | _, _, _ => (P, "bad-op")
  | ["labs", i] =>
    match (parseNat? i).bind P.get? with
    | some o => (P, fmtRatVec (distinctLabels o.ds))
    | none => (P, "bad-op")
  | ["sl", i, order] =>
    match (parseNat? i).bind P.get?, parseNat? i, parseRatVec? order with
    | some o, some i, some order =>
      if sortRat order == distinctLabels o.ds then
        let n0 := P.objs.length
        match P.splitLabels i order with
        | (P', .ok k) => (P', fmtIds n0 k)
        | (P', .error e) => (P', fmtErr e)
      else (P, "bad-op")
    | _, _, _ => (P, "bad-op")
  | ["sw", i] =>
    match parseNat? i with
    | some i =>
      if i < P.objs.length then
        let n0 := P.objs.length
        match P.splitWithoutLabels i with
        | (P', .ok k) => (P', fmtIds n0 k)
        | (P', .error e) => (P', fmtErr e)
      else (P, "bad-op")
    | none => (P, "bad-op")
  | ["sp", i, p] =>
    match parseNat? i, parseRat? p with
    | some i, some p =>
      if i < P.objs.length then
        let n0 := P.objs.length
        match P.splitPieces i p with
        | (P', .ok k) => (P', fmtIds n0 k)
        | (P', .error e) => (P', fmtErr e)
      else (P, "bad-op")
    | _, _ => (P, "bad-op")
  | ["rm", i, idx] =>
    match parseNat? i, parseVec? idx with
    | some i, some idx =>
      if i < P.objs.length then
        let n0 := P.objs.length
        match P.removeSamples i idx with
        | (P', .ok _) => (P', s!"id {n0}")
        | (P', .error e) => (P', fmtErr e)
      else (P, "bad-op")
    | _, _ => (P, "bad-op")
  | ["rlc", i, p] =>
    match (parseNat? i).bind P.get?, parseRat? p with
    | some o, some p => (P, toString (removeLabelsCount o.ds p))
    | _, _ => (P, "bad-op")
  | ["rl", i, p, idx] =>
    match (parseNat? i).bind P.get?, parseNat? i, parseRat? p, parseNatVec? idx with
    | some o, some i, some p, some idx =>
      let nl := (o.ds.samples.filter (fun q => q.2 ≥ 0)).length
      if idx.length == removeLabelsCount o.ds p && idx.eraseDups.length == idx.length && idx.all (· < nl) then
        inplaceOut (P.inplace i (.removeLabels idx))
      else (P, "bad-op")
    | _, _, _, _ => (P, "bad-op")
  | ["cc", i, j] =>
    match parseNat? i, parseNat? j with
    | some i, some j =>
      if i < P.objs.length && j < P.objs.length then
        let n0 := P.objs.length
        match P.concatenate i j with
        | (P', .ok (.old k)) => (P', s!"id {k}")
        | (P', .ok .new) => (P', s!"id {n0}")
        | (P', .error e) => (P', fmtErr e)
      else (P, "bad-op")
    | _, _ => (P, "bad-op")
  | ["lc", ids] =>
    match parseNatVec? ids with
    | some ids =>
      if ids.all (· < P.objs.length) then
        let n0 := P.objs.length
        match P.listConcatenate ids with
        | (P', .ok (.old k)) => (P', s!"id {k}")
        | (P', .ok .new) => (P', s!"id {n0}")
        | (P', .error e) => (P', fmtErr e)
      else (P, "bad-op")
    | none => (P, "bad-op")
  | ["cp", i] =>
    match parseNat? i with
    | some i =>
      if i < P.objs.length then
        let n0 := P.objs.length
        match P.copy i with
        | (P', .ok _) => (P', s!"id {n0}")
        | (P', .error e) => (P', fmtErr e)
      else (P, "bad-op")
    | none => (P, "bad-op")
  | ["mk", i] =>
    match parseNat? i with
    | some i =>
      if i < P.objs.length then
        let n0 := P.objs.length
        match P.rebuild i with
        | (P', .ok _) => (P', s!"id {n0}")
        | (P', .error e) => (P', fmtErr e)
      else (P, "bad-op")
    | none => (P, "bad-op")
  | ["cells", i] =>
    match (parseNat? i).bind P.get? with
    | some o => (P, s!"v={o.vcell} l={o.lcell}")
    | none => (P, "bad-op")
  | ["ss", i, j] =>
    match (parseNat? i).bind P.get?, (parseNat? j).bind P.get? with
    | some a, some b =>
      match sameScaling a.ds b.ds with
      | .ok true => (P, "true")
      | .ok false => (P, "false")
      | .error e => (P, fmtErr e)
    | _, _ => (P, "bad-op")
  | _ => (P, "bad-op")

end SparseSpace.Drive.C18

def main : IO Unit := SparseSpace.Drive.runLoop SparseSpace.Drive.C18.step SparseSpace.DSM.Pool.empty
