import SparseSpace.Model.Regress
import SparseSpace.Drive.Util
/-! Line-protocol driver for the regression model (C20).  State: training samples `X`, targets `y`.

    data <row>;<row>;...        rows = comma separated rationals             → ok <m> <dim>
    y <v1,v2,...>                                                             → ok <m>
    AU <l1,l2,..>               design matrix, uniform component grid         → [[..],[..]]
    CU <l1,l2,..>               build_C_matrix                                → matrix
    SYSU <lam> <C|I> <lv>       left matrix | right vector                    → matrix|vector
    RESU <lam> <C|I> <lv> <a1,a2,..>   residual of the solved system at α     → vector
    ANU <s1;s2;..>              design matrix, dimension-wise grid (stripes)  → matrix
    CNU <s1;s2;..>              build_C_matrix_dimension_wise                 → matrix
    SYSNU <lam> <C|I> <stripes>                                               → matrix|vector
    RESNU <lam> <C|I> <stripes> <alpha>                                       → vector
    NORM <v>                    coefs / sum(coefs)                            → vector | nan
    OPT3 <coefs> <errs>         option 3                                      → vector | nan
    SCALE <lo> <hi> <col>       MinMaxScaler on one column                    → vector
-/
namespace SparseSpace.Drive.C20
open SparseSpace.Regress SparseSpace.Drive

structure St where
  X : List (List Rat) := []
  y : List Rat := []

def fmtMat (m : Mat) : String := "[" ++ ",".intercalate (m.map fmtRatVec) ++ "]"

def parseRows? (s : String) : Option (List (List Rat)) :=
  (s.trimAscii.toString.splitOn ";").mapM parseRatVec?

def parseLv? (s : String) : Option (List Nat) := do
  let v ← parseVec? s
  if v.all (· ≥ 0) && v.length ≥ 1 then some (v.map Int.toNat) else none

/-- stripes must have at least 2 coordinates each -/
def parseStripes? (s : String) : Option (List (List Rat)) := do
  let r ← parseRows? s
  if r.length ≥ 1 && r.all (·.length ≥ 2) then some r else none

def regMat? (m : String) (n : Nat) (c : Unit → Mat) : Option Mat :=
  if m == "C" then some (c ()) else if m == "I" then some (idMat n) else none

def okData (s : St) (dim : Nat) : Bool :=
  s.X.length ≥ 1 && s.X.length == s.y.length && s.X.all (·.length == dim)

def sysOut (s : St) (n : Nat) (A : Mat) (lam : Rat) (M : Mat) : String :=
  fmtMat (lhs n A s.y lam M) ++ "|" ++ fmtRatVec (rhs n A s.y)

def step (s : St) (line : String) : St × String :=
  match (line.trimAscii.toString.splitOn " ").filter (· ≠ "") with
  | ["data", r] =>
    match parseRows? r with
    | some rows =>
      match rows with
      | [] => (s, "bad-op")
      | r0 :: _ =>
        if rows.all (·.length == r0.length) && r0.length ≥ 1 then
          ({ s with X := rows }, s!"ok {rows.length} {r0.length}") else (s, "bad-op")
    | none => (s, "bad-op")
  | ["y", v] =>
    match parseRatVec? v with
    | some ys => ({ s with y := ys }, s!"ok {ys.length}")
    | none => (s, "bad-op")
  | ["AU", lv] =>
    match parseLv? lv with
    | some lv => if s.X.all (·.length == lv.length) then (s, fmtMat (designU lv s.X)) else (s, "bad-op")
    | none => (s, "bad-op")
  | ["CU", lv] =>
    match parseLv? lv with
    | some lv => (s, fmtMat (cMatrixU lv))
    | none => (s, "bad-op")
  | ["SYSU", lam, m, lv] =>
    match parseRat? lam, parseLv? lv with
    | some lam, some lv =>
      let n := (indexList lv).length
      match regMat? m n (fun _ => cMatrixU lv) with
      | some M => if okData s lv.length then (s, sysOut s n (designU lv s.X) lam M) else (s, "bad-op")
      | none => (s, "bad-op")
    | _, _ => (s, "bad-op")
  | ["RESU", lam, m, lv, al] =>
    match parseRat? lam, parseLv? lv, parseRatVec? al with
    | some lam, some lv, some al =>
      let n := (indexList lv).length
      match regMat? m n (fun _ => cMatrixU lv) with
      | some M =>
        if okData s lv.length && al.length == n then
          (s, fmtRatVec (residual n (designU lv s.X) s.y lam M al)) else (s, "bad-op")
      | none => (s, "bad-op")
    | _, _, _ => (s, "bad-op")
  | ["ANU", st] =>
    match parseStripes? st with
    | some st => if s.X.all (·.length == st.length) then (s, fmtMat (designNU st s.X)) else (s, "bad-op")
    | none => (s, "bad-op")
  | ["CNU", st] =>
    match parseStripes? st with
    | some st => (s, fmtMat (cMatrixNU st))
    | none => (s, "bad-op")
  | ["SYSNU", lam, m, st] =>
    match parseRat? lam, parseStripes? st with
    | some lam, some st =>
      let n := (pointsNU st).length
      match regMat? m n (fun _ => cMatrixNU st) with
      | some M => if okData s st.length then (s, sysOut s n (designNU st s.X) lam M) else (s, "bad-op")
      | none => (s, "bad-op")
    | _, _ => (s, "bad-op")
  | ["RESNU", lam, m, st, al] =>
    match parseRat? lam, parseStripes? st, parseRatVec? al with
    | some lam, some st, some al =>
      let n := (pointsNU st).length
      match regMat? m n (fun _ => cMatrixNU st) with
      | some M =>
        if okData s st.length && al.length == n then
          (s, fmtRatVec (residual n (designNU st s.X) s.y lam M al)) else (s, "bad-op")
      | none => (s, "bad-op")
    | _, _, _ => (s, "bad-op")
  | ["NORM", v] =>
    match parseRatVec? v with
    | some c => (s, match opticom12 c with | some r => fmtRatVec r | none => "nan")
    | none => (s, "bad-op")
  | ["OPT3", c, e] =>
    match parseRatVec? c, parseRatVec? e with
    | some c, some e =>
      if c.length == e.length then (s, match opticom3 c e with | some r => fmtRatVec r | none => "nan")
      else (s, "bad-op")
    | _, _ => (s, "bad-op")
  | ["SCALE", lo, hi, col] =>
    match parseRat? lo, parseRat? hi, parseRatVec? col with
    | some lo, some hi, some col => (s, fmtRatVec (scaleCol lo hi col))
    | _, _, _ => (s, "bad-op")
  | _ => (s, "bad-op")

end SparseSpace.Drive.C20

def main : IO Unit := SparseSpace.Drive.runLoop SparseSpace.Drive.C20.step {}
