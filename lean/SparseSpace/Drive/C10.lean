import SparseSpace.Model.Hier
import SparseSpace.Drive.Util
/-! Line-protocol driver for `Model/Hier` (C10).  Rationals `p/q`; vectors `a,b,c` (`-` = empty).

    val  <spec> <x>                 → basis value          spec = L:<knots>:<i> | R:<knots>:<i> | B:<p>:<knots>:<k>
    der  <spec> <x>                 → first derivative
    int  <spec> <a> <b> <c> <w>     → get_integral(a,b,c,w)
    hk   <p> <0|1> <xs> <levels>    → x:knots:index;…  (knot selection of the hierarchical Lagrange grids) | assert
    tk   <p> <xs> <levels>          → the same from the refinement-TREE recursion (`RTree.ofPoints`, `RTree.grid`), points in
                                      increasing order | no-tree   (the theorems `collocation_unitriangular`,
                                      `hier_lagrange_solvable` speak about this construction)
    reset                           → ok
    dim  <xs> <spec;spec;…>         → ok      (appends a dimension: coordinates and its basis objects)
    colloc <d>                      → rows `a,b;c,d`
    hier <T>                        → surpluses | none     (one component, flat row-major)
    interp <S> <y>                  → value of the interpolant at the point y
    nodes <S>                       → values at all grid nodes, row-major
-/
namespace SparseSpace.Drive.C10
open SparseSpace SparseSpace.Hier SparseSpace.Drive

def fmtV (l : List Rat) : String := if l.isEmpty then "-" else ",".intercalate (l.map fmtRat)

def parseSpec? (s : String) : Option Basis :=
  match s.trimAscii.toString.splitOn ":" with
  | ["L", kn, i] => do
      let kn ← parseRatVec? kn
      let i ← parseNat? i
      if i < kn.length then some (Basis.lag kn i) else none
  | ["R", kn, i] => do
      let kn ← parseRatVec? kn
      let i ← parseNat? i
      if i < kn.length then some (Basis.lagR kn i) else none
  | ["B", p, kn, k] => do
      let p ← parseNat? p
      let kn ← parseRatVec? kn
      let k ← parseNat? k
      -- `assert(index <= len(knots) - p - 2)`
      if k + p + 2 ≤ kn.length then some (Basis.bsp p kn k) else none
  | _ => none

structure St where
  dims : List Dim1 := []

/-- all multi-indices in row-major order (`get_cross_product_range`) -/
def nodeIndices : List Dim1 → List (List Nat)
  | [] => [[]]
  | D :: rest => (List.range D.n).flatMap fun (i : Nat) => (nodeIndices rest).map (i :: ·)

def step (s : St) (line : String) : St × String :=
  match (line.trimAscii.toString.splitOn " ").filter (· ≠ "") with
  | ["val", sp, x] =>
    match parseSpec? sp, parseRat? x with
    | some b, some x => (s, fmtRat (b.eval x))
    | _, _ => (s, "bad-op")
  | ["der", sp, x] =>
    match parseSpec? sp, parseRat? x with
    | some b, some x => (s, fmtRat (b.deriv x))
    | _, _ => (s, "bad-op")
  | ["int", sp, a, b, c, w] =>
    match parseSpec? sp, parseRat? a, parseRat? b, parseRatVec? c, parseRatVec? w with
    | some bs, some a, some b, some c, some w =>
      if c.length == w.length then (s, fmtRat (bs.integral a b c w)) else (s, "bad-op")
    | _, _, _, _, _ => (s, "bad-op")
  | ["hk", p, bd, xs, ls] =>
    match parseNat? p, parseNat? bd, parseRatVec? xs, parseVec? ls with
    | some p, some bd, some xs, some ls =>
      if xs.length != ls.length || ls.any (· < 0) || bd > 1 || p == 0 then (s, "bad-op") else
      match hierKnots p (bd == 1) (List.zip xs (ls.map Int.toNat)) with
      | none => (s, "assert")
      | some r => (s, ";".intercalate (r.map fun q => s!"{fmtRat q.1}:{fmtV q.2.1}:{q.2.2}"))
    | _, _, _, _ => (s, "bad-op")
  | ["tk", p, xs, ls] =>
    match parseNat? p, parseRatVec? xs, parseVec? ls with
    | some p, some xs, some ls =>
      if xs.length != ls.length || ls.any (· < 0) || p == 0 || xs.length < 2 then (s, "bad-op") else
      let pts := List.zip xs (ls.map Int.toNat)
      let a := xs.headD 0
      let b := xs.getLastD 0
      if pts.head?.map (·.2) != some 0 || pts.getLast?.map (·.2) != some 0 then (s, "no-tree") else
      match RTree.ofPoints xs.length ((pts.drop 1).dropLast) a b 0 with
      | none => (s, "no-tree")
      | some t => (s, ";".intercalate ((t.grid p a b).map fun e => s!"{fmtRat e.x}:{fmtV e.knots}:{e.idx}"))
    | _, _, _ => (s, "bad-op")
  | ["reset"] => ({ dims := [] }, "ok")
  | ["dim", xs, specs] =>
    match parseRatVec? xs, (specs.splitOn ";").mapM parseSpec? with
    | some xs, some bs => ({ dims := s.dims ++ [{ basis := bs.map Basis.eval, xs := xs }] }, "ok")
    | _, _ => (s, "bad-op")
  | ["colloc", d] =>
    match parseNat? d with
    | some d =>
      match s.dims[d]? with
      | some D => (s, ";".intercalate ((colloc D).map fmtV))
      | none => (s, "bad-op")
    | none => (s, "bad-op")
  | ["hier", t] =>
    match parseRatVec? t with
    | some T =>
      if T.length != size s.dims then (s, "bad-op") else
      match hier gaussSolve s.dims T with
      | some S => (s, fmtV S)
      | none => (s, "none")
    | none => (s, "bad-op")
  | ["interp", sv, y] =>
    match parseRatVec? sv, parseRatVec? y with
    | some S, some y =>
      if S.length != size s.dims || y.length != s.dims.length then (s, "bad-op")
      else (s, fmtRat (interp s.dims y S))
    | _, _ => (s, "bad-op")
  | ["nodes", sv] =>
    match parseRatVec? sv with
    | some S =>
      if S.length != size s.dims then (s, "bad-op") else
      (s, fmtV ((nodeIndices s.dims).map fun p => interp s.dims (nodeCoords s.dims p) S))
    | none => (s, "bad-op")
  | _ => (s, "bad-op")

end SparseSpace.Drive.C10

def main : IO Unit := SparseSpace.Drive.runLoop SparseSpace.Drive.C10.step {}
