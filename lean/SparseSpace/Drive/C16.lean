import SparseSpace.Model.Gram
import SparseSpace.Drive.Util
/-! Line-protocol driver for the density-estimation model (C16).

    vectors `a,b,c` (rationals `p/q`), lists of vectors separated by `;`, `-` = empty / absent

    hat ns|cv|v <p,lo,hi;...> <x>            → rational            (non-uniform hats, three code paths)
    hatu full|in <lv> <ivec> <x>             → rational            (uniform hats, clipped / in-support)
    hatsup <lv> <x>                          → [[i,..],..]         (get_hats_in_support, sorted)
    domains <stripes>                        → hats by neighbours | hats by get_hat_domain
    rdw <stripes> <lambda> <lumped 0|1>      → M [[..],..] | V [..]
    ru <lv> <lambda> <lumped 0|1>            → M [[..],..] | S r
    bdw small|large <stripes> <data> <signs|->   → [..]
    bu small|large <lv> <data> <signs|->         → [..]
    weights <stripes>                        → [..]
    normu <classes 0|1> <alpha>              → [..]
    normw <classes 0|1> <stripes> <alpha>    → [..]
    residdw <stripes> <lambda> <data> <signs|-> <alpha>  → residual R·alpha − b
    residu <lv> <lambda> <data> <signs|-> <alpha>        → residual R·alpha − b
-/
namespace SparseSpace.Drive.C16
open SparseSpace SparseSpace.Drive SparseSpace.Gram

def parseRatVecs? (s : String) : Option (List (List Rat)) :=
  let s := s.trimAscii.toString
  if s == "-" then some [] else (s.splitOn ";").mapM parseRatVec?

def parseHats? (s : String) : Option (List Hat1) := do
  let vs ← parseRatVecs? s
  vs.mapM fun v => match v with
    | [p, lo, hi] => some ⟨p, lo, hi⟩
    | _ => none

def parseLv? (s : String) : Option (List Nat) := do
  let v ← parseVec? s
  v.mapM fun (x : Int) => if x ≥ 0 then some x.toNat else none

def parseBool? (s : String) : Option Bool :=
  match s.trimAscii.toString with
  | "0" => some false
  | "1" => some true
  | _ => none

def fmtMat (m : List (List Rat)) : String := "[" ++ ",".intercalate (m.map fmtRatVec) ++ "]"

def fmtHat (h : Hat1) : String := s!"({fmtRat h.p},{fmtRat h.lo},{fmtRat h.hi})"
def fmtHats (hs : List (List Hat1)) : String :=
  "[" ++ ",".intercalate (hs.map fun h => "[" ++ ",".intercalate (h.map fmtHat) ++ "]") ++ "]"

/-- signs: `-` = no classes = all ones; otherwise one sign per sample -/
def parseSigns? (s : String) (m : Nat) : Option (List Rat) :=
  if s.trimAscii.toString == "-" then some (List.replicate m 1) else do
    let v ← parseRatVec? s
    if v.length == m then some v else none

def validStripes (st : List (List Rat)) : Bool :=
  !st.isEmpty && st.all fun s => decide (s.length ≥ 3) && (s.zip (s.drop 1)).all fun p => decide (p.1 < p.2)

def sameLen (n : Nat) (l : List (List Rat)) : Bool := l.all fun v => v.length == n

def step (u : Unit) (line : String) : Unit × String :=
  (u, match (line.trimAscii.toString.splitOn " ").filter (· ≠ "") with
  | ["hat", kind, hs, x] =>
    match parseHats? hs, parseRatVec? x with
    | some hs, some x =>
      if hs.length ≠ x.length || hs.isEmpty then "assert" else
      if hs.any (fun h => h.hi == h.p || h.lo == h.p) then "degenerate" else
      match kind with
      | "ns" => fmtRat (hatNS hs x)
      | "cv" => fmtRat (hatCV hs x)
      | "v" => fmtRat (hatV hs x)
      | _ => "bad-op"
    | _, _ => "bad-op"
  | ["hatu", kind, lv, iv, x] =>
    match parseLv? lv, parseVec? iv, parseRatVec? x with
    | some lv, some iv, some x =>
      if lv.length ≠ iv.length || lv.length ≠ x.length || lv.isEmpty then "assert" else
      match kind with
      | "full" => fmtRat (hatU lv iv x)
      | "in" => fmtRat (hatUin lv iv x)
      | _ => "bad-op"
    | _, _, _ => "bad-op"
  | ["hatsup", lv, x] =>
    match parseLv? lv, parseRatVec? x with
    | some lv, some x => if lv.length ≠ x.length then "assert" else fmtVecs (sortVecs (hatsInSupport lv x))
    | _, _ => "bad-op"
  | ["domains", st] =>
    match parseRatVecs? st with
    | some st => if !validStripes st then "assert" else fmtHats (hatsND st) ++ " | " ++ fmtHats (hatsNDsearch st)
    | none => "bad-op"
  | ["rdw", st, lam, lumped] =>
    match parseRatVecs? st, parseRat? lam, parseBool? lumped with
    | some st, some lam, some lumped =>
      if !validStripes st then "assert" else
      if lumped then "V " ++ fmtRatVec (buildRDWlumped st lam) else "M " ++ fmtMat (buildRDW st lam)
    | _, _, _ => "bad-op"
  | ["ru", lv, lam, lumped] =>
    match parseLv? lv, parseRat? lam, parseBool? lumped with
    | some lv, some lam, some lumped =>
      if lv.isEmpty then "assert" else
      if lumped then "S " ++ fmtRat (uDiag lv) else "M " ++ fmtMat (buildRU lv lam)
    | _, _, _ => "bad-op"
  | ["bdw", kind, st, data, sg] =>
    match parseRatVecs? st, parseRatVecs? data with
    | some st, some data =>
      match parseSigns? sg data.length with
      | some sg =>
        if !validStripes st || data.isEmpty || !sameLen st.length data then "assert" else
        match kind with
        | "small" => fmtRatVec (bSmallDW st data sg)
        | "large" => fmtRatVec (bLargeDW st data sg)
        | _ => "bad-op"
      | none => "bad-op"
    | _, _ => "bad-op"
  | ["bu", kind, lv, data, sg] =>
    match parseLv? lv, parseRatVecs? data with
    | some lv, some data =>
      match parseSigns? sg data.length with
      | some sg =>
        if lv.isEmpty || data.isEmpty || !sameLen lv.length data then "assert" else
        match kind with
        | "small" => fmtRatVec (bSmallU lv data sg)
        | "large" => fmtRatVec (bLargeU lv data sg)
        | _ => "bad-op"
      | none => "bad-op"
    | _, _ => "bad-op"
  | ["weights", st] =>
    match parseRatVecs? st with
    | some st => if !validStripes st then "assert" else fmtRatVec (trapWeights st)
    | none => "bad-op"
  | ["normu", cls, al] =>
    match parseBool? cls, parseRatVec? al with
    | some cls, some al => if al.isEmpty then "assert" else fmtRatVec (normaliseU cls al)
    | _, _ => "bad-op"
  | ["normw", cls, st, al] =>
    match parseBool? cls, parseRatVecs? st, parseRatVec? al with
    | some cls, some st, some al =>
      if !validStripes st || al.length ≠ (trapWeights st).length then "assert" else fmtRatVec (normaliseW cls (trapWeights st) al)
    | _, _, _ => "bad-op"
  | ["residdw", st, lam, data, sg, al] =>
    match parseRatVecs? st, parseRat? lam, parseRatVecs? data, parseRatVec? al with
    | some st, some lam, some data, some al =>
      match parseSigns? sg data.length with
      | some sg =>
        if !validStripes st || data.isEmpty || !sameLen st.length data || al.length ≠ (hatsND st).length then "assert" else
        fmtRatVec (residual (buildRDW st lam) al (bSmallDW st data sg))
      | none => "bad-op"
    | _, _, _, _ => "bad-op"
  | ["residu", lv, lam, data, sg, al] =>
    match parseLv? lv, parseRat? lam, parseRatVecs? data, parseRatVec? al with
    | some lv, some lam, some data, some al =>
      match parseSigns? sg data.length with
      | some sg =>
        if lv.isEmpty || data.isEmpty || !sameLen lv.length data || al.length ≠ (uIndexList lv).length then "assert" else
        fmtRatVec (residual (buildRU lv lam) al (bSmallU lv data sg))
      | none => "bad-op"
    | _, _, _, _ => "bad-op"
  | _ => "bad-op")

end SparseSpace.Drive.C16

def main : IO Unit := SparseSpace.Drive.runLoop SparseSpace.Drive.C16.step ()
