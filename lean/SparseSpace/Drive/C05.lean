import SparseSpace.Model.Accum
import SparseSpace.Drive.Util
/-! Line-protocol driver for the accumulation model (C05), values are exact rationals (`ratOps`).

    comps  :=  comp;comp;…  | -            comp := <coeff>|<areaid>=<val>,<areaid>=<val>,…   (ids not listed: not computed)
    contribs := <coeff>=<val>,…  | -

    es-init <id,id,…>                → state           ES.init
    es-eval <comps>                  → state           evalOp        (evaluate_operation)
    es-final <comps>                 → state           finalOp       (evaluate_final_combi as coded)
    es-final-reset <comps>           → state           finalOpReset  (evaluate_final_combi with C05-fix-1)
    es-refine <pops|-> <adds|->      → state | raise   refineOp      (refine())
    es-return <0|1> <comps>          → <value>         esReturn      (state := finalOp … if 1)
    es-return-fixed <0|1> <comps>    → <value>         esReturnFixed (state := finalOpReset … if 1)
    es-reinit                        → state           reinitOp      (reinit_new_objects, recalculate_frequently)
    es-state                         → I <integral> C <container value> A [id:val|id:None,…] S <startNew> P [..]
    dw-eval|dw-final|dw-final-reset <contribs>  → I <integral> C <container value>
    dw-return <0|1> <contribs>       → <value>   (state := dwFinal … if 1)
    std <contribs>                   → <value>         stdRun
    da-init                          → ok              empty dictionary, empty table of component results
    da-q <lv> <val>                  → ok              Q(lv) := val
    da-iter <lv:c;lv:c;…>            → V <value> D [[lv],…]   daIter  (dictionary keys in insertion order)
    pw <c|x,x:w|x,x:w;c|…> <x,x=val|x,x=val|…>   → W [w,…] V <value>   combinedRule / applyRule
-/
namespace SparseSpace.Drive.C05
open SparseSpace.Accum SparseSpace.Drive

structure St where
  es : Option (ES Rat) := none
  dw : DW Rat := ⟨0, 0⟩
  dict : List (LV × Rat) := []
  qtab : List (LV × Rat) := []

def splitNE (s : String) (sep : String) : List String := (s.splitOn sep).filter (· ≠ "")

/-- `id=val,id=val` -/
def parseAssoc? (s : String) : Option (List (Nat × Rat)) :=
  if s == "" then some [] else
  (s.splitOn ",").mapM fun kv =>
    match kv.splitOn "=" with
    | [k, v] => do let k ← parseNat? k; let v ← parseRat? v; pure (k, v)
    | _ => none

def parseComp? (s : String) : Option (Comp Rat) :=
  match s.splitOn "|" with
  | [c, tab] => do
    let c ← parseInt? c
    let tab ← parseAssoc? tab
    pure ⟨c, fun i => tab.lookup i⟩
  | _ => none

def parseComps? (s : String) : Option (List (Comp Rat)) :=
  if s == "-" then some [] else (s.splitOn ";").mapM parseComp?

def parseContribs? (s : String) : Option (List (Int × Rat)) :=
  if s == "-" then some [] else
  (s.splitOn ",").mapM fun kv =>
    match kv.splitOn "=" with
    | [k, v] => do let k ← parseInt? k; let v ← parseRat? v; pure (k, v)
    | _ => none

def parseNats? (s : String) : Option (List Nat) :=
  if s == "-" then some [] else (s.splitOn ",").mapM parseNat?

def fmtArea (a : Area Rat) : String :=
  toString a.id ++ ":" ++ (match a.value with | none => "None" | some v => fmtRat v)

def fmtES (s : ES Rat) : String :=
  s!"I {fmtRat s.integral} C {fmtRat s.contValue} A [{",".intercalate (s.areas.map fmtArea)}] S {s.startNew} P {fmtNatVec s.popArray}"

def fmtDW (s : DW Rat) : String := s!"I {fmtRat s.integral} C {fmtRat s.contValue}"

def parseScheme? (s : String) : Option (List (LV × Int)) :=
  if s == "-" then some [] else
  (s.splitOn ";").mapM fun e =>
    match e.splitOn ":" with
    | [lv, c] => do let lv ← parseVec? lv; let c ← parseInt? c; pure (lv, c)
    | _ => none

/-- `c|x,x:w|x,x:w` -/
def parseRuleComp? (s : String) : Option (Int × List (List Rat × Rat)) :=
  match s.splitOn "|" with
  | c :: pws => do
    let c ← parseInt? c
    let pws ← pws.mapM fun pw =>
      match pw.splitOn ":" with
      | [x, w] => do let x ← parseRatVec? x; let w ← parseRat? w; pure (x, w)
      | _ => none
    pure (c, pws)
  | _ => none

def parseFTable? (s : String) : Option (List (List Rat × Rat)) :=
  if s == "-" then some [] else
  (s.splitOn "|").mapM fun e =>
    match e.splitOn "=" with
    | [x, v] => do let x ← parseRatVec? x; let v ← parseRat? v; pure (x, v)
    | _ => none

def step (st : St) (line : String) : St × String :=
  match (line.trimAscii.toString.splitOn " ").filter (· ≠ "") with
  | ["es-init", ids] =>
    match parseNats? ids with
    | some ids => let s := ES.init ratOps ids; ({ st with es := some s }, fmtES s)
    | none => (st, "bad-op")
  | ["es-reinit"] =>
    match st.es with
    | some s => let s := reinitOp ratOps s; ({ st with es := some s }, fmtES s)
    | none => (st, "bad-op")
  | ["es-state"] =>
    match st.es with
    | some s => (st, fmtES s)
    | none => (st, "bad-op")
  | ["es-eval", comps] =>
    match st.es, parseComps? comps with
    | some s, some sch => let s := evalOp ratOps sch s; ({ st with es := some s }, fmtES s)
    | _, _ => (st, "bad-op")
  | ["es-final", comps] =>
    match st.es, parseComps? comps with
    | some s, some sch => let s := finalOp ratOps sch s; ({ st with es := some s }, fmtES s)
    | _, _ => (st, "bad-op")
  | ["es-final-reset", comps] =>
    match st.es, parseComps? comps with
    | some s, some sch => let s := finalOpReset ratOps sch s; ({ st with es := some s }, fmtES s)
    | _, _ => (st, "bad-op")
  | ["es-refine", pops, adds] =>
    match st.es, parseNats? pops, parseNats? adds with
    | some s, some pops, some adds =>
      match refineOp ratOps s ⟨pops, adds⟩ with
      | some s' => ({ st with es := some s' }, fmtES s')
      | none => (st, "raise")
    | _, _, _ => (st, "bad-op")
  | ["es-return", flag, comps] =>
    match st.es, parseNat? flag, parseComps? comps with
    | some s, some 0, some sch => (st, fmtRat (esReturn ratOps false sch s))
    | some s, some 1, some sch => ({ st with es := some (finalOp ratOps sch s) }, fmtRat (esReturn ratOps true sch s))
    | _, _, _ => (st, "bad-op")
  | ["es-return-fixed", flag, comps] =>
    match st.es, parseNat? flag, parseComps? comps with
    | some s, some 0, some sch => (st, fmtRat (esReturnFixed ratOps false sch s))
    | some s, some 1, some sch =>
      ({ st with es := some (finalOpReset ratOps sch s) }, fmtRat (esReturnFixed ratOps true sch s))
    | _, _, _ => (st, "bad-op")
  | ["dw-eval", cs] =>
    match parseContribs? cs with
    | some cs => let d := dwEval ratOps st.dw cs; ({ st with dw := d }, fmtDW d)
    | none => (st, "bad-op")
  | ["dw-final", cs] =>
    match parseContribs? cs with
    | some cs => let d := dwFinal ratOps st.dw cs; ({ st with dw := d }, fmtDW d)
    | none => (st, "bad-op")
  | ["dw-final-reset", cs] =>
    match parseContribs? cs with
    | some cs => let d := dwFinalReset ratOps st.dw cs; ({ st with dw := d }, fmtDW d)
    | none => (st, "bad-op")
  | ["dw-return", flag, cs] =>
    match parseNat? flag, parseContribs? cs with
    | some 0, some cs => (st, fmtRat (dwReturn ratOps false st.dw cs))
    | some 1, some cs => ({ st with dw := dwFinal ratOps st.dw cs }, fmtRat (dwReturn ratOps true st.dw cs))
    | _, _ => (st, "bad-op")
  | ["std", cs] =>
    match parseContribs? cs with
    | some cs => (st, fmtRat (stdRun ratOps cs))
    | none => (st, "bad-op")
  | ["da-init"] => ({ st with dict := [], qtab := [] }, "ok")
  | ["da-q", lv, v] =>
    match parseVec? lv, parseRat? v with
    | some lv, some v =>
      if (st.qtab.lookup lv).isSome then (st, "bad-op") else ({ st with qtab := st.qtab ++ [(lv, v)] }, "ok")
    | _, _ => (st, "bad-op")
  | ["da-iter", sch] =>
    match parseScheme? sch with
    | some sch =>
      if sch.all fun lc => (st.qtab.lookup lc.1).isSome then
        let Q : LV → Rat := fun lv => match st.qtab.lookup lv with | some v => v | none => 0  -- total by the guard above
        let r := daIter ratOps Q st.dict sch
        ({ st with dict := r.1 }, s!"V {fmtRat r.2} D {fmtVecs (r.1.map (·.1))}")
      else (st, "bad-op")
    | none => (st, "bad-op")
  | ["pw", comps, ftab] =>
    match (if comps == "-" then some [] else (comps.splitOn ";").mapM parseRuleComp?), parseFTable? ftab with
    | some comps, some ftab =>
      let rule := combinedRule (fun c (w : Rat) => (c : Rat) * w) comps
      if rule.all fun xw => (ftab.lookup xw.1).isSome then
        let f : List Rat → Rat := fun x => match ftab.lookup x with | some v => v | none => 0  -- total by the guard above
        (st, s!"W {fmtRatVec (rule.map (·.2))} V {fmtRat (applyRule ratOps (fun (w : Rat) v => w * v) f rule)}")
      else (st, "bad-op")
    | _, _ => (st, "bad-op")
  | _ => (st, "bad-op")

end SparseSpace.Drive.C05

def main : IO Unit := SparseSpace.Drive.runLoop SparseSpace.Drive.C05.step {}
