import SparseSpace.Model.UQ
import SparseSpace.Drive.Util
/-! Line-protocol driver for the weighted UQ quadrature model (C15).  Stateless.

    w <B|N> <x0> <x:m0:m1;x:m0:m1;...|->   → ok [w,..] | err shape|neg|zerodiv     (computeWeights; B = boundary)
    raw <x0> <x:m0:m1;...|->               → [w,..]                                (rawWeights)
    mid <a> <b> <cdf(a)> <cdf(b)> <ppf>    → mid <ext|nan> cm <rat>                (middleWeighted; ppf = value ppf returns)
    trap <x0,x1,..>                        → [w,..]                                (trapWeights)
    unimom <a> <b> <x1> <x2>               → <m0> <m1>                             (uniM0, uniM1)
    uniw <a> <b> <x0,x1,..>                → [w,..]                                (rawWeights on uniSegs)
    prep <spec;spec;..>                    → [i,..]     spec = U | T:<mid> | N:<mu>:<sigma>   (reuseIdx)
    prepk <spec@a@b;spec@a@b;..>           → [i,..]     (reuseIdxKeyed: the repaired variant; a, b of N are ignored, write 0)
    ev <W,..> <col|col|..>                 → E [..] V [..]                         (calcExpVar ∘ integralVec)
    mom <m1,..> <m2,..>                    → E [..] V [..]                         (momentsToExpVar)
    tensor <w,..|w,..|..>                  → [w,..]                                (tensorW)
    comb <c:w,..;c:w,..;..>                → [w,..]                                (combineW)
    coordinates: -inf | inf | p/q | p
-/
namespace SparseSpace.Drive.C15
open SparseSpace SparseSpace.Drive SparseSpace.UQ

def parseExt? (s : String) : Option Ext :=
  let s := s.trimAscii.toString
  if s == "-inf" then some .ninf
  else if s == "inf" then some .pinf
  else (parseRat? s).map .fin

def fmtExt : Ext → String
  | .ninf => "-inf"
  | .pinf => "inf"
  | .fin q => fmtRat q

def parseSeg? (s : String) : Option Seg :=
  match s.splitOn ":" with
  | [x, m0, m1] => do
      let x ← parseExt? x
      let m0 ← parseRat? m0
      let m1 ← parseRat? m1
      some { x, m0, m1 }
  | _ => none

def parseSegs? (s : String) : Option (List Seg) :=
  if s == "-" then some [] else (s.splitOn ";").mapM parseSeg?

def parseSpec? (s : String) : Option Spec :=
  match s.splitOn ":" with
  | ["U"] => some .uniform
  | ["T", m] => (parseRat? m).map .triangle
  | ["N", mu, sg] => do
      let mu ← parseRat? mu
      let sg ← parseRat? sg
      some (.normal mu sg)
  | _ => none

def parseDim? (s : String) : Option (Spec × (Rat × Rat)) :=
  match s.splitOn "@" with
  | [sp, a, b] => do
      let sp ← parseSpec? sp
      let a ← parseRat? a
      let b ← parseRat? b
      some (sp, (a, b))
  | _ => none

def parseCols? (s : String) : Option (List (List Rat)) := (s.splitOn "|").mapM parseRatVec?

def parseComp? (s : String) : Option (Rat × List Rat) :=
  match s.splitOn ":" with
  | [c, ws] => do
      let c ← parseRat? c
      let ws ← parseRatVec? ws
      some (c, ws)
  | _ => none

def fmtErr : WErr → String
  | .shape => "err shape"
  | .negWeight => "err neg"
  | .zeroDiv => "err zerodiv"

def fmtEV (p : List Rat × List Rat) : String := s!"E {fmtRatVec p.1} V {fmtRatVec p.2}"

def step (s : Unit) (line : String) : Unit × String :=
  match (line.trimAscii.toString.splitOn " ").filter (· ≠ "") with
  | ["w", bd, x0, segs] =>
    match (if bd == "B" then some true else if bd == "N" then some false else none), parseExt? x0, parseSegs? segs with
    | some bd, some x0, some segs =>
      match computeWeights bd x0 segs with
      | .ok w => (s, "ok " ++ fmtRatVec w)
      | .error e => (s, fmtErr e)
    | _, _, _ => (s, "bad-op")
  | ["raw", x0, segs] =>
    match parseExt? x0, parseSegs? segs with
    | some x0, some segs => (s, fmtRatVec (rawWeights x0 segs))
    | _, _ => (s, "bad-op")
  | ["mid", a, b, ca, cb, p] =>
    match parseExt? a, parseExt? b, parseRat? ca, parseRat? cb, parseExt? p with
    | some a, some b, some ca, some cb, some p =>
      let cdf : Ext → Rat := fun x => if x = a then ca else cb
      let ppf : Rat → Ext := fun _ => p
      let m := match middleWeighted cdf ppf a b with
        | some m => fmtExt m
        | none => "nan"
      (s, s!"mid {m} cm {fmtRat (cdfMid cdf a b)}")
    | _, _, _, _, _ => (s, "bad-op")
  | ["trap", xs] =>
    match parseRatVec? xs with
    | some (x0 :: xs) => (s, fmtRatVec (trapWeights x0 xs))
    | _ => (s, "bad-op")
  | ["unimom", a, b, x1, x2] =>
    match parseRat? a, parseRat? b, parseRat? x1, parseRat? x2 with
    | some a, some b, some x1, some x2 =>
      if a < b then (s, s!"{fmtRat (uniM0 a b x1 x2)} {fmtRat (uniM1 a b x1 x2)}") else (s, "bad-op")
    | _, _, _, _ => (s, "bad-op")
  | ["uniw", a, b, xs] =>
    match parseRat? a, parseRat? b, parseRatVec? xs with
    | some a, some b, some (x0 :: xs) =>
      if a < b then (s, fmtRatVec (rawWeights (.fin x0) (uniSegs a b x0 xs))) else (s, "bad-op")
    | _, _, _ => (s, "bad-op")
  | ["prep", specs] =>
    match (specs.splitOn ";").mapM parseSpec? with
    | some specs => (s, fmtNatVec (reuseIdx specs))
    | none => (s, "bad-op")
  | ["prepk", dims] =>
    match (dims.splitOn ";").mapM parseDim? with
    | some dims => (s, fmtNatVec (reuseIdxKeyed dims))
    | none => (s, "bad-op")
  | ["ev", w, cols] =>
    match parseRatVec? w, parseCols? cols with
    | some w, some cols =>
      if cols.all (fun c => c.length == w.length) then (s, fmtEV (calcExpVar (integralVec w cols))) else (s, "bad-op")
    | _, _ => (s, "bad-op")
  | ["mom", m1, m2] =>
    match parseRatVec? m1, parseRatVec? m2 with
    | some m1, some m2 => if m1.length ≤ m2.length then (s, fmtEV (momentsToExpVar m1 m2)) else (s, "bad-op")
    | _, _ => (s, "bad-op")
  | ["tensor", ws] =>
    match parseCols? ws with
    | some ws => (s, fmtRatVec (tensorW ws))
    | none => (s, "bad-op")
  | ["comb", cs] =>
    match (cs.splitOn ";").mapM parseComp? with
    | some cs => (s, fmtRatVec (combineW cs))
    | none => (s, "bad-op")
  | _ => (s, "bad-op")

end SparseSpace.Drive.C15

def main : IO Unit := SparseSpace.Drive.runLoop SparseSpace.Drive.C15.step ()
