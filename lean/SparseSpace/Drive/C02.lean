import SparseSpace.Model.StdCombi
import SparseSpace.Drive.Util
import Std.Data.HashMap
/-! Line-protocol driver for the `StandardCombi` model (C02).

    cfg <dim> <lmin> <lmax> <bd:0|1 or per dimension 1,0,..> <a1,a2,..> <b1,b2,..>   → ok | assert
    scheme                     → [l1,l2]:c;[..]:c;...   (in the order of the code)
    points <l1,l2,..>          → x1,x2|x1,x2|...        (in the order of the code)
    weights <l1,l2,..>         → w|w|...
    count <l1,l2,..>           → n1,n2,..=N
    countfresh <l1,l2,..>      → error | n1,..=N        (count on a grid on which no area was ever set)
    union                      → sorted duplicate-free points of all component grids
    coefsum <x1,x2|x1,x2|...>  → point-wise coefficient sums of the given points
    pw                         → x1,x2:w|...            (combined points and weights, order of the code)
    tab <x1,x2:v|x1,x2:v|...>  → ok                     (function table, 0 elsewhere; `tab -` = zero function)
    integral                   → combined integral
    comp <l1,l2,..>            → integral on one component grid
    call <x1,x2|x1,x2|...>     → v|v|... or error       (combined interpolant)
    icomp <l1,..> <x1,x2|...>  → v|v|... or error       (interpolant of one component grid)
    igrid <c11,c12;c21,..>     → v|v|... or error       (interpolate_grid)
    hat <a> <b> <k> <i> <t1,t2,..> → v|v|...            (1-D nodal hat of level k at node i; test function of the harness)
-/
namespace SparseSpace.Drive.C02
open SparseSpace SparseSpace.Drive

structure St where
  dim : Nat
  lmin : Int
  lmax : Int
  bd : Flags
  a : List Rat
  b : List Rat
  c : List (LV × Int)
  tab : Std.HashMap (List (Int × Nat)) Rat

/-- one flag for all dimensions (`1` / `0`) or one flag per dimension (`1,0,..`) -/
def flagsOf (l : List Int) : Flags :=
  match l with
  | [v] => Flags.const (v == 1)
  | _ => fun d => match l[d]? with
    | some v => v == 1
    | none => true

def key (p : List Rat) : List (Int × Nat) := p.map fun r => (r.num, r.den)

def St.f (s : St) : List Rat → Rat := fun p => (s.tab.get? (key p)).getD 0

def fmtPt (p : List Rat) : String := ",".intercalate (p.map fmtRat)

def fmtPts (ps : List (List Rat)) : String := "|".intercalate (ps.map fmtPt)

def fmtVals (vs : List Rat) : String := "|".intercalate (vs.map fmtRat)

def lexLeRat : List Rat → List Rat → Bool
  | [], _ => true
  | _ :: _, [] => false
  | x :: xs, y :: ys => if x < y then true else if y < x then false else lexLeRat xs ys

def dedupSorted : List (List Rat) → List (List Rat)
  | x :: y :: rest => if x == y then dedupSorted (y :: rest) else x :: dedupSorted (y :: rest)
  | l => l

def sortedUnion (s : St) : List (List Rat) :=
  dedupSorted ((unionPoints s.a s.b s.bd s.c).mergeSort lexLeRat)

def parsePts? (w : String) : Option (List (List Rat)) :=
  if w == "-" then some [] else (w.splitOn "|").mapM parseRatVec?

def parseTab? (w : String) : Option (List (List Rat × Rat)) :=
  if w == "-" then some [] else
  (w.splitOn "|").mapM fun e =>
    match e.splitOn ":" with
    | [p, v] => do
        let p ← parseRatVec? p
        let v ← parseRat? v
        pure (p, v)
    | _ => none

def parseLv? (s : St) (w : String) : Option LV :=
  match parseVec? w with
  | some lv => if lv.length == s.dim && lv.all (· ≥ 0) then some lv else none
  | none => none

def step (s : Option St) (line : String) : Option St × String :=
  match (line.trimAscii.toString.splitOn " ").filter (· ≠ "") with
  | ["cfg", d, lmin, lmax, bd, a, b] =>
    match parseNat? d, parseInt? lmin, parseInt? lmax, parseVec? bd, parseRatVec? a, parseRatVec? b with
    | some d, some lmin, some lmax, some bd, some a, some b =>
      if d ≥ 1 && lmin ≥ 1 && bd.all (fun v => v == 0 || v == 1) && (bd.length == 1 || bd.length == d)
          && a.length == d && b.length == d
          && (List.zipWith (fun x y => decide (x < y)) a b).all id then
        (some { dim := d, lmin, lmax, bd := flagsOf bd, a, b, c := stdScheme d lmin lmax, tab := {} }, "ok")
      else (s, "assert")
    | _, _, _, _, _, _ => (s, "bad-op")
  | ["scheme"] =>
    match s with
    | some st => (s, ";".intercalate (st.c.map fun p => fmtVec p.1 ++ ":" ++ toString p.2))
    | none => (s, "bad-op")
  | ["points", v] =>
    match s with
    | some st => match parseLv? st v with
      | some lv => (s, fmtPts (gridPoints st.a st.b lv st.bd))
      | none => (s, "bad-op")
    | none => (s, "bad-op")
  | ["weights", v] =>
    match s with
    | some st => match parseLv? st v with
      | some lv => (s, fmtVals (gridWeights st.a st.b lv st.bd))
      | none => (s, "bad-op")
    | none => (s, "bad-op")
  | ["count", v] =>
    match s with
    | some st => match parseLv? st v with
      | some lv => (s, ",".intercalate ((gridNumPoints lv st.bd).map toString) ++ "=" ++ toString (gridNumPointsTotal lv st.bd))
      | none => (s, "bad-op")
    | none => (s, "bad-op")
  | ["countfresh", v] =>
    match s with
    | some st => match parseLv? st v with
      | some lv =>
        match lv.zipIdx.mapM (fun (l, d) => levelNumPoints? false l.toNat (st.bd d)) with
        | some ns => (s, ",".intercalate (ns.map toString) ++ "=" ++ toString (ns.foldl (· * ·) 1))
        | none => (s, "error")
      | none => (s, "bad-op")
    | none => (s, "bad-op")
  | ["union"] =>
    match s with
    | some st => (s, fmtPts (sortedUnion st))
    | none => (s, "bad-op")
  | ["coefsum", w] =>
    match s, parsePts? w with
    | some st, some xs =>
      if xs.all (fun x => x.length == st.dim) then
        (s, "|".intercalate (xs.map fun x => toString (pointCoeffSum st.a st.b st.bd st.c x)))
      else (s, "bad-op")
    | _, _ => (s, "bad-op")
  | ["pw"] =>
    match s with
    | some st => (s, "|".intercalate ((combiPointsWeights st.a st.b st.bd st.c).map fun e => fmtPt e.1 ++ ":" ++ fmtRat e.2))
    | none => (s, "bad-op")
  | ["tab", w] =>
    match s, parseTab? w with
    | some st, some t =>
      if t.all (fun e => e.1.length == st.dim) then
        (some { st with tab := t.foldl (fun m e => m.insert (key e.1) e.2) {} }, "ok")
      else (s, "bad-op")
    | _, _ => (s, "bad-op")
  | ["integral"] =>
    match s with
    | some st => (s, fmtRat (combiIntegral st.a st.b st.bd st.c st.f))
    | none => (s, "bad-op")
  | ["comp", v] =>
    match s with
    | some st => match parseLv? st v with
      | some lv => (s, fmtRat (quadGrid st.a st.b lv st.bd st.f))
      | none => (s, "bad-op")
    | none => (s, "bad-op")
  | ["call", w] =>
    match s, parsePts? w with
    | some st, some xs =>
      if xs.all (fun x => x.length == st.dim) then
        match combiCall? st.a st.b st.bd st.c st.f xs with
        | some vs => (s, fmtVals vs)
        | none => (s, "error")
      else (s, "bad-op")
    | _, _ => (s, "bad-op")
  | ["icomp", v, w] =>
    match s, parsePts? w with
    | some st, some xs =>
      match parseLv? st v with
      | some lv =>
        if xs.all (fun x => x.length == st.dim) then
          match interpPoints? st.a st.b lv st.bd st.f xs with
          | some vs => (s, fmtVals vs)
          | none => (s, "error")
        else (s, "bad-op")
      | none => (s, "bad-op")
    | _, _ => (s, "bad-op")
  | ["igrid", w] =>
    match s, (w.splitOn ";").mapM parseRatVec? with
    | some st, some coords =>
      if coords.length == st.dim then
        match combiInterpGrid? st.a st.b st.bd st.c st.f coords with
        | some vs => (s, fmtVals vs)
        | none => (s, "error")
      else (s, "bad-op")
    | _, _ => (s, "bad-op")
  | ["hat", a, b, k, i, ts] =>
    match parseRat? a, parseRat? b, parseNat? k, parseNat? i, parseRatVec? ts with
    | some a, some b, some k, some i, some ts =>
      if a < b && i ≤ 2 ^ k then (s, fmtVals (ts.map (hatFn a b k i))) else (s, "bad-op")
    | _, _, _, _, _ => (s, "bad-op")
  | _ => (s, "bad-op")

end SparseSpace.Drive.C02

def main : IO Unit := SparseSpace.Drive.runLoop SparseSpace.Drive.C02.step none
