import SparseSpace.Model.Quad
import SparseSpace.Model.QuadLeja
import SparseSpace.Drive.Util
/-! Line-protocol driver for the local quadrature model (C08).

    g1 <trap|simp> <a> <b> <start> <stop> <level> <boundary 0|1> <modified 0|1>
        → n=<num_points> nwb=<..> lo=<lowerBorder> up=<upperBorder> P [..] W [..]
    tens <trap|simp> <boundary 0|1> <modified 0|1> <a1,..> <b1,..> <start1,..> <stop1,..> <l1,..>
        → N [n1,..] P [[..],..] W [..]
    mom <trap|simp> <boundary> <modified> <a..> <b..> <start..> <stop..> <l..> <k1,..>
        → <rational>      (Σ_i w_i Π_d x_{i,d}^{k_d}; `len-mismatch p w` if points and weights do not pair)
    gl <start> <stop> <xi1,xi2,..> <om1,om2,..>
        → P [..] W [..]   (the affine map of GaussLegendreGrid1D applied to given reference nodes / weights)
    leja <start> <stop> <t1,t2,..>
        → P [..] W [..] legendre=<ok|FAIL>   (LejaGrid1D on given reference points in [0,1]; `no-solution` if the
          certified exact solve fails, e.g. repeated points)
-/
namespace SparseSpace.Drive.C08
open SparseSpace SparseSpace.Drive SparseSpace.Quad

def parseFam? (s : String) : Option Family :=
  if s == "trap" then some .trap else if s == "simp" then some .simpson else none

def parseBool? (s : String) : Option Bool :=
  if s == "1" then some true else if s == "0" then some false else none

def parseNatVec? (s : String) : Option (List Nat) :=
  let s := s.trimAscii.toString
  if s == "-" then some [] else (s.splitOn ",").mapM parseNat?

def mkGs (bd md : Bool) : List Rat → List Rat → List Rat → List Rat → List Nat → Option (List G1)
  | [], [], [], [], [] => some []
  | a :: as, b :: bs, s :: ss, e :: es, l :: ls => do
      let rest ← mkGs bd md as bs ss es ls
      -- the asserts of the constructors / the callers' contract: a ≤ start < stop ≤ b
      if a ≤ s && s < e && e ≤ b then some ({ a, b, start := s, stop := e, level := l, boundary := bd, modified := md } :: rest)
      else none
  | _, _, _, _, _ => none

def fmtRatVecs (l : List (List Rat)) : String := "[" ++ ",".intercalate (l.map fmtRatVec) ++ "]"

/-- `TrapezoidalGrid1D.__init__` asserts `not boundary or not modified_basis`; Simpson has no modified basis -/
def admissible (f : Family) (bd md : Bool) : Bool :=
  !(bd && md) && !(f == .simpson && md)

def parseGs? (f bd md a b s e l : String) : Option (Family × List G1) := do
  let f ← parseFam? f
  let bd ← parseBool? bd
  let md ← parseBool? md
  let gs ← mkGs bd md (← parseRatVec? a) (← parseRatVec? b) (← parseRatVec? s) (← parseRatVec? e) (← parseNatVec? l)
  if admissible f bd md && gs.length ≥ 1 then some (f, gs) else none

def step (_ : Unit) (line : String) : Unit × String :=
  match (line.trimAscii.toString.splitOn " ").filter (· ≠ "") with
  | ["g1", f, a, b, s, e, l, bd, md] =>
    match parseGs? f bd md a b s e l with
    | some (f, [g]) =>
      ((), s!"n={g.numPoints} nwb={g.nwb} lo={g.lowerBorder} up={g.upperBorder} P {fmtRatVec (coords f g)} W {fmtRatVec (weights f g)}")
    | _ => ((), "bad-op")
  | ["tens", f, bd, md, a, b, s, e, l] =>
    match parseGs? f bd md a b s e l with
    | some (f, gs) =>
      ((), s!"N {fmtNatVec (levelToNumPoints gs)} P {fmtRatVecs (tensorPoints f gs)} W {fmtRatVec (tensorWeights f gs)}")
    | none => ((), "bad-op")
  | ["mom", f, bd, md, a, b, s, e, l, k] =>
    match parseGs? f bd md a b s e l, parseNatVec? k with
    | some (f, gs), some ks =>
      if ks.length ≠ gs.length then ((), "bad-op") else
      let p := tensorPoints f gs
      let w := tensorWeights f gs
      if p.length ≠ w.length then ((), s!"len-mismatch {p.length} {w.length}")
      else ((), fmtRat (quadT p w (monomial ks)))
    | _, _ => ((), "bad-op")
  | ["gl", s, e, xi, om] =>
    match parseRat? s, parseRat? e, parseRatVec? xi, parseRatVec? om with
    | some s, some e, some xi, some om =>
      if xi.length ≠ om.length || xi.length == 0 then ((), "bad-op")
      else ((), s!"P {fmtRatVec (glPoints xi s (e - s))} W {fmtRatVec (glWeights om (e - s))}")
    | _, _, _, _ => ((), "bad-op")
  | ["leja", s, e, ts] =>
    match parseRat? s, parseRat? e, parseRatVec? ts with
    | some s, some e, some ts =>
      if ts.length == 0 then ((), "bad-op") else
      match lejaRefWeights ts with
      | none => ((), "no-solution")
      | some w =>
        let leg := if codeSystemOk ts w then "ok" else "FAIL"
        ((), s!"P {fmtRatVec (lejaPoints ts s (e - s))} W {fmtRatVec (lejaWeights w (e - s))} legendre={leg}")
    | _, _, _ => ((), "bad-op")
  | _ => ((), "bad-op")

end SparseSpace.Drive.C08

def main : IO Unit := SparseSpace.Drive.runLoop SparseSpace.Drive.C08.step ()
