import SparseSpace.Model.QuadLeja
import SparseSpace.Lemmas.QuadGauss
import SparseSpace.Lemmas.QuadTensor
/-! C08 (extension): the Leja family — weights obtained from a linear (moment) system are interpolatory. -/
namespace SparseSpace.Quad
open Polynomial

/-- **moment system ⇒ exactness on `[0,1]`**: if `Σ_i w_i t_i^k = 1/(k+1)` for all `k < n`, the rule integrates the
derivative of every polynomial of degree ≤ n exactly, i.e. every polynomial of degree ≤ n−1 -/
theorem exact01_of_moments (ts w : List ℚ) (n : ℕ)
    (Hm : ∀ k, k < n → quad ts w (fun t => t ^ k) = 1 / ((k : ℚ) + 1)) :
    ∀ P : ℚ[X], P.natDegree ≤ n → quad ts w (fun t => (derivative P).eval t) = P.eval 1 - P.eval 0 := by
  intro P hP
  have key : ∀ m, m ≤ n + 1 → ∀ a : ℕ → ℚ,
      quad ts w (fun t => (derivative (∑ i ∈ Finset.range m, Polynomial.monomial i (a i))).eval t)
        = (∑ i ∈ Finset.range m, Polynomial.monomial i (a i)).eval 1
          - (∑ i ∈ Finset.range m, Polynomial.monomial i (a i)).eval 0 := by
    intro m hm a
    induction m with
    | zero => simp [quad_zero]
    | succ m ih =>
      rw [Finset.sum_range_succ]
      simp only [derivative_add, eval_add]
      rw [quad_add, ih (by omega)]
      have hmono : quad ts w (fun t => (derivative (Polynomial.monomial m (a m))).eval t)
          = (Polynomial.monomial m (a m)).eval 1 - (Polynomial.monomial m (a m)).eval 0 := by
        simp only [derivative_monomial, eval_monomial, one_pow, mul_one]
        cases m with
        | zero =>
          simp only [Nat.cast_zero, mul_zero, zero_mul, pow_zero, mul_one, sub_self]
          exact quad_zero ts w
        | succ j =>
          rw [quad_smul, Nat.add_sub_cancel, Hm j (by omega)]
          have : ((j : ℚ) + 1) ≠ 0 := by positivity
          push_cast
          field_simp
          simp
      rw [hmono]
      ring
  have hsum := P.as_sum_range' (n + 1) (by omega)
  have := key (n + 1) le_rfl P.coeff
  rw [← hsum] at this
  exact this

/-- **affine transport from `[0,1]`**: `coords = t·L + s`, `weights = w·L` (what `LejaGrid1D.get_1d_points_and_weights` does) -/
theorem affine01_transport (ts w : List ℚ) (n : ℕ)
    (H : ∀ P : ℚ[X], P.natDegree ≤ n → quad ts w (fun t => (derivative P).eval t) = P.eval 1 - P.eval 0)
    (s L : ℚ) (P : ℚ[X]) (hP : P.natDegree ≤ n) :
    quad (lejaPoints ts s L) (lejaWeights w L) (fun x => (derivative P).eval x) = P.eval (s + L) - P.eval s := by
  set A : ℚ[X] := C s + C L * X with hA
  have hdeg : (P.comp A).natDegree ≤ n := by
    calc (P.comp A).natDegree ≤ P.natDegree * A.natDegree := natDegree_comp_le
      _ ≤ P.natDegree * 1 := by
          apply Nat.mul_le_mul_left
          rw [hA]
          exact (natDegree_add_le _ _).trans (by
            simp only [natDegree_C, Nat.zero_le, max_eq_right]; exact (natDegree_C_mul_le _ _).trans natDegree_X_le)
      _ ≤ n := by omega
  have h := H (P.comp A) hdeg
  have hAd : derivative A = C L := by simp [hA]
  rw [derivative_comp, hAd] at h
  unfold lejaPoints lejaWeights
  rw [quad_map_map]
  unfold quad at h
  have e1 : P.eval (s + L) - P.eval s = (P.comp A).eval 1 - (P.comp A).eval 0 := by
    simp only [eval_comp, hA, eval_add, eval_C, eval_mul, eval_X]
    congr 2 <;> ring
  rw [e1, ← h]
  congr 2
  funext t v
  simp only [eval_mul, eval_C, eval_comp, hA, eval_add, eval_X]
  have : t * L + s = s + L * t := by ring
  rw [this]
  ring

theorem momentsOk_spec (ts w : List ℚ) (h : momentsOk ts w = true) :
    w.length = ts.length ∧ ∀ k, k < ts.length → quad ts w (fun t => t ^ k) = 1 / ((k : ℚ) + 1) := by
  unfold momentsOk at h
  rw [Bool.and_eq_true, List.all_eq_true] at h
  refine ⟨by simpa using h.1, fun k hk => ?_⟩
  have := h.2 k (List.mem_range.2 hk)
  simpa using this

theorem lejaRefWeights_spec (ts w : List ℚ) (h : lejaRefWeights ts = some w) : momentsOk ts w = true := by
  unfold lejaRefWeights at h
  split at h
  · exact absurd h (by simp)
  · simp only at h
    by_cases hok : momentsOk ts (List.map (fun r => r.getD ts.length 0) ‹List (List ℚ)›) = true
    · rw [if_pos hok] at h
      simp only [Option.some.injEq] at h
      rw [← h]; exact hok
    · rw [if_neg hok] at h
      exact absurd h (by simp)

/-- exactness of every output of the model's Leja weights, on every interval `[s, s+L]` -/
theorem leja_exact_poly (ts w : List ℚ) (h : lejaRefWeights ts = some w) (s L : ℚ) (P : ℚ[X])
    (hP : P.natDegree ≤ ts.length) :
    quad (lejaPoints ts s L) (lejaWeights w L) (fun x => (derivative P).eval x) = P.eval (s + L) - P.eval s :=
  affine01_transport ts w ts.length
    (exact01_of_moments ts w ts.length (momentsOk_spec ts w (lejaRefWeights_spec ts w h)).2) s L P hP

theorem leja_lengths (ts w : List ℚ) (h : lejaRefWeights ts = some w) (s L : ℚ) :
    (lejaPoints ts s L).length = ts.length ∧ (lejaWeights w L).length = ts.length := by
  have := (momentsOk_spec ts w (lejaRefWeights_spec ts w h)).1
  simp [lejaPoints, lejaWeights, this]

/-- monomial form: exact moments up to degree `n − 1` -/
theorem leja_moments (ts w : List ℚ) (h : lejaRefWeights ts = some w) (s L : ℚ) (k : ℕ) (hk : k < ts.length) :
    quad (lejaPoints ts s L) (lejaWeights w L) (fun x => x ^ k) = ((s + L) ^ (k + 1) - s ^ (k + 1)) / (k + 1) := by
  have hk1 : ((k : ℚ) + 1) ≠ 0 := by positivity
  have h' := leja_exact_poly ts w h s L (C (1 / ((k : ℚ) + 1)) * X ^ (k + 1))
    ((natDegree_C_mul_le _ _).trans (by rw [natDegree_X_pow]; omega))
  rw [quad_congr _ _ _ (fun x => x ^ k) (fun x => by
    simp only [derivative_mul, derivative_C, zero_mul, zero_add, derivative_X_pow, eval_mul, eval_C, eval_pow, eval_X,
      Nat.add_sub_cancel, Nat.cast_add, Nat.cast_one]
    field_simp)] at h'
  rw [h']
  simp only [eval_mul, eval_C, eval_pow, eval_X]
  field_simp

/-- the weights sum to the length of the interval (as soon as there is a point) -/
theorem leja_sum_weights (ts w : List ℚ) (h : lejaRefWeights ts = some w) (s L : ℚ) (hn : 1 ≤ ts.length) :
    (lejaWeights w L).sum = L := by
  have h0 := leja_moments ts w h s L 0 (by omega)
  have hl := leja_lengths ts w h s L
  have hc := quad_const (lejaPoints ts s L) (lejaWeights w L) 1 (by rw [hl.1, hl.2])
  have e : (fun x : ℚ => x ^ 0) = fun _ => (1 : ℚ) := by funext x; simp
  rw [e, hc] at h0
  simp at h0
  linarith

end SparseSpace.Quad
