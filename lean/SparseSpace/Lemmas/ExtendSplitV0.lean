import SparseSpace.Lemmas.ExtendSplitLocal
import SparseSpace.Lemmas.CombiStd
import SparseSpace.Lemmas.CombAdaptive
import Mathlib.Data.List.Nodup
/-!
# Version 0 of `coarsen_grid` computes the standard scheme of level `lmax - c` (C07)

For every `dim ≥ 2`, `lmin`, `lmax` and coarsening `c ≥ 0`: the list of `(coarsened level vector, coefficient)`
that one pass of the code over its scheme actually computes in a fresh area — including the collision dictionary
`levelvec_dict` — is a permutation of `stdScheme dim lmin (lmax - c)`.

Proof: (1) on a duplicate-free scheme the dictionary logic is "compute iff the coarsened vector has not been
computed yet" (`computedFrom_eq_spec`); (2) a component grid is eligible (`max - second ≥ c`) iff it is `v + c·e_d`
for a vector `v` and `d` = the first arg-max of `v`; coarsening maps it back to `v` and lowers the level sum by `c`,
so diagonal `q` of level `lmax` is mapped onto diagonal `q` of level `lmax - c` and colliding grids lie on one
diagonal, i.e. carry the same coefficient.
-/
namespace SparseSpace

/-! ### `max`, `second`, first arg-max -/

theorem es_foldl_max_spec : ∀ (xs : LV) (a : Int), (xs.foldl max a ∈ a :: xs) ∧ ∀ x ∈ a :: xs, x ≤ xs.foldl max a
  | [], a => by simp
  | y :: xs, a => by
      obtain ⟨h1, h2⟩ := es_foldl_max_spec xs (max a y)
      simp only [List.foldl_cons]
      constructor
      · rcases List.mem_cons.1 h1 with h | h
        · rw [h]
          rcases max_cases a y with ⟨hm, _⟩ | ⟨hm, _⟩ <;> rw [hm] <;> simp
        · exact List.mem_cons_of_mem _ (List.mem_cons_of_mem _ h)
      · intro x hx
        have hm := h2 (max a y) (List.mem_cons_self ..)
        rcases List.mem_cons.1 hx with rfl | hx
        · exact le_trans (le_max_left _ _) hm
        · rcases List.mem_cons.1 hx with rfl | hx
          · exact le_trans (le_max_right _ _) hm
          · exact h2 x (List.mem_cons_of_mem _ hx)

theorem lvMax_mem : ∀ l : LV, l ≠ [] → lvMax l ∈ l
  | [], h => absurd rfl h
  | x :: xs, _ => (es_foldl_max_spec xs x).1

theorem le_lvMax : ∀ (l : LV) (x : Int), x ∈ l → x ≤ lvMax l
  | [], _, h => by simp at h
  | y :: ys, x, h => (es_foldl_max_spec ys y).2 x h

theorem lvMax_unique (l : LV) (m : Int) (hm : m ∈ l) (hle : ∀ x ∈ l, x ≤ m) : lvMax l = m :=
  le_antisymm (hle _ (lvMax_mem l (List.ne_nil_of_mem hm))) (le_lvMax l m hm)

/-- add `δ` at the first entry equal to `m` -/
def incFirst (m δ : Int) : LV → LV
  | [] => []
  | x :: xs => if x == m then (x + δ) :: xs else x :: incFirst m δ xs

theorem decFirst_length (m δ : Int) : ∀ l : LV, (decFirst m δ l).length = l.length
  | [] => rfl
  | x :: xs => by
      simp only [decFirst]
      split <;> simp [decFirst_length m δ xs]

theorem decFirst_sum (m δ : Int) : ∀ l : LV, m ∈ l → (decFirst m δ l).sum = l.sum - δ
  | [], h => by simp at h
  | x :: xs, h => by
      simp only [decFirst]
      by_cases hx : (x == m) = true
      · rw [if_pos hx]; simp only [List.sum_cons]; ring
      · rw [if_neg hx]
        have : m ∈ xs := by
          rcases List.mem_cons.1 h with rfl | h
          · simp at hx
          · exact h
        simp only [List.sum_cons, decFirst_sum m δ xs this]; ring

theorem mem_decFirst (m δ : Int) : ∀ (l : LV) (y : Int), y ∈ decFirst m δ l → y ∈ l ∨ y = m - δ
  | [], _, h => by simp [decFirst] at h
  | x :: xs, y, h => by
      simp only [decFirst] at h
      by_cases hx : (x == m) = true
      · rw [if_pos hx] at h
        have hxm : x = m := by simpa using hx
        rcases List.mem_cons.1 h with rfl | h
        · right; rw [hxm]
        · left; exact List.mem_cons_of_mem _ h
      · rw [if_neg hx] at h
        rcases List.mem_cons.1 h with rfl | h
        · left; exact List.mem_cons_self ..
        · rcases mem_decFirst m δ xs y h with h | h
          · left; exact List.mem_cons_of_mem _ h
          · right; exact h

theorem incFirst_length (m δ : Int) : ∀ l : LV, (incFirst m δ l).length = l.length
  | [] => rfl
  | x :: xs => by
      simp only [incFirst]
      split <;> simp [incFirst_length m δ xs]

theorem incFirst_sum (m δ : Int) : ∀ l : LV, m ∈ l → (incFirst m δ l).sum = l.sum + δ
  | [], h => by simp at h
  | x :: xs, h => by
      simp only [incFirst]
      by_cases hx : (x == m) = true
      · rw [if_pos hx]; simp only [List.sum_cons]; ring
      · rw [if_neg hx]
        have : m ∈ xs := by
          rcases List.mem_cons.1 h with rfl | h
          · simp at hx
          · exact h
        simp only [List.sum_cons, incFirst_sum m δ xs this]; ring

theorem mem_incFirst (m δ : Int) : ∀ (l : LV) (y : Int), y ∈ incFirst m δ l → y ∈ l ∨ y = m + δ
  | [], _, h => by simp [incFirst] at h
  | x :: xs, y, h => by
      simp only [incFirst] at h
      by_cases hx : (x == m) = true
      · rw [if_pos hx] at h
        have hxm : x = m := by simpa using hx
        rcases List.mem_cons.1 h with rfl | h
        · right; rw [hxm]
        · left; exact List.mem_cons_of_mem _ h
      · rw [if_neg hx] at h
        rcases List.mem_cons.1 h with rfl | h
        · left; exact List.mem_cons_self ..
        · rcases mem_incFirst m δ xs y h with h | h
          · left; exact List.mem_cons_of_mem _ h
          · right; exact h

theorem incFirst_mem (m δ : Int) : ∀ l : LV, m ∈ l → m + δ ∈ incFirst m δ l
  | [], h => by simp at h
  | x :: xs, h => by
      simp only [incFirst]
      by_cases hx : (x == m) = true
      · rw [if_pos hx]
        have hxm : x = m := by simpa using hx
        rw [hxm]; exact List.mem_cons_self ..
      · rw [if_neg hx]
        have : m ∈ xs := by
          rcases List.mem_cons.1 h with rfl | h
          · simp at hx
          · exact h
        exact List.mem_cons_of_mem _ (incFirst_mem m δ xs this)

/-- lowering the raised entry again -/
theorem decFirst_incFirst (m δ : Int) (hδ : 0 < δ) : ∀ l : LV, (∀ x ∈ l, x ≤ m) →
    decFirst (m + δ) δ (incFirst m δ l) = l
  | [], _ => rfl
  | x :: xs, h => by
      simp only [incFirst]
      by_cases hx : (x == m) = true
      · have hxm : x = m := by simpa using hx
        rw [if_pos hx]
        simp only [decFirst, hxm, beq_self_eq_true, if_true]
        congr 1; ring
      · rw [if_neg hx]
        have hxm : x ≠ m := by simpa using hx
        have hle := h x (List.mem_cons_self ..)
        have hne : ¬ (x == m + δ) = true := by
          simp only [beq_iff_eq]; omega
        simp only [decFirst]
        rw [if_neg hne, decFirst_incFirst m δ hδ xs (fun y hy => h y (List.mem_cons_of_mem _ hy))]

/-- the entries other than the raised one -/
theorem erase_incFirst (m δ : Int) (hδ : 0 < δ) : ∀ l : LV, (∀ x ∈ l, x ≤ m) →
    (incFirst m δ l).erase (m + δ) = l.erase m
  | [], _ => rfl
  | x :: xs, h => by
      simp only [incFirst]
      by_cases hx : (x == m) = true
      · have hxm : x = m := by simpa using hx
        rw [if_pos hx, hxm]
        simp
      · rw [if_neg hx]
        have hxm : x ≠ m := by simpa using hx
        have hle := h x (List.mem_cons_self ..)
        have hne : ¬ (x == m + δ) = true := by
          simp only [beq_iff_eq]; omega
        rw [List.erase_cons, if_neg hne, List.erase_cons, if_neg hx,
          erase_incFirst m δ hδ xs (fun y hy => h y (List.mem_cons_of_mem _ hy))]

/-! ### eligibility and the coarsened vector (version 0) -/

/-- `not (temp2[0] - temp2[1] < coarsening)` -/
def eligible (c : Int) (lv : LV) : Bool := !decide (lvMax lv - lvSecond lv < c)

/-- the first maximum lowered by `coarsening` -/
def coarse0 (c : Int) (lv : LV) : LV := decFirst (lvMax lv) c lv

theorem lvSecond_le (l : LV) (h : 2 ≤ l.length) : lvSecond l ≤ lvMax l := by
  unfold lvSecond
  have hne : l.erase (lvMax l) ≠ [] := by
    intro he
    have := congrArg List.length he
    rw [List.length_erase_of_mem (lvMax_mem l (by intro h0; rw [h0] at h; simp at h))] at this
    simp at this
    omega
  exact le_lvMax l _ (List.mem_of_mem_erase (lvMax_mem _ hne))

theorem lvSecond_ge (lmin : Int) (l : LV) (h : 2 ≤ l.length) (hg : geAll lmin l) : lmin ≤ lvSecond l := by
  unfold lvSecond
  have hne : l.erase (lvMax l) ≠ [] := by
    intro he
    have := congrArg List.length he
    rw [List.length_erase_of_mem (lvMax_mem l (by intro h0; rw [h0] at h; simp at h))] at this
    simp at this
    omega
  exact hg _ (List.mem_of_mem_erase (lvMax_mem _ hne))

/-- an eligible grid: shape of its coarsened vector -/
theorem coarse0_shape (lmin c : Int) (lv : LV) (hl : 2 ≤ lv.length) (hg : geAll lmin lv)
    (he : eligible c lv = true) (_hc : 0 ≤ c) :
    (coarse0 c lv).length = lv.length ∧ (coarse0 c lv).sum = lv.sum - c ∧ geAll lmin (coarse0 c lv) := by
  have hne : lv ≠ [] := by intro h0; rw [h0] at hl; simp at hl
  unfold coarse0
  refine ⟨decFirst_length _ _ _, decFirst_sum _ _ _ (lvMax_mem lv hne), ?_⟩
  intro y hy
  rcases mem_decFirst _ _ _ _ hy with hy | hy
  · exact hg y hy
  · have h1 : ¬ (lvMax lv - lvSecond lv < c) := by simpa [eligible] using he
    have h2 := lvSecond_ge lmin lv hl hg
    omega

/-- every vector `v` is the coarsened vector of the eligible grid `v + c·e_d`, `d` the first arg-max of `v` -/
theorem raise_spec (lmin c : Int) (v : LV) (hl : 2 ≤ v.length) (hg : geAll lmin v) (hc : 0 ≤ c) :
    let w := incFirst (lvMax v) c v
    w.length = v.length ∧ w.sum = v.sum + c ∧ geAll lmin w ∧ eligible c w = true ∧ coarse0 c w = v := by
  intro w
  have hne : v ≠ [] := by intro h0; rw [h0] at hl; simp at hl
  have hm := lvMax_mem v hne
  have hle : ∀ x ∈ v, x ≤ lvMax v := le_lvMax v
  have hwmax : lvMax w = lvMax v + c := by
    apply lvMax_unique
    · exact incFirst_mem _ _ _ hm
    · intro y hy
      rcases mem_incFirst _ _ _ _ hy with hy | hy
      · have := hle y hy; omega
      · omega
  have hwlen : w.length = v.length := incFirst_length _ _ _
  refine ⟨hwlen, incFirst_sum _ _ _ hm, ?_, ?_, ?_⟩
  · intro y hy
    rcases mem_incFirst _ _ _ _ hy with hy | hy
    · exact hg y hy
    · have := hg _ hm; omega
  · rcases eq_or_lt_of_le hc with h0 | hpos
    · -- c = 0: nothing is changed
      have hs := lvSecond_le w (by omega)
      simp only [eligible, Bool.not_eq_true', decide_eq_false_iff_not, not_lt]
      omega
    · have hsec : lvSecond w = lvSecond v := by
        unfold lvSecond
        rw [hwmax, erase_incFirst _ _ hpos v hle]
      have hs := lvSecond_le v hl
      simp only [eligible, Bool.not_eq_true', decide_eq_false_iff_not, not_lt]
      omega
  · unfold coarse0
    rw [hwmax]
    rcases eq_or_lt_of_le hc with h0 | hpos
    · have hid : ∀ (m : Int) (l : LV), incFirst m 0 l = l := by
        intro m l
        induction l with
        | nil => rfl
        | cons x xs ih => simp only [incFirst]; split <;> simp [ih]
      have hid2 : ∀ (m : Int) (l : LV), decFirst m 0 l = l := by
        intro m l
        induction l with
        | nil => rfl
        | cons x xs ih => simp only [decFirst]; split <;> simp [ih]
      show decFirst (lvMax v + c) c (incFirst (lvMax v) c v) = v
      rw [← h0, hid, hid2]
    · exact decFirst_incFirst _ _ hpos v hle

/-! ### the dictionary on a duplicate-free scheme -/

/-- "compute iff eligible and the coarsened vector has not been computed yet" -/
def specFrom (c : Int) : List (LV × Int) → List LV → List (LV × Int)
  | [], _ => []
  | p :: rest, ks =>
      if eligible c p.1 && !ks.contains (coarse0 c p.1) then
        (coarse0 c p.1, p.2) :: specFrom c rest (ks ++ [coarse0 c p.1])
      else specFrom c rest ks

theorem es_map_sub_add (lmin : Int) (l : LV) : (l.map (· - lmin)).map (· + lmin) = l := by
  rw [List.map_map]
  have : ((fun x : Int => x + lmin) ∘ fun x => x - lmin) = id := by funext x; simp
  rw [this, List.map_id]

theorem alreadyCalculated_eq (dict : List (LV × LV)) (temp lv : LV) (h : ∀ e ∈ dict, e.2 ≠ lv) :
    alreadyCalculated dict temp lv = (dict.map (·.1)).contains temp := by
  unfold alreadyCalculated
  cases hf : dict.find? (·.1 == temp) with
  | none =>
    rw [List.find?_eq_none] at hf
    symm
    rw [Bool.eq_false_iff]
    intro hc
    rw [List.contains_iff_mem, List.mem_map] at hc
    obtain ⟨e, he, rfl⟩ := hc
    exact hf e he (by simp)
  | some e =>
    have hmem := List.mem_of_find?_eq_some hf
    have hk := List.find?_some hf
    have hk' : e.1 = temp := by simpa using hk
    have hne : (e.2 != lv) = true := by simpa using h e hmem
    show (e.2 != lv) = _
    rw [hne]
    symm
    rw [List.contains_iff_mem, List.mem_map]
    exact ⟨e, hmem, hk'⟩

theorem addLevel_fresh (dict : List (LV × LV)) (temp lv : LV) (h : (dict.map (·.1)).contains temp = false) :
    dictAddLevel dict temp lv = dict ++ [(temp, lv)] := by
  unfold dictAddLevel
  have : dict.any (·.1 == temp) = false := by
    rw [Bool.eq_false_iff] at h ⊢
    intro ha
    apply h
    rw [List.any_eq_true] at ha
    obtain ⟨e, he, hk⟩ := ha
    rw [List.contains_iff_mem, List.mem_map]
    exact ⟨e, he, by simpa using hk⟩
  rw [this]
  rfl

/-- on a scheme that lists every level vector once, the pass of the code is `specFrom` -/
theorem computedFrom_eq_spec (dim : Nat) (lmin lmax c : Int) (hd : 2 ≤ dim) :
    ∀ (L : List (LV × Int)) (dict : List (LV × LV)), (∀ p ∈ L, p.1.length = dim) → (L.map (·.1)).Nodup →
      (∀ e ∈ dict, e.2 ∉ L.map (·.1)) →
      computedFrom 0 dim lmin lmax c L dict = specFrom c L (dict.map (·.1))
  | [], _, _, _, _ => rfl
  | p :: rest, dict, hlen, hnd, hH => by
      obtain ⟨lv, q⟩ := p
      have hlv : lv.length = dim := hlen (lv, q) (List.mem_cons_self ..)
      rw [List.map_cons, List.nodup_cons] at hnd
      have hlen' : ∀ p ∈ rest, p.1.length = dim := fun p hp => hlen p (List.mem_cons_of_mem _ hp)
      have hH' : ∀ e ∈ dict, e.2 ∉ rest.map (·.1) := fun e he hm => hH e he (List.mem_cons_of_mem _ hm)
      have hne : ∀ e ∈ dict, e.2 ≠ lv := fun e he h => hH e he (by rw [h]; exact List.mem_cons_self ..)
      have hcond : (dim < 2 || lv.length != dim) = false := by
        simp only [Bool.or_eq_false_iff, decide_eq_false_iff_not, not_lt, bne_eq_false_iff_eq]
        exact ⟨hd, hlv⟩
      simp only [computedFrom, specFrom, coarsenGrid, hcond, Bool.false_eq_true, if_false, beq_self_eq_true, if_true]
      by_cases hel : lvMax lv - lvSecond lv < c
      · have he : eligible c lv = false := by simp [eligible, hel]
        rw [if_pos hel]
        simp only [he, Bool.false_and, Bool.false_eq_true, if_false, List.nil_append]
        exact computedFrom_eq_spec dim lmin lmax c hd rest dict hlen' hnd.2 hH'
      · have he : eligible c lv = true := by simp [eligible, hel]
        rw [if_neg hel, alreadyCalculated_eq dict _ lv hne]
        by_cases hk : (dict.map (·.1)).contains (decFirst (lvMax lv) c lv) = true
        · rw [if_pos hk]
          simp only [he, coarse0, hk, Bool.not_true, Bool.and_false, Bool.false_eq_true, if_false, List.nil_append]
          exact computedFrom_eq_spec dim lmin lmax c hd rest dict hlen' hnd.2 hH'
        · have hk' : (dict.map (·.1)).contains (decFirst (lvMax lv) c lv) = false := by simpa using hk
          rw [if_neg hk]
          simp only [he, coarse0, hk', Bool.not_false, Bool.and_true, if_true, List.singleton_append, es_map_sub_add]
          congr 1
          rw [addLevel_fresh dict _ lv hk']
          have := computedFrom_eq_spec dim lmin lmax c hd rest (dict ++ [(decFirst (lvMax lv) c lv, lv)]) hlen' hnd.2 ?_
          · rw [this, List.map_append]
            rfl
          · intro e he
            rcases List.mem_append.1 he with he | he
            · exact hH' e he
            · simp only [List.mem_cons, List.not_mem_nil, or_false] at he
              rw [he]
              exact hnd.1

theorem mem_specFrom (c : Int) : ∀ (L : List (LV × Int)) (ks : List LV) (p : LV × Int), p ∈ specFrom c L ks →
    (∃ lv, (lv, p.2) ∈ L ∧ eligible c lv = true ∧ coarse0 c lv = p.1) ∧ p.1 ∉ ks
  | [], _, _, h => by simp [specFrom] at h
  | r :: rest, ks, p, h => by
      simp only [specFrom] at h
      by_cases hc : (eligible c r.1 && !ks.contains (coarse0 c r.1)) = true
      · rw [if_pos hc] at h
        simp only [Bool.and_eq_true, Bool.not_eq_true', ] at hc
        rcases List.mem_cons.1 h with rfl | h
        · refine ⟨⟨r.1, List.mem_cons_self .., hc.1, rfl⟩, ?_⟩
          intro hm
          have := List.contains_iff_mem.2 hm
          rw [hc.2] at this
          cases this
        · obtain ⟨⟨lv, h1, h2, h3⟩, h4⟩ := mem_specFrom c rest _ p h
          exact ⟨⟨lv, List.mem_cons_of_mem _ h1, h2, h3⟩, fun hm => h4 (List.mem_append_left _ hm)⟩
      · rw [if_neg hc] at h
        obtain ⟨⟨lv, h1, h2, h3⟩, h4⟩ := mem_specFrom c rest _ p h
        exact ⟨⟨lv, List.mem_cons_of_mem _ h1, h2, h3⟩, h4⟩

theorem specFrom_covers (c : Int) : ∀ (L : List (LV × Int)) (ks : List LV) (lv : LV) (q : Int), (lv, q) ∈ L →
    eligible c lv = true → coarse0 c lv ∉ ks → coarse0 c lv ∈ (specFrom c L ks).map (·.1)
  | [], _, _, _, h, _, _ => by simp at h
  | r :: rest, ks, lv, q, h, he, hk => by
      simp only [specFrom]
      by_cases hc : (eligible c r.1 && !ks.contains (coarse0 c r.1)) = true
      · rw [if_pos hc]
        by_cases hsame : coarse0 c r.1 = coarse0 c lv
        · rw [List.map_cons, hsame]; exact List.mem_cons_self ..
        · rcases List.mem_cons.1 h with h | h
          · rw [← h] at hsame; exact absurd rfl hsame
          · rw [List.map_cons]
            refine List.mem_cons_of_mem _ (specFrom_covers c rest _ lv q h he ?_)
            intro hm
            rcases List.mem_append.1 hm with hm | hm
            · exact hk hm
            · simp only [List.mem_cons, List.not_mem_nil, or_false] at hm
              exact hsame hm.symm
      · rw [if_neg hc]
        rcases List.mem_cons.1 h with h | h
        · rw [← h] at hc
          simp only [he, Bool.true_and, Bool.not_eq_true', Bool.not_eq_false] at hc
          exact absurd (List.contains_iff_mem.1 hc) hk
        · exact specFrom_covers c rest ks lv q h he hk

theorem specFrom_keys_nodup (c : Int) : ∀ (L : List (LV × Int)) (ks : List LV), ((specFrom c L ks).map (·.1)).Nodup
  | [], _ => by simp [specFrom]
  | r :: rest, ks => by
      simp only [specFrom]
      by_cases hc : (eligible c r.1 && !ks.contains (coarse0 c r.1)) = true
      · rw [if_pos hc, List.map_cons, List.nodup_cons]
        refine ⟨?_, specFrom_keys_nodup c rest _⟩
        intro hm
        obtain ⟨p, hp, hpk⟩ := List.mem_map.1 hm
        have := (mem_specFrom c rest _ p hp).2
        rw [hpk] at this
        exact this (List.mem_append_right _ (List.mem_cons_self ..))
      · rw [if_neg hc]
        exact specFrom_keys_nodup c rest ks

/-! ### the theorem -/

/-- **`v0_local_is_standard`**: version 0 computes, in a fresh area of coarsening `c ≥ 0`, exactly the component
grids of the standard scheme of level `lmax - c` with its coefficients (each once) -/
theorem computed_v0_perm_std (dim : Nat) (lmin lmax c : Int) (hd : 2 ≤ dim) (hc : 0 ≤ c) :
    (computed 0 dim lmin lmax c).Perm (stdScheme dim lmin (lmax - c)) := by
  have hd1 : 1 ≤ dim := by omega
  have hSlen : ∀ p ∈ stdScheme dim lmin lmax, p.1.length = dim := by
    intro p hp
    obtain ⟨j, hj, hg, _⟩ := (mem_std dim lmin lmax p).1 hp
    exact ((mem_shift_getGrids lmin dim _ p.1 hd1 (by omega)).1 hg).1
  have hbridge : computed 0 dim lmin lmax c = specFrom c (stdScheme dim lmin lmax) [] := by
    unfold computed
    rw [computedFrom_eq_spec dim lmin lmax c hd _ [] hSlen (nodup_keys_std dim lmin lmax hd1) (by simp)]
    rfl
  rw [hbridge]
  have hn1 : (specFrom c (stdScheme dim lmin lmax) []).Nodup := List.Nodup.of_map _ (specFrom_keys_nodup c _ _)
  have hn2 : (stdScheme dim lmin (lmax - c)).Nodup := List.Nodup.of_map _ (nodup_keys_std dim lmin (lmax - c) hd1)
  -- shape of the members of a standard scheme
  have hshape : ∀ (L : Int) (p : LV × Int), p ∈ stdScheme dim lmin L ↔
      ∃ j : Nat, (j : Int) < dim ∧ (j : Int) < L - lmin + 1 ∧ p.1.length = dim ∧ geAll lmin p.1 ∧
        p.1.sum = L - lmin - (j : Int) + (dim : Int) * lmin ∧ p.2 = stdCoeff dim j := by
    intro L p
    rw [mem_std]
    constructor
    · rintro ⟨j, hj, hg, hq⟩
      obtain ⟨h1, h2, h3⟩ := (mem_shift_getGrids lmin dim _ p.1 hd1 (by omega)).1 hg
      exact ⟨j, by omega, by omega, h1, h2, by rw [h3]; ring, hq⟩
    · rintro ⟨j, hj1, hj2, h1, h2, h3, hq⟩
      exact ⟨j, by omega, (mem_shift_getGrids lmin dim _ p.1 hd1 (by omega)).2 ⟨h1, h2, by rw [h3]; ring⟩, hq⟩
  rw [List.perm_ext_iff_of_nodup hn1 hn2]
  intro p
  constructor
  · intro hp
    obtain ⟨⟨lv, hlv, hel, hco⟩, _⟩ := mem_specFrom c _ _ p hp
    obtain ⟨j, hj1, hj2, h1, h2, h3, hq⟩ := (hshape lmax (lv, p.2)).1 hlv
    obtain ⟨k1, k2, k3⟩ := coarse0_shape lmin c lv (by rw [h1]; exact hd) h2 hel hc
    rw [hco] at k1 k2 k3
    have hsum := sum_ge_of_geAll lmin p.1 k3
    rw [k1, h1] at hsum
    simp only at h3 hq
    refine (hshape (lmax - c) p).2 ⟨j, hj1, ?_, by rw [k1, h1], k3, by rw [k2, h3]; ring, hq⟩
    rw [k2, h3] at hsum
    linarith
  · intro hp
    obtain ⟨j, hj1, hj2, h1, h2, h3, hq⟩ := (hshape (lmax - c) p).1 hp
    obtain ⟨r1, r2, r3, r4, r5⟩ := raise_spec lmin c p.1 (by rw [h1]; exact hd) h2 hc
    set w := incFirst (lvMax p.1) c p.1 with hw
    have hwS : (w, p.2) ∈ stdScheme dim lmin lmax :=
      (hshape lmax (w, p.2)).2 ⟨j, hj1, by omega, by rw [r1, h1], r3, by simp only; rw [r2, h3]; ring, hq⟩
    have hcov := specFrom_covers c _ [] w p.2 hwS r4 (by simp)
    rw [r5] at hcov
    obtain ⟨p', hp', hk'⟩ := List.mem_map.1 hcov
    obtain ⟨⟨lv', hlv', hel', hco'⟩, _⟩ := mem_specFrom c _ _ p' hp'
    obtain ⟨j', hj1', hj2', h1', h2', h3', hq'⟩ := (hshape lmax (lv', p'.2)).1 hlv'
    obtain ⟨k1, k2, k3⟩ := coarse0_shape lmin c lv' (by rw [h1']; exact hd) h2' hel' hc
    rw [hco', hk'] at k2
    simp only at h3' hq'
    have hjj : j' = j := by
      have : (j' : Int) = j := by linarith
      exact_mod_cast this
    have : p' = p := by
      apply Prod.ext hk'
      rw [hq', hq, hjj]
    rw [← this]
    exact hp'

end SparseSpace
