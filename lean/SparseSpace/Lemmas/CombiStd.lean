import SparseSpace.Lemmas.CombiStdAux
/-!
# The closed-form standard combination scheme equals the freshly initialised adaptive scheme

`stdScheme dim lmin lmax` (Python: `CombiScheme.getCombiScheme(lmin, lmax)` of the non-adaptive branch, coefficients
`(-1)^q * C(dim-1, q)` computed with factorials) and `(CS.init dim lmax lmin).coeffs` (Python:
`init_adaptive_combi_scheme(lmax, lmin)` followed by the adaptive `getCombiScheme`, coefficients computed by the stencil
accumulation) assign the same coefficient to every level vector (`std_eq_init_lookup`) and are permutations of each other
as lists (`std_perm_init`) — for every dimension `dim ≥ 1` and every level range `0 ≤ lmin ≤ lmax`.

Route: the coefficient the adaptive scheme gives to `l ≥ lmin` is `Σ_{z ∈ {0,1}^dim, |l|+|z| ≤ N} (-1)^{|z|}` with
`N = lmax - lmin + dim*lmin` the level sum of the active set (`lookup_init`; the stencil truncation at `lmin` never
removes such a `z` because `l_i + 1 > lmin`), which is `(-1)^r C(dim-1, r)`, `r = N - |l|` (`altSum_succ`, Pascal);
the closed-form scheme has duplicate-free keys (`nodup_keys_std`), entry `q` carrying the vectors of level sum `N - q`.
-/
namespace SparseSpace

/-! ### the adaptive side -/

theorem mem_I_init (dim : Nat) (lmin lmax : Int) (hd : 1 ≤ dim) (h : lmin ≤ lmax) (l : LV) :
    l ∈ I (CS.init dim lmax lmin) ↔
      l.length = dim ∧ geAll lmin l ∧ l.sum ≤ lmax - lmin + (dim : Int) * lmin := by
  unfold I CS.init
  simp only [List.mem_append]
  rw [mem_initActive lmax lmin dim l hd h, mem_initOld lmax lmin dim l hd h]
  constructor
  · rintro (⟨h1, h2, h3⟩ | ⟨h1, h2, h3⟩)
    · exact ⟨h1, h2, by omega⟩
    · exact ⟨h1, h2, by omega⟩
  · rintro ⟨h1, h2, h3⟩
    by_cases he : l.sum = lmax - lmin + (dim : Int) * lmin
    · exact Or.inr ⟨h1, h2, he⟩
    · exact Or.inl ⟨h1, h2, by omega⟩

/-- coefficient of `l` in a scheme computed from a duplicate-free index set `idx` of vectors of the length of `l`:
the signed number of cube points `l + z` in `idx` -/
theorem lookup_coeffsOf_cube (lmin : Int) (idx : List LV) (l : LV) (hnd : idx.Nodup)
    (hshape : ∀ g ∈ idx, g.length = l.length) (hl : geAll lmin l) :
    lookup (coeffsOf lmin idx) l = ((cube l).map fun g => if g ∈ idx then wprod g l else 0).sum := by
  rw [lookup_coeffsOf]
  unfold stencilEntries
  rw [sumP_flatMap]
  have e : (idx.map fun g => sumP (fun k => k == l)
        ((stencils lmin g).map fun st => (List.zipWith (· + ·) g st, updCoeff st)))
      = idx.map fun g => wprod g l := by
    apply List.map_congr_left
    intro g hg
    rw [sumP_eq_entries_one, contribE_eq lmin g l (hshape g hg) hl]
  rw [e]
  exact sum_swap (fun g => wprod g l) idx (cube l) hnd (nodup_cube l) (fun g _ hne => wprod_ne_zero g l hne)

/-- the coefficient of a level vector `l ≥ lmin` in the freshly initialised adaptive scheme -/
theorem lookup_init (dim : Nat) (lmin lmax : Int) (hd : 1 ≤ dim) (h0 : 0 ≤ lmin) (h : lmin ≤ lmax) (l : LV)
    (hlen : l.length = dim) (hl : geAll lmin l) :
    lookup (CS.init dim lmax lmin).coeffs l = altSum dim (lmax - lmin + (dim : Int) * lmin - l.sum) := by
  have hinv := inv_init dim lmin lmax hd h0 h
  unfold CS.coeffs
  rw [indexSet_eq _ hinv]
  have hlminE : (CS.init dim lmax lmin).lmin = lmin := rfl
  rw [hlminE, lookup_coeffsOf_cube lmin _ l (nodup_I _ hinv)
    (fun g hg => by rw [hlen]; exact ((mem_I_init dim lmin lmax hd h g).mp hg).1) hl]
  have hc := cube_sum l (lmax - lmin + (dim : Int) * lmin)
  rw [hlen] at hc
  rw [← hc]
  congr 1
  apply List.map_congr_left
  intro g hg
  obtain ⟨g1, g2⟩ := mem_cube l g hg
  have : g ∈ I (CS.init dim lmax lmin) ↔ g.sum ≤ lmax - lmin + (dim : Int) * lmin := by
    rw [mem_I_init dim lmin lmax hd h g]
    exact ⟨fun h => h.2.2, fun h => ⟨by rw [g1, hlen], g2 lmin hl, h⟩⟩
  simp only [this]

/-! ### the closed-form side -/

theorem nodup_getGrids : ∀ (d : Nat) (v : Int), (getGrids d v).Nodup
  | 0, _ => by simp [getGrids]
  | 1, _ => by simp [getGrids]
  | n + 2, v => by
    simp only [getGrids]
    rw [List.nodup_flatMap]
    constructor
    · intro idx _
      exact (nodup_getGrids (n + 1) _).map (fun a b e => (List.cons.inj e).2)
    · apply List.Pairwise.imp _ (List.pairwise_lt_range (n := v.toNat))
      intro i j hij
      simp only [Function.onFun]
      intro a ha hb
      rw [List.mem_map] at ha hb
      obtain ⟨a', _, rfl⟩ := ha
      obtain ⟨b', _, e⟩ := hb
      have := (List.cons.inj e).1
      omega

theorem nodup_shiftGrids (lmin : Int) (gs : List LV) (h : gs.Nodup) : (shiftGrids lmin gs).Nodup := by
  unfold shiftGrids
  apply h.map
  apply List.map_injective_iff.mpr
  intro a b e
  simpa using e

/-- the closed-form coefficient of the `q`-th diagonal as the model (and the Python code) computes it -/
def stdCoeff (dim q : Nat) : Int :=
  (if q % 2 == 0 then 1 else -1) * ((fact (dim - 1) / (fact q * fact (dim - 1 - q)) : Nat) : Int)

theorem stdScheme_eq (dim : Nat) (lmin lmax : Int) :
    stdScheme dim lmin lmax =
      (List.range (min (dim : Int) (lmax - lmin + 1)).toNat).flatMap fun (q : Nat) =>
        (shiftGrids lmin (getGrids dim (lmax - lmin + 1 - (q : Int)))).map fun g => (g, stdCoeff dim q) := rfl

theorem fact_eq : ∀ n, fact n = n.factorial
  | 0 => rfl
  | n + 1 => by rw [fact, fact_eq n, Nat.factorial_succ]

theorem neg_one_pow_eq (q : Nat) : ((if q % 2 == 0 then 1 else -1 : Int)) = (-1) ^ q := by
  rcases Nat.even_or_odd q with hq | hq
  · have : q % 2 = 0 := Nat.even_iff.mp hq
    simp [this, hq.neg_one_pow]
  · have : q % 2 = 1 := Nat.odd_iff.mp hq
    simp [this, hq.neg_one_pow]

theorem stdCoeff_eq (dim q : Nat) (hq : q ≤ dim - 1) :
    stdCoeff dim q = (-1) ^ q * ((dim - 1).choose q : Int) := by
  unfold stdCoeff
  rw [neg_one_pow_eq, fact_eq, fact_eq, fact_eq, ← Nat.choose_eq_factorial_div_factorial hq]

theorem stdCoeff_ne_zero (dim q : Nat) (hq : q ≤ dim - 1) : stdCoeff dim q ≠ 0 := by
  rw [stdCoeff_eq dim q hq]
  have h1 : 0 < (dim - 1).choose q := Nat.choose_pos hq
  have h2 : ((-1 : Int)) ^ q ≠ 0 := pow_ne_zero _ (by norm_num)
  exact mul_ne_zero h2 (by exact_mod_cast h1.ne')

theorem mem_std (dim : Nat) (lmin lmax : Int) (p : LV × Int) :
    p ∈ stdScheme dim lmin lmax ↔
      ∃ q : Nat, q < (min (dim : Int) (lmax - lmin + 1)).toNat ∧
        p.1 ∈ shiftGrids lmin (getGrids dim (lmax - lmin + 1 - (q : Int))) ∧ p.2 = stdCoeff dim q := by
  rw [stdScheme_eq]
  simp only [List.mem_flatMap, List.mem_range, List.mem_map]
  constructor
  · rintro ⟨q, hq, g, hg, rfl⟩
    exact ⟨q, hq, hg, rfl⟩
  · rintro ⟨q, hq, hg, hv⟩
    exact ⟨q, hq, p.1, hg, by rw [← hv]⟩

theorem keys_std (dim : Nat) (lmin lmax : Int) :
    keys (stdScheme dim lmin lmax) =
      (List.range (min (dim : Int) (lmax - lmin + 1)).toNat).flatMap fun (q : Nat) =>
        shiftGrids lmin (getGrids dim (lmax - lmin + 1 - (q : Int))) := by
  rw [stdScheme_eq]
  unfold keys
  rw [List.map_flatMap]
  congr 1
  funext q
  rw [List.map_map]
  exact List.map_id _

/-- keys of the closed-form scheme: shape, and the diagonal index is determined by the level sum -/
theorem mem_keys_std (dim : Nat) (lmin lmax : Int) (hd : 1 ≤ dim) (l : LV) :
    l ∈ keys (stdScheme dim lmin lmax) ↔
      ∃ q : Nat, q < (min (dim : Int) (lmax - lmin + 1)).toNat ∧
        l.length = dim ∧ geAll lmin l ∧ l.sum = lmax - lmin - (q : Int) + (dim : Int) * lmin := by
  rw [keys_std]
  simp only [List.mem_flatMap, List.mem_range]
  constructor
  · rintro ⟨q, hq, hl⟩
    obtain ⟨h1, h2, h3⟩ := (mem_shift_getGrids lmin dim _ l hd (by omega)).mp hl
    exact ⟨q, hq, h1, h2, by rw [h3]; ring⟩
  · rintro ⟨q, hq, h1, h2, h3⟩
    exact ⟨q, hq, (mem_shift_getGrids lmin dim _ l hd (by omega)).mpr ⟨h1, h2, by rw [h3]; ring⟩⟩

theorem nodup_keys_std (dim : Nat) (lmin lmax : Int) (hd : 1 ≤ dim) : (keys (stdScheme dim lmin lmax)).Nodup := by
  rw [keys_std, List.nodup_flatMap]
  constructor
  · intro q _
    exact nodup_shiftGrids lmin _ (nodup_getGrids dim _)
  · apply List.Pairwise.imp_of_mem _ (List.pairwise_lt_range (n := (min (dim : Int) (lmax - lmin + 1)).toNat))
    intro i j hi hj hij
    rw [List.mem_range] at hi hj
    simp only [Function.onFun]
    intro a ha hb
    have h1 := ((mem_shift_getGrids lmin dim _ a hd (by omega)).mp ha).2.2
    have h2 := ((mem_shift_getGrids lmin dim _ a hd (by omega)).mp hb).2.2
    omega

theorem std_ne_zero (dim : Nat) (lmin lmax : Int) (p : LV × Int) (hp : p ∈ stdScheme dim lmin lmax) : p.2 ≠ 0 := by
  obtain ⟨q, hq, _, hv⟩ := (mem_std dim lmin lmax p).mp hp
  rw [hv]
  exact stdCoeff_ne_zero dim q (by omega)

/-! ### the two schemes coincide -/

/-- the closed form `(-1)^q * C(dim-1,q)` scheme and the freshly initialised adaptive scheme assign the same
coefficient to every level vector -/
theorem std_eq_init_lookup (dim : Nat) (lmin lmax : Int) (hd : 1 ≤ dim) (h0 : 0 ≤ lmin) (h : lmin ≤ lmax) (l : LV) :
    lookup (stdScheme dim lmin lmax) l = lookup (CS.init dim lmax lmin).coeffs l := by
  have hinv := inv_init dim lmin lmax hd h0 h
  by_cases hsh : l.length = dim ∧ geAll lmin l
  · obtain ⟨hlen, hl⟩ := hsh
    rw [lookup_init dim lmin lmax hd h0 h l hlen hl]
    obtain ⟨n, rfl⟩ : ∃ n, dim = n + 1 := ⟨dim - 1, by omega⟩
    rw [altSum_succ]
    have hsum := sum_ge_of_geAll lmin l hl
    rw [hlen] at hsum
    generalize hP : ((n + 1 : Nat) : Int) * lmin = P at *
    unfold altC
    by_cases hr : lmax - lmin + P - l.sum < 0
    · rw [if_pos hr]
      apply lookup_of_not_mem
      rw [mem_keys_std (n + 1) lmin lmax hd l]
      rintro ⟨q, _, _, _, h3⟩
      rw [hP] at h3
      omega
    · rw [if_neg hr]
      obtain ⟨k, hk⟩ : ∃ k : Nat, lmax - lmin + P - l.sum = (k : Int) := Int.eq_ofNat_of_zero_le (by omega)
      rw [hk, Int.toNat_natCast]
      by_cases hkn : k ≤ n
      · have hmem : (l, stdCoeff (n + 1) k) ∈ stdScheme (n + 1) lmin lmax := by
          rw [mem_std]
          refine ⟨k, by omega, ?_, rfl⟩
          apply (mem_shift_getGrids lmin (n + 1) _ l hd (by omega)).mpr
          refine ⟨hlen, hl, ?_⟩
          rw [hP]
          omega
        rw [lookup_of_mem _ l _ (nodup_keys_std (n + 1) lmin lmax hd) hmem, stdCoeff_eq (n + 1) k (by omega)]
        rfl
      · rw [Nat.choose_eq_zero_of_lt (by omega)]
        simp only [Nat.cast_zero, mul_zero]
        apply lookup_of_not_mem
        rw [mem_keys_std (n + 1) lmin lmax hd l]
        rintro ⟨q, hq, _, _, h3⟩
        rw [hP] at h3
        omega
  · rw [lookup_of_not_mem, lookup_of_not_mem]
    · intro hk
      obtain ⟨p, hp, rfl⟩ := List.mem_map.mp hk
      have := mem_coeffs_shape _ hinv p hp
      exact hsh ⟨this.2.2.1, this.2.2.2⟩
    · rw [mem_keys_std dim lmin lmax hd l]
      rintro ⟨q, _, h1, h2, _⟩
      exact hsh ⟨h1, h2⟩

/-- two schemes with duplicate-free keys and non-zero coefficients that assign the same coefficient to every
level vector are permutations of each other -/
theorem perm_of_lookup (c1 c2 : List (LV × Int)) (hk1 : (keys c1).Nodup) (hk2 : (keys c2).Nodup)
    (hz1 : ∀ p ∈ c1, p.2 ≠ 0) (hz2 : ∀ p ∈ c2, p.2 ≠ 0) (hl : ∀ l, lookup c1 l = lookup c2 l) : c1.Perm c2 := by
  have key : ∀ (a b : List (LV × Int)), (keys a).Nodup → (keys b).Nodup → (∀ p ∈ a, p.2 ≠ 0) →
      (∀ l, lookup a l = lookup b l) → ∀ p ∈ a, p ∈ b := by
    intro a b ha hb hza hlab p hp
    have h1 : lookup a p.1 = p.2 := lookup_of_mem a p.1 p.2 ha hp
    have h2 : lookup b p.1 = p.2 := by rw [← hlab, h1]
    have hmem : p.1 ∈ keys b := by
      by_contra hn
      rw [lookup_of_not_mem b p.1 hn] at h2
      exact hza p hp h2.symm
    obtain ⟨p', hp', e⟩ := List.mem_map.mp hmem
    have h3 : lookup b p.1 = p'.2 := by
      apply lookup_of_mem b p.1 p'.2 hb
      rw [← e]; exact hp'
    have : p' = p := by
      apply Prod.ext e
      rw [← h3, h2]
    rw [← this]; exact hp'
  rw [List.perm_ext_iff_of_nodup (List.Nodup.of_map _ hk1) (List.Nodup.of_map _ hk2)]
  intro p
  exact ⟨key c1 c2 hk1 hk2 hz1 hl p, key c2 c1 hk2 hk1 hz2 (fun l => (hl l).symm) p⟩

/-- as lists the two schemes are permutations of each other (what the Python comparison "sorted lists are equal"
observes) -/
theorem std_perm_init (dim : Nat) (lmin lmax : Int) (hd : 1 ≤ dim) (h0 : 0 ≤ lmin) (h : lmin ≤ lmax) :
    (stdScheme dim lmin lmax).Perm (CS.init dim lmax lmin).coeffs := by
  have hinv := inv_init dim lmin lmax hd h0 h
  have hs := coeff_support _ hinv
  exact perm_of_lookup _ _ (nodup_keys_std dim lmin lmax hd) hs.2 (std_ne_zero dim lmin lmax)
    (fun p hp => (hs.1 p hp).2) (std_eq_init_lookup dim lmin lmax hd h0 h)

/-! ### non-vacuity -/

-- the hypotheses `1 ≤ dim`, `0 ≤ lmin ≤ lmax` are satisfiable and the schemes are non-trivial
example : lookup (stdScheme 3 1 3) [1, 1, 3] = 1 := by decide
example : lookup (stdScheme 3 1 3) [1, 1, 2] = -2 := by decide
example : lookup (CS.init 3 3 1).coeffs [1, 1, 2] = -2 := by decide
example : lookup (CS.init 3 3 1).coeffs [1, 1, 1] = 1 := by decide
example : lookup (CS.init 3 3 1).coeffs [1, 1, 4] = 0 := by decide
example : (stdScheme 3 1 3).length = 10 := by decide
-- the q-loop truncated by `lmax - lmin + 1 < dim`
example : (stdScheme 3 2 3).length = 4 := by decide
example : lookup (stdScheme 3 2 3) [2, 2, 2] = -2 := by decide
-- the lists differ in order (so `Perm`, not `=`, is the right statement) …
example : stdScheme 3 1 3 ≠ (CS.init 3 3 1).coeffs := by decide
-- … and the theorems apply
example : (stdScheme 3 1 3).Perm (CS.init 3 3 1).coeffs :=
  std_perm_init 3 1 3 (by decide) (by decide) (by decide)
example : lookup (CS.init 4 5 2).coeffs [2, 3, 2, 2] = lookup (stdScheme 4 2 5) [2, 3, 2, 2] :=
  (std_eq_init_lookup 4 2 5 (by decide) (by decide) (by decide) _).symm

end SparseSpace
