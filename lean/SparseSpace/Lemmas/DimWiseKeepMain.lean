import SparseSpace.Lemmas.DimWiseKeepTab
/-!
# (H_keep) for the histories without rebalancing, in the class "at most two dimensions above `lmin`"

`keepsInitial_of_shape`: in a well-formed state of a rebalancing-free history, for a `LoopOK` configuration (versions 6, 7, 8; version 3 with a rounding satisfying `V3OK`):
if every level vector of the initial index set has at most two components above `lmin` — which is the case for
`dim = 2` and for `lmax − lmin ≤ 2` — then `Exact.keepsInitial` holds.  The witness for `k0` is
`r_d = rOf d (k0_d)`; `r` is in the index set by `index_set_contains` because the loop values of two dimensions
together never exceed `max(lmax) − lmax0` (`mMax_pair`).
-/
namespace SparseSpace
open Exact

/-! ## list lemmas -/

theorem sum_le_zero' : ∀ (K R : List Int), K.length = R.length →
    (∀ k, k < K.length → R.getD k 0 ≤ K.getD k 0) → R.sum ≤ K.sum
  | [], [], _, _ => le_refl _
  | [], _ :: _, h, _ => by simp at h
  | _ :: _, [], h, _ => by simp at h
  | x :: K, y :: R, h, hall => by
    have h0 := hall 0 (by simp)
    simp only [List.getD_cons_zero] at h0
    have ih := sum_le_zero' K R (by simpa using h) (fun k hk => by
      have := hall (k + 1) (by simpa using hk); simpa using this)
    simp only [List.sum_cons]; omega

theorem sum_le_one' : ∀ (K R : List Int) (d : Nat), K.length = R.length → d < K.length →
    (∀ k, k < K.length → k ≠ d → R.getD k 0 ≤ K.getD k 0) → R.sum ≤ K.sum + (R.getD d 0 - K.getD d 0)
  | [], _, d, _, hd, _ => by simp at hd
  | _ :: _, [], _, h, _, _ => by simp at h
  | x :: K, y :: R, 0, h, _, hall => by
    have ih := sum_le_zero' K R (by simpa using h) (fun k hk => by
      have := hall (k + 1) (by simpa using hk) (by omega); simpa using this)
    simp only [List.sum_cons, List.getD_cons_zero]; omega
  | x :: K, y :: R, d + 1, h, hd, hall => by
    have h0 := hall 0 (by simp) (by omega)
    simp only [List.getD_cons_zero] at h0
    have ih := sum_le_one' K R d (by simpa using h) (by simpa using hd) (fun k hk hkd => by
      have := hall (k + 1) (by simpa using hk) (by omega); simpa using this)
    simp only [List.sum_cons, List.getD_cons_succ]; omega

theorem sum_le_two' : ∀ (K R : List Int) (d e : Nat), K.length = R.length → d < e → e < K.length →
    (∀ k, k < K.length → k ≠ d → k ≠ e → R.getD k 0 ≤ K.getD k 0) →
    R.sum ≤ K.sum + (R.getD d 0 - K.getD d 0) + (R.getD e 0 - K.getD e 0)
  | [], _, _, e, _, _, he, _ => by simp at he
  | _ :: _, [], _, _, h, _, _, _ => by simp at h
  | x :: K, y :: R, 0, 0, _, hde, _, _ => by omega
  | x :: K, y :: R, 0, e + 1, h, _, he, hall => by
    have ih := sum_le_one' K R e (by simpa using h) (by simpa using he) (fun k hk hke => by
      have := hall (k + 1) (by simpa using hk) (by omega) (by omega); simpa using this)
    simp only [List.sum_cons, List.getD_cons_zero, List.getD_cons_succ]; omega
  | x :: K, y :: R, d + 1, 0, _, hde, _, _ => by omega
  | x :: K, y :: R, d + 1, e + 1, h, hde, he, hall => by
    have h0 := hall 0 (by simp) (by omega) (by omega)
    simp only [List.getD_cons_zero] at h0
    have ih := sum_le_two' K R d e (by simpa using h) (by omega) (by simpa using he) (fun k hk hkd hke => by
      have := hall (k + 1) (by simpa using hk) (by omega) (by omega); simpa using this)
    simp only [List.sum_cons, List.getD_cons_succ]; omega

/-- two components of a level vector `≥ lmin` -/
theorem two_comp_le (lmin : Int) (l : LV) (d e : Nat) (hg : geAll lmin l) (hd : d < l.length) (he : e < l.length)
    (hde : d ≠ e) : l.getD d 0 + l.getD e 0 ≤ l.sum - ((l.length : Int) - 2) * lmin := by
  have hg1 := geAll_bump lmin l d (lmin - l.getD d 0) hg (by omega)
  have hs1 := sum_bump l d (lmin - l.getD d 0) hd
  have hne : (bump l d (lmin - l.getD d 0)).getD e 0 = l.getD e 0 := getD_bump_ne l d e _ (fun h => hde h.symm)
  have hg2 := geAll_bump lmin _ e (lmin - l.getD e 0) hg1 (by rw [hne]; omega)
  have hs2 := sum_bump (bump l d (lmin - l.getD d 0)) e (lmin - l.getD e 0) (by rw [length_bump]; exact he)
  have := sum_ge_of_geAll lmin _ hg2
  rw [length_bump, length_bump, hs2, hs1] at this
  have e2 : ((l.length : Int) - 2) * lmin = (l.length : Int) * lmin - 2 * lmin := by ring
  rw [e2]; omega

/-! ## the initial index set -/

theorem mem_boxVecs : ∀ (n : Nat) (lo : Int) (span : Nat) (v : LV), v ∈ boxVecs n lo span →
    v.length = n ∧ ∀ x ∈ v, lo ≤ x ∧ x ≤ lo + span
  | 0, _, _, v, h => by
    simp only [boxVecs, List.mem_singleton] at h
    subst h; simp
  | n + 1, lo, span, v, h => by
    simp only [boxVecs, List.mem_flatMap, List.mem_range, List.mem_map] at h
    obtain ⟨i, hi, w, hw, rfl⟩ := h
    obtain ⟨h1, h2⟩ := mem_boxVecs n lo span w hw
    refine ⟨by simp [h1], ?_⟩
    intro x hx
    rcases List.mem_cons.1 hx with rfl | hx
    · omega
    · exact h2 x hx

theorem mem_initIdx (dim : Nat) (lmin lmax0 : Int) (hl : lmin ≤ lmax0) (k : LV) (hk : k ∈ initIdx dim lmin lmax0) :
    k.length = dim ∧ geAll lmin k ∧ (∀ x ∈ k, x ≤ lmax0) ∧ k.sum ≤ lmax0 + ((dim : Int) - 1) * lmin := by
  unfold initIdx at hk
  rw [List.mem_filter] at hk
  obtain ⟨h1, h2⟩ := mem_boxVecs _ _ _ k hk.1
  refine ⟨h1, fun x hx => (h2 x hx).1, fun x hx => by have := (h2 x hx).2; omega, ?_⟩
  have := of_decide_eq_true hk.2
  simp only [sumLV] at this
  rw [List.sum_eq_foldl]; exact this

/-! ## the witness vector -/

def DW.rVec (st : DW) (cfg : PtCfg) (lmax0 : Int) : Nat → LV → LV
  | _, [] => []
  | d, k :: ks => st.rOf cfg lmax0 d k :: DW.rVec st cfg lmax0 (d + 1) ks

theorem rVec_length (st : DW) (cfg : PtCfg) (lmax0 : Int) : ∀ (ks : LV) (d : Nat),
    (st.rVec cfg lmax0 d ks).length = ks.length
  | [], _ => rfl
  | _ :: ks, d => by simp [DW.rVec, rVec_length st cfg lmax0 ks (d + 1)]

theorem rVec_getD (st : DW) (cfg : PtCfg) (lmax0 : Int) : ∀ (ks : LV) (d e : Nat), e < ks.length →
    (st.rVec cfg lmax0 d ks).getD e 0 = st.rOf cfg lmax0 (d + e) (ks.getD e 0)
  | [], _, e, h => by simp at h
  | k :: ks, d, 0, _ => by simp [DW.rVec]
  | k :: ks, d, e + 1, h => by
    simp only [DW.rVec, List.getD_cons_succ]
    rw [rVec_getD st cfg lmax0 ks (d + 1) e (by simpa using h)]
    have : d + 1 + e = d + (e + 1) := by omega
    rw [this]

theorem rVec_good (st : DW) (cfg : PtCfg) (lmax0 : Int) (s : DWState) : ∀ (ks : LV) (d : Nat),
    (∀ e, e < ks.length → goodLevel s (d + e) (ks.getD e 0) (st.rOf cfg lmax0 (d + e) (ks.getD e 0)) = true) →
    goodVecFrom s d ks (st.rVec cfg lmax0 d ks) = true
  | [], _, _ => rfl
  | k :: ks, d, h => by
    simp only [DW.rVec, goodVecFrom, Bool.and_eq_true]
    refine ⟨by simpa using h 0 (by simp), ?_⟩
    apply rVec_good st cfg lmax0 s ks (d + 1)
    intro e he
    have := h (e + 1) (by simpa using he)
    simp only [List.getD_cons_succ] at this
    have e1 : d + 1 + e = d + (e + 1) := by omega
    rw [e1]; exact this

/-- what is needed about one component of the witness -/
theorem rOf_facts (a b : List Rat) (lmax0 : Nat) (st : DW) (h : DWWF a b lmax0 st) (hn : NRInv a b lmax0 st)
    (cfg : PtCfg) (hv : LoopOK cfg) (h2 : 2 ≤ lmax0) (d : Nat) (hd : d < st.dim) (k : Int)
    (hk1 : st.lmin ≤ k) (hk2 : k ≤ lmax0) :
    (lmax0 : Int) ≤ st.lmax.getD d 0 ∧ st.lmax.getD d 0 ≤ maxList st.lmax ∧
    st.lmin ≤ st.rOf cfg lmax0 d k ∧ st.rOf cfg lmax0 d k ≤ st.lmax.getD d 0 ∧
    st.rOf cfg lmax0 d k - k ≤ st.lmax.getD d 0 - lmax0 ∧
    (k ≤ max st.lmin 1 → st.rOf cfg lmax0 d k = st.lmin) ∧
    (¬ k ≤ max st.lmin 1 → k < lmax0 → st.rOf cfg lmax0 d k = k + st.mMax cfg d k) ∧
    (k < lmax0 → st.lmin < lmax0 → st.rOf cfg lmax0 d k < st.lmax.getD d 0) := by
  obtain ⟨_, lm, _, _, hlm, _, _, _, _, _, hlm0, _, _⟩ := dim_ctx a b lmax0 st h hn d hd
  have hM := mMax_le a b lmax0 st h hn cfg hv h2 d hd k
  have hM0 := (mMax_spec st cfg d k).1
  have hmx := getD_le_maxList st.lmax d (by rw [h.llmax]; exact hd)
  have hlmin := h.lmin_le
  rw [hlm] at hM hmx ⊢
  unfold DW.rOf
  rw [hlm]
  refine ⟨hlm0, hmx, ?_, ?_, ?_, ?_, ?_, ?_⟩
  · split
    · omega
    · split <;> omega
  · split
    · omega
    · split <;> omega
  · split
    · omega
    · split <;> omega
  · intro hl; rw [if_pos hl]
  · intro hl hk; rw [if_neg hl, if_neg (by omega)]
  · intro hk hl
    split
    · omega
    · rw [if_neg (by omega)]; omega

/-! ## the witness is in the index set -/

/-- at most two components of `k0` are above `lmin` -/
def TwoAbove (dim : Nat) (lmin : Int) (k0 : LV) : Prop :=
  (∃ d e, d < e ∧ e < dim ∧ ∀ k, k < dim → k ≠ d → k ≠ e → k0.getD k 0 = lmin) ∨
  (∃ d, d < dim ∧ ∀ k, k < dim → k ≠ d → k0.getD k 0 = lmin)

theorem getD_mem_of_lt (l : LV) (d : Nat) (hd : d < l.length) : l.getD d 0 ∈ l := by
  have : l.getD d 0 = l[d] := by simp [List.getD, List.getElem?_eq_getElem hd]
  rw [this]; exact List.getElem_mem hd

theorem witness_in_index_set (a b : List Rat) (lmax0 : Nat) (st : DW) (h : DWWF a b lmax0 st)
    (hn : NRInv a b lmax0 st) (cfg : PtCfg) (hv : LoopOK cfg) (h2 : 2 ≤ lmax0) (hlt : st.lmin < lmax0)
    (k0 : LV) (hk0 : k0 ∈ initIdx st.dim st.lmin lmax0) (hsh : TwoAbove st.dim st.lmin k0) :
    st.rVec cfg lmax0 0 k0 ∈ st.cs.old ++ st.cs.active := by
  obtain ⟨hlen, hg, hle, hsum⟩ := mem_initIdx st.dim st.lmin lmax0 h.lmin_le k0 hk0
  have hkb : ∀ d, d < st.dim → st.lmin ≤ k0.getD d 0 ∧ k0.getD d 0 ≤ lmax0 := fun d hd =>
    ⟨geAll_getD st.lmin k0 d hg (by omega), hle _ (getD_mem_of_lt k0 d (by omega))⟩
  have hF := fun d (hd : d < st.dim) =>
    rOf_facts a b lmax0 st h hn cfg hv h2 d hd (k0.getD d 0) (hkb d hd).1 (hkb d hd).2
  have hrd : ∀ d, d < st.dim → (st.rVec cfg lmax0 0 k0).getD d 0 = st.rOf cfg lmax0 d (k0.getD d 0) := by
    intro d hd
    have := rVec_getD st cfg lmax0 k0 0 d (by omega)
    rwa [Nat.zero_add] at this
  have hrl : (st.rVec cfg lmax0 0 k0).length = st.dim := by rw [rVec_length]; exact hlen
  -- two components of k0
  have htwo : ∀ d e, d < st.dim → e < st.dim → d ≠ e → k0.getD d 0 + k0.getD e 0 ≤ lmax0 + st.lmin := by
    intro d e hd he hde
    have := two_comp_le st.lmin k0 d e hg (by omega) (by omega) hde
    rw [hlen] at this
    have e1 : ((st.dim : Int) - 2) * st.lmin = (st.dim : Int) * st.lmin - 2 * st.lmin := by ring
    have e2 : ((st.dim : Int) - 1) * st.lmin = (st.dim : Int) * st.lmin - st.lmin := by ring
    rw [e1] at this; rw [e2] at hsum
    omega
  have hlowle : ∀ k, k < st.dim → k0.getD k 0 = st.lmin →
      (st.rVec cfg lmax0 0 k0).getD k 0 ≤ k0.getD k 0 := by
    intro k hk hkl
    rw [hrd k hk]
    have := (hF k hk).2.2.2.2.2.1 (by rw [hkl]; exact le_max_left _ _)
    rw [this, hkl]
  apply index_set_contains a b lmax0 st h hn.noRaise _ _ hrl (Nat.le_refl _)
  · intro d hd
    rw [hrd d hd]
    exact ⟨(hF d hd).2.2.1, (hF d hd).2.2.2.1⟩
  · -- the sum
    have hG : (st.rVec cfg lmax0 0 k0).sum ≤ k0.sum + (maxList st.lmax - lmax0) := by
      rcases hsh with ⟨d, e, hde, he, hoth⟩ | ⟨d, hd, hoth⟩
      · have hd : d < st.dim := by omega
        have hs := sum_le_two' k0 (st.rVec cfg lmax0 0 k0) d e (by rw [hrl, hlen]) hde (by omega)
          (fun k hk hkd hke => hlowle k (by omega) (hoth k (by omega) hkd hke))
        rw [hrd d hd, hrd e he] at hs
        obtain ⟨fd1, fd2, _, _, fd5, fd6, fd7, _⟩ := hF d hd
        obtain ⟨fe1, fe2, _, _, fe5, fe6, fe7, _⟩ := hF e he
        have hde2 := htwo d e hd he (by omega)
        have hkd := hkb d hd
        have hke := hkb e he
        by_cases ld : k0.getD d 0 ≤ max st.lmin 1
        · have := fd6 ld; omega
        · by_cases le : k0.getD e 0 ≤ max st.lmin 1
          · have := fe6 le; omega
          · have h1 := fd7 ld (by omega)
            have h2' := fe7 le (by omega)
            have hp := mMax_pair a b lmax0 st h hn cfg hv (by omega) d e hde he (k0.getD d 0) (k0.getD e 0)
            omega
      · have hs := sum_le_one' k0 (st.rVec cfg lmax0 0 k0) d (by rw [hrl, hlen]) (by omega)
          (fun k hk hkd => hlowle k (by omega) (hoth k (by omega) hkd))
        rw [hrd d hd] at hs
        obtain ⟨_, fd2, _, _, fd5, _⟩ := hF d hd
        omega
    have e2 : ((st.dim : Int) - 1) * st.lmin = st.lmin * ((st.dim : Int) - 1) := by ring
    rw [e2] at hsum
    omega
  · intro d hd hlt' k hk hkd
    rw [hrd d hd] at hlt'
    rw [hrd k hk]
    obtain ⟨_, _, _, _, _, fd6, _, _⟩ := hF d hd
    have hnl : ¬ k0.getD d 0 ≤ max st.lmin 1 := fun hl => by have := fd6 hl; omega
    have := htwo d k hd hk (fun e => hkd e.symm)
    exact (hF k hk).2.2.2.2.2.2.2 (by omega) hlt

/-- **(H_keep) in the class "at most two dimensions above `lmin`"**, any `LoopOK` version, rebalancing off -/
theorem keepsInitial_of_shape (a b : List Rat) (lmax0 : Nat) (st : DW) (h : DWWF a b lmax0 st)
    (hn : NRInv a b lmax0 st) (hub : UBst st) (cfg : PtCfg) (hv : LoopOK cfg) (h2 : 2 ≤ lmax0)
    (hlt : st.lmin < lmax0) (hla : a.length = st.dim) (hlb : b.length = st.dim)
    (hab : ∀ d, d < st.dim → a.getD d 0 < b.getD d 0)
    (hshape : ∀ k0 ∈ initIdx st.dim st.lmin lmax0, TwoAbove st.dim st.lmin k0) :
    keepsInitial (st.toExact cfg a b lmax0) = true := by
  unfold keepsInitial
  rw [Bool.and_eq_true]
  constructor
  · exact scheme_tabulated st cfg a b lmax0 h.scheme.1 h.scheme.2.2 hub
  · rw [List.all_eq_true]
    intro k0 hk0
    have hk0' : k0 ∈ initIdx st.dim st.lmin lmax0 := hk0
    rw [List.any_eq_true]
    refine ⟨st.rVec cfg lmax0 0 k0,
      witness_in_index_set a b lmax0 st h hn cfg hv h2 hlt k0 hk0' (hshape k0 hk0'), ?_⟩
    obtain ⟨hlen, hg, hle, _⟩ := mem_initIdx st.dim st.lmin lmax0 h.lmin_le k0 hk0'
    apply rVec_good
    intro e he
    rw [Nat.zero_add]
    have hed : e < st.dim := by omega
    exact good_dim a b lmax0 st h hn cfg hv h2 e hed (by omega) (by omega) (hab e hed) (k0.getD e 0)
      (geAll_getD st.lmin k0 e hg he) (hle _ (getD_mem_of_lt k0 e he))

/-! ## the two classes -/

theorem twoAbove_dim2 (lmin : Int) (k0 : LV) : TwoAbove 2 lmin k0 :=
  Or.inl ⟨0, 1, by omega, by omega, fun k hk h0 h1 => by omega⟩

theorem three_comp_le (lmin : Int) (l : LV) (d e f : Nat) (hg : geAll lmin l) (hd : d < l.length) (he : e < l.length)
    (hf : f < l.length) (hde : d ≠ e) (hdf : d ≠ f) (hef : e ≠ f) :
    l.getD d 0 + l.getD e 0 + l.getD f 0 ≤ l.sum - ((l.length : Int) - 3) * lmin := by
  have hg1 := geAll_bump lmin l d (lmin - l.getD d 0) hg (by omega)
  have hs1 := sum_bump l d (lmin - l.getD d 0) hd
  have hne : (bump l d (lmin - l.getD d 0)).getD e 0 = l.getD e 0 := getD_bump_ne l d e _ (fun h => hde h.symm)
  have hnf : (bump l d (lmin - l.getD d 0)).getD f 0 = l.getD f 0 := getD_bump_ne l d f _ (fun h => hdf h.symm)
  have hg2 := geAll_bump lmin _ e (lmin - l.getD e 0) hg1 (by rw [hne]; omega)
  have hs2 := sum_bump (bump l d (lmin - l.getD d 0)) e (lmin - l.getD e 0) (by rw [length_bump]; exact he)
  have hnf2 : (bump (bump l d (lmin - l.getD d 0)) e (lmin - l.getD e 0)).getD f 0 = l.getD f 0 := by
    rw [getD_bump_ne _ e f _ (fun h => hef h.symm), hnf]
  have hg3 := geAll_bump lmin _ f (lmin - l.getD f 0) hg2 (by rw [hnf2]; omega)
  have hs3 := sum_bump (bump (bump l d (lmin - l.getD d 0)) e (lmin - l.getD e 0)) f (lmin - l.getD f 0)
    (by rw [length_bump, length_bump]; exact hf)
  have := sum_ge_of_geAll lmin _ hg3
  rw [length_bump, length_bump, length_bump, hs3, hs2, hs1] at this
  have e2 : ((l.length : Int) - 3) * lmin = (l.length : Int) * lmin - 3 * lmin := by ring
  rw [e2]; omega

/-- `lmax0 − lmin ≤ 2`: every level vector of the initial index set has at most two components above `lmin` -/
theorem twoAbove_span2 (dim : Nat) (lmin lmax0 : Int) (hd : 1 ≤ dim) (hl : lmin ≤ lmax0) (hspan : lmax0 ≤ lmin + 2)
    (k0 : LV) (hk0 : k0 ∈ initIdx dim lmin lmax0) : TwoAbove dim lmin k0 := by
  obtain ⟨hlen, hg, _, hsum⟩ := mem_initIdx dim lmin lmax0 hl k0 hk0
  have e1 : ((dim : Int) - 1) * lmin = (dim : Int) * lmin - lmin := by ring
  rw [e1] at hsum
  have hge : ∀ k, k < dim → lmin ≤ k0.getD k 0 := fun k hk => geAll_getD lmin k0 k hg (by omega)
  by_cases h1 : ∃ d, d < dim ∧ lmin < k0.getD d 0
  · obtain ⟨d, hdd, hdl⟩ := h1
    by_cases h2 : ∃ e, e ≠ d ∧ e < dim ∧ lmin < k0.getD e 0
    · obtain ⟨e, hed, hee, hel⟩ := h2
      have hoth : ∀ k, k < dim → k ≠ d → k ≠ e → k0.getD k 0 = lmin := by
        intro k hk hkd hke
        by_contra hne
        have hk1 := hge k hk
        have := three_comp_le lmin k0 d e k hg (by omega) (by omega) (by omega) (fun h => hed h.symm)
          (fun h => hkd h.symm) (fun h => hke h.symm)
        rw [hlen] at this
        have e3 : ((dim : Int) - 3) * lmin = (dim : Int) * lmin - 3 * lmin := by ring
        rw [e3] at this
        omega
      left
      rcases Nat.lt_or_gt_of_ne hed with hlt | hgt
      · exact ⟨e, d, hlt, hdd, fun k hk h1 h2 => hoth k hk h2 h1⟩
      · exact ⟨d, e, hgt, hee, hoth⟩
    · right
      refine ⟨d, hdd, fun k hk hkd => ?_⟩
      by_contra hne
      exact h2 ⟨k, hkd, hk, by have := hge k hk; omega⟩
  · right
    refine ⟨0, by omega, fun k hk _ => ?_⟩
    by_contra hne
    exact h1 ⟨k, hk, by have := hge k hk; omega⟩

end SparseSpace
