import SparseSpace.Lemmas.RefTreeTiling
/-!
# The selection loop of `refine()` (C06): cursors, deferred removal, sort

`refineLoop` (the literal cursor loop) splits exactly the positions whose benefit reaches the tolerance, once
each, in lexicographic order; `Meta.post` (removal of the split objects, sort by start, cursor resets) then
leaves `splitSel` of the old object list.
-/
namespace SparseSpace

/-- object `i` reaches the tolerance -/
def Pb (bens : List Rat) (tol : Rat) (i : Nat) : Bool :=
  match bens[i]? with
  | some b => decide (tol ≤ b)
  | none => false

theorem findFrom_some (bens : List Rat) (tol : Rat) : ∀ (n pos i : Nat), findFrom bens tol n pos = some i →
    pos ≤ i ∧ i < pos + n ∧ Pb bens tol i = true ∧ ∀ j, pos ≤ j → j < i → Pb bens tol j = false
  | 0, _, _, h => by simp [findFrom] at h
  | n+1, pos, i, h => by
    simp only [findFrom] at h
    cases hb : bens[pos]? with
    | none =>
      rw [hb] at h
      obtain ⟨h1, h2, h3, h4⟩ := findFrom_some bens tol n (pos + 1) i h
      refine ⟨by omega, by omega, h3, ?_⟩
      intro j hj1 hj2
      by_cases hj : j = pos
      · subst hj; simp [Pb, hb]
      · exact h4 j (by omega) hj2
    | some b =>
      rw [hb] at h
      by_cases ht : tol ≤ b
      · simp only [ht, if_true, Option.some.injEq] at h
        subst h
        exact ⟨Nat.le_refl _, by omega, by simp [Pb, hb, ht], fun j h1 h2 => by omega⟩
      · simp only [ht, if_false] at h
        obtain ⟨h1, h2, h3, h4⟩ := findFrom_some bens tol n (pos + 1) i h
        refine ⟨by omega, by omega, h3, ?_⟩
        intro j hj1 hj2
        by_cases hj : j = pos
        · subst hj; simp [Pb, hb, ht]
        · exact h4 j (by omega) hj2

theorem findFrom_none (bens : List Rat) (tol : Rat) : ∀ (n pos : Nat), findFrom bens tol n pos = none →
    ∀ j, pos ≤ j → j < pos + n → Pb bens tol j = false
  | 0, _, _ => fun j h1 h2 => by omega
  | n+1, pos, h => by
    simp only [findFrom] at h
    cases hb : bens[pos]? with
    | none =>
      rw [hb] at h
      have ih := findFrom_none bens tol n (pos + 1) h
      intro j hj1 hj2
      by_cases hj : j = pos
      · subst hj; simp [Pb, hb]
      · exact ih j (by omega) (by omega)
    | some b =>
      rw [hb] at h
      by_cases ht : tol ≤ b
      · simp [ht] at h
      · simp only [ht, if_false] at h
        have ih := findFrom_none bens tol n (pos + 1) h
        intro j hj1 hj2
        by_cases hj : j = pos
        · subst hj; simp [Pb, hb, ht]
        · exact ih j (by omega) (by omega)

/-- the children of object `i` of the original list -/
def splitOf (orig : List Ival) (i : Nat) : List Ival :=
  match orig[i]? with
  | some x => x.split
  | none => []

/-- state of one container inside the loop, relative to the object list `orig` at the start of `refine()` -/
structure ContInv (orig : List Ival) (P : Nat → Bool) (c : Cont) : Prop where
  sn : c.startNew = orig.length
  ne : orig.length ≠ 0
  sp : c.searchPos ≤ orig.length
  pop : c.pop = (List.range c.searchPos).filter P
  objs : c.objs = orig ++ c.pop.flatMap (splitOf orig)

theorem range_filter_extend (P : Nat → Bool) (sp i : Nat) (h1 : sp ≤ i) (h2 : P i = true)
    (h3 : ∀ j, sp ≤ j → j < i → P j = false) :
    (List.range (i + 1)).filter P = (List.range sp).filter P ++ [i] := by
  induction i with
  | zero =>
    have : sp = 0 := by omega
    subst this; simp [h2]
  | succ k ih =>
    by_cases hs : sp = k + 1
    · subst hs
      rw [List.range_succ, List.filter_append]; simp [h2]
    · rw [List.range_succ, List.filter_append]
      have hk : P k = false := h3 k (by omega) (by omega)
      have : (List.range (k + 1)).filter P = (List.range sp).filter P := by
        clear ih
        have : ∀ m, sp ≤ m → m ≤ k + 1 → (List.range m).filter P = (List.range sp).filter P := by
          intro m hm1 hm2
          induction m with
          | zero => have : sp = 0 := by omega
                    subst this; rfl
          | succ m ihm =>
            by_cases hsm : sp = m + 1
            · rw [hsm]
            · rw [List.range_succ, List.filter_append, ihm (by omega) (by omega)]
              have : P m = false := h3 m (by omega) (by omega)
              simp [this]
        exact this (k + 1) (by omega) (Nat.le_refl _)
      rw [this]; simp [h2]

theorem range_filter_exhausted (P : Nat → Bool) (sp n : Nat) (h1 : sp ≤ n)
    (h3 : ∀ j, sp ≤ j → j < n → P j = false) :
    (List.range n).filter P = (List.range sp).filter P := by
  induction n with
  | zero => have : sp = 0 := by omega
            subst this; rfl
  | succ m ihm =>
    by_cases hsm : sp = m + 1
    · rw [hsm]
    · rw [List.range_succ, List.filter_append, ihm (by omega) (fun j a b => h3 j a (by omega))]
      have : P m = false := h3 m (by omega) (by omega)
      simp [this]

theorem cont_next_none {orig : List Ival} {bens : List Rat} {tol : Rat} {c : Cont}
    (hc : ContInv orig (Pb bens tol) c) (h : (c.next bens tol).2 = none) :
    (c.next bens tol).1 = c ∧ ∀ j, c.searchPos ≤ j → j < orig.length → Pb bens tol j = false := by
  unfold Cont.next at h ⊢
  have he : (if c.startNew == 0 then c.objs.length else c.startNew) = orig.length := by
    rw [hc.sn]; simp [hc.ne]
  simp only [he] at h ⊢
  cases hf : findFrom bens tol (orig.length - c.searchPos) c.searchPos with
  | some i => rw [hf] at h; simp at h
  | none =>
    refine ⟨rfl, ?_⟩
    intro j h1 h2
    exact findFrom_none bens tol _ _ hf j h1 (by have := hc.sp; omega)

theorem cont_next_some {orig : List Ival} {bens : List Rat} {tol : Rat} {c : Cont} {i : Nat}
    (hc : ContInv orig (Pb bens tol) c) (h : (c.next bens tol).2 = some i) :
    ∃ c'', (c.next bens tol).1.refine i = some c'' ∧ ContInv orig (Pb bens tol) c'' ∧ c''.searchPos = i + 1 ∧
      c.searchPos ≤ i ∧ i < orig.length ∧ Pb bens tol i = true ∧
      (∀ j, c.searchPos ≤ j → j < i → Pb bens tol j = false) := by
  unfold Cont.next at h ⊢
  have he : (if c.startNew == 0 then c.objs.length else c.startNew) = orig.length := by
    rw [hc.sn]; simp [hc.ne]
  simp only [he] at h ⊢
  cases hf : findFrom bens tol (orig.length - c.searchPos) c.searchPos with
  | none => rw [hf] at h; simp at h
  | some i' =>
    rw [hf] at h
    simp only [Option.some.injEq] at h
    subst h
    obtain ⟨h1, h2, h3, h4⟩ := findFrom_some bens tol _ _ _ hf
    have hi : i' < orig.length := by have := hc.sp; omega
    have hget : c.objs[i']? = orig[i']? := by
      rw [hc.objs, List.getElem?_append_left hi]
    have hx : orig[i']? = some orig[i'] := List.getElem?_eq_getElem hi
    simp only [Cont.refine, hget, hx]
    refine ⟨_, rfl, ?_, rfl, h1, hi, h3, h4⟩
    have hpop : c.pop ++ [i'] = (List.range (i' + 1)).filter (Pb bens tol) := by
      rw [range_filter_extend _ c.searchPos i' h1 h3 h4, hc.pop]
    refine ⟨?_, hc.ne, by simp only []; omega, by simp only []; exact hpop, ?_⟩
    · simp only []; rw [hc.sn]; simp [hc.ne]
    · simp only []
      rw [List.flatMap_append, hc.objs, List.append_assoc]
      simp [splitOf, hx]

/-! ## the meta container -/

/-- state of the meta container inside the loop -/
structure MInv (origs : List (List Ival)) (bens : List (List Rat)) (tol : Rat) (m : Meta) : Prop where
  len : m.conts.length = origs.length
  cur : m.cur ≤ origs.length
  inv : ∀ d c o, m.conts[d]? = some c → origs[d]? = some o → ContInv o (Pb (bens.getD d []) tol) c
  exh : ∀ d c o, d < m.cur → m.conts[d]? = some c → origs[d]? = some o →
    ∀ j, c.searchPos ≤ j → j < o.length → Pb (bens.getD d []) tol j = false
  fresh : ∀ d c, m.cur < d → m.conts[d]? = some c → c.searchPos = 0

theorem meta_next_spec (origs : List (List Ival)) (bens : List (List Rat)) (tol : Rat) :
    ∀ (fuel : Nat) (m : Meta), MInv origs bens tol m → origs.length - m.cur < fuel →
    (∃ m', Meta.next bens tol fuel m = (m', none) ∧ MInv origs bens tol m' ∧ m'.cur = origs.length ∧
        m'.conts = m.conts) ∨
    (∃ d i c, Meta.next bens tol fuel m =
          ({ conts := m.conts.set d (c.next (bens.getD d []) tol).1, cur := d }, some (d, i)) ∧
        m.cur ≤ d ∧ m.conts[d]? = some c ∧ (c.next (bens.getD d []) tol).2 = some i ∧
        MInv origs bens tol { m with cur := d })
  | 0, m, _, hf => by omega
  | f+1, m, hm, hf => by
    unfold Meta.next
    by_cases hcur : m.cur = m.conts.length
    · left
      refine ⟨m, by simp [hcur], hm, by rw [hcur, hm.len], rfl⟩
    · have hlt : m.cur < m.conts.length := by have := hm.cur; have := hm.len; omega
      have hne : (m.cur == m.conts.length) = false := by simp [hcur]
      simp only [hne, Bool.false_eq_true, if_false]
      have hc : m.conts[m.cur]? = some m.conts[m.cur] := List.getElem?_eq_getElem hlt
      rw [hc]
      simp only []
      cases hr : (m.conts[m.cur].next (bens.getD m.cur []) tol).2 with
      | some i =>
        right
        refine ⟨m.cur, i, m.conts[m.cur], ?_, Nat.le_refl _, hc, hr, ?_⟩
        · simp
        · cases m; exact hm
      | none =>
        simp only []
        have hlo : m.cur < origs.length := by rw [← hm.len]; exact hlt
        have ho : origs[m.cur]? = some origs[m.cur] := List.getElem?_eq_getElem hlo
        have hex := cont_next_none (hm.inv _ _ _ hc ho) hr
        have hm' : MInv origs bens tol { m with cur := m.cur + 1 } := by
          refine ⟨hm.len, by simp only []; omega, hm.inv, ?_, ?_⟩
          · intro d c o hd hc' ho' j hj1 hj2
            simp only [] at hd
            by_cases hdc : d = m.cur
            · subst hdc
              rw [hc] at hc'; rw [ho] at ho'
              simp only [Option.some.injEq] at hc' ho'
              subst hc'; subst ho'
              exact hex.2 j hj1 hj2
            · exact hm.exh d c o (by omega) hc' ho' j hj1 hj2
          · intro d c hd hc'
            simp only [] at hd
            exact hm.fresh d c (by omega) hc'
        by_cases hend : m.cur + 1 = m.conts.length
        · left
          have : ((m.cur + 1) == m.conts.length) = true := by simp [hend]
          simp only [this, if_true]
          exact ⟨_, rfl, hm', by simp only []; rw [hend, hm.len], rfl⟩
        · have : ((m.cur + 1) == m.conts.length) = false := by simp [hend]
          simp only [this, Bool.false_eq_true, if_false]
          rcases meta_next_spec origs bens tol f _ hm' (by simp only []; omega) with
            ⟨m'', h1, h2, h3, h4⟩ | ⟨d, i, c, h1, h2, h3, h4, h5⟩
          · left; exact ⟨m'', h1, h2, h3, h4⟩
          · right
            refine ⟨d, i, c, h1, ?_, h3, h4, h5⟩
            simp only [] at h2; omega

/-- remaining work of the loop -/
def suffixLen (origs : List (List Ival)) (k : Nat) : Nat := ((origs.drop k).map List.length).sum

theorem suffixLen_step (origs : List (List Ival)) (k : Nat) (o : List Ival) (h : origs[k]? = some o) :
    suffixLen origs k = o.length + suffixLen origs (k + 1) := by
  unfold suffixLen
  have hk : k < origs.length := by
    by_contra hh
    rw [List.getElem?_eq_none (by omega)] at h; simp at h
  rw [List.drop_eq_getElem_cons hk]
  have : origs[k] = o := by
    rw [List.getElem?_eq_getElem hk] at h; simpa using h
  simp [this]

theorem suffixLen_mono (origs : List (List Ival)) : ∀ (k d : Nat), k ≤ d → suffixLen origs d ≤ suffixLen origs k := by
  intro k d hkd
  induction d with
  | zero => have : k = 0 := by omega
            subst this; exact Nat.le_refl _
  | succ d ih =>
    by_cases hk : k = d + 1
    · subst hk; exact Nat.le_refl _
    · have h1 := ih (by omega)
      by_cases hd : d < origs.length
      · rw [suffixLen_step origs d _ (List.getElem?_eq_getElem hd)] at h1; omega
      · have : suffixLen origs (d + 1) = 0 := by
          unfold suffixLen; rw [List.drop_eq_nil_of_le (by omega)]; rfl
        omega

/-- remaining number of loop iterations: unvisited part of the current container + all later containers -/
def remaining (origs : List (List Ival)) (m : Meta) : Nat :=
  match m.conts[m.cur]?, origs[m.cur]? with
  | some c, some o => (o.length - c.searchPos) + suffixLen origs (m.cur + 1)
  | _, _ => 0

/-- lexicographic order on positions `(dimension, index)` -/
def posLt (p q : Nat × Nat) : Prop := p.1 < q.1 ∨ (p.1 = q.1 ∧ p.2 < q.2)

/-- **the loop**: it terminates within the fuel, and the positions it refines are, in strictly ascending
lexicographic order, exactly the not yet visited positions whose benefit reaches the tolerance -/
theorem refineLoop_spec (origs : List (List Ival)) (bens : List (List Rat)) (tol : Rat) :
    ∀ (fuel : Nat) (m : Meta), MInv origs bens tol m → remaining origs m < fuel →
    ∃ m'' ps, refineLoop bens tol fuel m = some (m'', ps) ∧ MInv origs bens tol m'' ∧ m''.cur = origs.length ∧
      ps.Pairwise posLt ∧
      (∀ d i, (d, i) ∈ ps ↔ (m.cur ≤ d ∧ ∃ c o, m.conts[d]? = some c ∧ origs[d]? = some o ∧
          c.searchPos ≤ i ∧ i < o.length ∧ Pb (bens.getD d []) tol i = true))
  | 0, m, _, hf => by omega
  | f+1, m, hm, hf => by
    unfold refineLoop
    have hfuel : origs.length - m.cur < m.conts.length + 1 := by rw [hm.len]; omega
    rcases meta_next_spec origs bens tol _ m hm hfuel with ⟨m', h1, h2, h3, h4⟩ | ⟨d, i, c, h1, h2, h3, h4, h5⟩
    · -- nothing left
      rw [h1]
      refine ⟨m', [], rfl, h2, h3, List.Pairwise.nil, ?_⟩
      intro d i
      simp only [List.not_mem_nil, false_iff, not_and, not_exists]
      intro hd c o hc ho hsp hi hP
      have hc' : m'.conts[d]? = some c := by rw [h4]; exact hc
      have hdlt : d < origs.length := by
        by_contra hh; rw [List.getElem?_eq_none (by omega)] at ho; simp at ho
      have := h2.exh d c o (by omega) hc' ho i hsp hi
      rw [this] at hP; simp at hP
    · -- position (d, i) is refined
      rw [h1]
      simp only []
      have hdlt : d < m.conts.length := by
        by_contra hh; rw [List.getElem?_eq_none (by omega)] at h3; simp at h3
      have hdo : d < origs.length := by rw [← hm.len]; exact hdlt
      have ho : origs[d]? = some origs[d] := List.getElem?_eq_getElem hdo
      have hci : ContInv origs[d] (Pb (bens.getD d []) tol) c := h5.inv d c _ h3 ho
      obtain ⟨c'', hr, hc'', hsp'', hle, hilt, hPi, hno⟩ := cont_next_some hci h4
      have hset : (m.conts.set d (c.next (bens.getD d []) tol).1)[d]? = some (c.next (bens.getD d []) tol).1 :=
        List.getElem?_set_self hdlt
      simp only [Meta.refine, hset, hr, List.set_set]
      -- the state after the refinement
      have hm2 : MInv origs bens tol { conts := m.conts.set d c'', cur := d } := by
        refine ⟨by simp [hm.len], by simp only []; omega, ?_, ?_, ?_⟩
        · intro d' c' o' hc' ho'
          simp only [List.getElem?_set] at hc'
          by_cases hdd : d = d'
          · subst hdd
            simp only [hdlt, if_true, Option.some.injEq] at hc'
            subst hc'
            rw [ho] at ho'; simp only [Option.some.injEq] at ho'; subst ho'
            exact hc''
          · simp only [hdd, if_false] at hc'
            exact h5.inv d' c' o' hc' ho'
        · intro d' c' o' hd' hc' ho'
          simp only [] at hd'
          have hdd : d ≠ d' := by omega
          simp only [List.getElem?_set, hdd, if_false] at hc'
          exact h5.exh d' c' o' hd' hc' ho'
        · intro d' c' hd' hc'
          simp only [] at hd'
          have hdd : d ≠ d' := by omega
          simp only [List.getElem?_set, hdd, if_false] at hc'
          exact hm.fresh d' c' (by omega) hc'
      have hrem : remaining origs { conts := m.conts.set d c'', cur := d } < f := by
        have e1 : remaining origs { conts := m.conts.set d c'', cur := d }
            = (origs[d].length - (i + 1)) + suffixLen origs (d + 1) := by
          unfold remaining
          simp only [List.getElem?_set_self hdlt, ho, hsp'']
        rw [e1]
        -- old remaining
        have hcur_lt : m.cur < m.conts.length := by omega
        have hco : origs[m.cur]? = some origs[m.cur] := List.getElem?_eq_getElem (by rw [← hm.len]; exact hcur_lt)
        have e2 : remaining origs m = (origs[m.cur].length - m.conts[m.cur].searchPos) + suffixLen origs (m.cur + 1) := by
          unfold remaining
          simp only [List.getElem?_eq_getElem hcur_lt, hco]
        rw [e2] at hf
        by_cases hdc : d = m.cur
        · have hc_eq : m.conts[m.cur] = c := by
            have h3' := h3
            rw [hdc, List.getElem?_eq_getElem hcur_lt] at h3'
            simpa using h3'
          rw [hc_eq] at hf
          subst hdc
          omega
        · have h6 := suffixLen_mono origs (m.cur + 1) d (by omega)
          rw [suffixLen_step origs d _ ho] at h6
          omega
      obtain ⟨m'', ps, hl, hinv, hcur, hpw, hmem⟩ := refineLoop_spec origs bens tol f _ hm2 hrem
      rw [hl]
      refine ⟨m'', (d, i) :: ps, rfl, hinv, hcur, ?_, ?_⟩
      · rw [List.pairwise_cons]
        refine ⟨?_, hpw⟩
        intro q hq
        obtain ⟨q1, q2⟩ := q
        have := (hmem q1 q2).1 hq
        obtain ⟨hq1, c', o', hc', _, hsp', _, _⟩ := this
        have hq1' : d ≤ q1 := hq1
        by_cases hqd : q1 = d
        · subst hqd
          right
          simp only [List.getElem?_set_self hdlt, Option.some.injEq] at hc'
          subst hc'
          exact ⟨rfl, by show i < q2; omega⟩
        · left; show d < q1; omega
      · intro d' i'
        rw [List.mem_cons, hmem d' i']
        simp only [Prod.mk.injEq]
        constructor
        · rintro (⟨rfl, rfl⟩ | ⟨hd', c', o', hc', ho', hsp', hi', hP'⟩)
          · exact ⟨h2, c, _, h3, ho, hle, hilt, hPi⟩
          · have hd'' : d ≤ d' := hd'
            by_cases hdd : d = d'
            · subst hdd
              simp only [List.getElem?_set_self hdlt, Option.some.injEq] at hc'
              subst hc'
              exact ⟨h2, c, o', h3, ho', by omega, hi', hP'⟩
            · simp only [List.getElem?_set, hdd, if_false] at hc'
              exact ⟨by omega, c', o', hc', ho', hsp', hi', hP'⟩
        · rintro ⟨hd', c', o', hc', ho', hsp', hi', hP'⟩
          by_cases hdi : d' = d ∧ i' = i
          · left; exact hdi
          · right
            -- (d', i') lies after (d, i)
            have hge : d ≤ d' := by
              by_contra hh
              have hlt : d' < d := by omega
              have := h5.exh d' c' o' hlt hc' ho' i' hsp' hi'
              rw [this] at hP'; simp at hP'
            refine ⟨hge, ?_⟩
            by_cases hdd : d = d'
            · subst hdd
              rw [h3] at hc'; simp only [Option.some.injEq] at hc'; subst hc'
              rw [ho] at ho'; simp only [Option.some.injEq] at ho'; subst ho'
              refine ⟨c'', _, List.getElem?_set_self hdlt, ho, ?_, hi', hP'⟩
              rw [hsp'']
              by_contra hh
              have hlt : i' < i ∨ i' = i := by omega
              rcases hlt with hlt | heq
              · have := hno i' hsp' hlt
                rw [this] at hP'; simp at hP'
              · exact hdi ⟨rfl, heq⟩
            · refine ⟨c', o', ?_, ho', hsp', hi', hP'⟩
              simp only [List.getElem?_set, hdd, if_false]
              exact hc'

end SparseSpace
