import SparseSpace.Lemmas.ExtendSplitLocal
/-!
# Push-forward of a valid combination along a map with a lower adjoint RELATIVE TO THE SUPPORT (C07, extension)

Let `L` be a scheme (list of `(level vector, coefficient)`) whose dominated sums are the indicator of a
downward-closed set `J` (C01's identity), `φ` any map on level vectors (the coarsening applied to every component
grid) and `φ# L` the scheme `[(φ l, c_l)]` (colliding images keep separate entries; dominated sums add them).
If for every target `t` there is `ψ t` with

  `φ l ≥ t  ⇔  l ≥ ψ t`   for every `l` IN THE SUPPORT of `L`

(a Galois connection is only needed on the support, not on the whole lattice — that is what makes the lemma
applicable to versions 1 and 2 of `coarsen_grid`, whose coarsening map has no lower adjoint on the lattice), then

  `domSum (φ# L) t = domSum L (ψ t) = [ψ t ∈ J]`,

the downward closure of the support of `φ# L` is `{t | ψ t ∈ J}`, and `φ# L` is a valid local combination
(`LocalValid`: coefficient sum 1 at every point of the downward closure, 0 elsewhere; hence total sum 1 and the
collapse / reproduction property via `comb_collapse`).  Pure order theory + the identity of `L`.
-/
namespace SparseSpace

/-- the scheme `[(φ l, c_l)]` -/
def pushForward (φ : LV → LV) (L : List (LV × Int)) : List (LV × Int) := L.map fun p => (φ p.1, p.2)

theorem mem_pushForward (φ : LV → LV) (L : List (LV × Int)) (p : LV × Int) :
    p ∈ pushForward φ L ↔ ∃ p' ∈ L, p = (φ p'.1, p'.2) := by
  unfold pushForward
  rw [List.mem_map]
  constructor
  · rintro ⟨a, ha, rfl⟩; exact ⟨a, ha, rfl⟩
  · rintro ⟨a, ha, rfl⟩; exact ⟨a, ha, rfl⟩

/-- dominated sums of the push-forward: if on the support `φ l ≥ t ⇔ l ≥ u`, the dominated sum at `t` is the dominated
sum of the original scheme at `u` -/
theorem domSum_pushForward (φ : LV → LV) (t u : LV) : ∀ (L : List (LV × Int)),
    (∀ p ∈ L, leAll t (φ p.1) = leAll u p.1) → domSum (pushForward φ L) t = domSum L u
  | [], _ => rfl
  | p :: L, h => by
      have ih := domSum_pushForward φ t u L (fun q hq => h q (List.mem_cons_of_mem _ hq))
      have hp := h p (List.mem_cons_self ..)
      unfold pushForward at ih ⊢
      rw [List.map_cons, domSum_cons, domSum_cons, ih]
      simp only [hp]

/-- a non-zero dominated sum has a dominating entry -/
theorem exists_of_domSum_ne_zero (L : List (LV × Int)) (u : LV) (h : domSum L u ≠ 0) :
    ∃ p ∈ L, leAll u p.1 = true := by
  by_contra hcon
  apply h
  apply domSum_eq_zero_of_not_inDown
  cases hd : inDown L u
  · rfl
  · exact absurd ((inDown_iff L u).1 hd) hcon

/-- **push-forward of a valid combination along a map with a lower adjoint on the support.** -/
theorem pushforward_valid (dim : Nat) (lmin : Int) (L : List (LV × Int)) (J : LV → Bool)
    (φ ψ : LV → LV) (hne : L ≠ [])
    (hid : ∀ u : LV, u.length = dim → geAll lmin u → domSum L u = if J u = true then 1 else 0)
    (hsupp : ∀ p ∈ L, J p.1 = true)
    (hJdown : ∀ a b : LV, a.length = dim → geAll lmin a → leAll a b = true → J b = true → J a = true)
    (hφ : ∀ p ∈ L, (φ p.1).length = dim ∧ geAll lmin (φ p.1))
    (hψ : ∀ t : LV, t.length = dim → geAll lmin t → (ψ t).length = dim ∧ geAll lmin (ψ t))
    (hadj : ∀ t : LV, t.length = dim → geAll lmin t → ∀ p ∈ L, leAll t (φ p.1) = leAll (ψ t) p.1) :
    LocalValid dim lmin (pushForward φ L) ∧
      (∀ t : LV, t.length = dim → geAll lmin t → domSum (pushForward φ L) t = if J (ψ t) = true then 1 else 0) ∧
      (∀ t : LV, t.length = dim → geAll lmin t → inDown (pushForward φ L) t = J (ψ t)) := by
  have hdom : ∀ t : LV, t.length = dim → geAll lmin t →
      domSum (pushForward φ L) t = if J (ψ t) = true then 1 else 0 := by
    intro t ht hmin
    rw [domSum_pushForward φ t (ψ t) L (hadj t ht hmin)]
    exact hid (ψ t) (hψ t ht hmin).1 (hψ t ht hmin).2
  have hin : ∀ t : LV, t.length = dim → geAll lmin t → inDown (pushForward φ L) t = J (ψ t) := by
    intro t ht hmin
    cases hJ : J (ψ t)
    · cases hd : inDown (pushForward φ L) t
      · rfl
      · exfalso
        obtain ⟨p, hp, hle⟩ := (inDown_iff _ t).1 hd
        obtain ⟨p', hp', rfl⟩ := (mem_pushForward φ L p).1 hp
        have h1 : leAll (ψ t) p'.1 = true := by rw [← hadj t ht hmin p' hp']; exact hle
        have := hJdown (ψ t) p'.1 (hψ t ht hmin).1 (hψ t ht hmin).2 h1 (hsupp p' hp')
        rw [hJ] at this
        cases this
    · have h1 : domSum L (ψ t) ≠ 0 := by
        rw [hid (ψ t) (hψ t ht hmin).1 (hψ t ht hmin).2, if_pos hJ]; decide
      obtain ⟨p', hp', hle⟩ := exists_of_domSum_ne_zero L (ψ t) h1
      apply (inDown_iff _ t).2
      refine ⟨(φ p'.1, p'.2), (mem_pushForward φ L _).2 ⟨p', hp', rfl⟩, ?_⟩
      show leAll t (φ p'.1) = true
      rw [hadj t ht hmin p' hp']; exact hle
  refine ⟨⟨?_, ?_, ?_⟩, hdom, hin⟩
  · intro h
    unfold pushForward at h
    exact hne (List.map_eq_nil_iff.1 h)
  · intro p hp
    obtain ⟨p', hp', rfl⟩ := (mem_pushForward φ L p).1 hp
    exact hφ p' hp'
  · intro t ht hmin
    rw [hdom t ht hmin, hin t ht hmin]

/-! ### the executable check is also complete -/

theorem belowList_spec (lmin : Int) : ∀ (v t : LV), t ∈ belowList lmin v →
    t.length = v.length ∧ geAll lmin t ∧ leAll t v = true
  | [], t, h => by
      simp only [belowList, List.mem_singleton] at h
      subst h
      exact ⟨rfl, fun x hx => by simp at hx, rfl⟩
  | y :: v, t, h => by
      simp only [belowList, List.mem_flatMap, List.mem_range, List.mem_map] at h
      obtain ⟨i, hi, r, hr, rfl⟩ := h
      obtain ⟨h1, h2, h3⟩ := belowList_spec lmin v r hr
      refine ⟨by simp [h1], ?_, ?_⟩
      · intro x hx
        rcases List.mem_cons.1 hx with rfl | hx
        · omega
        · exact h2 x hx
      · show (decide (lmin + (i : Int) ≤ y) && leAll r v) = true
        rw [h3, Bool.and_true, decide_eq_true_eq]
        omega

/-- converse of `localValid_sound`: a valid local combination passes the executable check -/
theorem localValid_complete (dim : Nat) (lmin : Int) (c : List (LV × Int)) (h : LocalValid dim lmin c) :
    localValid dim lmin c = true := by
  simp only [localValid, Bool.and_eq_true, Bool.not_eq_true', List.all_eq_true, decide_eq_true_eq, beq_iff_eq]
  refine ⟨⟨?_, ?_⟩, ?_⟩
  · cases hc : c with
    | nil => exact absurd hc h.nonempty
    | cons _ _ => rfl
  · intro p hp
    exact ⟨(h.shape p hp).1, fun x hx => (h.shape p hp).2 x hx⟩
  · intro p hp t ht
    obtain ⟨h1, h2, h3⟩ := belowList_spec lmin p.1 t ht
    rw [h.ident t (by rw [h1, (h.shape p hp).1]) h2, if_pos ((inDown_iff c t).2 ⟨p, hp, h3⟩)]

end SparseSpace
