import SparseSpace.Lemmas.RombergDegreeBalNeville
import SparseSpace.Lemmas.RombergDegreeFullGrid
/-!
# Degree of exactness `2m-1` of the balanced extrapolation grid on the complete dyadic grid of depth `m ≥ 1` (C11)

* on the complete tree the row dictionary of level `i+1` is the composite midpoint rule with `2^i` cells, for every
  integrand (`cseg_leafs`);
* the Romberg table on dictionaries acts on the quadrature sums as the numeric table `tableQ` (`table_wsum`);
* `neville_shift_monomial` + Taylor expansion at the left end point.
-/
namespace SparseSpace.Romberg
open SparseSpace Finset Polynomial

theorem wsum_linear (s : Finset ℕ) (c : ℕ → ℚ) (g : ℕ → ℚ → ℚ) (cs : List (ℚ × ℚ)) :
    wsum (fun y => ∑ n ∈ s, c n * g n y) cs = ∑ n ∈ s, c n * wsum (g n) cs := by
  induction cs with
  | nil => simp
  | cons e cs ih =>
    simp only [wsum_cons, ih]
    rw [Finset.mul_sum, ← Finset.sum_add_distrib]
    refine Finset.sum_congr rfl fun n _ => by ring

/-! ## the complete tree -/

/-- the interval tree of a complete segment is full; it is empty exactly for depth 0 -/
theorem cseg_itree {d : ℕ} {L R : PL} {inner : List PL} (h : CSeg d L inner R) :
    ∀ fuel : ℕ, inner.length < fuel →
      (ITree.build fuel L.1 inner R.1).isFull = true ∧ ((ITree.build fuel L.1 inner R.1).isNil = true ↔ d = 0) := by
  induction h with
  | leaf L R =>
    intro fuel hf
    cases fuel with
    | zero => omega
    | succ f => simp [ITree.build, splitMin, ITree.isFull, ITree.isNil]
  | bisect d L R m lp rp hmid hm h1 h2 ih1 ih2 =>
    intro fuel hf
    cases fuel with
    | zero => omega
    | succ f =>
      simp only [List.length_append, List.length_cons] at hf
      simp only [ITree.build, refSeg_split hm (cseg_refSeg h1) (cseg_refSeg h2)]
      obtain ⟨f1, n1⟩ := ih1 f (by omega)
      obtain ⟨f2, n2⟩ := ih2 f (by omega)
      refine ⟨?_, by simp [ITree.isNil]⟩
      simp only [ITree.isFull, f1, f2, Bool.and_true, beq_iff_eq]
      cases ha : (ITree.build f L.1 lp m.1).isNil <;> cases hb : (ITree.build f m.1 rp R.1).isNil
      · rfl
      · exfalso; have := n2.mp hb; have := n1.mpr this; rw [ha] at this; simp at this
      · exfalso; have := n1.mp ha; have := n2.mpr this; rw [hb] at this; simp at this
      · rfl

/-- **the rows of the balanced table on a complete tree are composite midpoint rules**: truncated `j` levels below
    its root, the tree of a complete segment of depth `d > j` carries the midpoint sum with `2^j` cells -/
theorem cseg_leafs (g : ℚ → ℚ) {d : ℕ} {L R : PL} {inner : List PL} (h : CSeg d L inner R) :
    ∀ fuel lvl j : ℕ, inner.length < fuel → j < d →
      wsum g ((ITree.build fuel L.1 inner R.1).leafsOrMax lvl (lvl + j)) = cellMid g j L.1 (R.1 - L.1) := by
  induction h with
  | leaf L R => intro fuel lvl j _ hj; omega
  | bisect d L R m lp rp hmid hm h1 h2 ih1 ih2 =>
    intro fuel lvl j hf hj
    cases fuel with
    | zero => omega
    | succ f =>
      simp only [List.length_append, List.length_cons] at hf
      simp only [ITree.build, refSeg_split hm (cseg_refSeg h1) (cseg_refSeg h2), ITree.leafsOrMax]
      have hgt : ¬ lvl > lvl + j := by omega
      rw [if_neg hgt]
      cases j with
      | zero =>
        rw [if_pos (Or.inl (Nat.add_zero lvl).symm)]
        simp only [wsum_cons, wsum_nil, add_zero, cellMid, ITree.mid]
        congr 2
        ring
      | succ j' =>
        have hd : d ≠ 0 := by omega
        have hnl : (ITree.build f L.1 lp m.1).isNil = false := by
          cases hh : (ITree.build f L.1 lp m.1).isNil with
          | false => rfl
          | true => exact absurd ((cseg_itree h1 f (by omega)).2.mp hh) hd
        have hc : ¬ (lvl = lvl + (j' + 1) ∨
            ((ITree.build f L.1 lp m.1).isNil = true ∧ (ITree.build f m.1 rp R.1).isNil = true)) := by
          intro hc
          rcases hc with hc | hc
          · omega
          · rw [hnl] at hc; simp at hc
        rw [if_neg hc, wsum_append]
        have e : lvl + (j' + 1) = lvl + 1 + j' := by omega
        rw [e, ih1 f (lvl + 1) j' (by omega) (by omega), ih2 f (lvl + 1) j' (by omega) (by omega)]
        have e1 : m.1 - L.1 = (R.1 - L.1) / 2 := by rw [hmid]; ring
        have e2 : R.1 - m.1 = (R.1 - L.1) / 2 := by rw [hmid]; ring
        have e3 : m.1 = L.1 + (R.1 - L.1) / 2 := by rw [hmid]; ring
        rw [e1, e2]
        conv_lhs => rw [e3]
        rfl

/-! ## the table on dictionaries acts on the quadrature sums as the numeric table -/

theorem nextCol_wsum (G : List ℚ) (L R : ℚ) (g : ℚ → ℚ) (j : ℕ) (col : List Dict)
    (h : ∀ d ∈ col, RowOK G L R d) : (nextCol j col).map (wsum g) = nextColQ j (col.map (wsum g)) := by
  induction col with
  | nil => simp [nextCol, nextColQ]
  | cons top rest ih =>
    cases rest with
    | nil => simp [nextCol, nextColQ]
    | cons left rest' =>
      have ih' := ih (fun d' hd' => h d' (List.mem_cons_of_mem _ hd'))
      simp only [List.map_cons] at ih'
      simp only [nextCol, nextColQ, List.map_cons, ih']
      rw [extrapStep_wsum left top j g (h left (by simp)).1 (h top (by simp)).1]
      simp only [nevStep, rpow_eq]

theorem table_wsum (G : List ℚ) (L R : ℚ) (g : ℚ → ℚ) (n : ℕ) : ∀ (j : ℕ) (col : List Dict),
    (∀ d ∈ col, RowOK G L R d) → (table n j col).map (wsum g) = tableQ n j (col.map (wsum g)) := by
  induction n with
  | zero => intro j col _; rfl
  | succ n ih =>
    intro j col h
    simp only [table, tableQ]
    rw [ih (j + 1) _ (nextCol_ok G L R j col h), nextCol_wsum G L R g j col h]

/-! ## levels of the complete grid -/

theorem completeInner_levels (d : ℕ) : ∀ (l r : ℚ) (lvl : ℕ),
    (∀ p ∈ completeInner d l r lvl, p.2 < lvl + d) ∧ (1 ≤ d → lvl + d - 1 ∈ (completeInner d l r lvl).map Prod.snd) := by
  induction d with
  | zero => intro l r lvl; simp [completeInner]
  | succ d ih =>
    intro l r lvl
    obtain ⟨a1, a2⟩ := ih l ((l + r) / 2) (lvl + 1)
    obtain ⟨b1, b2⟩ := ih ((l + r) / 2) r (lvl + 1)
    simp only [completeInner]
    refine ⟨?_, fun _ => ?_⟩
    · intro p hp
      simp only [List.mem_append, List.mem_cons] at hp
      rcases hp with hp | rfl | hp
      · have := a1 p hp; omega
      · simp only; omega
      · have := b1 p hp; omega
    · by_cases hd : d = 0
      · subst hd; simp
      · have := a2 (by omega)
        have e : lvl + 1 + d - 1 = lvl + (d + 1) - 1 := by omega
        rw [e] at this
        simp only [List.map_append, List.mem_append]
        exact Or.inl this

theorem completeGrid_snd (a b : ℚ) (m : ℕ) :
    (completeGrid a b m).2 = 0 :: ((completeInner m a b 1).map Prod.snd ++ [0]) := by
  simp [completeGrid]

theorem completeGrid_listMax (a b : ℚ) (m : ℕ) (hm : 1 ≤ m) : listMax (completeGrid a b m).2 = m := by
  obtain ⟨h1, h2⟩ := completeInner_levels m a b 1
  apply le_antisymm
  · apply listMax_le
    intro x hx
    rw [completeGrid_snd] at hx
    simp only [List.mem_cons, List.mem_append, List.mem_map, List.mem_nil_iff, or_false] at hx
    rcases hx with rfl | ⟨p, hp, rfl⟩ | rfl
    · omega
    · have := h1 p hp; omega
    · omega
  · apply le_listMax
    rw [completeGrid_snd]
    have := h2 hm
    have e : 1 + m - 1 = m := by omega
    rw [e] at this
    simp only [List.mem_cons, List.mem_append]
    exact Or.inr (Or.inl this)

/-! ## the balanced weights on the complete grid -/

/-- **the balanced extrapolation grid on the complete dyadic grid of depth `m ≥ 1` is the Romberg table of the
    composite midpoint sums**: weights are returned, one per point, and for EVERY integrand `f` the value of
    `integrate` is the last entry of the numeric table built from `M_0(f), …, M_{m-1}(f)` -/
theorem complete_balanced_is_neville (a b : ℚ) (hab : a < b) (m : ℕ) (hm : 1 ≤ m) :
    ∃ ws, balancedWeights (completeGrid a b m).1 (completeGrid a b m).2 = some ws ∧
      ws.length = (completeGrid a b m).1.length ∧
      (∃ d : Dict, ∀ f : ℚ → ℚ, dot ws ((completeGrid a b m).1.map f) = wsum f d) ∧
      ∀ f : ℚ → ℚ, (tableQ (m - 1) 1 ((List.range m).map (fun i => cellMid f i a (b - a)))).getLast?
        = some (dot ws ((completeGrid a b m).1.map f)) := by
  obtain ⟨hlen, hz⟩ := completeGrid_zip a b m
  have hcs := completeInner_cseg m (a, 0) (b, 0)
  simp only at hcs
  have href := cseg_refSeg hcs
  have hmid := refSeg_midSeg href
  simp only at hmid
  set grid := (completeGrid a b m).1 with hgrid
  set lv := (completeGrid a b m).2 with hlv
  set inner := completeInner m a b 1 with hinner
  have hne : inner ≠ [] := by
    intro h0
    have := completeInner_length m a b 1
    rw [← hinner, h0] at this
    have h2 : 2 ≤ 2 ^ m := by
      calc 2 = 2 ^ 1 := by norm_num
        _ ≤ 2 ^ m := Nat.pow_le_pow_right (by norm_num) hm
    simp at this; omega
  obtain ⟨hfull, _⟩ := cseg_itree hcs (inner.length + 1) (Nat.lt_succ_self _)
  simp only at hfull
  obtain ⟨ws, h⟩ := balanced_defined grid lv a b inner hlen hz href hne hfull
  refine ⟨ws, h, ?_⟩
  -- unfold the computation
  have hM : listMax lv = m := completeGrid_listMax a b m hm
  simp only [balancedWeights] at h
  rw [if_neg (not_not.mpr hlen)] at h
  have hends : ends (grid.zip lv) = some ((a, 0), inner, (b, 0)) := by
    rw [hz]; simp [ends]
  rw [hends] at h
  simp only at h
  split at h
  · simp at h
  · split at h
    · simp at h
    · rw [hM] at h
      cases hl : (table (m - 1) 1 ((List.range m).map
          (fun i => rowDict (ITree.build (inner.length + 1) a inner b) (i + 1)))).getLast? with
      | none => rw [hl] at h; simp at h
      | some d =>
        rw [hl] at h
        simp only [Option.some.injEq] at h
        subst h
        have hg : grid = a :: (inner.map Prod.fst ++ [b]) := by
          have := congrArg (List.map Prod.fst) hz
          rw [List.map_fst_zip (le_of_eq hlen)] at this
          simpa using this
        obtain ⟨s1, s2⟩ := midSeg_sorted hmid hab
        have hG : grid.Nodup := by
          rw [hg]
          have hpw : (a :: (inner.map Prod.fst ++ [b])).Pairwise (· < ·) := by
            rw [List.pairwise_cons]
            constructor
            · intro y hy
              simp only [List.mem_append, List.mem_map, List.mem_singleton] at hy
              rcases hy with ⟨p, hp, rfl⟩ | rfl
              · exact (s1 p hp).1
              · exact hab
            · rw [List.pairwise_append]
              refine ⟨s2, by simp, ?_⟩
              intro u hu v hv
              obtain ⟨p, hp, rfl⟩ := List.mem_map.mp hu
              simp only [List.mem_singleton] at hv
              subst hv
              exact (s1 p hp).2
          exact hpw.imp (fun h => ne_of_lt h)
        have hrow : ∀ i : ℕ, rowDict (ITree.build (inner.length + 1) a inner b) (i + 1)
              = (ITree.build (inner.length + 1) a inner b).leafsOrMax 1 (i + 1)
            ∧ RowOK grid a b (rowDict (ITree.build (inner.length + 1) a inner b) (i + 1)) := by
          intro i
          obtain ⟨r1, r2, r3⟩ := leafs_spec hmid (inner.length + 1) 1 (i + 1) (Nat.lt_succ_self _) hab hne hfull
            (by omega)
          have hnd : (keys ([] ++ (ITree.build (inner.length + 1) a inner b).leafsOrMax 1 (i + 1))).Nodup := by
            simp only [List.nil_append, keys]
            exact r3.imp (fun h => ne_of_lt h)
          have hrow : rowDict (ITree.build (inner.length + 1) a inner b) (i + 1)
              = (ITree.build (inner.length + 1) a inner b).leafsOrMax 1 (i + 1) := by
            rw [rowDict, foldl_dictSet [] _ hnd]; simp
          refine ⟨hrow, ?_⟩
          rw [hrow]
          refine ⟨by simpa [keys] using hnd, ?_, r1⟩
          intro x hx
          obtain ⟨e, he, rfl⟩ := List.mem_map.mp hx
          rw [hg]
          simp only [List.mem_cons, List.mem_append]
          exact Or.inr (Or.inl (r2 e he).2.2)
        have hrows : ∀ d' ∈ (List.range m).map
            (fun i => rowDict (ITree.build (inner.length + 1) a inner b) (i + 1)), RowOK grid a b d' := by
          intro d' hd'
          obtain ⟨i, _, rfl⟩ := List.mem_map.mp hd'
          exact (hrow i).2
        have hd : RowOK grid a b d := table_ok grid a b _ 1 _ hrows d (List.mem_of_getLast? hl)
        refine ⟨by simp, ⟨d, fun f => dot_dictGet grid a b d hG hd f⟩, fun f => ?_⟩
        rw [dot_dictGet grid a b d hG hd f]
        have hmap := table_wsum grid a b f (m - 1) 1 _ hrows
        have hlast : ((table (m - 1) 1 ((List.range m).map
            (fun i => rowDict (ITree.build (inner.length + 1) a inner b) (i + 1)))).map (wsum f)).getLast?
            = some (wsum f d) := by
          rw [List.getLast?_map, hl]; rfl
        rw [hmap, List.map_map] at hlast
        rw [← hlast]
        congr 2
        apply List.map_congr_left
        intro i hi
        have him : i < m := List.mem_range.mp hi
        simp only [Function.comp]
        rw [(hrow i).1]
        have := cseg_leafs f hcs (inner.length + 1) 1 i (Nat.lt_succ_self _) him
        simp only at this
        rw [Nat.add_comm i 1]
        exact this.symm

/-- **degree `2m-1` of the balanced extrapolation grid on the complete dyadic grid of depth `m ≥ 1`** -/
theorem complete_balanced_degree (a b : ℚ) (hab : a < b) (m : ℕ) (hm : 1 ≤ m) (p : ℚ[X])
    (hp : p.natDegree ≤ 2 * m - 1) :
    ∃ ws, balancedWeights (completeGrid a b m).1 (completeGrid a b m).2 = some ws ∧
      ws.length = 2 ^ m + 1 ∧
      dot ws ((completeGrid a b m).1.map (fun y => p.eval y)) = polyInt p a b := by
  obtain ⟨ws, hws, hlen, ⟨d, hd⟩, hnev⟩ := complete_balanced_is_neville a b hab m hm
  refine ⟨ws, hws, ?_, ?_⟩
  · rw [hlen]
    have hlen2 : (completeGrid a b m).1.length = (completeInner m a b 1).length + 2 := by
      simp [completeGrid]
    have := completeInner_length m a b 1
    omega
  · obtain ⟨c, rfl⟩ := exists_shift_expansion p a (2 * m - 1) hp
    -- `integrate` is linear in the integrand: read it off from the last entry of the table for each shifted monomial
    have hval : ∀ f : ℚ → ℚ, ∀ v : ℚ,
        (tableQ (m - 1) 1 ((List.range m).map (fun i => cellMid f i a (b - a)))).getLast? = some v →
        dot ws ((completeGrid a b m).1.map f) = v := by
      intro f v hv
      rw [hnev f] at hv
      exact Option.some.inj hv
    have hf : (fun y : ℚ => (∑ n ∈ range (2 * m - 1 + 1), C (c n) * (X - C a) ^ n).eval y)
        = fun y => ∑ n ∈ range (2 * m - 1 + 1), c n * (fun n y => (y - a) ^ n) n y := by
      funext y
      rw [eval_finsetSum]
      refine Finset.sum_congr rfl fun n _ => by simp
    rw [hf, ← polyIntL_apply, map_sum]
    -- linearity through the table: use the dictionary form again
    rw [hd, wsum_linear]
    refine Finset.sum_congr rfl fun n hn => ?_
    have hn' : n ≤ 2 * m - 1 := by have := mem_range.mp hn; omega
    rw [← hd, hval _ _ (neville_shift_monomial m hm n hn' a (b - a)), polyIntL_shift]
    ring

end SparseSpace.Romberg
