import SparseSpace.Lemmas.DimWiseStep
/-!
# The index set that `raise_lmax` produces (lower bound), for every history of the dimension-wise strategy

* `FwdClosed`: a new invariant of the adaptive combination scheme (kept by every `update_adaptive_combi`): a level
  vector all of whose backward neighbours are OLD belongs to the index set.
* `NoRaise`: between two `refine()` calls no active index passes the test of `raise_lmax` (the `while True` loop ended by
  `refinements == 0` for the current `lmax`).
* `index_set_contains_box_simplex`: hence every level vector `r` with `lmin ≤ r_d < lmax_d` in every dimension and
  `Σ r ≤ max(lmax) + (dim-1)·lmin` is in the index set, and so is every "corner" `(lmin,…,t,…,lmin)` with `t ≤ lmax_d`.
-/
namespace SparseSpace

/-- every level vector (not the minimal one) all of whose backward neighbours are old is in the index set -/
def FwdClosed (s : CS) : Prop :=
  ∀ l : LV, l.length = s.dim → geAll s.lmin l → (∃ d, d < s.dim ∧ s.lmin < l.getD d 0) →
    (∀ d, d < s.dim → s.lmin < l.getD d 0 → bump l d (-1) ∈ s.old) → l ∈ I s

theorem fwdClosed_init (dim : Nat) (lmin lmax : Int) (hd : 1 ≤ dim) (h : lmin ≤ lmax) :
    FwdClosed (CS.init dim lmax lmin) := by
  intro l hl hg hex hb
  obtain ⟨d, hd', hlt⟩ := hex
  have hl' : l.length = dim := hl
  have hd'' : d < dim := hd'
  have hold : bump l d (-1) ∈ initOld lmax lmin dim := hb d hd' hlt
  have hO := (mem_initOld lmax lmin dim _ hd h).mp hold
  have hs := sum_bump l d (-1) (by rw [hl']; exact hd'')
  show l ∈ initOld lmax lmin dim ++ initActive lmax lmin dim
  rw [List.mem_append]
  by_cases he : l.sum = lmax - lmin + (dim : Int) * lmin
  · right; exact (mem_initActive lmax lmin dim l hd h).mpr ⟨hl', hg, he⟩
  · left; exact (mem_initOld lmax lmin dim l hd h).mpr ⟨hl', hg, by omega⟩

theorem bump_back_fwd (l : LV) (d : Nat) : bump (bump l d (-1)) d 1 = l := by
  have := bump_bump_cancel l d (-1)
  simpa using this

theorem fwdClosed_update (s : CS) (lv : LV) (hs : SchemeInv s) (h : FwdClosed s) : FwdClosed (s.update lv).1 := by
  by_cases hlv : lv ∈ s.active
  · rw [update_fst_of_mem s lv hlv]
    have hlvO : lv ∉ s.old := hs.disjoint lv hlv
    have hc : s.old.contains lv = false := by simpa using hlvO
    rw [hc]
    simp only [Bool.false_eq_true, if_false]
    obtain ⟨e1, e2, e3, _, e5⟩ := refFold_spec lv (List.range s.dim)
      { s with active := s.active.erase lv, old := s.old ++ [lv] }
    generalize refFold { s with active := s.active.erase lv, old := s.old ++ [lv] } lv (List.range s.dim) = s'
      at e1 e2 e3 e5
    simp only [] at e1 e2 e3 e5
    intro l hl hg hex hb
    rw [e1] at hl hex hb
    rw [e2] at hg hex hb
    rw [e3] at hb
    unfold I
    rw [List.mem_append, e3]
    by_cases hex2 : ∃ d, d < s.dim ∧ s.lmin < l.getD d 0 ∧ bump l d (-1) = lv
    · obtain ⟨d, hd, hlt, hbl⟩ := hex2
      right
      rw [e5]
      right
      refine ⟨d, List.mem_range.mpr hd, ?_, ?_⟩
      · rw [← hbl, bump_back_fwd]
      · rw [adm_iff]
        intro k hk
        by_cases hk' : s.lmin < l.getD k 0
        · left; exact hb k hk hk'
        · right
          rw [getD_bump_self l k (-1) (by rw [hl]; exact hk)]
          omega
    · have hall : ∀ d, d < s.dim → s.lmin < l.getD d 0 → bump l d (-1) ∈ s.old := by
        intro d hd hlt
        have := hb d hd hlt
        rw [List.mem_append, List.mem_singleton] at this
        rcases this with h1 | h1
        · exact h1
        · exact absurd ⟨d, hd, hlt, h1⟩ hex2
      have hI := h l hl hg hex hall
      unfold I at hI
      rw [List.mem_append] at hI
      rcases hI with h1 | h1
      · left; exact List.mem_append_left _ h1
      · by_cases hll : l = lv
        · left; rw [hll]; simp
        · right; rw [e5]; left
          exact (List.mem_erase_of_ne hll).mpr h1
  · rw [update_not_refinable s lv hlv]; exact h

theorem fwdClosed_runOps (s : CS) (ops : List LV) (hs : SchemeInv s) (h : FwdClosed s) :
    FwdClosed (runOps s ops) := by
  induction ops generalizing s with
  | nil => simpa [runOps] using h
  | cons lv ops ih =>
    simpa [runOps] using ih (s.update lv).1 (inv_update s lv hs) (fwdClosed_update s lv hs h)

/-- the scheme of every well-formed state is forward closed -/
theorem DWInv.fwdClosed {a b : List Rat} {lmax0 : Int} {k : Nat} {st : DW} (h : DWInv a b lmax0 k st) :
    FwdClosed st.cs := by
  obtain ⟨ops, e⟩ := h.reach
  rw [e]
  exact fwdClosed_runOps _ ops (inv_init st.dim st.lmin lmax0 h.dim_pos h.lmin0 h.lmin_le)
    (fwdClosed_init st.dim st.lmin lmax0 h.dim_pos h.lmin_le)

/-! ## the fixpoint of `raise_lmax` -/

theorem fold_count (lmax : List Int) (lmin : Int) (dim : Nat) : ∀ (l : List LV) (acc : CS × Nat),
    acc.2 ≤ (l.foldl (raiseBody lmax lmin dim) acc).2 ∧
    ((l.foldl (raiseBody lmax lmin dim) acc).2 = acc.2 →
      (∀ x ∈ l, raiseCond lmax lmin dim x = false) ∧ (l.foldl (raiseBody lmax lmin dim) acc).1 = acc.1)
  | [], acc => ⟨Nat.le_refl _, fun _ => ⟨by simp, rfl⟩⟩
  | x :: xs, acc => by
    simp only [List.foldl_cons]
    obtain ⟨ih1, ih2⟩ := fold_count lmax lmin dim xs (raiseBody lmax lmin dim acc x)
    by_cases hc : raiseCond lmax lmin dim x = true
    · have hstep : raiseBody lmax lmin dim acc x = ((acc.1.update x).1, acc.2 + 1) := by
        unfold raiseBody; simp [hc]
      rw [hstep] at ih1 ih2 ⊢
      simp only [] at ih1
      exact ⟨by omega, fun he => by omega⟩
    · have hstep : raiseBody lmax lmin dim acc x = acc := by
        unfold raiseBody; simp [hc]
      rw [hstep] at ih1 ih2 ⊢
      refine ⟨ih1, fun he => ?_⟩
      obtain ⟨h1, h2⟩ := ih2 he
      refine ⟨?_, h2⟩
      intro y hy
      rcases List.mem_cons.1 hy with rfl | hy
      · simpa using hc
      · exact h1 y hy

/-- when the `while True` loop of `raise_lmax` has ended by `refinements == 0`, no active index passes its test -/
theorem raiseLoop_fix (lmax : List Int) (lmin : Int) : ∀ (fuel : Nat) (s : CS),
    (raiseLoop lmax lmin fuel s).2 = true →
    ∀ idx ∈ (raiseLoop lmax lmin fuel s).1.active,
      raiseCond lmax lmin (raiseLoop lmax lmin fuel s).1.dim idx = false
  | 0, s, h => by simp [raiseLoop] at h
  | f+1, s, h => by
    simp only [raiseLoop] at h ⊢
    by_cases h0 : (raisePass lmax lmin s).2 = 0
    · simp only [h0, beq_self_eq_true, if_true] at h ⊢
      have hc := (fold_count lmax lmin s.dim s.active (s, 0)).2
      rw [← raisePass_eq] at hc
      obtain ⟨h1, h2⟩ := hc h0
      simp only [] at h2
      rw [h2]
      exact h1
    · have hne : ((raisePass lmax lmin s).2 == 0) = false := by simp [h0]
      simp only [hne, Bool.false_eq_true, if_false] at h ⊢
      exact raiseLoop_fix lmax lmin f _ h

/-! ## what a history WITHOUT rebalancing keeps -/

/-- invariant of the histories without rebalancing (`lmax0` = start level):
no active index passes the test of `raise_lmax`; every interval has an end of level `≥ lmax0`; every point of the
initial grid is still an interval end with its initial level -/
structure NRInv (a b : List Rat) (lmax0 : Nat) (st : DW) : Prop where
  noRaise : ∀ idx ∈ st.cs.active, raiseCond st.lmax st.lmin st.dim idx = false
  deep : ∀ (d : Nat) (c : Cont), st.m.conts[d]? = some c → ∀ x ∈ c.objs, lmax0 ≤ max x.l0 x.l1
  keepPts : ∀ (d : Nat) (c : Cont), st.m.conts[d]? = some c → ∀ x ∈ initObjs lmax0 (a.getD d 0) (b.getD d 0),
    ∃ y ∈ c.objs, y.e = x.e ∧ y.l1 = x.l1

theorem splitSel_deep (N : Nat) : ∀ (L : List Ival) (P : Nat → Bool), (∀ x ∈ L, N ≤ max x.l0 x.l1) →
    ∀ y ∈ splitSel P L, N ≤ max y.l0 y.l1
  | [], _, _ => by simp [splitSel]
  | x :: xs, P, h => by
    intro y hy
    simp only [splitSel, List.mem_append] at hy
    have hx := h x (by simp)
    rcases hy with hy | hy
    · by_cases hp : P 0 = true
      · simp only [hp, if_true, Ival.split, List.mem_cons, List.not_mem_nil, or_false] at hy
        rcases hy with rfl | rfl <;> simp only [] <;> omega
      · simp only [hp, Bool.false_eq_true, if_false, List.mem_singleton] at hy
        rw [hy]; exact hx
    · exact splitSel_deep N xs _ (fun z hz => h z (by simp [hz])) y hy

theorem splitSel_keep : ∀ (L : List Ival) (P : Nat → Bool), ∀ x ∈ L, ∃ y ∈ splitSel P L, y.e = x.e ∧ y.l1 = x.l1
  | [], _ => by simp
  | x :: xs, P => by
    intro z hz
    simp only [splitSel]
    rcases List.mem_cons.1 hz with rfl | hz
    · by_cases hp : P 0 = true
      · refine ⟨⟨(z.s + z.e) / 2, z.e, max z.l0 z.l1 + 1, z.l1, if z.c == 0 then 0 else z.c - 1⟩,
          List.mem_append_left _ (by simp [hp, Ival.split]), rfl, rfl⟩
      · exact ⟨z, List.mem_append_left _ (by simp [hp]), rfl, rfl⟩
    · obtain ⟨y, hy, e⟩ := splitSel_keep xs (fun i => P (i + 1)) z hz
      exact ⟨y, List.mem_append_right _ hy, e⟩

/-- `update_coarsening_values` / `update_values` change the coarsening levels only -/
theorem coarsening_maps_geo (f : Ival → Int) (objs : List Ival) :
    (∀ y ∈ objs.map (fun x => { x with c := f x }), ∃ x ∈ objs, y.e = x.e ∧ y.l0 = x.l0 ∧ y.l1 = x.l1) ∧
    (∀ x ∈ objs, ∃ y ∈ objs.map (fun x => { x with c := f x }), y.e = x.e ∧ y.l0 = x.l0 ∧ y.l1 = x.l1) := by
  constructor
  · intro y hy
    obtain ⟨x, hx, rfl⟩ := List.mem_map.1 hy
    exact ⟨x, hx, rfl, rfl, rfl⟩
  · intro x hx
    exact ⟨_, List.mem_map.2 ⟨x, hx, rfl⟩, rfl, rfl, rfl⟩

theorem postDim_objs_geo (st : DW) (d : Nat) :
    ∀ (d' : Nat) (c' : Cont), (st.postDim d).1.m.conts[d']? = some c' →
      ∃ c : Cont, st.m.conts[d']? = some c ∧
        (∀ y ∈ c'.objs, ∃ x ∈ c.objs, y.e = x.e ∧ y.l0 = x.l0 ∧ y.l1 = x.l1) ∧
        (∀ x ∈ c.objs, ∃ y ∈ c'.objs, y.e = x.e ∧ y.l0 = x.l0 ∧ y.l1 = x.l1) := by
  intro d' c' hc'
  have hsame : ∀ c : Cont, st.m.conts[d']? = some c → ∃ c0 : Cont, st.m.conts[d']? = some c0 ∧
      (∀ y ∈ c.objs, ∃ x ∈ c0.objs, y.e = x.e ∧ y.l0 = x.l0 ∧ y.l1 = x.l1) ∧
      (∀ x ∈ c0.objs, ∃ y ∈ c.objs, y.e = x.e ∧ y.l0 = x.l0 ∧ y.l1 = x.l1) :=
    fun c hc => ⟨c, hc, fun y hy => ⟨y, hy, rfl, rfl, rfl⟩, fun x hx => ⟨x, hx, rfl, rfl, rfl⟩⟩
  unfold DW.postDim at hc'
  cases hc : st.m.conts[d]? with
  | none => rw [hc] at hc'; exact hsame c' hc'
  | some c =>
    cases hl : st.lmax[d]? with
    | none => rw [hc, hl] at hc'; exact hsame c' hc'
    | some lm =>
      rw [hc, hl] at hc'
      simp only [] at hc'
      have hdc : d < st.m.conts.length := by
        by_contra hh; rw [List.getElem?_eq_none (by omega)] at hc; simp at hc
      have g1 := coarsening_maps_geo (fun x => lm - ((max x.l0 x.l1 : Nat) : Int)) c.objs
      split at hc'
      · simp only [List.getElem?_set] at hc'
        by_cases hdd : d = d'
        · subst hdd
          simp only [hdc, if_true, Option.some.injEq] at hc'
          subst hc'
          have g2 := coarsening_maps_geo (fun x => x.c + updateDim (setCoarsening lm c.objs)) (setCoarsening lm c.objs)
          refine ⟨c, hc, ?_, ?_⟩
          · intro y hy
            obtain ⟨x, hx, e⟩ := g2.1 y hy
            obtain ⟨x', hx', e'⟩ := g1.1 x hx
            exact ⟨x', hx', by rw [e.1, e'.1], by rw [e.2.1, e'.2.1], by rw [e.2.2, e'.2.2]⟩
          · intro x hx
            obtain ⟨y, hy, e⟩ := g1.2 x hx
            obtain ⟨y', hy', e'⟩ := g2.2 y hy
            exact ⟨y', hy', by rw [e'.1, e.1], by rw [e'.2.1, e.2.1], by rw [e'.2.2, e.2.2]⟩
        · simp only [hdd, if_false] at hc'
          exact hsame c' hc'
      · simp only [List.getElem?_set] at hc'
        by_cases hdd : d = d'
        · subst hdd
          simp only [hdc, if_true, Option.some.injEq] at hc'
          subst hc'
          exact ⟨c, hc, g1.1, g1.2⟩
        · simp only [hdd, if_false] at hc'
          exact hsame c' hc'

theorem postDim_lmax_cs (st : DW) (d : Nat) :
    ((st.postDim d).1.lmax = st.lmax ∧ (st.postDim d).1.cs = st.cs) ∨
    ∃ lmax', (st.postDim d).1.lmax = lmax' ∧
      (st.postDim d).1.cs = (raiseLoop lmax' st.lmin (raiseFuel lmax' st.lmin st.dim) st.cs).1 ∧
      (st.postDim d).2 = (raiseLoop lmax' st.lmin (raiseFuel lmax' st.lmin st.dim) st.cs).2 := by
  unfold DW.postDim
  cases st.m.conts[d]? with
  | none => exact Or.inl ⟨rfl, rfl⟩
  | some c =>
    cases st.lmax[d]? with
    | none => exact Or.inl ⟨rfl, rfl⟩
    | some lm =>
      simp only []
      split
      · exact Or.inr ⟨_, rfl, rfl, rfl⟩
      · exact Or.inl ⟨rfl, rfl⟩

theorem postDim_dim (st : DW) (d : Nat) : (st.postDim d).1.dim = st.dim := by
  unfold DW.postDim
  cases st.m.conts[d]? with
  | none => rfl
  | some c =>
    cases st.lmax[d]? with
    | none => rfl
    | some lm =>
      simp only []
      split <;> rfl

/-- one dimension of the post-processing keeps the no-rebalancing invariant -/
theorem postDim_nr (a b : List Rat) (lmax0 : Nat) (st : DW) (d : Nat) (hd : d < st.dim)
    (h : DWInv a b lmax0 d st) (hn : NRInv a b lmax0 st) : NRInv a b lmax0 (st.postDim d).1 := by
  obtain ⟨_, _, hflag⟩ := postDim_spec a b lmax0 st d hd h
  refine ⟨?_, ?_, ?_⟩
  · rw [postDim_lmin, postDim_dim]
    rcases postDim_lmax_cs st d with ⟨e1, e2⟩ | ⟨lmax', e1, e2, e3⟩
    · rw [e1, e2]; exact hn.noRaise
    · rw [e1, e2]
      rw [e3] at hflag
      have hfix := raiseLoop_fix lmax' st.lmin _ st.cs hflag
      obtain ⟨ops, eo⟩ := raiseLoop_runOps lmax' st.lmin (raiseFuel lmax' st.lmin st.dim) st.cs
      have hdim : (raiseLoop lmax' st.lmin (raiseFuel lmax' st.lmin st.dim) st.cs).1.dim = st.dim := by
        rw [eo, runOps_dim]; exact h.scheme.2.1
      rw [hdim] at hfix
      exact hfix
  · intro d' c' hc' y hy
    obtain ⟨c, hc, g1, _⟩ := postDim_objs_geo st d d' c' hc'
    obtain ⟨x, hx, e⟩ := g1 y hy
    have := hn.deep d' c hc x hx
    rw [e.2.1, e.2.2]; exact this
  · intro d' c' hc' x hx
    obtain ⟨c, hc, _, g2⟩ := postDim_objs_geo st d d' c' hc'
    obtain ⟨y, hy, e⟩ := hn.keepPts d' c hc x hx
    obtain ⟨y', hy', e'⟩ := g2 y hy
    exact ⟨y', hy', by rw [e'.1, e.1], by rw [e'.2.2, e.2]⟩

theorem postDims_nr (a b : List Rat) (lmax0 : Nat) : ∀ (n k : Nat) (st : DW), k + n = st.dim →
    DWInv a b lmax0 k st → NRInv a b lmax0 st → NRInv a b lmax0 (DW.postDims st (List.range' k n)).1
  | 0, k, st, _, _, hn => by simpa [DW.postDims] using hn
  | n+1, k, st, hk, h, hn => by
    obtain ⟨h1, h2, _⟩ := postDim_spec a b lmax0 st k (by omega) h
    have hn1 := postDim_nr a b lmax0 st k (by omega) h hn
    have := postDims_nr a b lmax0 n (k + 1) (st.postDim k).1 (by rw [h2]; omega) h1 hn1
    simpa only [List.range'_succ, DW.postDims] using this

/-- **one `refine()` call WITHOUT rebalancing keeps the invariant** -/
theorem step_nr (a b : List Rat) (lmax0 : Nat) (st : DW) (h : DWWF a b lmax0 st) (hn : NRInv a b lmax0 st)
    (bens : List (List Rat)) (margin : Rat) (dec : Nat → Nat → Nat → Bool) (out : StepOut)
    (hout : st.step bens margin false dec = some out) : NRInv a b lmax0 out.st := by
  obtain ⟨m1, ps, hr, hcur1, hlen1, hconts1, _, _⟩ := refineStep_spec st.m bens margin h.cur
    (fun c hc => by
      obtain ⟨d, hd⟩ := List.getElem?_of_mem hc
      exact (h.geo d c hd).reset.ready)
    (fun c hc => by
      obtain ⟨d, hd⟩ := List.getElem?_of_mem hc
      exact ⟨_, _, _, _, (h.geo d c hd).til⟩)
  have hget : ∀ (d : Nat) (c : Cont), m1.conts[d]? = some c →
      ∃ c0 : Cont, st.m.conts[d]? = some c0 ∧ c = c0.stepSpec (bens.getD d []) (maxBenefit bens * margin) := by
    intro d c hc
    have hdlt : d < st.m.conts.length := by
      rw [← hlen1]; by_contra hh; rw [List.getElem?_eq_none (by omega)] at hc; simp at hc
    have hc0 : st.m.conts[d]? = some st.m.conts[d] := List.getElem?_eq_getElem hdlt
    have := hconts1 d _ hc0
    rw [this] at hc; simp only [Option.some.injEq] at hc
    exact ⟨_, hc0, hc.symm⟩
  have hgeo1 : ∀ d c, m1.conts[d]? = some c → ContGeo (a.getD d 0) (b.getD d 0) c := by
    intro d c hc
    obtain ⟨c0, hc0, rfl⟩ := hget d c hc
    exact stepSpec_geo _ _ (h.geo d _ hc0)
  have hinv0 : DWInv a b lmax0 0 { st with m := { m1 with conts := m1.conts } } :=
    ⟨h.dim_pos, h.lmin0, h.lmin_le, h.llmax, by rw [hlen1, h.lconts], hcur1, hgeo1, fun d c lm hd => by omega, h.reach⟩
  have hn0 : NRInv a b lmax0 { st with m := { m1 with conts := m1.conts } } := by
    refine ⟨hn.noRaise, ?_, ?_⟩
    · intro d c hc y hy
      obtain ⟨c0, hc0, rfl⟩ := hget d c hc
      exact splitSel_deep lmax0 c0.objs _ (hn.deep d c0 hc0) y hy
    · intro d c hc x hx
      obtain ⟨c0, hc0, rfl⟩ := hget d c hc
      obtain ⟨y, hy, e⟩ := hn.keepPts d c0 hc0 x hx
      obtain ⟨y', hy', e'⟩ := splitSel_keep c0.objs (Pb (bens.getD d []) (maxBenefit bens * margin)) y hy
      exact ⟨y', hy', by rw [e'.1, e.1], by rw [e'.2, e.2]⟩
  have hp := postDims_nr a b lmax0 st.dim 0 { st with m := { m1 with conts := m1.conts } } (by simp) hinv0 hn0
  unfold DW.step at hout
  simp only [hr, Bool.false_eq_true, if_false, Option.some.injEq] at hout
  rw [← hout]
  simp only []
  rw [List.range_eq_range']
  exact hp

theorem maxList_replicate (n : Nat) (v : Int) (hn : 1 ≤ n) : maxList (List.replicate n v) = v := by
  have key : ∀ k : Nat, List.foldl max v (List.replicate k v) = v := by
    intro k
    induction k with
    | zero => rfl
    | succ k ih => simp [List.replicate_succ, ih]
  cases n with
  | zero => omega
  | succ n => simp only [List.replicate_succ, maxList]; exact key n

/-- the initial state satisfies the invariant -/
theorem init_nr (lmin lmax : Nat) (a b : List Rat) (hlen : a.length = b.length) (hd : 1 ≤ a.length) (hl : lmin ≤ lmax)
    (hab : ∀ d, d < a.length → a.getD d 0 < b.getD d 0) :
    NRInv a b lmax (DW.init lmin lmax a b) := by
  have hzl : (List.zipWith (fun x y => ({ objs := initObjs lmax x y } : Cont)) a b).length = a.length := by
    simp [hlen]
  have hcont : ∀ (d : Nat) (c : Cont), (DW.init lmin lmax a b).m.conts[d]? = some c →
      d < a.length ∧ c.objs = initObjs lmax (a.getD d 0) (b.getD d 0) := by
    intro d c hc
    simp only [DW.init] at hc
    have hdlt : d < a.length := by
      rw [← hzl]; by_contra hh; rw [List.getElem?_eq_none (by omega)] at hc; simp at hc
    have hdb : d < b.length := by omega
    rw [List.getElem?_zipWith, List.getElem?_eq_getElem hdlt, List.getElem?_eq_getElem hdb] at hc
    simp only [Option.some.injEq] at hc
    subst hc
    have ha : a.getD d 0 = a[d] := by simp [List.getD, List.getElem?_eq_getElem hdlt]
    have hb : b.getD d 0 = b[d] := by simp [List.getD, List.getElem?_eq_getElem hdb]
    exact ⟨hdlt, by rw [ha, hb]⟩
  refine ⟨?_, ?_, ?_⟩
  · intro idx hidx
    have hA := (mem_initActive (lmax : Int) (lmin : Int) a.length idx hd (by exact_mod_cast hl)).mp hidx
    obtain ⟨_, _, hsum⟩ := hA
    have hfs : idx.foldl (· + ·) 0 = idx.sum := by
      rw [List.sum_eq_foldl]
    have hm : maxList (List.replicate a.length (lmax : Int)) = lmax := maxList_replicate _ _ hd
    simp only [DW.init, raiseCond, hm, hfs, hsum, Bool.and_eq_false_imp, decide_eq_true_eq]
    intro hlt
    exfalso
    have : ((a.length : Int) - 1) * lmin = (a.length : Int) * lmin - lmin := by ring
    nlinarith
  · intro d c hc x hx
    obtain ⟨hdlt, e⟩ := hcont d c hc
    rw [e] at hx
    have := (initObjs_wf lmax _ _ (hab d hdlt)).2.2.1 x hx
    rw [this.2]
  · intro d c hc x hx
    obtain ⟨_, e⟩ := hcont d c hc
    exact ⟨x, by rw [e]; exact hx, rfl, rfl⟩

/-! ## the index set between two `refine()` calls -/

theorem getD_bump_ne (l : LV) (d k : Nat) (δ : Int) (h : k ≠ d) : (bump l d δ).getD k 0 = l.getD k 0 := by
  unfold bump
  simp only [List.getD_eq_getElem?_getD, List.getElem?_modify]
  have : ¬ d = k := fun e => h e.symm
  simp [this]

theorem geAll_of_getD (lmin : Int) (l : LV) (h : ∀ d, d < l.length → lmin ≤ l.getD d 0) : geAll lmin l := by
  intro x hx
  obtain ⟨i, hi, rfl⟩ := List.getElem_of_mem hx
  have := h i hi
  simpa [List.getD, List.getElem?_eq_getElem hi] using this

theorem raiseCond_true (lmax : List Int) (lmin : Int) (dim : Nat) (idx : LV) (hl : lmax.length = dim)
    (hi : idx.length = dim) (hsum : idx.sum < maxList lmax + lmin * ((dim : Int) - 1))
    (hlt : ∀ d, d < dim → idx.getD d 0 < lmax.getD d 0) : raiseCond lmax lmin dim idx = true := by
  have hfs : idx.foldl (· + ·) 0 = idx.sum := by rw [List.sum_eq_foldl]
  simp only [raiseCond, hfs, Bool.and_eq_true, decide_eq_true_eq, List.all_eq_true, List.mem_range]
  refine ⟨by omega, ?_⟩
  intro d hd
  have h1 : d < lmax.length := by omega
  have h2 : d < idx.length := by omega
  have := hlt d hd
  simp only [List.getD, List.getElem?_eq_getElem h1, List.getElem?_eq_getElem h2, Option.getD_some] at this
  simp only [List.getElem?_eq_getElem h1, List.getElem?_eq_getElem h2, decide_eq_true_eq]
  omega

/-- **the index set after `raise_lmax`** (lower bound; every well-formed state in which no active index passes the test
of `raise_lmax`): every level vector `r` with `lmin ≤ r_d ≤ lmax_d`, `Σ r ≤ max(lmax) + (dim-1)·lmin` in which a
component above `lmin` forces all OTHER components to stay below their `lmax` is in the index set.  In particular the
whole "open" box-simplex `r_d < lmax_d` and the corners `(lmin,…,t,…,lmin)`, `t ≤ lmax_d`. -/
theorem index_set_contains (a b : List Rat) (lmax0 : Int) (st : DW) (h : DWWF a b lmax0 st)
    (hnr : ∀ idx ∈ st.cs.active, raiseCond st.lmax st.lmin st.dim idx = false) :
    ∀ (n : Nat) (r : LV), r.length = st.dim → (r.sum - (st.dim : Int) * st.lmin).toNat ≤ n →
      (∀ d, d < st.dim → st.lmin ≤ r.getD d 0 ∧ r.getD d 0 ≤ st.lmax.getD d 0) →
      r.sum ≤ maxList st.lmax + st.lmin * ((st.dim : Int) - 1) →
      (∀ d, d < st.dim → st.lmin < r.getD d 0 → ∀ k, k < st.dim → k ≠ d → r.getD k 0 < st.lmax.getD k 0) →
      r ∈ I st.cs := by
  obtain ⟨hs, hdimE, hlminE⟩ := DWInv.scheme h
  have hf := DWInv.fwdClosed h
  intro n
  induction n with
  | zero =>
    intro r hl hn hbox _ _
    have hg : geAll st.lmin r := geAll_of_getD _ _ (fun d hd => (hbox d (by omega)).1)
    have hsum := sum_ge_of_geAll st.lmin r hg
    rw [hl] at hsum
    -- all components are lmin
    obtain ⟨l0, hl0⟩ := List.exists_mem_of_ne_nil _ hs.nonempty
    have hsh := hs.shape l0 hl0
    have hle := leAll_replicate st.lmin l0 (by rw [← hlminE]; exact hsh.2)
    have hr : r = List.replicate l0.length st.lmin := by
      have hlen : l0.length = r.length := by rw [hsh.1, hdimE, hl]
      rw [hlen]
      by_contra hne
      have hle2 := leAll_replicate st.lmin r hg
      obtain ⟨d, hd1, hd2⟩ := leAll_exists_lt _ _ hle2 (fun e => hne e.symm)
      have hsb := sum_bump r d (-1) (by simpa using hd1)
      have hgb : geAll st.lmin (bump r d (-1)) := geAll_bump st.lmin r d (-1) hg (by
        have : (List.replicate r.length st.lmin).getD d 0 = st.lmin := by
          simp [List.getD, (by simpa using hd1 : d < r.length)]
        omega)
      have := sum_ge_of_geAll st.lmin _ hgb
      rw [length_bump, hl] at this
      omega
    rw [hr]
    exact downward_closed st.cs hs l0 _ hl0 (by simp [hsh.1]) (by rw [hlminE]; exact geAll_replicate _ _)
      (by rw [hlminE] at *; exact hle)
  | succ n ih =>
    intro r hl hn hbox hsumle hside
    have hg : geAll st.lmin r := geAll_of_getD _ _ (fun d hd => (hbox d (by omega)).1)
    by_cases hex : ∃ d, d < st.dim ∧ st.lmin < r.getD d 0
    · apply hf r (by rw [hdimE]; exact hl) (by rw [hlminE]; exact hg) (by rw [hdimE, hlminE]; exact hex)
      intro d hd hlt
      rw [hdimE] at hd
      rw [hlminE] at hlt
      have hdl : d < r.length := by omega
      have hsb := sum_bump r d (-1) hdl
      have hself := getD_bump_self r d (-1) hdl
      have hmem : bump r d (-1) ∈ I st.cs := by
        apply ih (bump r d (-1)) (by rw [length_bump]; exact hl) (by omega)
        · intro k hk
          by_cases hkd : k = d
          · subst hkd; rw [hself]; have := hbox k hk; omega
          · rw [getD_bump_ne r d k (-1) hkd]; exact hbox k hk
        · omega
        · intro d2 hd2 hlt2 k hk hkd2
          have hlt2' : st.lmin < r.getD d2 0 := by
            by_cases hdd : d2 = d
            · subst hdd; exact hlt
            · rw [getD_bump_ne r d d2 (-1) hdd] at hlt2; exact hlt2
          have := hside d2 hd2 hlt2' k hk hkd2
          by_cases hkd : k = d
          · subst hkd; rw [hself]; omega
          · rw [getD_bump_ne r d k (-1) hkd]; exact this
      unfold I at hmem
      rw [List.mem_append] at hmem
      rcases hmem with h1 | h1
      · exact h1
      · exfalso
        have hno := hnr _ h1
        have hyes := raiseCond_true st.lmax st.lmin st.dim (bump r d (-1)) h.llmax (by rw [length_bump]; exact hl)
          (by omega) (by
            intro k hk
            by_cases hkd : k = d
            · subst hkd; rw [hself]; have := hbox k hk; omega
            · rw [getD_bump_ne r d k (-1) hkd]; exact hside d hd hlt k hk hkd)
        rw [hyes] at hno
        exact absurd hno (by simp)
    · -- all components are lmin: smaller measure
      apply ih r hl _ hbox hsumle hside
      have hall : ∀ d, d < r.length → r.getD d 0 = st.lmin := by
        intro d hd
        have h1 := (hbox d (by omega)).1
        by_contra hne
        exact hex ⟨d, by omega, by omega⟩
      have hsum : r.sum = (r.length : Int) * st.lmin := by
        clear hn hl hbox hsumle hside hg hex ih
        induction r with
        | nil => simp
        | cons x xs ih2 =>
          have hx := hall 0 (by simp)
          simp only [List.getD_cons_zero] at hx
          have := ih2 (fun d hd => by
            have := hall (d + 1) (by simpa using hd)
            simpa using this)
          simp only [List.sum_cons, List.length_cons, hx, this]
          push_cast; ring
      rw [hsum, hl]
      simp

end SparseSpace
