import SparseSpace.Lemmas.CombiBasic
/-! Downward closure and the coefficient identities of C01. -/
namespace SparseSpace

/-! ### downward closure -/

theorem downward_closed_aux (s : CS) (h : SchemeInv s) (t : LV)
    (ht : t.length = s.dim) (hmin : geAll s.lmin t) :
    ∀ (n : Nat) (l : LV), l ∈ I s → leAll t l = true → l.sum ≤ t.sum + n → t ∈ I s := by
  intro n
  induction n with
  | zero =>
    intro l hl hle hs
    have : t = l := leAll_eq_of_sum t l hle (by simpa using hs)
    rw [this]; exact hl
  | succ n ih =>
    intro l hl hle hs
    by_cases hne : t = l
    · rw [hne]; exact hl
    · obtain ⟨d, hd, hlt, hle'⟩ := leAll_exists_lt t l hle hne
      have hlen : l.length = s.dim := (h.shape l hl).1
      have hd' : d < s.dim := by omega
      have htd : s.lmin ≤ t.getD d 0 := geAll_getD s.lmin t d hmin (by omega)
      have hold : bump l d (-1) ∈ s.old := h.backOld l hl d hd' (by omega)
      apply ih (bump l d (-1)) (mem_I_of_old hold) hle'
      rw [sum_bump l d (-1) hd]
      push_cast at hs
      omega

theorem downward_closed (s : CS) (h : SchemeInv s) (l t : LV) (hl : l ∈ I s)
    (ht : t.length = s.dim) (hmin : geAll s.lmin t) (hle : leAll t l = true) : t ∈ I s := by
  have hs := leAll_sum t l hle
  apply downward_closed_aux s h t ht hmin (l.sum - t.sum).toNat l hl hle
  omega

/-! ### the dictionary -/

/-- sum of the values whose key satisfies `P` -/
def sumP (P : LV → Bool) (m : List (LV × Int)) : Int := ((m.filter (fun p => P p.1)).map (·.2)).sum

def keys (m : List (LV × Int)) : List LV := m.map (·.1)

@[simp] theorem sumP_nil (P : LV → Bool) : sumP P [] = 0 := by simp [sumP]

theorem sumP_cons (P : LV → Bool) (p : LV × Int) (m : List (LV × Int)) :
    sumP P (p :: m) = (if P p.1 then p.2 else 0) + sumP P m := by
  unfold sumP
  by_cases hp : P p.1 = true
  · simp [hp]
  · simp [hp]

theorem sumP_append (P : LV → Bool) (a b : List (LV × Int)) :
    sumP P (a ++ b) = sumP P a + sumP P b := by
  simp [sumP, List.filter_append, List.map_append, List.sum_append]

/-- the update function used by `addTo` -/
def updF (k : LV) (v : Int) (p : LV × Int) : LV × Int := if p.1 == k then (p.1, p.2 + v) else p

theorem updF_fst (k : LV) (v : Int) (p : LV × Int) : (updF k v p).1 = p.1 := by
  unfold updF; split <;> rfl

theorem keys_map_updF (k : LV) (v : Int) (m : List (LV × Int)) : keys (m.map (updF k v)) = keys m := by
  simp [keys, List.map_map, Function.comp_def, updF_fst]

theorem map_updF_of_not_mem (k : LV) (v : Int) : ∀ (m : List (LV × Int)), k ∉ keys m → m.map (updF k v) = m
  | [], _ => rfl
  | p :: m, h => by
    simp only [keys, List.map_cons, List.mem_cons, not_or] at h
    have h1 : (p.1 == k) = false := by
      simp only [beq_eq_false_iff_ne, ne_eq]
      exact fun e => h.1 e.symm
    rw [List.map_cons, map_updF_of_not_mem k v m h.2]
    simp [updF, h1]

theorem sumP_map_updF (P : LV → Bool) (k : LV) (v : Int) : ∀ (m : List (LV × Int)), (keys m).Nodup → k ∈ keys m →
    sumP P (m.map (updF k v)) = sumP P m + (if P k then v else 0)
  | [], _, h => by simp [keys] at h
  | p :: m, hnd, hk => by
    simp only [keys, List.map_cons, List.nodup_cons] at hnd
    rw [List.map_cons, sumP_cons, sumP_cons, updF_fst]
    by_cases hpk : p.1 = k
    · have hnot : k ∉ keys m := by rw [← hpk]; exact hnd.1
      rw [map_updF_of_not_mem k v m hnot]
      have : (updF k v p).2 = p.2 + v := by simp [updF, hpk]
      rw [this, hpk]
      split <;> ring
    · have hk' : k ∈ keys m := by
        simp only [keys, List.map_cons, List.mem_cons] at hk
        rcases hk with hk | hk
        · exact absurd hk.symm hpk
        · exact hk
      rw [sumP_map_updF P k v m hnd.2 hk']
      have : (updF k v p).2 = p.2 := by simp [updF, hpk]
      rw [this]; ring

theorem addTo_eq (m : List (LV × Int)) (k : LV) (v : Int) :
    addTo m k v = if k ∈ keys m then m.map (updF k v) else m ++ [(k, v)] := by
  unfold addTo
  have : (m.any (·.1 == k)) = true ↔ k ∈ keys m := by
    simp [keys, List.any_eq_true]
  by_cases hk : k ∈ keys m
  · rw [if_pos hk, if_pos (this.mpr hk)]; rfl
  · rw [if_neg hk, if_neg (fun h => hk (this.mp h))]

theorem keys_addTo_nodup (m : List (LV × Int)) (k : LV) (v : Int) (h : (keys m).Nodup) :
    (keys (addTo m k v)).Nodup := by
  rw [addTo_eq]
  by_cases hk : k ∈ keys m
  · rw [if_pos hk, keys_map_updF]; exact h
  · rw [if_neg hk]
    simp only [keys, List.map_append, List.map_cons, List.map_nil]
    rw [List.nodup_append]
    refine ⟨h, by simp, ?_⟩
    intro a ha b hb
    simp only [List.mem_singleton] at hb
    rw [hb]; intro e; apply hk; rw [← e]; exact ha

theorem mem_keys_addTo (m : List (LV × Int)) (k : LV) (v : Int) (x : LV) :
    x ∈ keys (addTo m k v) ↔ x ∈ keys m ∨ x = k := by
  rw [addTo_eq]
  by_cases hk : k ∈ keys m
  · rw [if_pos hk, keys_map_updF]
    constructor
    · exact Or.inl
    · rintro (h | h)
      · exact h
      · rw [h]; exact hk
  · rw [if_neg hk]
    simp [keys]

theorem sumP_addTo (P : LV → Bool) (m : List (LV × Int)) (k : LV) (v : Int) (h : (keys m).Nodup) :
    sumP P (addTo m k v) = sumP P m + (if P k then v else 0) := by
  rw [addTo_eq]
  by_cases hk : k ∈ keys m
  · rw [if_pos hk, sumP_map_updF P k v m h hk]
  · rw [if_neg hk, sumP_append, sumP_cons]; simp

/-- the accumulated dictionary -/
def dict (m0 : List (LV × Int)) (es : List (LV × Int)) : List (LV × Int) :=
  es.foldl (fun m e => addTo m e.1 e.2) m0

theorem dict_spec (P : LV → Bool) : ∀ (es m0 : List (LV × Int)), (keys m0).Nodup →
    (keys (dict m0 es)).Nodup ∧ sumP P (dict m0 es) = sumP P m0 + sumP P es ∧
    ∀ x, x ∈ keys (dict m0 es) ↔ x ∈ keys m0 ∨ x ∈ keys es
  | [], m0, h => by
    refine ⟨h, ?_, ?_⟩ <;> simp [dict, keys]
  | e :: es, m0, h => by
    have h1 := keys_addTo_nodup m0 e.1 e.2 h
    obtain ⟨ha, hb, hc⟩ := dict_spec P es (addTo m0 e.1 e.2) h1
    have hd : dict m0 (e :: es) = dict (addTo m0 e.1 e.2) es := rfl
    rw [hd]
    refine ⟨ha, ?_, ?_⟩
    · rw [hb, sumP_addTo P m0 e.1 e.2 h, sumP_cons]; ring
    · intro x
      rw [hc, mem_keys_addTo]
      simp only [keys, List.map_cons, List.mem_cons]
      tauto

theorem sumP_filter_ne_zero (P : LV → Bool) : ∀ (m : List (LV × Int)),
    sumP P (m.filter (·.2 != 0)) = sumP P m
  | [] => rfl
  | p :: m => by
    rw [List.filter_cons]
    by_cases hp : p.2 = 0
    · simp only [hp, bne_self_eq_false, Bool.false_eq_true, if_false]
      rw [sumP_filter_ne_zero P m, sumP_cons, hp]; simp
    · have : (p.2 != 0) = true := by simpa using hp
      rw [if_pos this, sumP_cons, sumP_cons, sumP_filter_ne_zero P m]

theorem coeffsOf_eq (lmin : Int) (idx : List LV) :
    coeffsOf lmin idx = (dict [] (stencilEntries lmin idx)).filter (·.2 != 0) := rfl

theorem domSum_eq (c : List (LV × Int)) (t : LV) : domSum c t = sumP (leAll t) c := rfl

theorem domSum_coeffsOf (lmin : Int) (idx : List LV) (t : LV) :
    domSum (coeffsOf lmin idx) t = sumP (leAll t) (stencilEntries lmin idx) := by
  rw [domSum_eq, coeffsOf_eq, sumP_filter_ne_zero]
  have := (dict_spec (leAll t) (stencilEntries lmin idx) [] (by simp [keys])).2.1
  rw [this]; simp

/-! ### stencils and the per-element collapse -/

def sgnP : LV → Int
  | [] => 1
  | s :: ss => (if s = 0 then 1 else -1) * sgnP ss

def ind (b : Bool) : Int := if b then 1 else 0

def contrib' (lmin : Int) (g t : LV) : Int :=
  ((stencils lmin g).map fun st => sgnP st * ind (leAll t (List.zipWith (· + ·) g st))).sum

theorem contrib'_eq (lmin : Int) : ∀ (g t : LV), g.length = t.length →
    (∀ x ∈ g, lmin ≤ x) → (∀ x ∈ t, lmin ≤ x) →
    contrib' lmin g t = ind (decide (g = t))
  | [], [], _, _, _ => by simp [contrib', stencils, sgnP, ind, leAll]
  | g :: gs, t :: ts, hl, hg, ht => by
    have hl' : gs.length = ts.length := by simpa using hl
    have hg0 : lmin ≤ g := hg g (by simp)
    have ht0 : lmin ≤ t := ht t (by simp)
    have ih := contrib'_eq lmin gs ts hl' (fun x hx => hg x (by simp [hx])) (fun x hx => ht x (by simp [hx]))
    unfold contrib' at ih ⊢
    by_cases hgl : g ≤ lmin
    · have hge : g = lmin := le_antisymm hgl hg0
      simp only [stencils, hgl, if_true, List.flatMap_cons, List.flatMap_nil, List.append_nil, List.map_map]
      simp only [Function.comp_def, List.zipWith_cons_cons, sgnP, leAll, add_zero, if_true, one_mul]
      by_cases hgt : g = t
      · subst hgt
        have : decide (g ≤ g) = true := by simp
        simp only [this, Bool.true_and]
        rw [ih]; simp [ind]
      · have hlt : ¬ (t ≤ g) := by intro h; apply hgt; omega
        have : decide (t ≤ g) = false := by simp [hlt]
        simp only [this, Bool.false_and]
        simp [ind, hgt]
    · have hgl' : lmin < g := lt_of_not_ge hgl
      simp only [stencils, hgl, if_false, List.flatMap_cons, List.flatMap_nil, List.append_nil,
        List.map_map, List.map_append, List.sum_append]
      simp only [Function.comp_def, List.zipWith_cons_cons, sgnP, leAll, add_zero, if_true, one_mul]
      have hneg : ((-1 : Int) = 0) = False := by simp
      simp only [hneg, if_false]
      have lin : ∀ (c : Int) (f : LV → Int) (l : List LV), (l.map fun st => c * f st).sum = c * (l.map f).sum := by
        intro c f l; induction l with
        | nil => simp
        | cons a l ih => simp [ih, mul_add]
      have key : ∀ (b : Bool), ((stencils lmin gs).map fun st => sgnP st * ind (b && leAll ts (List.zipWith (· + ·) gs st))).sum
          = ind b * ((stencils lmin gs).map fun st => sgnP st * ind (leAll ts (List.zipWith (· + ·) gs st))).sum := by
        intro b; rw [← lin]; cases b <;> simp [ind]
      have key2 : ∀ (b : Bool), ((stencils lmin gs).map fun st => -1 * sgnP st * ind (b && leAll ts (List.zipWith (· + ·) gs st))).sum
          = - (ind b * ((stencils lmin gs).map fun st => sgnP st * ind (leAll ts (List.zipWith (· + ·) gs st))).sum) := by
        intro b
        have : (fun st => -1 * sgnP st * ind (b && leAll ts (List.zipWith (· + ·) gs st)))
             = (fun st => (-1) * (sgnP st * ind (b && leAll ts (List.zipWith (· + ·) gs st)))) := by
          funext st; ring
        rw [this, lin, key]; ring
      rw [key, key2, ih]
      by_cases hgt : g = t
      · subst hgt
        have h1 : decide (g ≤ g) = true := by simp
        have h2 : decide (g ≤ g + -1) = false := by simp
        simp [ind]
      · by_cases hle : t ≤ g
        · have h1 : decide (t ≤ g) = true := by simp [hle]
          have h2 : decide (t ≤ g + -1) = true := by simp; omega
          rw [h1, h2]
          have : decide (g :: gs = t :: ts) = false := by simp [hgt]
          rw [this]; simp [ind]
        · have h1 : decide (t ≤ g) = false := by simp [hle]
          have h2 : decide (t ≤ g + -1) = false := by simp; omega
          rw [h1, h2]
          have : decide (g :: gs = t :: ts) = false := by simp [hgt]
          rw [this]; simp [ind]
  | [], _ :: _, hl, _, _ => by simp at hl
  | _ :: _, [], hl, _, _ => by simp at hl

end SparseSpace
