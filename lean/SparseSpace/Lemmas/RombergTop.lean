import SparseSpace.Lemmas.RombergGrid
/-!
# Top-level facts about `setGrid` / `weights` (C11): end points, Simpson containers, the unrefined grid
-/
namespace SparseSpace.Romberg
open SparseSpace Finset

/-- first and last element of a list -/
def firstLast : List ℚ → Option (ℚ × ℚ)
  | [] => none
  | x :: xs => some (x, (x :: xs).getLast (by simp))

theorem firstLast_cons_append (x y : ℚ) (m : List ℚ) : firstLast (x :: (m ++ [y])) = some (x, y) := by
  simp [firstLast]

theorem initTree_ends (grid : List ℚ) (lv : List ℕ) (t : GBT) (h : GBT.initTree grid lv = some t) :
    firstLast grid = some (t.a, t.b) := by
  simp only [GBT.initTree] at h
  split at h
  · simp at h
  · rename_i hlen
    have hlen' : grid.length = lv.length := not_not.mp hlen
    cases hz : grid.zip lv with
    | nil => rw [hz] at h; simp at h
    | cons first rest =>
      rw [hz] at h
      cases rest with
      | nil => simp at h
      | cons r1 rs =>
        simp only at h
        cases hr : (r1 :: rs).reverse with
        | nil => simp at hr
        | cons last innerRev =>
          rw [hr] at h
          simp only at h
          split at h
          · simp at h
          · split at h
            · simp at h
            · simp only [Option.some.injEq] at h
              subst h
              have hrest : r1 :: rs = innerRev.reverse ++ [last] := by
                have := congrArg List.reverse hr
                simpa using this
              have hg : grid = first.1 :: ((innerRev.reverse.map Prod.fst) ++ [last.1]) := by
                have := congrArg (List.map Prod.fst) hz
                rw [List.map_fst_zip (le_of_eq hlen'), hrest] at this
                simpa using this
              rw [hg, firstLast_cons_append]

/-- `set_grid` keeps the end points of the given grid (also when it completes the refinement tree), and without
    `force_balanced_refinement_tree` it keeps the grid itself -/
theorem setGrid_ends (cfg : Cfg) (grid : List ℚ) (lv : List ℕ) (st : EG) (h1 : setGrid cfg grid lv = some st) :
    firstLast grid = some (st.a, st.b) ∧ (cfg.forceBalanced = false → st.grid = grid ∧ st.lv = lv) := by
  simp only [setGrid] at h1
  cases he : effectiveGrid cfg grid lv with
  | none => rw [he] at h1; simp at h1
  | some gl =>
    obtain ⟨g, l⟩ := gl
    rw [he] at h1
    simp only at h1
    have hlen := effectiveGrid_len cfg grid lv g l he
    cases hso : slicesOf (g.zip l) with
    | none => rw [hso] at h1; simp at h1
    | some abs =>
      obtain ⟨a, b, ss⟩ := abs
      rw [hso] at h1
      simp only at h1
      split at h1
      · simp only [Option.some.injEq] at h1
        subst h1
        simp only [slicesOf] at hso
        cases hen : ends (g.zip l) with
        | none => rw [hen] at hso; simp at hso
        | some fil =>
          obtain ⟨first, inner, last⟩ := fil
          rw [hen] at hso
          simp only [Option.some.injEq, Prod.mk.injEq] at hso
          obtain ⟨rfl, rfl, rfl⟩ := hso
          have hz := ends_spec _ _ _ _ hen
          have hg : g = first.1 :: (inner.map Prod.fst ++ [last.1]) := by
            have := congrArg (List.map Prod.fst) hz
            rw [List.map_fst_zip (le_of_eq hlen)] at this
            simpa using this
          have hfl : firstLast g = some (first.1, last.1) := by rw [hg, firstLast_cons_append]
          simp only [effectiveGrid] at he
          split at he
          · simp at he
          · by_cases hc : (cfg.forceBalanced && decide (grid.length > 2)) = true
            · rw [if_pos hc] at he
              cases ht : GBT.initTree grid lv with
              | none => rw [ht] at he; simp at he
              | some t =>
                rw [ht] at he
                simp only [Option.some.injEq, Prod.mk.injEq] at he
                obtain ⟨hg', -⟩ := he
                have h3 := initTree_ends grid lv t ht
                have h4 : firstLast g = some (t.a, t.b) := by
                  rw [← hg']; simp [GBT.grid, GBT.forceFull, firstLast]
                rw [h4] at hfl
                simp only [Option.some.injEq, Prod.mk.injEq] at hfl
                refine ⟨by rw [h3, hfl.1, hfl.2], fun hf => ?_⟩
                rw [hf] at hc; simp at hc
            · rw [if_neg hc] at he
              simp only [Option.some.injEq, Prod.mk.injEq] at he
              obtain ⟨rfl, rfl⟩ := he
              exact ⟨hfl, fun _ => ⟨rfl, rfl⟩⟩
      · simp at h1

/-! ## Simpson containers -/

theorem coeff_ne_zero (a b : ℚ) (e m j : ℕ) (hab : a ≠ b) (he : 1 ≤ e) : coeff a b e m j ≠ 0 := by
  rw [coeff, coeffAux_eq, Finset.prod_ne_zero_iff]
  intro i _
  by_cases hij : i = j
  · simp [hij]
  · simp only [hij, if_false]
    have hH : (b - a) ≠ 0 := sub_ne_zero.mpr (Ne.symm hab)
    have hn : node a b e i ≠ 0 := by
      simp only [node]
      exact pow_ne_zero _ (div_ne_zero hH (pow_ne_zero _ (by norm_num)))
    have hd : node a b e i - node a b e j ≠ 0 :=
      sub_ne_zero.mpr (fun h => hij (node_injective a b e hab he h))
    exact div_ne_zero hn hd

/-- the unrefined grid `[a, b]`, `a < b`: every configuration (also with `force_balanced_refinement_tree`) returns
    the trapezoidal weights -/
theorem two_points (cfg : Cfg) (a b : ℚ) (hab : a < b) :
    weights cfg [a, b] [0, 0] = .ok [(b - a) / 2, (b - a) / 2] := by
  have hne : a ≠ b := ne_of_lt hab
  have hne' : b ≠ a := fun h => hne h.symm
  have hle : a ≤ a := le_refl a
  have hle' : b ≥ b := le_refl b
  obtain ⟨g, sv, cv, fb⟩ := cfg
  have hc2 : coeff a b 2 0 0 = 1 := by simp [coeff, coeffAux]
  cases g <;> cases sv <;> cases cv <;>
    simp [weights, setGrid, effectiveGrid, slicesOf, ends, slicesRec, splitMin, sliceOk, Slice.maxLevel,
      stepWidth, rpow, hab, groupRuns, adjust, isPow2, EG.weights, allContribs, containerContribs, sliceContribs,
      rombergContribs, supportWeights, Slice.width, finalWeights, weightAt, rsum, hne, hne', hc2] <;>
    (try field_simp) <;> (try ring_nf) <;> (try exact ⟨trivial, trivial⟩)

end SparseSpace.Romberg
