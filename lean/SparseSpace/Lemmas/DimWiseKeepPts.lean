import SparseSpace.Lemmas.DimWiseKeepPair
import SparseSpace.Lemmas.ExactnessLocal
import Mathlib.Tactic.FieldSimp
/-!
# The initial dyadic grids inside the component grids (histories without rebalancing)

* `dyadic_in_initObjs`: every node of the dyadic level-`j` grid (`j ≤ lmax`) is the lower end of the box or the end of an
  interval of `initialize_refinement` whose end level is `≤ j`.
* `good_dim`: in every well-formed state of a rebalancing-free history, for the versions 6, 7, 8 (any `LoopOK` version):
  the component grids of dimension `d` of every level `≥ rOf d k` contain the dyadic level-`k` grid.
-/
namespace SparseSpace
open Exact

/-! ## the complete initial tree, by depth -/

/-- the objects of a complete tree of depth `k` on `[p1, p2]` -/
def cIvals : Nat → Rat → Rat → Nat → Nat → Nat → List Ival
  | 0, p1, p2, lo, hi, _ => [⟨p1, p2, lo, hi, 0⟩]
  | k+1, p1, p2, lo, hi, level =>
    cIvals k p1 ((p1 + p2) / 2) lo (level + 1) (level + 1) ++ cIvals k ((p1 + p2) / 2) p2 (level + 1) hi (level + 1)

theorem initIvals_complete : ∀ (k f i1 : Nat) (p1 p2 : Rat) (lo hi level : Nat), 2 ^ k ≤ f →
    initIvals f i1 (i1 + 2 ^ k) p1 p2 lo hi level = cIvals k p1 p2 lo hi level
  | 0, f, i1, p1, p2, lo, hi, level, hf => by
    cases f with
    | zero => simp at hf
    | succ f => simp [initIvals, cIvals]
  | k+1, f, i1, p1, p2, lo, hi, level, hf => by
    have hp := two_pow_pos' k
    have h2 : 2 ^ (k + 1) = 2 * 2 ^ k := by rw [Nat.pow_succ]; omega
    cases f with
    | zero => omega
    | succ f =>
      have hc : ¬ (i1 + 1 ≥ i1 + 2 ^ (k + 1)) := by omega
      have hmid : (i1 + (i1 + 2 ^ (k + 1))) / 2 = i1 + 2 ^ k := by omega
      simp only [initIvals, hc, if_false, hmid, cIvals]
      have e : i1 + 2 ^ (k + 1) = (i1 + 2 ^ k) + 2 ^ k := by omega
      rw [initIvals_complete k f i1 _ _ _ _ (level + 1) (by omega), e,
        initIvals_complete k f (i1 + 2 ^ k) _ _ _ _ (level + 1) (by omega)]

theorem initObjs_eq_cIvals (maxv : Nat) (a b : Rat) : initObjs maxv a b = cIvals maxv a b 0 0 0 := by
  unfold initObjs
  simp only []
  rw [mk_eq_init]
  have := initIvals_complete maxv (2 ^ maxv) 0 a b 0 0 0 (Nat.le_refl _)
  simpa using this

/-- the dyadic points of level `j ≤ k` are interval ends of the complete tree of depth `k`, with end level `≤ level + j`
(the right end of the segment has the level `hi`) -/
theorem cIvals_dyadic : ∀ (k : Nat) (p1 p2 : Rat) (lo hi level j i : Nat), j ≤ k → 1 ≤ i → i ≤ 2 ^ j →
    ∃ x ∈ cIvals k p1 p2 lo hi level, x.e = p1 + (i : Rat) * ((p2 - p1) / ((2 ^ j : Nat) : Rat)) ∧
      (if i = 2 ^ j then x.l1 = hi else x.l1 ≤ level + j)
  | 0, p1, p2, lo, hi, level, j, i, hj, hi1, hi2 => by
    have hj0 : j = 0 := by omega
    subst hj0
    have : i = 1 := by simp at hi2; omega
    subst this
    refine ⟨⟨p1, p2, lo, hi, 0⟩, by simp [cIvals], ?_, by simp⟩
    simp
  | k+1, p1, p2, lo, hi, level, 0, i, _, hi1, hi2 => by
    have : i = 1 := by simp at hi2; omega
    subst this
    obtain ⟨x, hx, he, hl⟩ := cIvals_dyadic k ((p1 + p2) / 2) p2 (level + 1) hi (level + 1) 0 1 (by omega) (by omega) (by simp)
    refine ⟨x, by simp only [cIvals]; exact List.mem_append_right _ hx, ?_, ?_⟩
    · rw [he]; simp
    · simpa using hl
  | k+1, p1, p2, lo, hi, level, j+1, i, hj, hi1, hi2 => by
    have hpow : 2 ^ (j + 1) = 2 * 2 ^ j := by rw [Nat.pow_succ]; omega
    have hpos := two_pow_pos' j
    have hcast : (((2 ^ (j + 1) : Nat)) : Rat) = 2 * ((2 ^ j : Nat) : Rat) := by rw [hpow]; push_cast; ring
    have hne : ((2 ^ j : Nat) : Rat) ≠ 0 := by exact_mod_cast (Nat.pos_iff_ne_zero.mp hpos)
    by_cases hle : i ≤ 2 ^ j
    · obtain ⟨x, hx, he, hl⟩ := cIvals_dyadic k p1 ((p1 + p2) / 2) lo (level + 1) (level + 1) j i (by omega) hi1 hle
      refine ⟨x, by simp only [cIvals]; exact List.mem_append_left _ hx, ?_, ?_⟩
      · rw [he, hcast]; field_simp; ring
      · have hne2 : i ≠ 2 ^ (j + 1) := by omega
        rw [if_neg hne2]
        split at hl <;> omega
    · obtain ⟨x, hx, he, hl⟩ := cIvals_dyadic k ((p1 + p2) / 2) p2 (level + 1) hi (level + 1) j (i - 2 ^ j)
        (by omega) (by omega) (by omega)
      refine ⟨x, by simp only [cIvals]; exact List.mem_append_right _ hx, ?_, ?_⟩
      · rw [he, hcast]
        have : ((i - 2 ^ j : Nat) : Rat) = (i : Rat) - ((2 ^ j : Nat) : Rat) := by
          rw [Nat.cast_sub (by omega)]
        rw [this]; field_simp; ring
      · by_cases h2 : i = 2 ^ (j + 1)
        · rw [if_pos h2]
          rw [if_pos (by omega)] at hl; exact hl
        · rw [if_neg h2]
          rw [if_neg (by omega)] at hl; omega

/-- **the initial dyadic grids are made of interval ends of the initial structure, with the right levels** -/
theorem dyadic_in_initObjs (maxv : Nat) (a b : Rat) (j : Nat) (hj : j ≤ maxv) (q : Rat) (hq : q ∈ dyadic a b j) :
    q = a ∨ ∃ x ∈ initObjs maxv a b, x.e = q ∧ x.l1 ≤ j := by
  unfold dyadic at hq
  obtain ⟨i, hi, rfl⟩ := List.mem_map.1 hq
  have hi' : i < 2 ^ j + 1 := List.mem_range.1 hi
  by_cases h0 : i = 0
  · left; subst h0; simp
  · right
    obtain ⟨x, hx, he, hl⟩ := cIvals_dyadic maxv a b 0 0 0 j i hj (by omega) (by omega)
    refine ⟨x, by rw [initObjs_eq_cIvals]; exact hx, he, ?_⟩
    split at hl <;> omega

/-! ## facts about one dimension / one interval end of a state -/

theorem foldl_maxc_spec : ∀ (L : List Ival) (m : Int),
    m ≤ L.foldl (fun m x => max m x.c) m ∧ (∀ x ∈ L, x.c ≤ L.foldl (fun m x => max m x.c) m) ∧
    ∀ B, m ≤ B → (∀ x ∈ L, x.c ≤ B) → L.foldl (fun m x => max m x.c) m ≤ B
  | [], m => ⟨le_refl _, by simp, fun B hB _ => hB⟩
  | y :: ys, m => by
    obtain ⟨h1, h2, h3⟩ := foldl_maxc_spec ys (max m y.c)
    simp only [List.foldl_cons]
    refine ⟨le_trans (le_max_left _ _) h1, ?_, ?_⟩
    · intro x hx
      rcases List.mem_cons.1 hx with rfl | hx
      · exact le_trans (le_max_right _ _) h1
      · exact h2 x hx
    · intro B hB hall
      exact h3 B (max_le hB (hall y (by simp))) (fun x hx => hall x (by simp [hx]))

theorem maxCoarsening_ge (objs : List Ival) (x : Ival) (hx : x ∈ objs) : x.c ≤ maxCoarsening objs :=
  (foldl_maxc_spec objs 0).2.1 x hx

theorem maxCoarsening_le (objs : List Ival) (B : Int) (hB : 0 ≤ B) (h : ∀ x ∈ objs, x.c ≤ B) :
    maxCoarsening objs ≤ B :=
  (foldl_maxc_spec objs 0).2.2 B hB h

/-- everything needed about dimension `d` of a well-formed state of a rebalancing-free history -/
theorem dim_ctx (a b : List Rat) (lmax0 : Nat) (st : DW) (h : DWWF a b lmax0 st) (hn : NRInv a b lmax0 st)
    (d : Nat) (hd : d < st.dim) :
    ∃ (c : Cont) (lm : Int), st.m.conts[d]? = some c ∧ st.objsOf d = c.objs ∧ st.lmax.getD d 0 = lm ∧
      st.maxCoarsenings.getD d 0 = maxCoarsening c.objs ∧ st.maxCoarsenings.length = st.dim ∧
      CoarsOK lm c.objs ∧ Til (a.getD d 0) 0 (b.getD d 0) 0 c.objs ∧ (∀ x ∈ c.objs, lmax0 ≤ max x.l0 x.l1) ∧
      (lmax0 : Int) ≤ lm ∧ 0 ≤ maxCoarsening c.objs ∧ maxCoarsening c.objs ≤ lm - lmax0 := by
  have hdc : d < st.m.conts.length := by rw [h.lconts]; exact hd
  have hdl : d < st.lmax.length := by rw [h.llmax]; exact hd
  have hc := List.getElem?_eq_getElem hdc
  have hl := List.getElem?_eq_getElem hdl
  have g := h.geo d _ hc
  have co := h.coars d _ _ hd hc hl
  have hdeep := hn.deep d _ hc
  have hne : st.m.conts[d].objs ≠ [] := til_ne g.til
  obtain ⟨x0, hx0⟩ := List.exists_mem_of_ne_nil _ hne
  have hx0c := co x0 hx0
  have hx0d := hdeep x0 hx0
  have hlm : (lmax0 : Int) ≤ st.lmax[d] := by omega
  refine ⟨st.m.conts[d], st.lmax[d], hc, ?_, ?_, ?_, ?_, co, g.til, hdeep, hlm, maxCoarsening_nonneg _, ?_⟩
  · unfold DW.objsOf; simp [List.getD, hc]
  · simp [List.getD, hl]
  · unfold DW.maxCoarsenings
    simp [List.getD, List.getElem?_map, hc]
  · unfold DW.maxCoarsenings; simp [h.lconts]
  · apply maxCoarsening_le _ _ (by omega)
    intro x hx
    have := co x hx
    have := hdeep x hx
    omega

/-- the level list left of object `i ≥ 1` starts with the object's own start level -/
theorem left_levels_head : ∀ (objs : List Ival) (i : Nat) (x : Ival), objs[i + 1]? = some x →
    ∃ ts, (((objs.take (i + 1 + 1)).drop 1).reverse).map (·.l0) = x.l0 :: ts
  | [], i, x, h => by simp at h
  | y :: ys, i, x, h => by
    have hx : ys[i]? = some x := by simpa using h
    have e : ((y :: ys).take (i + 1 + 1)).drop 1 = ys.take i ++ [x] := by
      simp only [List.take_succ_cons, List.drop_succ_cons, List.drop_zero]
      rw [List.take_add_one, hx]; rfl
    rw [e]
    exact ⟨((ys.take i).reverse).map (·.l0), by simp⟩

/-- `get_max_level` of an interval end: at least both end levels of the interval, at most `lmax_d`; so
`lmax_d - max_level ≤ max_coarsening_d`; in a rebalancing-free history an end of level `< lmax0` has `max_level > level` -/
theorem point_ctx (objs : List Ival) (lm : Int) (lmax0 : Nat) {a b : Rat} (hco : CoarsOK lm objs)
    (ht : Til a 0 b 0 objs) (hdeep : ∀ x ∈ objs, lmax0 ≤ max x.l0 x.l1) (i : Nat) (x : Ival) (hx : objs[i]? = some x) :
    max x.l0 x.l1 ≤ maxLevel objs i ∧ ((maxLevel objs i : Nat) : Int) ≤ lm ∧
    lm - ((maxLevel objs i : Nat) : Int) ≤ maxCoarsening objs ∧ (x.l1 < lmax0 → x.l1 < maxLevel objs i) := by
  have hxm : x ∈ objs := List.mem_of_getElem? hx
  have hge : max x.l0 x.l1 ≤ maxLevel objs i := by
    have h1 : x.l1 ≤ maxLevel objs i := by
      unfold maxLevel; rw [hx]; simp only []
      exact le_trans (maxLevelScan_ge_init _ _ _) (maxLevelScan_ge_init _ _ _)
    have h0 : x.l0 ≤ maxLevel objs i := by
      cases i with
      | zero =>
        cases objs with
        | nil => simp at hx
        | cons y ys =>
          simp only [List.getElem?_cons_zero, Option.some.injEq] at hx
          subst hx
          have := (til_cons.1 ht).2.1
          omega
      | succ j =>
        obtain ⟨ts, e⟩ := left_levels_head objs j x hx
        unfold maxLevel; rw [hx]; simp only []
        rw [e]
        exact le_trans (maxLevelScan_ge_head _ _ _ _) (maxLevelScan_ge_init _ _ _)
    omega
  have hle : ((maxLevel objs i : Nat) : Int) ≤ lm := by
    have hB : ∀ y ∈ objs, ((y.l0 : Nat) : Int) ≤ lm ∧ ((y.l1 : Nat) : Int) ≤ lm := by
      intro y hy
      have := hco y hy
      constructor <;> omega
    have hlm0 : 0 ≤ lm := by have := hB x hxm; omega
    have hB' : ∀ y ∈ objs, y.l0 ≤ lm.toNat ∧ y.l1 ≤ lm.toNat := by
      intro y hy; have := hB y hy; constructor <;> omega
    have : maxLevel objs i ≤ lm.toNat := by
      unfold maxLevel
      rw [hx]
      simp only []
      apply maxLevelScan_le
      · intro t ht'
        obtain ⟨y, hy, rfl⟩ := List.mem_map.1 ht'
        exact (hB' y (List.mem_of_mem_drop hy)).2
      · apply maxLevelScan_le
        · intro t ht'
          obtain ⟨y, hy, rfl⟩ := List.mem_map.1 ht'
          rw [List.mem_reverse] at hy
          exact (hB' y (List.mem_of_mem_take (List.mem_of_mem_drop hy))).1
        · exact (hB' x hxm).2
    omega
  refine ⟨hge, hle, ?_, ?_⟩
  · have h1 := maxCoarsening_ge objs x hxm
    have h2 := hco x hxm
    omega
  · intro hlt
    have := hdeep x hxm
    omega

/-! ## the loop value and the keep test -/

/-- the value `m` that `get_subtraction_value` computes before clipping (`modify_according_to_levelvec` for the versions
6, 7, 8; `min(·, levelvec[d] - lmin[d])` for version 3) -/
def mVal (cfg : PtCfg) (dim d : Nat) (mcs : List Int) (sv : Int) (ml : Nat) : Int :=
  match cfg.version with
  | 3 => if ml > 2 then cfg.v3r sv dim d else sv
  | 6 => (subLoop6 dim d mcs sv (subFuel sv) 0 0).1
  | 7 => (subLoop7 dim mcs sv (subFuel sv) 0 0).1
  | 8 => (subLoop8 dim d mcs sv ml (subFuel sv) 0 0).1
  | _ => 0

/-- what the argument needs from a coarsening version (and, for version 3, from its rounding `v3r`) -/
structure LoopOK (cfg : PtCfg) : Prop where
  keep_low : ∀ (dim d : Nat) (lmin lmaxd : Int) (mcs : List Int) (ml : Nat) (l : Int) (l1 : Nat),
    (l1 : Int) ≤ max lmin 1 → keepEnd l1 l (subValue cfg.version dim d cfg.v3r lmin lmaxd mcs ml l).1 = true
  keep_mid : ∀ (dim d : Nat) (lmin lmaxd : Int) (mcs : List Int) (ml : Nat) (l : Int) (l1 : Nat),
    (l1 : Int) ≤ l - mVal cfg dim d mcs (lmaxd - ml) ml → (l1 : Int) < ml →
    keepEnd l1 l (subValue cfg.version dim d cfg.v3r lmin lmaxd mcs ml l).1 = true
  keep_top : ∀ (dim d : Nat) (lmin lmaxd : Int) (mcs : List Int) (ml : Nat) (l1 : Nat),
    (l1 : Int) ≤ lmaxd - mVal cfg dim d mcs (lmaxd - ml) ml →
    keepEnd l1 lmaxd (subValue cfg.version dim d cfg.v3r lmin lmaxd mcs ml lmaxd).1 = true
  own : ∀ (dim d : Nat) (mcs : List Int) (sv : Int) (ml : Nat), d < dim → d < mcs.length → 0 ≤ sv → sv ≤ mcs.getD d 0 →
    2 ≤ ml → 0 ≤ mVal cfg dim d mcs sv ml ∧ (1 ≤ mVal cfg dim d mcs sv ml → mVal cfg dim d mcs sv ml ≤ sv)
  pair : ∀ (dim d e : Nat) (mcs : List Int) (s1 s2 : Int) (ml1 ml2 : Nat), d < e → e < dim → e < mcs.length →
    0 ≤ s1 → 0 ≤ s2 → s1 ≤ mcs.getD d 0 → s2 ≤ mcs.getD e 0 → 0 ≤ mcs.getD d 0 → 3 ≤ ml1 → 3 ≤ ml2 →
    mVal cfg dim d mcs s1 ml1 + mVal cfg dim e mcs s2 ml2 ≤ max (mcs.getD d 0) (mcs.getD e 0)

/-- below the top level: an end of level `l1 ≤ l - m` whose `max_level` exceeds `l1` is kept -/
theorem keepEnd_modify (l1 : Nat) (l m lmin lmaxd ml : Int) (h1 : (l1 : Int) ≤ l - m) (h2 : (l1 : Int) < ml) :
    keepEnd l1 l (modifyLv m l lmin lmaxd ml) = true := by
  unfold modifyLv
  simp only [keepEnd, decide_eq_true_eq]
  split <;> omega

/-- at the top level `l = lmax_d` every end of level `≤ lmax_d - m` is kept -/
theorem keepEnd_modify_top (l1 : Nat) (m lmin lmaxd ml : Int) (h1 : (l1 : Int) ≤ lmaxd - m) :
    keepEnd l1 lmaxd (modifyLv m lmaxd lmin lmaxd ml) = true := by
  unfold modifyLv
  simp only [keepEnd, decide_eq_true_eq]
  split <;> omega

theorem keepEnd_low (l1 : Nat) (l m lmin lmaxd ml : Int) (h1 : (l1 : Int) ≤ max lmin 1) :
    keepEnd l1 l (modifyLv m l lmin lmaxd ml) = true := by
  have := modifyLv_le m l lmin lmaxd ml
  simp only [keepEnd, decide_eq_true_eq]
  omega

theorem loopOK_6 (cfg : PtCfg) (h6 : cfg.version = 6) : LoopOK cfg := by
  obtain ⟨v, r⟩ := cfg
  simp only at h6
  subst h6
  exact {
    keep_low := fun dim d lmin lmaxd mcs ml l l1 h => keepEnd_low l1 l _ lmin lmaxd ml h
    keep_mid := fun dim d lmin lmaxd mcs ml l l1 h1 h2 => keepEnd_modify l1 l _ lmin lmaxd ml h1 h2
    keep_top := fun dim d lmin lmaxd mcs ml l1 h => keepEnd_modify_top l1 _ lmin lmaxd ml h
    own := fun dim d mcs sv ml hd hl _ hc _ => loop6_le_sv dim d mcs sv _ hd hl hc
    pair := fun dim d e mcs s1 s2 ml1 ml2 hde he hl _ _ h1 h2 h0 _ _ =>
      pair_bound _ _ s1 s2 _ _ (loop6_le_sv dim d mcs s1 _ (by omega) (by omega) h1).1
        (loop6_le_sv dim e mcs s2 _ he hl h2).1 h0 h1 h2
        (loop6_first dim d e mcs s1 _ hde he hl h1) (loop6_second dim e d mcs s2 _ hde he hl h2) }

theorem loopOK_7 (cfg : PtCfg) (h7 : cfg.version = 7) : LoopOK cfg := by
  obtain ⟨v, r⟩ := cfg
  simp only at h7
  subst h7
  exact {
    keep_low := fun dim d lmin lmaxd mcs ml l l1 h => keepEnd_low l1 l _ lmin lmaxd ml h
    keep_mid := fun dim d lmin lmaxd mcs ml l l1 h1 h2 => keepEnd_modify l1 l _ lmin lmaxd ml h1 h2
    keep_top := fun dim d lmin lmaxd mcs ml l1 h => keepEnd_modify_top l1 _ lmin lmaxd ml h
    own := fun dim d mcs sv ml hd hl _ hc _ => loop7_le_sv dim d mcs sv _ hd hl hc
    pair := by
      intro dim d e mcs s1 s2 ml1 ml2 hde he hl _ _ h1 h2 h0 _ _
      show (subLoop7 dim mcs s1 (subFuel s1) 0 0).1 + (subLoop7 dim mcs s2 (subFuel s2) 0 0).1 ≤ _
      have k1 := loop7_pair dim d e mcs s1 (subFuel s1) (by omega) (by omega) he (by omega) hl h1
      have k2 := loop7_pair dim e d mcs s2 (subFuel s2) (by omega) he (by omega) hl (by omega) h2
      exact pair_bound _ _ s1 s2 _ _ (loop7_le_sv dim d mcs s1 _ (by omega) (by omega) h1).1
        (loop7_le_sv dim e mcs s2 _ he hl h2).1 h0 h1 h2 (fun hm => by have := k1 hm; omega) k2 }

theorem loopOK_8 (cfg : PtCfg) (h8 : cfg.version = 8) : LoopOK cfg := by
  obtain ⟨v, r⟩ := cfg
  simp only at h8
  subst h8
  exact {
    keep_low := fun dim d lmin lmaxd mcs ml l l1 h => keepEnd_low l1 l _ lmin lmaxd ml h
    keep_mid := fun dim d lmin lmaxd mcs ml l l1 h1 h2 => keepEnd_modify l1 l _ lmin lmaxd ml h1 h2
    keep_top := fun dim d lmin lmaxd mcs ml l1 h => keepEnd_modify_top l1 _ lmin lmaxd ml h
    own := fun dim d mcs sv ml hd hl _ hc hml => loop8_le_sv dim d mcs sv ml _ hd hl hc (by exact_mod_cast hml)
    pair := fun dim d e mcs s1 s2 ml1 ml2 hde he hl _ _ h1 h2 h0 hm1 hm2 =>
      pair_bound _ _ s1 s2 _ _
        (loop8_le_sv dim d mcs s1 ml1 _ (by omega) (by omega) h1 (by omega)).1
        (loop8_le_sv dim e mcs s2 ml2 _ he hl h2 (by omega)).1 h0 h1 h2
        (loop8_first dim d e mcs s1 ml1 _ hde he hl h1 (by exact_mod_cast hm1))
        (loop8_second dim e d mcs s2 ml2 _ hde he hl h2 (by exact_mod_cast hm2)) }

/-- what version 3 needs from its rounding function (the code rounds in floats; the model takes the rounding as a
parameter `v3r`, `v3Exact` is the exact reading) -/
structure V3OK (v3r : Int → Nat → Nat → Int) : Prop where
  own : ∀ (sv : Int) (dim d : Nat), 0 ≤ sv → d < dim → 0 ≤ v3r sv dim d ∧ v3r sv dim d ≤ sv
  pair : ∀ (s1 s2 : Int) (dim d e : Nat), 0 ≤ s1 → 0 ≤ s2 → d < e → e < dim →
    v3r s1 dim d + v3r s2 dim e ≤ max s1 s2

theorem loopOK_3 (cfg : PtCfg) (h3 : cfg.version = 3) (hr : V3OK cfg.v3r) : LoopOK cfg := by
  obtain ⟨v, r⟩ := cfg
  simp only at h3 hr
  subst h3
  refine ⟨?_, ?_, ?_, ?_, ?_⟩
  · intro dim d lmin lmaxd mcs ml l l1 h
    simp only [subValue, keepEnd, decide_eq_true_eq]
    omega
  · intro dim d lmin lmaxd mcs ml l l1 h1 _
    simp only [mVal] at h1
    simp only [subValue, keepEnd, decide_eq_true_eq]
    omega
  · intro dim d lmin lmaxd mcs ml l1 h1
    simp only [mVal] at h1
    simp only [subValue, keepEnd, decide_eq_true_eq]
    omega
  · intro dim d mcs sv ml hd _ hsv _ _
    simp only [mVal]
    split
    · have := hr.own sv dim d hsv hd
      exact ⟨this.1, fun _ => this.2⟩
    · exact ⟨hsv, fun _ => le_refl _⟩
  · intro dim d e mcs s1 s2 ml1 ml2 hde he _ hs1 hs2 h1 h2 _ hm1 hm2
    simp only [mVal]
    rw [if_pos (by omega), if_pos (by omega)]
    have := hr.pair s1 s2 dim d e hs1 hs2 hde he
    omega

/-- the exact rounding of version 3 shares `sv` correctly -/
theorem v3Exact_ok : V3OK v3Exact := by
  have key : ∀ (sv : Int) (dim : Nat), 0 ≤ sv → 1 ≤ dim →
      ∃ q r : Int, 0 ≤ q ∧ 0 ≤ r ∧ r < dim ∧ sv = dim * q + r ∧ Int.tdiv sv dim = q ∧ Int.tmod sv dim = r := by
    intro sv dim hsv hd
    have hdpos : (0 : Int) < dim := by exact_mod_cast hd
    refine ⟨sv / dim, sv % dim, Int.ediv_nonneg hsv (le_of_lt hdpos), Int.emod_nonneg _ (ne_of_gt hdpos),
      Int.emod_lt_of_pos _ hdpos, (Int.mul_ediv_add_emod sv dim).symm, Int.tdiv_eq_ediv_of_nonneg hsv,
      Int.tmod_eq_emod_of_nonneg hsv⟩
  constructor
  · intro sv dim d hsv hd
    obtain ⟨q, r, hq, hr0, hrd, hs, e1, e2⟩ := key sv dim hsv (by omega)
    have hmul : q ≤ (dim : Int) * q := by
      have : (1 : Int) ≤ dim := by exact_mod_cast (by omega : 1 ≤ dim)
      nlinarith
    unfold v3Exact
    rw [e1, e2]
    split <;> constructor <;> omega
  · intro s1 s2 dim d e hs1 hs2 hde he
    obtain ⟨q1, r1, hq1, hr1, hrd1, hss1, e11, e12⟩ := key s1 dim hs1 (by omega)
    obtain ⟨q2, r2, hq2, hr2, hrd2, hss2, e21, e22⟩ := key s2 dim hs2 (by omega)
    have h2 : (2 : Int) ≤ dim := by exact_mod_cast (by omega : 2 ≤ dim)
    have hm1 : 2 * q1 ≤ (dim : Int) * q1 := by nlinarith
    have hm2 : 2 * q2 ≤ (dim : Int) * q2 := by nlinarith
    unfold v3Exact
    rw [e11, e12, e21, e22]
    split <;> split <;> omega

theorem mem_dimCoords_of_keep (st : DW) (cfg : PtCfg) (d : Nat) (l : Int) (i : Nat) (x : Ival)
    (hx : (st.objsOf d)[i]? = some x) (hk : (st.keepAt cfg d (st.objsOf d) i x l).1 = true) :
    x.e ∈ st.dimCoords cfg d l := by
  unfold DW.dimCoords
  rw [List.mem_map]
  refine ⟨(x.e, x.l1), ?_, rfl⟩
  unfold DW.dimPoints
  simp only []
  cases hobjs : st.objsOf d with
  | nil => rw [hobjs] at hx; simp at hx
  | cons x0 xs =>
    rw [hobjs] at hx hk
    simp only []
    apply List.mem_cons_of_mem
    rw [List.mem_filterMap]
    refine ⟨(x, i), ?_, ?_⟩
    · rw [List.mem_zipIdx_iff_getElem?]
      simpa using hx
    · simp [hk]

/-- the loop value of object `i` of dimension `d` -/
def DW.mAt (st : DW) (cfg : PtCfg) (d i : Nat) : Int :=
  mVal cfg st.dim d st.maxCoarsenings (st.lmax.getD d 0 - maxLevel (st.objsOf d) i) (maxLevel (st.objsOf d) i)

/-! ## the largest loop value among the ends of level `≤ k` -/

theorem foldl_maxf_spec {α : Type} (f : α → Int) : ∀ (L : List α) (m : Int),
    m ≤ L.foldl (fun acc p => max acc (f p)) m ∧ (∀ p ∈ L, f p ≤ L.foldl (fun acc p => max acc (f p)) m) ∧
    (L.foldl (fun acc p => max acc (f p)) m = m ∨ ∃ p ∈ L, L.foldl (fun acc p => max acc (f p)) m = f p)
  | [], m => ⟨le_refl _, by simp, Or.inl rfl⟩
  | y :: ys, m => by
    obtain ⟨h1, h2, h3⟩ := foldl_maxf_spec f ys (max m (f y))
    simp only [List.foldl_cons]
    refine ⟨le_trans (le_max_left _ _) h1, ?_, ?_⟩
    · intro x hx
      rcases List.mem_cons.1 hx with rfl | hx
      · exact le_trans (le_max_right _ _) h1
      · exact h2 x hx
    · rcases h3 with h3 | ⟨p, hp, e⟩
      · rcases le_total m (f y) with hle | hle
        · right; exact ⟨y, by simp, by rw [h3]; exact max_eq_right hle⟩
        · left; rw [h3]; exact max_eq_left hle
      · right; exact ⟨p, by simp [hp], e⟩

def DW.mMax (st : DW) (cfg : PtCfg) (d : Nat) (k : Int) : Int :=
  ((st.objsOf d).zipIdx.filter (fun p => decide ((p.1.l1 : Int) ≤ k))).foldl
    (fun acc p => max acc (st.mAt cfg d p.2)) 0

theorem mMax_spec (st : DW) (cfg : PtCfg) (d : Nat) (k : Int) :
    0 ≤ st.mMax cfg d k ∧
    (∀ i x, (st.objsOf d)[i]? = some x → (x.l1 : Int) ≤ k → st.mAt cfg d i ≤ st.mMax cfg d k) ∧
    (st.mMax cfg d k = 0 ∨
      ∃ i x, (st.objsOf d)[i]? = some x ∧ (x.l1 : Int) ≤ k ∧ st.mMax cfg d k = st.mAt cfg d i) := by
  obtain ⟨h1, h2, h3⟩ := foldl_maxf_spec (fun p : Ival × Nat => st.mAt cfg d p.2)
    ((st.objsOf d).zipIdx.filter (fun p => decide ((p.1.l1 : Int) ≤ k))) 0
  refine ⟨h1, ?_, ?_⟩
  · intro i x hx hk
    exact h2 (x, i) (by
      rw [List.mem_filter]
      exact ⟨by rw [List.mem_zipIdx_iff_getElem?]; simpa using hx, by simpa using hk⟩)
  · rcases h3 with h3 | ⟨p, hp, e⟩
    · exact Or.inl h3
    · right
      rw [List.mem_filter, List.mem_zipIdx_iff_getElem?] at hp
      exact ⟨p.2, p.1, by simpa using hp.1, by simpa using hp.2, e⟩

/-- the witness level of dimension `d` for the initial level `k` -/
def DW.rOf (st : DW) (cfg : PtCfg) (lmax0 : Int) (d : Nat) (k : Int) : Int :=
  if k ≤ max st.lmin 1 then st.lmin else if lmax0 ≤ k then st.lmax.getD d 0 else k + st.mMax cfg d k

/-! ## well-formed node lists -/

theorem getLast?_lastOf : ∀ (xs : List Rat) (p : Rat), (p :: xs).getLast? = some (lastOf p xs)
  | [], p => by simp [lastOf]
  | y :: rest, p => by
    have := getLast?_lastOf rest y
    simp only [lastOf]
    rw [List.getLast?_cons_cons]; exact this

theorem wfNodes_of (a b : Rat) (xs : List Rat) (h1 : StrictSorted (a :: xs)) (h2 : lastOf a xs = b) :
    wfNodes a b (a :: xs) = true := by
  unfold wfNodes
  rw [(strictSorted_iff _).2 h1, getLast?_lastOf, h2]
  simp

theorem strictSorted_of_pairwise : ∀ (xs : List Rat), xs.Pairwise (· < ·) → StrictSorted xs
  | [], _ => trivial
  | [_], _ => trivial
  | p :: q :: rest, h => by
    rw [List.pairwise_cons] at h
    exact ⟨h.1 q (by simp), strictSorted_of_pairwise (q :: rest) h.2⟩

theorem wfNodes_dimCoords (st : DW) (cfg : PtCfg) (d : Nat) (l : Int) {a b : Rat} (ht : Til a 0 b 0 (st.objsOf d)) :
    wfNodes a b (st.dimCoords cfg d l) = true ∧ a ∈ st.dimCoords cfg d l := by
  have hs := dimCoords_sorted st cfg d l ht
  obtain ⟨he1, he2⟩ := dimPoints_endpoints st cfg d l ht
  have hh : (st.dimCoords cfg d l).head? = some a := by
    unfold DW.dimCoords; rw [List.head?_map, he1]; rfl
  have hl : (st.dimCoords cfg d l).getLast? = some b := by
    unfold DW.dimCoords; rw [List.getLast?_map, he2]; rfl
  refine ⟨?_, List.mem_of_head? hh⟩
  unfold wfNodes
  rw [(strictSorted_iff _).2 (strictSorted_of_pairwise _ hs), hh, hl]
  simp

/-! ## one dimension of (H_keep) -/

theorem zip_getD (a b : List Rat) (d : Nat) (ha : d < a.length) (hb : d < b.length) :
    (a.zip b).getD d (0, 0) = (a.getD d 0, b.getD d 0) := by
  have hz : d < (a.zip b).length := by simp; omega
  simp [List.getD, List.getElem?_eq_getElem hz, List.getElem?_eq_getElem ha, List.getElem?_eq_getElem hb]

theorem toExact_tbl (st : DW) (cfg : PtCfg) (a b : List Rat) (lmax0 : Int) (d : Nat) (hd : d < st.dim) :
    (st.toExact cfg a b lmax0).tbl.getD d [] = (st.levelsOf d).map fun l => (l, st.dimCoords cfg d l) := by
  unfold DW.toExact
  simp [List.getD, List.getElem?_map, List.getElem?_range hd]

theorem mem_levelsOf (st : DW) (d : Nat) (l : Int) (hl : st.lmin ≤ st.lmax.getD d 0) :
    l ∈ st.levelsOf d ↔ st.lmin ≤ l ∧ l ≤ st.lmax.getD d 0 := by
  unfold DW.levelsOf
  rw [List.mem_map]
  constructor
  · rintro ⟨n, hn, rfl⟩
    have := List.mem_range.1 hn
    omega
  · rintro ⟨h1, h2⟩
    exact ⟨(l - st.lmin).toNat, List.mem_range.2 (by omega), by omega⟩

/-- **one dimension of (H_keep)**: every tabulated component level `≥ rOf d k` of dimension `d` contains the dyadic
level-`k` grid of that dimension (`lmin ≤ k ≤ lmax0`), in every well-formed state of a history without rebalancing -/
theorem good_dim (a b : List Rat) (lmax0 : Nat) (st : DW) (h : DWWF a b lmax0 st) (hn : NRInv a b lmax0 st)
    (cfg : PtCfg) (hv : LoopOK cfg) (h2 : 2 ≤ lmax0) (d : Nat) (hd : d < st.dim) (ha : d < a.length)
    (hb : d < b.length) (hab : a.getD d 0 < b.getD d 0) (k : Int) (hk1 : st.lmin ≤ k) (hk2 : k ≤ lmax0) :
    goodLevel (st.toExact cfg a b lmax0) d k (st.rOf cfg lmax0 d k) = true := by
  obtain ⟨c, lm, hc, hobjs, hlm, hmc, hmcl, hco, htil, hdeep, hlm0, hc0, hcle⟩ := dim_ctx a b lmax0 st h hn d hd
  have htil' : Til (a.getD d 0) 0 (b.getD d 0) 0 (st.objsOf d) := by rw [hobjs]; exact htil
  have hlmin0 := h.lmin0
  have hlminle : st.lmin ≤ (lmax0 : Int) := h.lmin_le
  unfold goodLevel
  simp only []
  rw [toExact_tbl st cfg a b lmax0 d hd]
  have hdom : (st.toExact cfg a b lmax0).dom.getD d (0, 0) = (a.getD d 0, b.getD d 0) := zip_getD a b d ha hb
  rw [hdom]
  simp only [List.all_map, List.all_eq_true, Function.comp]
  intro l hl
  rw [mem_levelsOf st d l (by rw [hlm]; omega)] at hl
  by_cases hrl : st.rOf cfg lmax0 d k ≤ l
  swap
  · simp [hrl]
  simp only [hrl, decide_true, Bool.not_true, Bool.false_or]
  obtain ⟨xs', hdy, hss, hlast⟩ := dyadic_wf (a.getD d 0) (b.getD d 0) k.toNat hab
  obtain ⟨hwf, hamem⟩ := wfNodes_dimCoords st cfg d l htil'
  unfold refinesB
  rw [hwf]
  have hwfK : wfNodes (a.getD d 0) (b.getD d 0) (dyadic (a.getD d 0) (b.getD d 0) k.toNat) = true := by
    rw [hdy]; exact wfNodes_of _ _ _ hss hlast
  rw [hwfK]
  simp only [Bool.true_and, List.all_eq_true, decide_eq_true_eq]
  intro q hq
  rcases dyadic_in_initObjs lmax0 (a.getD d 0) (b.getD d 0) k.toNat (by omega) q hq with rfl | ⟨x, hx, hxe, hxl⟩
  · exact hamem
  · obtain ⟨y, hy, hye, hyl⟩ := hn.keepPts d c hc x hx
    rw [← hobjs] at hy
    obtain ⟨i, hi, hyi⟩ := List.getElem_of_mem hy
    have hyi' : (st.objsOf d)[i]? = some y := by rw [List.getElem?_eq_getElem hi, hyi]
    have hyk : (y.l1 : Int) ≤ k := by rw [hyl]; omega
    rw [← hxe, ← hye]
    apply mem_dimCoords_of_keep st cfg d l i y hyi'
    have hyi'' : c.objs[i]? = some y := by rw [← hobjs]; exact hyi'
    obtain ⟨p1, p2, p3, p4⟩ := point_ctx c.objs lm lmax0 hco htil hdeep i y hyi''
    unfold DW.keepAt
    simp only []
    rw [hobjs, hlm]
    unfold DW.rOf at hrl
    by_cases hlow : k ≤ max st.lmin 1
    · exact hv.keep_low _ _ _ _ _ _ _ _ (by omega)
    · rw [if_neg hlow] at hrl
      -- the loop value of this end
      have hown := hv.own st.dim d st.maxCoarsenings (lm - (maxLevel c.objs i : Nat)) (maxLevel c.objs i) hd
        (by rw [hmcl]; exact hd) (by omega) (by rw [hmc]; exact p3)
        (by have := hdeep y (List.mem_of_getElem? hyi''); omega)
      have hmAt : st.mAt cfg d i
          = mVal cfg st.dim d st.maxCoarsenings (lm - (maxLevel c.objs i : Nat)) (maxLevel c.objs i) := by
        unfold DW.mAt; rw [hobjs, hlm]
      by_cases htop : (lmax0 : Int) ≤ k
      · rw [if_pos htop, hlm] at hrl
        have hll : l = lm := by rw [hlm] at hl; omega
        rw [hll]
        apply hv.keep_top
        by_cases hm1 : 1 ≤ mVal cfg st.dim d st.maxCoarsenings (lm - (maxLevel c.objs i : Nat)) (maxLevel c.objs i)
        · have := hown.2 hm1; omega
        · have := hown.1; omega
      · rw [if_neg htop] at hrl
        have hle := (mMax_spec st cfg d k).2.1 i y hyi' hyk
        rw [hmAt] at hle
        apply hv.keep_mid
        · omega
        · have := p4 (by omega); omega

/-! ## the witness stays inside the index set: bounds for `mMax` -/

theorem getD_le_maxList (lmax : List Int) (d : Nat) (hd : d < lmax.length) : lmax.getD d 0 ≤ maxList lmax := by
  apply maxList_ge
  have : lmax.getD d 0 = lmax[d] := by simp [List.getD, List.getElem?_eq_getElem hd]
  rw [this]; exact List.getElem_mem hd

/-- the loop value of an end of level `< lmax0` and what bounds it -/
theorem mAt_ctx (a b : List Rat) (lmax0 : Nat) (st : DW) (h : DWWF a b lmax0 st) (hn : NRInv a b lmax0 st)
    (cfg : PtCfg) (hv : LoopOK cfg) (h2 : 2 ≤ lmax0) (d : Nat) (hd : d < st.dim) (i : Nat) (x : Ival)
    (hx : (st.objsOf d)[i]? = some x) :
    st.lmax.getD d 0 - (maxLevel (st.objsOf d) i : Nat) ≤ st.maxCoarsenings.getD d 0 ∧
    lmax0 ≤ maxLevel (st.objsOf d) i ∧ 0 ≤ st.lmax.getD d 0 - (maxLevel (st.objsOf d) i : Nat) ∧
    0 ≤ st.mAt cfg d i ∧ st.mAt cfg d i ≤ st.lmax.getD d 0 - lmax0 := by
  obtain ⟨c, lm, hc, hobjs, hlm, hmc, hmcl, hco, htil, hdeep, hlm0, hc0, hcle⟩ := dim_ctx a b lmax0 st h hn d hd
  rw [hobjs] at hx ⊢
  obtain ⟨p1, p2, p3, _⟩ := point_ctx c.objs lm lmax0 hco htil hdeep i x hx
  have hml : lmax0 ≤ maxLevel c.objs i := by have := hdeep x (List.mem_of_getElem? hx); omega
  have hown := hv.own st.dim d st.maxCoarsenings (lm - (maxLevel c.objs i : Nat)) (maxLevel c.objs i) hd
    (by rw [hmcl]; exact hd) (by omega) (by rw [hmc]; exact p3) (by omega)
  have hmAt : st.mAt cfg d i
      = mVal cfg st.dim d st.maxCoarsenings (lm - (maxLevel c.objs i : Nat)) (maxLevel c.objs i) := by
    unfold DW.mAt; rw [hobjs, hlm]
  rw [hmAt, hlm, hmc]
  refine ⟨p3, hml, by omega, hown.1, ?_⟩
  by_cases hm1 : 1 ≤ mVal cfg st.dim d st.maxCoarsenings (lm - (maxLevel c.objs i : Nat)) (maxLevel c.objs i)
  · have := hown.2 hm1; omega
  · omega

theorem mMax_le (a b : List Rat) (lmax0 : Nat) (st : DW) (h : DWWF a b lmax0 st) (hn : NRInv a b lmax0 st)
    (cfg : PtCfg) (hv : LoopOK cfg) (h2 : 2 ≤ lmax0) (d : Nat) (hd : d < st.dim) (k : Int) :
    st.mMax cfg d k ≤ st.lmax.getD d 0 - lmax0 := by
  obtain ⟨_, lm, _, _, hlm, _, _, _, _, _, hlm0, _, _⟩ := dim_ctx a b lmax0 st h hn d hd
  rcases (mMax_spec st cfg d k).2.2 with h0 | ⟨i, x, hx, _, e⟩
  · rw [h0, hlm]; omega
  · rw [e]; exact (mAt_ctx a b lmax0 st h hn cfg hv h2 d hd i x hx).2.2.2.2

/-- **two dimensions together never ask for more than the index set grew** -/
theorem mMax_pair (a b : List Rat) (lmax0 : Nat) (st : DW) (h : DWWF a b lmax0 st) (hn : NRInv a b lmax0 st)
    (cfg : PtCfg) (hv : LoopOK cfg) (h3 : 3 ≤ lmax0) (d e : Nat) (hde : d < e) (he : e < st.dim) (kd ke : Int) :
    st.mMax cfg d kd + st.mMax cfg e ke ≤ maxList st.lmax - lmax0 := by
  have hd : d < st.dim := by omega
  have hgd := getD_le_maxList st.lmax d (by rw [h.llmax]; exact hd)
  have hge := getD_le_maxList st.lmax e (by rw [h.llmax]; exact he)
  have hld := mMax_le a b lmax0 st h hn cfg hv (by omega) d hd kd
  have hle := mMax_le a b lmax0 st h hn cfg hv (by omega) e he ke
  obtain ⟨_, lmd, _, _, hlmd, hmcd, hmcl, _, _, _, hlmd0, hcd0, hcdle⟩ := dim_ctx a b lmax0 st h hn d hd
  obtain ⟨_, lme, _, _, hlme, hmce, _, _, _, _, hlme0, hce0, hcele⟩ := dim_ctx a b lmax0 st h hn e he
  rcases (mMax_spec st cfg d kd).2.2 with h0 | ⟨i, x, hx, _, e1⟩
  · rw [h0]; omega
  · rcases (mMax_spec st cfg e ke).2.2 with h0 | ⟨j, y, hy, _, e2⟩
    · rw [h0]; omega
    · obtain ⟨a1, a2, a3, _, _⟩ := mAt_ctx a b lmax0 st h hn cfg hv (by omega) d hd i x hx
      obtain ⟨b1, b2, b3, _, _⟩ := mAt_ctx a b lmax0 st h hn cfg hv (by omega) e he j y hy
      have hp := hv.pair st.dim d e st.maxCoarsenings
        (st.lmax.getD d 0 - (maxLevel (st.objsOf d) i : Nat)) (st.lmax.getD e 0 - (maxLevel (st.objsOf e) j : Nat))
        (maxLevel (st.objsOf d) i) (maxLevel (st.objsOf e) j) hde he (by rw [hmcl]; exact he) a3 b3 a1 b1
        (by rw [hmcd]; exact hcd0) (by omega) (by omega)
      rw [e1, e2]
      unfold DW.mAt
      rw [hmcd, hmce] at hp
      omega

end SparseSpace
