import SparseSpace.Generated.FuncCacheGen
import SparseSpace.Lemmas.FuncCache
/-!
# Translator tie for the evaluation cache of `Function` (C12): the definitions generated from `Function.py` agree with
`Model/FuncCache` (at `Cfg.current`, the code as it is)

`Generated/FuncCacheGen.lean` is produced by `tools/py2lean --spec specs/funccache.json`.  `__call__` is translated in
its two typed readings `call_point` (a tuple of floats) and `call_batch` (a list of tuples); `eval`, `eval_vectorized`,
`output_length` are the abstract parameter `GenFC.Abstract`.
-/
namespace SparseSpace.FuncCache
open SparseSpace.PyRt

/-- a modelled function as the abstract parameter of the generated code (`eval_vectorized` raising = no rows) -/
def toAbs (F : Fn) : GenFC.Abstract :=
  { eval := F.eval, eval_vectorized := fun ps => (F.evalVec ps).getD [], output_length := fun _ => (F.outLen : Int) }

def toSt (g : GenFC.State) : St := { fdict := g.f_dict, old := g.old_f_dict, doCache := g.do_cache }

/-! ### dictionaries -/

theorem dictGet?_eq_dget : ∀ (d : Dict) (p : Pt), dictGet? d p = dget d p
  | [], _ => rfl
  | (k, v) :: r, p => by
    unfold dictGet? dget
    by_cases h : k = p
    · simp [h]
    · have hb : (k == p) = false := by simpa using h
      simp only [List.find?_cons, hb, h, if_false]
      exact dictGet?_eq_dget r p

theorem dset_of_not_mem : ∀ (d : Dict) (p : Pt) (v : Val), p ∉ keys d → dset d p v = d ++ [(p, v)]
  | [], _, _, _ => rfl
  | (k, w) :: r, p, v, h => by
    simp only [keys, List.map_cons, List.mem_cons, not_or] at h
    have hk : ¬ k = p := fun e => h.1 e.symm
    simp only [dset, hk, if_false, List.cons_append]
    rw [dset_of_not_mem r p v h.2]

theorem dictSet_eq_dset : ∀ (d : Dict) (p : Pt) (v : Val), (keys d).Nodup → dictSet d p v = dset d p v
  | [], _, _, _ => rfl
  | (k, w) :: r, p, v, h => by
    simp only [keys, List.map_cons, List.nodup_cons] at h
    by_cases hk : k = p
    · subst hk
      have hnot : ∀ q ∈ r, ¬ (q.1 == k) = true := by
        intro q hq e
        have : q.1 = k := by simpa using e
        exact h.1 (this ▸ List.mem_map.mpr ⟨q, hq, rfl⟩)
      have hmap : r.map (fun q => if (q.1 == k) = true then (q.1, v) else q) = r := by
        conv_rhs => rw [← List.map_id r]
        apply List.map_congr_left
        intro q hq
        simp [hnot q hq]
      have hmap' : r.map (fun q => if q.1 = k then (q.1, v) else q) = r := by
        conv_rhs => rw [← List.map_id r]
        apply List.map_congr_left
        intro q hq
        have : ¬ q.1 = k := fun e => hnot q hq (by simpa using e)
        simp [this]
      simp [dictSet, dset, hmap']
    · have hb : (k == p) = false := by simpa using hk
      have ih := dictSet_eq_dset r p v h.2
      unfold dictSet at ih ⊢
      simp only [List.any_cons, hb, Bool.false_or, List.map_cons, Bool.false_eq_true, if_false, dset, hk]
      by_cases ha : (r.any fun q => q.1 == p) = true
      · rw [if_pos ha] at ih ⊢; rw [ih]
      · rw [if_neg ha] at ih ⊢; rw [← ih]; rfl

theorem nodup_keys_dset (d : Dict) (p : Pt) (v : Val) (h : (keys d).Nodup) : (keys (dset d p v)).Nodup := by
  rw [keys_dset]; exact nodup_insertNew p h

theorem dictUpdateZip_eq_dupdate : ∀ (ps : List Pt) (vs : List Val) (d : Dict), (keys d).Nodup →
    dictUpdateZip d ps vs = dupdate d ps vs ∧ (keys (dupdate d ps vs)).Nodup
  | [], _, d, h => by cases ‹List Val› <;> exact ⟨rfl, h⟩
  | p :: ps, [], d, h => ⟨rfl, h⟩
  | p :: ps, v :: vs, d, h => by
    simp only [dictUpdateZip, dupdate, dictSet_eq_dset d p v h]
    exact dictUpdateZip_eq_dupdate ps vs _ (nodup_keys_dset d p v h)

/-! ### `__call__` -/

/-- **`__call__` on one point** (typed reading `call_point`): new state and returned value are those of the hand
model's `single` at `Cfg.current`; `miss` tells whether `eval` was called.  Hypotheses: a point of dimension ≥ 1, a
function consistent with its declaration, a coherent cache with duplicate-free keys (true in every reachable state). -/
theorem gen_call_point (F : Fn) (g : GenFC.State) (p : Pt) (hp : p ≠ []) (hF : WellDeclared F) (hs : Coherent F (toSt g))
    (hn : (keys g.f_dict).Nodup) :
    ∃ miss, single Cfg.current F (toSt g) p
      = (toSt (GenFC.call_point (toAbs F) g p).1, Out.value (GenFC.call_point (toAbs F) g p).2 miss) := by
  have hlen : (F.eval p).length = F.outLen := hF.1 p
  unfold single GenFC.call_point
  simp only [hp, if_false, toSt, toAbs, dictGet?_eq_dget, Cfg.current, Bool.or_true, if_true]
  have hds := fun v => dictSet_eq_dset g.f_dict p v hn
  rcases Bool.eq_false_or_eq_true g.do_cache with hc | hc
  · simp only [hc, if_true]
    cases h1 : dget g.f_dict p with
    | some v =>
      have hv : v = F.eval p := hs.1 _ (dget_some_mem h1)
      subst hv
      exact ⟨false, by simp [hlen, hc]⟩
    | none =>
      cases h2 : dget g.old_f_dict p with
      | some v =>
        have hv : v = F.eval p := hs.2 _ (dget_some_mem h2)
        subst hv
        exact ⟨false, by simp [hlen, hc, hds]⟩
      | none =>
        exact ⟨true, by simp [hlen, hc, hds]⟩
  · simp only [hc, Bool.false_eq_true, if_false]
    exact ⟨true, by simp [hlen, hc, hds]⟩

theorem gen_call_point_keys (A : GenFC.Abstract) (g : GenFC.State) (p : Pt) (hn : (keys g.f_dict).Nodup) :
    (keys (GenFC.call_point A g p).1.f_dict).Nodup := by
  unfold GenFC.call_point
  simp only [dictGet?_eq_dget]
  rcases Bool.eq_false_or_eq_true g.do_cache with hc | hc
  · simp only [hc, if_true]
    cases h1 : dget g.f_dict p with
    | some v => exact hn
    | none =>
      cases h2 : dget g.old_f_dict p with
      | some v => simp only []; rw [dictSet_eq_dset _ _ _ hn]; exact nodup_keys_dset _ _ _ hn
      | none => simp only []; rw [dictSet_eq_dset _ _ _ hn]; exact nodup_keys_dset _ _ _ hn
  · simp only [hc, Bool.false_eq_true, if_false]
    rw [dictSet_eq_dset _ _ _ hn]; exact nodup_keys_dset _ _ _ hn

theorem gen_call_batch_keys (A : GenFC.Abstract) (g : GenFC.State) (ps : List Pt) (hn : (keys g.f_dict).Nodup) :
    (keys (GenFC.call_batch A g ps).1.f_dict).Nodup := by
  unfold GenFC.call_batch
  split
  · exact hn
  · simp only []
    rw [(dictUpdateZip_eq_dupdate ps _ g.f_dict hn).1]
    exact (dictUpdateZip_eq_dupdate ps _ g.f_dict hn).2

/-- **`__call__` on a batch** (typed reading `call_batch`), empty batch included -/
theorem gen_call_batch (F : Fn) (g : GenFC.State) (ps : List Pt) (hF : WellDeclared F) (hn : (keys g.f_dict).Nodup) :
    batch Cfg.current F (toSt g) ps
      = (toSt (GenFC.call_batch (toAbs F) g ps).1, Out.values (GenFC.call_batch (toAbs F) g ps).2) := by
  by_cases hp : ps = []
  · subst hp
    simp [batch_nil, onEmpty, Cfg.current, GenFC.call_batch, PyRt.len]
  · rw [batch_spec _ F _ ps hF hp]
    have hl : ¬ (PyRt.len ps == (0 : Int)) = true := by
      cases ps with
      | nil => exact absurd rfl hp
      | cons a t => simp [PyRt.len]; omega
    unfold GenFC.call_batch
    simp only [hl, Bool.false_eq_true, if_false, toAbs, hF.2 ps, Option.getD_some, toSt]
    rw [(dictUpdateZip_eq_dupdate ps (ps.map F.eval) g.f_dict hn).1]

/-! ### histories -/

/-- one operation on the generated definitions: new state and, for evaluations, the returned values -/
def genStep (A : GenFC.Abstract) (g : GenFC.State) : Op → GenFC.State × Option (List Val)
  | .single p => ((GenFC.call_point A g p).1, some [(GenFC.call_point A g p).2])
  | .batch ps => ((GenFC.call_batch A g ps).1, some (GenFC.call_batch A g ps).2)
  | .reset => (GenFC.reset_dictionary g, none)
  | .deactivate => (GenFC.deactivate_caching g, none)
  | .size => (g, none)

def genRun (A : GenFC.Abstract) : GenFC.State → List Op → GenFC.State × List (Option (List Val))
  | g, [] => (g, [])
  | g, o :: os => ((genRun A (genStep A g o).1 os).1, (genStep A g o).2 :: (genRun A (genStep A g o).1 os).2)

/-- `Function.__init__` -/
def genInit : GenFC.State := { f_dict := [], old_f_dict := [], do_cache := true }

/-- the invariant under which generated and hand model run in lock-step -/
def GInv (F : Fn) (g : GenFC.State) : Prop := Coherent F (toSt g) ∧ (keys g.f_dict).Nodup

theorem gen_step (F : Fn) (hF : WellDeclared F) (g : GenFC.State) (hg : GInv F g) (o : Op) (ha : o.accepted Cfg.current = true) :
    toSt (genStep (toAbs F) g o).1 = (step Cfg.current F (toSt g) o).1 ∧
    (genStep (toAbs F) g o).2 = (step Cfg.current F (toSt g) o).2.vals ∧
    GInv F (genStep (toAbs F) g o).1 := by
  have hco := step_coherent Cfg.current F (toSt g) o hF hg.1
  cases o with
  | single p =>
    have hp : p ≠ [] := by simpa [Op.accepted] using ha
    obtain ⟨miss, h⟩ := gen_call_point F g p hp hF hg.1 hg.2
    have h1 : toSt (GenFC.call_point (toAbs F) g p).1 = (single Cfg.current F (toSt g) p).1 := by rw [h]
    refine ⟨h1, by simp [genStep, step, h, Out.vals], ?_, gen_call_point_keys _ g p hg.2⟩
    show Coherent F (toSt (GenFC.call_point (toAbs F) g p).1)
    rw [h1]; exact hco
  | batch ps =>
    have h := gen_call_batch F g ps hF hg.2
    have h1 : toSt (GenFC.call_batch (toAbs F) g ps).1 = (batch Cfg.current F (toSt g) ps).1 := by rw [h]
    refine ⟨h1, by simp [genStep, step, h, Out.vals], ?_, gen_call_batch_keys _ g ps hg.2⟩
    show Coherent F (toSt (GenFC.call_batch (toAbs F) g ps).1)
    rw [h1]; exact hco
  | reset => exact ⟨rfl, rfl, ⟨by simp [Coherent, genStep, GenFC.reset_dictionary, toSt], by simp [genStep, GenFC.reset_dictionary, keys]⟩⟩
  | deactivate => exact ⟨rfl, rfl, ⟨hg.1, hg.2⟩⟩
  | size => exact ⟨rfl, rfl, hg⟩

theorem ginv_init (F : Fn) : GInv F genInit := ⟨coherent_init F, by simp [genInit, keys]⟩

theorem toSt_genInit : toSt genInit = St.init := rfl

/-- a whole history of generated calls runs in lock-step with the hand model -/
theorem gen_run (F : Fn) (hF : WellDeclared F) : ∀ (ops : List Op) (g : GenFC.State), GInv F g →
    (∀ o ∈ ops, o.accepted Cfg.current = true) →
    toSt (genRun (toAbs F) g ops).1 = (run Cfg.current F (toSt g) ops).1 ∧
    (genRun (toAbs F) g ops).2 = (run Cfg.current F (toSt g) ops).2.map Out.vals ∧
    GInv F (genRun (toAbs F) g ops).1
  | [], g, hg, _ => ⟨rfl, rfl, hg⟩
  | o :: os, g, hg, ha => by
    obtain ⟨h1, h2, h3⟩ := gen_step F hF g hg o (ha o (by simp))
    obtain ⟨i1, i2, i3⟩ := gen_run F hF os _ h3 (fun o' ho' => ha o' (by simp [ho']))
    simp only [genRun, run, List.map_cons]
    rw [← h1]
    exact ⟨i1, by rw [h2, i2], i3⟩

end SparseSpace.FuncCache
