import SparseSpace.Model.AdaptDriver
import Mathlib.Tactic.Linarith
import Mathlib.Algebra.Order.Field.Rat
/-! Lemmas about the adaptive-driver model: characterisation of the fuelled loop, simulation, resume. -/
namespace SparseSpace.Adapt

variable {S : Type}

/-! ### vocabulary -/

theorem iter_zero (M : Machine S) (s : S) : iter M s 0 = s := rfl

theorem iter_succ' (M : Machine S) (s : S) (i : Nat) : iter M s (i + 1) = iter M (M.refine (M.eval s).1) i := rfl

/-- unfolding at the back: the state before evaluation `i+1` is the refinement of the state after evaluation `i` -/
theorem iter_succ (M : Machine S) : ∀ (s : S) (i : Nat), iter M s (i + 1) = M.refine (stateAt M s i)
  | s, 0 => rfl
  | s, i + 1 => by
    have := iter_succ M (M.refine (M.eval s).1) i
    simpa [iter, stateAt] using this

theorem iter_add (M : Machine S) : ∀ (s : S) (i j : Nat), iter M s (i + j) = iter M (iter M s i) j
  | s, 0, j => by simp [iter]
  | s, i + 1, j => by
    have : i + 1 + j = (i + j) + 1 := by omega
    rw [this, iter_succ', iter_add M _ i j, iter_succ']

theorem obsAt_zero (M : Machine S) (s : S) : obsAt M s 0 = (M.eval s).2 := rfl

theorem obsAt_succ' (M : Machine S) (s : S) (j : Nat) :
    obsAt M s (j + 1) = obsAt M (M.refine (M.eval s).1) j := rfl

theorem stateAt_succ' (M : Machine S) (s : S) (j : Nat) :
    stateAt M s (j + 1) = stateAt M (M.refine (M.eval s).1) j := rfl

theorem obsAt_add (M : Machine S) (s : S) (i j : Nat) : obsAt M s (i + j) = obsAt M (iter M s i) j := by
  simp [obsAt, iter_add]

theorem stateAt_add (M : Machine S) (s : S) (i j : Nat) : stateAt M s (i + j) = stateAt M (iter M s i) j := by
  simp [stateAt, iter_add]

theorem obsList_length (M : Machine S) : ∀ (s : S) (n : Nat), (obsList M s n).length = n
  | _, 0 => rfl
  | s, n + 1 => by simp [obsList, obsList_length M _ n]

theorem obsList_getElem? (M : Machine S) : ∀ (s : S) (n i : Nat), i < n → (obsList M s n)[i]? = some (obsAt M s i)
  | _, 0, _, h => by omega
  | s, n + 1, 0, _ => by simp [obsList, obsAt, iter]
  | s, n + 1, i + 1, h => by
    have := obsList_getElem? M (M.refine (M.eval s).1) n i (by omega)
    simpa [obsList, obsAt_succ'] using this

theorem obsList_eq_map (M : Machine S) : ∀ (s : S) (n : Nat), obsList M s n = (List.range n).map (obsAt M s)
  | _, 0 => rfl
  | s, n + 1 => by
    rw [List.range_succ_eq_map, List.map_cons, List.map_map, obsList, obsList_eq_map M _ n]
    rfl

theorem obsList_succ_back (M : Machine S) (s : S) (n : Nat) :
    obsList M s (n + 1) = obsList M s n ++ [obsAt M s n] := by
  rw [obsList_eq_map, obsList_eq_map, List.range_succ, List.map_append]; rfl

theorem obsList_add (M : Machine S) : ∀ (s : S) (i j : Nat),
    obsList M s (i + j) = obsList M s i ++ obsList M (iter M s i) j
  | s, 0, j => by simp [obsList, iter]
  | s, i + 1, j => by
    have : i + 1 + j = (i + j) + 1 := by omega
    rw [this, obsList, obsList_add M _ i j, obsList, iter_succ', List.cons_append]

theorem pushAll_nil (h : Hist) : h.pushAll [] = h := rfl

theorem pushAll_cons (h : Hist) (o : Obs) (os : List Obs) : h.pushAll (o :: os) = (h.push o).pushAll os := rfl

theorem pushAll_append (h : Hist) (a b : List Obs) : h.pushAll (a ++ b) = (h.pushAll a).pushAll b := by
  simp [Hist.pushAll, List.foldl_append]

theorem pushAll_errs (h : Hist) : ∀ os : List Obs, (h.pushAll os).errs = h.errs ++ os.map (·.err) := by
  intro os
  induction os generalizing h with
  | nil => simp [Hist.pushAll]
  | cons o os ih => rw [pushAll_cons, ih]; simp [Hist.push]

theorem pushAll_pts (h : Hist) : ∀ os : List Obs, (h.pushAll os).pts = h.pts ++ os.map (·.pts) := by
  intro os
  induction os generalizing h with
  | nil => simp [Hist.pushAll]
  | cons o os ih => rw [pushAll_cons, ih]; simp [Hist.push]

theorem pushAll_surs (h : Hist) : ∀ os : List Obs, (h.pushAll os).surs = h.surs ++ os.map (·.sur) := by
  intro os
  induction os generalizing h with
  | nil => simp [Hist.pushAll]
  | cons o os ih => rw [pushAll_cons, ih]; simp [Hist.push]

/-! ### the loop -/

/-- complete characterisation of the fuelled loop: it returns iff some index below the fuel satisfies the stopping
rule, and then everything it returns is determined by the LEAST such index -/
theorem loop_eq_some_iff (M : Machine S) (L : Limits) : ∀ (fuel : Nat) (s : S) (h : Hist) (k : Nat) (r : Result S),
    loop M L fuel s h k = some r ↔
      ∃ i, i < fuel ∧ (∀ j, j < i → stopNow L (obsAt M s j) = false) ∧ stopNow L (obsAt M s i) = true ∧
        r = ⟨stateAt M s i, obsAt M s i, h.pushAll (obsList M s (i + 1)), k + i + 1, k + i⟩ := by
  intro fuel
  induction fuel with
  | zero => intro s h k r; simp [loop]
  | succ fuel ih =>
    intro s h k r
    by_cases hstop : stopNow L (M.eval s).2 = true
    · have hl : loop M L (fuel + 1) s h k = some ⟨(M.eval s).1, (M.eval s).2, h.push (M.eval s).2, k + 1, k⟩ := by
        simp [loop, hstop]
      rw [hl]
      constructor
      · intro hr
        refine ⟨0, by omega, by intro j hj; omega, hstop, ?_⟩
        have := Option.some.inj hr
        rw [← this]
        simp [stateAt, obsAt, iter, obsList, Hist.pushAll]
      · rintro ⟨i, _, hbefore, _, hr⟩
        cases i with
        | zero => rw [hr]; simp [stateAt, obsAt, iter, obsList, Hist.pushAll]
        | succ i =>
          have := hbefore 0 (by omega)
          rw [obsAt_zero] at this
          rw [this] at hstop
          exact absurd hstop (by simp)
    · have hstop' : stopNow L (M.eval s).2 = false := by simpa using hstop
      have hl : loop M L (fuel + 1) s h k = loop M L fuel (M.refine (M.eval s).1) (h.push (M.eval s).2) (k + 1) := by
        simp [loop, hstop']
      rw [hl, ih]
      constructor
      · rintro ⟨i, hi, hbefore, hat, hr⟩
        refine ⟨i + 1, by omega, ?_, by rw [obsAt_succ']; exact hat, ?_⟩
        · intro j hj
          cases j with
          | zero => exact hstop'
          | succ j => rw [obsAt_succ']; exact hbefore j (by omega)
        · rw [hr, stateAt_succ', obsAt_succ']
          have e1 : k + 1 + i + 1 = k + (i + 1) + 1 := by omega
          have e2 : k + 1 + i = k + (i + 1) := by omega
          rw [e1, e2]
          rfl
      · rintro ⟨i, hi, hbefore, hat, hr⟩
        cases i with
        | zero => rw [obsAt_zero] at hat; rw [hat] at hstop'; exact absurd hstop' (by simp)
        | succ i =>
          refine ⟨i, by omega, ?_, by rw [← obsAt_succ']; exact hat, ?_⟩
          · intro j hj
            have := hbefore (j + 1) (by omega)
            rwa [obsAt_succ'] at this
          · rw [hr, stateAt_succ', obsAt_succ']
            have e1 : k + 1 + i + 1 = k + (i + 1) + 1 := by omega
            have e2 : k + 1 + i = k + (i + 1) := by omega
            rw [e1, e2]
            rfl

theorem loop_eq_none_iff (M : Machine S) (L : Limits) (fuel : Nat) (s : S) (h : Hist) (k : Nat) :
    loop M L fuel s h k = none ↔ ∀ i, i < fuel → stopNow L (obsAt M s i) = false := by
  constructor
  · intro hn i hi
    -- least index argument by strong induction
    induction i using Nat.strong_induction_on with
    | _ i ihi =>
      by_contra hc
      have hc' : stopNow L (obsAt M s i) = true := by simpa using hc
      have : loop M L fuel s h k = some ⟨stateAt M s i, obsAt M s i, h.pushAll (obsList M s (i + 1)), k + i + 1, k + i⟩ :=
        (loop_eq_some_iff M L fuel s h k _).2 ⟨i, hi, fun j hj => ihi j hj (by omega), hc', rfl⟩
      rw [hn] at this
      exact absurd this (by simp)
  · intro hall
    cases hl : loop M L fuel s h k with
    | none => rfl
    | some r =>
      obtain ⟨i, hi, _, hat, _⟩ := (loop_eq_some_iff M L fuel s h k r).1 hl
      rw [hall i hi] at hat
      exact absurd hat (by simp)

/-- more fuel does not change a result -/
theorem loop_fuel_mono (M : Machine S) (L : Limits) (fuel fuel' : Nat) (s : S) (h : Hist) (k : Nat) (r : Result S)
    (hle : fuel ≤ fuel') (hr : loop M L fuel s h k = some r) : loop M L fuel' s h k = some r := by
  obtain ⟨i, hi, hb, hat, hrr⟩ := (loop_eq_some_iff M L fuel s h k r).1 hr
  exact (loop_eq_some_iff M L fuel' s h k r).2 ⟨i, by omega, hb, hat, hrr⟩

/-! ### simulation -/

/-- a relation preserved by `eval` (with equal observations) and by `refine` -/
structure Sim (M : Machine S) (R : S → S → Prop) : Prop where
  eval_obs : ∀ s t, R s t → (M.eval s).2 = (M.eval t).2
  eval_state : ∀ s t, R s t → R (M.eval s).1 (M.eval t).1
  refine : ∀ s t, R s t → R (M.refine s) (M.refine t)

theorem Sim.eq (M : Machine S) : Sim M (· = ·) :=
  ⟨fun _ _ h => by rw [h], fun _ _ h => by rw [h], fun _ _ h => by rw [h]⟩

theorem Sim.iter {M : Machine S} {R : S → S → Prop} (hS : Sim M R) :
    ∀ (i : Nat) (s t : S), R s t → R (iter M s i) (iter M t i)
  | 0, _, _, h => h
  | i + 1, _, _, h => Sim.iter hS i _ _ (hS.refine _ _ (hS.eval_state _ _ h))

theorem Sim.obsAt {M : Machine S} {R : S → S → Prop} (hS : Sim M R) (i : Nat) (s t : S) (h : R s t) :
    obsAt M s i = obsAt M t i := hS.eval_obs _ _ (hS.iter i s t h)

theorem Sim.stateAt {M : Machine S} {R : S → S → Prop} (hS : Sim M R) (i : Nat) (s t : S) (h : R s t) :
    R (stateAt M s i) (stateAt M t i) := hS.eval_state _ _ (hS.iter i s t h)

theorem Sim.obsList {M : Machine S} {R : S → S → Prop} (hS : Sim M R) (n : Nat) (s t : S) (h : R s t) :
    obsList M s n = obsList M t n := by
  rw [obsList_eq_map, obsList_eq_map]
  exact List.map_congr_left (fun i _ => hS.obsAt i s t h)

/-! ### limits -/

theorem stop_of_grow {L1 L2 : Limits} (hg : L1.grow L2) (o : Obs) (h : stopNow L2 o = true) : stopNow L1 o = true := by
  obtain ⟨ht, hm, hx⟩ := hg
  unfold stopNow at h ⊢
  rw [Bool.or_eq_true] at h ⊢
  rcases h with h | h
  · left
    rw [Bool.and_eq_true, decide_eq_true_eq, decide_eq_true_eq] at h ⊢
    exact ⟨le_trans h.1 ht, le_trans hm h.2⟩
  · right
    cases h2 : L2.maxE with
    | none => rw [h2] at h; exact absurd h (by simp)
    | some m2 =>
      rw [h2] at h hx
      cases h1 : L1.maxE with
      | none => rw [h1] at hx; exact absurd hx (by simp)
      | some m1 =>
        rw [h1] at hx
        simp only [decide_eq_true_eq] at h ⊢
        exact lt_of_le_of_lt hx h

end SparseSpace.Adapt
