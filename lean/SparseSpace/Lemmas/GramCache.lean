import SparseSpace.Model.DensityCache
import SparseSpace.Lemmas.GramPD
/-! C17: memo tables are transparent; the key of `old_R` determines the entry; reuse of matrix entries changes nothing. -/
namespace SparseSpace.DCache
open SparseSpace.Gram

/-! ### memo tables -/

theorem lookup_append {K V : Type} [DecidableEq K] (c : List (K × V)) (k : K) (v : V) (q : K) :
    lookup (c ++ [(k, v)]) q = match lookup c q with
      | some x => some x
      | none => if k = q then some v else none := by
  induction c with
  | nil => simp [lookup]
  | cons e t ih =>
    obtain ⟨k', v'⟩ := e
    simp only [List.cons_append, lookup]
    by_cases h : k' = q
    · rw [if_pos h, if_pos h]
    · rw [if_neg h, if_neg h]; exact ih

/-- invariant of a memo table for requests satisfying `P`: every stored value is the value of some admissible request
    with that key -/
def TableOK {α K V : Type} [DecidableEq K] (P : α → Prop) (key : α → K) (f : α → V) (c : List (K × V)) : Prop :=
  ∀ k v, lookup c k = some v → ∃ a, P a ∧ key a = k ∧ f a = v

theorem tableOK_nil {α K V : Type} [DecidableEq K] (P : α → Prop) (key : α → K) (f : α → V) : TableOK P key f [] := by
  intro k v h; simp [lookup] at h

/-- **memo transparency**: if the key determines the value on admissible requests, then a table that satisfies the
    invariant answers EVERY sequence of admissible requests exactly like the function itself, and keeps the invariant —
    whatever was looked up before -/
theorem memoMap_transparent {α K V : Type} [DecidableEq K] (P : α → Prop) (key : α → K) (f : α → V)
    (hkey : ∀ a a', P a → P a' → key a = key a' → f a = f a') :
    ∀ (as : List α) (c : List (K × V)), TableOK P key f c → (∀ a ∈ as, P a) →
      (memoMap key f c as).1 = as.map f ∧ TableOK P key f (memoMap key f c as).2
  | [], c, hc, _ => ⟨rfl, hc⟩
  | a :: as, c, hc, hP => by
    have hPa : P a := hP a List.mem_cons_self
    have hPas : ∀ b ∈ as, P b := fun b hb => hP b (List.mem_cons_of_mem _ hb)
    simp only [memoMap, List.map_cons]
    cases hl : lookup c (key a) with
    | some v =>
      obtain ⟨a', hPa', hk, hv⟩ := hc (key a) v hl
      have hfa : f a = v := by rw [← hv]; exact hkey a a' hPa hPa' hk.symm
      have step : memoStep key f c a = (v, c) := by simp [memoStep, hl]
      rw [step]
      have ih := memoMap_transparent P key f hkey as c hc hPas
      exact ⟨by rw [ih.1, hfa], ih.2⟩
    | none =>
      have step : memoStep key f c a = (f a, c ++ [(key a, f a)]) := by simp [memoStep, hl]
      rw [step]
      have hc' : TableOK P key f (c ++ [(key a, f a)]) := by
        intro k v hkv
        rw [lookup_append] at hkv
        cases hl2 : lookup c k with
        | some x =>
          rw [hl2] at hkv
          simp only [Option.some.injEq] at hkv
          subst hkv
          exact hc k x hl2
        | none =>
          rw [hl2] at hkv
          simp only at hkv
          split_ifs at hkv with hk
          · simp only [Option.some.injEq] at hkv
            exact ⟨a, hPa, hk, hkv⟩
      have ih := memoMap_transparent P key f hkey as _ hc' hPas
      exact ⟨by rw [ih.1], ih.2⟩

/-! ### the key of `old_R` -/

def W1 (a b : Hat1) : ℚ := rabs (rmin a.hi b.hi - rmax a.lo b.lo)
def D1 (a b : Hat1) : ℚ := rabs (a.p - b.p)
def c1 (d : ℚ) : ℚ := if d = 0 then 1 / 3 else 1 / 6

theorem pair_cases (nodes : List ℚ) (hs : nodes.Pairwise (· < ·)) (a b : Hat1) (ha : a ∈ hats1D nodes) (hb : b ∈ hats1D nodes) :
    a = b ∨ Ordered1 a b ∨ Ordered1 b a := by
  have hp := hats1D_ordered nodes hs
  exact List.Pairwise.forall_of_forall_of_flip (R := fun a b => a = b ∨ Ordered1 a b ∨ Ordered1 b a) (l := hats1D nodes)
    (fun _ _ => Or.inl rfl) (hp.imp fun {a b} h => Or.inr (Or.inl h)) (hp.imp fun {a b} h => Or.inr (Or.inr h)) ha hb

/-- one dimension: when the adjacency test passes, the factor is `width · (1/3 or 1/6)` -/
theorem rValue1_key (nodes : List ℚ) (hs : nodes.Pairwise (· < ·)) (a b : Hat1) (ha : a ∈ hats1D nodes) (hb : b ∈ hats1D nodes)
    (ht : a.lo ≤ b.p ∧ b.p ≤ a.hi) : rValue1 a b = W1 a b * c1 (D1 a b) := by
  unfold W1 D1 c1
  simp only [rabs_eq_abs, rmin_eq_min, rmax_eq_max]
  rcases pair_cases nodes hs a b ha hb with rfl | h | h
  · have v := hats1D_valid nodes hs a ha
    rw [rValue1_same a a rfl rfl v.1 v.2, min_self, max_self, sub_self, abs_zero, if_pos rfl, abs_of_pos (by linarith [v.1, v.2])]
    ring
  · obtain ⟨a1, a2, b1, b2, h1, h2, h3⟩ := h
    have e1 : a.hi = b.p := le_antisymm h1 ht.2
    have e2 : a.p = b.lo := h3.mp e1
    rw [rValue1_adj a b (by intro e; linarith), min_eq_left (by linarith), max_eq_right (by linarith),
      if_neg (by rw [abs_eq_zero]; intro e; linarith), ← e2, e1, abs_of_neg (by linarith : a.p - b.p < 0),
      abs_of_pos (by linarith : 0 < b.p - a.p)]
    ring
  · obtain ⟨b1, b2, a1, a2, h1, h2, h3⟩ := h
    have e2 : b.p = a.lo := le_antisymm h2 ht.1
    have e1 : b.hi = a.p := h3.mpr e2
    rw [rValue1_adj a b (by intro e; linarith), min_eq_right (by linarith), max_eq_left (by linarith),
      if_neg (by rw [abs_eq_zero]; intro e; linarith), e1, ← e2, abs_of_pos (by linarith : 0 < a.p - b.p)]
    ring

theorem lprod_perm {l1 l2 : List ℚ} (h : l1.Perm l2) : lprod l1 = lprod l2 := by
  induction h with
  | nil => rfl
  | cons x _ ih => simp [lprod, ih]
  | swap x y l => simp only [lprod]; ring
  | trans _ _ ih1 ih2 => rw [ih1, ih2]

theorem insertRat_perm (a : ℚ) : ∀ t : List ℚ, (insertRat a t).Perm (a :: t)
  | [] => List.Perm.refl _
  | b :: t => by
    unfold insertRat
    split_ifs
    · exact List.Perm.refl _
    · exact ((insertRat_perm a t).cons b).trans (List.Perm.swap a b t)

theorem sortRat_perm : ∀ l : List ℚ, (sortRat l).Perm l
  | [] => List.Perm.refl _
  | a :: l => by
    unfold sortRat
    rw [List.foldr_cons]
    exact (insertRat_perm a _).trans ((sortRat_perm l).cons a)

theorem lprod_sortRat (l : List ℚ) : lprod (sortRat l) = lprod l := lprod_perm (sortRat_perm l)

theorem lprod_map_sortRat (g : ℚ → ℚ) (l : List ℚ) : lprod ((sortRat l).map g) = lprod (l.map g) :=
  lprod_perm ((sortRat_perm l).map g)

theorem rProd_key : ∀ (stripes : List (List ℚ)), (∀ s ∈ stripes, s.Pairwise (· < ·)) →
    ∀ I ∈ hatsRaw stripes, ∀ J ∈ hatsRaw stripes, adjacent I J = true →
      rProd I J = lprod (List.zipWith W1 I J) * lprod ((List.zipWith D1 I J).map c1)
  | [], _, I, hI, J, hJ, _ => by
    simp only [hatsRaw, List.map_nil, cross, List.mem_singleton] at hI hJ
    subst hI hJ
    simp [rProd, lprod]
  | s :: rest, hs, I, hI, J, hJ, hadj => by
    obtain ⟨a, I', rfl, ha, hI'⟩ := mem_hatsRaw_cons hI
    obtain ⟨b, J', rfl, hb, hJ'⟩ := mem_hatsRaw_cons hJ
    simp only [adjacent, Bool.and_eq_true, decide_eq_true_eq] at hadj
    simp only [rProd, List.zipWith_cons_cons, List.map_cons, lprod]
    rw [rValue1_key s (hs s List.mem_cons_self) a b ha hb hadj.1,
      rProd_key rest (fun s' h => hs s' (List.mem_cons_of_mem _ h)) I' hI' J' hJ' hadj.2]
    ring

/-- **the cache key determines the entry**: for hats of a tensor grid the analytically computed entry is a function of
    the key `(adjacent?, sorted overlap widths, sorted centre distances)` alone -/
theorem key_determines_entry (stripes : List (List ℚ)) (hs : ∀ s ∈ stripes, s.Pairwise (· < ·))
    (I J : List Hat1) (hI : I ∈ hatsRaw stripes) (hJ : J ∈ hatsRaw stripes) :
    rValue I J = keyValue (overlapKey I J) := by
  unfold rValue overlapKey keyValue
  by_cases hadj : adjacent I J = true
  · rw [if_pos hadj, if_pos hadj]
    simp only [if_true]
    rw [rProd_key stripes hs I hI J hJ hadj]
    have e1 := lprod_sortRat (List.zipWith W1 I J)
    have e2 := lprod_map_sortRat c1 (List.zipWith D1 I J)
    unfold W1 at e1
    unfold D1 c1 at e2
    unfold W1 D1 c1
    rw [e1, e2]
  · rw [if_neg hadj, if_neg hadj]
    simp


/-! ### reuse of matrix entries -/

theorem length_upperPairs_head {α : Type} (h : α) (t : List α) : ((h :: t).map fun J => (h, J)).length = t.length + 1 := by simp

/-- the values computed in loop order, put back into the matrix, are the matrix of the direct double loop -/
theorem assemble_upperPairs {α : Type} (f : α → α → ℚ) (lam : ℚ) : ∀ hs : List α,
    assemble lam hs.length ((upperPairs hs).map fun p => f p.1 p.2) = symFill f lam hs
  | [] => by simp [assemble, symFill]
  | h :: t => by
    have ih := assemble_upperPairs f lam t
    simp only [List.length_cons, upperPairs, List.map_append, List.map_map, List.map_cons]
    rw [assemble]
    have hlen : (f h h :: t.map ((fun p : α × α => f p.1 p.2) ∘ fun J => (h, J))).length = t.length + 1 := by simp
    rw [List.take_left' hlen, List.drop_left' hlen]
    simp only [symFill]
    rw [ih, List.zipWith_map_left]
    rfl

theorem mem_upperPairs {α : Type} : ∀ (hs : List α) (p : α × α), p ∈ upperPairs hs → p.1 ∈ hs ∧ p.2 ∈ hs
  | [], p, h => by simp [upperPairs] at h
  | a :: t, p, h => by
    simp only [upperPairs, List.mem_append, List.mem_map] at h
    rcases h with ⟨J, hJ, rfl⟩ | h
    · exact ⟨List.mem_cons_self, hJ⟩
    · have := mem_upperPairs t p h
      exact ⟨List.mem_cons_of_mem _ this.1, List.mem_cons_of_mem _ this.2⟩

/-- a pair of hats of one tensor grid (any grid of strictly increasing stripes) -/
def GridPair (p : List Hat1 × List Hat1) : Prop :=
  ∃ stripes : List (List ℚ), (∀ s ∈ stripes, s.Pairwise (· < ·)) ∧ p.1 ∈ hatsRaw stripes ∧ p.2 ∈ hatsRaw stripes

/-- equal keys, equal entries — also across DIFFERENT grids (old_R lives through all component grids and refinement steps) -/
theorem equal_keys_equal_entries (p q : List Hat1 × List Hat1) (hp : GridPair p) (hq : GridPair q)
    (hk : overlapKey p.1 p.2 = overlapKey q.1 q.2) : rValue p.1 p.2 = rValue q.1 q.2 := by
  obtain ⟨s1, h1, a1, b1⟩ := hp
  obtain ⟨s2, h2, a2, b2⟩ := hq
  rw [key_determines_entry s1 h1 p.1 p.2 a1 b1, key_determines_entry s2 h2 q.1 q.2 a2 b2, hk]

/-- invariant of `old_R` -/
def RCacheOK (c : List (Key × ℚ)) : Prop :=
  TableOK GridPair (fun p : List Hat1 × List Hat1 => overlapKey p.1 p.2) (fun p => rValue p.1 p.2) c

/-- **reuse of matrix entries is transparent**: with ANY cache content reachable by earlier evaluations the matrix built
    through `old_R` is the matrix built without it, and the cache keeps its invariant -/
theorem buildRDWreuse_transparent (c : List (Key × ℚ)) (hc : RCacheOK c) (stripes : List (List ℚ))
    (hv : ∀ s ∈ stripes, UnitStripe s) (lam : ℚ) :
    (buildRDWreuse c stripes lam).1 = buildRDW stripes lam ∧ RCacheOK (buildRDWreuse c stripes lam).2 := by
  have hs : ∀ s ∈ stripes, s.Pairwise (· < ·) := fun s h => (hv s h).1
  have hP : ∀ p ∈ upperPairs (hatsND stripes), GridPair p := by
    intro p hp
    have := mem_upperPairs _ p hp
    rw [hatsND_eq_hatsRaw stripes hv] at this
    exact ⟨stripes, hs, this.1, this.2⟩
  have m := memoMap_transparent GridPair (fun p : List Hat1 × List Hat1 => overlapKey p.1 p.2) (fun p => rValue p.1 p.2)
    (fun p q hp hq hk => equal_keys_equal_entries p q hp hq hk) (upperPairs (hatsND stripes)) c hc hP
  unfold buildRDWreuse buildRDW
  simp only
  exact ⟨by rw [m.1]; exact assemble_upperPairs rValue lam (hatsND stripes), m.2⟩

/-- the matrices of a whole history of component-grid evaluations (with `post_processing` wherever the flag says so) -/
def matrices (reuse : Bool) (lam : ℚ) (data : List (List ℚ)) (sg : List ℚ) (sidx : List (List ℕ)) :
    Cache → List (List (List ℚ) × List ℤ × Bool) → List (List (List ℚ))
  | _, [] => []
  | c, (st, ml, post) :: rest =>
    let r := evalGrid reuse c st ml lam data sg sidx
    r.1.1 :: matrices reuse lam data sg sidx (if post then postProcessing reuse r.2 else r.2) rest

/-- **for every refinement history** the system matrices with reuse switched on equal those with reuse switched off -/
theorem matrices_reuse_eq (lam : ℚ) (data : List (List ℚ)) (sg : List ℚ) (sidx : List (List ℕ)) :
    ∀ (hist : List (List (List ℚ) × List ℤ × Bool)), (∀ e ∈ hist, ∀ s ∈ e.1, UnitStripe s) →
      ∀ c c' : Cache, RCacheOK c.oldR →
        matrices true lam data sg sidx c hist = matrices false lam data sg sidx c' hist
  | [], _, _, _, _ => rfl
  | (st, ml, post) :: rest, hv, c, c', hc => by
    have t := buildRDWreuse_transparent c.oldR hc st (hv (st, ml, post) List.mem_cons_self) lam
    simp only [matrices, evalGrid, if_true]
    congr 1
    · exact t.1
    · apply matrices_reuse_eq lam data sg sidx rest (fun e he => hv e (List.mem_cons_of_mem _ he))
      cases post <;> simp [postProcessing] <;> exact t.2


end SparseSpace.DCache
