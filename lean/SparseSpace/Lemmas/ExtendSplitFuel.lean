import SparseSpace.Lemmas.ExtendSplitV0
/-!
# The fuel of the `while coarsening > 0` loop of versions 1 and 2 suffices (C07)

Every round lowers `coarsening` by the number of maxima of a non-empty level vector (≥ 1), so `coarsening` rounds
are enough: more fuel does not change the result.  (The loop of version 0 lowers `coarsening` by exactly 1 per
round; its model `v0Loop` counts `coarsening` itself down.)
-/
namespace SparseSpace

theorem countEq_lvMax_pos (t : LV) (h : t ≠ []) : 1 ≤ countEq (lvMax t) t := by
  unfold countEq
  have hm := lvMax_mem t h
  have : lvMax t ∈ t.filter (· == lvMax t) := by
    rw [List.mem_filter]; exact ⟨hm, by simp⟩
  exact List.length_pos_of_mem this

theorem decAll_ne_nil (m : Int) (t : LV) (h : t ≠ []) : decAll m t ≠ [] := by
  unfold decAll
  intro h0
  exact h (List.map_eq_nil_iff.1 h0)

theorem v12Loop_fuel_succ (version dim : Nat) (lmin lmax cSave : Int) (topDiag : Bool) :
    ∀ (f : Nat) (c : Int) (t : LV), t ≠ [] → c ≤ f →
      v12Loop version dim lmin lmax cSave topDiag (f + 1) c t = v12Loop version dim lmin lmax cSave topDiag f c t := by
  intro f
  induction f with
  | zero =>
    intro c t _ hc
    have : ¬ c > 0 := by simpa using hc
    simp only [v12Loop, this, if_false]
  | succ f ih =>
    intro c t ht hc
    rw [v12Loop, v12Loop]
    by_cases hpos : c > 0
    · simp only [hpos, if_true]
      by_cases hm : (lvMax t == lmin) = true
      · simp only [hm, if_true]
      · simp only [hm]
        have hocc := countEq_lvMax_pos t ht
        have hocc' : (1 : Int) ≤ (countEq (lvMax t) t : Nat) := by exact_mod_cast hocc
        have hc' : c ≤ (f : Int) + 1 := by exact_mod_cast hc
        have hle : c - ((countEq (lvMax t) t : Nat) : Int) ≤ (f : Int) := by omega
        rw [ih (c - ((countEq (lvMax t) t : Nat) : Int)) (decAll (lvMax t) t) (decAll_ne_nil _ t ht) hle]
    · simp only [hpos, if_false]

/-- any amount of fuel `≥ coarsening` gives the result of `coarsening` rounds of fuel -/
theorem v12Loop_fuel (version dim : Nat) (lmin lmax cSave : Int) (topDiag : Bool) (c : Int) (t : LV) (ht : t ≠ []) :
    ∀ k : Nat, v12Loop version dim lmin lmax cSave topDiag (c.toNat + k) c t
      = v12Loop version dim lmin lmax cSave topDiag c.toNat c t := by
  intro k
  induction k with
  | zero => rfl
  | succ k ih =>
    rw [← Nat.add_assoc, v12Loop_fuel_succ version dim lmin lmax cSave topDiag _ c t ht (by push_cast; omega), ih]

end SparseSpace
