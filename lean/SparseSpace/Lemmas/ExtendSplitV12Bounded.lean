import SparseSpace.Lemmas.ExtendSplitLocal
/-!
# Versions 1 and 2 of `coarsen_grid` with `lmin = 1`: exhaustive kernel evaluation on a finite parameter box (C07)

What an area computes depends only on `(version, dim, lmin, lmax, coarsening)` (fresh `levelvec_dict`), not on the
refinement history.  For `lmin = 1`, `dim ∈ {2,3,4}`, `lmax ≤ 5` and EVERY coarsening `0 ≤ c ≤ lmax` the executable
validity check `localValid` evaluates to `true` — checked here by the kernel (`decide`) for all 2·3·20 parameter
tuples, so this is a theorem about the whole finite box (every history whose `lmax` stays `≤ 5`), not a sample.
It is NOT the statement for all `dim`, `lmax`: that one is open (see handoff; `#eval` finds no counterexample for
`dim ≤ 5`, `lmax ≤ 7`).  Unlike version 0, versions 1 and 2 do not compute a standard scheme in general
(e.g. `computed 1 3 1 4 1` is the combination of the index set `{l ≤ (2,2,2)} ∪ {(3,1,1),(1,3,1),(1,1,3)}`).
-/
namespace SparseSpace

def v12Box (dims : List Nat) (L : Nat) : Bool :=
  [1, 2].all fun ver => dims.all fun dim => (List.range L).all fun (l : Nat) => (List.range (l + 2)).all fun (c : Nat) =>
    localValid dim 1 (computed ver dim 1 ((l : Int) + 1) (c : Int))

set_option maxRecDepth 100000 in
theorem v12Box_234_5 : v12Box [2, 3, 4] 5 = true := by decide

theorem v12_localValid_lmin1_bounded (ver dim : Nat) (lmax c : Int) (hv : ver = 1 ∨ ver = 2)
    (hd : 2 ≤ dim ∧ dim ≤ 4) (hl : 1 ≤ lmax ∧ lmax ≤ 5) (hc : 0 ≤ c ∧ c ≤ lmax) :
    localValid dim 1 (computed ver dim 1 lmax c) = true := by
  have h := v12Box_234_5
  simp only [v12Box, List.all_eq_true, List.mem_range, List.mem_cons, List.not_mem_nil, or_false] at h
  obtain ⟨l, rfl⟩ : ∃ l : Nat, lmax = (l : Int) + 1 := ⟨(lmax - 1).toNat, by omega⟩
  obtain ⟨c', rfl⟩ : ∃ c' : Nat, c = (c' : Int) := ⟨c.toNat, by omega⟩
  exact h ver hv dim (by omega) l (by omega) c' (by omega)

end SparseSpace
