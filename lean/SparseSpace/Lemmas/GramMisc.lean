import SparseSpace.Lemmas.GramHat
import SparseSpace.Lemmas.GramPD
/-! C16: d-dimensional hats, diagonal (mass lumping), normalisation of the surpluses. -/
namespace SparseSpace.Gram

/-! ### d-dimensional hats: products of the 1-D factors -/

def hatSpecND (h : List Hat1) (x : List ℚ) : ℚ := lprod (List.zipWith hatSpec h x)

theorem lprod_zipWith_congr (f g : Hat1 → ℚ → ℚ) :
    ∀ (h : List Hat1) (x : List ℚ), (∀ a c, (a, c) ∈ h.zip x → f a c = g a c) →
      lprod (List.zipWith f h x) = lprod (List.zipWith g h x)
  | [], _, _ => by simp
  | _ :: _, [], _ => by simp
  | a :: h, c :: x, hyp => by
    simp only [List.zipWith_cons_cons, lprod]
    rw [hyp a c (by simp), lprod_zipWith_congr f g h x (fun a' c' hm => hyp a' c' (by simp [hm]))]

/-- scalar and completely vectorised evaluation agree with the specification at EVERY point -/
theorem hatNS_eq_spec (h : List Hat1) (x : List ℚ) (hv : ∀ a ∈ h, a.lo < a.p ∧ a.p < a.hi) : hatNS h x = hatSpecND h x :=
  lprod_zipWith_congr _ _ h x fun a c hm => hatNS1_eq_spec a (hv a (List.of_mem_zip hm).1).1 (hv a (List.of_mem_zip hm).1).2 c

theorem hatCV_eq_spec (h : List Hat1) (x : List ℚ) (hv : ∀ a ∈ h, a.lo < a.p ∧ a.p < a.hi) : hatCV h x = hatSpecND h x :=
  lprod_zipWith_congr _ _ h x fun a c hm => hatCV1_eq_spec a (hv a (List.of_mem_zip hm).1).1 (hv a (List.of_mem_zip hm).1).2 c

/-- the vectorised evaluation (switches by `np.ceil`, no clipping) agrees on the closed support -/
theorem hatV_eq_spec (h : List Hat1) (x : List ℚ)
    (hv : ∀ a ∈ h, a.lo < a.p ∧ a.p < a.hi ∧ a.p - a.lo < 1 ∧ a.hi - a.p < 1)
    (hx : ∀ a c, (a, c) ∈ h.zip x → a.lo ≤ c ∧ c ≤ a.hi) : hatV h x = hatSpecND h x :=
  lprod_zipWith_congr _ _ h x fun a c hm =>
    have v := hv a (List.of_mem_zip hm).1
    hatV1_eq_spec a v.1 v.2.1 v.2.2.1 v.2.2.2 c (hx a c hm).1 (hx a c hm).2

theorem hatsRaw_valid : ∀ (stripes : List (List ℚ)), (∀ s ∈ stripes, s.Pairwise (· < ·)) →
    ∀ I ∈ hatsRaw stripes, ∀ a ∈ I, a.lo < a.p ∧ a.p < a.hi
  | [], _, I, hI, a, ha => by
    simp only [hatsRaw, List.map_nil, cross, List.mem_singleton] at hI
    subst hI; simp at ha
  | s :: rest, hs, I, hI, a, ha => by
    obtain ⟨b, I', rfl, hb, hI'⟩ := mem_hatsRaw_cons hI
    rcases List.mem_cons.mp ha with rfl | ha
    · exact hats1D_valid s (hs s List.mem_cons_self) a hb
    · exact hatsRaw_valid rest (fun s' h => hs s' (List.mem_cons_of_mem _ h)) I' hI' a ha

/-! ### diagonal -/

theorem zipWith_snd_eq {α β : Type} : ∀ (t : List α) (M : List β), t.length = M.length → List.zipWith (fun _ m => m) t M = M
  | [], [], _ => rfl
  | [], _ :: _, h => by simp at h
  | _ :: _, [], h => by simp at h
  | _ :: t, m :: M, h => by simp [zipWith_snd_eq t M (by simpa using h)]

/-- the diagonal of a matrix given as a list of rows -/
def diagOf : List (List ℚ) → List ℚ
  | [] => []
  | row :: rows => row.headD 0 :: diagOf (rows.map List.tail)
termination_by l => l.length
decreasing_by simp

theorem diagOf_symFill {α : Type} (f : α → α → ℚ) (lam : ℚ) : ∀ hs : List α,
    diagOf (symFill f lam hs) = hs.map fun h => f h h + lam
  | [] => by simp [symFill, diagOf]
  | h :: t => by
    rw [symFill, diagOf]
    simp only [List.headD_cons, List.map_cons, List.map_zipWith, List.tail_cons]
    rw [zipWith_snd_eq t (symFill f lam t) (length_symFill f lam t).symm, diagOf_symFill f lam t]

/-! ### normalisation -/

theorem dot_map_div (c : ℚ) : ∀ (a w : List ℚ), dot (a.map (· / c)) w = dot a w / c
  | [], _ => by simp [dot]
  | _ :: _, [] => by simp [dot]
  | x :: a, y :: w => by
    simp only [List.map_cons, dot_cons, dot_map_div c a w]; ring

theorem posPart_map_div (c : ℚ) (hc : 0 < c) (a : List ℚ) : posPart (a.map (· / c)) = (posPart a).map (· / c) := by
  unfold posPart
  simp only [List.map_map]
  apply List.map_congr_left
  intro v _
  simp only [Function.comp, rmax_eq_max]
  rcases le_total v 0 with h | h
  · rw [max_eq_right h, max_eq_right (div_nonpos_of_nonpos_of_nonneg h hc.le), zero_div]
  · rw [max_eq_left h, max_eq_left (div_nonneg h hc.le)]

theorem dot_nonneg : ∀ (a w : List ℚ), (∀ v ∈ a, 0 ≤ v) → (∀ v ∈ w, 0 ≤ v) → 0 ≤ dot a w
  | [], _, _, _ => by simp [dot]
  | _ :: _, [], _, _ => by simp [dot]
  | x :: a, y :: w, ha, hw => by
    rw [dot_cons]
    have := dot_nonneg a w (fun v h => ha v (List.mem_cons_of_mem _ h)) (fun v h => hw v (List.mem_cons_of_mem _ h))
    have := mul_nonneg (ha x List.mem_cons_self) (hw y List.mem_cons_self)
    linarith

theorem posPart_nonneg (a : List ℚ) : ∀ v ∈ posPart a, 0 ≤ v := by
  intro v hv
  obtain ⟨u, _, rfl⟩ := List.mem_map.mp hv
  rw [rmax_eq_max]; exact le_max_right _ _

/-- **normalisation clause** (quadrature-weighted form): whenever the weighted mean of the positive parts is non-zero,
    the returned surpluses have weighted mean of positive parts exactly 1 -/
theorem normaliseW_mean_one (classes : Bool) (w alpha : List ℚ) (hw : ∀ v ∈ w, 0 ≤ v) (hsum : 0 < w.sum) :
    let a1 := if classes then alpha.map (· - dot alpha w / w.sum) else alpha
    dot (posPart a1) w / w.sum ≠ 0 → dot (posPart (normaliseW classes w alpha)) w / w.sum = 1 := by
  intro a1 hne
  have hnn : 0 ≤ dot (posPart a1) w / w.sum := div_nonneg (dot_nonneg _ _ (posPart_nonneg a1) hw) hsum.le
  have hpos : 0 < dot (posPart a1) w / w.sum := lt_of_le_of_ne hnn (Ne.symm hne)
  have e : normaliseW classes w alpha = a1.map (· / (dot (posPart a1) w / w.sum)) := by
    unfold normaliseW
    simp only
    rw [if_neg hne]
  rw [e, posPart_map_div _ hpos, dot_map_div]
  have h1 : dot (posPart a1) w ≠ 0 := by
    intro h0; apply hne; rw [h0, zero_div]
  have h2 : w.sum ≠ 0 := ne_of_gt hsum
  field_simp

theorem sum_eq_dot_ones : ∀ (a : List ℚ), a.sum = dot a (List.replicate a.length 1)
  | [] => by simp [dot]
  | x :: a => by rw [List.sum_cons, List.length_cons, List.replicate_succ, dot_cons, ← sum_eq_dot_ones a]; ring

/-- **normalisation clause** (uniform grids, plain mean) -/
theorem normaliseU_mean_one (classes : Bool) (alpha : List ℚ) (hlen : alpha ≠ []) :
    let a1 := if classes then alpha.map (· - alpha.sum / (alpha.length : ℚ)) else alpha
    (posPart a1).sum / (a1.length : ℚ) ≠ 0 →
      (posPart (normaliseU classes alpha)).sum / ((normaliseU classes alpha).length : ℚ) = 1 := by
  intro a1 hne
  have hl : a1.length = alpha.length := by
    simp only [a1]; split_ifs <;> simp
  have hlpos : (0 : ℚ) < (a1.length : ℚ) := by
    rw [hl]; exact_mod_cast List.length_pos_of_ne_nil hlen
  have hnn : 0 ≤ (posPart a1).sum / (a1.length : ℚ) :=
    div_nonneg (List.sum_nonneg (posPart_nonneg a1)) hlpos.le
  have hpos : 0 < (posPart a1).sum / (a1.length : ℚ) := lt_of_le_of_ne hnn (Ne.symm hne)
  have e : normaliseU classes alpha = a1.map (· / ((posPart a1).sum / (a1.length : ℚ))) := by
    unfold normaliseU
    simp only
    rw [if_neg hne]
  rw [e, posPart_map_div _ hpos, List.length_map]
  have : ((posPart a1).map (· / ((posPart a1).sum / (a1.length : ℚ)))).sum = (posPart a1).sum / ((posPart a1).sum / (a1.length : ℚ)) := by
    rw [sum_eq_dot_ones, List.length_map, dot_map_div, ← sum_eq_dot_ones]
  rw [this]
  have h1 : (posPart a1).sum ≠ 0 := by
    intro h0; apply hne; rw [h0, zero_div]
  field_simp

end SparseSpace.Gram
