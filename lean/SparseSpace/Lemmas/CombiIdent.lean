import SparseSpace.Lemmas.CombiCoeff
/-! The inclusion–exclusion identity, support and total of the coefficients (C01). -/
namespace SparseSpace

theorem mem_stencils : ∀ (lmin : Int) (g st : LV), st ∈ stencils lmin g →
    st.length = g.length ∧ (∀ x ∈ st, x = 0 ∨ x = -1) ∧
    (geAll lmin g → geAll lmin (List.zipWith (· + ·) g st)) ∧
    leAll (List.zipWith (· + ·) g st) g = true
  | lmin, [], st, h => by
    simp only [stencils, List.mem_singleton] at h
    subst h
    simp [geAll, leAll]
  | lmin, g :: gs, st, h => by
    simp only [stencils, List.mem_flatMap, List.mem_map] at h
    obtain ⟨s, hs, st', hst', rfl⟩ := h
    obtain ⟨h1, h2, h3, h4⟩ := mem_stencils lmin gs st' hst'
    have hs' : s = 0 ∨ (s = -1 ∧ lmin < g) := by
      split at hs
      · simp at hs; exact Or.inl hs
      · simp at hs
        rcases hs with hs | hs
        · exact Or.inl hs
        · exact Or.inr ⟨hs, by omega⟩
    refine ⟨by simp [h1], ?_, ?_, ?_⟩
    · intro x hx
      simp only [List.mem_cons] at hx
      rcases hx with rfl | hx
      · rcases hs' with h | h
        · exact Or.inl h
        · exact Or.inr h.1
      · exact h2 x hx
    · intro hg
      rw [List.zipWith_cons_cons, geAll_cons]
      rw [geAll_cons] at hg
      exact ⟨by omega, h3 hg.2⟩
    · simp only [List.zipWith_cons_cons, leAll, h4, Bool.and_true, decide_eq_true_eq]
      omega

theorem foldl_add_eq_sum (l : LV) (a : Int) : l.foldl (· + ·) a = a + l.sum := by
  induction l generalizing a with
  | nil => simp
  | cons x l ih => simp [ih]; ring

theorem updCoeff_parity_step (S : Int) (h : S ≤ 0) :
    -1 * (-((S.natAbs % 2 : Nat) : Int) + (((S - 1).natAbs % 2 : Nat) : Int))
      = -(((-1 + S).natAbs % 2 : Nat) : Int) + (((-1 + S - 1).natAbs % 2 : Nat) : Int) := by omega

theorem sgnP_spec : ∀ st : LV, (∀ x ∈ st, x = 0 ∨ x = -1) →
    st.sum ≤ 0 ∧ sgnP st = -((st.sum.natAbs % 2 : Nat) : Int) + (((st.sum - 1).natAbs % 2 : Nat) : Int)
  | [], _ => by simp [sgnP]
  | x :: st, h => by
    obtain ⟨h1, h2⟩ := sgnP_spec st (fun y hy => h y (by simp [hy]))
    have hx := h x (by simp)
    simp only [List.sum_cons, sgnP]
    rw [h2]
    generalize st.sum = S at *
    rcases hx with rfl | rfl
    · simp only [zero_add, if_true, one_mul]; exact ⟨h1, trivial⟩
    · have hneg : ((-1 : Int) = 0) = False := by simp
      simp only [hneg, if_false]
      exact ⟨by omega, updCoeff_parity_step S h1⟩

theorem updCoeff_eq_sgnP (st : LV) (h : ∀ x ∈ st, x = 0 ∨ x = -1) : updCoeff st = sgnP st := by
  unfold updCoeff
  rw [foldl_add_eq_sum, (sgnP_spec st h).2]
  simp

theorem sumP_map (P : LV → Bool) {α : Type} (f : α → LV × Int) : ∀ l : List α,
    sumP P (l.map f) = (l.map fun a => (f a).2 * ind (P (f a).1)).sum
  | [] => by simp
  | a :: l => by
    rw [List.map_cons, sumP_cons, sumP_map P f l]
    simp only [List.map_cons, List.sum_cons, ind]
    split <;> simp

theorem sumP_flatMap (P : LV → Bool) {α : Type} (F : α → List (LV × Int)) : ∀ l : List α,
    sumP P (l.flatMap F) = (l.map fun a => sumP P (F a)).sum
  | [] => by simp
  | a :: l => by
    rw [List.flatMap_cons, sumP_append, sumP_flatMap P F l]; simp

theorem sumP_entries_one (lmin : Int) (g t : LV) :
    sumP (leAll t) ((stencils lmin g).map fun st => (List.zipWith (· + ·) g st, updCoeff st))
      = contrib' lmin g t := by
  rw [sumP_map]
  unfold contrib'
  congr 1
  apply List.map_congr_left
  intro st hst
  have := (mem_stencils lmin g st hst).2.1
  simp only []
  rw [updCoeff_eq_sgnP st this]

theorem sum_ind_eq (t : LV) : ∀ idx : List LV, idx.Nodup →
    (idx.map fun g => ind (decide (g = t))).sum = if t ∈ idx then 1 else 0
  | [], _ => by simp
  | g :: idx, h => by
    rw [List.nodup_cons] at h
    rw [List.map_cons, List.sum_cons, sum_ind_eq t idx h.2]
    by_cases hgt : g = t
    · subst hgt
      simp [ind, h.1]
    · have : ¬ t = g := fun e => hgt e.symm
      simp [ind, hgt, this]

theorem coeffsOf_identity (lmin : Int) (idx : List LV) (t : LV) (hnd : idx.Nodup)
    (hshape : ∀ g ∈ idx, g.length = t.length ∧ geAll lmin g) (hmin : geAll lmin t) :
    domSum (coeffsOf lmin idx) t = if t ∈ idx then 1 else 0 := by
  rw [domSum_coeffsOf]
  unfold stencilEntries
  rw [sumP_flatMap, ← sum_ind_eq t idx hnd]
  congr 1
  apply List.map_congr_left
  intro g hg
  rw [sumP_entries_one]
  exact contrib'_eq lmin g t (hshape g hg).1 (hshape g hg).2 hmin

theorem indexSet_eq (s : CS) (h : SchemeInv s) : s.indexSet = I s := by
  unfold CS.indexSet I
  congr 1
  rw [List.filter_eq_self]
  intro a ha
  have := h.disjoint a ha
  simpa using this

theorem nodup_I (s : CS) (h : SchemeInv s) : (I s).Nodup := by
  unfold I
  rw [List.nodup_append]
  refine ⟨h.nodupO, h.nodupA, ?_⟩
  intro a ha b hb e
  subst e
  exact h.disjoint a hb ha

theorem coeff_identity (s : CS) (h : SchemeInv s) (t : LV) (ht : t.length = s.dim) (hmin : geAll s.lmin t) :
    domSum s.coeffs t = if t ∈ I s then 1 else 0 := by
  unfold CS.coeffs
  rw [indexSet_eq s h]
  apply coeffsOf_identity s.lmin (I s) t (nodup_I s h) _ hmin
  intro g hg
  have := h.shape g hg
  exact ⟨by rw [this.1, ht], this.2⟩

/-- keys of the returned coefficients come from the stencil entries -/
theorem mem_coeffs_key (s : CS) (h : SchemeInv s) (p : LV × Int) (hp : p ∈ s.coeffs) :
    p.2 ≠ 0 ∧ ∃ g ∈ I s, ∃ st ∈ stencils s.lmin g, p.1 = List.zipWith (· + ·) g st := by
  unfold CS.coeffs at hp
  rw [indexSet_eq s h, coeffsOf_eq, List.mem_filter] at hp
  refine ⟨by simpa using hp.2, ?_⟩
  have hk : p.1 ∈ keys (dict [] (stencilEntries s.lmin (I s))) := by
    simp only [keys, List.mem_map]
    exact ⟨p, hp.1, rfl⟩
  rw [(dict_spec (fun _ => true) (stencilEntries s.lmin (I s)) [] (by simp [keys])).2.2] at hk
  simp only [keys, List.map_nil, List.not_mem_nil, false_or, List.mem_map] at hk
  obtain ⟨q, hq, hq1⟩ := hk
  simp only [stencilEntries, List.mem_flatMap, List.mem_map] at hq
  obtain ⟨g, hg, st, hst, rfl⟩ := hq
  exact ⟨g, hg, st, hst, hq1.symm⟩

theorem mem_coeffs_shape (s : CS) (h : SchemeInv s) (p : LV × Int) (hp : p ∈ s.coeffs) :
    p.1 ∈ I s ∧ p.2 ≠ 0 ∧ p.1.length = s.dim ∧ geAll s.lmin p.1 := by
  obtain ⟨h0, g, hg, st, hst, hp1⟩ := mem_coeffs_key s h p hp
  obtain ⟨h1, _, h3, h4⟩ := mem_stencils s.lmin g st hst
  have hsh := h.shape g hg
  have hlen : p.1.length = s.dim := by
    rw [hp1, List.length_zipWith, h1, Nat.min_self, hsh.1]
  have hge : geAll s.lmin p.1 := by rw [hp1]; exact h3 hsh.2
  refine ⟨?_, h0, hlen, hge⟩
  exact downward_closed s h g p.1 hg hlen hge (by rw [hp1]; exact h4)

theorem coeff_support (s : CS) (h : SchemeInv s) :
    (∀ p ∈ s.coeffs, p.1 ∈ I s ∧ p.2 ≠ 0) ∧ (s.coeffs.map (·.1)).Nodup := by
  constructor
  · intro p hp
    have := mem_coeffs_shape s h p hp
    exact ⟨this.1, this.2.1⟩
  · unfold CS.coeffs
    rw [coeffsOf_eq]
    have hnd := (dict_spec (fun _ => true) (stencilEntries s.lmin s.indexSet) [] (by simp [keys])).1
    exact List.Nodup.sublist (List.Sublist.map _ List.filter_sublist) hnd

theorem coeff_total (s : CS) (h : SchemeInv s) : (s.coeffs.map (·.2)).sum = 1 := by
  have hne := h.nonempty
  obtain ⟨l, hl⟩ := List.exists_mem_of_ne_nil _ hne
  have hsh := h.shape l hl
  have hrep : List.replicate s.dim s.lmin ∈ I s := by
    apply downward_closed s h l _ hl (by simp) (geAll_replicate _ _)
    rw [← hsh.1]
    exact leAll_replicate s.lmin l hsh.2
  have hid := coeff_identity s h (List.replicate s.dim s.lmin) (by simp) (geAll_replicate _ _)
  rw [if_pos hrep] at hid
  rw [← hid]
  unfold domSum
  congr 2
  symm
  rw [List.filter_eq_self]
  intro p hp
  have := mem_coeffs_shape s h p hp
  rw [← this.2.2.1]
  exact leAll_replicate s.lmin p.1 this.2.2.2

end SparseSpace
