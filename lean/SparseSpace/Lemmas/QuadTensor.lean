import SparseSpace.Lemmas.QuadDrop
/-! C08: the tensor-product lift — counts, sum of weights and exactness of the product rule. -/
namespace SparseSpace.Quad

/-- product integrand `Π_d f_d(x_d)` -/
def prodF : List (ℚ → ℚ) → List ℚ → ℚ
  | f :: fs, x :: xs => f x * prodF fs xs
  | _, _ => 1

theorem monomial_eq_prodF (ks : List ℕ) (xs : List ℚ) :
    monomial ks xs = prodF (ks.map fun k x => x ^ k) xs := by
  induction ks generalizing xs with
  | nil => simp [monomial, prodF]
  | cons k ks ih =>
    cases xs with
    | nil => simp [monomial, prodF]
    | cons x xs => simp [monomial, prodF, ih]

theorem cross_length {α : Type} (ls : List (List α)) : (cross ls).length = (ls.map List.length).prod := by
  induction ls with
  | nil => simp [cross]
  | cons l ls ih =>
    simp only [cross, List.map_cons, List.prod_cons]
    rw [← ih]
    induction l with
    | nil => simp
    | cons x xs ihx => simp [List.flatMap_cons, ihx]; ring

theorem zipWith_sum_mul_left {α β : Type} (c : ℚ) (G : α → β → ℚ) (T : List α) (U : List β) :
    (List.zipWith (fun t u => c * G t u) T U).sum = c * (List.zipWith G T U).sum := by
  induction T generalizing U with
  | nil => simp
  | cons t T ih =>
    cases U with
    | nil => simp
    | cons u U => simp [ih]; ring

/-- one dimension peeled off a tensor quadrature sum -/
theorem quadT_flatMap (p w : List ℚ) (T : List (List ℚ)) (U : List (List ℚ)) (f : ℚ → ℚ) (fs : List (ℚ → ℚ))
    (hpw : p.length = w.length) (hTU : T.length = U.length) :
    quadT (p.flatMap fun x => T.map fun t => x :: t) ((w.flatMap fun v => U.map fun u => v :: u).map List.prod) (prodF (f :: fs))
      = quad p w f * quadT T (U.map List.prod) (prodF fs) := by
  induction p generalizing w with
  | nil =>
    cases w with
    | nil => simp [quadT, quad]
    | cons v w => simp at hpw
  | cons x p ih =>
    cases w with
    | nil => simp at hpw
    | cons v w =>
      simp only [List.length_cons, Nat.add_right_cancel_iff] at hpw
      have hlen : (T.map fun t => x :: t).length = ((U.map fun u => v :: u).map List.prod).length := by simp [hTU]
      have ih' := ih w hpw
      unfold quadT quad at *
      simp only [List.flatMap_cons, List.map_append, List.zipWith_cons_cons, List.sum_cons]
      rw [List.zipWith_append hlen, List.sum_append, ih']
      simp only [List.map_map, List.zipWith_map_left, List.zipWith_map_right, Function.comp, List.prod_cons, prodF]
      have : (List.zipWith (fun t u => v * u.prod * (f x * prodF fs t)) T U).sum
          = (v * f x) * (List.zipWith (fun t u => u.prod * prodF fs t) T U).sum := by
        rw [← zipWith_sum_mul_left]
        congr 2
        funext t u
        ring
      rw [this]
      ring

/-- **tensor lift**: the product rule applied to a product integrand is the product of the 1-D quadrature sums -/
theorem quadT_cross {δ : Type} (P W : δ → List ℚ) (Fn : δ → ℚ → ℚ) (ds : List δ)
    (h : ∀ d ∈ ds, (P d).length = (W d).length) :
    quadT (cross (ds.map P)) ((cross (ds.map W)).map List.prod) (prodF (ds.map Fn))
      = (ds.map fun d => quad (P d) (W d) (Fn d)).prod := by
  induction ds with
  | nil => simp [cross, quadT, prodF]
  | cons d ds ih =>
    simp only [List.map_cons, cross, List.prod_cons]
    rw [quadT_flatMap _ _ _ _ _ _ (h d (by simp))
        (by rw [cross_length, cross_length]; simp only [List.map_map]; congr 1
            apply List.map_congr_left; intro e he; exact h e (by simp [he])),
      ih (fun e he => h e (by simp [he]))]

/-- sum of the tensor weights = product of the 1-D weight sums -/
theorem cross_prod_sum (ws : List (List ℚ)) : ((cross ws).map List.prod).sum = (ws.map List.sum).prod := by
  induction ws with
  | nil => simp [cross]
  | cons w ws ih =>
    simp only [cross, List.map_cons, List.prod_cons]
    rw [← ih]
    induction w with
    | nil => simp
    | cons v w ihw =>
      simp only [List.flatMap_cons, List.map_append, List.sum_append, ihw, List.sum_cons, List.map_map]
      have : ∀ L : List (List ℚ), (List.map (List.prod ∘ fun t => v :: t) L).sum = v * (List.map List.prod L).sum := by
        intro L
        induction L with
        | nil => simp
        | cons t L ihL => simp only [List.map_cons, List.sum_cons, ihL, Function.comp, List.prod_cons]; ring
      rw [this]; ring

theorem quad_const (p w : List ℚ) (c : ℚ) (h : p.length = w.length) : quad p w (fun _ => c) = c * w.sum := by
  unfold quad
  induction p generalizing w with
  | nil => cases w with
    | nil => simp
    | cons v w => simp at h
  | cons x p ih =>
    cases w with
    | nil => simp at h
    | cons v w =>
      simp only [List.length_cons, Nat.add_right_cancel_iff] at h
      simp [ih w h]; ring

/-- every tensor point has one coordinate per dimension, each taken from the corresponding 1-D list -/
theorem cross_mem {α : Type} (ls : List (List α)) (t : List α) (ht : t ∈ cross ls) :
    List.Forall₂ (fun x l => x ∈ l) t ls := by
  induction ls generalizing t with
  | nil => simp [cross] at ht; subst ht; exact List.Forall₂.nil
  | cons l ls ih =>
    simp only [cross, List.mem_flatMap, List.mem_map] at ht
    obtain ⟨x, hx, t', ht', rfl⟩ := ht
    exact List.Forall₂.cons hx (ih t' ht')


/-! ### the model's tensor grid -/

theorem weights_length_trap (g : G1) : (weights .trap g).length = (coords .trap g).length := by
  simp [weights, coords, trapWeights_length, points1d_length]

/-- count clause for the tensor grid: `len(getPoints()) = prod(levelToNumPoints(levelvec))`, every flag combination -/
theorem tensorPoints_length (f : Family) (gs : List G1) :
    (tensorPoints f gs).length = (levelToNumPoints gs).prod := by
  unfold tensorPoints levelToNumPoints
  rw [cross_length, List.map_map]
  congr 1
  apply List.map_congr_left
  intro g _
  simp [coords, points1d_length]

theorem tensorWeights_length_trap (gs : List G1) :
    (tensorWeights .trap gs).length = (levelToNumPoints gs).prod := by
  unfold tensorWeights levelToNumPoints
  rw [List.length_map, cross_length, List.map_map]
  congr 1
  apply List.map_congr_left
  intro g _
  simp [weights, trapWeights_length]

theorem tensorWeights_length_simpson (gs : List G1) :
    (tensorWeights .simpson gs).length = (levelToNumPoints gs).prod := by
  unfold tensorWeights levelToNumPoints
  rw [List.length_map, cross_length, List.map_map]
  congr 1
  apply List.map_congr_left
  intro g _
  simp [weights, simpsonWeights_length g]

/-- containment clause for the tensor grid -/
theorem tensorPoints_mem (f : Family) (gs : List G1) (h : ∀ g ∈ gs, g.start ≤ g.stop) (t : List ℚ)
    (ht : t ∈ tensorPoints f gs) : List.Forall₂ (fun x (g : G1) => g.start ≤ x ∧ x ≤ g.stop) t gs := by
  have := cross_mem _ t ht
  rw [List.forall₂_map_right_iff] at this
  have hgs : ∀ g ∈ gs, ∀ x, x ∈ coords f g → g.start ≤ x ∧ x ≤ g.stop :=
    fun g hg x hx => points1d_mem g (h g hg) x hx
  clear ht
  induction this with
  | nil => exact List.Forall₂.nil
  | cons hx _ ih =>
    exact List.Forall₂.cons (hgs _ (by simp) _ hx) (ih (fun g hg => h g (by simp [hg])) (fun g hg => hgs g (by simp [hg])))

theorem trap_sum_weights (g : G1) (hb : g.boundary = true) (hm : g.modified = false) :
    (trapWeights g).sum = g.stop - g.start := by
  have h := trap_exact_affine g hb hm 1 0
  have hc := quad_const (points1d g) (trapWeights g) 1 (by rw [points1d_length, trapWeights_length])
  have : (fun x : ℚ => (1 : ℚ) + 0 * x) = fun _ => 1 := by funext x; ring
  rw [this, hc] at h
  linarith

theorem simpson_sum_weights (g : G1) (hb : g.boundary = true) (k : ℕ) (hl : g.level = k + 1) :
    (simpsonWeights g).sum = g.stop - g.start := by
  have h := simpson_exact_cubic g hb k hl 1 0 0 0
  have hc := quad_const (points1d g) (simpsonWeights g) 1 (by rw [points1d_length, simpsonWeights_length_on g hb])
  have : (fun x : ℚ => (1 : ℚ) + 0 * x + 0 * x ^ 2 + 0 * x ^ 3) = fun _ => 1 := by funext x; ring
  rw [this, hc] at h
  linarith

/-- tensor weights of the complete trapezoidal rule sum to the volume of the sub-box -/
theorem tensor_trap_sum_weights (gs : List G1) (h : ∀ g ∈ gs, g.boundary = true ∧ g.modified = false) :
    (tensorWeights .trap gs).sum = (gs.map fun g => g.stop - g.start).prod := by
  unfold tensorWeights
  rw [cross_prod_sum, List.map_map]
  congr 1
  apply List.map_congr_left
  intro g hg
  exact trap_sum_weights g (h g hg).1 (h g hg).2

/-- tensor weights of the complete Simpson rule (every level ≥ 1) sum to the volume of the sub-box -/
theorem tensor_simpson_sum_weights (gs : List G1) (h : ∀ g ∈ gs, g.boundary = true ∧ 1 ≤ g.level) :
    (tensorWeights .simpson gs).sum = (gs.map fun g => g.stop - g.start).prod := by
  unfold tensorWeights
  rw [cross_prod_sum, List.map_map]
  congr 1
  apply List.map_congr_left
  intro g hg
  obtain ⟨k, hk⟩ := Nat.exists_eq_add_of_le (h g hg).2
  exact simpson_sum_weights g (h g hg).1 k (by omega)

/-- tensor trapezoidal rule: exact for products of per-dimension affine functions -/
theorem tensor_trap_exact (ds : List (G1 × ℚ × ℚ)) (h : ∀ d ∈ ds, d.1.boundary = true ∧ d.1.modified = false) :
    quadT (tensorPoints .trap (ds.map (·.1))) (tensorWeights .trap (ds.map (·.1)))
        (prodF (ds.map fun d x => d.2.1 + d.2.2 * x))
      = (ds.map fun d => d.2.1 * (d.1.stop - d.1.start) + d.2.2 * ((d.1.stop ^ 2 - d.1.start ^ 2) / 2)).prod := by
  unfold tensorPoints tensorWeights
  rw [List.map_map, List.map_map]
  refine (quadT_cross (fun d => coords .trap d.1) (fun d => weights .trap d.1) (fun d x => d.2.1 + d.2.2 * x) ds
    (fun d _ => (weights_length_trap d.1).symm)).trans ?_
  congr 1
  apply List.map_congr_left
  intro d hd
  exact trap_exact_affine d.1 (h d hd).1 (h d hd).2 d.2.1 d.2.2

/-- tensor Simpson rule (levels ≥ 1): exact for products of per-dimension cubics `c0 + c1 x + c2 x² + c3 x³` -/
theorem tensor_simpson_exact (ds : List (G1 × ℚ × ℚ × ℚ × ℚ)) (h : ∀ d ∈ ds, d.1.boundary = true ∧ 1 ≤ d.1.level) :
    quadT (tensorPoints .simpson (ds.map (·.1))) (tensorWeights .simpson (ds.map (·.1)))
        (prodF (ds.map fun d x => d.2.1 + d.2.2.1 * x + d.2.2.2.1 * x ^ 2 + d.2.2.2.2 * x ^ 3))
      = (ds.map fun d => d.2.1 * (d.1.stop - d.1.start) + d.2.2.1 * ((d.1.stop ^ 2 - d.1.start ^ 2) / 2)
            + d.2.2.2.1 * ((d.1.stop ^ 3 - d.1.start ^ 3) / 3) + d.2.2.2.2 * ((d.1.stop ^ 4 - d.1.start ^ 4) / 4)).prod := by
  unfold tensorPoints tensorWeights
  rw [List.map_map, List.map_map]
  refine (quadT_cross (fun d => coords .simpson d.1) (fun d => weights .simpson d.1)
    (fun d x => d.2.1 + d.2.2.1 * x + d.2.2.2.1 * x ^ 2 + d.2.2.2.2 * x ^ 3) ds
    (fun d hd => by simp [coords, weights, points1d_length, simpsonWeights_length_on d.1 (h d hd).1])).trans ?_
  congr 1
  apply List.map_congr_left
  intro d hd
  obtain ⟨k, hk⟩ := Nat.exists_eq_add_of_le (h d hd).2
  exact simpson_exact_cubic d.1 (h d hd).1 k (by omega) _ _ _ _

end SparseSpace.Quad
