import SparseSpace.Lemmas.DimWiseKeepPts
/-!
# The index set never exceeds `lmax` (every history), hence every scheme level is tabulated

`UB lmax s`: every member of the index set is `≤ lmax` componentwise.  It holds initially, `raise_lmax` only refines
indices that are strictly below `lmax` in every component, so it is kept by every `refine()` call (with or without
rebalancing).  Consequence: the first conjunct of `Exact.keepsInitial` (`tabulated`) holds in every reachable state.
-/
namespace SparseSpace
open Exact

def UB (lmax : List Int) (s : CS) : Prop := ∀ l ∈ I s, ∀ d, d < s.dim → l.getD d 0 ≤ lmax.getD d 0

theorem raiseCond_lt (lmax : List Int) (lmin : Int) (dim : Nat) (idx : LV) (hc : raiseCond lmax lmin dim idx = true) :
    ∀ d, d < dim → idx.getD d 0 < lmax.getD d 0 := by
  simp only [raiseCond, Bool.and_eq_true, List.all_eq_true, List.mem_range] at hc
  intro d hd
  have := hc.2 d hd
  cases hu : lmax[d]? with
  | none => rw [hu] at this; simp at this
  | some u =>
    cases hv : idx[d]? with
    | none => rw [hu, hv] at this; simp at this
    | some v =>
      rw [hu, hv] at this
      simp only [decide_eq_true_eq] at this
      simp only [List.getD, hu, hv, Option.getD_some]
      omega

theorem getD_bump_le (l : LV) (d k : Nat) : (bump l d 1).getD k 0 ≤ l.getD k 0 + 1 := by
  unfold bump
  simp only [List.getD_eq_getElem?_getD, List.getElem?_modify]
  by_cases h : d = k
  · subst h
    simp only [if_true]
    cases l[d]? with
    | none => simp
    | some v => simp
  · simp [h]

theorem mem_I_update (s : CS) (lv l : LV) (h : l ∈ I (s.update lv).1) :
    l ∈ I s ∨ ∃ d, d < s.dim ∧ l = bump lv d 1 := by
  by_cases hlv : lv ∈ s.active
  · rw [update_fst_of_mem s lv hlv] at h
    obtain ⟨_, _, e3, _, e5⟩ := refFold_spec lv (List.range s.dim)
      { s with active := s.active.erase lv, old := if s.old.contains lv then s.old else s.old ++ [lv] }
    unfold I at h ⊢
    rw [List.mem_append, e3, e5] at h
    simp only [] at h
    rcases h with h | h | ⟨d, hd, rfl, _⟩
    · left
      split at h
      · exact List.mem_append_left _ h
      · rw [List.mem_append, List.mem_singleton] at h
        rcases h with h | rfl
        · exact List.mem_append_left _ h
        · exact List.mem_append_right _ hlv
    · left; exact List.mem_append_right _ (List.mem_of_mem_erase h)
    · right; exact ⟨d, List.mem_range.1 hd, rfl⟩
  · rw [update_not_refinable s lv hlv] at h; exact Or.inl h

theorem ub_update (lmax : List Int) (lmin : Int) (dim : Nat) (s : CS) (lv : LV) (hdim : s.dim = dim) (h : UB lmax s)
    (hc : raiseCond lmax lmin dim lv = true) : UB lmax (s.update lv).1 := by
  intro l hl d hd
  rw [(update_dim_lmin s lv).1] at hd
  rcases mem_I_update s lv l hl with h1 | ⟨k, _, rfl⟩
  · exact h l h1 d hd
  · have := raiseCond_lt lmax lmin dim lv hc d (by omega)
    have := getD_bump_le lv k d
    omega

theorem ub_fold (lmax : List Int) (lmin : Int) (dim : Nat) : ∀ (L : List LV) (acc : CS × Nat), acc.1.dim = dim →
    UB lmax acc.1 →
    (L.foldl (raiseBody lmax lmin dim) acc).1.dim = dim ∧ UB lmax (L.foldl (raiseBody lmax lmin dim) acc).1
  | [], _, h1, h2 => ⟨h1, h2⟩
  | x :: xs, acc, h1, h2 => by
    simp only [List.foldl_cons]
    apply ub_fold lmax lmin dim xs
    · unfold raiseBody; split
      · simp only []; rw [(update_dim_lmin _ _).1]; exact h1
      · exact h1
    · unfold raiseBody; split
      · exact ub_update lmax lmin dim acc.1 x h1 h2 (by assumption)
      · exact h2

theorem ub_raiseLoop (lmax : List Int) (lmin : Int) : ∀ (fuel : Nat) (s : CS), UB lmax s →
    (raiseLoop lmax lmin fuel s).1.dim = s.dim ∧ UB lmax (raiseLoop lmax lmin fuel s).1
  | 0, s, h => ⟨rfl, h⟩
  | f + 1, s, h => by
    have hp := ub_fold lmax lmin s.dim s.active (s, 0) rfl h
    rw [← raisePass_eq] at hp
    simp only [raiseLoop]
    split
    · exact hp
    · obtain ⟨h1, h2⟩ := ub_raiseLoop lmax lmin f _ hp.2
      exact ⟨h1.trans hp.1, h2⟩

theorem ub_mono (lmax lmax' : List Int) (s : CS) (h : UB lmax s) (hm : ∀ d, lmax.getD d 0 ≤ lmax'.getD d 0) :
    UB lmax' s := fun l hl d hd => le_trans (h l hl d hd) (hm d)

/-- the state form -/
def UBst (st : DW) : Prop := st.cs.dim = st.dim ∧ UB st.lmax st.cs

theorem postDim_ub (st : DW) (d : Nat) (h : UBst st) : UBst (st.postDim d).1 := by
  unfold DW.postDim
  cases hc : st.m.conts[d]? with
  | none => exact h
  | some c =>
    cases hl : st.lmax[d]? with
    | none => exact h
    | some lm =>
      simp only []
      split
      · rename_i hu
        have hmono : UB (st.lmax.set d (lm + updateDim (setCoarsening lm c.objs))) st.cs := by
          apply ub_mono st.lmax _ st.cs h.2
          intro k
          simp only [List.getD_eq_getElem?_getD, List.getElem?_set]
          by_cases hk : d = k
          · subst hk
            have hdl : d < st.lmax.length := by
              by_contra hh; rw [List.getElem?_eq_none (by omega)] at hl; simp at hl
            simp only [hdl, if_true, hl, Option.getD_some]; omega
          · simp [hk]
        obtain ⟨h1, h2⟩ := ub_raiseLoop (st.lmax.set d (lm + updateDim (setCoarsening lm c.objs))) st.lmin
          (raiseFuel (st.lmax.set d (lm + updateDim (setCoarsening lm c.objs))) st.lmin st.dim) st.cs hmono
        exact ⟨h1.trans h.1, h2⟩
      · exact h

theorem postDims_ub : ∀ (ds : List Nat) (st : DW), UBst st → UBst (DW.postDims st ds).1
  | [], _, h => h
  | d :: ds, st, h => by
    simp only [DW.postDims]
    exact postDims_ub ds _ (postDim_ub st d h)

theorem step_ub (st : DW) (h : UBst st) (bens : List (List Rat)) (margin : Rat) (reb : Bool)
    (dec : Nat → Nat → Nat → Bool) (out : StepOut) (hout : st.step bens margin reb dec = some out) : UBst out.st := by
  unfold DW.step at hout
  cases hr : st.m.refineStep bens margin with
  | none => rw [hr] at hout; simp at hout
  | some mp =>
    obtain ⟨m1, ps⟩ := mp
    rw [hr] at hout
    simp only [] at hout
    cases hrb : (if reb then rebalanceAll dec m1.conts else some (m1.conts, [])) with
    | none => rw [hrb] at hout; simp at hout
    | some cc =>
      obtain ⟨conts, cmps⟩ := cc
      rw [hrb] at hout
      simp only [Option.some.injEq] at hout
      rw [← hout]
      exact postDims_ub _ _ h

theorem run_ub : ∀ (ins : List StepIn) (st st' : DW), UBst st → st.run ins = some st' → UBst st'
  | [], st, st', h, hr => by
    simp only [DW.run, Option.some.injEq] at hr; rw [← hr]; exact h
  | i :: is, st, st', h, hr => by
    simp only [DW.run] at hr
    cases ho : st.step i.bens i.margin i.rebalancing i.dec with
    | none => rw [ho] at hr; simp at hr
    | some out =>
      rw [ho] at hr
      exact run_ub is out.st st' (step_ub st h _ _ _ _ out ho) hr

theorem comp_le_of_sum (lmin : Int) (l : LV) (d : Nat) (hg : geAll lmin l) (hd : d < l.length) :
    l.getD d 0 ≤ l.sum - ((l.length : Int) - 1) * lmin := by
  have hgb := geAll_bump lmin l d (lmin - l.getD d 0) hg (by omega)
  have hs := sum_bump l d (lmin - l.getD d 0) hd
  have := sum_ge_of_geAll lmin _ hgb
  rw [length_bump, hs] at this
  have e : ((l.length : Int) - 1) * lmin = (l.length : Int) * lmin - lmin := by ring
  rw [e]; omega

theorem init_ub (lmin lmax : Nat) (a b : List Rat) (hd : 1 ≤ a.length) (hl : lmin ≤ lmax) :
    UBst (DW.init lmin lmax a b) := by
  refine ⟨rfl, ?_⟩
  intro l hl' d hdd
  have hdd' : d < a.length := hdd
  have hI : l ∈ initOld (lmax : Int) (lmin : Int) a.length ++ initActive (lmax : Int) (lmin : Int) a.length := hl'
  have hle : (lmin : Int) ≤ (lmax : Int) := by exact_mod_cast hl
  have hsh : l.length = a.length ∧ geAll (lmin : Int) l ∧ l.sum ≤ (lmax : Int) - lmin + (a.length : Int) * lmin := by
    rw [List.mem_append] at hI
    rcases hI with h | h
    · obtain ⟨h1, h2, h3⟩ := (mem_initOld _ _ _ l hd hle).mp h
      exact ⟨h1, h2, by omega⟩
    · obtain ⟨h1, h2, h3⟩ := (mem_initActive _ _ _ l hd hle).mp h
      exact ⟨h1, h2, by omega⟩
  obtain ⟨h1, h2, h3⟩ := hsh
  have := comp_le_of_sum (lmin : Int) l d h2 (by omega)
  rw [h1] at this
  have hr : (DW.init lmin lmax a b).lmax.getD d 0 = (lmax : Int) := by
    simp [DW.init, List.getD, List.getElem?_replicate, hdd']
  rw [hr]
  have e : ((a.length : Int) - 1) * (lmin : Int) = (a.length : Int) * lmin - lmin := by ring
  rw [e] at this
  omega

theorem tabulated_of (st : DW) (cfg : PtCfg) (a b : List Rat) (lmax0 : Int) : ∀ (lv : LV) (d0 : Nat),
    (∀ e, e < lv.length → d0 + e < st.dim ∧ st.lmin ≤ lv.getD e 0 ∧ lv.getD e 0 ≤ st.lmax.getD (d0 + e) 0) →
    tabulatedFrom (st.toExact cfg a b lmax0) d0 lv = true
  | [], _, _ => rfl
  | j :: l, d0, h => by
    have h0 := h 0 (by simp)
    simp only [Nat.add_zero, List.getD_cons_zero] at h0
    simp only [tabulatedFrom, Bool.and_eq_true]
    constructor
    · rw [toExact_tbl st cfg a b lmax0 d0 h0.1, List.any_map, List.any_eq_true]
      exact ⟨j, (mem_levelsOf st d0 j (by omega)).2 ⟨h0.2.1, h0.2.2⟩, by simp⟩
    · apply tabulated_of st cfg a b lmax0 l (d0 + 1)
      intro e he
      have := h (e + 1) (by simpa using he)
      simp only [List.getD_cons_succ] at this
      have e1 : d0 + 1 + e = d0 + (e + 1) := by omega
      rw [e1]; exact this

/-- **first conjunct of `keepsInitial`**: every level vector of the scheme has the right length and is tabulated -/
theorem scheme_tabulated (st : DW) (cfg : PtCfg) (a b : List Rat) (lmax0 : Int) (hs : SchemeInv st.cs)
    (hlm : st.cs.lmin = st.lmin) (hub : UBst st) :
    ((st.toExact cfg a b lmax0).scheme.all fun p =>
      p.1.length == (st.toExact cfg a b lmax0).dim && tabulatedFrom (st.toExact cfg a b lmax0) 0 p.1) = true := by
  rw [List.all_eq_true]
  intro p hp
  have hp' : p ∈ st.cs.coeffs := hp
  have hI := ((coeff_support st.cs hs).1 p hp').1
  obtain ⟨hlen, hg⟩ := hs.shape p.1 hI
  rw [hub.1] at hlen
  rw [hlm] at hg
  simp only [Bool.and_eq_true, beq_iff_eq]
  refine ⟨hlen, ?_⟩
  apply tabulated_of
  intro e he
  rw [hlen] at he
  refine ⟨by omega, geAll_getD st.lmin p.1 e hg (by omega), ?_⟩
  have := hub.2 p.1 hI e (by rw [hub.1]; exact he)
  simpa using this

end SparseSpace
