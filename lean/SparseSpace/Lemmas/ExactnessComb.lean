import SparseSpace.Lemmas.Exactness1D
import SparseSpace.Lemmas.CombAdaptive
/-!
# C04: from 1-D exactness to exactness of the combination (dimension-wise strategy)

`exactness_criterion` turns the combination lemma L2 (`comb_collapse_rat`) into: if in every dimension the 1-D value
`q d l_d` equals the exact value `e_d` for every component level `l_d ≥ r_d` of the scheme and `r` is in the index set,
the combination of the tensor values is `Π e_d`.  With the 1-D facts this gives exactness of the combined integral and
interpolant for every tensor function that is piecewise linear w.r.t. node lists `K_d` contained in all component
grids of level `≥ r_d`, and soundness of the monitored predicate `keepsInitial`.
-/
namespace SparseSpace.Exact
open SparseSpace (meet geAll leAll domSum)

/-- `q d l_d = e_d` whenever `r_d ≤ l_d` (lists zipped, dimensions numbered from `d`) -/
def Agree (q : Nat → Int → Rat) : Nat → LV → LV → List Rat → Prop
  | _, [], [], [] => True
  | d, j :: l, ρ :: r, e :: es => (ρ ≤ j → q d j = e) ∧ Agree q (d + 1) l r es
  | _, _, _, _ => False

def capProd (q : Nat → Int → Rat) : Nat → LV → LV → List Rat → Rat
  | d, j :: l, ρ :: r, e :: es => (if ρ ≤ j then e else q d j) * capProd q (d + 1) l r es
  | _, _, _, _ => 1

def prodL : List Rat → Rat
  | [] => 1
  | e :: es => e * prodL es

theorem prodFrom_eq_capProd (q : Nat → Int → Rat) : ∀ (l r : LV) (es : List Rat) (d : Nat),
    Agree q d l r es → prodFrom q d l = capProd q d l r es
  | [], [], [], _, _ => rfl
  | j :: l, ρ :: r, e :: es, d, h => by
      have ih := prodFrom_eq_capProd q l r es (d + 1) h.2
      simp only [prodFrom, capProd, ih]
      by_cases hρ : ρ ≤ j
      · rw [if_pos hρ, h.1 hρ]
      · rw [if_neg hρ]
  | [], [], _ :: _, _, h => h.elim
  | [], _ :: _, _, _, h => h.elim
  | _ :: _, [], _, _, h => h.elim
  | _ :: _, _ :: _, [], _, h => h.elim

theorem capProd_meet (q : Nat → Int → Rat) : ∀ (l r : LV) (es : List Rat) (d : Nat),
    capProd q d l r es = capProd q d (meet l r) r es
  | [], _, _, _ => by simp [meet, capProd]
  | _ :: _, [], _, _ => by simp [meet, capProd]
  | j :: l, ρ :: r, [], _ => by simp [meet, capProd]
  | j :: l, ρ :: r, e :: es, d => by
      have ih := capProd_meet q l r es (d + 1)
      have hm : meet (j :: l) (ρ :: r) = min j ρ :: meet l r := rfl
      rw [hm]
      simp only [capProd]
      rw [← ih]
      by_cases hρ : ρ ≤ j
      · rw [if_pos hρ, min_eq_right hρ, if_pos (le_refl ρ)]
      · have hj : j ≤ ρ := le_of_lt (lt_of_not_ge hρ)
        rw [if_neg hρ, min_eq_left hj, if_neg hρ]

theorem capProd_self (q : Nat → Int → Rat) : ∀ (r : LV) (es : List Rat) (d : Nat),
    r.length = es.length → capProd q d r r es = prodL es
  | [], [], _, _ => rfl
  | ρ :: r, e :: es, d, h => by
      have ih := capProd_self q r es (d + 1) (by simpa using h)
      simp only [capProd, prodL, ih, le_refl, if_true]
  | [], _ :: _, _, h => by simp at h
  | _ :: _, [], _, h => by simp at h

/-- **Exactness criterion** (instance of the combination lemma L2).  `c` is a coefficient family whose dominated sums
are the indicator of a downward closed set `J` (what C01 proves of the adaptive scheme), `r ∈ J`, and for every
component grid `l` of the scheme and every dimension `d` with `l_d ≥ r_d` the 1-D value `q d l_d` is the exact value
`e_d`.  Then the combination of the tensor values `Π_d q d l_d` is `Π_d e_d`. -/
theorem exactness_criterion
    (dim : Nat) (lmin : Int) (c : List (LV × Int)) (J : LV → Prop) [DecidablePred J]
    (hshape : ∀ p ∈ c, p.1.length = dim ∧ geAll lmin p.1)
    (hJdown : ∀ a b : LV, a.length = dim → b.length = dim → geAll lmin a → leAll a b = true → J b → J a)
    (hid : ∀ t : LV, t.length = dim → geAll lmin t → domSum c t = if J t then 1 else 0)
    (r : LV) (hr : r.length = dim) (hrmin : geAll lmin r) (hrJ : J r)
    (q : Nat → Int → Rat) (es : List Rat) (hes : es.length = dim)
    (hq : ∀ p ∈ c, Agree q 0 p.1 r es) :
    combine c (tensorF q) = prodL es := by
  have h := SparseSpace.comb_collapse_rat dim lmin c J hshape hJdown hid r hr hrmin hrJ
    (fun l => capProd q 0 l r es) (fun p _ => capProd_meet q p.1 r es 0)
  rw [capProd_self q r es 0 (by rw [hr, hes])] at h
  rw [← h]
  unfold combine tensorF
  congr 1
  apply List.map_congr_left
  intro p hp
  rw [prodFrom_eq_capProd q p.1 r es 0 (hq p hp)]

/-- the same for every state of the adaptive scheme model that satisfies the C01 invariant (in particular every
reachable one): no hypotheses about the coefficients are left -/
theorem exactness_criterion_adaptive (s : SparseSpace.CS) (h : SparseSpace.SchemeInv s)
    (r : LV) (hrI : r ∈ SparseSpace.I s)
    (q : Nat → Int → Rat) (es : List Rat) (hes : es.length = s.dim)
    (hq : ∀ p ∈ s.coeffs, Agree q 0 p.1 r es) :
    combine s.coeffs (tensorF q) = prodL es := by
  have hk := h.shape r hrI
  exact exactness_criterion s.dim s.lmin s.coeffs (fun t => t ∈ SparseSpace.I s)
    (fun p hp => h.shape p.1 ((SparseSpace.coeff_support s h).1 p hp).1)
    (fun a b ha _ hmin hle hb => SparseSpace.downward_closed s h b a hb ha hmin hle)
    (fun t ht hmin => SparseSpace.coeff_identity s h t ht hmin)
    r hk.1 hk.2 hrI q es hes hq

/-! ## node lists: `Refines K xs` -/

/-- `xs` is strictly increasing, starts and ends where `K` does and contains every node of `K` -/
def Refines : List Rat → List Rat → Prop
  | p :: K', p' :: xs' => p = p' ∧ StrictSorted (p' :: xs') ∧ (∀ k ∈ K', k ∈ xs') ∧ lastOf p K' = lastOf p' xs'
  | _, _ => False

theorem quad_of_refines (u : Rat → Rat) (K xs : List Rat) (hK : StrictSorted K) (hpl : PLOn u K)
    (h : Refines K xs) : quad u xs = trap u K := by
  rw [quad_eq_trap]
  match K, xs, h with
  | p :: K', _ :: xs', ⟨rfl, hs, hsub, hlast⟩ => exact trap_refine u xs' K' p hs hK hsub hlast hpl

theorem interp_of_refines (u : Rat → Rat) (K xs : List Rat) (x : Rat) (hK : StrictSorted K) (hpl : PLOn u K)
    (h : Refines K xs) (h1 : firstD K ≤ x) (h2 : x ≤ lastD K) (hne : 2 ≤ K.length) : interp u xs x = u x := by
  match K, xs, h with
  | p :: K', _ :: xs', ⟨rfl, hs, hsub, hlast⟩ =>
      have hne' : xs' ≠ [] := by
        intro hnil
        subst hnil
        cases K' with
        | nil => simp at hne
        | cons k K'' => exact absurd (hsub k (by simp)) (by simp)
      rw [lastOf_eq_getLastD, hlast] at h2
      exact interp_refine u xs' K' p x hs hK hsub hlast hpl hne' (by simpa [firstD] using h1) h2

theorem getLast?_eq_lastOf : ∀ (xs : List Rat) (p : Rat), (p :: xs).getLast? = some (lastOf p xs)
  | [], p => by simp [lastOf]
  | y :: rest, p => by
      have := getLast?_eq_lastOf rest y
      simp only [lastOf]
      rw [List.getLast?_cons_cons]
      exact this

theorem wfNodes_sound {a b : Rat} {xs : List Rat} (h : wfNodes a b xs = true) :
    ∃ xs', xs = a :: xs' ∧ StrictSorted (a :: xs') ∧ lastOf a xs' = b := by
  simp only [wfNodes, Bool.and_eq_true, decide_eq_true_eq] at h
  obtain ⟨⟨hs, hh⟩, hl⟩ := h
  cases xs with
  | nil => simp at hh
  | cons p xs' =>
      simp only [List.head?_cons, Option.some.injEq] at hh
      subst hh
      refine ⟨xs', rfl, (strictSorted_iff _).1 hs, ?_⟩
      rw [getLast?_eq_lastOf] at hl
      exact Option.some.inj hl

theorem refinesB_sound {a b : Rat} {K xs : List Rat} (h : refinesB a b K xs = true) :
    StrictSorted K ∧ Refines K xs ∧ firstD K = a ∧ lastD K = b := by
  simp only [refinesB, Bool.and_eq_true, List.all_eq_true, decide_eq_true_eq] at h
  obtain ⟨⟨hK, hxs⟩, hsub⟩ := h
  obtain ⟨K', rfl, hKs, hKl⟩ := wfNodes_sound hK
  obtain ⟨xs', rfl, hxss, hxl⟩ := wfNodes_sound hxs
  refine ⟨hKs, ⟨rfl, hxss, ?_, by rw [hKl, hxl]⟩, rfl, by rw [lastOf_eq_getLastD, hKl]⟩
  intro k hk
  have hmem := hsub k (List.mem_cons_of_mem _ hk)
  rcases List.mem_cons.1 hmem with h | h
  · have : a < k := sorted_head_lt hKs k hk
    rw [h] at this
    exact absurd this (lt_irrefl _)
  · exact h

/-! ## tensor functions that are piecewise linear w.r.t. node lists `K_d` -/

/-- for every dimension: `r_d ≤ l_d → Refines K_d (pts d l_d)` -/
def RefinesFrom (pts : Nat → Int → List Rat) : Nat → LV → LV → List (List Rat) → Prop
  | _, [], [], [] => True
  | d, j :: l, ρ :: r, K :: Ks => (ρ ≤ j → Refines K (pts d j)) ∧ RefinesFrom pts (d + 1) l r Ks
  | _, _, _, _ => False

/-- `u_d` is piecewise linear w.r.t. the strictly increasing node list `K_d` (at least two nodes) -/
def PLFrom (u : Nat → Rat → Rat) : Nat → List (List Rat) → Prop
  | _, [] => True
  | d, K :: Ks => (StrictSorted K ∧ 2 ≤ K.length ∧ PLOn (u d) K) ∧ PLFrom u (d + 1) Ks

/-- the exact 1-D integrals `Σ_cells (x_{i+1} - x_i)(u x_i + u x_{i+1})/2` over the function's own node list -/
def exactInts (u : Nat → Rat → Rat) : Nat → List (List Rat) → List Rat
  | _, [] => []
  | d, K :: Ks => trap (u d) K :: exactInts u (d + 1) Ks

def exactVals (u : Nat → Rat → Rat) (x : Nat → Rat) : Nat → List (List Rat) → List Rat
  | _, [] => []
  | d, _ :: Ks => u d (x d) :: exactVals u x (d + 1) Ks

def InDom (x : Nat → Rat) : Nat → List (List Rat) → Prop
  | _, [] => True
  | d, K :: Ks => (firstD K ≤ x d ∧ x d ≤ lastD K) ∧ InDom x (d + 1) Ks

theorem exactInts_length (u : Nat → Rat → Rat) : ∀ (Ks : List (List Rat)) (d : Nat), (exactInts u d Ks).length = Ks.length
  | [], _ => rfl
  | _ :: Ks, d => by simp [exactInts, exactInts_length u Ks (d + 1)]

theorem exactVals_length (u : Nat → Rat → Rat) (x : Nat → Rat) : ∀ (Ks : List (List Rat)) (d : Nat),
    (exactVals u x d Ks).length = Ks.length
  | [], _ => rfl
  | _ :: Ks, d => by simp [exactVals, exactVals_length u x Ks (d + 1)]

theorem agree_quad (pts : Nat → Int → List Rat) (u : Nat → Rat → Rat) : ∀ (l r : LV) (Ks : List (List Rat)) (d : Nat),
    RefinesFrom pts d l r Ks → PLFrom u d Ks →
    Agree (fun d j => quad (u d) (pts d j)) d l r (exactInts u d Ks)
  | [], [], [], _, _, _ => trivial
  | j :: l, _ :: r, K :: Ks, d, h, hu =>
      ⟨fun hρ => quad_of_refines (u d) K (pts d j) hu.1.1 hu.1.2.2 (h.1 hρ),
        agree_quad pts u l r Ks (d + 1) h.2 hu.2⟩
  | [], [], _ :: _, _, h, _ => h.elim
  | [], _ :: _, _, _, h, _ => h.elim
  | _ :: _, [], _, _, h, _ => h.elim
  | _ :: _, _ :: _, [], _, h, _ => h.elim

theorem agree_interp (pts : Nat → Int → List Rat) (u : Nat → Rat → Rat) (x : Nat → Rat) :
    ∀ (l r : LV) (Ks : List (List Rat)) (d : Nat),
    RefinesFrom pts d l r Ks → PLFrom u d Ks → InDom x d Ks →
    Agree (fun d j => interp (u d) (pts d j) (x d)) d l r (exactVals u x d Ks)
  | [], [], [], _, _, _, _ => trivial
  | j :: l, _ :: r, K :: Ks, d, h, hu, hx =>
      ⟨fun hρ => interp_of_refines (u d) K (pts d j) (x d) hu.1.1 hu.1.2.2 (h.1 hρ) hx.1.1 hx.1.2 hu.1.2.1,
        agree_interp pts u x l r Ks (d + 1) h.2 hu.2 hx.2⟩
  | [], [], _ :: _, _, h, _, _ => h.elim
  | [], _ :: _, _, _, h, _, _ => h.elim
  | _ :: _, [], _, _, h, _, _ => h.elim
  | _ :: _, _ :: _, [], _, h, _, _ => h.elim

/-! ## soundness of the monitored predicate `keepsInitial` -/

/-- the dyadic node lists of the level vector `k0` -/
def dyadicLists (dom : List (Rat × Rat)) : Nat → LV → List (List Rat)
  | _, [] => []
  | d, kd :: k => dyadic (dom.getD d (0, 0)).1 (dom.getD d (0, 0)).2 kd.toNat :: dyadicLists dom (d + 1) k

theorem dyadicLists_length (dom : List (Rat × Rat)) : ∀ (k : LV) (d : Nat), (dyadicLists dom d k).length = k.length
  | [], _ => rfl
  | _ :: k, d => by simp [dyadicLists, dyadicLists_length dom k (d + 1)]

theorem lookup_of_tabulated (t : List (Int × List Rat)) (j : Int) (h : t.any (fun e => e.1 == j) = true) :
    ∃ e ∈ t, e.1 = j ∧ lookup t j = e.2 := by
  unfold lookup
  cases hf : t.find? (fun e => e.1 == j) with
  | none =>
      rw [List.find?_eq_none] at hf
      rw [List.any_eq_true] at h
      obtain ⟨e, he, hej⟩ := h
      exact absurd hej (hf e he)
  | some e =>
      have hmem := List.mem_of_find?_eq_some hf
      have hp := List.find?_some hf
      exact ⟨e, hmem, by simpa using hp, rfl⟩

theorem refinesFrom_of_good (s : DWState) : ∀ (l k0 r : LV) (d : Nat),
    tabulatedFrom s d l = true → goodVecFrom s d k0 r = true → l.length = r.length →
    RefinesFrom s.tbl.pts d l r (dyadicLists s.dom d k0)
  | [], [], [], _, _, _, _ => trivial
  | j :: l, kd :: k0, ρ :: r, d, ht, hg, hlen => by
      simp only [tabulatedFrom, Bool.and_eq_true] at ht
      simp only [goodVecFrom, Bool.and_eq_true] at hg
      refine ⟨?_, refinesFrom_of_good s l k0 r (d + 1) ht.2 hg.2 (by simpa using hlen)⟩
      intro hρ
      obtain ⟨e, hmem, hej, hlook⟩ := lookup_of_tabulated (s.tbl.getD d []) j ht.1
      have hgl := hg.1
      simp only [goodLevel, List.all_eq_true, Bool.or_eq_true, Bool.not_eq_true', decide_eq_false_iff_not] at hgl
      have := hgl e hmem
      rcases this with hneg | href
      · exact absurd (by rw [hej]; exact hρ) hneg
      · have hs := (refinesB_sound href).2.1
        show Refines _ (lookup (s.tbl.getD d []) j)
        rw [hlook]
        exact hs
  | [], [], _ :: _, _, _, hg, _ => by simp [goodVecFrom] at hg
  | [], _ :: _, [], _, _, hg, _ => by simp [goodVecFrom] at hg
  | [], _ :: _, _ :: _, _, _, _, hlen => by simp at hlen
  | _ :: _, [], [], _, _, _, hlen => by simp at hlen
  | _ :: _, [], _ :: _, _, _, hg, _ => by simp [goodVecFrom] at hg
  | _ :: _, _ :: _, [], _, _, _, hlen => by simp at hlen

end SparseSpace.Exact
