import SparseSpace.Lemmas.CombiBasic
/-! The update step keeps the invariant (C01). -/
namespace SparseSpace

/-! ### the admissibility test -/

def adm (dim : Nat) (lmin : Int) (old : List LV) (a : LV) : Bool :=
  (List.range dim).all fun k =>
    let c := bump a k (-1)
    !( !(old.contains c) && !(c.getD k 0 < lmin) )

theorem admissible_eq (s : CS) (a : LV) : s.admissible a = adm s.dim s.lmin s.old a := rfl

theorem adm_iff (dim : Nat) (lmin : Int) (old : List LV) (a : LV) :
    adm dim lmin old a = true ↔
      ∀ k < dim, bump a k (-1) ∈ old ∨ (bump a k (-1)).getD k 0 < lmin := by
  unfold adm
  rw [List.all_eq_true]
  constructor
  · intro h k hk
    have := h k (List.mem_range.mpr hk)
    simp only [Bool.not_and, Bool.not_not, Bool.or_eq_true, List.contains_eq_mem,
      decide_eq_true_eq] at this
    exact this
  · intro h k hk
    have := h k (List.mem_range.mp hk)
    simp only [Bool.not_and, Bool.not_not, Bool.or_eq_true, List.contains_eq_mem,
      decide_eq_true_eq]
    exact this

/-! ### one refinement step and the fold over the dimensions -/

theorem refineScheme_fields (s : CS) (d : Nat) (lv : LV) :
    (s.refineScheme d lv).1.dim = s.dim ∧ (s.refineScheme d lv).1.lmin = s.lmin ∧
    (s.refineScheme d lv).1.old = s.old := by
  unfold CS.refineScheme
  simp only []
  split <;> exact ⟨rfl, rfl, rfl⟩

theorem refineScheme_active (s : CS) (d : Nat) (lv : LV) :
    ((s.refineScheme d lv).1.active.Nodup ↔ s.active.Nodup) ∧
    ∀ a, a ∈ (s.refineScheme d lv).1.active ↔
      a ∈ s.active ∨ (a = bump lv d 1 ∧ adm s.dim s.lmin s.old a = true) := by
  unfold CS.refineScheme
  simp only []
  by_cases hadm : s.admissible (bump lv d 1) = true
  · rw [if_pos hadm]
    simp only []
    rw [admissible_eq] at hadm
    by_cases hc : s.active.contains (bump lv d 1) = true
    · rw [if_pos hc]
      refine ⟨Iff.rfl, ?_⟩
      intro a
      constructor
      · exact Or.inl
      · rintro (h | ⟨rfl, _⟩)
        · exact h
        · simpa using hc
    · rw [if_neg hc]
      have hc' : bump lv d 1 ∉ s.active := by simpa using hc
      constructor
      · rw [List.nodup_append]
        constructor
        · exact fun h => h.1
        · intro h
          refine ⟨h, by simp, ?_⟩
          intro x hx y hy
          simp only [List.mem_singleton] at hy
          rw [hy]; intro e; apply hc'; rw [← e]; exact hx
      · intro a
        simp only [List.mem_append, List.mem_singleton]
        constructor
        · rintro (h | h)
          · exact Or.inl h
          · exact Or.inr ⟨h, by rw [h]; exact hadm⟩
        · rintro (h | h)
          · exact Or.inl h
          · exact Or.inr h.1
  · rw [if_neg hadm]
    refine ⟨Iff.rfl, ?_⟩
    intro a
    constructor
    · exact Or.inl
    · rintro (h | ⟨rfl, h⟩)
      · exact h
      · rw [admissible_eq] at hadm
        exact absurd h hadm

def refFold (s : CS) (lv : LV) (ds : List Nat) : CS :=
  ds.foldl (fun s d => (s.refineScheme d lv).1) s

theorem refineDims_fst_aux (lv : LV) : ∀ (ds : List Nat) (s : CS) (acc : List Nat),
    (ds.foldl (fun (acc : CS × List Nat) d =>
      let r := acc.1.refineScheme d lv
      (r.1, if r.2 then acc.2 ++ [d] else acc.2)) (s, acc)).1 = refFold s lv ds
  | [], s, acc => rfl
  | d :: ds, s, acc => by
    rw [List.foldl_cons]
    exact refineDims_fst_aux lv ds _ _

theorem refineDims_fst (s : CS) (lv : LV) (ds : List Nat) : (s.refineDims lv ds).1 = refFold s lv ds :=
  refineDims_fst_aux lv ds s []

theorem refFold_spec (lv : LV) : ∀ (ds : List Nat) (s : CS),
    (refFold s lv ds).dim = s.dim ∧ (refFold s lv ds).lmin = s.lmin ∧ (refFold s lv ds).old = s.old ∧
    (s.active.Nodup → (refFold s lv ds).active.Nodup) ∧
    ∀ a, a ∈ (refFold s lv ds).active ↔
      a ∈ s.active ∨ ∃ d ∈ ds, a = bump lv d 1 ∧ adm s.dim s.lmin s.old a = true
  | [], s => by simp [refFold]
  | d :: ds, s => by
    have hstep : refFold s lv (d :: ds) = refFold (s.refineScheme d lv).1 lv ds := rfl
    obtain ⟨h1, h2, h3, h4, h5⟩ := refFold_spec lv ds (s.refineScheme d lv).1
    obtain ⟨f1, f2, f3⟩ := refineScheme_fields s d lv
    obtain ⟨g1, g2⟩ := refineScheme_active s d lv
    rw [hstep]
    refine ⟨h1.trans f1, h2.trans f2, h3.trans f3, fun h => h4 (g1.mpr h), ?_⟩
    intro a
    rw [h5, g2, f1, f2, f3]
    simp only [List.mem_cons, exists_eq_or_imp]
    tauto

/-! ### `update` -/

theorem update_not_refinable (s : CS) (lv : LV) (h : lv ∉ s.active) : s.update lv = (s, none) := by
  unfold CS.update
  simp [h]

theorem update_fst_of_mem (s : CS) (lv : LV) (h : lv ∈ s.active) :
    (s.update lv).1 = refFold { s with active := s.active.erase lv,
                                       old := if s.old.contains lv then s.old else s.old ++ [lv] }
                        lv (List.range s.dim) := by
  unfold CS.update
  have : (!(s.active.contains lv)) = false := by simpa using h
  rw [this]
  simp only [Bool.false_eq_true, if_false]
  exact refineDims_fst _ _ _

theorem update_dim_lmin (s : CS) (lv : LV) : (s.update lv).1.dim = s.dim ∧ (s.update lv).1.lmin = s.lmin := by
  by_cases h : lv ∈ s.active
  · rw [update_fst_of_mem s lv h]
    obtain ⟨h1, h2, _⟩ := refFold_spec lv (List.range s.dim)
      { s with active := s.active.erase lv, old := if s.old.contains lv then s.old else s.old ++ [lv] }
    exact ⟨h1, h2⟩
  · rw [update_not_refinable s lv h]; exact ⟨rfl, rfl⟩

theorem runOps_dim (s : CS) (ops : List LV) : (runOps s ops).dim = s.dim := by
  induction ops generalizing s with
  | nil => rfl
  | cons lv ops ih =>
    have : runOps s (lv :: ops) = runOps (s.update lv).1 ops := rfl
    rw [this, ih, (update_dim_lmin s lv).1]

theorem runOps_lmin (s : CS) (ops : List LV) : (runOps s ops).lmin = s.lmin := by
  induction ops generalizing s with
  | nil => rfl
  | cons lv ops ih =>
    have : runOps s (lv :: ops) = runOps (s.update lv).1 ops := rfl
    rw [this, ih, (update_dim_lmin s lv).2]

/-! ### the invariant is kept -/

theorem bump_ne_self (l : LV) (d : Nat) (hd : d < l.length) : bump l d 1 ≠ l := by
  intro e
  have := sum_bump l d 1 hd
  rw [e] at this
  omega

theorem inv_update_mem (s : CS) (lv : LV) (h : SchemeInv s) (hlv : lv ∈ s.active) :
    SchemeInv (s.update lv).1 := by
  rw [update_fst_of_mem s lv hlv]
  have hlvO : lv ∉ s.old := h.disjoint lv hlv
  have hc : s.old.contains lv = false := by simpa using hlvO
  rw [hc]
  simp only [Bool.false_eq_true, if_false]
  obtain ⟨e1, e2, e3, e4, e5⟩ := refFold_spec lv (List.range s.dim)
    { s with active := s.active.erase lv, old := s.old ++ [lv] }
  generalize refFold { s with active := s.active.erase lv, old := s.old ++ [lv] } lv (List.range s.dim) = s'
    at e1 e2 e3 e4 e5
  simp only [] at e1 e2 e3 e4 e5
  -- basic facts
  have hlvI : lv ∈ I s := by simp [I, hlv]
  have hlvlen : lv.length = s.dim := (h.shape lv hlvI).1
  have hlvge : geAll s.lmin lv := (h.shape lv hlvI).2
  have hmemE : ∀ a, a ∈ s.active.erase lv ↔ a ∈ s.active ∧ a ≠ lv := by
    intro a
    rw [h.nodupA.mem_erase_iff]
    tauto
  -- membership in the new active set
  have hA : ∀ a, a ∈ s'.active ↔ (a ∈ s.active ∧ a ≠ lv) ∨
      ∃ d < s.dim, a = bump lv d 1 ∧ adm s.dim s.lmin (s.old ++ [lv]) a = true := by
    intro a
    rw [e5, hmemE]
    simp only [List.mem_range]
  have hO : ∀ a, a ∈ s'.old ↔ a ∈ s.old ∨ a = lv := by
    intro a; rw [e3]; simp
  -- membership in the new index set
  have hI : ∀ a, a ∈ I s' ↔ a ∈ I s ∨
      ∃ d < s.dim, a = bump lv d 1 ∧ adm s.dim s.lmin (s.old ++ [lv]) a = true := by
    intro a
    unfold I
    rw [List.mem_append, List.mem_append, hA, hO]
    constructor
    · rintro ((h1 | h1) | (h1 | h1))
      · exact Or.inl (Or.inl h1)
      · rw [h1]; exact Or.inl (Or.inr hlv)
      · exact Or.inl (Or.inr h1.1)
      · exact Or.inr h1
    · rintro ((h1 | h1) | h1)
      · exact Or.inl (Or.inl h1)
      · by_cases ha : a = lv
        · exact Or.inl (Or.inr ha)
        · exact Or.inr (Or.inl ⟨h1, ha⟩)
      · exact Or.inr (Or.inr h1)
  have hnewNotI : ∀ d < s.dim, bump lv d 1 ∉ I s := fun d hd => h.noFwd lv hlv d hd
  constructor
  · -- shape
    intro l hl
    rw [e1, e2]
    rcases (hI l).mp hl with hl | ⟨d, hd, rfl, _⟩
    · exact h.shape l hl
    · exact ⟨by rw [length_bump, hlvlen], geAll_bump_one s.lmin lv d hlvge⟩
  · -- nodupA
    exact e4 (h.nodupA.erase lv)
  · -- nodupO
    rw [e3, List.nodup_append]
    refine ⟨h.nodupO, by simp, ?_⟩
    intro a ha b hb
    simp only [List.mem_singleton] at hb
    rw [hb]; intro e; apply hlvO; rw [← e]; exact ha
  · -- disjoint
    intro l hl hlo
    rw [hO] at hlo
    rcases (hA l).mp hl with ⟨hla, hne⟩ | ⟨d, hd, rfl, _⟩
    · rcases hlo with hlo | hlo
      · exact h.disjoint l hla hlo
      · exact hne hlo
    · rcases hlo with hlo | hlo
      · exact hnewNotI d hd (mem_I_of_old hlo)
      · exact bump_ne_self lv d (by omega) hlo
  · -- backOld
    intro l hl d hd hlt
    rw [e1] at hd
    rw [e2] at hlt
    rw [hO]
    rcases (hI l).mp hl with hl | ⟨j, hj, rfl, hadm⟩
    · exact Or.inl (h.backOld l hl d hd hlt)
    · rw [adm_iff] at hadm
      rcases hadm d hd with h1 | h1
      · simpa using h1
      · exfalso
        rw [getD_bump_self _ d (-1) (by rw [length_bump]; omega)] at h1
        omega
  · -- noFwd
    intro l hl d hd hfw
    rw [e1] at hd
    rcases (hA l).mp hl with ⟨hla, hne⟩ | ⟨j, hj, rfl, hadmj⟩
    · have hlI : l ∈ I s := by simp [I, hla]
      have hllen : l.length = s.dim := (h.shape l hlI).1
      rcases (hI _).mp hfw with h1 | ⟨j, hj, hej, hadm⟩
      · exact h.noFwd l hla d hd h1
      · rw [adm_iff] at hadm
        have hback : bump (bump l d 1) d (-1) = l := bump_bump_cancel l d 1
        rcases hadm d hd with h1 | h1
        · rw [hback] at h1
          simp only [List.mem_append, List.mem_singleton] at h1
          rcases h1 with h1 | h1
          · exact h.disjoint l hla h1
          · exact hne h1
        · rw [hback] at h1
          have := geAll_getD s.lmin l d (h.shape l hlI).2 (by omega)
          omega
    · have hlen : (bump lv j 1).length = s.dim := by rw [length_bump, hlvlen]
      rcases (hI _).mp hfw with h1 | ⟨j', hj', hej, _⟩
      · have hgt : s.lmin < (bump (bump lv j 1) d 1).getD d 0 := by
          rw [getD_bump_self _ d 1 (by omega)]
          have := geAll_getD s.lmin (bump lv j 1) d (geAll_bump_one s.lmin lv j hlvge) (by omega)
          omega
        have := h.backOld _ h1 d hd hgt
        have e : bump (bump (bump lv j 1) d 1) d (-1) = bump lv j 1 := bump_bump_cancel _ d 1
        rw [e] at this
        exact hnewNotI j hj (mem_I_of_old this)
      · have s1 := sum_bump (bump lv j 1) d 1 (by omega)
        have s2 := sum_bump lv j 1 (by omega)
        have s3 := sum_bump lv j' 1 (by omega)
        rw [hej, s3] at s1
        omega
  · -- nonempty
    intro e
    have : lv ∈ I s' := by
      unfold I
      rw [List.mem_append, hO]
      exact Or.inl (Or.inr rfl)
    rw [e] at this
    simp at this

theorem inv_update (s : CS) (lv : LV) (h : SchemeInv s) : SchemeInv (s.update lv).1 := by
  by_cases hlv : lv ∈ s.active
  · exact inv_update_mem s lv h hlv
  · rw [update_not_refinable s lv hlv]; exact h

end SparseSpace
