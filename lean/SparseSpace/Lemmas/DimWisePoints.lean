import SparseSpace.Lemmas.DimWiseStep
/-!
# The 1-D point sets of the component grids (C03): monotone threshold ⇒ nested; end points; sorted; fuel
-/
namespace SparseSpace

/-! ## the level threshold is monotone in the component level -/

/-- `max(l - sub(l), 1)` is non-decreasing in `l` for the subtraction value of versions 6, 7, 8
(`modify_according_to_levelvec` applied to any number `m` that does not depend on `l`), for ALL integers -/
theorem modify_mono (m lmin lmaxd ml l l' : Int) (h : l ≤ l') :
    max (l - modifyLv m l lmin lmaxd ml) 1 ≤ max (l' - modifyLv m l' lmin lmaxd ml) 1 := by
  unfold modifyLv
  simp only []
  split_ifs <;> omega

theorem keepEnd_mono_of_le (l1 : Nat) (l sub l' sub' : Int) (h : max (l - sub) 1 ≤ max (l' - sub') 1)
    (hk : keepEnd l1 l sub = true) : keepEnd l1 l' sub' = true := by
  simp only [keepEnd, decide_eq_true_eq] at hk ⊢
  omega

/-- **threshold_mono**: for each of the versions 2, 3, 6, 7, 8 — and any rounding `v3r`, any coarsening values,
any `max_level` — an end point kept at component level `l` is kept at every level `l' ≥ l` -/
theorem subValue_mono (version dim d : Nat) (v3r : Int → Nat → Nat → Int) (lmin lmaxd : Int) (mcs : List Int)
    (ml : Nat) (l l' : Int) (h : l ≤ l') (l1 : Nat)
    (hk : keepEnd l1 l (subValue version dim d v3r lmin lmaxd mcs ml l).1 = true) :
    keepEnd l1 l' (subValue version dim d v3r lmin lmaxd mcs ml l').1 = true := by
  unfold subValue at hk ⊢
  simp only [] at hk ⊢
  split at hk <;> simp only [] at hk ⊢
  · exact keepEnd_mono_of_le _ _ _ _ _ (by omega) hk
  · exact keepEnd_mono_of_le _ _ _ _ _ (by omega) hk
  · exact keepEnd_mono_of_le _ _ _ _ _ (modify_mono _ _ _ _ _ _ h) hk
  · exact keepEnd_mono_of_le _ _ _ _ _ (modify_mono _ _ _ _ _ _ h) hk
  · exact keepEnd_mono_of_le _ _ _ _ _ (modify_mono _ _ _ _ _ _ h) hk
  · exact keepEnd_mono_of_le _ _ _ _ _ (by omega) hk

/-! ## nestedness -/

theorem filterMap_sublist_of_imp {α β : Type} (f g : α → Option β) : ∀ (L : List α),
    (∀ x ∈ L, ∀ y, f x = some y → g x = some y) → (L.filterMap f).Sublist (L.filterMap g)
  | [], _ => List.Sublist.slnil
  | x :: xs, h => by
    have ih := filterMap_sublist_of_imp f g xs (fun z hz => h z (by simp [hz]))
    cases hf : f x with
    | none =>
      rw [List.filterMap_cons_none hf]
      cases hg : g x with
      | none => rw [List.filterMap_cons_none hg]; exact ih
      | some y => rw [List.filterMap_cons_some hg]; exact List.Sublist.cons _ ih
    | some y =>
      rw [List.filterMap_cons_some hf, List.filterMap_cons_some (h x (by simp) y hf)]
      exact List.Sublist.cons_cons _ ih

/-- **dimPoints_nested**: the 1-D point list (with levels) of component level `l` is a sublist of the one of
every level `l' ≥ l` — for every state, dimension, version -/
theorem dimPoints_nested (st : DW) (cfg : PtCfg) (d : Nat) (l l' : Int) (h : l ≤ l') :
    (st.dimPoints cfg d l).Sublist (st.dimPoints cfg d l') := by
  unfold DW.dimPoints
  simp only []
  cases st.objsOf d with
  | nil => exact List.Sublist.slnil
  | cons x0 xs =>
    simp only []
    apply List.Sublist.cons_cons
    apply filterMap_sublist_of_imp
    intro p _ y hy
    by_cases hk : (st.keepAt cfg d (x0 :: xs) p.2 p.1 l).1 = true
    · simp only [hk, if_true] at hy
      have : (st.keepAt cfg d (x0 :: xs) p.2 p.1 l').1 = true := by
        unfold DW.keepAt at hk ⊢
        exact subValue_mono _ _ _ _ _ _ _ _ _ _ h _ hk
      simp only [this, if_true]; exact hy
    · simp only [hk] at hy; simp at hy

theorem dimCoords_nested (st : DW) (cfg : PtCfg) (d : Nat) (l l' : Int) (h : l ≤ l') (y : Rat)
    (hy : y ∈ st.dimCoords cfg d l) : y ∈ st.dimCoords cfg d l' := by
  unfold DW.dimCoords at hy ⊢
  exact ((dimPoints_nested st cfg d l l' h).map _).subset hy

/-! ## end points and sortedness (from the tiling invariant) -/

theorem til_ends : ∀ (L : List Ival) {a : Rat} {lo : Nat} {b : Rat} {hi : Nat}, Til a lo b hi L →
    (L.map (·.e)).Pairwise (· < ·) ∧ (∀ e ∈ L.map (·.e), a < e ∧ e ≤ b)
  | [], _, _, _, _, h => absurd h (by simp [Til])
  | [x], a, lo, b, hi, h => by
    obtain ⟨h1, _, h3, h4, _⟩ := h
    refine ⟨by simp, ?_⟩
    intro e he; simp at he; subst he
    exact ⟨by rw [← h1]; exact h3, by rw [h4]⟩
  | x :: y :: xs, a, lo, b, hi, h => by
    obtain ⟨h1, _, h3, h4⟩ := h
    obtain ⟨ih1, ih2⟩ := til_ends (y :: xs) h4
    refine ⟨?_, ?_⟩
    · rw [List.map_cons, List.pairwise_cons]
      exact ⟨fun e he => (ih2 e he).1, ih1⟩
    · intro e he
      rw [List.map_cons, List.mem_cons] at he
      rcases he with rfl | he
      · have := ih2 y.e (by simp)
        exact ⟨by rw [← h1]; exact h3, by linarith [this.1, this.2]⟩
      · have := ih2 e he
        exact ⟨by rw [← h1]; linarith [this.1], this.2⟩

theorem filterMap_zipIdx_sublist_map {β : Type} (g : Ival → β) (k : Ival × Nat → Bool) : ∀ (L : List Ival) (n : Nat),
    ((L.zipIdx n).filterMap (fun p => if k p then some (g p.1) else none)).Sublist (L.map g)
  | [], _ => List.Sublist.slnil
  | x :: xs, n => by
    have ih := filterMap_zipIdx_sublist_map g k xs (n + 1)
    simp only [List.zipIdx_cons, List.map_cons]
    by_cases hk : k (x, n) = true
    · rw [List.filterMap_cons_some (b := g x) (by simp [hk])]
      exact List.Sublist.cons_cons _ ih
    · rw [List.filterMap_cons_none (by simp [hk])]
      exact List.Sublist.cons _ ih

/-- **dimPoints_sorted**: on a tiling the coordinates of every component level are strictly ascending -/
theorem dimCoords_sorted (st : DW) (cfg : PtCfg) (d : Nat) (l : Int) {a b : Rat}
    (ht : Til a 0 b 0 (st.objsOf d)) : (st.dimCoords cfg d l).Pairwise (· < ·) := by
  unfold DW.dimCoords DW.dimPoints
  simp only []
  cases hobjs : st.objsOf d with
  | nil => rw [hobjs] at ht; exact absurd ht (by simp [Til])
  | cons x0 xs =>
    rw [hobjs] at ht
    obtain ⟨e1, e2⟩ := til_ends _ ht
    have hs : x0.s = a := by
      cases xs with
      | nil => exact ht.1
      | cons _ _ => exact ht.1
    simp only [List.map_cons, List.map_filterMap]
    have hsub : (List.filterMap (fun (p : Ival × Nat) =>
        Option.map (fun (q : Rat × Nat) => q.1)
          (if (st.keepAt cfg d (x0 :: xs) p.2 p.1 l).1 = true then some (p.1.e, p.1.l1) else none))
        ((x0 :: xs).zipIdx)).Sublist ((x0 :: xs).map (·.e)) := by
      have := filterMap_zipIdx_sublist_map (fun x => x.e)
        (fun p => (st.keepAt cfg d (x0 :: xs) p.2 p.1 l).1) (x0 :: xs) 0
      convert this using 2
      rename_i p _
      by_cases hk : (st.keepAt cfg d (x0 :: xs) p.2 p.1 l).1 = true <;> simp [hk]
    rw [List.pairwise_cons]
    refine ⟨?_, e1.sublist hsub⟩
    intro e he
    have := e2 e (hsub.subset he)
    rw [hs]; exact this.1

/-- **dimPoints_endpoints**: on a tiling of `[a, b]` every component level contains both end points of the
domain, as first and last point, with level 0 -/
theorem dimPoints_endpoints (st : DW) (cfg : PtCfg) (d : Nat) (l : Int) {a b : Rat}
    (ht : Til a 0 b 0 (st.objsOf d)) :
    (st.dimPoints cfg d l).head? = some (a, 0) ∧ (st.dimPoints cfg d l).getLast? = some (b, 0) := by
  unfold DW.dimPoints
  simp only []
  cases hobjs : st.objsOf d with
  | nil => rw [hobjs] at ht; exact absurd ht (by simp [Til])
  | cons x0 xs =>
    rw [hobjs] at ht
    simp only []
    have hs : x0.s = a ∧ x0.l0 = 0 := by
      cases xs with
      | nil => exact ⟨ht.1, ht.2.1⟩
      | cons _ _ => exact ⟨ht.1, ht.2.1⟩
    refine ⟨by simp [hs.1, hs.2], ?_⟩
    -- the last object ends at `b` with level 0 and is always kept
    obtain ⟨c, hd, hl⟩ := til_chainOK _ ht
    have hne : (x0 :: xs) ≠ [] := by simp
    obtain ⟨ys, z, hz⟩ : ∃ ys z, x0 :: xs = ys ++ [z] := ⟨_, _, (List.dropLast_append_getLast hne).symm⟩
    have hzl := hl z (by rw [hz]; simp)
    have hkeep : ∀ i, (st.keepAt cfg d (x0 :: xs) i z l).1 = true := by
      intro i
      unfold DW.keepAt keepEnd
      simp only [hzl.2, decide_eq_true_eq]
      omega
    rw [hz, List.zipIdx_append, List.filterMap_append]
    simp only [List.zipIdx_cons, List.zipIdx_nil, List.filterMap_cons, List.filterMap_nil]
    rw [← hz]
    simp only [hkeep, if_true, hzl.1, hzl.2]
    rw [← List.cons_append, List.getLast?_append]
    simp

/-- **dimPoints_level_only**: the `d`-th 1-D grid of a component grid depends on the level vector through its
`d`-th entry only -/
theorem gridsFrom_getElem (st : DW) (cfg : PtCfg) : ∀ (lv : LV) (k d : Nat),
    (st.gridsFrom cfg k lv)[d]? = (lv[d]?).map (fun l => st.dimCoords cfg (k + d) l)
  | [], _, _ => by simp [DW.gridsFrom]
  | l :: ls, k, 0 => by simp [DW.gridsFrom]
  | l :: ls, k, d+1 => by
    simp only [DW.gridsFrom, List.getElem?_cons_succ]
    rw [gridsFrom_getElem st cfg ls (k + 1) d]
    congr 2
    funext l; congr 1; omega

theorem dimPoints_level_only (st : DW) (cfg : PtCfg) (lv lv' : LV) (d : Nat) (h : lv[d]? = lv'[d]?) :
    (st.grids cfg lv)[d]? = (st.grids cfg lv')[d]? := by
  unfold DW.grids
  rw [gridsFrom_getElem, gridsFrom_getElem, h]

/-! ## the `while True` loops of versions 6, 7, 8 end within the fuel -/

theorem cntGe_nonneg (bound : Nat) (mcs : List Int) (thr : Int) : 0 ≤ cntGe bound mcs thr := by
  unfold cntGe; omega

/-- with at least one dimension and non-negative coarsening values the count at a threshold `≤ 0` is positive -/
theorem cntGe_pos (bound : Nat) (mcs : List Int) (thr : Int) (hb : 1 ≤ bound) (hne : mcs ≠ [])
    (hnn : ∀ c ∈ mcs, 0 ≤ c) (ht : thr ≤ 0) : 1 ≤ cntGe bound mcs thr := by
  unfold cntGe
  cases mcs with
  | nil => exact absurd rfl hne
  | cons c cs =>
    cases bound with
    | zero => omega
    | succ n =>
      have hc := hnn c (by simp)
      have : decide (c ≥ thr) = true := by simp; omega
      simp only [List.take_succ_cons, List.filter_cons, this, if_true, List.length_cons]
      omega

theorem subLoop7_done (dim : Nat) (mcs : List Int) (sv : Int) (hd : 1 ≤ dim) (hne : mcs ≠ [])
    (hnn : ∀ c ∈ mcs, 0 ≤ c) : ∀ (fuel : Nat) (m ps : Int), 0 ≤ m → 0 ≤ ps → (sv ≤ m → m - sv ≤ ps) →
    2 * sv + 1 ≤ fuel + m → 1 ≤ fuel → (subLoop7 dim mcs sv fuel m ps).2 = true
  | 0, _, _, _, _, _, _, h => by omega
  | f+1, m, ps, hm, hps, hinv, hfuel, _ => by
    unfold subLoop7
    simp only []
    have hc0 := cntGe_nonneg dim mcs (sv - m)
    by_cases hbr : ps + cntGe dim mcs (sv - m) ≥ sv
    · simp [hbr]
    · simp only [hbr, if_false]
      have hle : ps + cntGe dim mcs (sv - m) ≤ sv := by omega
      simp only [hle, if_true]
      have hmlt : m < sv ∨ sv ≤ m := by omega
      have hf1 : 1 ≤ f := by
        by_contra hh
        have : f = 0 := by omega
        subst this
        have h1 : sv ≤ m := by omega
        have := cntGe_pos dim mcs (sv - m) hd hne hnn (by omega)
        have := hinv h1
        omega
      apply subLoop7_done dim mcs sv hd hne hnn f (m + 1) _ (by omega) (by omega) ?_ (by omega) hf1
      intro h1
      by_cases h2 : sv ≤ m
      · have := cntGe_pos dim mcs (sv - m) hd hne hnn (by omega)
        have := hinv h2
        omega
      · omega

theorem subLoop6_done (dim d : Nat) (mcs : List Int) (sv : Int) (hd : 1 ≤ dim) (hne : mcs ≠ [])
    (hnn : ∀ c ∈ mcs, 0 ≤ c) : ∀ (fuel : Nat) (m ps : Int), 0 ≤ m → 0 ≤ ps → (sv < m → m - 1 - sv ≤ ps) →
    2 * sv + 2 ≤ fuel + m → 1 ≤ fuel → (subLoop6 dim d mcs sv fuel m ps).2 = true
  | 0, _, _, _, _, _, _, h => by omega
  | f+1, m, ps, hm, hps, hinv, hfuel, _ => by
    unfold subLoop6
    simp only []
    have hc0 := cntGe_nonneg dim mcs (sv - (m - 1))
    have hc1 := cntGe_nonneg (d + 1) mcs (sv - m)
    set ps' : Int := if m > 0 then ps + cntGe dim mcs (sv - (m - 1)) else ps with hps'
    have hps'0 : 0 ≤ ps' := by rw [hps']; split_ifs <;> omega
    have hps'inv : sv ≤ m → m - sv ≤ ps' ∨ m = 0 := by
      intro h1
      rw [hps']
      by_cases hm0 : m > 0
      · simp only [hm0, if_true]
        left
        by_cases h2 : sv < m
        · have := hinv h2
          have := cntGe_pos dim mcs (sv - (m - 1)) hd hne hnn (by omega)
          omega
        · omega
      · right; omega
    by_cases hbr : ps' + cntGe (d + 1) mcs (sv - m) ≥ sv
    · simp [hbr]
    · simp only [hbr, if_false]
      have hle : ps' + cntGe (d + 1) mcs (sv - m) ≤ sv := by omega
      simp only [hle, if_true]
      have hf1 : 1 ≤ f := by
        by_contra hh
        have : f = 0 := by omega
        subst this
        have h1 : sv ≤ m := by omega
        rcases hps'inv h1 with h2 | h2
        · have : m ≥ 2 * sv + 1 := by omega
          omega
        · omega
      apply subLoop6_done dim d mcs sv hd hne hnn f (m + 1) ps' (by omega) hps'0 ?_ (by omega) hf1
      intro h1
      have h2 : sv ≤ m := by omega
      rcases hps'inv h2 with h3 | h3
      · omega
      · omega

theorem subLoop8_done (dim d : Nat) (mcs : List Int) (sv ml : Int) (hd : 1 ≤ dim) (hne : mcs ≠ [])
    (hnn : ∀ c ∈ mcs, 0 ≤ c) (hml : 2 ≤ ml) : ∀ (fuel : Nat) (m ps : Int), 0 ≤ m → 0 ≤ ps →
    (sv < m → m - 1 - sv ≤ ps) → 2 * sv + 2 ≤ fuel + m → 1 ≤ fuel →
    (subLoop8 dim d mcs sv ml fuel m ps).2 = true
  | 0, _, _, _, _, _, _, h => by omega
  | f+1, m, ps, hm, hps, hinv, hfuel, _ => by
    unfold subLoop8
    simp only []
    have hc0 := cntGe_nonneg dim mcs (sv - (m - 1))
    have hc1 := cntGe_nonneg (d + 1) mcs (sv - m)
    set ps' : Int := if m > 0 then ps + min (ml - 1) (cntGe dim mcs (sv - (m - 1))) else ps with hps'
    have hps'0 : 0 ≤ ps' := by rw [hps']; split_ifs <;> omega
    have hps'inv : sv ≤ m → m - sv ≤ ps' ∨ m = 0 := by
      intro h1
      rw [hps']
      by_cases hm0 : m > 0
      · simp only [hm0, if_true]
        left
        by_cases h2 : sv < m
        · have := hinv h2
          have := cntGe_pos dim mcs (sv - (m - 1)) hd hne hnn (by omega)
          omega
        · omega
      · right; omega
    by_cases hbr : ps' + min (ml - 1) (cntGe (d + 1) mcs (sv - m)) ≥ sv
    · simp [hbr]
    · simp only [hbr, if_false]
      have hle : ps' + min (ml - 1) (cntGe (d + 1) mcs (sv - m)) ≤ sv := by omega
      simp only [hle, if_true]
      have hf1 : 1 ≤ f := by
        by_contra hh
        have : f = 0 := by omega
        subst this
        have h1 : sv ≤ m := by omega
        rcases hps'inv h1 with h2 | h2
        · have : m ≥ 2 * sv + 1 := by omega
          omega
        · omega
      apply subLoop8_done dim d mcs sv ml hd hne hnn hml f (m + 1) ps' (by omega) hps'0 ?_ (by omega) hf1
      intro h1
      have h2 : sv ≤ m := by omega
      rcases hps'inv h2 with h3 | h3
      · omega
      · omega

/-- **subValue_fuel_enough**: for the versions 2, 3, 6, 7, 8, at least one dimension, non-negative coarsening
values (they are a maximum with 0), `lmax_d ≥ max_level ≥ 2`, every `while True` loop ends by `break` within the
fuel the model gives it -/
theorem subValue_fuel_enough (version dim d : Nat) (v3r : Int → Nat → Nat → Int) (lmin lmaxd : Int) (mcs : List Int)
    (ml : Nat) (l : Int) (hv : version = 2 ∨ version = 3 ∨ version = 6 ∨ version = 7 ∨ version = 8)
    (hd : 1 ≤ dim) (hne : mcs ≠ []) (hnn : ∀ c ∈ mcs, 0 ≤ c) (hsv : (ml : Int) ≤ lmaxd) (hml : 2 ≤ ml) :
    (subValue version dim d v3r lmin lmaxd mcs ml l).2 = true := by
  have hfuel : 1 ≤ subFuel (lmaxd - ml) ∧ 2 * (lmaxd - ml) + 2 ≤ (subFuel (lmaxd - ml) : Int) := by
    unfold subFuel; omega
  rcases hv with rfl | rfl | rfl | rfl | rfl
  · rfl
  · rfl
  · simp only [subValue]
    exact subLoop6_done dim d mcs _ hd hne hnn _ 0 0 (le_refl _) (le_refl _) (by omega) (by omega) hfuel.1
  · simp only [subValue]
    exact subLoop7_done dim mcs _ hd hne hnn _ 0 0 (le_refl _) (le_refl _) (by omega) (by omega) hfuel.1
  · simp only [subValue]
    exact subLoop8_done dim d mcs _ ml hd hne hnn (by omega) _ 0 0 (le_refl _) (le_refl _) (by omega) (by omega) hfuel.1

end SparseSpace
