import SparseSpace.Model.PyRt
import SparseSpace.Lemmas.CombiBasic
/-!
# Facts about the runtime helpers `Model/PyRt` used by the translator tie (C01gen)

Each lemma rewrites a shape the translator emits (a `for` loop as `List.foldl` / `PyRt.forLoop`, an index
operation, a set / dict operation) into the shape used by the hand-written model `Model/Combi`.
-/
namespace SparseSpace
open SparseSpace.PyRt

/-! ### loops -/

/-- `acc = []; for x in xs: acc.extend(f(x))` -/
theorem foldl_append_flatMap {α β : Type} (f : α → List β) : ∀ (xs : List α) (init : List β),
    List.foldl (fun acc x => acc ++ f x) init xs = init ++ xs.flatMap f
  | [], init => by simp
  | x :: xs, init => by simp [foldl_append_flatMap f xs, List.append_assoc]

/-- `acc = []; for x in xs: acc.append(f(x))` -/
theorem foldl_append_map {α β : Type} (f : α → β) : ∀ (xs : List α) (init : List β),
    List.foldl (fun acc x => acc ++ [f x]) init xs = init ++ xs.map f
  | [], init => by simp
  | x :: xs, init => by simp [foldl_append_map f xs, List.append_assoc]

/-- `for x in xs: if p(x): acc.append(f(x))` -/
theorem foldl_append_filterMap {α β : Type} (p : α → Bool) (f : α → β) : ∀ (xs : List α) (init : List β),
    List.foldl (fun acc x => if p x then acc ++ [f x] else acc) init xs = init ++ (xs.filter p).map f
  | [], init => by simp
  | x :: xs, init => by
    by_cases h : p x <;> simp [h, foldl_append_filterMap p f xs, List.append_assoc]

/-- `for x in xs: if p(x): return r` with no loop state -/
theorem forLoop_any {α ρ : Type} (p : α → Bool) (r : ρ) : ∀ xs : List α,
    forLoop xs () (fun _ x => if p x then Sum.inl r else Sum.inr ()) = if xs.any p then Sum.inl r else Sum.inr ()
  | [] => by simp [forLoop]
  | x :: xs => by
    by_cases h : p x <;> simp [forLoop, h, forLoop_any p r xs]

/-! ### indexing with a loop index -/

theorem range_eq (n : Int) : PyRt.range n = (List.range n.toNat).map Int.ofNat := rfl

theorem getItem_ofNat (l : List Int) (k : Nat) : getItem l (Int.ofNat k) = l.getD k 0 := by
  unfold getItem pos?
  by_cases h : k < l.length
  · simp [h]
  · simp [h]

theorem setItem_ofNat (l : List Int) (k : Nat) (v : Int) : setItem l (Int.ofNat k) v = l.set k v := by
  unfold setItem pos?
  by_cases h : k < l.length
  · simp [h]
  · simp [h]
    rw [List.set_eq_of_length_le (by omega)]

theorem set_getD_eq_bump : ∀ (l : List Int) (k : Nat) (δ : Int), l.set k (l.getD k 0 + δ) = bump l k δ
  | [], k, δ => by simp
  | x :: l, 0, δ => by simp
  | x :: l, k + 1, δ => by simpa using set_getD_eq_bump l k δ

/-- `l[k] += δ` / `l[k] = l[k] + δ` for a loop index `k` -/
theorem setItem_getItem_bump (l : List Int) (k : Nat) (δ : Int) :
    setItem l (Int.ofNat k) (getItem l (Int.ofNat k) + δ) = bump l k δ := by
  rw [setItem_ofNat, getItem_ofNat, set_getD_eq_bump]

theorem setItem_getD_bump (l : List Int) (k : Nat) (δ : Int) :
    setItem l (Int.ofNat k) (l.getD k 0 + δ) = bump l k δ := by
  rw [setItem_ofNat, set_getD_eq_bump]

theorem map_range_getD {β : Type} (f : Int → β) : ∀ l : List Int,
    (List.range l.length).map (fun k => f (l.getD k 0)) = l.map f
  | [] => by simp
  | x :: l => by
    rw [List.length_cons, List.range_succ_eq_map]
    simp only [List.map_cons, List.map_map, List.getD_cons_zero]
    congr 1
    have := map_range_getD f l
    simpa [Function.comp_def] using this

/-! ### numbers -/

theorem mod_abs_two (x : Int) : PyRt.mod (PyRt.abs x) 2 = ((x.natAbs % 2 : Nat) : Int) := by
  unfold PyRt.mod PyRt.abs
  rw [Int.fmod_eq_emod_of_nonneg _ (by decide)]
  rfl

end SparseSpace
