import SparseSpace.Model.Combi
import Mathlib.Tactic.Ring
import Mathlib.Tactic.Linarith
import Mathlib.Algebra.BigOperators.Group.List.Basic
/-! Basic definitions and list lemmas for C01 (`bump`, `leAll`, `geAll`, sums). -/
namespace SparseSpace

def geAll (lmin : Int) (l : LV) : Prop := ∀ x ∈ l, lmin ≤ x

/-- the index set `old ∪ active` -/
def I (s : CS) : List LV := s.old ++ s.active

/-- state invariant of the adaptive scheme -/
structure SchemeInv (s : CS) : Prop where
  shape    : ∀ l ∈ I s, l.length = s.dim ∧ geAll s.lmin l
  nodupA   : s.active.Nodup
  nodupO   : s.old.Nodup
  disjoint : ∀ l ∈ s.active, l ∉ s.old
  backOld  : ∀ l ∈ I s, ∀ d < s.dim, s.lmin < l.getD d 0 → bump l d (-1) ∈ s.old
  noFwd    : ∀ l ∈ s.active, ∀ d < s.dim, bump l d 1 ∉ I s
  nonempty : I s ≠ []

theorem mem_I_of_old {s : CS} {l : LV} (h : l ∈ s.old) : l ∈ I s := by
  simp [I, h]

/-! ### `bump` -/

@[simp] theorem bump_nil (d : Nat) (δ : Int) : bump [] d δ = [] := by
  simp [bump]

@[simp] theorem bump_cons_zero (x : Int) (l : LV) (δ : Int) : bump (x :: l) 0 δ = (x + δ) :: l := by
  simp [bump]

@[simp] theorem bump_cons_succ (x : Int) (l : LV) (d : Nat) (δ : Int) :
    bump (x :: l) (d + 1) δ = x :: bump l d δ := by
  simp [bump]

@[simp] theorem length_bump (l : LV) (d : Nat) (δ : Int) : (bump l d δ).length = l.length := by
  simp [bump]

theorem sum_bump : ∀ (l : LV) (d : Nat) (δ : Int), d < l.length → (bump l d δ).sum = l.sum + δ
  | [], d, δ, h => by simp at h
  | x :: l, 0, δ, _ => by simp; ring
  | x :: l, d + 1, δ, h => by
    have h' : d < l.length := by simpa using h
    simp [sum_bump l d δ h']; ring

theorem getD_bump_self : ∀ (l : LV) (d : Nat) (δ : Int), d < l.length →
    (bump l d δ).getD d 0 = l.getD d 0 + δ
  | [], d, δ, h => by simp at h
  | x :: l, 0, δ, _ => by simp
  | x :: l, d + 1, δ, h => by
    have h' : d < l.length := by simpa using h
    simpa using getD_bump_self l d δ h'

theorem bump_bump_cancel : ∀ (l : LV) (d : Nat) (δ : Int), bump (bump l d δ) d (-δ) = l
  | [], d, δ => by simp
  | x :: l, 0, δ => by simp
  | x :: l, d + 1, δ => by simp [bump_bump_cancel l d δ]

theorem geAll_getD : ∀ (lmin : Int) (l : LV) (d : Nat), geAll lmin l → d < l.length → lmin ≤ l.getD d 0
  | _, [], d, _, h => by simp at h
  | lmin, x :: l, 0, hg, _ => by simpa using hg x (by simp)
  | lmin, x :: l, d + 1, hg, h => by
    have h' : d < l.length := by simpa using h
    simpa using geAll_getD lmin l d (fun y hy => hg y (by simp [hy])) h'

theorem geAll_cons {lmin x : Int} {l : LV} : geAll lmin (x :: l) ↔ lmin ≤ x ∧ geAll lmin l := by
  simp [geAll]

theorem geAll_bump : ∀ (lmin : Int) (l : LV) (d : Nat) (δ : Int), geAll lmin l →
    lmin ≤ l.getD d 0 + δ → geAll lmin (bump l d δ)
  | _, [], d, δ, hg, _ => by simpa using hg
  | lmin, x :: l, 0, δ, hg, h => by
    rw [geAll_cons] at hg
    simp only [bump_cons_zero, geAll_cons]
    exact ⟨by simpa using h, hg.2⟩
  | lmin, x :: l, d + 1, δ, hg, h => by
    rw [geAll_cons] at hg
    simp only [bump_cons_succ, geAll_cons]
    exact ⟨hg.1, geAll_bump lmin l d δ hg.2 (by simpa using h)⟩

theorem geAll_bump_one (lmin : Int) (l : LV) (d : Nat) (hg : geAll lmin l) : geAll lmin (bump l d 1) := by
  by_cases hd : d < l.length
  · exact geAll_bump lmin l d 1 hg (by have := geAll_getD lmin l d hg hd; omega)
  · have : bump l d 1 = l := by
      unfold bump
      exact List.modify_eq_self (by omega)
    rw [this]; exact hg

theorem sum_ge_of_geAll : ∀ (lmin : Int) (l : LV), geAll lmin l → (l.length : Int) * lmin ≤ l.sum
  | _, [], _ => by simp
  | lmin, x :: l, hg => by
    rw [geAll_cons] at hg
    have := sum_ge_of_geAll lmin l hg.2
    simp only [List.length_cons, List.sum_cons]
    push_cast
    nlinarith [hg.1]

/-! ### `leAll` -/

theorem leAll_refl : ∀ l : LV, leAll l l = true
  | [] => by simp [leAll]
  | x :: l => by simp [leAll, leAll_refl l]

theorem leAll_length : ∀ a b : LV, leAll a b = true → a.length = b.length
  | [], [], _ => rfl
  | x :: xs, y :: ys, h => by
    simp only [leAll, Bool.and_eq_true] at h
    simp [leAll_length xs ys h.2]
  | [], _ :: _, h => by simp [leAll] at h
  | _ :: _, [], h => by simp [leAll] at h

theorem leAll_sum : ∀ a b : LV, leAll a b = true → a.sum ≤ b.sum
  | [], [], _ => by simp
  | x :: xs, y :: ys, h => by
    simp only [leAll, Bool.and_eq_true, decide_eq_true_eq] at h
    have := leAll_sum xs ys h.2
    simp only [List.sum_cons]; omega
  | [], _ :: _, h => by simp [leAll] at h
  | _ :: _, [], h => by simp [leAll] at h

theorem leAll_eq_of_sum : ∀ a b : LV, leAll a b = true → b.sum ≤ a.sum → a = b
  | [], [], _, _ => rfl
  | x :: xs, y :: ys, h, hs => by
    simp only [leAll, Bool.and_eq_true, decide_eq_true_eq] at h
    have h1 := leAll_sum xs ys h.2
    simp only [List.sum_cons] at hs
    have h2 := leAll_eq_of_sum xs ys h.2 (by omega)
    have : x = y := by omega
    rw [this, h2]
  | [], _ :: _, h, _ => by simp [leAll] at h
  | _ :: _, [], h, _ => by simp [leAll] at h

/-- if `t ≤ l` and `t ≠ l`, there is a direction in which `l` can be lowered keeping `t ≤ l` -/
theorem leAll_exists_lt : ∀ t l : LV, leAll t l = true → t ≠ l →
    ∃ d, d < l.length ∧ t.getD d 0 < l.getD d 0 ∧ leAll t (bump l d (-1)) = true
  | [], [], _, hne => absurd rfl hne
  | x :: xs, y :: ys, h, hne => by
    simp only [leAll, Bool.and_eq_true, decide_eq_true_eq] at h
    by_cases hxy : x < y
    · refine ⟨0, by simp, by simpa using hxy, ?_⟩
      simp only [bump_cons_zero, leAll, Bool.and_eq_true, decide_eq_true_eq]
      exact ⟨by omega, h.2⟩
    · have hxy' : x = y := by omega
      have hne' : xs ≠ ys := by
        intro e; apply hne; rw [hxy', e]
      obtain ⟨d, hd, hlt, hle⟩ := leAll_exists_lt xs ys h.2 hne'
      refine ⟨d + 1, by simpa using hd, by simpa using hlt, ?_⟩
      simp only [bump_cons_succ, leAll, Bool.and_eq_true, decide_eq_true_eq]
      exact ⟨h.1, hle⟩
  | [], _ :: _, h, _ => by simp [leAll] at h
  | _ :: _, [], h, _ => by simp [leAll] at h

theorem leAll_replicate : ∀ (lmin : Int) (l : LV), geAll lmin l →
    leAll (List.replicate l.length lmin) l = true
  | _, [], _ => by simp [leAll]
  | lmin, x :: l, hg => by
    rw [geAll_cons] at hg
    simp [List.replicate_succ, leAll, hg.1, leAll_replicate lmin l hg.2]

theorem geAll_replicate (lmin : Int) (n : Nat) : geAll lmin (List.replicate n lmin) := by
  intro x hx
  rw [List.mem_replicate] at hx
  omega

end SparseSpace
