import SparseSpace.Lemmas.RombergCont
/-!
# Degree of exactness, partial result (C11): grouped default containers integrate cubics exactly

A default container of `2^K` equal slices (`K ≥ 1`) carries the weights `Σ_j c_{K,j} · (trapezoid weights of level j)`.
For a cubic `f` the composite trapezoid sum of level `j` equals `∫f + h_j²/12 · (f'(b) - f'(a))` (Euler–Maclaurin,
exact because `f'''` is constant), and the coefficients satisfy `Σ c_j = 1`, `Σ c_j h_j² = 0`.
The full claim (degree `2K+1`) needs the Euler–Maclaurin expansion to order `2K`, which is not formalised here; the
algebraic half of it (`Σ_j c_j h_j^{2r} = 0` for `1 ≤ r ≤ K`) is `coeff_annihilates`.
-/
namespace SparseSpace.Romberg
open Finset

def cubic (p0 p1 p2 p3 y : ℚ) : ℚ := p0 + p1 * y + p2 * y ^ 2 + p3 * y ^ 3
def cubicPrim (p0 p1 p2 p3 y : ℚ) : ℚ := p0 * y + p1 * y ^ 2 / 2 + p2 * y ^ 3 / 3 + p3 * y ^ 4 / 4
def cubicD (p1 p2 p3 y : ℚ) : ℚ := p1 + 2 * p2 * y + 3 * p3 * y ^ 2

/-- composite trapezoid sum with `2^j` cells on `[x, x + W]` -/
def cellTrap (f : ℚ → ℚ) : ℕ → ℚ → ℚ → ℚ
  | 0, x, W => W * (f x + f (x + W)) / 2
  | j + 1, x, W => cellTrap f j x (W / 2) + cellTrap f j (x + W / 2) (W / 2)

/-- Euler–Maclaurin for cubics, exact -/
theorem cellTrap_cubic (p0 p1 p2 p3 : ℚ) (j : ℕ) (x W : ℚ) :
    cellTrap (cubic p0 p1 p2 p3) j x W
      = cubicPrim p0 p1 p2 p3 (x + W) - cubicPrim p0 p1 p2 p3 x
        + (W / 2 ^ j) ^ 2 / 12 * (cubicD p1 p2 p3 (x + W) - cubicD p1 p2 p3 x) := by
  induction j generalizing x W with
  | zero => simp only [cellTrap, cubic, cubicPrim, cubicD]; ring
  | succ j ih =>
    simp only [cellTrap, ih]
    have h2 : (2 : ℚ) ^ j ≠ 0 := pow_ne_zero _ (by norm_num)
    have e : x + W / 2 + W / 2 = x + W := by ring
    rw [e, pow_succ]
    simp only [cubicPrim, cubicD]
    field_simp
    ring

theorem apSum_zero (f : ℚ → ℚ) (l : List ℚ) (x h : ℚ) (hz : ∀ w ∈ l, w = 0) : apSum f l x h = 0 := by
  induction l generalizing x with
  | nil => rfl
  | cons w ws ih =>
    simp only [apSum]
    rw [hz w List.mem_cons_self, ih _ (fun v hv => hz v (List.mem_cons_of_mem _ hv))]
    ring

/-- the trapezoid sum of relative level `jr` on a block of `2^k` fine slices, written on the fine grid: inner points
    of level `< lvl + jr` count, the others do not -/
theorem cellTrap_block (f : ℚ → ℚ) (k : ℕ) : ∀ (lvl jr : ℕ) (x h : ℚ), jr ≤ k →
    cellTrap f jr x (2 ^ k * h)
      = (2 ^ (k - jr) * h) * (f x / 2 + f (x + 2 ^ k * h) / 2
          + apSum f ((perfect k lvl).map (fun l => if l < lvl + jr then (1 : ℚ) else 0)) (x + h) h) := by
  induction k with
  | zero =>
    intro lvl jr x h hj
    have : jr = 0 := by omega
    subst this
    simp [cellTrap, perfect, apSum]
    ring
  | succ k ih =>
    intro lvl jr x h hj
    cases jr with
    | zero =>
      have hz : apSum f ((perfect (k + 1) lvl).map (fun l => if l < lvl + 0 then (1 : ℚ) else 0)) (x + h) h = 0 := by
        apply apSum_zero
        intro w hw
        obtain ⟨l, hl, rfl⟩ := List.mem_map.mp hw
        have hbd := perfect_bounds (k + 1) lvl l hl
        have hn : ¬ l < lvl + 0 := by omega
        rw [if_neg hn]
      rw [hz]
      simp only [cellTrap, Nat.sub_zero]
      ring
    | succ jr' =>
      have hW : (2 : ℚ) ^ (k + 1) * h / 2 = 2 ^ k * h := by rw [pow_succ]; ring
      simp only [cellTrap, hW]
      rw [ih (lvl + 1) jr' x h (by omega), ih (lvl + 1) jr' (x + 2 ^ k * h) h (by omega)]
      have hsub : k + 1 - (jr' + 1) = k - jr' := by omega
      rw [hsub, perfect, List.map_append, List.map_cons, apSum_append, apSum]
      have hlen : (((perfect k (lvl + 1)).map (fun l => if l < lvl + (jr' + 1) then (1 : ℚ) else 0)).length : ℚ)
          = 2 ^ k - 1 := by
        have := perfect_length k (lvl + 1)
        rw [List.length_map]
        have h' : (((perfect k (lvl + 1)).length + 1 : ℕ) : ℚ) = 2 ^ k := by rw [this]; push_cast; rfl
        push_cast at h'; linarith
      rw [hlen]
      have hmid : (if lvl < lvl + (jr' + 1) then (1 : ℚ) else 0) = 1 := by
        have : lvl < lvl + (jr' + 1) := by omega
        simp [this]
      rw [hmid]
      have hf : (fun l => if l < lvl + 1 + jr' then (1 : ℚ) else 0)
          = (fun l => if l < lvl + (jr' + 1) then (1 : ℚ) else 0) := by
        funext l
        have : lvl + 1 + jr' = lvl + (jr' + 1) := by omega
        rw [this]
      rw [hf]
      have e1 : x + h + (2 ^ k - 1) * h = x + 2 ^ k * h := by ring
      have e2 : x + 2 ^ k * h + 2 ^ k * h = x + 2 ^ (k + 1) * h := by rw [pow_succ]; ring
      rw [e1, e2]
      ring

theorem sum_ite_le (U : ℕ → ℚ) (n l : ℕ) (h : l ≤ n) :
    ∑ j ∈ range n, (if l ≤ j then U j else 0) = ∑ i ∈ range (n - l), U (l + i) := by
  induction n with
  | zero => simp
  | succ n ih =>
    rw [Finset.sum_range_succ]
    by_cases hl : l ≤ n
    · rw [ih hl, if_pos hl]
      have : n + 1 - l = (n - l) + 1 := by omega
      rw [this, Finset.sum_range_succ]
      have : l + (n - l) = n := by omega
      rw [this]
    · have hl' : l = n + 1 := by omega
      subst hl'
      have : ∑ j ∈ range n, (if n + 1 ≤ j then U j else 0) = 0 := by
        apply Finset.sum_eq_zero
        intro j hj
        have := mem_range.mp hj
        have : ¬ n + 1 ≤ j := by omega
        simp [this]
      rw [this]
      simp

theorem apSum_linear (f : ℚ → ℚ) (L : List ℕ) (n : ℕ) (u : ℕ → ℚ) (χ : ℕ → ℕ → ℚ) (x h : ℚ) :
    apSum f (L.map (fun l => ∑ j ∈ range n, u j * χ j l)) x h
      = ∑ j ∈ range n, u j * apSum f (L.map (χ j)) x h := by
  induction L generalizing x with
  | nil => simp [apSum]
  | cons l ls ih =>
    simp only [List.map_cons, apSum, ih]
    rw [Finset.sum_mul, ← Finset.sum_add_distrib]
    refine Finset.sum_congr rfl fun j _ => by ring

/-- a default container of `2^(k+1)` equal consecutive slices is the Romberg combination of composite
    trapezoid sums -/
theorem container_is_romberg (sv : SliceVer) (s s' : Slice) (r : List Slice) (k : ℕ) (x h : ℚ)
    (f : ℚ → ℚ) (hlen : (s :: s' :: r).length = 2 ^ (k + 1)) (hE : Equi x h (s :: s' :: r))
    (cs : List (ℚ × ℚ)) (hc : containerContribs sv .default (s :: s' :: r) = some cs) :
    wsum f cs = ∑ j ∈ range (k + 2),
      coeff x (x + 2 ^ (k + 1) * h) 2 (k + 1) j * cellTrap f j x (2 ^ (k + 1) * h) := by
  set b := x + 2 ^ (k + 1) * h with hb
  -- explicit contributions
  have hne : (s :: s' :: r) ≠ [] := by simp
  have hpts := contPoints_equi _ x h hE hne
  have hlast := lastXr_equi _ x h s.xr hE hne
  have hsx : s.xl = x := hE.1
  simp only [containerContribs] at hc
  rw [hpts, hlast, hsx] at hc
  have hlenq : (((s :: s' :: r).length : ℕ) : ℚ) = 2 ^ (k + 1) := by rw [hlen]; push_cast; rfl
  rw [hlenq] at hc
  have hpl : (apPoints x h ((s :: s' :: r).length + 1)).length = 2 ^ (k + 1) + 1 := by
    have : ∀ (n : ℕ) (y : ℚ), (apPoints y h n).length = n := by
      intro n; induction n with
      | zero => intro y; rfl
      | succ n ih => intro y; simp [apPoints, ih]
    rw [this, hlen]
  rw [hpl] at hc
  have hnl : normLevels (2 ^ (k + 1) + 1) 1 (2 ^ (k + 1) + 1 - 2) 1 = perfect (k + 1) 1 := by
    have h1 : 2 ^ (k + 1) + 1 - 2 = 1 + 2 ^ (k + 1) - 2 := by omega
    rw [h1]
    exact normLevels_perfect (k + 1) _ 1 1 (by have := @Nat.lt_two_pow_self (k + 1); omega) (le_refl 1)
  rw [hnl, listMax_perfect k 1] at hc
  have h1k : 1 + k = k + 1 := by omega
  rw [h1k, innerWeights_perfect] at hc
  simp only [Option.some.injEq] at hc
  subst hc
  rw [hlen]
  set U : ℕ → ℚ := fun j => coeff x b 2 (k + 1) j * stepWidth x b j with hU
  set iw := (perfect (k + 1) 1).map (fun l => trapInner x b 2 l (k + 1)) with hiw
  have hiwl : iw.length + 1 = 2 ^ (k + 1) := by rw [hiw, List.length_map]; exact perfect_length (k + 1) 1
  have hiwq : (iw.length : ℚ) = 2 ^ (k + 1) - 1 := by
    have : ((iw.length + 1 : ℕ) : ℚ) = 2 ^ (k + 1) := by rw [hiwl]; push_cast; rfl
    push_cast at this; linarith
  rw [← hiwl, apPoints_succ, List.zip_cons_cons, wsum_cons, wsum_zip_ap, hiwq]
  simp only
  -- inner weights as a sum over the extrapolation levels
  have hiw2 : iw = (perfect (k + 1) 1).map
      (fun l => ∑ j ∈ range (k + 2), U j * (if l < 1 + j then (1 : ℚ) else 0)) := by
    rw [hiw]
    apply List.map_congr_left
    intro l hl
    have hbnd := perfect_bounds (k + 1) 1 l hl
    simp only [trapInner, sumRange_eq]
    rw [← sum_ite_le U (k + 2) l (by omega)]
    refine Finset.sum_congr rfl fun j _ => ?_
    by_cases hlj : l ≤ j
    · have : l < 1 + j := by omega
      simp [hlj, this]
    · have : ¬ l < 1 + j := by omega
      simp [hlj, this]
  rw [hiw2, apSum_linear f (perfect (k + 1) 1) (k + 2) U (fun j l => if l < 1 + j then (1 : ℚ) else 0)]
  have hbw : trapBoundary x b 2 (k + 1) = ∑ j ∈ range (k + 2), U j / 2 := by
    simp only [trapBoundary, sumRange_eq, zero_add, hU]
  rw [hbw]
  have e1 : x + h + (2 ^ (k + 1) - 1) * h = b := by rw [hb]; ring
  rw [e1, Finset.sum_mul, Finset.sum_mul, ← Finset.sum_add_distrib, ← Finset.sum_add_distrib]
  refine Finset.sum_congr rfl fun j hj => ?_
  have hjk : j ≤ k + 1 := by have := mem_range.mp hj; omega
  rw [cellTrap_block f (k + 1) 1 j x h hjk]
  have hUj : U j = coeff x b 2 (k + 1) j * (2 ^ (k + 1 - j) * h) := by
    simp only [hU, stepWidth_eq, hb]
    have h2 : (2 : ℚ) ^ j ≠ 0 := pow_ne_zero _ (by norm_num)
    have : (2 : ℚ) ^ (k + 1) = 2 ^ (k + 1 - j) * 2 ^ j := by
      rw [← pow_add]; congr 1; omega
    rw [this]
    field_simp
    ring
  rw [hUj, ← hb]
  ring

/-- **degree clause, partial** (degree `≤ 3` for every depth): a default container of `2^(k+1)` equal consecutive
    slices integrates every cubic polynomial exactly -/
theorem container_cubic_exact (sv : SliceVer) (s s' : Slice) (r : List Slice) (k : ℕ) (x h : ℚ) (hpos : 0 < h)
    (p0 p1 p2 p3 : ℚ) (hlen : (s :: s' :: r).length = 2 ^ (k + 1)) (hE : Equi x h (s :: s' :: r))
    (cs : List (ℚ × ℚ)) (hc : containerContribs sv .default (s :: s' :: r) = some cs) :
    wsum (cubic p0 p1 p2 p3) cs
      = cubicPrim p0 p1 p2 p3 (x + 2 ^ (k + 1) * h) - cubicPrim p0 p1 p2 p3 x := by
  rw [container_is_romberg sv s s' r k x h _ hlen hE cs hc]
  set b := x + 2 ^ (k + 1) * h with hb
  have hab : x ≠ b := by
    have : (0 : ℚ) < 2 ^ (k + 1) * h := mul_pos (pow_pos (by norm_num) _) hpos
    rw [hb]; linarith
  have hW : 2 ^ (k + 1) * h = b - x := by rw [hb]; ring
  have hs := coeff_sum x b 2 (k + 1) hab (by norm_num)
  have ha := coeff_annihilates x b 2 (k + 1) 1 hab (by norm_num) (le_refl 1) (by omega)
  rw [sumRange_eq] at hs ha
  simp only [zero_add, pow_one, node] at hs ha
  have hterm : ∀ j ∈ range (k + 2), coeff x b 2 (k + 1) j * cellTrap (cubic p0 p1 p2 p3) j x (2 ^ (k + 1) * h)
      = coeff x b 2 (k + 1) j * (cubicPrim p0 p1 p2 p3 b - cubicPrim p0 p1 p2 p3 x)
        + (coeff x b 2 (k + 1) j * ((b - x) / 2 ^ j) ^ 2) * ((cubicD p1 p2 p3 b - cubicD p1 p2 p3 x) / 12) := by
    intro j _
    rw [cellTrap_cubic, hW]
    have : x + (b - x) = b := by ring
    rw [this]
    ring
  rw [Finset.sum_congr rfl hterm, Finset.sum_add_distrib, ← Finset.sum_mul, ← Finset.sum_mul, hs, ha]
  ring

end SparseSpace.Romberg
