import SparseSpace.Lemmas.AdaptDriver
/-! Stop + continue vs. one uninterrupted run of the adaptive-driver model. -/
namespace SparseSpace.Adapt

variable {S : Type}

/-- the stopping rule reads only `err` and `pts` -/
theorem stopNow_congr (L : Limits) (o o' : Obs) (he : o'.err = o.err) (hp : o'.pts = o.pts) :
    stopNow L o' = stopNow L o := by
  unfold stopNow; rw [he, hp]

/-- `eval` is re-entrant at the stopped state `s` (which was produced with observation `o`):
evaluating again without refining reproduces what the stopping rule reads (`err`, `pts`), leaves a state that is
`Q`-equivalent (`Q` = "same refinement structure, scheme, result, point count"), and the NEXT refinement starts
from `R`-related states (`R` = the simulation relation on the states in which evaluations start) -/
structure ReentrantAt (M : Machine S) (R Q : S → S → Prop) (s : S) (o : Obs) : Prop where
  err : (M.eval s).2.err = o.err
  pts : (M.eval s).2.pts = o.pts
  final : Q s (M.eval s).1
  next : R (M.refine s) (M.refine (M.eval s).1)

/-- a run from `s0` stopped by `L2` at its (least) index `m`; interrupt it after evaluation `i ≤ m`
(history so far: the first `i+1` observations) and call the loop again with `L2` -/
theorem resume_from_index_aux {M : Machine S} {R Q : S → S → Prop} (hS : Sim M R)
    (hQ : ∀ s t, R s t → Q (M.eval s).1 (M.eval t).1) (L2 : Limits) (s0 : S) (h : Hist)
    (m i : Nat) (hi : i ≤ m)
    (hbefore : ∀ j, j < m → stopNow L2 (obsAt M s0 j) = false) (hat : stopNow L2 (obsAt M s0 m) = true)
    (hre : ReentrantAt M R Q (stateAt M s0 i) (obsAt M s0 i))
    (f2 : Nat) (hf2 : m < f2 + i) :
    ∃ r2, loop M L2 f2 (stateAt M s0 i) (h.pushAll (obsList M s0 (i + 1))) 0 = some r2 ∧
      Q (stateAt M s0 m) r2.state ∧
      r2.last.err = (obsAt M s0 m).err ∧ r2.last.pts = (obsAt M s0 m).pts ∧
      (i < m → r2.last = obsAt M s0 m) ∧
      r2.refines + i = m ∧ r2.evals + i = m + 1 ∧
      r2.hist = (h.pushAll (obsList M s0 (i + 1))).pushAll
        ((M.eval (stateAt M s0 i)).2 :: (obsList M s0 (m + 1)).drop (i + 1)) := by
  -- abbreviations
  have hstop0 : stopNow L2 (obsAt M (stateAt M s0 i) 0) = stopNow L2 (obsAt M s0 i) := by
    rw [obsAt_zero]; exact stopNow_congr L2 _ _ hre.err hre.pts
  rcases Nat.lt_or_ge i m with hlt | hge
  · -- the interruption is strictly before the final stop
    obtain ⟨d, hd⟩ : ∃ d, m = i + 1 + d := ⟨m - (i + 1), by omega⟩
    have hrel : R (iter M s0 (i + 1)) (M.refine (M.eval (stateAt M s0 i)).1) := by
      rw [iter_succ]; exact hre.next
    have hobs : ∀ j, obsAt M (stateAt M s0 i) (j + 1) = obsAt M s0 (i + 1 + j) := by
      intro j
      rw [obsAt_succ', obsAt_add]
      exact (hS.obsAt j _ _ hrel).symm
    refine ⟨⟨stateAt M (stateAt M s0 i) (d + 1), obsAt M (stateAt M s0 i) (d + 1),
      (h.pushAll (obsList M s0 (i + 1))).pushAll (obsList M (stateAt M s0 i) (d + 1 + 1)), 0 + (d + 1) + 1, 0 + (d + 1)⟩,
      ?_, ?_, ?_, ?_, ?_, ?_, ?_, ?_⟩
    · refine (loop_eq_some_iff M L2 f2 _ _ 0 _).2 ⟨d + 1, by omega, ?_, ?_, rfl⟩
      · intro j hj
        cases j with
        | zero => rw [hstop0]; exact hbefore i hlt
        | succ j => rw [hobs]; exact hbefore _ (by omega)
      · rw [hobs, ← hd]; exact hat
    · show Q (stateAt M s0 m) (stateAt M (stateAt M s0 i) (d + 1))
      rw [stateAt_succ', hd, stateAt_add]
      exact hQ _ _ (hS.iter d _ _ hrel)
    · show (obsAt M (stateAt M s0 i) (d + 1)).err = _
      rw [hobs, ← hd]
    · show (obsAt M (stateAt M s0 i) (d + 1)).pts = _
      rw [hobs, ← hd]
    · intro _
      show obsAt M (stateAt M s0 i) (d + 1) = _
      rw [hobs, ← hd]
    · show 0 + (d + 1) + i = m
      omega
    · show 0 + (d + 1) + 1 + i = m + 1
      omega
    · show (h.pushAll (obsList M s0 (i + 1))).pushAll (obsList M (stateAt M s0 i) (d + 1 + 1)) = _
      congr 1
      have e1 : obsList M (stateAt M s0 i) (d + 1 + 1) =
          (M.eval (stateAt M s0 i)).2 :: obsList M (M.refine (M.eval (stateAt M s0 i)).1) (d + 1) := rfl
      have e2 : m + 1 = (i + 1) + (d + 1) := by omega
      rw [e1, e2, obsList_add M s0 (i + 1) (d + 1), List.drop_left' (obsList_length M s0 (i + 1))]
      congr 1
      exact (hS.obsList (d + 1) _ _ hrel).symm
  · -- the interruption is the final stop itself
    have him : i = m := by omega
    subst him
    refine ⟨⟨stateAt M (stateAt M s0 i) 0, obsAt M (stateAt M s0 i) 0,
      (h.pushAll (obsList M s0 (i + 1))).pushAll (obsList M (stateAt M s0 i) (0 + 1)), 0 + 0 + 1, 0 + 0⟩,
      ?_, ?_, ?_, ?_, ?_, ?_, ?_, ?_⟩
    · refine (loop_eq_some_iff M L2 f2 _ _ 0 _).2 ⟨0, by omega, by intro j hj; omega, ?_, rfl⟩
      rw [hstop0]; exact hat
    · exact hre.final
    · exact hre.err
    · exact hre.pts
    · intro hc; omega
    · show 0 + 0 + i = i
      omega
    · show 0 + 0 + 1 + i = i + 1
      omega
    · show (h.pushAll (obsList M s0 (i + 1))).pushAll (obsList M (stateAt M s0 i) (0 + 1)) = _
      congr 1
      have : (obsList M s0 (i + 1)).drop (i + 1) = [] := by
        apply List.drop_eq_nil_of_le; rw [obsList_length]
      rw [this]
      rfl

/-- with `restore ∘ save = id` the saved-and-restored resume is the plain resume -/
theorem resumeVia_eq_resume {B : Type} (save : S → B) (restore : B → S) (hid : ∀ s, restore (save s) = s)
    (M : Machine S) (L1 L2 : Limits) (f1 f2 : Nat) (s : S) :
    resumeVia save restore M L1 L2 f1 f2 s = resume M L1 L2 f1 f2 s := by
  unfold resumeVia resume
  cases run M L1 f1 s with
  | none => rfl
  | some r1 => simp [hid]

end SparseSpace.Adapt
