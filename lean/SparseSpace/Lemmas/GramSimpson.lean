import SparseSpace.Lemmas.GramHat
import SparseSpace.Lemmas.GramPD
/-! C16: the entries the code computes are the L2 scalar products of the hat functions.  The integral of a product of
    two functions that are affine on a cell is given exactly by Simpson's rule on that cell (`simpson_exact`); the
    specification of the Gram entry is therefore the sum of the cell-wise Simpson values of `hatSpec I · hatSpec J`. -/
namespace SparseSpace.Gram

/-- Simpson's rule on `[a, b]` -/
def simpson (f : ℚ → ℚ) (a b : ℚ) : ℚ := (b - a) / 6 * (f a + 4 * f ((a + b) / 2) + f b)

/-- Simpson's rule integrates a product of two affine functions exactly: it equals the difference of the antiderivative
    `αγ x + (αδ+βγ) x²/2 + βδ x³/3` -/
theorem simpson_exact (α β γ δ a b : ℚ) :
    simpson (fun x => (α + β * x) * (γ + δ * x)) a b
      = (α * γ * b + (α * δ + β * γ) * b ^ 2 / 2 + β * δ * b ^ 3 / 3) - (α * γ * a + (α * δ + β * γ) * a ^ 2 / 2 + β * δ * a ^ 3 / 3) := by
  unfold simpson; ring

theorem hatSpec_mid_left (h : Hat1) (h1 : h.lo < h.p) (h2 : h.p < h.hi) : hatSpec h ((h.lo + h.p) / 2) = 1 / 2 := by
  unfold hatSpec
  rw [if_neg (by intro hh; rcases hh with hh | hh <;> linarith), if_pos (by linarith)]
  have : h.p - h.lo ≠ 0 := by linarith
  field_simp; ring

theorem hatSpec_mid_right (h : Hat1) (h1 : h.lo < h.p) (h2 : h.p < h.hi) : hatSpec h ((h.p + h.hi) / 2) = 1 / 2 := by
  unfold hatSpec
  rw [if_neg (by intro hh; rcases hh with hh | hh <;> linarith), if_neg (by linarith)]
  have : h.hi - h.p ≠ 0 := by linarith
  field_simp; ring

/-- diagonal entry = integral of the squared hat over its two cells -/
theorem g1_same_is_L2 (h : Hat1) (h1 : h.lo < h.p) (h2 : h.p < h.hi) :
    g1 h h = simpson (fun x => hatSpec h x * hatSpec h x) h.lo h.p + simpson (fun x => hatSpec h x * hatSpec h x) h.p h.hi := by
  rw [g1_self h h1 h2]
  unfold simpson
  simp only [hatSpec_mid_left h h1 h2, hatSpec_mid_right h h1 h2, hatSpec_at_p h h1 h2,
    hatSpec_outside h h.lo (Or.inl (le_refl _)), hatSpec_outside h h.hi (Or.inr (le_refl _))]
  ring

/-- neighbouring hats (`a` left of `b`, sharing the cell `[a.p, b.p]`): entry = integral of the product over the shared cell -/
theorem g1_adj_is_L2 (a b : Hat1) (ha1 : a.lo < a.p) (ha2 : a.p < a.hi) (hb2 : b.p < b.hi) (e1 : a.hi = b.p) (e2 : b.lo = a.p) :
    g1 a b = simpson (fun x => hatSpec a x * hatSpec b x) a.p b.p := by
  have hb1 : b.lo < b.p := by rw [e2, ← e1]; exact ha2
  unfold g1
  rw [if_pos ⟨by linarith, by linarith⟩, rValue1_adj a b (by intro e; linarith), abs_of_neg (by linarith)]
  unfold simpson
  have m1 : hatSpec a ((a.p + b.p) / 2) = 1 / 2 := by rw [← e1]; exact hatSpec_mid_right a ha1 ha2
  have m2 : hatSpec b ((a.p + b.p) / 2) = 1 / 2 := by rw [← e2]; exact hatSpec_mid_left b hb1 hb2
  simp only [m1, m2, hatSpec_at_p a ha1 ha2, hatSpec_at_p b hb1 hb2,
    hatSpec_outside b a.p (Or.inl (by rw [e2])), hatSpec_outside a b.p (Or.inr (by rw [e1]))]
  ring

/-- hats whose supports do not overlap: the product vanishes identically and the code's entry is 0 -/
theorem g1_apart_is_L2 (a b : Hat1) (ha2 : a.p < a.hi) (hb1 : b.lo < b.p) (hd : a.hi ≤ b.lo) :
    g1 a b = 0 ∧ g1 b a = 0 ∧ ∀ x, hatSpec a x * hatSpec b x = 0 := by
  refine ⟨g1_far_right a b (by linarith), g1_far_left a b (by linarith), ?_⟩
  intro x
  rcases le_total x a.hi with h | h
  · rw [hatSpec_outside b x (Or.inl (by linarith)), mul_zero]
  · rw [hatSpec_outside a x (Or.inr h), zero_mul]

/-- neighbouring hats: outside the shared cell the product vanishes -/
theorem adj_product_zero_outside (a b : Hat1) (e1 : a.hi = b.p) (e2 : b.lo = a.p) (x : ℚ) (hx : x ≤ a.p ∨ b.p ≤ x) :
    hatSpec a x * hatSpec b x = 0 := by
  rcases hx with h | h
  · rw [hatSpec_outside b x (Or.inl (by rw [e2]; exact h)), mul_zero]
  · rw [hatSpec_outside a x (Or.inr (by rw [e1]; exact h)), zero_mul]

end SparseSpace.Gram
