import SparseSpace.Lemmas.InterpQuad
/-!
# The nodal hat functions

* `hatFn_PLk`   : the level-`k` hat at node `i` is piecewise linear on the level-`k` grid
* `hatFn_node`  : it is the nodal unit function of the level-`k` grid
* `hatFn_ends`  : interior hats vanish at the ends of `[a,b]`
* `trap1_hatFn` : its level-`k` trapezoidal value (= its exact integral) is `h`, resp. `h/2` for the two boundary hats
-/
namespace SparseSpace

theorem linPt_sub (a b : Rat) (n i j : Nat) :
    linPt a b n i - linPt a b n j = (b - a) / (n : Rat) * ((i : Rat) - (j : Rat)) := by
  unfold linPt; ring

theorem ratAbs_of_nonneg {x : Rat} (h : 0 ≤ x) : ratAbs x = x := by
  unfold ratAbs
  rw [if_neg (not_lt.2 h)]

theorem ratAbs_of_nonpos {x : Rat} (h : x ≤ 0) : ratAbs x = -x := by
  unfold ratAbs
  rcases lt_or_eq_of_le h with h' | h'
  · rw [if_pos h']
  · rw [h']; simp

theorem hatFn_eq_zero (a b : Rat) (k i : Nat) (t : Rat) (hab : a < b)
    (h : (b - a) / ((2 ^ k : Nat) : Rat) ≤ ratAbs (t - linPt a b (2 ^ k) i)) : hatFn a b k i t = 0 := by
  have hh : 0 < (b - a) / ((2 ^ k : Nat) : Rat) := div_pos (by linarith) (by positivity)
  unfold hatFn
  simp only
  split
  · rfl
  · rename_i hv
    have h1 : 1 ≤ ratAbs (t - linPt a b (2 ^ k) i) / ((b - a) / ((2 ^ k : Nat) : Rat)) := by
      rw [le_div_iff₀ hh]; linarith
    linarith [not_lt.1 hv]

theorem hatFn_eq (a b : Rat) (k i : Nat) (t : Rat) (hab : a < b)
    (h : ratAbs (t - linPt a b (2 ^ k) i) ≤ (b - a) / ((2 ^ k : Nat) : Rat)) :
    hatFn a b k i t = 1 - ratAbs (t - linPt a b (2 ^ k) i) / ((b - a) / ((2 ^ k : Nat) : Rat)) := by
  have hh : 0 < (b - a) / ((2 ^ k : Nat) : Rat) := div_pos (by linarith) (by positivity)
  unfold hatFn
  simp only
  split
  · rename_i hv
    have h1 : ratAbs (t - linPt a b (2 ^ k) i) / ((b - a) / ((2 ^ k : Nat) : Rat)) ≤ 1 := by
      rw [div_le_iff₀ hh]; linarith
    linarith
  · rfl

/-- the hat of level `k` lies in `V_k` -/
theorem hatFn_PLk (a b : Rat) (hab : a < b) (k i : Nat) : PLk a b k (hatFn a b k i) := by
  intro j _
  have hh : 0 < (b - a) / ((2 ^ k : Nat) : Rat) := div_pos (by linarith) (by positivity)
  set h := (b - a) / ((2 ^ k : Nat) : Rat) with hdef
  have hsub : ∀ m : Nat, linPt a b (2 ^ k) m - linPt a b (2 ^ k) i = h * ((m : Rat) - (i : Rat)) := fun m => linPt_sub a b _ m i
  rcases Nat.lt_trichotomy (j + 1) i with hlt | heq | hgt
  · -- the cell lies left of the support
    refine ⟨0, 0, ?_⟩
    intro t _ ht2
    rw [hatFn_eq_zero a b k i t hab]
    · ring
    · have h1 := hsub (j + 1)
      have h2 : ((j + 1 : Nat) : Rat) + 1 ≤ (i : Rat) := by exact_mod_cast hlt
      have h3 : t - linPt a b (2 ^ k) i ≤ -h := by
        have : h * (((j + 1 : Nat) : Rat) - (i : Rat)) ≤ h * (-1) := mul_le_mul_of_nonneg_left (by linarith) (le_of_lt hh)
        linarith
      rw [ratAbs_of_nonpos (by linarith)]
      linarith
  · -- the rising flank
    refine ⟨1 / h, 1 - linPt a b (2 ^ k) i / h, ?_⟩
    intro t ht1 ht2
    have h1 := hsub j
    have h2 : (j : Rat) - (i : Rat) = -1 := by rw [← heq]; push_cast; ring
    rw [h2] at h1
    rw [heq] at ht2
    rw [hatFn_eq a b k i t hab (by rw [ratAbs_of_nonpos (by linarith)]; linarith),
      ratAbs_of_nonpos (by linarith), ← hdef]
    have hne : h ≠ 0 := ne_of_gt hh
    field_simp
    ring
  · rcases Nat.lt_or_ge i j with hij | hij
    · -- right of the support
      refine ⟨0, 0, ?_⟩
      intro t ht1 _
      rw [hatFn_eq_zero a b k i t hab]
      · ring
      · have h1 := hsub j
        have h2 : (i : Rat) + 1 ≤ (j : Rat) := by exact_mod_cast hij
        have h3 : h ≤ t - linPt a b (2 ^ k) i := by
          have : h * 1 ≤ h * ((j : Rat) - (i : Rat)) := mul_le_mul_of_nonneg_left (by linarith) (le_of_lt hh)
          linarith
        rw [ratAbs_of_nonneg (by linarith)]
        exact h3
    · -- the falling flank
      have hji : j = i := by omega
      subst hji
      refine ⟨-1 / h, 1 + linPt a b (2 ^ k) j / h, ?_⟩
      intro t ht1 ht2
      have h1 := hsub (j + 1)
      have h2 : ((j + 1 : Nat) : Rat) - (j : Rat) = 1 := by push_cast; ring
      rw [h2] at h1
      rw [hatFn_eq a b k j t hab (by rw [ratAbs_of_nonneg (by linarith)]; linarith),
        ratAbs_of_nonneg (by linarith), ← hdef]
      have hne : h ≠ 0 := ne_of_gt hh
      field_simp
      ring

/-- the hat is the nodal unit function of its level -/
theorem hatFn_node (a b : Rat) (hab : a < b) (k i j : Nat) :
    hatFn a b k i (linPt a b (2 ^ k) j) = if j = i then 1 else 0 := by
  have hh : 0 < (b - a) / ((2 ^ k : Nat) : Rat) := div_pos (by linarith) (by positivity)
  have hsub := linPt_sub a b (2 ^ k) j i
  by_cases hji : j = i
  · subst hji
    rw [if_pos rfl, hatFn_eq a b k j _ hab (by rw [sub_self, ratAbs_of_nonneg (le_refl _)]; exact le_of_lt hh),
      sub_self, ratAbs_of_nonneg (le_refl _)]
    simp
  · rw [if_neg hji]
    apply hatFn_eq_zero a b k i _ hab
    rw [hsub]
    rcases Nat.lt_or_ge j i with h | h
    · have h2 : (j : Rat) + 1 ≤ (i : Rat) := by exact_mod_cast h
      have : (b - a) / ((2 ^ k : Nat) : Rat) * ((j : Rat) - (i : Rat)) ≤ (b - a) / ((2 ^ k : Nat) : Rat) * (-1) :=
        mul_le_mul_of_nonneg_left (by linarith) (le_of_lt hh)
      rw [ratAbs_of_nonpos (by linarith)]
      linarith
    · have h' : i < j := by omega
      have h2 : (i : Rat) + 1 ≤ (j : Rat) := by exact_mod_cast h'
      have : (b - a) / ((2 ^ k : Nat) : Rat) * 1 ≤ (b - a) / ((2 ^ k : Nat) : Rat) * ((j : Rat) - (i : Rat)) :=
        mul_le_mul_of_nonneg_left (by linarith) (le_of_lt hh)
      rw [ratAbs_of_nonneg (by linarith)]
      linarith

/-- interior hats vanish at both ends of `[a,b]` -/
theorem hatFn_ends (a b : Rat) (hab : a < b) (k i : Nat) (h1 : 1 ≤ i) (h2 : i < 2 ^ k) (bd : Bool) :
    ZeroEnds a b bd (hatFn a b k i) := by
  intro _
  have hn : 0 < 2 ^ k := Nat.pos_of_ne_zero (by positivity)
  constructor
  · have := hatFn_node a b hab k i 0
    rw [linPt_zero] at this
    rw [this, if_neg (by omega)]
  · have := hatFn_node a b hab k i (2 ^ k)
    rw [linPt_last a b _ hn] at this
    rw [this, if_neg (by omega)]

theorem sum_map_single {ι : Type} [DecidableEq ι] (i : ι) (v : ι → Rat) : ∀ (l : List ι), l.Nodup → i ∈ l →
    (l.map fun j => (if j = i then 1 else 0) * v j).sum = v i
  | [], _, h => by simp at h
  | x :: l, hnd, h => by
      rw [List.nodup_cons] at hnd
      simp only [List.map_cons, List.sum_cons]
      by_cases hx : x = i
      · subst hx
        have hz : (l.map fun j => (if j = x then 1 else 0) * v j).sum = 0 := by
          apply List.sum_eq_zero
          intro y hy
          rw [List.mem_map] at hy
          obtain ⟨j, hj, rfl⟩ := hy
          have : j ≠ x := fun e => hnd.1 (e ▸ hj)
          simp [this]
        rw [hz]; simp
      · have hi : i ∈ l := by
          rcases List.mem_cons.1 h with h | h
          · exact absurd h.symm hx
          · exact h
        rw [sum_map_single i v l hnd.2 hi]
        simp [hx]

/-- **closed-form integral of a hat**: the level-`k` trapezoidal value of the level-`k` hat at a returned node `i`
is `h`, and `h/2` for the two boundary hats -/
theorem trap1_hatFn (a b : Rat) (hab : a < b) (k i : Nat) (bd : Bool) (hi : i ∈ levelIdx k bd) :
    trap1 a b k bd (hatFn a b k i)
      = (b - a) / ((2 ^ k : Nat) : Rat) * (if i == 0 || i == 2 ^ k then 1 / 2 else 1) := by
  unfold trap1 levelPoints levelWeights
  rw [zipWith_map_map]
  have h1 : ((levelIdx k bd).map fun j => hatFn a b k i (linPt a b (2 ^ k) j) *
        ((b - a) / ((2 ^ k : Nat) : Rat) * if (j == 0 || j == 2 ^ k) = true then 1 / 2 else 1))
      = (levelIdx k bd).map fun j => (if j = i then 1 else 0) *
        ((b - a) / ((2 ^ k : Nat) : Rat) * if (j == 0 || j == 2 ^ k) = true then 1 / 2 else 1) := by
    apply List.map_congr_left
    intro j _
    rw [hatFn_node a b hab k i j]
  rw [h1, sum_map_single i _ (levelIdx k bd) ((levelIdx_sorted k bd).imp (fun h => ne_of_lt h)) hi]

end SparseSpace
