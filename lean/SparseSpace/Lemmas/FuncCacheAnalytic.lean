import SparseSpace.Model.AnalyticInt
import Mathlib.Analysis.SpecialFunctions.Integrals.Basic
import Mathlib.Data.Rat.Cast.Lemmas
/-! Helper lemmas for C12: the analytic integrals of the polynomial test functions are the iterated
    interval integrals (Mathlib's `intervalIntegral` over `ℝ`) of their point evaluation. -/
namespace SparseSpace.AnalyticInt
open intervalIntegral

/-- the exact integral over the box `Π [a_d, b_d]`, defined independently of any formula of the code:
the iterated one-dimensional interval integral, first coordinate outermost -/
noncomputable def iint : List (ℝ × ℝ) → (List ℝ → ℝ) → ℝ
  | [], g => g []
  | ab :: bs, g => ∫ x in ab.1..ab.2, iint bs (fun xs => g (x :: xs))

theorem mulLoop_eq (r : ℝ) (ts : List ℝ) : mulLoop r ts = r * ts.prod := by
  unfold mulLoop
  induction ts generalizing r with
  | nil => simp
  | cons t ts ih => simp [List.foldl_cons, ih, mul_assoc]

theorem addLoop_eq (r : ℝ) (ts : List ℝ) : addLoop r ts = r + ts.sum := by
  unfold addLoop
  induction ts generalizing r with
  | nil => simp
  | cons t ts ih => simp [List.foldl_cons, ih, add_assoc]

theorem iint_mul_left (bs : List (ℝ × ℝ)) (r : ℝ) (g : List ℝ → ℝ) :
    iint bs (fun xs => r * g xs) = r * iint bs g := by
  induction bs generalizing g with
  | nil => rfl
  | cons ab bs ih =>
    simp only [iint]
    simp_rw [ih]
    exact integral_const_mul _ _

/-- a product of one-dimensional factors integrates to the product of the one-dimensional integrals -/
theorem iint_prod (ts : List (ℝ → ℝ)) (box : List (ℝ × ℝ)) (h : ts.length = box.length) :
    iint box (fun xs => (List.zipWith (fun t x => t x) ts xs).prod)
      = (List.zipWith (fun t ab => ∫ x in ab.1..ab.2, t x) ts box).prod := by
  induction ts generalizing box with
  | nil =>
    cases box with
    | nil => simp [iint]
    | cons ab bs => simp at h
  | cons t ts ih =>
    cases box with
    | nil => simp at h
    | cons ab bs =>
      simp only [iint, List.zipWith_cons_cons, List.prod_cons]
      simp_rw [iint_mul_left, ih bs (by simpa using h)]
      exact integral_mul_const _ _

/-- volume of a box -/
noncomputable def vol (box : List (ℝ × ℝ)) : ℝ := (box.map (fun ab => ab.2 - ab.1)).prod

theorem iint_const (box : List (ℝ × ℝ)) (v : ℝ) : iint box (fun _ => v) = vol box * v := by
  induction box with
  | nil => simp [iint, vol]
  | cons ab bs ih =>
    simp only [iint, ih, vol, List.map_cons, List.prod_cons]
    rw [integral_const, smul_eq_mul]
    ring

theorem integral_affine (a b A B : ℝ) : ∫ x in a..b, (A + B * x) = A * (b - a) + B * ((b ^ 2 - a ^ 2) / 2) := by
  have h1 : IntervalIntegrable (fun _ : ℝ => A) MeasureTheory.volume a b := intervalIntegrable_const
  have h2 : IntervalIntegrable (fun x : ℝ => B * x) MeasureTheory.volume a b :=
    (continuous_const.mul continuous_id).intervalIntegrable _ _
  rw [integral_add h1 h2, integral_const, integral_const_mul, integral_id, smul_eq_mul]
  ring

/-- an affine function integrates to the volume times its value at the midpoint -/
theorem iint_affine (c : List ℝ) (box : List (ℝ × ℝ)) (h : c.length = box.length) (r : ℝ) :
    iint box (fun xs => r + (List.zipWith (fun c x => c * x) c xs).sum)
      = (r + (List.zipWith (fun c ab => c * (ab.2 + ab.1) / 2) c box).sum) * vol box := by
  induction c generalizing box r with
  | nil =>
    cases box with
    | nil => simp [iint, vol]
    | cons ab bs => simp at h
  | cons c cs ih =>
    cases box with
    | nil => simp at h
    | cons ab bs =>
      simp only [iint, List.zipWith_cons_cons, List.sum_cons]
      have : ∀ x : ℝ, iint bs (fun xs => r + (c * x + (List.zipWith (fun c x => c * x) cs xs).sum))
          = (r + (List.zipWith (fun c ab => c * (ab.2 + ab.1) / 2) cs bs).sum) * vol bs + (c * vol bs) * x := by
        intro x
        have := ih bs (by simpa using h) (r + c * x)
        simp only [add_assoc] at this
        rw [this]; ring
      simp_rw [this]
      rw [integral_affine]
      simp only [vol, List.map_cons, List.prod_cons]
      ring


theorem vol_zip (s e : List ℝ) : vol (List.zip s e) = (List.zipWith (fun s e => e - s) s e).prod := by
  induction s generalizing e with
  | nil => simp [vol]
  | cons a s ih =>
    cases e with
    | nil => simp [vol]
    | cons b e =>
      have := ih e
      simp only [vol] at this
      simp only [vol, List.zip_cons_cons, List.map_cons, List.prod_cons, List.zipWith_cons_cons, this]

/-- `ConstantValue` -/
theorem const_integral (v : ℝ) (s e : List ℝ) :
    iint (List.zip s e) (evalConst v) = anaConst v s e := by
  unfold evalConst anaConst
  rw [iint_const, mulLoop_eq, vol_zip]
  simp

theorem zipWith_apply_map {β : Type} (f : β → ℝ → ℝ) (c : List β) (x : List ℝ) :
    List.zipWith (fun t x => t x) (c.map f) x = List.zipWith f c x := by
  induction c generalizing x with
  | nil => simp
  | cons a c ih => cases x <;> simp [ih]

theorem zipWith_int_pow (k : Nat) (c : List ℝ) (box : List (ℝ × ℝ)) :
    List.zipWith (fun t ab => ∫ x in ab.1..ab.2, t x) (c.map (fun c x => c * x ^ k)) box =
      List.zipWith (fun c se => c * (se.2 ^ (k + 1) / ((k + 1 : Nat) : ℝ) - se.1 ^ (k + 1) / ((k + 1 : Nat) : ℝ))) c box := by
  induction c generalizing box with
  | nil => simp
  | cons a c ih =>
    cases box with
    | nil => simp
    | cons ab bs =>
      simp only [List.map_cons, List.zipWith_cons_cons, ih bs, List.cons.injEq, and_true]
      rw [integral_const_mul, integral_pow]
      push_cast
      ring

/-- `FunctionPolynomial` of any degree -/
theorem polynomial_integral (k : Nat) (c s e : List ℝ) (hs : s.length = c.length) (he : e.length = c.length) :
    iint (List.zip s e) (evalPolynomial k c) = anaPolynomial k c s e := by
  unfold anaPolynomial
  have h1 : (evalPolynomial k c) = fun xs => (List.zipWith (fun t x => t x) (c.map (fun c x => c * x ^ k)) xs).prod := by
    funext xs
    rw [zipWith_apply_map]
    simp [evalPolynomial, mulLoop_eq]
  rw [h1, iint_prod _ _ (by simp [hs, he]), mulLoop_eq]
  simp only [Nat.cast_one, one_mul]
  rw [zipWith_int_pow]

/-- `FunctionLinear` -/
theorem linear_integral (c s e : List ℝ) (hs : s.length = c.length) (he : e.length = c.length) :
    iint (List.zip s e) (evalLinear c) = anaLinear c s e := by
  have h1 : evalLinear c = evalPolynomial 1 c := by
    funext xs; simp [evalLinear, evalPolynomial]
  have h2 : anaLinear c s e = anaPolynomial 1 c s e := by
    simp [anaLinear, anaPolynomial]
  rw [h1, h2]; exact polynomial_integral 1 c s e hs he

/-- the vectorised override of `FunctionLinear` computes the scalar `eval` -/
theorem linear_vec_eq (c x : List ℝ) : evalLinearVec c x = evalLinear c x := by
  unfold evalLinearVec evalLinear
  congr 1
  induction c generalizing x with
  | nil => cases x <;> simp
  | cons a c ih => cases x <;> simp [ih, mul_comm]

/-- `FunctionMultilinear` with the REPAIRED formula -/
theorem multilinear_fixed_integral (c s e : List ℝ) (hs : s.length = c.length) (he : e.length = c.length) :
    iint (List.zip s e) (evalMultilinear c) = anaMultilinearFixed c s e := by
  have h1 : evalMultilinear c = fun xs => 0 + (List.zipWith (fun c x => c * x) c xs).sum := by
    funext xs; simp [evalMultilinear, addLoop_eq]
  rw [h1, iint_affine c _ (by simp [hs, he]) 0]
  simp [anaMultilinearFixed, addLoop_eq, mulLoop_eq, vol_zip]


/-! ### `Polynomial1d` -/

/-- `Σ_i cs[i] * x^(k+i)` -/
noncomputable def polyFrom (k : Nat) (cs : List ℝ) (x : ℝ) : ℝ :=
  ((cs.zipIdx k).map (fun (p : ℝ × Nat) => p.1 * x ^ p.2)).sum

theorem polyLoop_eq (cs : List ℝ) (x : ℝ) : polyLoop cs x = polyFrom 0 cs x := by
  simp [polyLoop, polyFrom, addLoop_eq]

theorem polyFrom_cons (k : Nat) (c : ℝ) (cs : List ℝ) (x : ℝ) :
    polyFrom k (c :: cs) x = c * x ^ k + polyFrom (k + 1) cs x := by
  simp [polyFrom, List.zipIdx_cons]

theorem continuous_polyFrom (k : Nat) (cs : List ℝ) : Continuous (polyFrom k cs) := by
  induction cs generalizing k with
  | nil =>
    have : polyFrom k [] = fun _ => (0 : ℝ) := by funext x; simp [polyFrom]
    rw [this]; exact continuous_const
  | cons c cs ih =>
    have : polyFrom k (c :: cs) = fun x => c * x ^ k + polyFrom (k + 1) cs x := by
      funext x; exact polyFrom_cons k c cs x
    rw [this]
    exact (continuous_const.mul (continuous_pow k)).add (ih (k + 1))

/-- `Σ_i cs[i] / (k+i+1) * y^(k+i+1)` -/
noncomputable def antiFrom (k : Nat) (cs : List ℝ) (y : ℝ) : ℝ :=
  ((cs.zipIdx k).map (fun (p : ℝ × Nat) => p.1 * 1 / ((p.2 + 1 : Nat) : ℝ) * y ^ (p.2 + 1))).sum

theorem integral_polyFrom (k : Nat) (cs : List ℝ) (a b : ℝ) :
    ∫ x in a..b, polyFrom k cs x = antiFrom k cs b - antiFrom k cs a := by
  induction cs generalizing k with
  | nil => simp [polyFrom, antiFrom]
  | cons c cs ih =>
    have : polyFrom k (c :: cs) = fun x => c * x ^ k + polyFrom (k + 1) cs x := by
      funext x; exact polyFrom_cons k c cs x
    have h1 : IntervalIntegrable (fun x : ℝ => c * x ^ k) MeasureTheory.volume a b :=
      (continuous_const.mul (continuous_pow k)).intervalIntegrable _ _
    have h2 : IntervalIntegrable (polyFrom (k + 1) cs) MeasureTheory.volume a b :=
      (continuous_polyFrom (k + 1) cs).intervalIntegrable _ _
    rw [this, integral_add h1 h2, ih (k + 1), integral_const_mul, integral_pow]
    simp only [antiFrom, List.zipIdx_cons, List.map_cons, List.sum_cons]
    push_cast
    ring

theorem polyLoop_antiCoeffs (cs : List ℝ) (y : ℝ) : polyLoop (antiCoeffs cs) y = antiFrom 0 cs y := by
  rw [polyLoop_eq]
  unfold antiCoeffs
  rw [polyFrom_cons]
  simp only [Nat.cast_zero, zero_mul, zero_add]
  -- the shifted index of the mapped list
  have : ∀ (k : Nat), polyFrom (k + 1) ((cs.zipIdx k).map
      (fun (p : ℝ × Nat) => p.1 * ((1 : Nat) : ℝ) / ((p.2 + 1 : Nat) : ℝ))) y = antiFrom k cs y := by
    induction cs with
    | nil => intro k; simp [polyFrom, antiFrom]
    | cons c cs ih =>
      intro k
      simp only [List.zipIdx_cons, List.map_cons, polyFrom_cons, ih (k + 1)]
      simp [antiFrom, List.zipIdx_cons]
  exact this 0

/-- `Polynomial1d` -/
theorem poly1d_integral (cs : List ℝ) (a b : ℝ) :
    ∫ x in a..b, evalPoly1d cs x = anaPoly1d cs a b := by
  unfold evalPoly1d anaPoly1d
  simp_rw [polyLoop_eq cs]
  rw [integral_polyFrom, polyLoop_antiCoeffs, polyLoop_antiCoeffs]

/-! ### `FunctionMultilinear` as coded -/

/-- on boxes all of whose sides have length 1 the coded formula agrees with the repaired one -/
theorem multilinear_code_unit_sides (c s e : List ℝ) (h : ∀ se ∈ List.zip s e, se.2 - se.1 = 1) :
    anaMultilinear c s e = anaMultilinearFixed c s e := by
  unfold anaMultilinear anaMultilinearFixed
  rw [addLoop_eq, addLoop_eq, mulLoop_eq, ← vol_zip]
  have hv : vol (List.zip s e) = 1 := by
    unfold vol
    generalize List.zip s e = box at h
    induction box with
    | nil => simp
    | cons ab bs ih =>
      simp only [List.map_cons, List.prod_cons, h ab (by simp), one_mul]
      exact ih (fun se hse => h se (List.mem_cons_of_mem _ hse))
  rw [hv]
  simp only [Nat.cast_zero, zero_add, Nat.cast_one, mul_one]
  congr 1
  generalize List.zip s e = box at h
  induction c generalizing box with
  | nil => simp
  | cons a c ih =>
    cases box with
    | nil => simp
    | cons ab bs =>
      simp only [List.zipWith_cons_cons, List.cons.injEq]
      refine ⟨?_, ih bs (fun se hse => h se (List.mem_cons_of_mem _ hse))⟩
      have := h ab (by simp)
      have h2 : ab.2 = ab.1 + 1 := by linarith
      rw [h2]; push_cast; ring


/-! ### the rational instance (executed by the driver) is the real instance (the theorems) -/

/-- coordinatewise embedding `ℚ → ℝ` -/
def castL (l : List ℚ) : List ℝ := l.map (fun q : ℚ => (q : ℝ))

theorem cast_hpow (q : ℚ) (n : Nat) : ((@HPow.hPow ℚ Nat ℚ instHPow q n : ℚ) : ℝ) = (q : ℝ) ^ n :=
  Rat.cast_pow q n

theorem cast_mulLoop (r : ℚ) (ts : List ℚ) : ((mulLoop r ts : ℚ) : ℝ) = mulLoop (r : ℝ) (castL ts) := by
  unfold mulLoop castL
  induction ts generalizing r with
  | nil => rfl
  | cons t ts ih => simp only [List.foldl_cons, List.map_cons, ih]; push_cast; rfl

theorem cast_addLoop (r : ℚ) (ts : List ℚ) : ((addLoop r ts : ℚ) : ℝ) = addLoop (r : ℝ) (castL ts) := by
  unfold addLoop castL
  induction ts generalizing r with
  | nil => rfl
  | cons t ts ih => simp only [List.foldl_cons, List.map_cons, ih]; push_cast; rfl

theorem castL_zipWith_zip (f : ℚ → ℚ × ℚ → ℚ) (g : ℝ → ℝ × ℝ → ℝ)
    (h : ∀ c a b, ((f c (a, b) : ℚ) : ℝ) = g c (a, b)) (c s e : List ℚ) :
    castL (List.zipWith f c (List.zip s e)) = List.zipWith g (castL c) (List.zip (castL s) (castL e)) := by
  unfold castL
  induction c generalizing s e with
  | nil => simp
  | cons a c ih =>
    cases s with
    | nil => simp
    | cons x s =>
      cases e with
      | nil => simp
      | cons y e => simp [ih, h]

theorem castL_zipWith (f : ℚ → ℚ → ℚ) (g : ℝ → ℝ → ℝ) (h : ∀ a b, ((f a b : ℚ) : ℝ) = g a b) (s e : List ℚ) :
    castL (List.zipWith f s e) = List.zipWith g (castL s) (castL e) := by
  unfold castL
  induction s generalizing e with
  | nil => simp
  | cons x s ih =>
    cases e with
    | nil => simp
    | cons y e => simp [ih, h]

theorem cast_anaConst (v : ℚ) (s e : List ℚ) : ((anaConst v s e : ℚ) : ℝ) = anaConst (v : ℝ) (castL s) (castL e) := by
  unfold anaConst
  rw [Rat.cast_mul, cast_mulLoop, castL_zipWith _ (fun s e => e - s) (by intro a b; push_cast; rfl)]
  push_cast; rfl

theorem cast_anaPolynomial (k : Nat) (c s e : List ℚ) :
    ((anaPolynomial k c s e : ℚ) : ℝ) = anaPolynomial k (castL c) (castL s) (castL e) := by
  unfold anaPolynomial
  rw [cast_mulLoop, castL_zipWith_zip]
  · push_cast; rfl
  · intro c a b; push_cast [cast_hpow]; rfl

theorem cast_anaLinear (c s e : List ℚ) :
    ((anaLinear c s e : ℚ) : ℝ) = anaLinear (castL c) (castL s) (castL e) := by
  unfold anaLinear
  rw [cast_mulLoop, castL_zipWith_zip]
  · push_cast; rfl
  · intro c a b; push_cast [cast_hpow]; rfl

theorem cast_anaMultilinear (c s e : List ℚ) :
    ((anaMultilinear c s e : ℚ) : ℝ) = anaMultilinear (castL c) (castL s) (castL e) := by
  unfold anaMultilinear
  rw [cast_addLoop, castL_zipWith_zip]
  · push_cast; rfl
  · intro c a b; push_cast [cast_hpow]; rfl

theorem cast_anaMultilinearFixed (c s e : List ℚ) :
    ((anaMultilinearFixed c s e : ℚ) : ℝ) = anaMultilinearFixed (castL c) (castL s) (castL e) := by
  unfold anaMultilinearFixed
  rw [Rat.cast_mul, cast_addLoop, cast_mulLoop, castL_zipWith_zip,
    castL_zipWith _ (fun s e => e - s) (by intro a b; push_cast; rfl)]
  · push_cast; rfl
  · intro c a b; push_cast; rfl

theorem cast_polyLoop (cs : List ℚ) (x : ℚ) : ((polyLoop cs x : ℚ) : ℝ) = polyLoop (castL cs) (x : ℝ) := by
  unfold polyLoop
  rw [cast_addLoop]
  have h : castL (List.map (fun (p : ℚ × Nat) => p.1 * x ^ p.2) cs.zipIdx)
      = List.map (fun (p : ℝ × Nat) => p.1 * (x : ℝ) ^ p.2) (castL cs).zipIdx := by
    unfold castL
    rw [List.zipIdx_map]
    simp only [List.map_map]
    apply List.map_congr_left
    intro p _
    simp only [Function.comp, Prod.map]
    push_cast [cast_hpow]; rfl
  rw [h]; push_cast; rfl

theorem castL_antiCoeffs (cs : List ℚ) : castL (antiCoeffs cs) = antiCoeffs (castL cs) := by
  unfold antiCoeffs
  have h : castL (List.map (fun (p : ℚ × Nat) => p.1 * ((1 : Nat) : ℚ) / ((p.2 + 1 : Nat) : ℚ)) cs.zipIdx)
      = List.map (fun (p : ℝ × Nat) => p.1 * ((1 : Nat) : ℝ) / ((p.2 + 1 : Nat) : ℝ)) (castL cs).zipIdx := by
    unfold castL
    rw [List.zipIdx_map]
    simp only [List.map_map]
    apply List.map_congr_left
    intro p _
    simp only [Function.comp, Prod.map]
    push_cast; rfl
  rw [← h]
  simp [castL]

theorem cast_anaPoly1d (cs : List ℚ) (a b : ℚ) :
    ((anaPoly1d cs a b : ℚ) : ℝ) = anaPoly1d (castL cs) (a : ℝ) (b : ℝ) := by
  unfold anaPoly1d
  rw [Rat.cast_sub, cast_polyLoop, cast_polyLoop, castL_antiCoeffs]

theorem castL_length (l : List ℚ) : (castL l).length = l.length := by simp [castL]

end SparseSpace.AnalyticInt
