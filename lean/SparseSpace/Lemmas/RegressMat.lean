import SparseSpace.Lemmas.Regress
import Mathlib.Algebra.BigOperators.Group.List.Basic
import Mathlib.Data.List.Forall2
/-!
# Lemmas about `Model/Regress`, part 2: structure of the design matrix and of the smoothing matrix `C`
-/
namespace SparseSpace.Regress

theorem getD_of_lt {α : Type} (l : List α) (i : Nat) (d : α) (h : i < l.length) : l.getD i d = l[i] := by
  simp [List.getD_eq_getElem?_getD, h]

/-! ## cross products -/

theorem mem_cross {α : Type} (ls : List (List α)) (v : List α) :
    v ∈ cross ls ↔ List.Forall₂ (fun x l => x ∈ l) v ls := by
  induction ls generalizing v with
  | nil => cases v <;> simp [cross]
  | cons l ls ih =>
    cases v with
    | nil => simp [cross]
    | cons x xs =>
      simp only [cross, List.mem_flatMap, List.mem_map, List.forall₂_cons]
      constructor
      · rintro ⟨a, ha, b, hb, hab⟩
        injection hab with h1 h2
        subst h1; subst h2
        exact ⟨ha, (ih b).mp hb⟩
      · rintro ⟨hx, hxs⟩
        exact ⟨x, hx, xs, (ih xs).mpr hxs, rfl⟩

theorem length_cross {α : Type} (ls : List (List α)) : (cross ls).length = (ls.map List.length).prod := by
  induction ls with
  | nil => simp [cross]
  | cons l ls ih =>
    simp only [cross, List.length_flatMap, List.length_map, List.map_cons, List.prod_cons, ih]
    induction l with
    | nil => simp
    | cons a l ih2 => simp; ring

/-- the columns of the design matrix / rows of `C`: exactly the interior multi-indices `1 ≤ i_d ≤ 2^{l_d} - 1` -/
theorem mem_indexList (lv : List Nat) (iv : List Int) :
    iv ∈ indexList lv ↔ List.Forall₂ (fun (i : Int) (l : Nat) => 1 ≤ i ∧ i ≤ ((2 ^ l - 1 : Nat) : Int)) iv lv := by
  unfold indexList
  rw [mem_cross]
  rw [List.forall₂_map_right_iff]
  have key : ∀ (i : Int) (l : Nat), (i ∈ List.map (fun (k : Nat) => (k : Int) + 1) (List.range (2 ^ l - 1))) ↔
      (1 ≤ i ∧ i ≤ ((2 ^ l - 1 : Nat) : Int)) := by
    intro i l
    simp only [List.mem_map, List.mem_range]
    constructor
    · rintro ⟨k, hk, rfl⟩; omega
    · rintro ⟨h1, h2⟩; exact ⟨(i - 1).toNat, by omega, by omega⟩
  constructor
  · exact List.Forall₂.imp (fun i l h => (key i l).mp h)
  · exact List.Forall₂.imp (fun i l h => (key i l).mpr h)

theorem length_indexList (lv : List Nat) : (indexList lv).length = (lv.map fun l => 2 ^ l - 1).prod := by
  unfold indexList
  rw [length_cross]
  simp [List.map_map, Function.comp_def]

/-! ## design matrix, uniform grids -/

/-- tensor product of nodal hat functions: node `i_d · 2^{-l_d}` in dimension `d` -/
def hatSpecUd : List Nat → List Int → List ℚ → ℚ
  | l :: lv, i :: iv, x :: xs =>
    hatSpec (((i : ℚ) - 1) * meshW l) ((i : ℚ) * meshW l) (((i : ℚ) + 1) * meshW l) x * hatSpecUd lv iv xs
  | _, _, _ => 1

theorem hatUd_eq_spec (lv : List Nat) (iv : List Int) (x : List ℚ) : hatUd lv iv x = hatSpecUd lv iv x := by
  induction lv generalizing iv x with
  | nil => simp [hatUd, hatSpecUd]
  | cons l lv ih =>
    cases iv with
    | nil => simp [hatUd, hatSpecUd]
    | cons i iv =>
      cases x with
      | nil => simp [hatUd, hatSpecUd]
      | cons x xs => simp [hatUd, hatSpecUd, hatU_eq_spec, ih]

theorem designU_eq_spec (lv : List Nat) (X : List (List ℚ)) :
    designU lv X = X.map fun x => (indexList lv).map fun iv => hatSpecUd lv iv x := by
  unfold designU
  simp only [hatUd_eq_spec]

/-! ## design matrix, non-uniform grids -/

/-- a 1-D coordinate list of a dimension-wise grid: strictly increasing from 0 to 1 -/
def StripeOk (s : List ℚ) : Prop := s.Pairwise (· < ·) ∧ s.head? = some 0 ∧ s.getLast? = some 1

theorem triplesAux_ordered (s : List ℚ) (h : s.Pairwise (· < ·)) :
    ∀ t ∈ triplesAux s, t.1 < t.2.1 ∧ t.2.1 < t.2.2 := by
  induction s with
  | nil => simp [triplesAux]
  | cons a s ih =>
    cases s with
    | nil => simp [triplesAux]
    | cons b s =>
      cases s with
      | nil => simp [triplesAux]
      | cons c s =>
        intro t ht
        simp only [triplesAux, List.mem_cons] at ht
        rcases ht with rfl | ht
        · simp only [List.pairwise_cons, List.mem_cons, forall_eq_or_imp] at h
          exact ⟨h.1.1, h.2.1.1⟩
        · exact ih (List.Pairwise.of_cons h) t ht

theorem triples_ordered (s : List ℚ) (h : StripeOk s) : ∀ t ∈ triples s, t.1 < t.2.1 ∧ t.2.1 < t.2.2 := by
  obtain ⟨hp, hh, hl⟩ := h
  have haux := triplesAux_ordered s hp
  unfold triples
  split
  · rename_i a b c
    simp only [List.head?_cons, Option.some.injEq] at hh
    simp at hl
    subst hh; subst hl
    simpa [triplesAux] using haux
  · exact haux

def hatSpecNUd : List (ℚ × ℚ × ℚ) → List ℚ → ℚ
  | t :: ts, x :: xs => hatSpec t.1 t.2.1 t.2.2 x * hatSpecNUd ts xs
  | _, _ => 1

theorem hatNUd_eq_spec (tv : List (ℚ × ℚ × ℚ)) (x : List ℚ)
    (h : ∀ t ∈ tv, t.1 < t.2.1 ∧ t.2.1 < t.2.2) : hatNUd tv x = hatSpecNUd tv x := by
  induction tv generalizing x with
  | nil => simp [hatNUd, hatSpecNUd]
  | cons t ts ih =>
    cases x with
    | nil => simp [hatNUd, hatSpecNUd]
    | cons x xs =>
      have ht := h t (by simp)
      have := hatNU_eq_spec t.1 t.2.1 t.2.2 x ht.1 ht.2
      simp only [hatNUd, hatSpecNUd]
      rw [ih xs (fun t' ht' => h t' (by simp [ht'])), ← this]

theorem pointsNU_ordered (stripes : List (List ℚ)) (h : ∀ s ∈ stripes, StripeOk s) :
    ∀ tv ∈ pointsNU stripes, ∀ t ∈ tv, t.1 < t.2.1 ∧ t.2.1 < t.2.2 := by
  intro tv htv
  unfold pointsNU at htv
  rw [mem_cross, List.forall₂_map_right_iff] at htv
  induction htv with
  | nil => simp
  | @cons t s tv ss hts _ ih =>
    intro t' ht'
    simp only [List.mem_cons] at ht'
    rcases ht' with rfl | ht'
    · exact triples_ordered s (h s (by simp)) _ hts
    · exact ih (fun s' hs' => h s' (by simp [hs'])) t' ht'

theorem designNU_eq_spec (stripes : List (List ℚ)) (h : ∀ s ∈ stripes, StripeOk s) (X : List (List ℚ)) :
    designNU stripes X = X.map fun x => (pointsNU stripes).map fun tv => hatSpecNUd tv x := by
  unfold designNU
  apply List.map_congr_left
  intro x _
  apply List.map_congr_left
  intro tv htv
  exact hatNUd_eq_spec tv x (pointsNU_ordered stripes h tv htv)

/-! ## the smoothing matrix of a uniform component grid -/

/-- 1-D stiffness matrix of the interior hat functions on the uniform mesh of width `h`: `∫ φ_i' φ_j'` -/
def specS (h : ℚ) (i j : Int) : ℚ := if i = j then 2 / h else if (j - i).natAbs > 1 then 0 else -1 / h

/-- 1-D mass matrix: `∫ φ_i φ_j` -/
def specM (h : ℚ) (i j : Int) : ℚ := if i = j then 2 * h / 3 else if (j - i).natAbs > 1 then 0 else h / 6

theorem facU_eq (lk : Nat) (b : Bool) (im jm : Int) :
    facU lk b im jm = if b then specS (meshW lk) im jm else specM (meshW lk) im jm := by
  unfold facU specS specM
  cases b
  · simp only [Bool.false_eq_true, if_false, uniform_mass_diag, uniform_mass_off]
  · simp only [if_true, uniform_stiff_diag, uniform_stiff_off]

/-- what `build_C_matrix` computes: `Σ_k S^{(h_k)}(i_k,j_k) · Π_{m≠k} M^{(h_k)}(i_m,j_m)` — the mass factors carry
the mesh width of dimension `k` -/
def codeU (lv : List Nat) (iv jv : List Int) : ℚ :=
  ((List.range lv.length).map fun k => lprod ((List.range lv.length).map fun m =>
    if m == k then specS (meshW (lv.getD k 0)) (iv.getD m 0) (jv.getD m 0)
    else specM (meshW (lv.getD k 0)) (iv.getD m 0) (jv.getD m 0))).sum

/-- the Gram matrix of the gradients of the tensor hat functions:
`∫ ∇Φ_i·∇Φ_j = Σ_k S^{(h_k)}(i_k,j_k) · Π_{m≠k} M^{(h_m)}(i_m,j_m)` -/
def gramU (lv : List Nat) (iv jv : List Int) : ℚ :=
  ((List.range lv.length).map fun k => lprod ((List.range lv.length).map fun m =>
    if m == k then specS (meshW (lv.getD k 0)) (iv.getD m 0) (jv.getD m 0)
    else specM (meshW (lv.getD m 0)) (iv.getD m 0) (jv.getD m 0))).sum

theorem resU_eq_codeU (lv : List Nat) (iv jv : List Int) : resU lv iv jv = codeU lv iv jv := by
  unfold resU codeU termU
  simp only [facU_eq]

theorem resU_eq_gramU_of_isotropic (lv : List Nat) (l0 : Nat) (h : ∀ l ∈ lv, l = l0) (iv jv : List Int) :
    resU lv iv jv = gramU lv iv jv := by
  rw [resU_eq_codeU]
  unfold codeU gramU
  have hg : ∀ k, k < lv.length → lv.getD k 0 = l0 := by
    intro k hk
    rw [getD_of_lt _ _ _ hk]
    exact h _ (List.getElem_mem hk)
  congr 1
  apply List.map_congr_left
  intro k hk
  congr 1
  apply List.map_congr_left
  intro m hm
  rw [hg k (List.mem_range.mp hk), hg m (List.mem_range.mp hm)]

theorem specS_symm (h : ℚ) (i j : Int) : specS h i j = specS h j i := by
  unfold specS
  by_cases e : i = j
  · subst e; rfl
  · have e' : ¬ j = i := fun x => e x.symm
    have : (j - i).natAbs = (i - j).natAbs := by omega
    simp [e, e', this]

theorem specM_symm (h : ℚ) (i j : Int) : specM h i j = specM h j i := by
  unfold specM
  by_cases e : i = j
  · subst e; rfl
  · have e' : ¬ j = i := fun x => e x.symm
    have : (j - i).natAbs = (i - j).natAbs := by omega
    simp [e, e', this]

/-- the entry formula of `build_C_matrix` is symmetric in the two grid points -/
theorem resU_symm (lv : List Nat) (iv jv : List Int) : resU lv iv jv = resU lv jv iv := by
  rw [resU_eq_codeU, resU_eq_codeU]
  unfold codeU
  congr 1
  apply List.map_congr_left
  intro k _
  congr 1
  apply List.map_congr_left
  intro m _
  rw [specS_symm, specM_symm]

/-! ## mirrored matrices -/

/-- entry `(i, j)` of a list matrix (0 outside) -/
def ent (M : Mat) (i j : Nat) : ℚ := (M.getD i []).getD j 0

theorem ent_mirrored {α : Type} (idx : List α) (res : α → α → ℚ) (i j : Nat) (hi : i < idx.length) (hj : j < idx.length) :
    ent (mirrored idx res) i j = if i ≤ j then res idx[i] idx[j] else res idx[j] idx[i] := by
  unfold ent
  have hrow : (mirrored idx res).getD i [] = (List.range idx.length).map fun j =>
      match idx[i]?, idx[j]? with
      | some a, some b => if i ≤ j then res a b else res b a
      | _, _ => 0 := by
    unfold mirrored
    rw [getD_of_lt _ _ _ (by simpa using hi)]
    simp
    intros; rfl
  rw [hrow, getD_of_lt _ _ _ (by simpa using hj)]
  simp [List.getElem?_eq_getElem hi, List.getElem?_eq_getElem hj]

/-- a matrix filled like `C[i][j] = C[j][i] = res` is symmetric -/
theorem mirrored_symm {α : Type} (idx : List α) (res : α → α → ℚ) (i j : Nat) (hi : i < idx.length) (hj : j < idx.length) :
    ent (mirrored idx res) i j = ent (mirrored idx res) j i := by
  rw [ent_mirrored idx res i j hi hj, ent_mirrored idx res j i hj hi]
  by_cases h1 : i ≤ j
  · by_cases h2 : j ≤ i
    · have : i = j := le_antisymm h1 h2
      subst this; rfl
    · simp [h1, h2]
  · have h2 : j ≤ i := by omega
    simp [h1, h2]

/-- if the entry formula is symmetric, the mirrored matrix is the full matrix of the formula -/
theorem mirrored_eq_full {α : Type} (idx : List α) (res : α → α → ℚ) (hs : ∀ a b, res a b = res b a) :
    mirrored idx res = idx.map fun a => idx.map fun b => res a b := by
  apply List.ext_getElem
  · simp [mirrored]
  · intro i h1 h2
    have hi : i < idx.length := by simpa [mirrored] using h1
    apply List.ext_getElem
    · simp [mirrored]
    · intro j h3 h4
      have hj : j < idx.length := by simpa [mirrored] using h3
      simp only [mirrored, List.getElem_map, List.getElem_range, List.getElem?_eq_getElem hi, List.getElem?_eq_getElem hj]
      split
      · rfl
      · exact hs _ _

theorem cMatrixU_eq_full (lv : List Nat) :
    cMatrixU lv = (indexList lv).map fun iv => (indexList lv).map fun jv => codeU lv iv jv := by
  unfold cMatrixU
  rw [mirrored_eq_full _ _ (resU_symm lv)]
  simp only [resU_eq_codeU]

end SparseSpace.Regress
