import SparseSpace.Model.Exactness
import Mathlib.Tactic.Ring
import Mathlib.Tactic.Linarith
import Mathlib.Tactic.FieldSimp
import Mathlib.Tactic.LinearCombination
import Mathlib.Algebra.Order.Field.Rat
/-!
# 1-D facts for C04: piecewise-linear interpolation and the trapezoid rule on an ARBITRARY sorted node list

* `interp_reproduces_pl` : a function that is affine on every cell of the node list is reproduced everywhere;
* `quad_eq_trap`         : the weight form of the rule (the code) is the cell form;
* `trap_affOn`           : on any sorted list from `p` to `q` the rule integrates a function affine on `[p,q]` exactly;
* `trap_refine`          : adding nodes inside cells where the integrand is affine does not change the rule's value;
* `plOn_refine`          : ... and the function is still piecewise linear w.r.t. the finer list.
All by induction over the list.
-/
namespace SparseSpace.Exact

/-- `u` is affine on `[p,q]` (division-free form) -/
def AffOn (u : Rat → Rat) (p q : Rat) : Prop :=
  ∀ x, p ≤ x → x ≤ q → (q - p) * u x = (q - x) * u p + (x - p) * u q

/-- `u` is affine on every cell of the node list -/
def PLOn (u : Rat → Rat) : List Rat → Prop
  | p :: q :: rest => AffOn u p q ∧ PLOn u (q :: rest)
  | _ => True

/-- strictly increasing (chain form) -/
def StrictSorted : List Rat → Prop
  | p :: q :: rest => p < q ∧ StrictSorted (q :: rest)
  | _ => True

/-- last element of `p :: xs` -/
def lastOf : Rat → List Rat → Rat
  | p, [] => p
  | _, y :: rest => lastOf y rest

theorem strictSorted_iff : ∀ xs : List Rat, strictSorted xs = true ↔ StrictSorted xs
  | [] => by simp [strictSorted, StrictSorted]
  | [_] => by simp [strictSorted, StrictSorted]
  | p :: q :: rest => by
      have ih := strictSorted_iff (q :: rest)
      simp only [strictSorted, StrictSorted, Bool.and_eq_true, decide_eq_true_eq, ih]

theorem StrictSorted.tail {p : Rat} {xs : List Rat} (h : StrictSorted (p :: xs)) : StrictSorted xs := by
  cases xs with
  | nil => trivial
  | cons q rest => exact h.2

theorem sorted_head_le : ∀ (xs : List Rat) (p : Rat), StrictSorted (p :: xs) → ∀ z ∈ p :: xs, p ≤ z
  | [], p, _, z, hz => by
      simp at hz; subst hz; exact le_refl _
  | q :: rest, p, h, z, hz => by
      rcases List.mem_cons.1 hz with rfl | hz
      · exact le_refl _
      · have := sorted_head_le rest q h.2 z hz
        exact le_trans (le_of_lt h.1) this

theorem sorted_head_lt {p : Rat} {xs : List Rat} (h : StrictSorted (p :: xs)) : ∀ z ∈ xs, p < z := by
  intro z hz
  cases xs with
  | nil => simp at hz
  | cons q rest => exact lt_of_lt_of_le h.1 (sorted_head_le rest q h.2 z hz)

theorem lastOf_mem : ∀ (xs : List Rat) (p : Rat), lastOf p xs ∈ p :: xs
  | [], p => by simp [lastOf]
  | y :: rest, p => by
      have := lastOf_mem rest y
      simp only [lastOf]
      exact List.mem_cons_of_mem _ this

theorem head_le_lastOf {p : Rat} {xs : List Rat} (h : StrictSorted (p :: xs)) : p ≤ lastOf p xs :=
  sorted_head_le xs p h _ (lastOf_mem xs p)

theorem le_lastOf : ∀ (xs : List Rat) (p : Rat), StrictSorted (p :: xs) → ∀ z ∈ p :: xs, z ≤ lastOf p xs
  | [], p, _, z, hz => by
      simp at hz; subst hz; exact le_refl _
  | q :: rest, p, h, z, hz => by
      rcases List.mem_cons.1 hz with rfl | hz
      · simp only [lastOf]
        exact le_trans (le_of_lt h.1) (head_le_lastOf h.2)
      · simp only [lastOf]
        exact le_lastOf rest q h.2 z hz

theorem lastOf_eq_getLastD : ∀ (xs : List Rat) (p : Rat), lastD (p :: xs) = lastOf p xs
  | [], p => by simp [lastD, lastOf]
  | y :: rest, p => by
      have := lastOf_eq_getLastD rest y
      simp only [lastD, lastOf] at this ⊢
      simpa using this

/-- a function affine on `[p,q]` is affine on every sub-interval -/
theorem affOn_sub {u : Rat → Rat} {p q p' q' : Rat} (h : AffOn u p q) (hpq : p < q)
    (h1 : p ≤ p') (h2 : p' ≤ q') (h3 : q' ≤ q) : AffOn u p' q' := by
  intro x hx1 hx2
  have hx := h x (le_trans h1 hx1) (le_trans hx2 h3)
  have hp' := h p' h1 (le_trans h2 h3)
  have hq' := h q' (le_trans h1 h2) h3
  have hne : q - p ≠ 0 := ne_of_gt (sub_pos.2 hpq)
  apply mul_left_cancel₀ hne
  linear_combination (q' - p') * hx - (q' - x) * hp' - (x - p') * hq'

/-- the two cells `[p,y]`, `[y,q]` of a function affine on `[p,q]` add up to the cell `[p,q]` -/
theorem cell_split {u : Rat → Rat} {p y q : Rat} (h : AffOn u p q) (h1 : p ≤ y) (h2 : y ≤ q) :
    (y - p) * (u p + u y) / 2 + (q - y) * (u y + u q) / 2 = (q - p) * (u p + u q) / 2 := by
  have hy := h y h1 h2
  linear_combination (1 / 2 : Rat) * hy

/-! ### interpolation -/

theorem lin_of_affOn {u : Rat → Rat} {p q x : Rat} (h : AffOn u p q) (hpq : p < q) (h1 : p ≤ x) (h2 : x ≤ q) :
    lin u p q x = u x := by
  have hx := h x h1 h2
  have hne : q - p ≠ 0 := ne_of_gt (sub_pos.2 hpq)
  unfold lin
  field_simp
  linear_combination -hx

/-- **piecewise-linear interpolation reproduces every function that is affine on each cell of the node list**,
at every point of `[first, last]` -/
theorem interp_reproduces_pl (u : Rat → Rat) : ∀ (xs : List Rat) (p x : Rat),
    StrictSorted (p :: xs) → xs ≠ [] → PLOn u (p :: xs) → p ≤ x → x ≤ lastOf p xs → interp u (p :: xs) x = u x
  | [], _, _, _, hne, _, _, _ => absurd rfl hne
  | [q], p, x, hs, _, hpl, h1, h2 => by
      simp only [lastOf] at h2
      have := lin_of_affOn hpl.1 hs.1 h1 h2
      simp only [interp]
      split <;> exact this
  | q :: r :: rest, p, x, hs, _, hpl, h1, h2 => by
      simp only [interp]
      by_cases hx : x ≤ q
      · rw [if_pos hx]
        exact lin_of_affOn hpl.1 hs.1 h1 hx
      · rw [if_neg hx]
        have hx' : q ≤ x := le_of_lt (lt_of_not_ge hx)
        exact interp_reproduces_pl u (r :: rest) q x hs.2 (by simp) hpl.2 hx' (by simpa [lastOf] using h2)

/-- interpolation only looks at the node values -/
theorem interp_congr (u v : Rat → Rat) : ∀ (xs : List Rat) (x : Rat), (∀ z ∈ xs, u z = v z) → interp u xs x = interp v xs x
  | [], _, _ => rfl
  | [p], _, h => by simp [interp, h p (by simp)]
  | p :: q :: rest, x, h => by
      have hp := h p (by simp)
      have hq := h q (by simp)
      have ih := interp_congr u v (q :: rest) x (fun z hz => h z (List.mem_cons_of_mem _ hz))
      simp only [interp, lin, hp, hq]
      cases rest with
      | nil => rfl
      | cons r rest' => simp only [ih]

/-! ### trapezoid rule -/

theorem trap_congr (u v : Rat → Rat) : ∀ (xs : List Rat), (∀ z ∈ xs, u z = v z) → trap u xs = trap v xs
  | [], _ => rfl
  | [_], _ => rfl
  | p :: q :: rest, h => by
      have hp := h p (by simp)
      have hq := h q (by simp)
      have ih := trap_congr u v (q :: rest) (fun z hz => h z (List.mem_cons_of_mem _ hz))
      simp only [trap, hp, hq, ih]

theorem weightsFrom_dot (u : Rat → Rat) : ∀ (xs : List Rat) (prev : Option Rat),
    dot (weightsFrom prev xs) (xs.map u)
      = (match prev, xs with | some p, x :: _ => (x - p) / 2 * u x | _, _ => 0) + trap u xs
  | [], prev => by cases prev <;> simp [weightsFrom, dot, trap]
  | [x], prev => by cases prev <;> simp [weightsFrom, dot, trap]
  | x :: y :: rest, prev => by
      have ih := weightsFrom_dot u (y :: rest) (some x)
      have hw : weightsFrom prev (x :: y :: rest)
          = ((match prev with | some p => (x - p) / 2 | none => 0) + (y - x) / 2) :: weightsFrom (some x) (y :: rest) := rfl
      rw [hw, List.map_cons]
      show _ * u x + dot (weightsFrom (some x) (y :: rest)) ((y :: rest).map u) = _
      rw [ih]
      cases prev <;> simp only [trap] <;> ring

/-- **the weights computed by `compute_weights` give the cell form of the trapezoid rule** -/
theorem quad_eq_trap (u : Rat → Rat) (xs : List Rat) : quad u xs = trap u xs := by
  have h := weightsFrom_dot u xs none
  unfold quad weights
  rw [h]
  cases xs <;> simp

/-- **on ANY sorted node list from `p` to `q` the trapezoid rule integrates a function affine on `[p,q]` exactly**:
its value is `(q - p)(u p + u q)/2` -/
theorem trap_affOn (u : Rat → Rat) : ∀ (xs : List Rat) (p : Rat),
    StrictSorted (p :: xs) → AffOn u p (lastOf p xs) → trap u (p :: xs) = (lastOf p xs - p) * (u p + u (lastOf p xs)) / 2
  | [], p, _, _ => by simp [trap, lastOf]
  | y :: rest, p, hs, ha => by
      simp only [lastOf] at ha ⊢
      have hyq : y ≤ lastOf y rest := head_le_lastOf hs.2
      have hpq : p < lastOf y rest := lt_of_lt_of_le hs.1 hyq
      have ha' : AffOn u y (lastOf y rest) := affOn_sub ha hpq (le_of_lt hs.1) hyq (le_refl _)
      have ih := trap_affOn u rest y hs.2 ha'
      simp only [trap, ih]
      exact cell_split ha (le_of_lt hs.1) hyq

/-- **refinement**: if `u` is affine on every cell of `p :: K` and the sorted list `p :: xs` contains all nodes of `K`
and has the same end, the trapezoid rule on the finer list has the same value -/
theorem trap_refine (u : Rat → Rat) : ∀ (xs K : List Rat) (p : Rat),
    StrictSorted (p :: xs) → StrictSorted (p :: K) → (∀ k ∈ K, k ∈ xs) → lastOf p K = lastOf p xs →
    PLOn u (p :: K) → trap u (p :: xs) = trap u (p :: K)
  | [], K, p, _, _, hsub, _, _ => by
      cases K with
      | nil => rfl
      | cons k K' => exact absurd (hsub k (by simp)) (by simp)
  | y :: rest, [], p, hs, _, _, hlast, _ => by
      simp only [lastOf] at hlast
      have : p < lastOf y rest := lt_of_lt_of_le hs.1 (head_le_lastOf hs.2)
      rw [← hlast] at this
      exact absurd this (lt_irrefl _)
  | y :: rest, k :: K', p, hs, hK, hsub, hlast, hpl => by
      simp only [lastOf] at hlast
      rcases lt_trichotomy y k with hyk | hyk | hyk
      · -- `y` is a new node inside the cell `[p,k]`
        have hsub' : ∀ k' ∈ k :: K', k' ∈ rest := by
          intro k' hk'
          have hmem := hsub k' hk'
          rcases List.mem_cons.1 hmem with h | h
          · have : k ≤ k' := sorted_head_le K' k hK.2 k' hk'
            rw [h] at this
            exact absurd (lt_of_lt_of_le hyk this) (lt_irrefl _)
          · exact h
        have hK2 : StrictSorted (y :: k :: K') := ⟨hyk, hK.2⟩
        have hpl2 : PLOn u (y :: k :: K') :=
          ⟨affOn_sub hpl.1 hK.1 (le_of_lt hs.1) (le_of_lt hyk) (le_refl _), hpl.2⟩
        have ih := trap_refine u rest (k :: K') y hs.2 hK2 hsub' (by simpa [lastOf] using hlast) hpl2
        simp only [trap] at ih ⊢
        rw [ih]
        have := cell_split hpl.1 (le_of_lt hs.1) (le_of_lt hyk)
        linarith
      · subst hyk
        have hsub' : ∀ k' ∈ K', k' ∈ rest := by
          intro k' hk'
          have hmem := hsub k' (List.mem_cons_of_mem _ hk')
          rcases List.mem_cons.1 hmem with h | h
          · have : y < k' := sorted_head_lt hK.2 k' hk'
            rw [h] at this
            exact absurd this (lt_irrefl _)
          · exact h
        have ih := trap_refine u rest K' y hs.2 hK.2 hsub' hlast hpl.2
        simp only [trap] at ih ⊢
        cases rest with
        | nil =>
            cases K' with
            | nil => rfl
            | cons k' K'' => exact absurd (hsub' k' (by simp)) (by simp)
        | cons r rest' =>
            cases K' with
            | nil => simp only [trap] at ih ⊢; rw [ih]
            | cons k' K'' => simp only [trap] at ih ⊢; rw [ih]
      · -- `k` would have to appear right of `y > k`
        have hmem := hsub k (by simp)
        have : y ≤ k := sorted_head_le rest y hs.2 k hmem
        exact absurd (lt_of_lt_of_le hyk this) (lt_irrefl _)

/-- ... and `u` is piecewise linear w.r.t. the finer list as well -/
theorem plOn_refine (u : Rat → Rat) : ∀ (xs K : List Rat) (p : Rat),
    StrictSorted (p :: xs) → StrictSorted (p :: K) → (∀ k ∈ K, k ∈ xs) → lastOf p K = lastOf p xs →
    PLOn u (p :: K) → PLOn u (p :: xs)
  | [], _, _, _, _, _, _, _ => trivial
  | y :: rest, [], p, hs, _, _, hlast, _ => by
      simp only [lastOf] at hlast
      have : p < lastOf y rest := lt_of_lt_of_le hs.1 (head_le_lastOf hs.2)
      rw [← hlast] at this
      exact absurd this (lt_irrefl _)
  | y :: rest, k :: K', p, hs, hK, hsub, hlast, hpl => by
      simp only [lastOf] at hlast
      rcases lt_trichotomy y k with hyk | hyk | hyk
      · have hsub' : ∀ k' ∈ k :: K', k' ∈ rest := by
          intro k' hk'
          have hmem := hsub k' hk'
          rcases List.mem_cons.1 hmem with h | h
          · have : k ≤ k' := sorted_head_le K' k hK.2 k' hk'
            rw [h] at this
            exact absurd (lt_of_lt_of_le hyk this) (lt_irrefl _)
          · exact h
        have hK2 : StrictSorted (y :: k :: K') := ⟨hyk, hK.2⟩
        have hpl2 : PLOn u (y :: k :: K') :=
          ⟨affOn_sub hpl.1 hK.1 (le_of_lt hs.1) (le_of_lt hyk) (le_refl _), hpl.2⟩
        have ih := plOn_refine u rest (k :: K') y hs.2 hK2 hsub' (by simpa [lastOf] using hlast) hpl2
        exact ⟨affOn_sub hpl.1 hK.1 (le_refl _) (le_of_lt hs.1) (le_of_lt hyk), ih⟩
      · subst hyk
        have hsub' : ∀ k' ∈ K', k' ∈ rest := by
          intro k' hk'
          have hmem := hsub k' (List.mem_cons_of_mem _ hk')
          rcases List.mem_cons.1 hmem with h | h
          · have : y < k' := sorted_head_lt hK.2 k' hk'
            rw [h] at this
            exact absurd this (lt_irrefl _)
          · exact h
        exact ⟨hpl.1, plOn_refine u rest K' y hs.2 hK.2 hsub' hlast hpl.2⟩
      · have hmem := hsub k (by simp)
        have : y ≤ k := sorted_head_le rest y hs.2 k hmem
        exact absurd (lt_of_lt_of_le hyk this) (lt_irrefl _)

/-- interpolation on a finer list reproduces a function that is piecewise linear w.r.t. the coarser one -/
theorem interp_refine (u : Rat → Rat) (xs K : List Rat) (p x : Rat)
    (hs : StrictSorted (p :: xs)) (hK : StrictSorted (p :: K)) (hsub : ∀ k ∈ K, k ∈ xs)
    (hlast : lastOf p K = lastOf p xs) (hpl : PLOn u (p :: K)) (hne : xs ≠ [])
    (h1 : p ≤ x) (h2 : x ≤ lastOf p xs) : interp u (p :: xs) x = u x :=
  interp_reproduces_pl u xs p x hs hne (plOn_refine u xs K p hs hK hsub hlast hpl) h1 h2

end SparseSpace.Exact
