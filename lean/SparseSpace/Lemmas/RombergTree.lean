import SparseSpace.Model.BinTree
import Mathlib.Tactic.Ring
import Mathlib.Tactic.Linarith
import Mathlib.Data.List.Basic
/-!
# Lemmas on `splitMin`, `BTree.build`, `BTree.forceFull` (C11, binary tree completion)
-/
namespace SparseSpace

theorem splitMin_eq_none {l : List PL} : splitMin l = none ↔ l = [] := by
  cases l with
  | nil => simp [splitMin]
  | cons x xs =>
    simp only [splitMin]
    cases h : splitMin xs with
    | none => simp
    | some t =>
      obtain ⟨pre, y, post⟩ := t
      by_cases hxy : x.2 ≤ y.2 <;> simp [hxy]

/-- `splitMin` splits the list at one of its elements -/
theorem splitMin_eq {l pre post : List PL} {x : PL} (h : splitMin l = some (pre, x, post)) :
    l = pre ++ x :: post := by
  induction l generalizing pre post x with
  | nil => simp [splitMin] at h
  | cons y ys ih =>
    simp only [splitMin] at h
    cases hs : splitMin ys with
    | none =>
      rw [hs] at h
      have hy : ys = [] := splitMin_eq_none.mp hs
      simp at h
      obtain ⟨rfl, rfl, rfl⟩ := h
      simp [hy]
    | some t =>
      obtain ⟨pre', z, post'⟩ := t
      rw [hs] at h
      by_cases hyz : y.2 ≤ z.2
      · simp [hyz] at h
        obtain ⟨rfl, rfl, rfl⟩ := h
        simp
      · simp [hyz] at h
        obtain ⟨rfl, rfl, rfl⟩ := h
        simp [ih hs]

theorem splitMin_length {l pre post : List PL} {x : PL} (h : splitMin l = some (pre, x, post)) :
    pre.length + post.length + 1 = l.length := by
  rw [splitMin_eq h]; simp; omega

/-- the chosen element has minimal level, and everything before it has a strictly larger one (FIRST minimum) -/
theorem splitMin_min {l pre post : List PL} {x : PL} (h : splitMin l = some (pre, x, post)) :
    (∀ y ∈ pre, x.2 < y.2) ∧ (∀ y ∈ post, x.2 ≤ y.2) := by
  induction l generalizing pre post x with
  | nil => simp [splitMin] at h
  | cons y ys ih =>
    simp only [splitMin] at h
    cases hs : splitMin ys with
    | none =>
      rw [hs] at h
      simp at h
      obtain ⟨rfl, rfl, rfl⟩ := h
      simp
    | some t =>
      obtain ⟨pre', z, post'⟩ := t
      rw [hs] at h
      obtain ⟨ih1, ih2⟩ := ih hs
      by_cases hyz : y.2 ≤ z.2
      · simp [hyz] at h
        obtain ⟨rfl, rfl, rfl⟩ := h
        refine ⟨by simp, ?_⟩
        intro w hw
        rw [splitMin_eq hs] at hw
        simp only [List.mem_append, List.mem_cons] at hw
        rcases hw with hw | rfl | hw
        · exact le_of_lt (lt_of_le_of_lt hyz (ih1 w hw))
        · exact hyz
        · exact le_trans hyz (ih2 w hw)
      · simp [hyz] at h
        obtain ⟨rfl, rfl, rfl⟩ := h
        refine ⟨?_, ih2⟩
        intro w hw
        simp only [List.mem_cons] at hw
        rcases hw with rfl | hw
        · omega
        · exact ih1 w hw

namespace BTree

/-- **round trip**: `init_tree` followed by `get_grid` returns the given inner points in the given order,
    for arbitrary level lists -/
theorem build_inorder (fuel : ℕ) (l : List PL) (h : l.length ≤ fuel) :
    (build fuel l).inorder = l.map Prod.fst := by
  induction fuel generalizing l with
  | zero =>
    have : l = [] := List.length_eq_zero_iff.mp (by omega)
    subst this; simp [build, inorder]
  | succ n ih =>
    simp only [build]
    cases hs : splitMin l with
    | none => simp [splitMin_eq_none.mp hs, inorder]
    | some t =>
      obtain ⟨pre, x, post⟩ := t
      have hl := splitMin_length hs
      simp only [inorder]
      rw [ih pre (by omega), ih post (by omega), splitMin_eq hs]
      simp

theorem build_eq_nil_iff (fuel : ℕ) (l : List PL) (h : l.length < fuel) : build fuel l = nil ↔ l = [] := by
  cases fuel with
  | zero => omega
  | succ n =>
    simp only [build]
    cases hs : splitMin l with
    | none => simp [splitMin_eq_none.mp hs]
    | some t =>
      obtain ⟨pre, x, post⟩ := t
      have := splitMin_eq hs
      simp
      intro h0; subst h0; simp at this

/-- in-order (point, level) pairs, root of the subtree at level `k` -/
def pointLevels : BTree → ℕ → List (ℚ × ℕ)
  | nil, _ => []
  | node l p r, k => pointLevels l (k + 1) ++ (p, k) :: pointLevels r (k + 1)

theorem pointLevels_eq_zip (t : BTree) (k : ℕ) : t.pointLevels k = t.inorder.zip (t.levels k) := by
  induction t generalizing k with
  | nil => simp [pointLevels, inorder, levels]
  | node l p r ihl ihr =>
    have hlen : ∀ (t : BTree) (k : ℕ), t.inorder.length = (t.levels k).length := by
      intro t
      induction t with
      | nil => intro k; simp [inorder, levels]
      | node l p r ihl ihr => intro k; simp [inorder, levels, ihl (k + 1), ihr (k + 1)]
    simp only [pointLevels, inorder, levels, ihl, ihr]
    rw [List.zip_append (hlen l (k + 1))]
    simp

/-- `force_full_tree_invariant` **keeps all given points, with their levels and order, and only adds points**:
    the in-order (point, level) list of the given tree is a sublist of that of the result -/
theorem forceFull_keeps (t : BTree) (k : ℕ) : (t.pointLevels k).Sublist (t.forceFull.pointLevels k) := by
  induction t generalizing k with
  | nil => simp [forceFull]
  | node l p r ihl ihr =>
    cases l with
    | nil =>
      cases r with
      | nil => simp [forceFull]
      | node rl rp rr =>
        simp only [forceFull, pointLevels]
        have := ihr (k + 1)
        simp only [pointLevels] at this
        simp only [List.nil_append]
        exact List.Sublist.trans (List.Sublist.cons_cons _ this) (List.sublist_append_right _ _)
    | node ll lp lr =>
      cases r with
      | nil =>
        simp only [forceFull, pointLevels]
        have := ihl (k + 1)
        simp only [pointLevels] at this
        refine List.Sublist.append this ?_
        exact List.Sublist.cons_cons _ (by simp)
      | node rl rp rr =>
        simp only [forceFull, pointLevels]
        have h1 := ihl (k + 1)
        have h2 := ihr (k + 1)
        simp only [pointLevels] at h1 h2
        exact List.Sublist.append h1 (List.Sublist.cons_cons _ h2)

theorem forceFull_keeps_points (t : BTree) : t.inorder.Sublist t.forceFull.inorder := by
  have h := forceFull_keeps t 1
  rw [pointLevels_eq_zip, pointLevels_eq_zip] at h
  have hlen : ∀ (t : BTree) (k : ℕ), t.inorder.length = (t.levels k).length := by
    intro t
    induction t with
    | nil => intro k; simp [inorder, levels]
    | node l p r ihl ihr => intro k; simp [inorder, levels, ihl (k + 1), ihr (k + 1)]
  have := h.map Prod.fst
  rwa [List.map_fst_zip (le_of_eq (hlen _ _)), List.map_fst_zip (le_of_eq (hlen _ _))] at this

/-- the result of `force_full_tree_invariant` has **zero or two children at every node** -/
theorem forceFull_isFull (t : BTree) : t.forceFull.isFull = true := by
  induction t with
  | nil => simp [forceFull, isFull]
  | node l p r ihl ihr =>
    cases l with
    | nil =>
      cases r with
      | nil => simp [forceFull, isFull]
      | node rl rp rr =>
        simp only [forceFull]
        cases hr : (node rl rp rr).forceFull with
        | nil => cases rl <;> cases rr <;> simp [forceFull] at hr
        | node a q c => rw [hr] at ihr; simp [isFull, ihr]
    | node ll lp lr =>
      cases r with
      | nil =>
        simp only [forceFull]
        cases hl : (node ll lp lr).forceFull with
        | nil => cases ll <;> cases lr <;> simp [forceFull] at hl
        | node a q c => rw [hl] at ihl; simp [isFull, ihl]
      | node rl rp rr =>
        simp only [forceFull]
        cases hl : (node ll lp lr).forceFull with
        | nil => cases ll <;> cases lr <;> simp [forceFull] at hl
        | node a q c =>
          cases hr : (node rl rp rr).forceFull with
          | nil => cases rl <;> cases rr <;> simp [forceFull] at hr
          | node a' q' c' => rw [hl] at ihl; rw [hr] at ihr; simp [isFull, ihl, ihr]

/-- a tree that already is full is left unchanged -/
theorem forceFull_of_isFull (t : BTree) (h : t.isFull = true) : t.forceFull = t := by
  induction t with
  | nil => rfl
  | node l p r ihl ihr =>
    cases l with
    | nil =>
      cases r with
      | nil => rfl
      | node rl rp rr => simp [isFull] at h
    | node ll lp lr =>
      cases r with
      | nil => simp [isFull] at h
      | node rl rp rr =>
        simp only [isFull, Bool.and_eq_true] at h
        simp only [forceFull, ihl h.1, ihr h.2]

/-- the tree is a dyadic refinement tree of the interval `(c - w, c + w)`: the root sits at the centre `c`, the
    children are dyadic refinement trees of the two halves -/
def Dyadic : ℚ → ℚ → BTree → Prop
  | _, _, nil => True
  | c, w, node l p r => p = c ∧ Dyadic (c - w / 2) (w / 2) l ∧ Dyadic (c + w / 2) (w / 2) r

/-- completion of a dyadic refinement tree is a dyadic refinement tree: the added point is the missing sibling -/
theorem forceFull_dyadic (t : BTree) (c w : ℚ) (h : Dyadic c w t) : Dyadic c w t.forceFull := by
  induction t generalizing c w with
  | nil => simp [forceFull, Dyadic]
  | node l p r ihl ihr =>
    cases l with
    | nil =>
      cases r with
      | nil => simpa [forceFull] using h
      | node rl rp rr =>
        obtain ⟨hp, _, hr⟩ := h
        simp only [forceFull, Dyadic]
        refine ⟨hp, ⟨?_, trivial, trivial⟩, ihr _ _ hr⟩
        have : rp = c + w / 2 := hr.1
        rw [this, hp]; ring
    | node ll lp lr =>
      cases r with
      | nil =>
        obtain ⟨hp, hl, _⟩ := h
        simp only [forceFull, Dyadic]
        refine ⟨hp, ihl _ _ hl, ?_, trivial, trivial⟩
        have : lp = c - w / 2 := hl.1
        rw [this, hp]; ring
      | node rl rp rr =>
        obtain ⟨hp, hl, hr⟩ := h
        simp only [forceFull, Dyadic]
        exact ⟨hp, ihl _ _ hl, ihr _ _ hr⟩

/-- points of a dyadic refinement tree lie strictly inside its interval and are strictly increasing in order -/
theorem dyadic_sorted (t : BTree) (c w : ℚ) (hw : 0 < w) (h : Dyadic c w t) :
    (∀ x ∈ t.inorder, c - w < x ∧ x < c + w) ∧ t.inorder.Pairwise (· < ·) := by
  induction t generalizing c w with
  | nil => simp [inorder]
  | node l p r ihl ihr =>
    obtain ⟨hp, hl, hr⟩ := h
    obtain ⟨hl1, hl2⟩ := ihl _ _ (by linarith) hl
    obtain ⟨hr1, hr2⟩ := ihr _ _ (by linarith) hr
    constructor
    · intro x hx
      simp only [inorder, List.mem_append, List.mem_cons] at hx
      rcases hx with hx | rfl | hx
      · have := hl1 x hx; constructor <;> linarith [this.1, this.2]
      · subst hp; constructor <;> linarith
      · have := hr1 x hx; constructor <;> linarith [this.1, this.2]
    · simp only [inorder]
      rw [List.pairwise_append]
      refine ⟨hl2, ?_, ?_⟩
      · rw [List.pairwise_cons]
        refine ⟨?_, hr2⟩
        intro y hy
        have := hr1 y hy
        subst hp; linarith [this.1]
      · intro x hx y hy
        have h1 := hl1 x hx
        simp only [List.mem_cons] at hy
        rcases hy with rfl | hy
        · subst hp; linarith [h1.2]
        · have := hr1 y hy; linarith [h1.2, this.1]

end BTree
end SparseSpace
