import SparseSpace.Model.RefTree
import Mathlib.Tactic.Linarith
import Mathlib.Tactic.Ring
/-!
# Binary refinement trees on level lists (C06)

`Valid lo hi L`: the pointer-free characterisation of a binary refinement tree on the list `L` of inner point
levels between two boundary points of levels `lo`, `hi`.  It only depends on `max lo hi` (`Tree`).
-/
namespace SparseSpace

/-- binary refinement tree between boundary points of levels `lo` and `hi`: empty, or one root of level
`max lo hi + 1` with a tree on either side -/
inductive Valid : Nat → Nat → List Nat → Prop
  | nil (lo hi : Nat) : Valid lo hi []
  | node (lo hi : Nat) (L₁ L₂ : List Nat) : Valid lo (max lo hi + 1) L₁ → Valid (max lo hi + 1) hi L₂ →
      Valid lo hi (L₁ ++ [max lo hi + 1] ++ L₂)

/-- the same with the single parameter `b = max lo hi` -/
inductive Tree : Nat → List Nat → Prop
  | nil (b : Nat) : Tree b []
  | node (b : Nat) (L₁ L₂ : List Nat) : Tree (b + 1) L₁ → Tree (b + 1) L₂ → Tree b (L₁ ++ [b + 1] ++ L₂)

theorem valid_to_tree {lo hi : Nat} {L : List Nat} (h : Valid lo hi L) : Tree (max lo hi) L := by
  induction h with
  | nil lo hi => exact Tree.nil _
  | node lo hi L₁ L₂ _ _ ih₁ ih₂ =>
    have e1 : max lo (max lo hi + 1) = max lo hi + 1 := by omega
    have e2 : max (max lo hi + 1) hi = max lo hi + 1 := by omega
    rw [e1] at ih₁; rw [e2] at ih₂
    exact Tree.node _ _ _ ih₁ ih₂

theorem tree_to_valid {b : Nat} {L : List Nat} (h : Tree b L) :
    ∀ lo hi, max lo hi = b → Valid lo hi L := by
  induction h with
  | nil b => intro lo hi _; exact Valid.nil _ _
  | node b L₁ L₂ _ _ ih₁ ih₂ =>
    intro lo hi hb
    subst hb
    exact Valid.node lo hi L₁ L₂ (ih₁ _ _ (by omega)) (ih₂ _ _ (by omega))

theorem valid_iff_tree (lo hi : Nat) (L : List Nat) : Valid lo hi L ↔ Tree (max lo hi) L :=
  ⟨valid_to_tree, fun h => tree_to_valid h lo hi rfl⟩

/-- every level inside a tree exceeds the boundary level -/
theorem tree_gt {b : Nat} {L : List Nat} (h : Tree b L) : ∀ x ∈ L, b < x := by
  induction h with
  | nil b => intro x hx; simp at hx
  | node b L₁ L₂ _ _ ih₁ ih₂ =>
    intro x hx
    simp only [List.mem_append, List.mem_cons, List.not_mem_nil, or_false] at hx
    rcases hx with (hx | hx) | hx
    · have := ih₁ x hx; omega
    · omega
    · have := ih₂ x hx; omega

/-- uniform shift up -/
theorem tree_shift_up {b : Nat} {L : List Nat} (h : Tree b L) : Tree (b + 1) (L.map (· + 1)) := by
  induction h with
  | nil b => exact Tree.nil _
  | node b L₁ L₂ _ _ ih₁ ih₂ =>
    simp only [List.map_append, List.map_cons, List.map_nil]
    exact Tree.node _ _ _ ih₁ ih₂

/-- uniform shift down -/
theorem tree_shift_down {b : Nat} {L : List Nat} (h : Tree (b + 1) L) : Tree b (L.map (· - 1)) := by
  generalize hc : b + 1 = c at h
  induction h generalizing b with
  | nil c => exact Tree.nil _
  | node c L₁ L₂ _ _ ih₁ ih₂ =>
    subst hc
    simp only [List.map_append, List.map_cons, List.map_nil]
    have e : b + 1 + 1 - 1 = b + 1 := by omega
    rw [e]
    exact Tree.node _ _ _ (ih₁ rfl) (ih₂ rfl)

/-- **rotation** (right child of the root moves up): the levels of the left part and the root go up by one,
the right child becomes the root, its right subtree goes down by one -/
theorem tree_rotate_right {b : Nat} {A B D : List Nat}
    (hA : Tree (b + 1) A) (hB : Tree (b + 2) B) (hD : Tree (b + 2) D) :
    Tree b ((A.map (· + 1) ++ [b + 2] ++ B) ++ [b + 1] ++ D.map (· - 1)) :=
  Tree.node _ _ _ (Tree.node _ _ _ (tree_shift_up hA) hB) (tree_shift_down hD)

/-- mirror image (left child of the root moves up) -/
theorem tree_rotate_left {b : Nat} {A B D : List Nat}
    (hA : Tree (b + 2) A) (hB : Tree (b + 2) B) (hD : Tree (b + 1) D) :
    Tree b (A.map (· - 1) ++ [b + 1] ++ (B ++ [b + 2] ++ D.map (· + 1))) :=
  Tree.node _ _ _ (tree_shift_down hA) (Tree.node _ _ _ hB (tree_shift_up hD))

/-- the statement in the two-parameter form of the design -/
theorem valid_rotate {lo hi : Nat} {A B D : List Nat}
    (h : Valid lo hi (A ++ [max lo hi + 1] ++ (B ++ [max lo hi + 2] ++ D)))
    (hA : Valid lo (max lo hi + 1) A) (hB : Valid (max lo hi + 1) (max lo hi + 2) B)
    (hD : Valid (max lo hi + 2) hi D) :
    Valid lo hi ((A.map (· + 1) ++ [max lo hi + 2] ++ B) ++ [max lo hi + 1] ++ D.map (· - 1)) := by
  have _ := h
  rw [valid_iff_tree] at hA hB hD ⊢
  have e1 : max lo (max lo hi + 1) = max lo hi + 1 := by omega
  have e2 : max (max lo hi + 1) (max lo hi + 2) = max lo hi + 2 := by omega
  have e3 : max (max lo hi + 2) hi = max lo hi + 2 := by omega
  rw [e1] at hA; rw [e2] at hB; rw [e3] at hD
  exact tree_rotate_right hA hB hD

/-! ## decomposition of a tree at its root is unique -/

theorem tree_root_unique {b : Nat} {L₁ L₂ M₁ M₂ : List Nat}
    (h₁ : ∀ x ∈ L₁, b + 1 < x) (h₂ : ∀ x ∈ M₁, b + 1 < x)
    (e : L₁ ++ [b + 1] ++ L₂ = M₁ ++ [b + 1] ++ M₂) : L₁ = M₁ ∧ L₂ = M₂ := by
  induction L₁ generalizing M₁ with
  | nil =>
    cases M₁ with
    | nil => simpa using e
    | cons y ys =>
      simp only [List.nil_append, List.cons_append, List.cons.injEq] at e
      have := h₂ y (by simp); omega
  | cons x xs ih =>
    cases M₁ with
    | nil =>
      simp only [List.nil_append, List.cons_append, List.cons.injEq] at e
      have := h₁ x (by simp); omega
    | cons y ys =>
      simp only [List.cons_append, List.cons.injEq] at e
      obtain ⟨rfl, e⟩ := e
      have := ih (M₁ := ys) (fun z hz => h₁ z (List.mem_cons_of_mem _ hz))
        (fun z hz => h₂ z (List.mem_cons_of_mem _ hz)) (by simpa using e)
      exact ⟨by rw [this.1], this.2⟩

/-- inversion: a non-empty tree splits at its root -/
theorem tree_inv {b : Nat} {L : List Nat} (h : Tree b L) (hne : L ≠ []) :
    ∃ L₁ L₂, L = L₁ ++ [b + 1] ++ L₂ ∧ Tree (b + 1) L₁ ∧ Tree (b + 1) L₂ := by
  cases h with
  | nil => exact absurd rfl hne
  | node _ L₁ L₂ h₁ h₂ => exact ⟨L₁, L₂, rfl, h₁, h₂⟩

/-- inversion at a given decomposition -/
theorem tree_inv_at {b : Nat} {L₁ L₂ : List Nat} (h : Tree b (L₁ ++ [b + 1] ++ L₂))
    (h₁ : ∀ x ∈ L₁, b + 1 < x) : Tree (b + 1) L₁ ∧ Tree (b + 1) L₂ := by
  obtain ⟨M₁, M₂, e, t₁, t₂⟩ := tree_inv h (by simp)
  have := tree_root_unique h₁ (tree_gt t₁) e
  rw [this.1, this.2]; exact ⟨t₁, t₂⟩

/-! ## executable check -/

theorem splitAtFirst_some (c : Nat) : ∀ (L A B : List Nat), splitAtFirst c L = some (A, B) →
    L = A ++ [c] ++ B
  | [], A, B, h => by simp [splitAtFirst] at h
  | x :: xs, A, B, h => by
    simp only [splitAtFirst] at h
    by_cases hx : x = c
    · subst hx
      simp only [beq_self_eq_true, if_true, Option.some.injEq, Prod.mk.injEq] at h
      obtain ⟨rfl, rfl⟩ := h
      simp
    · have hb : (x == c) = false := by simp [hx]
      simp only [hb] at h
      cases hr : splitAtFirst c xs with
      | none => rw [hr] at h; simp at h
      | some r =>
        obtain ⟨a, b'⟩ := r
        rw [hr] at h
        simp only [Bool.false_eq_true, if_false, Option.some.injEq, Prod.mk.injEq] at h
        obtain ⟨rfl, rfl⟩ := h
        have := splitAtFirst_some c xs a b' hr
        rw [this]; simp

theorem splitAtFirst_at_root (c : Nat) : ∀ (L₁ L₂ : List Nat), (∀ x ∈ L₁, x ≠ c) →
    splitAtFirst c (L₁ ++ [c] ++ L₂) = some (L₁, L₂)
  | [], L₂, _ => by simp [splitAtFirst]
  | x :: xs, L₂, h => by
    have hx : (x == c) = false := by simpa using h x (by simp)
    have ih := splitAtFirst_at_root c xs L₂ (fun y hy => h y (by simp [hy]))
    simp only [List.cons_append, splitAtFirst, hx]
    simp only [List.append_assoc, List.cons_append, List.nil_append] at ih
    simp [ih]

theorem treeB_sound : ∀ (f b : Nat) (L : List Nat), treeB f b L = true → Tree b L
  | _, b, [] => fun _ => Tree.nil b
  | 0, _, _ :: _ => fun h => by simp [treeB] at h
  | f+1, b, x :: xs => fun h => by
    simp only [treeB] at h
    cases hr : splitAtFirst (b + 1) (x :: xs) with
    | none => rw [hr] at h; simp at h
    | some r =>
      obtain ⟨A, B⟩ := r
      rw [hr] at h
      simp only [Bool.and_eq_true] at h
      rw [splitAtFirst_some _ _ _ _ hr]
      exact Tree.node b _ _ (treeB_sound f (b + 1) _ h.1) (treeB_sound f (b + 1) _ h.2)

theorem treeB_complete {b : Nat} {L : List Nat} (h : Tree b L) : ∀ f, L.length ≤ f → treeB f b L = true := by
  induction h with
  | nil b => intro f _; cases f <;> simp [treeB]
  | node b L₁ L₂ t₁ _ ih₁ ih₂ =>
    intro f hf
    cases f with
    | zero => simp at hf
    | succ f =>
      have hne : ∀ x ∈ L₁, x ≠ b + 1 := fun x hx => by have := tree_gt t₁ x hx; omega
      have hsp := splitAtFirst_at_root (b + 1) L₁ L₂ hne
      have hlen : (L₁ ++ [b + 1] ++ L₂).length = L₁.length + 1 + L₂.length := by
        simp only [List.length_append, List.length_cons, List.length_nil]
      have hf' : L₁.length + 1 + L₂.length ≤ f + 1 := by rw [← hlen]; exact hf
      cases hL : L₁ ++ [b + 1] ++ L₂ with
      | nil => simp at hL
      | cons y ys =>
        rw [hL] at hsp
        simp only [treeB, hsp, Bool.and_eq_true]
        exact ⟨ih₁ f (by omega), ih₂ f (by omega)⟩

/-- **`validLevels` decides `Valid`** -/
theorem validLevels_iff (lo hi : Nat) (L : List Nat) : validLevels lo hi L = true ↔ Valid lo hi L := by
  rw [valid_iff_tree]
  exact ⟨treeB_sound _ _ _, fun h => treeB_complete h _ (Nat.le_refl _)⟩

/-! ## splitting intervals -/

/-- the level list after splitting the intervals marked in `flags` (one flag per gap of `lo :: L ++ [hi]`):
a new point of level `max(left, right) + 1` in each marked gap -/
def insertLevels : Nat → List Nat → Nat → List Bool → List Nat
  | lo, [], hi, f :: _ => if f then [max lo hi + 1] else []
  | _, [], _, [] => []
  | lo, x :: xs, hi, f :: fs => (if f then [max lo x + 1] else []) ++ x :: insertLevels x xs hi fs
  | _, x :: xs, _, [] => x :: xs

theorem insertLevels_append : ∀ (lo : Nat) (L₁ : List Nat) (m : Nat) (L₂ : List Nat) (hi : Nat)
    (f₁ f₂ : List Bool), f₁.length = L₁.length + 1 →
    insertLevels lo (L₁ ++ [m] ++ L₂) hi (f₁ ++ f₂) =
      insertLevels lo L₁ m f₁ ++ [m] ++ insertLevels m L₂ hi f₂
  | lo, [], m, L₂, hi, f₁, f₂, hf => by
    match f₁, hf with
    | [f], _ =>
      cases f <;> simp [insertLevels]
  | lo, x :: xs, m, L₂, hi, f₁, f₂, hf => by
    match f₁, hf with
    | f :: fs, hf =>
      have ih := insertLevels_append x xs m L₂ hi fs f₂ (by simpa using hf)
      simp only [List.cons_append, insertLevels]
      simp only [List.append_assoc, List.cons_append, List.nil_append] at ih ⊢
      rw [ih]

/-- **splitting any set of intervals keeps the tree** -/
theorem tree_insert {b : Nat} {L : List Nat} (h : Tree b L) :
    ∀ lo hi flags, max lo hi = b → flags.length = L.length + 1 → Tree b (insertLevels lo L hi flags) := by
  induction h with
  | nil b =>
    intro lo hi flags hb hf
    match flags, hf with
    | [f], _ =>
      cases f
      · simp only [insertLevels]; exact Tree.nil _
      · simp only [insertLevels, if_true]
        have := Tree.node b [] [] (Tree.nil _) (Tree.nil _)
        rw [hb]; simpa using this
  | node b L₁ L₂ _ _ ih₁ ih₂ =>
    intro lo hi flags hb hf
    have hlen : flags.length = (L₁.length + 1) + (L₂.length + 1) := by simp at hf; omega
    have hsplit : flags = flags.take (L₁.length + 1) ++ flags.drop (L₁.length + 1) := (List.take_append_drop _ _).symm
    rw [hsplit, insertLevels_append lo L₁ (b + 1) L₂ hi _ _ (by simp; omega)]
    exact Tree.node b _ _ (ih₁ lo (b + 1) _ (by omega) (by simp; omega))
      (ih₂ (b + 1) hi _ (by omega) (by simp; omega))

theorem valid_split {lo hi : Nat} {L : List Nat} (h : Valid lo hi L) (flags : List Bool)
    (hf : flags.length = L.length + 1) : Valid lo hi (insertLevels lo L hi flags) := by
  rw [valid_iff_tree] at h ⊢
  exact tree_insert h lo hi flags rfl hf

/-! ## the wording of the property: nearest lower-level points -/

/-- the level of the nearest point of level `< x` in a list read from the point outwards -/
def nearestLower (x : Nat) (l : List Nat) : Option Nat := l.find? (· < x)

theorem find_lt_append_left {x : Nat} {l r : List Nat} {p : Nat} (h : l.find? (· < x) = some p) :
    (l ++ r).find? (· < x) = some p := by
  rw [List.find?_append, h]; rfl

theorem find_lt_skip {x : Nat} {l r : List Nat} (h : ∀ y ∈ l, x ≤ y) :
    (l ++ r).find? (· < x) = r.find? (· < x) := by
  rw [List.find?_append]
  have : l.find? (· < x) = none := by
    rw [List.find?_eq_none]; intro y hy; have := h y hy; simp; omega
  rw [this]; rfl

/-- **the property's formulation follows from `Valid`**: for every inner point (level `x`, the points `A`
to its left and `B` to its right), the nearest points of lower level on either side exist and the higher of
their two levels is exactly `x - 1` -/
theorem tree_nearest_lower {b : Nat} {L : List Nat} (h : Tree b L) :
    ∀ (lo hi : Nat) (A B : List Nat) (x : Nat), max lo hi = b → L = A ++ [x] ++ B →
      ∃ p q, nearestLower x (A.reverse ++ [lo]) = some p ∧ nearestLower x (B ++ [hi]) = some q ∧
        max p q + 1 = x := by
  induction h with
  | nil b => intro lo hi A B x _ e; simp at e
  | node b L₁ L₂ t₁ t₂ ih₁ ih₂ =>
    intro lo hi A B x hb e
    have g₁ := tree_gt t₁
    have g₂ := tree_gt t₂
    -- where does `x` sit?
    have e' : L₁ ++ ((b + 1) :: L₂) = A ++ (x :: B) := by simpa using e
    rcases List.append_eq_append_iff.1 e' with ⟨C, hA, hC⟩ | ⟨C, hL₁, hC⟩
    · -- A = L₁ ++ C, (b+1) :: L₂ = C ++ x :: B
      cases C with
      | nil =>
        -- x = b + 1 is the root
        simp only [List.nil_append, List.cons.injEq] at hC
        obtain ⟨hx, hB⟩ := hC
        subst hx; subst hB
        simp only [List.append_nil] at hA; subst hA
        refine ⟨lo, hi, ?_, ?_, by omega⟩
        · unfold nearestLower
          rw [find_lt_skip (by intro y hy; have := g₁ y (by simpa using hy); omega)]
          simp; omega
        · unfold nearestLower
          rw [find_lt_skip (by intro y hy; have := g₂ y hy; omega)]
          simp; omega
      | cons c C =>
        -- x lies in L₂
        simp only [List.cons_append, List.cons.injEq] at hC
        obtain ⟨hc, hL₂⟩ := hC
        subst hc
        obtain ⟨p, q, hp, hq, hpq⟩ := ih₂ (b + 1) hi C B x (by omega) (by simpa using hL₂)
        refine ⟨p, q, ?_, hq, hpq⟩
        subst hA
        unfold nearestLower at hp ⊢
        simp only [List.reverse_append, List.reverse_cons, List.append_assoc] at hp ⊢
        have := find_lt_append_left (r := L₁.reverse ++ [lo]) hp
        simpa using this
    · -- L₁ = A ++ C, x :: B = C ++ (b+1) :: L₂
      cases C with
      | nil =>
        simp only [List.nil_append, List.cons.injEq] at hC
        obtain ⟨hx, hB⟩ := hC
        simp only [List.append_nil] at hL₁
        subst hx; subst hB; subst hL₁
        refine ⟨lo, hi, ?_, ?_, by omega⟩
        · unfold nearestLower
          rw [find_lt_skip (by intro y hy; have := g₁ y (by simpa using hy); omega)]
          simp; omega
        · unfold nearestLower
          rw [find_lt_skip (by intro y hy; have := g₂ y hy; omega)]
          simp; omega
      | cons c C =>
        simp only [List.cons_append, List.cons.injEq] at hC
        obtain ⟨hc, hB⟩ := hC
        subst hc
        obtain ⟨p, q, hp, hq, hpq⟩ := ih₁ lo (b + 1) A C x (by omega) (by simpa using hL₁)
        refine ⟨p, q, hp, ?_, hpq⟩
        rw [hB]
        unfold nearestLower at hq ⊢
        have := find_lt_append_left (r := L₂ ++ [hi]) hq
        simpa using this

theorem valid_nearest_lower {lo hi : Nat} {L : List Nat} (h : Valid lo hi L) (A B : List Nat) (x : Nat)
    (e : L = A ++ [x] ++ B) :
    ∃ p q, nearestLower x (A.reverse ++ [lo]) = some p ∧ nearestLower x (B ++ [hi]) = some q ∧
      max p q + 1 = x :=
  tree_nearest_lower (valid_to_tree h) lo hi A B x rfl e

end SparseSpace
