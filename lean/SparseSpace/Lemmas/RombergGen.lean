import SparseSpace.Generated.RombergGen
import SparseSpace.Generated.RombergTrapGen
import SparseSpace.Generated.RombergSimpGen
import SparseSpace.Lemmas.RombergCoeff
/-!
# Translator tie for the Romberg coefficients and point weights (C11)

`Generated/RombergGen.lean` (class family of `ExtrapolationCoefficients`), `RombergTrapGen.lean`
(`RombergTrapezoidalWeights`) and `RombergSimpGen.lean` (`RombergSimpsonWeights`) agree with `Model/Romberg`
(`stepWidth`, `coeff`, `trapBoundary`, `trapInner`, `simpBoundary`, `simpInner`) for all natural levels.
-/
namespace SparseSpace.Romberg
open SparseSpace

/-- the exponent of the product formula that a class of the coefficient family passes to `get_romberg_coefficient` -/
def expOf : GenRC.Cls → Nat
  | .RombergLinearCoefficients => 1
  | .RombergDefaultCoefficients => 2
  | .RombergSimpsonCoefficients => 3

/-! ### loops over `range` as the model's recursions -/

theorem foldl_range_succ {β : Type} (f : β → Int → β) (init : β) (n : Nat) :
    List.foldl f init ((List.range (n + 1)).map Int.ofNat) = f (List.foldl f init ((List.range n).map Int.ofNat)) (Int.ofNat n) := by
  rw [List.range_succ, List.map_append, List.foldl_append]
  rfl

theorem foldl_range2_succ {β : Type} (f : β → Int → β) (init : β) (lo : Int) (n : Nat) :
    List.foldl f init ((List.range (n + 1)).map fun k => lo + Int.ofNat k) =
      f (List.foldl f init ((List.range n).map fun k => lo + Int.ofNat k)) (lo + Int.ofNat n) := by
  rw [List.range_succ, List.map_append, List.foldl_append]
  rfl

theorem range_ofNat (n : Nat) : PyRt.range (Int.ofNat n) = (List.range n).map Int.ofNat := rfl

theorem range2_ofNat (lo n : Nat) :
    PyRt.range2 (Int.ofNat lo) (Int.ofNat lo + Int.ofNat n) = (List.range n).map fun k => Int.ofNat lo + Int.ofNat k := by
  unfold PyRt.range2
  rw [show Int.ofNat lo + Int.ofNat n - Int.ofNat lo = Int.ofNat n by simp]
  rfl

/-- `for j in range(n): w += f(j)` from `0` -/
theorem foldl_sum_range (f : Int → Rat) (g : Nat → Rat) (h : ∀ k, f (Int.ofNat k) = g k) (n : Nat) :
    List.foldl (fun (w : Rat) (j : Int) => w + f j) 0 ((List.range n).map Int.ofNat) = sumRange 0 n g := by
  induction n with
  | zero => simp [sumRange]
  | succ n ih => rw [foldl_range_succ, ih, sumRange, h, Nat.zero_add]

/-- `for j in range(lo, lo + n): w += f(j)` from `w0` -/
theorem foldl_sum_range2 (f : Int → Rat) (g : Nat → Rat) (lo : Nat) (h : ∀ k, f (Int.ofNat lo + Int.ofNat k) = g (lo + k)) (w0 : Rat) (n : Nat) :
    List.foldl (fun (w : Rat) (j : Int) => w + f j) w0 ((List.range n).map fun k => Int.ofNat lo + Int.ofNat k) = w0 + sumRange lo n g := by
  induction n with
  | zero => simp [sumRange]
  | succ n ih => rw [foldl_range2_succ, ih, sumRange, h, add_assoc]

/-! ### coefficients -/

theorem gen_step_width (s : GenRC.State) (j : Nat) : GenRC.get_step_width s (Int.ofNat j) = stepWidth s.a s.b j := by
  simp [GenRC.get_step_width, stepWidth, PyRt.pow, rpow_eq]

theorem gen_romberg_coefficient (s : GenRC.State) (m j e : Nat) :
    GenRC.get_romberg_coefficient s (Int.ofNat m) (Int.ofNat j) (Int.ofNat e) = coeff s.a s.b e m j := by
  unfold GenRC.get_romberg_coefficient coeff
  dsimp only
  rw [show Int.ofNat m + (1 : Int) = Int.ofNat (m + 1) from rfl, range_ofNat]
  generalize m + 1 = n
  induction n with
  | zero => simp [coeffAux]
  | succ n ih =>
    rw [foldl_range_succ, ih, coeffAux, gen_step_width, gen_step_width]
    congr 1
    by_cases h : n = j
    · subst h; simp
    · have h' : (Int.ofNat n != Int.ofNat j) = true := by
        simp only [bne_iff_ne, ne_eq, Int.ofNat_eq_natCast, Int.natCast_inj]; exact h
      simp [h, h', rpow_eq]

theorem gen_get_coefficient (o : GenRC.Obj) (m j : Nat) :
    GenRC.Obj.get_coefficient o (Int.ofNat m) (Int.ofNat j) = coeff o.st.a o.st.b (expOf o.cls) m j := by
  unfold GenRC.Obj.get_coefficient
  cases o.cls <;>
    simp only [GenRC.RombergLinearCoefficients_get_coefficient, GenRC.RombergDefaultCoefficients_get_coefficient,
      GenRC.RombergSimpsonCoefficients_get_coefficient, expOf]
  · exact gen_romberg_coefficient o.st m j 1
  · exact gen_romberg_coefficient o.st m j 2
  · exact gen_romberg_coefficient o.st m j 3

theorem gen_obj_step_width (o : GenRC.Obj) (j : Nat) : GenRC.Obj.get_step_width o (Int.ofNat j) = stepWidth o.st.a o.st.b j := by
  unfold GenRC.Obj.get_step_width
  cases o.cls <;> exact gen_step_width o.st j

/-! ### trapezoidal point weights -/

theorem gen_trap_boundary (s : GenRT.State) (m : Nat) :
    GenRT.get_boundary_point_weight s (Int.ofNat m) =
      trapBoundary s.extrapolation_factory.st.a s.extrapolation_factory.st.b (expOf s.extrapolation_factory.cls) m := by
  unfold GenRT.get_boundary_point_weight trapBoundary
  dsimp only
  rw [show Int.ofNat m + (1 : Int) = Int.ofNat (m + 1) from rfl, range_ofNat]
  simp only [Int.cast_zero]
  exact foldl_sum_range _ _ (fun k => by dsimp only [GenRT.get_step_width]; rw [gen_get_coefficient, gen_obj_step_width]; simp) (m + 1)

theorem gen_trap_inner (s : GenRT.State) (l m : Nat) (hl : l ≤ m) :
    GenRT.get_inner_point_weight s (Int.ofNat l) (Int.ofNat m) =
      trapInner s.extrapolation_factory.st.a s.extrapolation_factory.st.b (expOf s.extrapolation_factory.cls) l m := by
  unfold GenRT.get_inner_point_weight trapInner
  dsimp only
  rw [show Int.ofNat m + (1 : Int) = Int.ofNat l + Int.ofNat (m + 1 - l) by simp; omega, range2_ofNat]
  simp only [Int.cast_zero]
  rw [foldl_sum_range2 _ (fun j => coeff s.extrapolation_factory.st.a s.extrapolation_factory.st.b (expOf s.extrapolation_factory.cls) m j *
    stepWidth s.extrapolation_factory.st.a s.extrapolation_factory.st.b j) l
    (fun k => by
      rw [show Int.ofNat l + Int.ofNat k = Int.ofNat (l + k) from rfl]
      dsimp only [GenRT.get_step_width]; rw [gen_get_coefficient, gen_obj_step_width])]
  simp

/-! ### Simpson point weights -/

theorem gen_simp_boundary (s : GenRS.State) (m : Nat) (hc : s.extrapolation_factory.cls = .RombergSimpsonCoefficients) :
    GenRS.get_boundary_point_weight s (Int.ofNat m) = simpBoundary s.extrapolation_factory.st.a s.extrapolation_factory.st.b m := by
  unfold GenRS.get_boundary_point_weight simpBoundary
  dsimp only
  rw [show Int.ofNat m + (1 : Int) = Int.ofNat (m + 1) from rfl, range_ofNat]
  simp only [Int.cast_zero]
  refine foldl_sum_range _ _ (fun k => ?_) (m + 1)
  dsimp only [GenRS.get_step_width]
  rw [gen_get_coefficient, gen_obj_step_width, hc]
  simp only [expOf]
  by_cases h : k = 0
  · subst h; simp
  · have : (Int.ofNat k == (0 : Int)) = false := by simpa using h
    simp [this, h]

theorem gen_simp_inner (s : GenRS.State) (l m : Nat) (hl : l ≤ m) (hc : s.extrapolation_factory.cls = .RombergSimpsonCoefficients) :
    GenRS.get_inner_point_weight s (Int.ofNat l) (Int.ofNat m) = simpInner s.extrapolation_factory.st.a s.extrapolation_factory.st.b l m := by
  unfold GenRS.get_inner_point_weight simpInner
  dsimp only
  by_cases h : l + 1 > m
  · have h' : decide (Int.ofNat l + (1 : Int) > Int.ofNat m) = true := by simp; omega
    rw [h', if_pos rfl, show m - l = 0 by omega]
    dsimp only [GenRS.get_step_width]
    rw [gen_get_coefficient, gen_obj_step_width, hc]
    simp [sumRange, expOf]
  · have h' : decide (Int.ofNat l + (1 : Int) > Int.ofNat m) = false := by simp; omega
    rw [h', if_neg (by simp)]
    rw [show Int.ofNat m + (1 : Int) = Int.ofNat (l + 1) + Int.ofNat (m - l) by simp; omega,
      show Int.ofNat l + (1 : Int) = Int.ofNat (l + 1) from rfl, range2_ofNat]
    rw [foldl_sum_range2 _ (fun j => coeff s.extrapolation_factory.st.a s.extrapolation_factory.st.b 3 m j *
      stepWidth s.extrapolation_factory.st.a s.extrapolation_factory.st.b j * 2 / 3) (l + 1)
      (fun k => by
        rw [show Int.ofNat (l + 1) + Int.ofNat k = Int.ofNat (l + 1 + k) from rfl]
        dsimp only [GenRS.get_step_width]; rw [gen_get_coefficient, gen_obj_step_width, hc]; simp [expOf])]
    dsimp only [GenRS.get_step_width]
    rw [gen_get_coefficient, gen_obj_step_width, hc]
    simp [expOf]

end SparseSpace.Romberg
