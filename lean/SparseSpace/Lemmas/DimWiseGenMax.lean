import SparseSpace.Lemmas.DimWiseGenSub
/-!
# Translator tie for the dimension-wise strategy, part 4: `get_max_level`

The two index-walking `while` loops of the generated code (to the left over `levels[0]`, to the right over `levels[1]`,
each until a level `≤` the own end level is met) equal the hand model's `maxLevel` (scans over list segments), for every
container, every valid index and an empty cache entry.
-/
namespace SparseSpace
open SparseSpace.PyRt

/-- a hand-model interval as the record the generated code reads (`levels`, `coarsening_level`) -/
def toObj (x : Ival) : GenDW.RefinementObjectSingleDimension :=
  { levels := [(x.l0 : Int), (x.l1 : Int)], coarsening_level := x.c }

def toCont (objs : List Ival) : GenDW.RefinementContainer := { get_objects := objs.map toObj }

def ival0 : Ival := ⟨0, 0, 0, 0, 0⟩

theorem getItem_nat {α : Type} [Inhabited α] (l : List α) (k : Nat) : getItem l (Int.ofNat k) = l.getD k default := by
  unfold getItem pos?
  by_cases h : k < l.length
  · simp [h]
  · simp [h]

theorem getItem_obj (objs : List Ival) (j : Nat) (h : j < objs.length) :
    getItem (objs.map toObj) (Int.ofNat j) = toObj (objs.getD j ival0) := by
  rw [getItem_nat]
  simp [List.getD_eq_getElem?_getD, List.getElem?_map, List.getElem?_eq_getElem h]

theorem lev0 (x : Ival) : getItem (toObj x).levels 0 = (x.l0 : Int) := by
  simp [toObj, getItem, pos?]

theorem lev1 (x : Ival) : getItem (toObj x).levels 1 = (x.l1 : Int) := by
  simp [toObj, getItem, pos?]

/-! ### the loop to the left -/

/-- `levels[0]` of the objects `r, r-1, …, 1` -/
def leftList (objs : List Ival) : Nat → List Nat
  | 0 => []
  | r + 1 => (objs.getD (r + 1) ival0).l0 :: leftList objs r

def stepL (objs : List Ival) (own i : Int) (st : Int × Int) : Bool × (Int × Int) :=
  if (!decide (i - st.2 > 0)) = true then (false, st)
  else if decide (getItem (getItem (toCont objs).get_objects (i - st.2)).levels 0 ≤ own) = true
    then (false, (max st.1 (getItem (getItem (toCont objs).get_objects (i - st.2)).levels 0), st.2))
    else (true, (max st.1 (getItem (getItem (toCont objs).get_objects (i - st.2)).levels 0), st.2 + 1))

theorem while_left (objs : List Ival) (own i : Nat) (hi : i < objs.length) : ∀ (r : Nat) (fuel : Nat) (ml : Nat),
    r ≤ i → r < fuel →
    (whileSt fuel ((ml : Int), (i : Int) - (r : Int)) (stepL objs own i)).1
      = ((maxLevelScan own (leftList objs r) ml : Nat) : Int)
  | 0, fuel + 1, ml, _, _ => by
    simp [whileSt, stepL, leftList, maxLevelScan]
  | r + 1, fuel + 1, ml, hr, hf => by
    have hidx : (i : Int) - ((i : Int) - ((r + 1 : Nat) : Int)) = Int.ofNat (r + 1) := by
      show _ = ((r + 1 : Nat) : Int); omega
    have hpos : Int.ofNat (r + 1) > 0 := by
      show ((r + 1 : Nat) : Int) > 0; omega
    simp only [whileSt, stepL, hidx, hpos, decide_true, Bool.not_true, Bool.false_eq_true, if_false, toCont,
      getItem_obj objs (r + 1) (by omega), lev0, leftList, maxLevelScan]
    by_cases hle : (objs.getD (r + 1) ival0).l0 ≤ own
    · have hle' : (((objs.getD (r + 1) ival0).l0 : Nat) : Int) ≤ (own : Int) := by exact_mod_cast hle
      simp only [hle', decide_true, if_true, hle]
      simp
    · have hle' : ¬ (((objs.getD (r + 1) ival0).l0 : Nat) : Int) ≤ (own : Int) := by exact_mod_cast hle
      simp only [hle', decide_false, Bool.false_eq_true, if_false, hle]
      have hk : (i : Int) - ((r + 1 : Nat) : Int) + 1 = (i : Int) - (r : Int) := by push_cast; omega
      have hm : max (ml : Int) (((objs.getD (r + 1) ival0).l0 : Nat) : Int) = ((max ml (objs.getD (r + 1) ival0).l0 : Nat) : Int) := by
        push_cast; rfl
      rw [hk, hm]
      exact while_left objs own i hi r fuel _ (by omega) (by omega)

theorem leftList_eq (objs : List Ival) : ∀ i : Nat, i < objs.length →
    leftList objs i = (((objs.take (i + 1)).drop 1).reverse).map (·.l0)
  | 0, h => by
    cases objs with
    | nil => simp at h
    | cons x xs => simp [leftList]
  | i + 1, h => by
    have ih := leftList_eq objs i (by omega)
    have ht : objs.take (i + 2) = objs.take (i + 1) ++ [objs.getD (i + 1) ival0] := by
      rw [List.take_add_one]
      simp [List.getD_eq_getElem?_getD, List.getElem?_eq_getElem h]
    have hne : 1 ≤ (objs.take (i + 1)).length := by simp; omega
    rw [leftList, ih, ht, List.drop_append_of_le_length hne]
    simp

/-! ### the loop to the right -/

def stepR (objs : List Ival) (own i : Int) (st : Int × Int) : Bool × (Int × Int) :=
  if (!decide (i + st.2 < PyRt.len (toCont objs).get_objects)) = true then (false, st)
  else if decide (getItem (getItem (toCont objs).get_objects (i + st.2)).levels 1 ≤ own) = true
    then (false, (max st.1 (getItem (getItem (toCont objs).get_objects (i + st.2)).levels 1), st.2))
    else (true, (max st.1 (getItem (getItem (toCont objs).get_objects (i + st.2)).levels 1), st.2 + 1))

theorem while_right (objs : List Ival) (own i : Nat) : ∀ (rest : List Ival) (k : Nat) (fuel : Nat) (ml : Nat),
    objs.drop (i + k) = rest → rest.length < fuel →
    (whileSt fuel ((ml : Int), (k : Int)) (stepR objs own i)).1
      = ((maxLevelScan own (rest.map (·.l1)) ml : Nat) : Int)
  | [], k, fuel + 1, ml, hd, _ => by
    have hlen : objs.length ≤ i + k := by
      have := congrArg List.length hd
      simp at this; omega
    have hc : ¬ ((i : Int) + (k : Int) < PyRt.len (toCont objs).get_objects) := by
      simp only [PyRt.len, toCont, List.length_map]
      show ¬ ((i : Int) + (k : Int) < ((objs.length : Nat) : Int)); omega
    simp [whileSt, stepR, hc, maxLevelScan]
  | y :: ys, k, fuel + 1, ml, hd, hf => by
    have hlt : i + k < objs.length := by
      have := congrArg List.length hd
      simp at this; omega
    have hy : objs.getD (i + k) ival0 = y := by
      have h1 : (objs.drop (i + k))[0]? = some y := by rw [hd]; rfl
      rw [List.getElem?_drop, Nat.add_zero] at h1
      simp [List.getD_eq_getElem?_getD, h1]
    have hys : objs.drop (i + (k + 1)) = ys := by
      have : objs.drop (i + k + 1) = (objs.drop (i + k)).drop 1 := by rw [List.drop_drop]
      rw [show i + (k + 1) = i + k + 1 by omega, this, hd]; rfl
    have hc : ((i : Int) + (k : Int) < PyRt.len (toCont objs).get_objects) := by
      simp only [PyRt.len, toCont, List.length_map]
      show ((i : Int) + (k : Int) < ((objs.length : Nat) : Int)); omega
    have hidx : (i : Int) + (k : Int) = Int.ofNat (i + k) := by
      show _ = ((i + k : Nat) : Int); omega
    have hc' : Int.ofNat (i + k) < PyRt.len (toCont objs).get_objects := by rw [← hidx]; exact hc
    simp only [whileSt, stepR, hidx, hc', decide_true, Bool.not_true, Bool.false_eq_true, if_false]
    simp only [toCont, getItem_obj objs (i + k) hlt, lev1, hy, List.map_cons, maxLevelScan]
    by_cases hle : y.l1 ≤ own
    · have hle' : ((y.l1 : Nat) : Int) ≤ (own : Int) := by exact_mod_cast hle
      simp only [hle', decide_true, if_true, hle]
      simp
    · have hle' : ¬ ((y.l1 : Nat) : Int) ≤ (own : Int) := by exact_mod_cast hle
      simp only [hle', decide_false, Bool.false_eq_true, if_false, hle]
      have hm : max (ml : Int) ((y.l1 : Nat) : Int) = ((max ml y.l1 : Nat) : Int) := by push_cast; rfl
      have hk : (k : Int) + 1 = ((k + 1 : Nat) : Int) := by push_cast; rfl
      rw [hm, hk]
      exact while_right objs own i ys (k + 1) fuel _ hys (by simp at hf; omega)

/-! ### `get_max_level` -/

/-- **`get_max_level`** on a container of hand-model intervals, for a valid index whose cache entry is empty
(`refinement_postprocessing` empties `max_level_dict` whenever the objects change): the hand model's `maxLevel` -/
theorem gen_max_level (g : GenDW.State) (objs : List Ival) (i : Nat) (x : Ival) (d : Int)
    (hx : objs[i]? = some x) (hmiss : dictContains g.max_level_dict [d, Int.ofNat i] = false) :
    GenDW.get_max_level g (toCont objs) (toObj x) (Int.ofNat i) d = ((maxLevel objs i : Nat) : Int) := by
  have hi : i < objs.length := by
    rcases Nat.lt_or_ge i objs.length with h | h
    · exact h
    · rw [List.getElem?_eq_none h] at hx; cases hx
  unfold GenDW.get_max_level
  simp only [hmiss, Bool.not_false, if_true, lev1]
  have hlen : (PyRt.len (toCont objs).get_objects + 1).toNat = objs.length + 1 := by
    simp only [PyRt.len, toCont, List.length_map]
    show (((objs.length : Nat) : Int) + 1).toNat = objs.length + 1
    omega
  rw [hlen]
  rw [whileSt_congr _ (stepL objs x.l1 (Int.ofNat i)) (fun s => by
    rcases s with ⟨ml, k⟩
    simp only [stepL]) (objs.length + 1) (((x.l1 : Nat) : Int), (0 : Int))]
  have h0 : ((0 : Int)) = (i : Int) - (i : Int) := by omega
  have hL := while_left objs x.l1 i hi i (objs.length + 1) x.l1 (Nat.le_refl i) (by omega)
  have e1 : (whileSt (objs.length + 1) (((x.l1 : Nat) : Int), (0 : Int)) (stepL objs (x.l1 : Int) (Int.ofNat i))).1
      = ((maxLevelScan x.l1 (leftList objs i) x.l1 : Nat) : Int) := by
    rw [h0]; exact hL
  rw [e1]
  rw [whileSt_congr _ (stepR objs x.l1 (Int.ofNat i)) (fun s => by
    rcases s with ⟨ml, k⟩
    simp only [stepR])]
  have hR := while_right objs x.l1 i (objs.drop (i + 1)) 1 (objs.length + 1)
    (maxLevelScan x.l1 (leftList objs i) x.l1) rfl (by simp; omega)
  have e2 : ((1 : Int)) = ((1 : Nat) : Int) := rfl
  rw [e2]
  rw [show (Int.ofNat i) = (i : Int) from rfl, hR]
  unfold maxLevel
  rw [hx, leftList_eq objs i hi]

end SparseSpace
