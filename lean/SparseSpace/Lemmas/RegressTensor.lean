import SparseSpace.Lemmas.RegressQuad
import Mathlib.Algebra.Group.Pi.Basic
/-!
# Lemmas about `Model/Regress`, part 6: positive semi-definiteness of `build_C_matrix` in every dimension

`C = Σ_k ⊗_m F_{k,m}` with tridiagonal Toeplitz factors (`S`: `2c, -c`; `M`: `4e, e`).  The quadratic form of a tensor
product is evaluated dimension by dimension: for a symmetric positive semi-definite form `B` on the coefficient
functions of the remaining dimensions, `Σ_{x,y} S(x,y)·B(w_x, w_y) = c·Σ_cells B(Δw, Δw)` and
`Σ_{x,y} M(x,y)·B(w_x, w_y) = e·Σ_cells (B(a,a) + B(b,b) + B(a+b,a+b))`.
-/
namespace SparseSpace.Regress

/-! ## list sums -/

theorem sum_swap {α β : Type} (l : List α) (l' : List β) (f : α → β → ℚ) :
    (l.map fun a => (l'.map fun b => f a b).sum).sum = (l'.map fun b => (l.map fun a => f a b).sum).sum := by
  induction l with
  | nil => simp
  | cons a l ih => simp only [List.map_cons, List.sum_cons, ih, List.sum_map_add]

theorem sum_map_zero' {α : Type} (l : List α) (f : α → ℚ) (h : ∀ a ∈ l, f a = 0) : (l.map f).sum = 0 := by
  induction l with
  | nil => simp
  | cons a l ih =>
    simp only [List.map_cons, List.sum_cons, h a (by simp), ih (fun b hb => h b (by simp [hb]))]; ring

theorem sum_map_mul_left' {α : Type} (l : List α) (f : α → ℚ) (c : ℚ) : (l.map fun a => c * f a).sum = c * (l.map f).sum := by
  induction l with
  | nil => simp
  | cons a l ih => simp only [List.map_cons, List.sum_cons, ih]; ring

/-! ## symmetric positive semi-definite forms on an additive group -/

structure BForm (V : Type) [AddCommGroup V] where
  B : V → V → ℚ
  add_left : ∀ a b c, B (a + b) c = B a c + B b c
  symm : ∀ a b, B a b = B b a
  nonneg : ∀ a, 0 ≤ B a a

namespace BForm
variable {V : Type} [AddCommGroup V] (F : BForm V)

theorem zero_left (c : V) : F.B 0 c = 0 := by
  have := F.add_left 0 0 c
  rw [add_zero] at this; linarith

theorem zero_right (c : V) : F.B c 0 = 0 := by rw [F.symm, F.zero_left]

theorem add_right (a b c : V) : F.B a (b + c) = F.B a b + F.B a c := by
  rw [F.symm, F.add_left, F.symm b, F.symm c]

theorem neg_left (a c : V) : F.B (-a) c = -F.B a c := by
  have := F.add_left a (-a) c
  rw [add_neg_cancel, F.zero_left] at this; linarith

theorem neg_right (a c : V) : F.B a (-c) = -F.B a c := by rw [F.symm, F.neg_left, F.symm]

theorem sub_sub (a b : V) : F.B (a - b) (a - b) = F.B a a - 2 * F.B a b + F.B b b := by
  have e : a - b = a + -b := sub_eq_add_neg a b
  rw [e, F.add_left, F.add_right, F.add_right]
  simp only [F.neg_left, F.neg_right]
  rw [F.symm b a]; ring

theorem add_add (a b : V) : F.B (a + b) (a + b) = F.B a a + 2 * F.B a b + F.B b b := by
  rw [F.add_left, F.add_right, F.add_right, F.symm b a]; ring

end BForm

/-! ## tridiagonal Toeplitz kernels on consecutive nodes -/

/-- `g` is tridiagonal Toeplitz with diagonal `d` and off-diagonal `o` -/
structure Tri (g : Int → Int → ℚ) (d o : ℚ) : Prop where
  diag : ∀ a, g a a = d
  up : ∀ a, g a (a + 1) = o
  down : ∀ a, g (a + 1) a = o
  far : ∀ a y, a + 2 ≤ y → g a y = 0 ∧ g y a = 0

theorem tri_specS (h : ℚ) : Tri (specS h) (2 / h) (-1 / h) where
  diag := by intro a; simp [specS]
  up := by
    intro a; unfold specS
    have h1 : ¬ a = a + 1 := by omega
    have h2 : ¬ (a + 1 - a).natAbs > 1 := by omega
    simp [h1, h2]
  down := by
    intro a; unfold specS
    have h1 : ¬ a + 1 = a := by omega
    have h2 : ¬ (a - (a + 1)).natAbs > 1 := by omega
    simp [h1, h2]
  far := by
    intro a y hy; unfold specS
    have h1 : ¬ a = y := by omega
    have h2 : (y - a).natAbs > 1 := by omega
    have h3 : ¬ y = a := by omega
    have h4 : (a - y).natAbs > 1 := by omega
    simp [h1, h2, h3, h4]

theorem tri_specM (h : ℚ) : Tri (specM h) (2 * h / 3) (h / 6) where
  diag := by intro a; simp [specM]
  up := by
    intro a; unfold specM
    have h1 : ¬ a = a + 1 := by omega
    have h2 : ¬ (a + 1 - a).natAbs > 1 := by omega
    simp [h1, h2]
  down := by
    intro a; unfold specM
    have h1 : ¬ a + 1 = a := by omega
    have h2 : ¬ (a - (a + 1)).natAbs > 1 := by omega
    simp [h1, h2]
  far := by
    intro a y hy; unfold specM
    have h1 : ¬ a = y := by omega
    have h2 : (y - a).natAbs > 1 := by omega
    have h3 : ¬ y = a := by omega
    have h4 : (a - y).natAbs > 1 := by omega
    simp [h1, h2, h3, h4]

section qform
variable {V : Type} [AddCommGroup V] (F : BForm V) (g : Int → Int → ℚ) (w : Int → V)

/-- `Σ_{x,y ∈ L} g(x,y)·B(w_x, w_y)` -/
def qform (L : List Int) : ℚ := (L.map fun x => (L.map fun y => g x y * F.B (w x) (w y)).sum).sum

theorem qform_cons (k : Int) (L : List Int) :
    qform F g w (k :: L) = g k k * F.B (w k) (w k) + (L.map fun y => g k y * F.B (w k) (w y)).sum
      + (L.map fun x => g x k * F.B (w x) (w k)).sum + qform F g w L := by
  unfold qform
  simp only [List.map_cons, List.sum_cons, List.sum_map_add]
  ring

/-- value at the first node of `consec k n`, 0 for the empty list -/
def hdv (k : Int) (n : Nat) : V := if n = 0 then 0 else w k

theorem mem_consec_ge (k : Int) (n : Nat) : ∀ x ∈ consec k n, k ≤ x := by
  induction n generalizing k with
  | zero => simp [consec]
  | succ n ih =>
    intro x hx
    simp only [consec, List.mem_cons] at hx
    rcases hx with rfl | hx
    · exact le_refl _
    · have := ih (k + 1) x hx; omega

variable {g} in
theorem row_sum_tri {d o : ℚ} (hg : Tri g d o) (k : Int) (n : Nat) :
    ((consec (k + 1) n).map fun y => g k y * F.B (w k) (w y)).sum = o * F.B (w k) (hdv w (k + 1) n) := by
  cases n with
  | zero => simp [consec, hdv, F.zero_right]
  | succ n =>
    simp only [consec, List.map_cons, List.sum_cons, hdv, hg.up k]
    rw [sum_map_zero']
    · simp
    · intro y hy
      have := mem_consec_ge (k + 1 + 1) n y hy
      rw [(hg.far k y (by omega)).1]; ring

variable {g} in
theorem col_sum_tri {d o : ℚ} (hg : Tri g d o) (k : Int) (n : Nat) :
    ((consec (k + 1) n).map fun x => g x k * F.B (w x) (w k)).sum = o * F.B (w k) (hdv w (k + 1) n) := by
  cases n with
  | zero => simp [consec, hdv, F.zero_right]
  | succ n =>
    simp only [consec, List.map_cons, List.sum_cons, hdv, hg.down k]
    rw [sum_map_zero']
    · simp [F.symm]
    · intro y hy
      have := mem_consec_ge (k + 1 + 1) n y hy
      rw [(hg.far k y (by omega)).2]; ring

/-- the recursion of the quadratic form of a tridiagonal Toeplitz kernel -/
def triRec (d o : ℚ) : Int → Nat → ℚ
  | _, 0 => 0
  | k, n + 1 => d * F.B (w k) (w k) + 2 * o * F.B (w k) (hdv w (k + 1) n) + triRec d o (k + 1) n

variable {g} in
theorem qform_tri {d o : ℚ} (hg : Tri g d o) (k : Int) (n : Nat) :
    qform F g w (consec k n) = triRec F w d o k n := by
  induction n generalizing k with
  | zero => simp [consec, qform, triRec]
  | succ n ih =>
    simp only [consec, triRec]
    rw [qform_cons, row_sum_tri F w hg, col_sum_tri F w hg, ih (k + 1), hg.diag k]
    ring

/-- stiffness energy: `B(u0,u0)` for the last cell, `B(Δ,Δ)` for every other cell -/
def energyS : V → Int → Nat → ℚ
  | u0, _, 0 => F.B u0 u0
  | u0, k, n + 1 => F.B (w k - u0) (w k - u0) + energyS (w k) (k + 1) n

theorem energyS_nonneg (u0 : V) (k : Int) (n : Nat) : 0 ≤ energyS F w u0 k n := by
  induction n generalizing u0 k with
  | zero => exact F.nonneg u0
  | succ n ih => simp only [energyS]; have := F.nonneg (w k - u0); have := ih (w k) (k + 1); linarith

theorem triRec_stiff (c : ℚ) (u0 : V) (k : Int) (n : Nat) :
    c * (energyS F w u0 k n - F.B u0 u0 + 2 * F.B u0 (hdv w k n)) = triRec F w (2 * c) (-c) k n := by
  induction n generalizing u0 k with
  | zero => simp [energyS, triRec, hdv, F.zero_right]
  | succ n ih =>
    have h := ih (w k) (k + 1)
    simp only [energyS, triRec, hdv, Nat.add_one_ne_zero, if_false] at h ⊢
    rw [F.sub_sub, F.symm u0 (w k)]
    linarith

/-- mass energy: per cell `B(a,a) + B(b,b) + B(a+b,a+b)` -/
def energyM : V → Int → Nat → ℚ
  | u0, _, 0 => F.B u0 u0 + F.B 0 0 + F.B (u0 + 0) (u0 + 0)
  | u0, k, n + 1 => (F.B u0 u0 + F.B (w k) (w k) + F.B (u0 + w k) (u0 + w k)) + energyM (w k) (k + 1) n

theorem energyM_nonneg (u0 : V) (k : Int) (n : Nat) : 0 ≤ energyM F w u0 k n := by
  induction n generalizing u0 k with
  | zero =>
    simp only [energyM]
    have := F.nonneg u0; have := F.nonneg (0 : V); have := F.nonneg (u0 + 0); linarith
  | succ n ih =>
    simp only [energyM]
    have := F.nonneg u0; have := F.nonneg (w k); have := F.nonneg (u0 + w k); have := ih (w k) (k + 1); linarith

theorem triRec_mass (e : ℚ) (u0 : V) (k : Int) (n : Nat) :
    e * (energyM F w u0 k n - 2 * F.B u0 u0 - 2 * F.B u0 (hdv w k n)) = triRec F w (4 * e) e k n := by
  induction n generalizing u0 k with
  | zero =>
    simp only [energyM, triRec, hdv, if_true, F.zero_right, F.zero_left, add_zero]; ring
  | succ n ih =>
    have h := ih (w k) (k + 1)
    simp only [energyM, triRec, hdv, Nat.add_one_ne_zero, if_false] at h ⊢
    rw [F.add_add]
    linarith

variable {g} in
/-- a stiffness-type kernel (`2c, -c`, `c ≥ 0`) on consecutive nodes gives a non-negative form -/
theorem qform_nonneg_stiff {c : ℚ} (hc : 0 ≤ c) (hg : Tri g (2 * c) (-c)) (k : Int) (n : Nat) :
    0 ≤ qform F g w (consec k n) := by
  rw [qform_tri F w hg, ← triRec_stiff F w c 0 k n, F.zero_left, F.zero_left]
  have := energyS_nonneg F w 0 k n
  have : 0 ≤ c * energyS F w 0 k n := mul_nonneg hc this
  linarith

variable {g} in
/-- a mass-type kernel (`4e, e`, `e ≥ 0`) on consecutive nodes gives a non-negative form -/
theorem qform_nonneg_mass {e : ℚ} (he : 0 ≤ e) (hg : Tri g (4 * e) e) (k : Int) (n : Nat) :
    0 ≤ qform F g w (consec k n) := by
  rw [qform_tri F w hg, ← triRec_mass F w e 0 k n, F.zero_left, F.zero_left]
  have := energyM_nonneg F w 0 k n
  have : 0 ≤ e * energyM F w 0 k n := mul_nonneg he this
  linarith

end qform

end SparseSpace.Regress
