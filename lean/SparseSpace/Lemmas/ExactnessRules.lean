import SparseSpace.Lemmas.ExactnessComb
import SparseSpace.Lemmas.ExactnessMod
/-!
# C04: the criterion's 1-D hypothesis for the boundary-free and the modified rule
-/
namespace SparseSpace.Exact

/-- boundary-free rule on a list refining the node list of a function that vanishes at both ends -/
theorem quadNB_of_refines (u : Rat → Rat) (K xs : List Rat) (hK : StrictSorted K) (h2 : 2 ≤ K.length) (hpl : PLOn u K)
    (h : Refines K xs) (h0 : u (firstD K) = 0) (h1 : u (lastD K) = 0) : quadNB u xs = trap u K := by
  have hq := quad_of_refines u K xs hK hpl h
  match K, xs, h with
  | p :: K', _ :: xs', ⟨rfl, hs, hsub, hlast⟩ =>
      have hne : xs' ≠ [] := by
        intro hnil
        subst hnil
        cases K' with
        | nil => simp at h2
        | cons k K'' => exact absurd (hsub k (by simp)) (by simp)
      rw [lastOf_eq_getLastD, hlast] at h1
      rw [quadNB_eq_quad_of_zero u p xs' hs hne (by simpa [firstD] using h0) h1]
      exact hq

/-- `u_d` vanishes at both ends of `K_d` -/
def ZeroEnds (u : Nat → Rat → Rat) : Nat → List (List Rat) → Prop
  | _, [] => True
  | d, K :: Ks => (u d (firstD K) = 0 ∧ u d (lastD K) = 0) ∧ ZeroEnds u (d + 1) Ks

theorem agree_quadNB (pts : Nat → Int → List Rat) (u : Nat → Rat → Rat) : ∀ (l r : LV) (Ks : List (List Rat)) (d : Nat),
    RefinesFrom pts d l r Ks → PLFrom u d Ks → ZeroEnds u d Ks →
    Agree (fun d j => quadNB (u d) (pts d j)) d l r (exactInts u d Ks)
  | [], [], [], _, _, _, _ => trivial
  | j :: l, _ :: r, K :: Ks, d, h, hu, hz =>
      ⟨fun hρ => quadNB_of_refines (u d) K (pts d j) hu.1.1 hu.1.2.1 hu.1.2.2 (h.1 hρ) hz.1.1 hz.1.2,
        agree_quadNB pts u l r Ks (d + 1) h.2 hu.2 hz.2⟩
  | [], [], _ :: _, _, h, _, _ => h.elim
  | [], _ :: _, _, _, h, _, _ => h.elim
  | _ :: _, [], _, _, h, _, _ => h.elim
  | _ :: _, _ :: _, [], _, h, _, _ => h.elim

/-! ## modified basis -/

/-- a node list on which the modified rule is exact for affine functions: strictly increasing from `a` to `b` with at
least four nodes, or three nodes with the inner one at the midpoint -/
def ModOK (a b : Rat) (xs : List Rat) : Prop :=
  ∃ xs', xs = a :: xs' ∧ StrictSorted xs ∧ lastOf a xs' = b ∧
    (4 ≤ xs.length ∨ (xs.length = 3 ∧ xs'.headD 0 = (a + b) / 2))

theorem modRule_affine (α β a b : Rat) (xs : List Rat) (h : ModOK a b xs) :
    Rule.modified.quad (fun x => α + β * x) xs = affInt α β a b := by
  obtain ⟨xs', rfl, hs, hl, hlen⟩ := h
  have hfirst : firstD (a :: xs') = a := rfl
  have hlast : lastD (a :: xs') = b := by rw [lastOf_eq_getLastD, hl]
  show modQuad _ (firstD (a :: xs')) (lastD (a :: xs')) (a :: xs') = _
  rw [hfirst, hlast, ← hl]
  exact modQuad_affine_exact α β (a :: xs') a xs' rfl hs (by rw [hl]; exact hlen)

def ModOKFrom (pts : Nat → Int → List Rat) : Nat → LV → List (Rat × Rat) → Prop
  | _, [], [] => True
  | d, j :: l, ab :: dom => ModOK ab.1 ab.2 (pts d j) ∧ ModOKFrom pts (d + 1) l dom
  | _, _, _ => False

def affInts (α β : Nat → Rat) : Nat → List (Rat × Rat) → List Rat
  | _, [] => []
  | d, ab :: dom => affInt (α d) (β d) ab.1 ab.2 :: affInts α β (d + 1) dom

theorem affInts_length (α β : Nat → Rat) : ∀ (dom : List (Rat × Rat)) (d : Nat), (affInts α β d dom).length = dom.length
  | [], _ => rfl
  | _ :: dom, d => by simp [affInts, affInts_length α β dom (d + 1)]

theorem agree_modified (pts : Nat → Int → List Rat) (α β : Nat → Rat) : ∀ (l r : LV) (dom : List (Rat × Rat)) (d : Nat),
    ModOKFrom pts d l dom → l.length = r.length →
    Agree (fun d j => Rule.modified.quad (fun x => α d + β d * x) (pts d j)) d l r (affInts α β d dom)
  | [], [], [], _, _, _ => trivial
  | j :: l, _ :: r, ab :: dom, d, h, hl =>
      ⟨fun _ => modRule_affine (α d) (β d) ab.1 ab.2 (pts d j) h.1,
        agree_modified pts α β l r dom (d + 1) h.2 (by simpa using hl)⟩
  | [], [], _ :: _, _, h, _ => h.elim
  | [], _ :: _, _, _, _, hl => by simp at hl
  | _ :: _, [], _, _, _, hl => by simp at hl
  | _ :: _, _ :: _, [], _, h, _ => h.elim

end SparseSpace.Exact
