import SparseSpace.Lemmas.ExtendSplitFuel
import Mathlib.Tactic.Linarith
/-!
# What the `while coarsening > 0` loop of `coarsen_grid` versions 1 and 2 does (C07, extension)

The loop shaves the level vector from the top: a round lowers ALL entries equal to the current maximum `m` by one
and pays one unit of `coarsening` per lowered entry; it runs while `coarsening > 0`, `m ≠ lmin`, the
"no forward problem" bound `coarsening_save ≥ lmax + 1 - 2m + δ` (`δ = 1` for version 1, `2` for version 2) holds and
the remaining budget covers the round (`coarsening ≥ occurrences - b`, `b = 1` only for version 1 on the top
diagonal).

`v12Loop_ge_iff` characterises the result order-theoretically for EVERY start vector, budget and target `T`:
the result dominates `T` iff the start dominates `T` and the loop cannot reach the height `max T - 1`, i.e.
`max T` is below the thresholds, or the cost `wAbove (max T - 1)` of reaching that height exceeds the budget
(with the one-unit overdraft of the top diagonal spelled out).
-/
namespace SparseSpace

/-- cost of shaving `l` down to height `r`: `Σ (l_i - r)^+` -/
def wAbove (r : Int) (l : LV) : Int := (l.map fun x => max (x - r) 0).sum

/-- number of entries above `r` -/
def kAbove (r : Int) (l : LV) : Int := (l.map fun x => if r < x then (1 : Int) else 0).sum

@[simp] theorem wAbove_nil (r : Int) : wAbove r [] = 0 := rfl
@[simp] theorem kAbove_nil (r : Int) : kAbove r [] = 0 := rfl
@[simp] theorem wAbove_cons (r x : Int) (l : LV) : wAbove r (x :: l) = max (x - r) 0 + wAbove r l := by
  simp [wAbove]
@[simp] theorem kAbove_cons (r x : Int) (l : LV) : kAbove r (x :: l) = (if r < x then 1 else 0) + kAbove r l := by
  simp [kAbove]

theorem kAbove_nonneg (r : Int) : ∀ l : LV, 0 ≤ kAbove r l
  | [] => by simp
  | x :: l => by
      have := kAbove_nonneg r l
      rw [kAbove_cons]; split <;> omega

theorem wAbove_nonneg (r : Int) : ∀ l : LV, 0 ≤ wAbove r l
  | [] => by simp
  | x :: l => by
      have := wAbove_nonneg r l
      rw [wAbove_cons]; omega

theorem kAbove_le_wAbove (r : Int) : ∀ l : LV, kAbove r l ≤ wAbove r l
  | [] => by simp
  | x :: l => by
      have := kAbove_le_wAbove r l
      rw [kAbove_cons, wAbove_cons]; split <;> omega

theorem wAbove_mono {r r' : Int} (h : r ≤ r') : ∀ l : LV, wAbove r' l ≤ wAbove r l
  | [] => by simp
  | x :: l => by
      have := wAbove_mono h l
      rw [wAbove_cons, wAbove_cons]; omega

theorem wAbove_ge_of_mem (r : Int) : ∀ (l : LV) (y : Int), y ∈ l → y - r ≤ wAbove r l
  | [], _, h => by simp at h
  | x :: l, y, h => by
      have h0 := wAbove_nonneg r l
      rw [wAbove_cons]
      rcases List.mem_cons.1 h with rfl | h
      · omega
      · have := wAbove_ge_of_mem r l y h
        omega

theorem kAbove_pos_of_mem (r : Int) : ∀ (l : LV) (y : Int), y ∈ l → r < y → 1 ≤ kAbove r l
  | [], _, h, _ => by simp at h
  | x :: l, y, h, hy => by
      have h0 := kAbove_nonneg r l
      rw [kAbove_cons]
      rcases List.mem_cons.1 h with rfl | h
      · rw [if_pos hy]; omega
      · have := kAbove_pos_of_mem r l y h hy
        split <;> omega

/-! ### `decAll`, `countEq` -/

theorem countEq_cons (m x : Int) (l : LV) :
    ((countEq m (x :: l) : Nat) : Int) = (if x = m then 1 else 0) + ((countEq m l : Nat) : Int) := by
  unfold countEq
  by_cases h : x = m
  · simp [h]; omega
  · simp [h]

theorem decAll_cons (m x : Int) (l : LV) : decAll m (x :: l) = (if x = m then x - 1 else x) :: decAll m l := by
  simp [decAll]

@[simp] theorem decAll_nil (m : Int) : decAll m [] = [] := rfl

theorem countEq_eq_wAbove (m : Int) : ∀ l : LV, (∀ y ∈ l, y ≤ m) → ((countEq m l : Nat) : Int) = wAbove (m - 1) l
  | [], _ => by simp [countEq]
  | x :: l, h => by
      have ih := countEq_eq_wAbove m l (fun y hy => h y (List.mem_cons_of_mem _ hy))
      have hx := h x (List.mem_cons_self ..)
      rw [countEq_cons, wAbove_cons, ih]
      split <;> omega

theorem countEq_eq_kAbove (m : Int) : ∀ l : LV, (∀ y ∈ l, y ≤ m) → ((countEq m l : Nat) : Int) = kAbove (m - 1) l
  | [], _ => by simp [countEq]
  | x :: l, h => by
      have ih := countEq_eq_kAbove m l (fun y hy => h y (List.mem_cons_of_mem _ hy))
      have hx := h x (List.mem_cons_self ..)
      rw [countEq_cons, kAbove_cons, ih]
      split <;> split <;> omega

theorem wAbove_decAll (m r : Int) (hr : r ≤ m - 1) : ∀ l : LV, (∀ y ∈ l, y ≤ m) →
    wAbove r (decAll m l) = wAbove r l - ((countEq m l : Nat) : Int)
  | [], _ => by simp [countEq]
  | x :: l, h => by
      have ih := wAbove_decAll m r hr l (fun y hy => h y (List.mem_cons_of_mem _ hy))
      rw [decAll_cons, wAbove_cons, wAbove_cons, countEq_cons, ih]
      split <;> omega

theorem kAbove_decAll (m r : Int) (hr : r < m - 1) : ∀ l : LV, kAbove r (decAll m l) = kAbove r l
  | [] => by simp
  | x :: l => by
      have ih := kAbove_decAll m r hr l
      rw [decAll_cons, kAbove_cons, kAbove_cons, ih]
      by_cases hx : x = m
      · rw [if_pos hx]
        have h1 : r < x - 1 := by omega
        have h2 : r < x := by omega
        rw [if_pos h1, if_pos h2]
      · rw [if_neg hx]

theorem decAll_le (m : Int) (l : LV) (h : ∀ y ∈ l, y ≤ m) : ∀ y ∈ decAll m l, y ≤ m - 1 := by
  intro y hy
  unfold decAll at hy
  obtain ⟨x, hx, rfl⟩ := List.mem_map.1 hy
  have := h x hx
  by_cases hxm : x = m
  · simp [hxm]
  · have : x ≠ m := hxm
    simp [hxm]; omega

theorem decAll_geAll (lmin m : Int) (l : LV) (hm : lmin < m) (h : geAll lmin l) : geAll lmin (decAll m l) := by
  intro y hy
  unfold decAll at hy
  obtain ⟨x, hx, rfl⟩ := List.mem_map.1 hy
  have := h x hx
  by_cases hxm : x = m
  · simp [hxm]; omega
  · simp [hxm]; omega

/-! ### `leAll` -/

theorem leAll_cons_cons (x y : Int) (a b : LV) : leAll (x :: a) (y :: b) = (decide (x ≤ y) && leAll a b) := rfl

theorem leAll_decAll_of_lt (m : Int) : ∀ (T l : LV), (∀ x ∈ T, x < m) → leAll T (decAll m l) = leAll T l
  | [], [], _ => rfl
  | [], _ :: _, _ => by simp [decAll_cons, leAll]
  | _ :: _, [], _ => by simp [leAll]
  | x :: T, y :: l, h => by
      have ih := leAll_decAll_of_lt m T l (fun z hz => h z (List.mem_cons_of_mem _ hz))
      have hx := h x (List.mem_cons_self ..)
      rw [decAll_cons, leAll_cons_cons, leAll_cons_cons, ih]
      congr 1
      by_cases hy : y = m
      · rw [if_pos hy]
        have h1 : x ≤ y - 1 := by omega
        have h2 : x ≤ y := by omega
        simp [h1, h2]
      · rw [if_neg hy]

theorem leAll_exists_ge : ∀ (T l : LV), leAll T l = true → ∀ x ∈ T, ∃ y ∈ l, x ≤ y
  | [], _, _ => by simp
  | _ :: _, [], h => by simp [leAll] at h
  | a :: T, b :: l, h => by
      rw [leAll_cons_cons] at h
      simp only [Bool.and_eq_true, decide_eq_true_eq] at h
      intro x hx
      rcases List.mem_cons.1 hx with rfl | hx
      · exact ⟨b, List.mem_cons_self .., h.1⟩
      · obtain ⟨y, hy, hxy⟩ := leAll_exists_ge T l h.2 x hx
        exact ⟨y, List.mem_cons_of_mem _ hy, hxy⟩

theorem lvMax_le_of_leAll (T l : LV) (hT : T ≠ []) (h : leAll T l = true) : lvMax T ≤ lvMax l := by
  obtain ⟨y, hy, hxy⟩ := leAll_exists_ge T l h _ (lvMax_mem T hT)
  exact le_trans hxy (le_lvMax l y hy)

/-! ### one round of the loop -/

theorem v12Loop_zero (version dim : Nat) (lmin lmax C : Int) (top : Bool) (c : Int) (t : LV) :
    v12Loop version dim lmin lmax C top 0 c t = t := rfl

/-- the loop body in propositional form: `δ`, `b` are the two version-dependent offsets -/
theorem v12Loop_succ (version dim : Nat) (lmin lmax C : Int) (top : Bool) (δ b : Int)
    (hδ : δ = if version = 1 then 1 else 2) (hb : b = if version = 1 ∧ top = true then 1 else 0)
    (f : Nat) (c : Int) (t : LV) :
    v12Loop version dim lmin lmax C top (f + 1) c t =
      if c > 0 ∧ lvMax t ≠ lmin ∧ C ≥ lmax + 1 - 2 * lvMax t + δ ∧ c ≥ ((countEq (lvMax t) t : Nat) : Int) - b then
        v12Loop version dim lmin lmax C top f (c - ((countEq (lvMax t) t : Nat) : Int)) (decAll (lvMax t) t)
      else t := by
  rw [v12Loop]
  by_cases hc : c > 0
  · simp only [hc, if_true, true_and]
    by_cases hm : lvMax t = lmin
    · simp [hm]
    · have hm' : (lvMax t == lmin) = false := by simpa using hm
      simp only [hm', Bool.false_eq_true, if_false, ne_eq, hm, not_false_eq_true, true_and]
      by_cases hv : version = 1
      · subst hv
        cases top
        · have : b = 0 := by simpa using hb
          subst this; subst hδ
          simp only [beq_self_eq_true, if_true, Bool.false_eq_true, if_false, Bool.and_eq_true, decide_eq_true_eq]
          have e : lmax + (dim : Int) - 1 - lvMax t - ((dim : Int) - 2) - lvMax t + 1 = lmax + 1 - 2 * lvMax t + 1 := by ring
          rw [e]
        · have : b = 1 := by simpa using hb
          subst this; subst hδ
          simp only [beq_self_eq_true, if_true, Bool.and_eq_true, decide_eq_true_eq]
          have e : lmax + (dim : Int) - 1 - lvMax t - ((dim : Int) - 2) - lvMax t + 1 = lmax + 1 - 2 * lvMax t + 1 := by ring
          rw [e]
      · have hv' : (version == 1) = false := by simpa using hv
        have : b = 0 := by simpa [hv] using hb
        subst this
        have : δ = 2 := by simpa [hv] using hδ
        subst this
        simp only [hv', Bool.false_eq_true, if_false, Bool.and_eq_true, decide_eq_true_eq]
        have e : lmax + (dim : Int) - 1 - lvMax t - ((dim : Int) - 2) - lvMax t + 2 = lmax + 1 - 2 * lvMax t + 2 := by ring
        rw [e]
        simp
  · simp [hc]

/-- when the loop stops with no budget left, the height `max T - 1` has not been reached -/
theorem stop_no_budget (T cur : LV) (hT : T ≠ []) (hle : leAll T cur = true) (b c : Int) (hb : b = 0 ∨ b = 1)
    (hc : c ≤ 0) (hcb : -b ≤ c) :
    wAbove (lvMax T - 1) cur > c + b ∨
      (b = 1 ∧ wAbove (lvMax T - 1) cur = c + 1 ∧ kAbove (lvMax T - 1) cur = 1) := by
  obtain ⟨y, hy, hxy⟩ := leAll_exists_ge T cur hle _ (lvMax_mem T hT)
  have hw := wAbove_ge_of_mem (lvMax T - 1) cur y hy
  have hk := kAbove_pos_of_mem (lvMax T - 1) cur y hy (by omega)
  have hkw := kAbove_le_wAbove (lvMax T - 1) cur
  rcases hb with rfl | rfl
  · left; omega
  · by_cases h : wAbove (lvMax T - 1) cur > c + 1
    · left; exact h
    · right; refine ⟨rfl, by omega, by omega⟩

/-- **the loop, order-theoretically.**  For every target `T`, start vector `cur`, remaining budget `c`
(`≥ -b`; enough fuel): the result dominates `T` iff `cur` dominates `T` and the loop cannot shave `cur` down to the
height `max T - 1`. -/
theorem v12Loop_ge_iff (version dim : Nat) (lmin lmax C : Int) (top : Bool) (δ b : Int)
    (hδ : δ = if version = 1 then 1 else 2) (hb : b = if version = 1 ∧ top = true then 1 else 0)
    (T : LV) (hT : T ≠ []) :
    ∀ (f : Nat) (c : Int) (cur : LV), c ≤ f → -b ≤ c → cur ≠ [] → geAll lmin cur →
      (leAll T (v12Loop version dim lmin lmax C top f c cur) = true ↔
        leAll T cur = true ∧
          ((lvMax T ≤ lmin ∨ C < lmax + 1 - 2 * lvMax T + δ) ∨ wAbove (lvMax T - 1) cur > c + b ∨
            (b = 1 ∧ wAbove (lvMax T - 1) cur = c + 1 ∧ kAbove (lvMax T - 1) cur = 1))) := by
  have hb01 : b = 0 ∨ b = 1 := by
    by_cases h : version = 1 ∧ top = true
    · right; simpa [h] using hb
    · left; simpa [h] using hb
  intro f
  induction f with
  | zero =>
    intro c cur hcf hcb _ _
    rw [v12Loop_zero]
    constructor
    · intro hle
      exact ⟨hle, Or.inr (stop_no_budget T cur hT hle b c hb01 (by simpa using hcf) hcb)⟩
    · exact fun h => h.1
  | succ f ih =>
    intro c cur hcf hcb hne hg
    rw [v12Loop_succ version dim lmin lmax C top δ b hδ hb]
    have hcf' : c ≤ (f : Int) + 1 := by exact_mod_cast hcf
    have hmle : ∀ y ∈ cur, y ≤ lvMax cur := fun y hy => le_lvMax cur y hy
    have hocc1 : (1 : Int) ≤ ((countEq (lvMax cur) cur : Nat) : Int) := by
      exact_mod_cast countEq_lvMax_pos cur hne
    have hoccw := countEq_eq_wAbove (lvMax cur) cur hmle
    have hocck := countEq_eq_kAbove (lvMax cur) cur hmle
    by_cases hcond : c > 0 ∧ lvMax cur ≠ lmin ∧ C ≥ lmax + 1 - 2 * lvMax cur + δ ∧
        c ≥ ((countEq (lvMax cur) cur : Nat) : Int) - b
    · rw [if_pos hcond]
      obtain ⟨hc0, hmne, hCm, hcocc⟩ := hcond
      have hmgt : lmin < lvMax cur := lt_of_le_of_ne (hg _ (lvMax_mem cur hne)) (Ne.symm hmne)
      rw [ih (c - ((countEq (lvMax cur) cur : Nat) : Int)) (decAll (lvMax cur) cur) (by omega) (by omega)
        (decAll_ne_nil _ cur hne) (decAll_geAll lmin _ cur hmgt hg)]
      by_cases hs : lvMax T < lvMax cur
      · have hTlt : ∀ x ∈ T, x < lvMax cur := fun x hx => lt_of_le_of_lt (le_lvMax T x hx) hs
        rw [leAll_decAll_of_lt (lvMax cur) T cur hTlt,
          wAbove_decAll (lvMax cur) (lvMax T - 1) (by omega) cur hmle,
          kAbove_decAll (lvMax cur) (lvMax T - 1) (by omega) cur]
        constructor
        · rintro ⟨h1, h2⟩
          refine ⟨h1, ?_⟩
          rcases h2 with h2 | h2 | ⟨h2, h3, h4⟩
          · exact Or.inl h2
          · exact Or.inr (Or.inl (by omega))
          · exact Or.inr (Or.inr ⟨h2, by omega, h4⟩)
        · rintro ⟨h1, h2⟩
          refine ⟨h1, ?_⟩
          rcases h2 with h2 | h2 | ⟨h2, h3, h4⟩
          · exact Or.inl h2
          · exact Or.inr (Or.inl (by omega))
          · exact Or.inr (Or.inr ⟨h2, by omega, h4⟩)
      · constructor
        · rintro ⟨h1, _⟩
          exfalso
          obtain ⟨y, hy, hxy⟩ := leAll_exists_ge T _ h1 _ (lvMax_mem T hT)
          have := decAll_le (lvMax cur) cur hmle y hy
          omega
        · rintro ⟨h1, h2⟩
          exfalso
          have hsm : lvMax T = lvMax cur := le_antisymm (lvMax_le_of_leAll T cur hT h1) (by omega)
          rw [hsm] at h2
          rcases h2 with (h2 | h2) | h2 | ⟨h2, h3, h4⟩
          · omega
          · omega
          · omega
          · omega
    · rw [if_neg hcond]
      constructor
      · intro hle
        refine ⟨hle, ?_⟩
        have hsm := lvMax_le_of_leAll T cur hT hle
        by_cases hc0 : c ≤ 0
        · exact Or.inr (stop_no_budget T cur hT hle b c hb01 hc0 hcb)
        · by_cases hm : lvMax cur = lmin
          · exact Or.inl (Or.inl (by omega))
          · by_cases hC : C ≥ lmax + 1 - 2 * lvMax cur + δ
            · have hlt : c < ((countEq (lvMax cur) cur : Nat) : Int) - b := by
                by_contra hcon
                exact hcond ⟨by omega, hm, hC, by omega⟩
              have := wAbove_mono (show lvMax T - 1 ≤ lvMax cur - 1 by omega) cur
              exact Or.inr (Or.inl (by omega))
            · exact Or.inl (Or.inr (by omega))
      · exact fun h => h.1

end SparseSpace
