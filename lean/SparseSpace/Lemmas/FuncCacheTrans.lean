import SparseSpace.Model.AnalyticTrans
import SparseSpace.Lemmas.FuncCacheAnalytic
/-! Helper lemmas for C12 (extension): the analytic integrals of the transcendental test functions with PRODUCT
    structure (GenzProductPeak, GenzC0, GenzDiscontinious, FunctionExpVar), instantiated at `ℝ`, are the iterated
    interval integrals `iint` of their point evaluation. -/
namespace SparseSpace.AnalyticTrans
open SparseSpace.AnalyticInt intervalIntegral

/-- the instance the theorems are stated at -/
noncomputable instance instNumOpsReal : NumOps ℝ :=
  { exp := Real.exp, cos := Real.cos, sin := Real.sin, arctan := Real.arctan, rpow := fun x y => x ^ y, pi := Real.pi }

theorem divLoop_eq (r : ℝ) (ts : List ℝ) : divLoop r ts = r * (ts.map (·⁻¹)).prod := by
  unfold divLoop
  induction ts generalizing r with
  | nil => simp
  | cons t ts ih =>
    simp only [List.foldl_cons, List.map_cons, List.prod_cons]
    rw [ih]; rw [div_eq_mul_inv]; ring

theorem subLoop_eq (r : ℝ) (ts : List ℝ) : subLoop r ts = r - ts.sum := by
  unfold subLoop
  induction ts generalizing r with
  | nil => simp
  | cons t ts ih => simp [List.foldl_cons, ih, sub_sub]

theorem zipWith_congr_mem {β γ δ : Type} (f g : β → γ → δ) (l : List β) (l' : List γ)
    (h : ∀ a ∈ l, ∀ b ∈ l', f a b = g a b) : List.zipWith f l l' = List.zipWith g l l' := by
  induction l generalizing l' with
  | nil => simp
  | cons a l ih =>
    cases l' with
    | nil => simp
    | cons b l' =>
      simp only [List.zipWith_cons_cons]
      rw [h a (by simp) b (by simp), ih l' (fun a ha b hb => h a (List.mem_cons_of_mem _ ha) b (List.mem_cons_of_mem _ hb))]

/-- `iint_prod` for factors indexed by a parameter list -/
theorem iint_prod_map {β : Type} (t : β → ℝ → ℝ) (ps : List β) (box : List (ℝ × ℝ)) (h : ps.length = box.length) :
    iint box (fun xs => (List.zipWith (fun p x => t p x) ps xs).prod)
      = (List.zipWith (fun p (ab : ℝ × ℝ) => ∫ x in ab.1..ab.2, t p x) ps box).prod := by
  have := iint_prod (ps.map t) box (by simpa using h)
  simp only [zipWith_apply_map] at this
  rw [this]
  congr 1
  clear this h
  induction ps generalizing box with
  | nil => simp
  | cons p ps ih => cases box <;> simp [ih]

/-! ### GenzProductPeak -/

theorem integral_peak (c m s e : ℝ) (hc : c ≠ 0) :
    ∫ x in s..e, (1 / c ^ 2 + (x - m) ^ 2)⁻¹ =
      Real.arctan (c * (m - s)) * c - Real.arctan (c * (m - e)) * c := by
  have hd : ∀ x ∈ Set.uIcc s e, HasDerivAt (fun x => c * Real.arctan (c * (x - m)))
      ((1 / c ^ 2 + (x - m) ^ 2)⁻¹) x := by
    intro x _
    have h1 : HasDerivAt (fun x : ℝ => c * (x - m)) c x := by
      simpa using ((hasDerivAt_id x).sub_const m).const_mul c
    have h2 := (h1.arctan).const_mul c
    have h3 : (1 : ℝ) + (c * (x - m)) ^ 2 ≠ 0 := by positivity
    have hc2 : c ^ 2 ≠ 0 := pow_ne_zero 2 hc
    have h4 : 1 / c ^ 2 + (x - m) ^ 2 = (1 + (c * (x - m)) ^ 2) / c ^ 2 := by field_simp
    have heq : (1 / c ^ 2 + (x - m) ^ 2)⁻¹ = c * (1 / (1 + (c * (x - m)) ^ 2) * c) := by
      rw [h4, inv_div]; field_simp
    rw [heq]; exact h2
  have hcont : Continuous (fun x : ℝ => (1 / c ^ 2 + (x - m) ^ 2)⁻¹) := by
    apply Continuous.inv₀ (by continuity)
    intro x
    have : 0 < 1 / c ^ 2 := by positivity
    positivity
  rw [integral_eq_sub_of_hasDerivAt hd (hcont.intervalIntegrable _ _)]
  have h1 : c * (m - s) = -(c * (s - m)) := by ring
  have h2 : c * (m - e) = -(c * (e - m)) := by ring
  rw [h1, h2, Real.arctan_neg, Real.arctan_neg]
  ring

theorem productPeak_integral (c m s e : List ℝ) (hc : ∀ x ∈ c, x ≠ 0)
    (hm : m.length = c.length) (hs : s.length = c.length) (he : e.length = c.length) :
    iint (List.zip s e) (evalProductPeak c m) = anaProductPeak c m s e := by
  have h1 : evalProductPeak c m = fun xs => ppFactor c.length *
      (List.zipWith (fun (cm : ℝ × ℝ) x => (1 / cm.1 ^ 2 + (x - cm.2) ^ 2)⁻¹) (List.zip c m) xs).prod := by
    funext xs
    simp only [evalProductPeak, divLoop_eq, List.map_zipWith, Nat.cast_one]
  rw [h1, iint_mul_left, iint_prod_map _ _ _ (by simp [hm, hs, he])]
  unfold anaProductPeak
  rw [mulLoop_eq, mul_comm]
  simp only [Nat.cast_one, one_mul]
  congr 2
  apply zipWith_congr_mem
  intro cm hcm se _
  have : cm.1 ≠ 0 := hc _ (List.of_mem_zip hcm).1
  exact integral_peak cm.1 cm.2 se.1 se.2 this

/-! ### exponentials: GenzC0 -/

theorem integral_exp_lin (k m a b : ℝ) (hk : k ≠ 0) :
    ∫ x in a..b, Real.exp (k * (x - m)) = Real.exp (k * (b - m)) / k - Real.exp (k * (a - m)) / k := by
  have hd : ∀ x ∈ Set.uIcc a b, HasDerivAt (fun x => Real.exp (k * (x - m)) / k) (Real.exp (k * (x - m))) x := by
    intro x _
    have h1 : HasDerivAt (fun x : ℝ => k * (x - m)) k x := by
      simpa using ((hasDerivAt_id x).sub_const m).const_mul k
    have h2 := (h1.exp).div_const k
    have heq : Real.exp (k * (x - m)) = Real.exp (k * (x - m)) * k / k := by field_simp
    rw [heq]; exact h2
  have hcont : Continuous (fun x : ℝ => Real.exp (k * (x - m))) := by continuity
  rw [integral_eq_sub_of_hasDerivAt hd (hcont.intervalIntegrable _ _)]

theorem absN_eq (x : ℝ) : absN x = |x| := by
  unfold absN
  by_cases h : x < 0
  · simp [h, abs_of_neg h]
  · simp [h, abs_of_nonneg (not_lt.1 h)]

theorem exp_neg_sum (l : List ℝ) : Real.exp (0 - l.sum) = (l.map (fun t => Real.exp (-t))).prod := by
  induction l with
  | nil => simp
  | cons t l ih =>
    simp only [List.sum_cons, List.map_cons, List.prod_cons, ← ih]
    rw [← Real.exp_add]; congr 1; ring

theorem continuous_c0 (c m : ℝ) : Continuous (fun x : ℝ => Real.exp (-(c * |x - m|))) := by continuity

theorem integral_c0_left (c m a b : ℝ) (hc : c ≠ 0) (hab : a ≤ b) (hb : b ≤ m) :
    ∫ x in a..b, Real.exp (-(c * |x - m|)) = Real.exp (c * (b - m)) / c - Real.exp (c * (a - m)) / c := by
  rw [← integral_exp_lin c m a b hc]
  apply integral_congr
  intro x hx
  rw [Set.uIcc_of_le hab] at hx
  have : x - m ≤ 0 := by linarith [hx.2]
  simp only [abs_of_nonpos this]
  congr 1; ring

theorem integral_c0_right (c m a b : ℝ) (hc : c ≠ 0) (hab : a ≤ b) (ha : m ≤ a) :
    ∫ x in a..b, Real.exp (-(c * |x - m|)) = Real.exp (c * (m - a)) / c - Real.exp (c * (m - b)) / c := by
  have h := integral_exp_lin (-c) m a b (neg_ne_zero.2 hc)
  have : ∫ x in a..b, Real.exp (-(c * |x - m|)) = ∫ x in a..b, Real.exp (-c * (x - m)) := by
    apply integral_congr
    intro x hx
    rw [Set.uIcc_of_le hab] at hx
    have : 0 ≤ x - m := by linarith [hx.1]
    simp only [abs_of_nonneg this]
    congr 1; ring
  rw [this, h]
  have e1 : -c * (b - m) = c * (m - b) := by ring
  have e2 : -c * (a - m) = c * (m - a) := by ring
  rw [e1, e2]
  field_simp
  ring

/-- one dimension of GenzC0: the code's case distinction computes `∫ exp(-c|x-m|)` for `start ≤ end`, `c ≠ 0` -/
theorem integral_c0 (c m s e : ℝ) (hc : c ≠ 0) (hse : s ≤ e) :
    ∫ x in s..e, Real.exp (-(c * |x - m|)) = c0Dim c m s e := by
  unfold c0Dim
  simp only [NumOps.exp, Nat.cast_zero, Nat.cast_one, zero_add]
  by_cases h1 : e < m
  · -- the box lies left of the kink
    have hs : s < m := lt_of_le_of_lt hse h1
    have hme : ¬ m < e := not_lt.2 h1.le
    simp only [hs, h1, hme, if_true, if_false]
    exact integral_c0_left c m s e hc hse h1.le
  · have hme : m ≤ e := not_lt.1 h1
    by_cases h2 : s < m
    · -- the kink is inside: split at m
      have hsplit := integral_add_adjacent_intervals (μ := MeasureTheory.volume)
        ((continuous_c0 c m).intervalIntegrable s m) ((continuous_c0 c m).intervalIntegrable m e)
      rw [← hsplit, integral_c0_left c m s m hc h2.le le_rfl, integral_c0_right c m m e hc hme le_rfl]
      have hms : ¬ m < s := not_lt.2 h2.le
      simp only [h2, h1, hms, if_true, if_false, sub_self, mul_zero, Real.exp_zero]
      by_cases h3 : m < e
      · simp only [h3, if_true]
      · have : e = m := le_antisymm (not_lt.1 h3) hme
        subst this
        simp only [lt_irrefl, if_false, sub_self, mul_zero, Real.exp_zero]
        ring
    · -- the box lies right of the kink
      have hms : m ≤ s := not_lt.1 h2
      simp only [h2, if_false]
      rw [integral_c0_right c m s e hc hse hms]
      by_cases h3 : m < e
      · by_cases h4 : m < s
        · simp only [h3, h4, if_true, zero_add]
        · have : s = m := le_antisymm (not_lt.1 h4) hms
          subst this
          simp only [h3, if_true, lt_irrefl, if_false, sub_self, mul_zero, Real.exp_zero, zero_add]
      · have h5 : e = m := le_antisymm (not_lt.1 h3) hme
        have h6 : s = m := le_antisymm (h5 ▸ hse) hms
        subst h5 h6
        simp

theorem c0_integral (c m s e : List ℝ) (hc : ∀ x ∈ c, x ≠ 0) (hse : ∀ se ∈ List.zip s e, se.1 ≤ se.2)
    (hm : m.length = c.length) (hs : s.length = c.length) (he : e.length = c.length) :
    iint (List.zip s e) (evalC0 c m) = anaC0 c m s e := by
  have h1 : evalC0 c m = fun xs =>
      (List.zipWith (fun (cm : ℝ × ℝ) x => Real.exp (-(cm.1 * |x - cm.2|))) (List.zip c m) xs).prod := by
    funext xs
    simp only [evalC0, subLoop_eq, NumOps.exp, Nat.cast_zero, exp_neg_sum, List.map_zipWith, absN_eq]
  rw [h1, iint_prod_map _ _ _ (by simp [hm, hs, he])]
  unfold anaC0
  rw [mulLoop_eq]
  simp only [Nat.cast_one, one_mul]
  congr 1
  apply zipWith_congr_mem
  intro cm hcm se hse'
  exact integral_c0 cm.1 cm.2 se.1 se.2 (hc _ (List.of_mem_zip hcm).1) (hse se hse')

/-! ### exponentials with a jump: GenzDiscontinious -/

/-- one factor of the integrand -/
noncomputable def discFactor (c b x : ℝ) : ℝ := if x < b then Real.exp (-(c * x)) else 0

/-- one factor of the analytic formula -/
noncomputable def discDim (c b s e : ℝ) : ℝ :=
  if s < b then (Real.exp (-c * s) - Real.exp (-c * (if e < b then e else b))) / c else 0

theorem evalDiscGo_eq (acc : ℝ) (l : List ((ℝ × ℝ) × ℝ)) :
    evalDiscGo acc l = Real.exp acc * (l.map (fun p => discFactor p.1.1 p.1.2 p.2)).prod := by
  induction l generalizing acc with
  | nil => simp [evalDiscGo, NumOps.exp]
  | cons p l ih =>
    obtain ⟨⟨c, b⟩, x⟩ := p
    by_cases h : x < b
    · simp only [evalDiscGo, h, if_true, ih, List.map_cons, List.prod_cons, discFactor]
      rw [← mul_assoc, ← Real.exp_add]; congr 2
    · simp [evalDiscGo, h, discFactor]

theorem anaDiscGo_eq (r : ℝ) (l : List ((ℝ × ℝ) × (ℝ × ℝ))) :
    anaDiscGo r l = r * (l.map (fun p => discDim p.1.1 p.1.2 p.2.1 p.2.2)).prod := by
  induction l generalizing r with
  | nil => simp [anaDiscGo]
  | cons p l ih =>
    obtain ⟨⟨c, b⟩, ⟨s, e⟩⟩ := p
    by_cases h : s < b
    · simp only [anaDiscGo, h, if_true, ih, List.map_cons, List.prod_cons, discDim, NumOps.exp]
      ring
    · simp [anaDiscGo, h, discDim]

theorem integral_exp_neg (c a b : ℝ) (hc : c ≠ 0) :
    ∫ x in a..b, Real.exp (-(c * x)) = (Real.exp (-c * a) - Real.exp (-c * b)) / c := by
  have h := integral_exp_lin (-c) 0 a b (neg_ne_zero.2 hc)
  simp only [sub_zero] at h
  have : (fun x : ℝ => Real.exp (-(c * x))) = fun x => Real.exp (-c * x) := by funext x; congr 1; ring
  rw [this, h]; field_simp; ring

/-- one dimension of GenzDiscontinious: for `start ≤ end`, `c ≠ 0` and ANY position of the border -/
theorem integral_disc (c b s e : ℝ) (hc : c ≠ 0) (hse : s ≤ e) :
    ∫ x in s..e, discFactor c b x = discDim c b s e := by
  unfold discDim
  by_cases h1 : s < b
  · simp only [h1, if_true]
    by_cases h2 : e < b
    · -- the whole interval lies left of the border
      simp only [h2, if_true]
      rw [← integral_exp_neg c s e hc]
      apply integral_congr
      intro x hx
      rw [Set.uIcc_of_le hse] at hx
      have : x < b := lt_of_le_of_lt hx.2 h2
      simp [discFactor, this]
    · -- the border is inside: only [s, b) contributes
      have hbe : b ≤ e := not_lt.1 h2
      simp only [h2, if_false]
      rw [← integral_exp_neg c s b hc]
      have hf : (fun x => discFactor c b x) = Set.indicator (Set.Iio b) (fun x => Real.exp (-(c * x))) := by
        funext x
        by_cases hx : x < b <;> simp [discFactor, Set.indicator, hx]
      rw [integral_of_le hse, integral_of_le h1.le, hf,
        MeasureTheory.setIntegral_indicator measurableSet_Iio]
      have hset : Set.Ioc s e ∩ Set.Iio b = Set.Ioo s b := by
        ext x
        simp only [Set.mem_inter_iff, Set.mem_Ioc, Set.mem_Iio, Set.mem_Ioo]
        constructor
        · rintro ⟨⟨h1, _⟩, h3⟩; exact ⟨h1, h3⟩
        · rintro ⟨h1, h3⟩; exact ⟨⟨h1, le_trans h3.le hbe⟩, h3⟩
      rw [hset, MeasureTheory.integral_Ioc_eq_integral_Ioo]
  · -- the interval starts at or beyond the border: the integrand vanishes
    simp only [h1, if_false]
    have : ∫ x in s..e, discFactor c b x = ∫ x in s..e, (0 : ℝ) := by
      apply integral_congr
      intro x hx
      rw [Set.uIcc_of_le hse] at hx
      have : ¬ x < b := not_lt.2 (le_trans (not_lt.1 h1) hx.1)
      simp [discFactor, this]
    rw [this]; simp

theorem disc_integral (c b s e : List ℝ) (hc : ∀ x ∈ c, x ≠ 0) (hse : ∀ se ∈ List.zip s e, se.1 ≤ se.2)
    (hb : b.length = c.length) (hs : s.length = c.length) (he : e.length = c.length) :
    iint (List.zip s e) (evalDisc c b) = anaDisc c b s e := by
  have h1 : evalDisc c b = fun xs =>
      (List.zipWith (fun (cb : ℝ × ℝ) x => discFactor cb.1 cb.2 x) (List.zip c b) xs).prod := by
    funext xs
    simp only [evalDisc, evalDiscGo_eq, Nat.cast_zero, Real.exp_zero, one_mul]
    congr 1
    generalize List.zip c b = l
    induction l generalizing xs with
    | nil => simp
    | cons p l ih => cases xs <;> simp [ih]
  rw [h1, iint_prod_map _ _ _ (by simp [hb, hs, he])]
  unfold anaDisc
  rw [anaDiscGo_eq]
  simp only [Nat.cast_one, one_mul]
  congr 1
  have h2 : ∀ (l : List (ℝ × ℝ)) (box : List (ℝ × ℝ)),
      List.map (fun (p : (ℝ × ℝ) × (ℝ × ℝ)) => discDim p.1.1 p.1.2 p.2.1 p.2.2) (List.zip l box)
        = List.zipWith (fun (cb : ℝ × ℝ) (se : ℝ × ℝ) => discDim cb.1 cb.2 se.1 se.2) l box := by
    intro l
    induction l with
    | nil => simp
    | cons p l ih => intro box; cases box <;> simp [ih]
  rw [h2]
  apply zipWith_congr_mem
  intro cb hcb se hse'
  exact integral_disc cb.1 cb.2 se.1 se.2 (hc _ (List.of_mem_zip hcb).1) (hse se hse')

/-! ### real powers: FunctionExpVar -/

/-- `iint box g` evaluates `g` only on coordinate lists as long as the box -/
theorem iint_congr_len (box : List (ℝ × ℝ)) (g h : List ℝ → ℝ)
    (hgh : ∀ xs, xs.length = box.length → g xs = h xs) : iint box g = iint box h := by
  induction box generalizing g h with
  | nil => exact hgh [] rfl
  | cons ab bs ih =>
    simp only [iint]
    congr 1
    funext x
    exact ih _ _ (fun xs hxs => hgh (x :: xs) (by simp [hxs]))

theorem iint_prod_same (f : ℝ → ℝ) (box : List (ℝ × ℝ)) :
    iint box (fun xs => (xs.map f).prod) = (box.map (fun ab => ∫ x in ab.1..ab.2, f x)).prod := by
  induction box with
  | nil => simp [iint]
  | cons ab bs ih =>
    simp only [iint, List.map_cons, List.prod_cons]
    simp_rw [iint_mul_left, ih]
    exact integral_mul_const _ _

theorem expVar_integral (s e : List ℝ) (he : e.length = s.length) :
    iint (List.zip s e) evalExpVar = anaExpVar s e := by
  have hlen : (List.zip s e).length = s.length := by simp [he]
  set n := s.length with hn
  have h1 : iint (List.zip s e) evalExpVar = iint (List.zip s e) (fun xs =>
      ((1 : ℝ) + 1 / (n : ℝ)) ^ n * (xs.map (fun x => x ^ ((1 : ℝ) / (n : ℝ)))).prod) := by
    apply iint_congr_len
    intro xs hxs
    rw [hlen] at hxs
    simp only [evalExpVar, hxs, mulLoop_eq, NumOps.rpow, Nat.cast_one, one_mul]
  rw [h1, iint_mul_left, iint_prod_same]
  simp only [anaExpVar, ← hn, mulLoop_eq, NumOps.rpow, Nat.cast_one, one_mul]
  congr 1
  have hr : (-1 : ℝ) < 1 / (n : ℝ) := by
    have : (0 : ℝ) ≤ 1 / (n : ℝ) := by positivity
    linarith
  have h2 : ∀ (l l' : List ℝ), List.map (fun (ab : ℝ × ℝ) => ∫ x in ab.1..ab.2, x ^ ((1 : ℝ) / (n : ℝ))) (List.zip l l')
      = List.zipWith (fun s e => e ^ ((1 : ℝ) + 1 / (n : ℝ)) / (1 + 1 / (n : ℝ)) - s ^ ((1 : ℝ) + 1 / (n : ℝ)) / (1 + 1 / (n : ℝ))) l l' := by
    intro l
    induction l with
    | nil => simp
    | cons a l ih =>
      intro l'
      cases l' with
      | nil => simp
      | cons b l' =>
        simp only [List.zip_cons_cons, List.map_cons, List.zipWith_cons_cons, ih]
        congr 1
        rw [integral_rpow (Or.inl hr), add_comm ((1 : ℝ) / n) 1, sub_div]
  rw [h2]

end SparseSpace.AnalyticTrans
