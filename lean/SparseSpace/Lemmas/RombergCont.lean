import SparseSpace.Lemmas.RombergSlice
/-!
# Grouped containers (C11): a container of `2^k` equal slices carries the Romberg rule `Σ_j c_{k,j} T_j`

* `normLevels` on `2^k - 1` inner points is the level pattern `perfect k` of a perfect binary tree;
* default containers: weights sum to the container length and integrate affine functions exactly;
* Simpson containers: the same sums come out as `(1 - c_{k,0}/3)` times the exact value, because the level-0 row
  of `RombergSimpsonWeights` has the weights `h/3, h/3`.
-/
namespace SparseSpace.Romberg
open Finset

/-- in-order levels of a perfect binary tree of depth `k` whose root has level `lvl` -/
def perfect : ℕ → ℕ → List ℕ
  | 0, _ => []
  | k + 1, lvl => perfect k (lvl + 1) ++ lvl :: perfect k (lvl + 1)

theorem perfect_length (k lvl : ℕ) : (perfect k lvl).length + 1 = 2 ^ k := by
  induction k generalizing lvl with
  | zero => simp [perfect]
  | succ k ih =>
    simp only [perfect, List.length_append, List.length_cons]
    have := ih (lvl + 1)
    rw [pow_succ]; omega

theorem normLevels_perfect (k : ℕ) : ∀ fuel start level : ℕ, k ≤ fuel → 1 ≤ start →
    normLevels fuel start (start + 2 ^ k - 2) level = perfect k level := by
  induction k with
  | zero =>
    intro fuel start level _ hs
    cases fuel with
    | zero => simp [normLevels, perfect]
    | succ f =>
      simp only [normLevels, perfect, pow_zero]
      have : start > start + 1 - 2 := by omega
      rw [if_pos this]
  | succ k ih =>
    intro fuel start level hf hs
    cases fuel with
    | zero => omega
    | succ f =>
      have hpos : 1 ≤ 2 ^ k := Nat.one_le_two_pow
      cases k with
      | zero =>
        simp only [normLevels, perfect]
        have h1 : start + 2 ^ (0 + 1) - 2 = start := by simp
        rw [h1]
        simp
      | succ k' =>
        have hpos' : 1 ≤ 2 ^ k' := Nat.one_le_two_pow
        have hp : 2 ^ (k' + 1 + 1) = 2 * 2 ^ (k' + 1) := by rw [pow_succ]; ring
        have hp' : 2 ^ (k' + 1) = 2 * 2 ^ k' := by rw [pow_succ]; ring
        simp only [normLevels]
        have hgt : ¬ start > start + 2 ^ (k' + 1 + 1) - 2 := by omega
        have hne : ¬ start = start + 2 ^ (k' + 1 + 1) - 2 := by omega
        have hmid : (start + (start + 2 ^ (k' + 1 + 1) - 2)) / 2 = start + 2 ^ (k' + 1) - 1 := by omega
        rw [hmid]
        have hms : ¬ (start + 2 ^ (k' + 1) - 1 ≤ start) := by omega
        simp only [hgt, hne, hms, if_false]
        have hl : start + 2 ^ (k' + 1) - 1 - 1 = start + 2 ^ (k' + 1) - 2 := by omega
        have hr : start + 2 ^ (k' + 1 + 1) - 2 = (start + 2 ^ (k' + 1) - 1 + 1) + 2 ^ (k' + 1) - 2 := by omega
        rw [hl, ih f start (level + 1) (by omega) hs, hr,
          ih f (start + 2 ^ (k' + 1) - 1 + 1) (level + 1) (by omega) (by omega)]
        simp [perfect]

theorem perfect_bounds (k lvl : ℕ) : ∀ l ∈ perfect k lvl, lvl ≤ l ∧ l < lvl + k := by
  induction k generalizing lvl with
  | zero => simp [perfect]
  | succ k ih =>
    intro l hl
    simp only [perfect, List.mem_append, List.mem_cons] at hl
    rcases hl with h | rfl | h
    · have := ih (lvl + 1) l h; omega
    · omega
    · have := ih (lvl + 1) l h; omega

theorem listMax_le (l : List ℕ) (m : ℕ) (h : ∀ x ∈ l, x ≤ m) : listMax l ≤ m := by
  induction l with
  | nil => simp [listMax]
  | cons x xs ih =>
    simp only [listMax]
    have h1 := h x List.mem_cons_self
    have h2 := ih (fun y hy => h y (List.mem_cons_of_mem _ hy))
    omega

theorem le_listMax (l : List ℕ) (x : ℕ) (h : x ∈ l) : x ≤ listMax l := by
  induction l with
  | nil => simp at h
  | cons y ys ih =>
    simp only [listMax]
    simp only [List.mem_cons] at h
    rcases h with rfl | h
    · omega
    · have := ih h; omega

theorem mem_perfect_last (k lvl : ℕ) : lvl + k ∈ perfect (k + 1) lvl := by
  induction k generalizing lvl with
  | zero => simp [perfect]
  | succ k ih =>
    rw [perfect]
    have := ih (lvl + 1)
    have h2 : lvl + 1 + k = lvl + (k + 1) := by omega
    rw [h2] at this
    exact List.mem_append_left _ this

theorem listMax_perfect (k lvl : ℕ) : listMax (perfect (k + 1) lvl) = lvl + k := by
  apply le_antisymm
  · apply listMax_le
    intro x hx
    have := perfect_bounds (k + 1) lvl x hx
    omega
  · exact le_listMax _ _ (mem_perfect_last k lvl)

/-! ## sums along an arithmetic progression of points -/

/-- `Σ_i ws[i] · f(x + i·h)` -/
def apSum (f : ℚ → ℚ) : List ℚ → ℚ → ℚ → ℚ
  | [], _, _ => 0
  | w :: ws, x, h => w * f x + apSum f ws (x + h) h

theorem apSum_append (f : ℚ → ℚ) (l1 l2 : List ℚ) (x h : ℚ) :
    apSum f (l1 ++ l2) x h = apSum f l1 x h + apSum f l2 (x + l1.length * h) h := by
  induction l1 generalizing x with
  | nil => simp [apSum]
  | cons w ws ih =>
    simp only [List.cons_append, apSum, ih, List.length_cons, Nat.cast_add, Nat.cast_one]
    have : x + h + ↑ws.length * h = x + (↑ws.length + 1) * h := by ring
    rw [this]; ring

/-- `Σ_{t<k} 2^t g(lvl+t)`: the weight `g(level)` summed over all points of a perfect tree -/
def levelSum (g : ℕ → ℚ) (k lvl : ℕ) : ℚ := ∑ t ∈ range k, 2 ^ t * g (lvl + t)

theorem levelSum_succ (g : ℕ → ℚ) (k lvl : ℕ) :
    levelSum g (k + 1) lvl = g lvl + 2 * levelSum g k (lvl + 1) := by
  simp only [levelSum, Finset.sum_range_succ', pow_zero, one_mul, add_zero, Finset.mul_sum]
  rw [add_comm]
  congr 1
  refine Finset.sum_congr rfl fun t _ => ?_
  have : lvl + (t + 1) = lvl + 1 + t := by omega
  rw [this, pow_succ]; ring

/-- the inner points of a block of `2^k` slices starting at `x`, weighted by level, integrate an affine function
    like a single point at the centre of the block -/
theorem apSum_perfect (g : ℕ → ℚ) (α β : ℚ) (k lvl : ℕ) (x h : ℚ) :
    apSum (fun y => α * y + β) ((perfect k lvl).map g) (x + h) h
      = levelSum g k lvl * (α * (x + 2 ^ k * h / 2) + β) := by
  induction k generalizing lvl x with
  | zero => simp [perfect, apSum, levelSum]
  | succ k ih =>
    have hlen : (((perfect k (lvl + 1)).map g).length : ℚ) + 1 = 2 ^ k := by
      have := perfect_length k (lvl + 1)
      rw [List.length_map]
      exact_mod_cast this
    have hlen' : (((perfect k (lvl + 1)).map g).length : ℚ) = 2 ^ k - 1 := by linarith
    rw [perfect, List.map_append, List.map_cons, apSum_append, apSum, ih, levelSum_succ, hlen']
    have e1 : x + h + (2 ^ k - 1) * h + h = (x + 2 ^ k * h) + h := by ring
    rw [e1, ih]
    rw [pow_succ]
    ring

theorem geo_sum (k : ℕ) : ∑ t ∈ range k, (2 : ℚ) ^ t = 2 ^ k - 1 := by
  induction k with
  | zero => simp
  | succ n ihn => rw [Finset.sum_range_succ, ihn]; ring

/-- summation by parts for the tails `Σ_{j>t}` -/
theorem tailSum (U : ℕ → ℚ) (k : ℕ) :
    ∑ t ∈ range k, 2 ^ t * (∑ i ∈ range (k - t), U (1 + t + i)) = ∑ j ∈ range k, (2 ^ (j + 1) - 1) * U (j + 1) := by
  induction k with
  | zero => simp
  | succ k ih =>
    rw [Finset.sum_range_succ, Finset.sum_range_succ _ k]
    have hlast : k + 1 - k = 1 := by omega
    simp only [hlast, Finset.sum_range_one, add_zero]
    have h1 : ∀ t ∈ range k, 2 ^ t * (∑ i ∈ range (k + 1 - t), U (1 + t + i))
        = 2 ^ t * (∑ i ∈ range (k - t), U (1 + t + i)) + 2 ^ t * U (k + 1) := by
      intro t ht
      have htk : t < k := mem_range.mp ht
      have : k + 1 - t = (k - t) + 1 := by omega
      rw [this, Finset.sum_range_succ]
      have : 1 + t + (k - t) = k + 1 := by omega
      rw [this]; ring
    rw [Finset.sum_congr rfl h1, Finset.sum_add_distrib, ih, ← Finset.sum_mul]
    rw [geo_sum]
    rw [pow_succ]; ring_nf

/-! ## containers -/

/-- consecutive slices of equal width `h` starting at `x` -/
def Equi : ℚ → ℚ → List Slice → Prop
  | _, _, [] => True
  | x, h, s :: r => s.xl = x ∧ s.xr = x + h ∧ Equi (x + h) h r

/-- `n` points `x, x+h, x+2h, …` -/
def apPoints (x h : ℚ) : ℕ → List ℚ
  | 0 => []
  | n + 1 => x :: apPoints (x + h) h n

theorem apPoints_succ (x h : ℚ) (n : ℕ) : apPoints x h (n + 1) = x :: apPoints (x + h) h n := rfl

theorem contPoints_equi (c : List Slice) (x h : ℚ) (hE : Equi x h c) (hne : c ≠ []) :
    contPoints c = apPoints x h (c.length + 1) := by
  induction c generalizing x with
  | nil => exact absurd rfl hne
  | cons s r ih =>
    obtain ⟨h1, h2, h3⟩ := hE
    cases r with
    | nil => simp [contPoints, apPoints, h1, h2]
    | cons s' r' =>
      have := ih (x + h) h3 (by simp)
      simp only [contPoints, this, h1]
      simp [apPoints]

theorem lastXr_equi (c : List Slice) (x h d : ℚ) (hE : Equi x h c) (hne : c ≠ []) :
    lastXr c d = x + c.length * h := by
  induction c generalizing x with
  | nil => exact absurd rfl hne
  | cons s r ih =>
    obtain ⟨h1, h2, h3⟩ := hE
    cases r with
    | nil => simp [lastXr, h2]
    | cons s' r' =>
      have := ih (x + h) h3 (by simp)
      simp only [lastXr, this, List.length_cons, Nat.cast_add, Nat.cast_one]
      ring

theorem wsum_zip_ap (f : ℚ → ℚ) (ws : List ℚ) (bw y h : ℚ) :
    wsum f ((apPoints y h (ws.length + 1)).zip (ws ++ [bw])) = apSum f ws y h + bw * f (y + ws.length * h) := by
  induction ws generalizing y with
  | nil => simp [apPoints, apSum]
  | cons w ws ih =>
    rw [List.length_cons, apPoints_succ, List.cons_append, List.zip_cons_cons, wsum_cons, apSum, ih (y + h)]
    have : y + h + ↑ws.length * h = y + (↑ws.length + 1) * h := by ring
    rw [this]
    push_cast
    ring

theorem innerWeights_perfect (cv : ContVer) (a b : ℚ) (k : ℕ) :
    innerWeights cv a b (k + 1) (perfect (k + 1) 1)
      = some ((perfect (k + 1) 1).map (fun l => match cv with
          | .default => trapInner a b 2 l (k + 1) | .simpson => simpInner a b l (k + 1))) := by
  have hb := perfect_bounds (k + 1) 1
  generalize perfect (k + 1) 1 = L at hb
  induction L with
  | nil => simp [innerWeights]
  | cons l ls ih =>
    have h1 := hb l List.mem_cons_self
    have h2 := ih (fun y hy => hb y (List.mem_cons_of_mem _ hy))
    simp only [innerWeights, h2, List.map_cons]
    have : 1 ≤ l ∧ l ≤ k + 1 := by omega
    rw [if_pos this]
    cases cv <;> rfl

/-- the weights of a default container sum to `Σ_j c_j · H = H`, level by level -/
theorem default_total (a b : ℚ) (k : ℕ) (hab : a ≠ b) :
    2 * trapBoundary a b 2 k + levelSum (fun l => trapInner a b 2 l k) k 1 = b - a := by
  set U : ℕ → ℚ := fun j => coeff a b 2 k j * stepWidth a b j with hU
  have hb : 2 * trapBoundary a b 2 k = ∑ j ∈ range (k + 1), U j := by
    simp only [trapBoundary, sumRange_eq, zero_add, Finset.mul_sum, hU]
    refine Finset.sum_congr rfl fun j _ => by ring
  have hl : levelSum (fun l => trapInner a b 2 l k) k 1 = ∑ j ∈ range k, (2 ^ (j + 1) - 1) * U (j + 1) := by
    rw [← tailSum U k]
    simp only [levelSum, trapInner, sumRange_eq]
    refine Finset.sum_congr rfl fun t ht => ?_
    have : k + 1 - (1 + t) = k - t := by omega
    rw [this]
  rw [hb, hl, Finset.sum_range_succ' _ k, add_assoc, add_comm (U 0), ← add_assoc, ← Finset.sum_add_distrib]
  have hs := coeff_sum a b 2 k hab (by norm_num)
  rw [sumRange_eq, Finset.sum_range_succ'] at hs
  simp only [zero_add] at hs
  have hterm : ∀ j, U (j + 1) + (2 ^ (j + 1) - 1) * U (j + 1) = coeff a b 2 k (j + 1) * (b - a) := by
    intro j
    simp only [hU, stepWidth_eq]
    have : (2 : ℚ) ^ (j + 1) ≠ 0 := pow_ne_zero _ (by norm_num)
    field_simp
    ring
  rw [Finset.sum_congr rfl (fun j _ => hterm j), ← Finset.sum_mul]
  have hU0 : U 0 = coeff a b 2 k 0 * (b - a) := by simp [hU, stepWidth_eq]
  rw [hU0, ← add_mul, hs, one_mul]

theorem simpson_algebra (U : ℕ → ℚ) (k : ℕ) :
    2 / 3 * ∑ j ∈ range (k + 2), U j
      + ∑ t ∈ range (k + 1), 2 ^ t * (4 / 3 * U (1 + t) + 2 / 3 * ∑ i ∈ range (k - t), U (1 + t + 1 + i))
    = ∑ j ∈ range (k + 2), 2 ^ j * U j - U 0 / 3 := by
  have hT := tailSum (fun j => U (j + 1)) k
  have h1 : ∑ t ∈ range (k + 1), 2 ^ t * (∑ i ∈ range (k - t), U (1 + t + 1 + i))
      = ∑ j ∈ range k, (2 ^ (j + 1) - 1) * U (j + 2) := by
    rw [Finset.sum_range_succ]
    simp only [Nat.sub_self, range_zero, sum_empty, mul_zero, add_zero]
    rw [← hT]
    refine Finset.sum_congr rfl fun t _ => ?_
    congr 1
    refine Finset.sum_congr rfl fun i _ => ?_
    congr 1
    omega
  have h2 : ∑ t ∈ range (k + 1), 2 ^ t * (4 / 3 * U (1 + t) + 2 / 3 * ∑ i ∈ range (k - t), U (1 + t + 1 + i))
      = 4 / 3 * ∑ t ∈ range (k + 1), 2 ^ t * U (1 + t)
        + 2 / 3 * ∑ t ∈ range (k + 1), 2 ^ t * (∑ i ∈ range (k - t), U (1 + t + 1 + i)) := by
    rw [Finset.mul_sum, Finset.mul_sum, ← Finset.sum_add_distrib]
    refine Finset.sum_congr rfl fun t _ => by ring
  rw [h2, h1]
  rw [Finset.sum_range_succ' _ (k + 1), Finset.sum_range_succ' _ k, Finset.sum_range_succ' _ k,
    Finset.sum_range_succ' (fun j => 2 ^ j * U j) (k + 1), Finset.sum_range_succ' _ k]
  simp only [pow_zero, one_mul, add_zero, zero_add]
  have e : ∀ j : ℕ, 1 + (j + 1) = j + 1 + 1 := by intro j; omega
  simp only [e]
  have hD : ∑ j ∈ range k, (2 : ℚ) ^ (j + 1 + 1) * U (j + 1 + 1)
      = 2 / 3 * ∑ j ∈ range k, U (j + 1 + 1) + 4 / 3 * ∑ x ∈ range k, 2 ^ (x + 1) * U (x + 1 + 1)
        + 2 / 3 * ∑ i ∈ range k, (2 ^ (i + 1) - 1) * U (i + 2) := by
    rw [Finset.mul_sum, Finset.mul_sum, Finset.mul_sum, ← Finset.sum_add_distrib, ← Finset.sum_add_distrib]
    refine Finset.sum_congr rfl fun j _ => ?_
    rw [pow_succ 2 (j + 1)]; ring
  rw [hD]; ring

/-- the boundary weight with ALL rows divided by 3 (auxiliary; this is what the code computed before the level-0 row
    was repaired) -/
def simpBoundaryOld (a b : ℚ) (m : ℕ) : ℚ :=
  sumRange 0 (m + 1) (fun j => coeff a b 3 m j * stepWidth a b j) / 3

theorem simpson_total_old (a b : ℚ) (k : ℕ) (hab : a ≠ b) :
    2 * simpBoundaryOld a b (k + 1) + levelSum (fun l => simpInner a b l (k + 1)) (k + 1) 1
      = (b - a) * (1 - coeff a b 3 (k + 1) 0 / 3) := by
  set U : ℕ → ℚ := fun j => coeff a b 3 (k + 1) j * stepWidth a b j with hU
  have hb : 2 * simpBoundaryOld a b (k + 1) = 2 / 3 * ∑ j ∈ range (k + 2), U j := by
    simp only [simpBoundaryOld, sumRange_eq, zero_add, hU]
    ring
  have hl : levelSum (fun l => simpInner a b l (k + 1)) (k + 1) 1
      = ∑ t ∈ range (k + 1), 2 ^ t * (4 / 3 * U (1 + t) + 2 / 3 * ∑ i ∈ range (k - t), U (1 + t + 1 + i)) := by
    simp only [levelSum, simpInner, sumRange_eq]
    refine Finset.sum_congr rfl fun t ht => ?_
    have : k + 1 - (1 + t) = k - t := by omega
    rw [this, Finset.mul_sum]
    congr 1
    simp only [hU]
    congr 1
    · ring
    · refine Finset.sum_congr rfl fun i _ => by ring
  rw [hb, hl, simpson_algebra U k]
  have hs := coeff_sum a b 3 (k + 1) hab (by norm_num)
  rw [sumRange_eq] at hs
  simp only [zero_add] at hs
  have hterm : ∀ j, 2 ^ j * U j = coeff a b 3 (k + 1) j * (b - a) := by
    intro j
    simp only [hU, stepWidth_eq]
    have : (2 : ℚ) ^ j ≠ 0 := pow_ne_zero _ (by norm_num)
    field_simp
  rw [Finset.sum_congr rfl (fun j _ => hterm j), ← Finset.sum_mul, hs]
  have hU0 : U 0 = coeff a b 3 (k + 1) 0 * (b - a) := by simp [hU, stepWidth_eq]
  rw [hU0]; ring

/-- the coded boundary weight (level-0 row `h/2`) exceeds the all-thirds one by `c_{m,0} (b-a) / 6` -/
theorem simpBoundary_eq (a b : ℚ) (m : ℕ) :
    simpBoundary a b m = simpBoundaryOld a b m + coeff a b 3 m 0 * (b - a) / 6 := by
  simp only [simpBoundary, simpBoundaryOld, sumRange_eq, zero_add]
  rw [Finset.sum_range_succ' _ m, Finset.sum_range_succ' _ m]
  simp only [stepWidth_eq, pow_zero, div_one, if_true, Nat.add_eq_zero_iff, one_ne_zero, and_false, if_false]
  have hs : ∑ x ∈ range m, coeff a b 3 m (x + 1) * ((b - a) / 2 ^ (x + 1)) / 3
      = (∑ x ∈ range m, coeff a b 3 m (x + 1) * ((b - a) / 2 ^ (x + 1))) / 3 := by
    simp only [div_eq_mul_inv, Finset.sum_mul]
  rw [hs]
  ring

/-- **the weights of a Simpson container sum to the length of its interval** (level-0 row `h/2, h/2`) -/
theorem simpson_total (a b : ℚ) (k : ℕ) (hab : a ≠ b) :
    2 * simpBoundary a b (k + 1) + levelSum (fun l => simpInner a b l (k + 1)) (k + 1) 1 = b - a := by
  have := simpson_total_old a b k hab
  rw [simpBoundary_eq]
  linarith

/-- boundary weight of a container of the given version -/
def bwOf (cv : ContVer) (a b : ℚ) (k : ℕ) : ℚ :=
  match cv with | .default => trapBoundary a b 2 k | .simpson => simpBoundary a b k

/-- inner weight of a container of the given version -/
def iwOf (cv : ContVer) (a b : ℚ) (k l : ℕ) : ℚ :=
  match cv with | .default => trapInner a b 2 l k | .simpson => simpInner a b l k

theorem wsum_block (g : ℕ → ℚ) (bw : ℚ) (k : ℕ) (x h α β : ℚ) :
    wsum (fun y => α * y + β) ((apPoints x h (2 ^ (k + 1) + 1)).zip (bw :: ((perfect (k + 1) 1).map g ++ [bw])))
      = (2 * bw + levelSum g (k + 1) 1) * (α * (x + 2 ^ (k + 1) * h / 2) + β) := by
  have hlen2 : (perfect (k + 1) 1).length + 1 = 2 ^ (k + 1) := perfect_length (k + 1) 1
  set iw := (perfect (k + 1) 1).map g with hiw
  have hiwl : iw.length + 1 = 2 ^ (k + 1) := by rw [hiw, List.length_map]; exact hlen2
  rw [← hiwl, apPoints_succ, List.zip_cons_cons, wsum_cons, wsum_zip_ap]
  have hiwq : (iw.length : ℚ) = 2 ^ (k + 1) - 1 := by
    have : ((iw.length + 1 : ℕ) : ℚ) = 2 ^ (k + 1) := by rw [hiwl]; push_cast; rfl
    push_cast at this; linarith
  have hap := apSum_perfect g α β (k + 1) 1 x h
  rw [← hiw] at hap
  rw [hap, hiwq]
  ring

/-- a container of `2^(k+1)` equal consecutive slices of width `h` starting at `x` integrates an affine function as
    (total weight) × (value at the centre) -/
theorem containerContribs_wsum (sv : SliceVer) (cv : ContVer) (s s' : Slice) (r : List Slice) (k : ℕ)
    (x h α β : ℚ) (hlen : (s :: s' :: r).length = 2 ^ (k + 1)) (hE : Equi x h (s :: s' :: r))
    (cs : List (ℚ × ℚ)) (hc : containerContribs sv cv (s :: s' :: r) = some cs) :
    wsum (fun y => α * y + β) cs
      = (2 * bwOf cv x (x + 2 ^ (k + 1) * h) (k + 1)
          + levelSum (fun l => iwOf cv x (x + 2 ^ (k + 1) * h) (k + 1) l) (k + 1) 1)
        * (α * (x + 2 ^ (k + 1) * h / 2) + β) := by
  cases cv
  all_goals
    have hne : (s :: s' :: r) ≠ [] := by simp
    have hpts := contPoints_equi _ x h hE hne
    have hlast := lastXr_equi _ x h s.xr hE hne
    have hsx : s.xl = x := hE.1
    simp only [containerContribs] at hc
    rw [hpts, hlast, hsx] at hc
    have hlenq : (((s :: s' :: r).length : ℕ) : ℚ) = 2 ^ (k + 1) := by rw [hlen]; push_cast; rfl
    rw [hlenq] at hc
    have hpl : (apPoints x h ((s :: s' :: r).length + 1)).length = 2 ^ (k + 1) + 1 := by
      have : ∀ (n : ℕ) (y : ℚ), (apPoints y h n).length = n := by
        intro n; induction n with
        | zero => intro y; rfl
        | succ n ih => intro y; simp [apPoints, ih]
      rw [this, hlen]
    rw [hpl] at hc
    have hnl : normLevels (2 ^ (k + 1) + 1) 1 (2 ^ (k + 1) + 1 - 2) 1 = perfect (k + 1) 1 := by
      have h1 : 2 ^ (k + 1) + 1 - 2 = 1 + 2 ^ (k + 1) - 2 := by omega
      rw [h1]
      exact normLevels_perfect (k + 1) _ 1 1 (by have := @Nat.lt_two_pow_self (k + 1); omega) (le_refl 1)
    rw [hnl, listMax_perfect k 1] at hc
    have h1k : 1 + k = k + 1 := by omega
    rw [h1k, innerWeights_perfect] at hc
    simp only [Option.some.injEq] at hc
    subst hc
    rw [hlen]
    exact wsum_block _ _ k x h α β

end SparseSpace.Romberg
