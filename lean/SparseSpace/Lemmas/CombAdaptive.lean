import SparseSpace.Lemmas.CombAlg
/-!
# The combination lemma instantiated at the adaptive scheme (C01 ⇒ hypotheses of L2)

For every state satisfying the scheme invariant (in particular every reachable one), every `k` in the index
set and every `F` that only depends on `l ⊓ k` on the returned grids, the combination collapses to `F k`.
-/
namespace SparseSpace

theorem adaptive_collapse {V : Type} [AddCommGroup V] (s : CS) (h : SchemeInv s)
    (k : LV) (hkI : k ∈ I s) (F : LV → V) (hF : ∀ p ∈ s.coeffs, F p.1 = F (meet p.1 k)) :
    (s.coeffs.map fun p => p.2 • F p.1).sum = F k := by
  have hk := h.shape k hkI
  refine comb_collapse s.dim s.lmin s.coeffs (fun t => t ∈ I s) ?_ ?_ ?_ k hk.1 hk.2 hkI F hF
  · intro p hp
    exact h.shape p.1 ((coeff_support s h).1 p hp).1
  · intro a b ha _ hmin hle hb
    exact downward_closed s h b a hb ha hmin hle
  · intro t ht hmin
    exact coeff_identity s h t ht hmin

/-- reachable form: any update history from a fresh scheme -/
theorem reachable_collapse {V : Type} [AddCommGroup V] (dim : Nat) (lmin lmax : Int) (hd : 1 ≤ dim) (h0 : 0 ≤ lmin)
    (hl : lmin ≤ lmax) (ops : List LV) (k : LV) (hkI : k ∈ I (runOps (CS.init dim lmax lmin) ops)) (F : LV → V)
    (hF : ∀ p ∈ (runOps (CS.init dim lmax lmin) ops).coeffs, F p.1 = F (meet p.1 k)) :
    ((runOps (CS.init dim lmax lmin) ops).coeffs.map fun p => p.2 • F p.1).sum = F k :=
  adaptive_collapse _ (inv_runOps _ ops (inv_init dim lmin lmax hd h0 hl)) k hkI F hF

end SparseSpace
