import SparseSpace.Lemmas.HierGauss
/-! C10: uniqueness — level-triangular collocation matrices are injective; injectivity of the 1-D collocation
operators lifts to the tensor-product nodal operator; hence the surpluses are unique and every function in the span of
the tensor basis is reproduced everywhere. -/
namespace SparseSpace.Hier

/-! ### sums over `range` -/

theorem sum_range_single (n j : Nat) (f : Nat → Rat) (hj : j < n) (h : ∀ k, k < n → k ≠ j → f k = 0) :
    ((List.range n).map f).sum = f j := by
  induction n with
  | zero => omega
  | succ n ih =>
    rw [List.range_succ, List.map_append, List.sum_append]
    simp only [List.map_cons, List.map_nil, List.sum_cons, List.sum_nil, add_zero]
    by_cases hjn : j = n
    · subst hjn
      have : ((List.range j).map f).sum = 0 := by
        apply List.sum_eq_zero
        intro x hx
        simp only [List.mem_map, List.mem_range] at hx
        obtain ⟨k, hk, rfl⟩ := hx
        exact h k (by omega) (by omega)
      rw [this]; ring
    · rw [ih (by omega) (fun k hk hne => h k (by omega) hne), h n (by omega) (fun e => hjn e.symm)]
      ring

theorem sum_map_sub' (l : List Nat) (f g : Nat → Rat) :
    (l.map fun k => f k - g k).sum = (l.map f).sum - (l.map g).sum := by
  induction l with
  | nil => simp
  | cons a as ih => simp only [List.map_cons, List.sum_cons, ih]; ring

theorem dot_eq_range_sum (a b : Vec) (n : Nat) (ha : a.length = n) (hb : b.length = n) :
    dot a b = ((List.range n).map fun k => a.getD k 0 * b.getD k 0).sum := by
  induction a generalizing b n with
  | nil =>
    simp only [List.length_nil] at ha
    subst ha; simp
  | cons x xs ih =>
    cases b with
    | nil => simp only [List.length_nil] at hb; subst hb; simp at ha
    | cons y ys =>
      cases n with
      | zero => simp at ha
      | succ n =>
        rw [dot_cons, ih ys n (by simpa using ha) (by simpa using hb), List.range_succ_eq_map]
        simp [Function.comp_def]

/-! ### level-triangular matrices -/

/-- `B` is `n × n`, has unit diagonal, and the entry `(i,j)`, `i ≠ j`, vanishes whenever point `j` is not on a
strictly lower level than point `i` (hierarchical basis functions vanish at all points of their own and of lower
levels except their own point) -/
def LevelTriangular (B : Mat) (lev : List Nat) : Prop :=
  B.length = lev.length ∧ (∀ r ∈ B, r.length = lev.length) ∧
  ∀ i j, i < lev.length → j < lev.length →
    (i = j → (B.getD i []).getD j 0 = 1) ∧ (i ≠ j → lev.getD i 0 ≤ lev.getD j 0 → (B.getD i []).getD j 0 = 0)

theorem levelTriangular_injective (B : Mat) (lev : List Nat) (hB : LevelTriangular B lev) (α β : Vec)
    (hα : α.length = lev.length) (hβ : β.length = lev.length) (h : mulVec B α = mulVec B β) : α = β := by
  obtain ⟨hlen, hrows, htri⟩ := hB
  set n := lev.length with hn
  -- by induction on the level: all entries on levels below L agree
  have key : ∀ L j, j < n → lev.getD j 0 < L → α.getD j 0 = β.getD j 0 := by
    intro L
    induction L with
    | zero => intro j _ hl; omega
    | succ L ih =>
      intro j hj hl
      by_cases hlt : lev.getD j 0 < L
      · exact ih j hj hlt
      · have hjB : j < B.length := by rw [hlen]; exact hj
        have hrow : (B[j]).length = n := hrows _ (List.getElem_mem hjB)
        have e1 : dot B[j] α = dot B[j] β := by
          have h1 := mulVec_getElem B α j hjB
          have h2 := mulVec_getElem B β j hjB
          rw [← h1, ← h2]
          exact List.getElem_of_eq h _
        rw [dot_eq_range_sum _ _ n hrow hα, dot_eq_range_sum _ _ n hrow hβ] at e1
        have hBj : B.getD j [] = B[j] := getDL_of_lt B j hjB
        have e2 : ((List.range n).map fun k => (B[j]).getD k 0 * (α.getD k 0 - β.getD k 0)).sum = 0 := by
          have : (fun k => (B[j]).getD k 0 * (α.getD k 0 - β.getD k 0))
              = fun k => (B[j]).getD k 0 * α.getD k 0 - (B[j]).getD k 0 * β.getD k 0 := by
            funext k; ring
          rw [this, sum_map_sub', e1, sub_self]
        rw [sum_range_single n j _ hj] at e2
        · have hd := (htri j j hj hj).1 rfl
          rw [hBj] at hd
          rw [hd] at e2
          linarith
        · intro k hk hne
          by_cases hlk : lev.getD k 0 < lev.getD j 0
          · rw [ih k hk (by omega)]; ring
          · have hz := (htri j k hj hk).2 (fun e => hne e.symm) (by omega)
            rw [hBj] at hz
            rw [hz]; ring
  apply List.ext_getElem
  · rw [hα, hβ]
  · intro j h1 h2
    have hj : j < n := by rw [← hα]; exact h1
    have := key (lev.getD j 0 + 1) j hj (by omega)
    rwa [getD_of_lt _ _ h1, getD_of_lt _ _ h2] at this

/-! ### from 1-D injectivity to the tensor-product nodal operator -/

/-- the 1-D collocation operator of `D` is injective ("the pole system is uniquely solvable") -/
def Inj1 (D : Dim1) : Prop :=
  ∀ α β : Vec, α.length = D.n → β.length = D.n → mulVec (colloc D) α = mulVec (colloc D) β → α = β

theorem flatten_split (m k : Nat) (T : Vec) (h : T.length = k * m) : (splitChunks m k T).flatten = T := by
  induction k generalizing T with
  | zero =>
    simp only [Nat.zero_mul] at h
    simp [splitChunks, List.eq_nil_of_length_eq_zero h]
  | succ k ih =>
    simp only [splitChunks, List.flatten_cons]
    rw [ih (T.drop m) (by simp only [List.length_drop, h, Nat.succ_mul]; omega)]
    exact List.take_append_drop m T

theorem interp_cons (D : Dim1) (rest : List Dim1) (i : Nat) (is : List Nat) (S : Vec)
    (hw : WellFormed (D :: rest)) (his : validIdx rest is) :
    interp (D :: rest) (nodeCoords (D :: rest) (i :: is)) S
      = dot (evalRow D (D.xs.getD i 0))
          ((splitChunks (size rest) D.n S).map (interpPoint (List.zipWith evalRow rest (nodeCoords rest is)))) := by
  have hwr : WellFormed rest := fun D hD => hw D (by simp [hD])
  have hrowlen : (evalRow D (D.xs.getD i 0)).length = D.n := by
    simp [evalRow, Dim1.n, hw D (by simp)]
  simp only [interp, nodeCoords, List.zipWith_cons_cons, interpPoint]
  rw [rows_size rest is hwr his, hrowlen]

/-- the nodal values determine the surplus array -/
theorem nodal_injective (dims : List Dim1) (hw : WellFormed dims) (hinj : ∀ D ∈ dims, Inj1 D) (S S' : Vec)
    (hS : S.length = size dims) (hS' : S'.length = size dims)
    (h : ∀ p, validIdx dims p → interp dims (nodeCoords dims p) S = interp dims (nodeCoords dims p) S') :
    S = S' := by
  induction dims generalizing S S' with
  | nil =>
    simp only [size] at hS hS'
    have := h [] (by simp [validIdx])
    match S, S', hS, hS' with
    | [s], [s'], _, _ =>
      simp only [interp, nodeCoords, List.zipWith_nil_left, interpPoint] at this
      rw [this]
  | cons D rest ih =>
    have hwr : WellFormed rest := fun D hD => hw D (by simp [hD])
    set m := size rest with hm
    have hSl : S.length = D.n * m := by simpa [size] using hS
    have hSl' : S'.length = D.n * m := by simpa [size] using hS'
    have hC := split_rect m D.n S hSl
    have hC' := split_rect m D.n S' hSl'
    -- all chunks agree
    have hchunks : splitChunks m D.n S = splitChunks m D.n S' := by
      apply List.ext_getElem
      · rw [hC.1, hC'.1]
      · intro c h1 h2
        apply ih hwr (fun D hD => hinj D (by simp [hD])) _ _
          (hC.2 _ (List.getElem_mem h1)) (hC'.2 _ (List.getElem_mem h2))
        intro is his
        -- the vectors of inner interpolants over the chunks agree, by 1-D injectivity
        have hvec : (splitChunks m D.n S).map (interpPoint (List.zipWith evalRow rest (nodeCoords rest is)))
            = (splitChunks m D.n S').map (interpPoint (List.zipWith evalRow rest (nodeCoords rest is))) := by
          apply hinj D (by simp) _ _ (by simp [hC.1]) (by simp [hC'.1])
          apply List.ext_getElem
          · simp [mulVec]
          · intro i hi1 hi2
            have hi : i < D.n := by simpa [mulVec, colloc_length] using hi1
            have hiB : i < (colloc D).length := by rw [colloc_length]; exact hi
            rw [mulVec_getElem _ _ i hiB, mulVec_getElem _ _ i hiB, colloc_getElem D i hi]
            have := h (i :: is) (by simp only [validIdx]; exact ⟨hi, his⟩)
            rw [interp_cons D rest i is S hw his, interp_cons D rest i is S' hw his, getD_of_lt _ _ hi] at this
            exact this
        have hc : c < D.n := by rw [← hC.1]; exact h1
        have := congrArg (fun l : Vec => l.getD c 0) hvec
        simp only [interp] at this ⊢
        rw [getD_of_lt _ c (by simpa using h1), getD_of_lt _ c (by simpa using h2)] at this
        simpa using this
    rw [← flatten_split m D.n S hSl, ← flatten_split m D.n S' hSl', hchunks]

end SparseSpace.Hier
