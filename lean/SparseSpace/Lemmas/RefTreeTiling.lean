import SparseSpace.Lemmas.RefTree
import Mathlib.Algebra.Order.Field.Rat
/-!
# Tilings by intervals (C06): the chain predicate, splitting marked intervals, removal and sort
-/
namespace SparseSpace

/-- `Til a lo b hi objs`: the objects tile `[a, b]` in ascending order without gaps or overlaps, adjacent
objects agree on the level of the shared point, the first point has level `lo`, the last one `hi` -/
def Til : Rat → Nat → Rat → Nat → List Ival → Prop
  | _, _, _, _, [] => False
  | a, lo, b, hi, [x] => x.s = a ∧ x.l0 = lo ∧ x.s < x.e ∧ x.e = b ∧ x.l1 = hi
  | a, lo, b, hi, x :: y :: xs => x.s = a ∧ x.l0 = lo ∧ x.s < x.e ∧ Til x.e x.l1 b hi (y :: xs)

theorem til_cons {a : Rat} {lo : Nat} {b : Rat} {hi : Nat} {x : Ival} {xs : List Ival} :
    Til a lo b hi (x :: xs) ↔
      x.s = a ∧ x.l0 = lo ∧ x.s < x.e ∧ ((xs = [] ∧ x.e = b ∧ x.l1 = hi) ∨ Til x.e x.l1 b hi xs) := by
  cases xs with
  | nil => simp [Til]
  | cons y ys => simp [Til]

theorem til_ne {a : Rat} {lo : Nat} {b : Rat} {hi : Nat} {L : List Ival} (h : Til a lo b hi L) : L ≠ [] := by
  intro e; subst e; exact h

theorem til_append : ∀ (L₁ : List Ival) {L₂ : List Ival} {a : Rat} {lo : Nat} {m : Rat} {lm : Nat} {b : Rat} {hi : Nat},
    Til a lo m lm L₁ → Til m lm b hi L₂ → Til a lo b hi (L₁ ++ L₂)
  | [], _, _, _, _, _, _, _, h, _ => absurd h (by simp [Til])
  | [x], L₂, a, lo, m, lm, b, hi, h₁, h₂ => by
    simp only [Til] at h₁
    obtain ⟨h1, h2, h3, h4, h5⟩ := h₁
    rw [List.singleton_append, til_cons]
    refine ⟨h1, h2, h3, Or.inr ?_⟩
    rw [h4, h5]; exact h₂
  | x :: y :: xs, L₂, a, lo, m, lm, b, hi, h₁, h₂ => by
    simp only [Til] at h₁
    obtain ⟨h1, h2, h3, h4⟩ := h₁
    have ih := til_append (y :: xs) h4 h₂
    simp only [List.cons_append] at ih ⊢
    simp only [Til]
    exact ⟨h1, h2, h3, ih⟩

/-- a tiling splits at every position -/
theorem til_split_append : ∀ (L₁ : List Ival) {L₂ : List Ival} {a : Rat} {lo : Nat} {b : Rat} {hi : Nat},
    L₁ ≠ [] → L₂ ≠ [] → Til a lo b hi (L₁ ++ L₂) →
    ∃ m lm, Til a lo m lm L₁ ∧ Til m lm b hi L₂ ∧ (∀ y ∈ L₁.getLast?, y.e = m ∧ y.l1 = lm)
  | [], _, _, _, _, _, h, _, _ => absurd rfl h
  | [x], L₂, a, lo, b, hi, _, h2, h => by
    rw [List.singleton_append, til_cons] at h
    obtain ⟨h1, h3, h4, h5⟩ := h
    rcases h5 with ⟨e, _⟩ | h5
    · exact absurd e h2
    · exact ⟨x.e, x.l1, ⟨h1, h3, h4, rfl, rfl⟩, h5, by simp⟩
  | x :: y :: xs, L₂, a, lo, b, hi, _, h2, h => by
    simp only [List.cons_append, Til] at h
    obtain ⟨h1, h3, h4, h5⟩ := h
    obtain ⟨m, lm, t₁, t₂, hl⟩ := til_split_append (y :: xs) (by simp) h2 (by simpa using h5)
    refine ⟨m, lm, ?_, t₂, ?_⟩
    · simp only [Til]; exact ⟨h1, h3, h4, t₁⟩
    · simpa using hl

/-- the Boolean check of the driver is the tiling predicate -/
theorem chainOK_til : ∀ (L : List Ival), L ≠ [] → chainOK L = true →
    ∀ x ∈ L.head?, ∀ y ∈ L.getLast?, Til x.s x.l0 y.e y.l1 L
  | [], h, _ => absurd rfl h
  | [x], _, h => by
    intro x' hx y hy
    simp only [List.head?_cons, Option.mem_def, Option.some.injEq] at hx
    simp only [List.getLast?_singleton, Option.mem_def, Option.some.injEq] at hy
    subst hx; subst hy
    simp only [chainOK, decide_eq_true_eq] at h
    exact ⟨rfl, rfl, h, rfl, rfl⟩
  | x :: y :: xs, _, h => by
    intro x' hx y' hy
    simp only [List.head?_cons, Option.mem_def, Option.some.injEq] at hx
    subst hx
    simp only [chainOK, Bool.and_eq_true, decide_eq_true_eq] at h
    obtain ⟨⟨⟨h1, h2⟩, h3⟩, h4⟩ := h
    have ih := chainOK_til (y :: xs) (by simp) h4 y (by simp) y' (by simpa using hy)
    refine ⟨rfl, rfl, h1, ?_⟩
    rw [h2, h3]; exact ih

theorem tilingOK_til (a b : Rat) (L : List Ival) (h : tilingOK a b L = true) : Til a 0 b 0 L := by
  unfold tilingOK at h
  cases hh : L.head? with
  | none => rw [hh] at h; simp at h
  | some x =>
    cases hl : L.getLast? with
    | none => rw [hh, hl] at h; simp at h
    | some y =>
      rw [hh, hl] at h
      simp only [Bool.and_eq_true, decide_eq_true_eq] at h
      obtain ⟨⟨⟨⟨h1, h2⟩, h3⟩, h4⟩, h5⟩ := h
      have hne : L ≠ [] := by intro e; subst e; simp at hh
      have := chainOK_til L hne h5 x (by simp [hh]) y (by simp [hl])
      rw [h1, h2, h3, h4] at this; exact this

theorem til_chainOK : ∀ (L : List Ival) {a : Rat} {lo : Nat} {b : Rat} {hi : Nat}, Til a lo b hi L →
    chainOK L = true ∧ (∀ x ∈ L.head?, x.s = a ∧ x.l0 = lo) ∧ (∀ y ∈ L.getLast?, y.e = b ∧ y.l1 = hi)
  | [], _, _, _, _, h => absurd h (by simp [Til])
  | [x], a, lo, b, hi, h => by
    simp only [Til] at h
    obtain ⟨h1, h2, h3, h4, h5⟩ := h
    refine ⟨by simp [chainOK, h3], ?_, ?_⟩
    · intro x' hx; simp at hx; subst hx; exact ⟨h1, h2⟩
    · intro y' hy; simp at hy; subst hy; exact ⟨h4, h5⟩
  | x :: y :: xs, a, lo, b, hi, h => by
    simp only [Til] at h
    obtain ⟨h1, h2, h3, h4⟩ := h
    obtain ⟨c, hd, hl⟩ := til_chainOK (y :: xs) h4
    have hd' := hd y (by simp)
    refine ⟨?_, ?_, ?_⟩
    · simp only [chainOK, Bool.and_eq_true, decide_eq_true_eq]
      exact ⟨⟨⟨h3, hd'.1.symm⟩, hd'.2.symm⟩, c⟩
    · intro x' hx; simp at hx; subst hx; exact ⟨h1, h2⟩
    · intro y' hy; exact hl y' (by simpa using hy)

theorem til_tilingOK (a b : Rat) (L : List Ival) (h : Til a 0 b 0 L) : tilingOK a b L = true := by
  obtain ⟨c, hd, hl⟩ := til_chainOK L h
  have hne := til_ne h
  unfold tilingOK
  cases hh : L.head? with
  | none => simp [List.head?_eq_none_iff] at hh; exact absurd hh hne
  | some x =>
    cases hl' : L.getLast? with
    | none => simp [List.getLast?_eq_none_iff] at hl'; exact absurd hl' hne
    | some y =>
      have := hd x (by simp [hh]); have := hl y (by simp [hl'])
      simp_all

/-- **the tiling clause of C06, Boolean and propositional form** -/
theorem tilingOK_iff (a b : Rat) (L : List Ival) : tilingOK a b L = true ↔ Til a 0 b 0 L :=
  ⟨tilingOK_til a b L, til_tilingOK a b L⟩

/-! ## inner levels -/

theorem innerLevels_single (x : Ival) : innerLevels [x] = [] := by simp [innerLevels]

theorem innerLevels_cons_cons (x y : Ival) (xs : List Ival) :
    innerLevels (x :: y :: xs) = x.l1 :: innerLevels (y :: xs) := by
  simp [innerLevels, List.dropLast]

theorem innerLevels_append (A : List Ival) {B : List Ival} (hB : B ≠ []) :
    innerLevels (A ++ B) = A.map (·.l1) ++ innerLevels B := by
  induction A with
  | nil => simp
  | cons x xs ih =>
    cases hxs : xs ++ B with
    | nil => simp at hxs; exact absurd hxs.2 hB
    | cons y ys =>
      rw [List.cons_append, hxs, innerLevels_cons_cons, ← hxs, ih]; simp

theorem innerLevels_length {L : List Ival} : (innerLevels L).length = L.length - 1 := by
  simp [innerLevels]

/-! ## splitting the marked intervals -/

/-- the object list in which every object `i` with `P i` is replaced by its two children -/
def splitSel (P : Nat → Bool) : List Ival → List Ival
  | [] => []
  | x :: xs => (if P 0 then x.split else [x]) ++ splitSel (fun i => P (i + 1)) xs

/-- one flag per object -/
def flagsOf (P : Nat → Bool) (n : Nat) : List Bool := (List.range n).map P

theorem flagsOf_succ (P : Nat → Bool) (n : Nat) : flagsOf P (n + 1) = P 0 :: flagsOf (fun i => P (i + 1)) n := by
  simp [flagsOf, List.range_succ_eq_map, List.map_map, Function.comp_def]

theorem flagsOf_length (P : Nat → Bool) (n : Nat) : (flagsOf P n).length = n := by simp [flagsOf]

theorem til_split (x : Ival) (h : x.s < x.e) : Til x.s x.l0 x.e x.l1 x.split := by
  show Til x.s x.l0 x.e x.l1 [⟨x.s, (x.s + x.e) / 2, x.l0, max x.l0 x.l1 + 1, _⟩, ⟨(x.s + x.e) / 2, x.e, max x.l0 x.l1 + 1, x.l1, _⟩]
  refine ⟨rfl, rfl, ?_, rfl, rfl, ?_, rfl, rfl⟩
  · show x.s < (x.s + x.e) / 2
    linarith
  · show (x.s + x.e) / 2 < x.e
    linarith

theorem splitSel_ne (P : Nat → Bool) : ∀ {L : List Ival}, L ≠ [] → splitSel P L ≠ []
  | [], h => absurd rfl h
  | x :: xs, _ => by
    simp only [splitSel]
    by_cases hp : P 0 = true <;> simp [hp, Ival.split]

/-- **splitting any set of intervals keeps the tiling** -/
theorem til_splitSel : ∀ (L : List Ival) (P : Nat → Bool) {a : Rat} {lo : Nat} {b : Rat} {hi : Nat},
    Til a lo b hi L → Til a lo b hi (splitSel P L)
  | [], _, _, _, _, _, h => absurd h (by simp [Til])
  | [x], P, a, lo, b, hi, h => by
    simp only [Til] at h
    obtain ⟨h1, h2, h3, h4, h5⟩ := h
    simp only [splitSel, List.append_nil]
    by_cases hp : P 0 = true
    · simp only [hp, if_true]
      have := til_split x h3
      rw [h1, h2, h4, h5] at this; exact this
    · simp only [hp]
      exact ⟨h1, h2, h3, h4, h5⟩
  | x :: y :: xs, P, a, lo, b, hi, h => by
    simp only [Til] at h
    obtain ⟨h1, h2, h3, h4⟩ := h
    have ih := til_splitSel (y :: xs) (fun i => P (i + 1)) h4
    rw [splitSel]
    by_cases hp : P 0 = true
    · simp only [hp, if_true]
      have := til_split x h3
      rw [h1, h2] at this
      exact til_append _ this ih
    · simp only [hp]
      have : Til a lo x.e x.l1 [x] := ⟨h1, h2, h3, rfl, rfl⟩
      exact til_append _ this ih

/-- the inner levels after splitting are the inner levels before with a new point of level
`max(left, right) + 1` in every marked gap -/
theorem innerLevels_splitSel : ∀ (L : List Ival) (P : Nat → Bool) {a : Rat} {lo : Nat} {b : Rat} {hi : Nat},
    Til a lo b hi L →
    innerLevels (splitSel P L) = insertLevels lo (innerLevels L) hi (flagsOf P L.length)
  | [], _, _, _, _, _, h => absurd h (by simp [Til])
  | [x], P, a, lo, b, hi, h => by
    simp only [Til] at h
    obtain ⟨_, h2, _, _, h5⟩ := h
    simp only [splitSel, List.append_nil, innerLevels_single, List.length_singleton]
    rw [flagsOf_succ]
    by_cases hp : P 0 = true
    · simp [hp, insertLevels, Ival.split, innerLevels, h2, h5]
    · simp [hp, insertLevels, innerLevels]
  | x :: y :: xs, P, a, lo, b, hi, h => by
    simp only [Til] at h
    obtain ⟨_, h2, _, h4⟩ := h
    have ih := innerLevels_splitSel (y :: xs) (fun i => P (i + 1)) h4
    have hne : splitSel (fun i => P (i + 1)) (y :: xs) ≠ [] := splitSel_ne _ (by simp)
    rw [splitSel, innerLevels_append _ hne, ih, innerLevels_cons_cons]
    rw [show (x :: y :: xs).length = (y :: xs).length + 1 from rfl, flagsOf_succ]
    by_cases hp : P 0 = true
    · simp [hp, insertLevels, Ival.split, h2]
    · simp [hp, insertLevels]

/-- **splitting any set of intervals keeps the refinement tree** -/
theorem tree_splitSel (L : List Ival) (P : Nat → Bool) {a : Rat} {lo : Nat} {b : Rat} {hi : Nat}
    (ht : Til a lo b hi L) (hv : Tree (max lo hi) (innerLevels L)) :
    Tree (max lo hi) (innerLevels (splitSel P L)) := by
  rw [innerLevels_splitSel L P ht]
  apply tree_insert hv lo hi _ rfl
  rw [flagsOf_length, innerLevels_length]
  have := til_ne ht
  cases L with
  | nil => exact absurd rfl this
  | cons x xs => simp

/-! ## starts are strictly ascending -/

theorem til_start_lt : ∀ (L : List Ival) {a : Rat} {lo : Nat} {b : Rat} {hi : Nat}, Til a lo b hi L →
    (∀ x ∈ L, a ≤ x.s ∧ x.s < b) ∧ L.Pairwise (fun x y => x.s < y.s)
  | [], _, _, _, _, h => absurd h (by simp [Til])
  | [x], a, lo, b, hi, h => by
    simp only [Til] at h
    obtain ⟨h1, _, h3, h4, _⟩ := h
    refine ⟨?_, by simp⟩
    intro y hy; simp at hy; subst hy
    exact ⟨by rw [h1], by rw [← h4]; exact h3⟩
  | x :: y :: xs, a, lo, b, hi, h => by
    simp only [Til] at h
    obtain ⟨h1, _, h3, h4⟩ := h
    obtain ⟨ih1, ih2⟩ := til_start_lt (y :: xs) h4
    have hxb : x.e ≤ b := by
      have := ih1 y (by simp); linarith [this.1, this.2]
    refine ⟨?_, ?_⟩
    · intro z hz
      rcases List.mem_cons.1 hz with rfl | hz
      · exact ⟨by rw [h1], by linarith⟩
      · have := ih1 z hz; exact ⟨by rw [← h1]; linarith [this.1], this.2⟩
    · rw [List.pairwise_cons]
      exact ⟨fun z hz => by have := ih1 z hz; linarith [this.1], ih2⟩

end SparseSpace
