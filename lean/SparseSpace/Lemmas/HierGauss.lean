import SparseSpace.Lemmas.HierTensor
import Mathlib.Tactic.FieldSimp
/-! Soundness of the exact linear solve `gaussSolve` (model of `numpy.linalg.solve`): whatever it returns solves the
system.  (Completeness — it returns something whenever the matrix is invertible — is not needed by C10's theorems.) -/
namespace SparseSpace.Hier

@[simp] theorem dot_nil_left (b : Vec) : dot [] b = 0 := by simp [dot]
@[simp] theorem dot_nil_right (a : Vec) : dot a [] = 0 := by simp [dot]
@[simp] theorem dot_cons (a b : Rat) (as bs : Vec) : dot (a :: as) (b :: bs) = a * b + dot as bs := by
  simp [dot]

theorem dot_take (r xs : Vec) (n : Nat) (h : xs.length ≤ n) : dot (r.take n) xs = dot r xs := by
  induction xs generalizing r n with
  | nil => simp
  | cons x xs ih =>
    cases r with
    | nil => simp
    | cons a as =>
      cases n with
      | zero => simp at h
      | succ n =>
        simp only [List.take_succ_cons, dot_cons]
        rw [ih as n (by simpa using h)]

theorem dot_append_of_length (r e xs : Vec) (h : xs.length ≤ r.length) : dot (r ++ e) xs = dot r xs := by
  induction xs generalizing r with
  | nil => simp
  | cons x xs ih =>
    cases r with
    | nil => simp at h
    | cons a as =>
      simp only [List.cons_append, dot_cons]
      rw [ih as (by simpa using h)]

theorem dot_zipWith_sub (c : Rat) (u v xs : Vec) (h : u.length = v.length) :
    dot (List.zipWith (fun rj pj => rj - c * pj) u v) xs = dot u xs - c * dot v xs := by
  induction xs generalizing u v with
  | nil => simp
  | cons x xs ih =>
    cases u with
    | nil => cases v with
      | nil => simp
      | cons b bs => simp at h
    | cons a as => cases v with
      | nil => simp at h
      | cons b bs =>
        simp only [List.zipWith_cons_cons, dot_cons]
        rw [ih as bs (by simpa using h)]
        ring

theorem getD_zipWith_sub (c : Rat) (u v : Vec) (n : Nat) (hu : n < u.length) (hv : n < v.length) :
    (List.zipWith (fun rj pj => rj - c * pj) u v).getD n 0 = u.getD n 0 - c * v.getD n 0 := by
  rw [getD_of_lt _ n (by simp; omega), getD_of_lt _ n hu, getD_of_lt _ n hv]
  simp

theorem pickFirst_some {α : Type} (pr : α → Bool) (l : List α) (b : α) (bs : List α)
    (h : pickFirst pr l = some (b, bs)) :
    pr b = true ∧ (∀ x, x ∈ l ↔ x = b ∨ x ∈ bs) ∧ bs.length + 1 = l.length := by
  induction l generalizing b bs with
  | nil => simp [pickFirst] at h
  | cons a as ih =>
    simp only [pickFirst] at h
    split at h
    · rename_i hp
      simp only [Option.some.injEq, Prod.mk.injEq] at h
      obtain ⟨rfl, rfl⟩ := h
      exact ⟨hp, fun x => by simp, by simp⟩
    · split at h
      · rename_i b' bs' hb
        simp only [Option.some.injEq, Prod.mk.injEq] at h
        obtain ⟨rfl, rfl⟩ := h
        obtain ⟨h1, h2, h3⟩ := ih _ _ hb
        refine ⟨h1, ?_, by simp [h3]⟩
        intro x
        simp only [List.mem_cons, h2 x]
        tauto
      · cases h

/-- soundness of the elimination on a square augmented system -/
theorem gauss_sound (n : Nat) (rows : List (List Rat)) (xs : Vec)
    (hlen : rows.length = n) (hrow : ∀ r ∈ rows, r.length = n + 1) (h : gauss n rows = some xs) :
    xs.length = n ∧ ∀ r ∈ rows, dot r xs = r.getD n 0 := by
  induction n generalizing rows xs with
  | zero =>
    simp only [gauss, Option.some.injEq] at h
    subst h
    have : rows = [] := List.eq_nil_of_length_eq_zero hlen
    subst this
    simp
  | succ n ih =>
    simp only [gauss] at h
    split at h
    · cases h
    · rename_i piv others hpick
      obtain ⟨hp, hmem, hl⟩ := pickFirst_some _ _ _ _ hpick
      split at h
      · cases h
      · rename_i ys hys
        simp only [Option.some.injEq] at h
        subst h
        have hpivlen : piv.length = n + 2 := hrow piv ((hmem piv).2 (Or.inl rfl))
        obtain ⟨a, pt, rfl⟩ : ∃ a pt, piv = a :: pt := by
          cases piv with
          | nil => simp at hpivlen
          | cons a pt => exact ⟨a, pt, rfl⟩
        have hptlen : pt.length = n + 1 := by simpa using hpivlen
        have ha : a ≠ 0 := by simpa using hp
        simp only [List.headD_cons, List.tail_cons] at hys ⊢
        -- induction hypothesis on the reduced system
        have hredlen : (others.map fun r =>
            List.zipWith (fun rj pj => rj - r.headD 0 / a * pj) r.tail pt).length = n := by
          simp only [List.length_map]; omega
        have hredrow : ∀ r' ∈ (others.map fun r =>
            List.zipWith (fun rj pj => rj - r.headD 0 / a * pj) r.tail pt), r'.length = n + 1 := by
          intro r' hr'
          simp only [List.mem_map] at hr'
          obtain ⟨r, hr, rfl⟩ := hr'
          have := hrow r ((hmem r).2 (Or.inr hr))
          simp only [List.length_zipWith, List.length_tail, this, hptlen]
          omega
        obtain ⟨hyl, hsol⟩ := ih _ ys hredlen hredrow hys
        refine ⟨by simp [hyl], ?_⟩
        have hcoef : dot (pt.take n) ys = dot pt ys := dot_take pt ys n (by omega)
        intro r hr
        rcases (hmem r).1 hr with rfl | hr'
        · -- the pivot equation
          simp only [dot_cons, List.getD_cons_succ, hcoef]
          field_simp
          ring
        · -- an eliminated equation
          have hrl := hrow r hr
          obtain ⟨r0, rt, rfl⟩ : ∃ r0 rt, r = r0 :: rt := by
            cases r with
            | nil => simp at hrl
            | cons r0 rt => exact ⟨r0, rt, rfl⟩
          have hrtl : rt.length = n + 1 := by simpa using hrl
          have := hsol _ (List.mem_map.2 ⟨r0 :: rt, hr', rfl⟩)
          simp only [List.headD_cons, List.tail_cons] at this
          rw [dot_zipWith_sub _ _ _ _ (by rw [hrtl, hptlen]),
            getD_zipWith_sub _ _ _ n (by omega) (by omega)] at this
          simp only [dot_cons, List.getD_cons_succ, hcoef]
          have e : dot rt ys = rt.getD n 0 - r0 / a * pt.getD n 0 + r0 / a * dot pt ys := by linarith
          rw [e]
          field_simp
          ring

theorem gaussSolve_sound : SolverSound gaussSolve := by
  intro B v α h
  unfold gaussSolve at h
  split at h
  · rename_i hc
    simp only [Bool.and_eq_true, beq_iff_eq, List.all_eq_true] at hc
    obtain ⟨hB, hrows⟩ := hc
    have hlen : (List.zipWith (fun r b => r ++ [b]) B v).length = v.length := by
      simp [hB]
    have hrow : ∀ r ∈ List.zipWith (fun r b => r ++ [b]) B v, r.length = v.length + 1 := by
      intro r hr
      obtain ⟨i, hi, rfl⟩ := List.getElem_of_mem hr
      simp only [List.getElem_zipWith, List.length_append, List.length_cons, List.length_nil]
      have hi' : i < B.length := by simp at hi; omega
      rw [hrows _ (List.getElem_mem hi')]
    obtain ⟨hl, hs⟩ := gauss_sound _ _ _ hlen hrow h
    refine ⟨hl, ?_⟩
    apply List.ext_getElem
    · simp [mulVec, hB]
    · intro i h1 h2
      have hiB : i < B.length := by simpa [mulVec] using h1
      have hiz : i < (List.zipWith (fun r b => r ++ [b]) B v).length := by rw [hlen]; exact h2
      have := hs _ (List.getElem_mem hiz)
      simp only [List.getElem_zipWith] at this
      have hBi : (B[i]).length = v.length := hrows _ (List.getElem_mem hiB)
      rw [dot_append_of_length _ _ _ (by rw [hl, hBi])] at this
      rw [mulVec_getElem B α i hiB, this]
      simp [List.getD_eq_getElem?_getD, ← hBi]
  · cases h

end SparseSpace.Hier
