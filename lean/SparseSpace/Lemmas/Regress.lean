import SparseSpace.Model.Regress
import Mathlib.Tactic.Ring
import Mathlib.Tactic.FieldSimp
import Mathlib.Tactic.Linarith
import Mathlib.Tactic.NormNum
import Mathlib.Tactic.Positivity
import Mathlib.Algebra.Order.Field.Rat
import Mathlib.Algebra.Order.AbsoluteValue.Basic
/-!
# Lemmas about `Model/Regress`, part 1: the code's scalar expressions, hat functions, entries of `C`
-/
namespace SparseSpace.Regress

/-! ## scalar helpers -/

theorem absR_eq_abs (x : ℚ) : absR x = |x| := by
  unfold absR
  split
  · rename_i h; rw [abs_of_neg h]
  · rename_i h; rw [abs_of_nonneg (not_lt.mp h)]

theorem pow2_pos (l : Nat) : 0 < pow2 l := by unfold pow2; positivity

theorem pow2_ne (l : Nat) : pow2 l ≠ 0 := (pow2_pos l).ne'

/-- mesh width of level `l` -/
def meshW (l : Nat) : ℚ := 1 / pow2 l

theorem meshW_pos (l : Nat) : 0 < meshW l := by unfold meshW; exact one_div_pos.mpr (pow2_pos l)

/-! ## the uniform expressions of `build_C_matrix` are the 1-D stiffness / mass integrals of mesh width `h = 2^-l` -/

theorem uniform_stiff_diag (l : Nat) : pow2 (l + 1) = 2 / meshW l := by
  unfold meshW pow2; have := pow2_ne l; unfold pow2 at this; field_simp; ring

theorem uniform_stiff_off (l : Nat) : -(pow2 l) = -1 / meshW l := by
  unfold meshW; have := pow2_ne l; field_simp

theorem uniform_mass_diag (l : Nat) : 1 / (pow2 l / 2 * 3) = 2 * meshW l / 3 := by
  unfold meshW; have := pow2_ne l; field_simp

theorem uniform_mass_off (l : Nat) : 1 / (pow2 l / 2 * 12) = meshW l / 6 := by
  unfold meshW; have := pow2_ne l; field_simp; ring

/-! ## the non-uniform expressions of `build_C_matrix_dimension_wise` -/

/-- `b1*m1**2 + b2*m2**2` with `m = 1/b` is `1/h_left + 1/h_right` -/
theorem nonuniform_stiff_diag (b1 b2 : ℚ) (h1 : b1 ≠ 0) (h2 : b2 ≠ 0) :
    b1 * (1 / b1) ^ 2 + b2 * (1 / b2) ^ 2 = 1 / b1 + 1 / b2 := by
  field_simp

/-- `-(m*m*b)` with `m = 1/b` is `-1/h` -/
theorem nonuniform_stiff_off (b : ℚ) (h : b ≠ 0) : negMMB (1 / b) b = -1 / b := by
  unfold negMMB; field_simp

/-- `integral_calc(b, m, a, b) - integral_calc(a, m, a, b)` with `m = 1/(b-a)` is `∫ φ_a φ_b = (b-a)/6` -/
theorem nonuniform_mass_off (a b : ℚ) (h : a < b) :
    integralCalc b (1 / (b - a)) a b - integralCalc a (1 / (b - a)) a b = (b - a) / 6 := by
  have : b - a ≠ 0 := by linarith
  unfold integralCalc; field_simp; ring

/-- the two one-sided integrals: `∫ φ_p² = (p-a)/3 + (c-p)/3` -/
theorem nonuniform_mass_diag (a p c : ℚ) (h1 : a < p) (h2 : p < c) :
    (integral1 p (1 / (p - a)) p - integral1 a (1 / (p - a)) p)
      + (integral2 c (1 / (c - p)) p - integral2 p (1 / (c - p)) p) = (p - a) / 3 + (c - p) / 3 := by
  have : p - a ≠ 0 := by linarith
  have : c - p ≠ 0 := by linarith
  unfold integral1 integral2; field_simp; ring

/-! ## hat functions -/

/-- the nodal piecewise-linear basis function of the node `p` with neighbours `lo < p < up` -/
def hatSpec (lo p up x : ℚ) : ℚ :=
  if x ≤ lo ∨ up ≤ x then 0 else if x ≤ p then (x - lo) / (p - lo) else (up - x) / (up - p)

/-- `hat_function_non_symmetric_completely_vectorized` computes the nodal hat function -/
theorem hatNU_eq_spec (lo p up x : ℚ) (h1 : lo < p) (h2 : p < up) :
    hatNU (lo, p, up) x = hatSpec lo p up x := by
  have hup : up - p ≠ 0 := by linarith
  have hlo : p - lo ≠ 0 := by linarith
  have hupp : 0 < up - p := by linarith
  have hlop : 0 < p - lo := by linarith
  have e1 : 1 - (x - p) / (up - p) = (up - x) / (up - p) := by field_simp; ring
  have e2 : 1 - (p - x) / (p - lo) = (x - lo) / (p - lo) := by field_simp; ring
  unfold hatNU hatSpec clipUp clipLo
  simp only [e1, e2]
  rw [if_neg (ne_of_gt h2), if_neg (ne_of_lt h1)]
  have d1 : (up - x) / (up - p) > 1 ↔ x < p := by
    rw [gt_iff_lt, lt_div_iff₀ hupp]; constructor <;> intro h <;> linarith
  have d2 : (up - x) / (up - p) < 0 ↔ up < x := by
    rw [div_lt_iff₀ hupp]; constructor <;> intro h <;> linarith
  have d3 : (x - lo) / (p - lo) ≥ 1 ↔ p ≤ x := by
    rw [ge_iff_le, le_div_iff₀ hlop]; constructor <;> intro h <;> linarith
  have d4 : (x - lo) / (p - lo) < 0 ↔ x < lo := by
    rw [div_lt_iff₀ hlop]; constructor <;> intro h <;> linarith
  simp only [d1, d2, d3, d4]
  by_cases c1 : x ≤ lo
  · have : x < p := by linarith
    have : ¬ p ≤ x := by linarith
    rcases lt_or_eq_of_le c1 with c | c
    · simp [*]
    · subst c; simp [*]
  · have c1' : lo < x := not_le.mp c1
    by_cases c2 : up ≤ x
    · have : ¬ x < p := by linarith
      have : p ≤ x := by linarith
      rcases lt_or_eq_of_le c2 with c | c
      · simp [*]
      · subst c; simp [*]
    · have c2' : x < up := not_le.mp c2
      have n1 : ¬ up < x := by linarith
      have n2 : ¬ x < lo := by linarith
      rcases lt_trichotomy x p with c | c | c
      · have : ¬ p ≤ x := by linarith
        have : x ≤ p := le_of_lt c
        simp [*]
      · subst c; simp [*]
      · have : ¬ x < p := by linarith
        have : p ≤ x := le_of_lt c
        have : ¬ x ≤ p := by linarith
        simp [*]

/-- `max(1 - |2^l x - i|, 0)` is the nodal hat function of the node `i·2^-l` on the mesh of width `2^-l` -/
theorem hatU_eq_spec (l : Nat) (i : Int) (x : ℚ) :
    hatU l i x = hatSpec (((i : ℚ) - 1) * meshW l) ((i : ℚ) * meshW l) (((i : ℚ) + 1) * meshW l) x := by
  have hp := pow2_pos l
  have hne := pow2_ne l
  have hw : meshW l = 1 / pow2 l := rfl
  unfold hatU hatSpec
  simp only [absR_eq_abs]
  have e1 : ((i : ℚ) * meshW l - ((i : ℚ) - 1) * meshW l) = meshW l := by ring
  have e2 : (((i : ℚ) + 1) * meshW l - (i : ℚ) * meshW l) = meshW l := by ring
  rw [e1, e2]
  set t := pow2 l * x - (i : ℚ) with ht
  have hx : x = (t + i) * meshW l := by rw [hw, ht]; field_simp; ring
  have c1 : x ≤ ((i : ℚ) - 1) * meshW l ↔ t ≤ -1 := by
    rw [hx]; constructor
    · intro h; have := (mul_le_mul_iff_of_pos_right (meshW_pos l)).mp h; linarith
    · intro h; exact (mul_le_mul_iff_of_pos_right (meshW_pos l)).mpr (by linarith)
  have c2 : ((i : ℚ) + 1) * meshW l ≤ x ↔ 1 ≤ t := by
    rw [hx]; constructor
    · intro h; have := (mul_le_mul_iff_of_pos_right (meshW_pos l)).mp h; linarith
    · intro h; exact (mul_le_mul_iff_of_pos_right (meshW_pos l)).mpr (by linarith)
  have c3 : x ≤ (i : ℚ) * meshW l ↔ t ≤ 0 := by
    rw [hx]; constructor
    · intro h; have := (mul_le_mul_iff_of_pos_right (meshW_pos l)).mp h; linarith
    · intro h; exact (mul_le_mul_iff_of_pos_right (meshW_pos l)).mpr (by linarith)
  have v1 : (x - ((i : ℚ) - 1) * meshW l) / meshW l = 1 + t := by
    rw [hx]; have := (meshW_pos l).ne'; field_simp; ring
  have v2 : (((i : ℚ) + 1) * meshW l - x) / meshW l = 1 - t := by
    rw [hx]; have := (meshW_pos l).ne'; field_simp; ring
  simp only [c1, c2, c3, v1, v2]
  clear hx c1 c2 c3 v1 v2 e1 e2 hw
  clear_value t
  clear ht
  by_cases a1 : t ≤ -1
  · have : |t| = -t := abs_of_nonpos (by linarith)
    rw [this]
    rcases lt_or_eq_of_le a1 with c | c
    · have : (1 : ℚ) - -t < 0 := by linarith
      simp [*]
      intro h; linarith
    · rw [c]; simp
  · have a1' : -1 < t := not_le.mp a1
    by_cases a2 : 1 ≤ t
    · have : |t| = t := abs_of_nonneg (by linarith)
      rw [this]
      rcases lt_or_eq_of_le a2 with c | c
      · have : (1 : ℚ) - t < 0 := by linarith
        simp [*]
      · rw [← c]; simp
    · have a2' : t < 1 := not_le.mp a2
      by_cases a3 : t ≤ 0
      · have : |t| = -t := abs_of_nonpos a3
        rw [this]
        have : ¬ ((1 : ℚ) - -t < 0) := by linarith
        simp [*]
        intro h; linarith
      · have : |t| = t := abs_of_nonneg (by linarith)
        rw [this]
        have : ¬ ((1 : ℚ) - t < 0) := by linarith
        simp [*]

end SparseSpace.Regress
