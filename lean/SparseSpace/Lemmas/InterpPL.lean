import SparseSpace.Lemmas.InterpGrid
/-!
# Piecewise-linear functions on the level grids, and tensor products

* `PLk a b k u` : `u` is affine on every cell of the level-`k` grid of `[a,b]` (the 1-D space `V_k`)
* `PLk_mono`    : `V_k ⊆ V_l` for `k ≤ l`
* `interp1_PL`  : level-`l` interpolation reproduces `u ∈ V_k`, `k ≤ l`, on `[a,b]`
* `interpN_tprod` : the tensor interpolant of a product function is the product of the 1-D interpolants
-/
namespace SparseSpace

/-- `g` is affine on `[y, y']` -/
def AffOn (g : Rat → Rat) (y y' : Rat) : Prop := ∃ α β : Rat, ∀ t, y ≤ t → t ≤ y' → g t = α * t + β

theorem AffOn.sub {g : Rat → Rat} {y y' z z' : Rat} (h : AffOn g y y') (h1 : y ≤ z) (h2 : z' ≤ y') : AffOn g z z' := by
  obtain ⟨α, β, hg⟩ := h
  exact ⟨α, β, fun t ht1 ht2 => hg t (le_trans h1 ht1) (le_trans ht2 h2)⟩

/-- the 1-D piecewise-linear space of level `k`: affine on every cell `[x_i, x_{i+1}]` of the level-`k` grid -/
def PLk (a b : Rat) (k : Nat) (u : Rat → Rat) : Prop :=
  ∀ i, i < 2 ^ k → AffOn u (linPt a b (2 ^ k) i) (linPt a b (2 ^ k) (i + 1))

theorem linPt_le (a b : Rat) (hab : a < b) (n : Nat) (hn : 0 < n) {i j : Nat} (h : i ≤ j) :
    linPt a b n i ≤ linPt a b n j := by
  rcases Nat.lt_or_ge i j with h' | h'
  · exact le_of_lt (linPt_lt a b hab n hn h')
  · have : i = j := by omega
    rw [this]

/-- `V_k ⊆ V_l` for `k ≤ l` (every cell of the finer grid lies in a cell of the coarser one) -/
theorem PLk_mono (a b : Rat) (hab : a < b) {k l : Nat} (hkl : k ≤ l) {u : Rat → Rat} (h : PLk a b k u) : PLk a b l u := by
  obtain ⟨m, rfl⟩ : ∃ m, l = k + m := ⟨l - k, by omega⟩
  intro j hj
  have hm : 0 < 2 ^ m := Nat.pos_of_ne_zero (by positivity)
  have hi : j / 2 ^ m < 2 ^ k := by
    rw [Nat.div_lt_iff_lt_mul hm, ← pow_add]; exact hj
  have hcell := h (j / 2 ^ m) hi
  rw [← linPt_refine a b k m, ← linPt_refine a b k m] at hcell
  have hn : 0 < 2 ^ (k + m) := Nat.pos_of_ne_zero (by positivity)
  apply hcell.sub
  · apply linPt_le a b hab _ hn
    exact Nat.div_mul_le_self j (2 ^ m)
  · apply linPt_le a b hab _ hn
    have := Nat.lt_div_mul_add (a := j) hm
    have h2 : (j / 2 ^ m + 1) * 2 ^ m = j / 2 ^ m * 2 ^ m + 2 ^ m := by ring
    omega

/-- the full node list `x_0, …, x_n` of a level, written with `List.range'` -/
def fullAxis (a b : Rat) (l : Nat) : List Rat := (List.range' 0 (2 ^ l + 1)).map (linPt a b (2 ^ l))

theorem meshAxis_eq_fullAxis (a b : Rat) (l : Nat) (bd : Bool) : meshAxis a b l bd = fullAxis a b l := by
  have hn : 0 < 2 ^ l := Nat.pos_of_ne_zero (by positivity)
  unfold meshAxis fullAxis levelPoints levelIdx
  cases bd
  · simp only [Bool.false_eq_true, if_false]
    obtain ⟨n, hn'⟩ : ∃ n, 2 ^ l = n + 1 := ⟨2 ^ l - 1, by omega⟩
    rw [hn']
    have h1 : List.range' 0 (n + 1 + 1) = 0 :: ((List.range n).map (· + 1) ++ [n + 1]) := by
      rw [List.range'_succ, List.range'_concat, List.range'_eq_map_range]
      simp [Nat.add_comm]
    rw [h1]
    simp only [Nat.add_sub_cancel, List.map_cons, List.map_append, List.map_map, List.map_nil]
    rw [← hn', linPt_zero, linPt_last a b _ hn]
  · simp only [if_true]
    rw [List.range_eq_range']

/-- linear interpolation on consecutive nodes `p s, …, p (s+n)` reproduces a function that is affine on every
cell, everywhere on `[p s, p (s+n)]` -/
theorem interp1_range' (p : Nat → Rat) (hp : ∀ i, p i < p (i + 1)) (g : Rat → Rat) :
    ∀ (n s : Nat), (∀ i, s ≤ i → i < s + n → AffOn g (p i) (p (i + 1))) →
      ∀ t, p s ≤ t → t ≤ p (s + n) → interp1 ((List.range' s (n + 1)).map p) g t = g t
  | 0, s, _, t, h1, h2 => by
      have : t = p s := le_antisymm h2 h1
      simp [List.range', interp1, this]
  | n + 1, s, haff, t, h1, h2 => by
      have hlist : (List.range' s (n + 1 + 1)).map p = p s :: p (s + 1) :: (List.range' (s + 2) n).map p := by
        simp [List.range'_succ]
      rw [hlist]
      unfold interp1
      by_cases ht : t ≤ p (s + 1)
      · simp only [ht, decide_true, Bool.true_or, if_true]
        obtain ⟨α, β, hg⟩ := haff s (le_refl _) (by omega)
        have hne : p (s + 1) - p s ≠ 0 := by have := hp s; linarith
        rw [hg t h1 ht, hg (p s) (le_refl _) (le_of_lt (hp s)), hg (p (s + 1)) (le_of_lt (hp s)) (le_refl _)]
        field_simp
        ring
      · have hn : n ≠ 0 := by
          intro h0
          subst h0
          exact ht h2
        have hne : ((List.range' (s + 2) n).map p).isEmpty = false := by
          cases n with
          | zero => exact absurd rfl hn
          | succ n => simp [List.range'_succ]
        simp only [ht, decide_false, hne, Bool.or_self, Bool.false_eq_true, if_false]
        have hlist' : p (s + 1) :: (List.range' (s + 2) n).map p = (List.range' (s + 1) (n + 1)).map p := by
          simp [List.range'_succ]
        rw [hlist']
        apply interp1_range' p hp g n (s + 1)
        · intro i hi1 hi2; exact haff i (by omega) (by omega)
        · exact le_of_lt (not_le.1 ht)
        · have : s + 1 + n = s + (n + 1) := by omega
          rw [this]; exact h2

/-- **level-`l` interpolation reproduces `V_k`, `k ≤ l`**, on `[a,b]` (with or without boundary points: the mesh
is the full node list in both cases) -/
theorem interp1_PL (a b : Rat) (hab : a < b) {k l : Nat} (hkl : k ≤ l) (bd : Bool) {u : Rat → Rat}
    (hu : PLk a b k u) (t : Rat) (h1 : a ≤ t) (h2 : t ≤ b) : interp1 (meshAxis a b l bd) u t = u t := by
  have hn : 0 < 2 ^ l := Nat.pos_of_ne_zero (by positivity)
  rw [meshAxis_eq_fullAxis]
  unfold fullAxis
  apply interp1_range' (linPt a b (2 ^ l)) (fun i => linPt_lt a b hab _ hn (Nat.lt_succ_self i)) u (2 ^ l) 0
  · intro i _ hi
    exact PLk_mono a b hab hkl hu i (by omega)
  · rw [linPt_zero]; exact h1
  · rw [Nat.zero_add, linPt_last a b _ hn]; exact h2

/-! ## tensor products -/

/-- `(u_1 ⊗ … ⊗ u_d)(x) = Π u_i(x_i)` -/
def tprod : List (Rat → Rat) → List Rat → Rat
  | [], [] => 1
  | u :: us, x :: xs => u x * tprod us xs
  | _, _ => 0

/-- the product of the 1-D interpolants -/
def interpProd : List (List Rat) → List (Rat → Rat) → List Rat → Rat
  | [], [], [] => 1
  | ns :: rest, u :: us, x :: xs => interp1 ns u x * interpProd rest us xs
  | _, _, _ => 0

/-- the tensor interpolant of a product function is the product of the 1-D interpolants -/
theorem interpN_tprod : ∀ (mesh : List (List Rat)) (us : List (Rat → Rat)) (x : List Rat),
    mesh.length = x.length → us.length = x.length →
    interpN mesh (tprod us) x = interpProd mesh us x
  | [], [], [], _, _ => rfl
  | ns :: rest, u :: us, x :: xs, hm, hu => by
      unfold interpN interpProd
      have h1 : (fun t => interpN rest (fun y => tprod (u :: us) (t :: y)) xs)
          = fun t => interpN rest (tprod us) xs * u t := by
        funext t
        have : (fun y => tprod (u :: us) (t :: y)) = fun y => u t * tprod us y := by
          funext y; rfl
        rw [this, interpN_smul]; ring
      rw [h1]
      rw [interp1_smul, interpN_tprod rest us xs (by simpa using hm) (by simpa using hu)]
      ring
  | [], _ :: _, [], _, hu => by simp at hu
  | [], _, _ :: _, hm, _ => by simp at hm
  | _ :: _, _, [], hm, _ => by simp at hm
  | _ :: _, [], _ :: _, _, hu => by simp at hu

end SparseSpace
