import SparseSpace.Lemmas.DimWiseGenMain
import SparseSpace.Lemmas.CombiGenMain
import SparseSpace.Lemmas.DimWiseStep
/-!
# Translator tie for the dimension-wise strategy, part 6: `update_coarsening_values` and `raise_lmax`

`raise_lmax` works on `self.combischeme`, an object of the class translated in `Generated/CombiGen.lean`; its agreement
with the hand model's `raiseLoop` uses the C01 tie (`gen_update`) and the scheme invariant (all indices have `dim` entries).
-/
namespace SparseSpace
open SparseSpace.PyRt

/-! ### `update_coarsening_values` -/

theorem maxList_levels (x : Ival) : PyRt.maxList (toObj x).levels = ((max x.l0 x.l1 : Nat) : Int) := by
  simp [toObj, PyRt.maxList]

theorem gen_coarsening_loop (lm : Int) : ∀ (objs : List Ival) (u : Int) (acc : List GenDW.RefinementObjectSingleDimension),
    List.foldl (fun (st : Int × List GenDW.RefinementObjectSingleDimension) (o : GenDW.RefinementObjectSingleDimension) =>
        if decide (lm - PyRt.maxList o.levels < st.1) = true
        then (lm - PyRt.maxList o.levels, st.2 ++ [{ o with coarsening_level := lm - PyRt.maxList o.levels }])
        else (st.1, st.2 ++ [{ o with coarsening_level := lm - PyRt.maxList o.levels }])) (u, acc) (objs.map toObj)
      = ((setCoarsening lm objs).foldl (fun u x => if x.c < u then x.c else u) u,
         acc ++ (setCoarsening lm objs).map toObj)
  | [], u, acc => by simp [setCoarsening]
  | x :: objs, u, acc => by
    simp only [List.map_cons, List.foldl_cons, setCoarsening, maxList_levels]
    have ih := gen_coarsening_loop lm objs
    simp only [setCoarsening] at ih
    by_cases h : lm - ((max x.l0 x.l1 : Nat) : Int) < u
    · simp only [h, decide_true, if_true]
      rw [ih]
      simp [toObj, List.append_assoc]
    · simp only [h, decide_false, Bool.false_eq_true, if_false]
      rw [ih]
      simp [toObj, List.append_assoc]

/-- **`update_coarsening_values`**: the container with the coarsening levels written (`setCoarsening`) and the amount by
which `lmax[d]` has to be raised (`updateDim`), for every interval list -/
theorem gen_update_coarsening (g : GenDW.State) (objs : List Ival) (d : Nat) :
    GenDW.update_coarsening_values g (toCont objs) (Int.ofNat d)
      = (toCont (setCoarsening (g.lmax.getD d 0) objs), updateDim (setCoarsening (g.lmax.getD d 0) objs)) := by
  unfold GenDW.update_coarsening_values
  simp only [getItem_ofNat, toCont]
  have h := gen_coarsening_loop (g.lmax.getD d 0) objs 0 []
  simp only [List.nil_append] at h
  refine Eq.trans ?_ (congrArg (fun p : Int × List GenDW.RefinementObjectSingleDimension =>
    (({ get_objects := p.2 } : GenDW.RefinementContainer), p.1 * (-1 : Int))) h) |>.trans ?_
  · rfl
  · simp [updateDim]

/-! ### `raise_lmax` -/

theorem all_congr_mem {α : Type} (f g : α → Bool) : ∀ l : List α, (∀ x ∈ l, f x = g x) → l.all f = l.all g
  | [], _ => rfl
  | x :: l, h => by
    simp only [List.all_cons, h x (by simp), all_congr_mem f g l (fun y hy => h y (by simp [hy]))]

/-- the generated refinement test of `raise_lmax` is the hand model's `raiseCond` when `lmax` and the index have
(at least) `dim` entries -/
theorem gen_raiseCond (lmax : List Int) (lmin : Int) (n : Nat) (idx : LV) (h1 : n ≤ lmax.length) (h2 : n ≤ idx.length) :
    (decide (PyRt.maxList lmax + lmin * ((Int.ofNat n) - 1) > PyRt.sum idx) &&
      PyRt.all (List.map (fun (d : Int) => decide (getItem lmax d > getItem idx d)) (PyRt.range (Int.ofNat n))))
      = raiseCond lmax lmin n idx := by
  unfold raiseCond
  congr 1
  unfold PyRt.all
  rw [range_eq, List.map_map, List.all_map]
  have e : (Int.ofNat n).toNat = n := rfl
  rw [e]
  apply all_congr_mem
  intro d hd
  have hd' := List.mem_range.mp hd
  have a1 : lmax[d]? = some (lmax.getD d 0) := by
    rw [List.getD_eq_getElem?_getD, List.getElem?_eq_getElem (by omega)]; rfl
  have a2 : idx[d]? = some (idx.getD d 0) := by
    rw [List.getD_eq_getElem?_getD, List.getElem?_eq_getElem (by omega)]; rfl
  simp only [Function.comp, id, getItem_ofNat, a1, a2]

/-- the generated state with the scheme object replaced -/
def withScheme (g : GenDW.State) (c : Gen.CombiScheme) : GenDW.State := { g with combischeme := c }

/-- one pass over a snapshot of the active set, in lock-step with the hand model's `raisePass` fold -/
theorem gen_raise_pass (g : GenDW.State) (n : Nat) (hdim : g.dim = Int.ofNat n) (hl : n ≤ g.lmax.length) :
    ∀ (idxs : List LV) (c : Gen.CombiScheme) (r : Nat), (∀ idx ∈ idxs, n ≤ idx.length) →
    List.foldl (fun (st : GenDW.State × Int) (index : List Int) =>
        if (decide (PyRt.maxList st.1.lmax + getItem st.1.lmin 0 * (st.1.dim - 1) > PyRt.sum index) &&
            PyRt.all (List.map (fun (d : Int) => decide (getItem st.1.lmax d > getItem index d)) (PyRt.range st.1.dim))) = true
        then ({ st.1 with combischeme := (Gen.update_adaptive_combi st.1.combischeme index).1 }, st.2 + 1)
        else (st.1, st.2)) (withScheme g c, (r : Int)) idxs
      = (withScheme g (withCS c (List.foldl (fun (acc : CS × Nat) idx =>
            if raiseCond g.lmax (getItem g.lmin 0) n idx then ((acc.1.update idx).1, acc.2 + 1) else acc) (toCS c, r) idxs).1),
         ((List.foldl (fun (acc : CS × Nat) idx =>
            if raiseCond g.lmax (getItem g.lmin 0) n idx then ((acc.1.update idx).1, acc.2 + 1) else acc) (toCS c, r) idxs).2 : Int))
  | [], c, r, _ => by simp [withScheme]
  | idx :: idxs, c, r, h => by
    have hlen : n ≤ idx.length := h idx (by simp)
    simp only [List.foldl_cons]
    have hc := gen_raiseCond g.lmax (getItem g.lmin 0) n idx hl hlen
    have hcond : (decide (PyRt.maxList (withScheme g c).lmax + getItem (withScheme g c).lmin 0 * ((withScheme g c).dim - 1) > PyRt.sum idx) &&
        PyRt.all (List.map (fun (d : Int) => decide (getItem (withScheme g c).lmax d > getItem idx d)) (PyRt.range (withScheme g c).dim)))
        = raiseCond g.lmax (getItem g.lmin 0) n idx := by
      simp only [withScheme, hdim]; exact hc
    rw [hcond]
    cases hb : raiseCond g.lmax (getItem g.lmin 0) n idx
    · simp only [Bool.false_eq_true, if_false]
      exact gen_raise_pass g n hdim hl idxs c r (fun i hi => h i (by simp [hi]))
    · simp only [if_true]
      have ih := gen_raise_pass g n hdim hl idxs (Gen.update_adaptive_combi c idx).1 (r + 1) (fun i hi => h i (by simp [hi]))
      have e1 : ({ withScheme g c with combischeme := (Gen.update_adaptive_combi (withScheme g c).combischeme idx).1 } : GenDW.State)
          = withScheme g (Gen.update_adaptive_combi c idx).1 := rfl
      have e2 : ((r : Int) + 1) = ((r + 1 : Nat) : Int) := by push_cast; rfl
      rw [e1, e2, ih, toCS_update]
      have e3 : withCS (Gen.update_adaptive_combi c idx).1 = withCS c := by
        funext s; rw [gen_update]; rfl
      rw [e3]

theorem raisePass_keeps (lmax : List Int) (lmin : Int) (cs : CS) (h : SchemeInv cs) :
    SchemeInv (raisePass lmax lmin cs).1 ∧ (raisePass lmax lmin cs).1.dim = cs.dim := by
  rw [raisePass_runOps]
  exact ⟨inv_runOps _ _ h, runOps_dim _ _⟩

/-- one round of the generated `while True` loop of `raise_lmax` -/
def stepRaise (self : GenDW.State) : Bool × GenDW.State :=
  if ((List.foldl (fun (st : GenDW.State × Int) (index : List Int) =>
        if (decide (PyRt.maxList st.1.lmax + getItem st.1.lmin 0 * (st.1.dim - 1) > PyRt.sum index) &&
            PyRt.all (List.map (fun (d : Int) => decide (getItem st.1.lmax d > getItem index d)) (PyRt.range st.1.dim))) = true
        then ({ st.1 with combischeme := (Gen.update_adaptive_combi st.1.combischeme index).1 }, st.2 + 1)
        else (st.1, st.2)) (self, (0 : Int)) (Gen.get_active_indices self.combischeme)).2 == 0) = true
  then (false, (List.foldl (fun (st : GenDW.State × Int) (index : List Int) =>
        if (decide (PyRt.maxList st.1.lmax + getItem st.1.lmin 0 * (st.1.dim - 1) > PyRt.sum index) &&
            PyRt.all (List.map (fun (d : Int) => decide (getItem st.1.lmax d > getItem index d)) (PyRt.range st.1.dim))) = true
        then ({ st.1 with combischeme := (Gen.update_adaptive_combi st.1.combischeme index).1 }, st.2 + 1)
        else (st.1, st.2)) (self, (0 : Int)) (Gen.get_active_indices self.combischeme)).1)
  else (true, (List.foldl (fun (st : GenDW.State × Int) (index : List Int) =>
        if (decide (PyRt.maxList st.1.lmax + getItem st.1.lmin 0 * (st.1.dim - 1) > PyRt.sum index) &&
            PyRt.all (List.map (fun (d : Int) => decide (getItem st.1.lmax d > getItem index d)) (PyRt.range st.1.dim))) = true
        then ({ st.1 with combischeme := (Gen.update_adaptive_combi st.1.combischeme index).1 }, st.2 + 1)
        else (st.1, st.2)) (self, (0 : Int)) (Gen.get_active_indices self.combischeme)).1)

/-- the generated loop in lock-step with the hand model's `raiseLoop`, for every fuel, in every scheme state satisfying
the C01 invariant -/
theorem gen_raise_loop (g : GenDW.State) (n : Nat) (hdim : g.dim = Int.ofNat n) (hl : n ≤ g.lmax.length) :
    ∀ (f : Nat) (c : Gen.CombiScheme), SchemeInv (toCS c) → (toCS c).dim = n →
    whileSt f (withScheme g c) stepRaise
      = withScheme g (withCS c (raiseLoop g.lmax (getItem g.lmin 0) f (toCS c)).1)
  | 0, c, _, _ => by simp [whileSt, raiseLoop, withScheme]
  | f + 1, c, hinv, hcd => by
    have hlen : ∀ idx ∈ c.active_index_set, n ≤ idx.length := by
      intro idx hidx
      have : idx ∈ I (toCS c) := by unfold I; exact List.mem_append_right _ hidx
      rw [← hcd, (hinv.shape idx this).1]
    have hp := gen_raise_pass g n hdim hl c.active_index_set c 0 hlen
    have hP : List.foldl (fun (acc : CS × Nat) idx =>
          if raiseCond g.lmax (getItem g.lmin 0) n idx then ((acc.1.update idx).1, acc.2 + 1) else acc) (toCS c, 0) c.active_index_set
        = raisePass g.lmax (getItem g.lmin 0) (toCS c) := by
      unfold raisePass; rw [hcd]; rfl
    rw [hP] at hp
    have h0 : ((0 : Nat) : Int) = (0 : Int) := rfl
    rw [h0] at hp
    have hk := raisePass_keeps g.lmax (getItem g.lmin 0) (toCS c) hinv
    have hd' : (raisePass g.lmax (getItem g.lmin 0) (toCS c)).1.dim = c.dim.toNat := hk.2
    simp only [whileSt, raiseLoop]
    have hs : stepRaise (withScheme g c)
        = (!((raisePass g.lmax (getItem g.lmin 0) (toCS c)).2 == 0),
           withScheme g (withCS c (raisePass g.lmax (getItem g.lmin 0) (toCS c)).1)) := by
      unfold stepRaise
      have ea : Gen.get_active_indices (withScheme g c).combischeme = c.active_index_set := rfl
      rw [ea, hp]
      cases hz : (raisePass g.lmax (getItem g.lmin 0) (toCS c)).2 == 0
      · have : (((raisePass g.lmax (getItem g.lmin 0) (toCS c)).2 : Int) == 0) = false := by
          simp only [beq_eq_false_iff_ne, ne_eq] at hz ⊢; exact_mod_cast hz
        simp [this]
      · have : (((raisePass g.lmax (getItem g.lmin 0) (toCS c)).2 : Int) == 0) = true := by
          simp only [beq_iff_eq] at hz ⊢; exact_mod_cast hz
        simp [this]
    rw [hs]
    cases hz : (raisePass g.lmax (getItem g.lmin 0) (toCS c)).2 == 0
    · simp only [Bool.not_false, if_true, Bool.false_eq_true, if_false]
      have ih := gen_raise_loop g n hdim hl f (withCS c (raisePass g.lmax (getItem g.lmin 0) (toCS c)).1)
        (by rw [toCS_withCS _ _ hd']; exact hk.1) (by rw [toCS_withCS _ _ hd', hk.2]; exact hcd)
      rw [ih, toCS_withCS _ _ hd', withCS_withCS]
    · simp [withScheme]

theorem gen_raise_fuel (L : List Int) (lo : Int) (n : Nat) (h : lo ≤ maxList L) :
    Int.toNat (PyRt.pow (PyRt.maxList L - lo + 1) (Int.ofNat n) + 1) = raiseFuel L lo n := by
  unfold raiseFuel PyRt.pow
  have e : (Int.ofNat n).toNat = n := rfl
  have hm : PyRt.maxList L = maxList L := rfl
  rw [e, hm]
  have hc : maxList L - lo + 1 = (((maxList L - lo).toNat + 1 : Nat) : Int) := by
    push_cast; omega
  rw [hc]
  have : ((((maxList L - lo).toNat + 1 : Nat) : Int)) ^ n + 1 = (((((maxList L - lo).toNat + 1) ^ n + 1 : Nat)) : Int) := by
    push_cast; rfl
  rw [this, Int.toNat_natCast]

theorem raise_lmax_unfold (g : GenDW.State) (d value : Int) :
    GenDW.raise_lmax g d value =
      if ({ g with lmax := setItem g.lmax d (getItem g.lmax d + value) } : GenDW.State).dim_adaptive = true then
        whileSt (Int.toNat (PyRt.pow (PyRt.maxList ({ g with lmax := setItem g.lmax d (getItem g.lmax d + value) } : GenDW.State).lmax
            - getItem ({ g with lmax := setItem g.lmax d (getItem g.lmax d + value) } : GenDW.State).lmin 0 + 1)
            ({ g with lmax := setItem g.lmax d (getItem g.lmax d + value) } : GenDW.State).dim + 1))
          ({ g with lmax := setItem g.lmax d (getItem g.lmax d + value) } : GenDW.State) stepRaise
      else ({ g with lmax := setItem g.lmax d (getItem g.lmax d + value) } : GenDW.State) := rfl

/-- **`raise_lmax(d, value)`** (`dim_adaptive`): `lmax[d] += value`, then the hand model's `raiseLoop` with the hand
model's fuel on the scheme object.  Hypotheses (reachable states satisfy them): `len(lmax) = dim`, the scheme satisfies
the C01 invariant and has dimension `dim`, `lmin[0] ≤ max(lmax)`. -/
theorem gen_raise_lmax (g : GenDW.State) (k n : Nat) (value : Int) (hda : g.dim_adaptive = true)
    (hdim : g.dim = Int.ofNat n) (hl : g.lmax.length = n) (hinv : SchemeInv (toCS g.combischeme))
    (hcd : (toCS g.combischeme).dim = n)
    (hlo : getItem g.lmin 0 ≤ maxList (g.lmax.set k (g.lmax.getD k 0 + value))) :
    GenDW.raise_lmax g (Int.ofNat k) value
      = { g with lmax := g.lmax.set k (g.lmax.getD k 0 + value),
                 combischeme := withCS g.combischeme
                   (raiseLoop (g.lmax.set k (g.lmax.getD k 0 + value)) (getItem g.lmin 0)
                     (raiseFuel (g.lmax.set k (g.lmax.getD k 0 + value)) (getItem g.lmin 0) n) (toCS g.combischeme)).1 } := by
  rw [raise_lmax_unfold]
  simp only [setItem_ofNat, getItem_ofNat]
  have hda' : ({ g with lmax := g.lmax.set k (g.lmax.getD k 0 + value) } : GenDW.State).dim_adaptive = true := hda
  rw [if_pos hda']
  have hf : Int.toNat (PyRt.pow (PyRt.maxList (g.lmax.set k (g.lmax.getD k 0 + value)) - getItem g.lmin 0 + 1) g.dim + 1)
      = raiseFuel (g.lmax.set k (g.lmax.getD k 0 + value)) (getItem g.lmin 0) n := by
    rw [hdim]; exact gen_raise_fuel _ _ n hlo
  have hloop := gen_raise_loop ({ g with lmax := g.lmax.set k (g.lmax.getD k 0 + value) } : GenDW.State) n hdim
    (by simp [hl]) (raiseFuel (g.lmax.set k (g.lmax.getD k 0 + value)) (getItem g.lmin 0) n) g.combischeme hinv hcd
  rw [hf]
  exact hloop

end SparseSpace
