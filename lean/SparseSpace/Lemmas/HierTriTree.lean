import SparseSpace.Lemmas.HierTriSolve
import SparseSpace.Lemmas.Hier
/-! C10 extension: on every refinement tree the collocation matrix of the hierarchical restricted Lagrange basis
(knots = end points + ancestors + the point, `p+1` window) is level-triangular. -/
namespace SparseSpace.Hier

abbrev SSorted (l : List Rat) : Prop := l.Pairwise (· < ·)

/-! ### sorted insertion -/

theorem mem_insertSorted (m x : Rat) (l : List Rat) : x ∈ insertSorted m l ↔ x = m ∨ x ∈ l := by
  induction l with
  | nil => simp [insertSorted]
  | cons y ys ih =>
    simp only [insertSorted]
    split
    · simp
    · simp only [List.mem_cons, ih]; tauto

theorem insertSorted_sorted (m : Rat) (l : List Rat) (hs : SSorted l) (hm : m ∉ l) : SSorted (insertSorted m l) := by
  induction l with
  | nil => simp [insertSorted, SSorted]
  | cons y ys ih =>
    have hy : ∀ z ∈ ys, y < z := (List.pairwise_cons.1 hs).1
    have hys : SSorted ys := (List.pairwise_cons.1 hs).2
    have hne : m ≠ y := fun e => hm (by simp [e])
    simp only [insertSorted]
    split
    · rename_i hle
      have hlt : m < y := lt_of_le_of_ne hle hne
      refine List.pairwise_cons.2 ⟨?_, hs⟩
      intro z hz
      rcases List.mem_cons.1 hz with rfl | hz'
      · exact hlt
      · exact lt_trans hlt (hy z hz')
    · rename_i hle
      refine List.pairwise_cons.2 ⟨?_, ih hys (fun h => hm (by simp [h]))⟩
      intro z hz
      rcases (mem_insertSorted m z ys).1 hz with rfl | hz'
      · exact not_le.1 hle
      · exact hy z hz'

theorem insertSorted_mid (pre post : List Rat) (lo m hi : Rat) (hs : SSorted (pre ++ lo :: hi :: post))
    (h1 : lo < m) (h2 : m < hi) :
    insertSorted m (pre ++ lo :: hi :: post) = pre ++ lo :: m :: hi :: post := by
  induction pre with
  | nil => simp [insertSorted, not_le.2 h1, le_of_lt h2]
  | cons a pre ih =>
    have ha : a < lo := (List.pairwise_cons.1 hs).1 lo (by simp)
    have : ¬ m ≤ a := not_le.2 (lt_trans ha h1)
    simp only [List.cons_append, insertSorted, this, if_false]
    rw [ih (List.pairwise_cons.1 hs).2]

/-! ### the `p+1` window keeps the point and its left neighbour, and the right neighbour if anything is kept there -/

theorem indexOf_mid (pre tl : List Rat) (lo m : Rat) (hpre : m ∉ pre) (hlo : m ≠ lo) :
    indexOf m (pre ++ lo :: m :: tl) = pre.length + 1 := by
  induction pre with
  | nil =>
    have : (m == lo) = false := by simpa using hlo
    simp [indexOf, this]
  | cons a pre ih =>
    have ha : (m == a) = false := by
      have : m ≠ a := fun e => hpre (by simp [e])
      simpa using this
    simp only [List.cons_append, indexOf, ha, List.length_cons]
    rw [ih (fun h => hpre (by simp [h]))]
    simp

theorem take_mid (u tl : List Rat) (lo m : Rat) (t : Nat) (h : u.length + 2 ≤ t) :
    (u ++ lo :: m :: tl).take t = u ++ lo :: m :: tl.take (t - u.length - 2) := by
  induction u generalizing t with
  | nil =>
    obtain ⟨t', rfl⟩ : ∃ t', t = t' + 2 := ⟨t - 2, by simp at h; omega⟩
    simp
  | cons a u ih =>
    obtain ⟨t', rfl⟩ : ∃ t', t = t' + 1 := ⟨t - 1, by simp at h; omega⟩
    simp only [List.cons_append, List.take_succ_cons, List.length_cons]
    rw [ih t' (by simp at h; omega)]
    have hl : t' + 1 - (u.length + 1) - 2 = t' - u.length - 2 := by omega
    rw [hl]

theorem window_mid (p : Nat) (hp : 1 ≤ p) (pre tl : List Rat) (lo m : Rat) (hpre : m ∉ pre) (hlo : m ≠ lo) :
    ∃ pre' tl', window p (pre ++ lo :: m :: tl) m = pre' ++ lo :: m :: tl' ∧
      (∃ s, pre = s ++ pre') ∧ (∃ q, tl = tl' ++ q) := by
  have hix := indexOf_mid pre tl lo m hpre hlo
  have hlen : (pre ++ lo :: m :: tl).length = pre.length + 2 + tl.length := by simp; omega
  unfold window
  split
  · rename_i hbig
    simp only [hix, hlen]
    split
    · -- the first p+1 knots
      rename_i h1
      refine ⟨pre, tl.take (p + 1 - pre.length - 2), take_mid pre tl lo m (p + 1) (by omega), ⟨[], rfl⟩,
        ⟨tl.drop (p + 1 - pre.length - 2), (List.take_append_drop _ _).symm⟩⟩
    · split
      · -- the last p+1 knots
        rename_i h1 h2
        have hd : pre.length + 2 + tl.length - (p + 1) ≤ pre.length := by omega
        refine ⟨pre.drop (pre.length + 2 + tl.length - (p + 1)), tl, ?_, ⟨pre.take _, (List.take_append_drop _ _).symm⟩, ⟨[], by simp⟩⟩
        rw [List.drop_append_of_le_length hd]
      · -- centred
        rename_i h1 h2
        have hd : pre.length + 1 - (p + 1) / 2 ≤ pre.length := by omega
        refine ⟨pre.drop (pre.length + 1 - (p + 1) / 2), tl.take (p + 1 - (pre.drop (pre.length + 1 - (p + 1) / 2)).length - 2),
          ?_, ⟨pre.take _, (List.take_append_drop _ _).symm⟩, ⟨tl.drop _, (List.take_append_drop _ _).symm⟩⟩
        rw [List.drop_append_of_le_length hd]
        exact take_mid _ tl lo m (p + 1) (by simp only [List.length_drop]; omega)
  · exact ⟨pre, tl, rfl, ⟨[], rfl⟩, ⟨[], by simp⟩⟩

/-! ### the restricted Lagrange function of a point with neighbours `lo`, `hi` -/

theorem getElem?_app (u v : List Rat) (k : Nat) : (u ++ v)[u.length + k]? = v[k]? := by
  rw [List.getElem?_append_right (by omega)]
  congr 1
  omega

/-- knots `pre' ++ lo :: m :: tl'` (strictly increasing), `tl'` empty or starting with `hi`: the function of `m` is 1 at `m`
and vanishes at every `x ≤ lo` and every `x ≥ hi` -/
theorem phi_mid (pre' tl' : List Rat) (lo m hi : Rat) (hs : SSorted (pre' ++ lo :: m :: tl')) (h1 : lo < m) (h2 : m < hi)
    (htl : tl' = [] ∨ ∃ q, tl' = hi :: q) :
    lagrangeR (pre' ++ lo :: m :: tl') (pre'.length + 1) m = 1 ∧
    ∀ x, x ≤ lo ∨ hi ≤ x → lagrangeR (pre' ++ lo :: m :: tl') (pre'.length + 1) x = 0 := by
  set W := pre' ++ lo :: m :: tl' with hW
  have hn : W.Nodup := hs.imp (fun h => ne_of_lt h)
  have hWlen : W.length = pre'.length + 2 + tl'.length := by simp [hW]; omega
  have hidx : pre'.length + 1 < W.length := by omega
  have hWm : W[pre'.length + 1] = m := by
    have := getElem?_app pre' (lo :: m :: tl') 1
    rw [← hW] at this
    simpa [List.getElem?_eq_getElem hidx] using this
  have hjlo : pre'.length < W.length := by omega
  have hWlo : W[pre'.length] = lo := by
    have := getElem?_app pre' (lo :: m :: tl') 0
    rw [← hW] at this
    simpa [List.getElem?_eq_getElem hjlo] using this
  have hlo? : W[pre'.length + 1 - 1]? = some lo := by
    simp only [Nat.add_sub_cancel]
    rw [List.getElem?_eq_getElem hjlo, hWlo]
  rcases htl with htl | ⟨q, htl⟩
  · -- no knot to the right: support `[lo, m]`
    have hend : W[min (pre'.length + 1 + 1) (W.length - 1)]? = some m := by
      have : min (pre'.length + 1 + 1) (W.length - 1) = pre'.length + 1 := by rw [hWlen, htl]; simp
      rw [this, List.getElem?_eq_getElem hidx, hWm]
    have hsup : support W (pre'.length + 1) = some (lo, m) := by
      simp only [support, hlo?, hend]
    constructor
    · have : inSupport W (pre'.length + 1) m = true := by
        simp only [inSupport, hsup, Bool.and_eq_true, decide_eq_true_eq]
        exact ⟨le_of_lt h1, le_refl _⟩
      simp only [lagrangeR, this, if_true]
      have := lagrange_own W hn (pre'.length + 1) hidx
      rwa [hWm] at this
    · intro x hx
      simp only [lagrangeR]
      split
      · rename_i hin
        simp only [inSupport, hsup, Bool.and_eq_true, decide_eq_true_eq] at hin
        rcases hx with hx | hx
        · have : x = lo := le_antisymm hx hin.1
          have h0 := lagrange_other W (pre'.length + 1) pre'.length hidx hjlo (by omega)
          rw [hWlo] at h0
          rw [this]; exact h0
        · exfalso; linarith [hin.2]
      · rfl
  · -- right neighbour `hi` kept: support `[lo, hi]`
    have hjhi : pre'.length + 2 < W.length := by rw [hWlen, htl]; simp
    have hWhi : W[pre'.length + 2] = hi := by
      have := getElem?_app pre' (lo :: m :: tl') 2
      rw [← hW, htl] at this
      simpa [List.getElem?_eq_getElem hjhi] using this
    have hend : W[min (pre'.length + 1 + 1) (W.length - 1)]? = some hi := by
      have : min (pre'.length + 1 + 1) (W.length - 1) = pre'.length + 2 := by rw [hWlen, htl]; simp
      rw [this, List.getElem?_eq_getElem hjhi, hWhi]
    have hsup : support W (pre'.length + 1) = some (lo, hi) := by
      simp only [support, hlo?, hend]
    constructor
    · have : inSupport W (pre'.length + 1) m = true := by
        simp only [inSupport, hsup, Bool.and_eq_true, decide_eq_true_eq]
        exact ⟨le_of_lt h1, le_of_lt h2⟩
      simp only [lagrangeR, this, if_true]
      have := lagrange_own W hn (pre'.length + 1) hidx
      rwa [hWm] at this
    · intro x hx
      simp only [lagrangeR]
      split
      · rename_i hin
        simp only [inSupport, hsup, Bool.and_eq_true, decide_eq_true_eq] at hin
        rcases hx with hx | hx
        · have : x = lo := le_antisymm hx hin.1
          have h0 := lagrange_other W (pre'.length + 1) pre'.length hidx hjlo (by omega)
          rw [hWlo] at h0
          rw [this]; exact h0
        · have : x = hi := le_antisymm hin.2 hx
          have h0 := lagrange_other W (pre'.length + 1) (pre'.length + 2) hidx hjhi (by omega)
          rw [hWhi] at h0
          rw [this]; exact h0
      · rfl

/-! ### the tree recursion -/

/-- what the recursion establishes for the points strictly inside `(lo,hi)` -/
def NodesOK (N : List HNode) (lo hi : Rat) (lv : Nat) : Prop :=
  (∀ e ∈ N, lo < e.x ∧ e.x < hi ∧ lv + 1 ≤ e.lev ∧ e.phi e.x = 1 ∧ ∀ x, x ≤ lo ∨ hi ≤ x → e.phi x = 0) ∧
  (∀ e ∈ N, ∀ e' ∈ N, e'.x ≠ e.x → e'.lev ≤ e.lev → e.phi e'.x = 0) ∧
  N.Pairwise (fun u v => u.x < v.x)

theorem tree_inv (p : Nat) (hp : 1 ≤ p) (t : RTree) :
    ∀ (lo hi : Rat) (lv : Nat) (pre post : List Rat), lo < hi → SSorted (pre ++ lo :: hi :: post) →
      NodesOK (t.nodes p lo hi lv (pre ++ lo :: hi :: post)) lo hi lv := by
  induction t with
  | leaf =>
    intro lo hi lv pre post _ _
    simp [RTree.nodes, NodesOK]
  | node l r ihl ihr =>
    intro lo hi lv pre post hlh hs
    have hlm : lo < (lo + hi) / 2 := by linarith
    have hmh : (lo + hi) / 2 < hi := by linarith
    set m := (lo + hi) / 2 with hm
    -- facts about the inherited knot list
    have hpre_lt : ∀ a ∈ pre, a < lo := fun a ha => (List.pairwise_append.1 hs).2.2 a ha lo (by simp)
    have hpost_gt : ∀ b ∈ post, hi < b := by
      intro b hb
      have h2 := (List.pairwise_append.1 hs).2.1
      exact (List.pairwise_cons.1 (List.pairwise_cons.1 h2).2).1 b hb
    have hm_pre : m ∉ pre := fun h => by have := hpre_lt m h; linarith
    have hm_notin : m ∉ pre ++ lo :: hi :: post := by
      intro h
      rcases List.mem_append.1 h with h | h
      · exact hm_pre h
      · rcases List.mem_cons.1 h with h | h
        · linarith
        · rcases List.mem_cons.1 h with h | h
          · linarith
          · have := hpost_gt m h; linarith
    have hF' : insertSorted m (pre ++ lo :: hi :: post) = pre ++ lo :: m :: hi :: post :=
      insertSorted_mid pre post lo m hi hs hlm hmh
    have hsF' : SSorted (pre ++ lo :: m :: hi :: post) := by
      rw [← hF']; exact insertSorted_sorted m _ hs hm_notin
    -- the window of the point itself
    obtain ⟨pre', tl', hW, ⟨s, hs'⟩, ⟨q, hq⟩⟩ := window_mid p hp pre (hi :: post) lo m hm_pre (ne_of_gt hlm)
    have htl : tl' = [] ∨ ∃ q', tl' = hi :: q' := by
      cases tl' with
      | nil => exact Or.inl rfl
      | cons h t' =>
        right
        simp only [List.cons_append, List.cons.injEq] at hq
        exact ⟨t', by rw [hq.1]⟩
    have hsW : SSorted (pre' ++ lo :: m :: tl') := by
      have e : pre ++ lo :: m :: hi :: post = s ++ ((pre' ++ lo :: m :: tl') ++ q) := by
        rw [hs', hq]; simp
      rw [e] at hsF'
      exact (hsF'.sublist (List.sublist_append_right s _)).sublist (List.sublist_append_left _ q)
    have hm_pre' : m ∉ pre' := fun h => hm_pre (by rw [hs']; simp [h])
    have hidx : indexOf m (pre' ++ lo :: m :: tl') = pre'.length + 1 := indexOf_mid pre' tl' lo m hm_pre' (ne_of_gt hlm)
    obtain ⟨hphi1, hphi0⟩ := phi_mid pre' tl' lo m hi hsW hlm hmh htl
    -- the two subtrees
    have hL := ihl lo m (lv + 1) pre (hi :: post) hlm hsF'
    have eR : pre ++ lo :: m :: hi :: post = (pre ++ [lo]) ++ m :: hi :: post := by simp
    have hR := ihr m hi (lv + 1) (pre ++ [lo]) post hmh (by rw [← eR]; exact hsF')
    rw [← eR] at hR
    obtain ⟨hL1, hL2, hL3⟩ := hL
    obtain ⟨hR1, hR2, hR3⟩ := hR
    simp only [RTree.nodes, ← hm, hF', hW, hidx]
    set NL := l.nodes p lo m (lv + 1) (pre ++ lo :: m :: hi :: post) with hNL
    set NR := r.nodes p m hi (lv + 1) (pre ++ lo :: m :: hi :: post) with hNR
    set e0 : HNode := { x := m, lev := lv + 1, knots := pre' ++ lo :: m :: tl', idx := pre'.length + 1 } with he0
    have he0phi : e0.phi = lagrangeR (pre' ++ lo :: m :: tl') (pre'.length + 1) := rfl
    refine ⟨?_, ?_, ?_⟩
    · -- per point
      intro e he
      rcases List.mem_append.1 he with he | he
      · obtain ⟨a1, a2, a3, a4, a5⟩ := hL1 e he
        exact ⟨a1, lt_trans a2 hmh, by omega, a4, fun x hx => a5 x (by rcases hx with hx | hx; exact Or.inl hx; exact Or.inr (by linarith))⟩
      · rcases List.mem_cons.1 he with rfl | he
        · exact ⟨hlm, hmh, le_refl _, by rw [he0phi]; exact hphi1, fun x hx => by rw [he0phi]; exact hphi0 x hx⟩
        · obtain ⟨a1, a2, a3, a4, a5⟩ := hR1 e he
          exact ⟨lt_trans hlm a1, a2, by omega, a4, fun x hx => a5 x (by rcases hx with hx | hx; exact Or.inl (by linarith); exact Or.inr hx)⟩
    · -- pairs
      intro e he e' he' hne hlev
      rcases List.mem_append.1 he with he | he
      · -- e in the left subtree
        obtain ⟨a1, a2, a3, a4, a5⟩ := hL1 e he
        rcases List.mem_append.1 he' with he' | he'
        · exact hL2 e he e' he' hne hlev
        · rcases List.mem_cons.1 he' with rfl | he'
          · exact a5 _ (Or.inr (le_refl _))
          · exact a5 _ (Or.inr (le_of_lt (hR1 e' he').1))
      · rcases List.mem_cons.1 he with rfl | he
        · -- e is the midpoint: every other point is on a higher level
          rcases List.mem_append.1 he' with he' | he'
          · have := (hL1 e' he').2.2.1
            simp only [he0] at hlev; omega
          · rcases List.mem_cons.1 he' with rfl | he'
            · exact absurd rfl hne
            · have := (hR1 e' he').2.2.1
              simp only [he0] at hlev; omega
        · -- e in the right subtree
          obtain ⟨a1, a2, a3, a4, a5⟩ := hR1 e he
          rcases List.mem_append.1 he' with he' | he'
          · exact a5 _ (Or.inl (le_of_lt (hL1 e' he').2.1))
          · rcases List.mem_cons.1 he' with rfl | he'
            · exact a5 _ (Or.inl (le_refl _))
            · exact hR2 e he e' he' hne hlev
    · -- increasing coordinates
      refine List.pairwise_append.2 ⟨hL3, List.pairwise_cons.2 ⟨fun e' he' => (hR1 e' he').1, hR3⟩, ?_⟩
      intro u hu v hv
      rcases List.mem_cons.1 hv with rfl | hv
      · exact (hL1 u hu).2.1
      · exact lt_trans (hL1 u hu).2.1 (hR1 v hv).1

/-! ### the whole grid -/

def GridOK (G : List HNode) : Prop :=
  (∀ e ∈ G, e.phi e.x = 1) ∧
  (∀ e ∈ G, ∀ e' ∈ G, e'.x ≠ e.x → e'.lev ≤ e.lev → e.phi e'.x = 0) ∧
  G.Pairwise (fun u v => u.x < v.x)

theorem window_two (p : Nat) (hp : 1 ≤ p) (a b x : Rat) : window p [a, b] x = [a, b] := by
  unfold window
  have : ¬ ([a, b].length > p + 1) := by simp; omega
  simp only [this, if_false]

theorem boundary_phi (a b : Rat) (hab : a < b) :
    lagrangeR [a, b] 0 a = 1 ∧ lagrangeR [a, b] 0 b = 0 ∧ lagrangeR [a, b] 1 b = 1 ∧ lagrangeR [a, b] 1 a = 0 := by
  have hn : ([a, b] : List Rat).Nodup := by simp [ne_of_lt hab]
  have s0 : support [a, b] 0 = some (a, b) := by simp [support]
  have s1 : support [a, b] 1 = some (a, b) := by simp [support]
  have o0 := lagrange_own [a, b] hn 0 (by simp)
  have o1 := lagrange_own [a, b] hn 1 (by simp)
  have z01 := lagrange_other [a, b] 0 1 (by simp) (by simp) (by omega)
  have z10 := lagrange_other [a, b] 1 0 (by simp) (by simp) (by omega)
  simp only [List.getElem_cons_zero, List.getElem_cons_succ] at o0 o1 z01 z10
  refine ⟨?_, ?_, ?_, ?_⟩
  · simp [lagrangeR, inSupport, s0, le_of_lt hab, o0]
  · simp [lagrangeR, inSupport, s0, le_of_lt hab, z01]
  · simp [lagrangeR, inSupport, s1, le_of_lt hab, o1]
  · simp [lagrangeR, inSupport, s1, le_of_lt hab, z10]

theorem grid_ok (p : Nat) (hp : 1 ≤ p) (t : RTree) (a b : Rat) (hab : a < b) : GridOK (t.grid p a b) := by
  have hs : SSorted ([] ++ a :: b :: []) := by simp [SSorted, hab]
  obtain ⟨hN1, hN2, hN3⟩ := tree_inv p hp t a b 0 [] [] hab hs
  simp only [List.nil_append] at hN1 hN2 hN3
  obtain ⟨pa1, pa0, pb1, pb0⟩ := boundary_phi a b hab
  have iA : indexOf a [a, b] = 0 := by simp [indexOf]
  have iB : indexOf b [a, b] = 1 := by
    have : (b == a) = false := by simpa using ne_of_gt hab
    simp [indexOf, this]
  simp only [RTree.grid, window_two p hp, iA, iB]
  set N := t.nodes p a b 0 [a, b] with hN
  set ea : HNode := { x := a, lev := 0, knots := [a, b], idx := 0 } with hea
  set eb : HNode := { x := b, lev := 0, knots := [a, b], idx := 1 } with heb
  have mem : ∀ e, e ∈ ea :: N ++ [eb] ↔ e = ea ∨ e ∈ N ∨ e = eb := by
    intro e; simp [List.mem_append]
  refine ⟨?_, ?_, ?_⟩
  · intro e he
    rcases (mem e).1 he with rfl | he | rfl
    · exact pa1
    · exact (hN1 e he).2.2.2.1
    · exact pb1
  · intro e he e' he' hne hlev
    rcases (mem e).1 he with rfl | he | rfl
    · rcases (mem e').1 he' with rfl | he' | rfl
      · exact absurd rfl hne
      · have := (hN1 e' he').2.2.1
        simp only [hea] at hlev; omega
      · exact pa0
    · have h5 := (hN1 e he).2.2.2.2
      rcases (mem e').1 he' with rfl | he' | rfl
      · exact h5 a (Or.inl (le_refl _))
      · exact hN2 e he e' he' hne hlev
      · exact h5 b (Or.inr (le_refl _))
    · rcases (mem e').1 he' with rfl | he' | rfl
      · exact pb0
      · have := (hN1 e' he').2.2.1
        simp only [heb] at hlev; omega
      · exact absurd rfl hne
  · refine List.pairwise_cons.2 ⟨?_, List.pairwise_append.2 ⟨hN3, by simp, ?_⟩⟩
    · intro e he
      rcases List.mem_append.1 he with he | he
      · exact (hN1 e he).1
      · simp only [List.mem_singleton] at he; subst he; exact hab
    · intro u hu v hv
      simp only [List.mem_singleton] at hv; subst hv
      exact (hN1 u hu).2.1

theorem levelTriangular_of_gridOK (G : List HNode) (h : GridOK G) :
    LevelTriangular (colloc { basis := G.map HNode.phi, xs := G.map HNode.x }) (G.map HNode.lev) := by
  obtain ⟨h1, h2, h3⟩ := h
  refine ⟨by simp [colloc], ?_, ?_⟩
  · intro r hr
    simp only [colloc, List.mem_map] at hr
    obtain ⟨x, _, rfl⟩ := hr
    simp
  · intro i j hi hj
    simp only [List.length_map] at hi hj
    have e : ((colloc { basis := G.map HNode.phi, xs := G.map HNode.x }).getD i []).getD j 0 = (G[j]).phi (G[i]).x := by
      simp [colloc, List.getD_eq_getElem?_getD, hi, hj]
    rw [e]
    constructor
    · intro hij; subst hij; exact h1 _ (List.getElem_mem hi)
    · intro hij hlev
      have hx : (G[i]).x ≠ (G[j]).x := by
        rcases Nat.lt_or_ge i j with hlt | hge
        · exact ne_of_lt ((List.pairwise_iff_getElem.1 h3) i j hi hj hlt)
        · exact ne_of_gt ((List.pairwise_iff_getElem.1 h3) j i hj hi (by omega))
      apply h2 _ (List.getElem_mem hj) _ (List.getElem_mem hi) hx
      simpa [List.getD_eq_getElem?_getD, hi, hj] using hlev

end SparseSpace.Hier
