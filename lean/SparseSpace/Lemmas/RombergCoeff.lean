import SparseSpace.Model.Romberg
import Mathlib.LinearAlgebra.Lagrange
import Mathlib.Tactic.Ring
import Mathlib.Tactic.FieldSimp
import Mathlib.Tactic.Linarith
/-!
# Romberg extrapolation coefficients are the Lagrange basis at 0 (C11)

`coeff a b e m j = ℓ_j(0)` for the nodes `x_i = h_i ^ e`, `h_i = (b - a) / 2 ^ i`, `i = 0..m`.  Consequences:
the coefficients of a row sum to one, and they annihilate every positive power `x ^ r`, `1 ≤ r ≤ m`, of the nodes.
-/
namespace SparseSpace.Romberg
open Finset Polynomial

theorem rpow_eq (x : ℚ) (n : ℕ) : rpow x n = x ^ n := by
  induction n with
  | zero => simp [rpow]
  | succ n ih => simp [rpow, ih, pow_succ]

theorem sumRange_eq (lo n : ℕ) (f : ℕ → ℚ) : sumRange lo n f = ∑ i ∈ range n, f (lo + i) := by
  induction n with
  | zero => simp [sumRange]
  | succ n ih => simp [sumRange, ih, Finset.sum_range_succ]

theorem stepWidth_eq (a b : ℚ) (j : ℕ) : stepWidth a b j = (b - a) / 2 ^ j := by
  simp [stepWidth, rpow_eq]

/-- the extrapolation node of level `i`: `h_i ^ e` -/
def node (a b : ℚ) (e i : ℕ) : ℚ := ((b - a) / 2 ^ i) ^ e

theorem coeffAux_eq (a b : ℚ) (e j n : ℕ) :
    coeffAux a b e j n =
      ∏ i ∈ range n, (if i = j then 1 else node a b e i / (node a b e i - node a b e j)) := by
  induction n with
  | zero => simp [coeffAux]
  | succ n ih => simp [coeffAux, ih, Finset.prod_range_succ, rpow_eq, stepWidth_eq, node]

theorem node_injective (a b : ℚ) (e : ℕ) (hab : a ≠ b) (he : 1 ≤ e) : Function.Injective (node a b e) := by
  intro i j h
  have hH : (b - a) ≠ 0 := sub_ne_zero.mpr (Ne.symm hab)
  have h2 : ∀ k : ℕ, ((2 : ℚ) ^ k) ≠ 0 := fun k => pow_ne_zero _ (by norm_num)
  simp only [node, div_pow] at h
  have hHe : (b - a) ^ e ≠ 0 := pow_ne_zero _ hH
  have h3 : ((2 : ℚ) ^ i) ^ e = ((2 : ℚ) ^ j) ^ e := by
    have hi := pow_ne_zero e (h2 i)
    have hj := pow_ne_zero e (h2 j)
    field_simp at h
    exact h.symm
  rw [← pow_mul, ← pow_mul] at h3
  have h4 : i * e = j * e := by
    have : (2 : ℚ) ^ (i * e) = 2 ^ (j * e) := h3
    exact_mod_cast (pow_right_injective₀ (by norm_num : (0 : ℚ) < 2) (by norm_num : (2 : ℚ) ≠ 1)) this
  exact Nat.eq_of_mul_eq_mul_right (by omega) h4

/-- `coeff` is the value at 0 of the Lagrange basis polynomial of the node `h_j ^ e` -/
theorem coeff_eq_basis (a b : ℚ) (e m j : ℕ) (hj : j ≤ m) :
    coeff a b e m j = (Lagrange.basis (range (m + 1)) (node a b e) j).eval 0 := by
  rw [coeff, coeffAux_eq, Lagrange.basis, eval_prod]
  have hjm : j ∈ range (m + 1) := mem_range.mpr (by omega)
  rw [← Finset.mul_prod_erase _ _ hjm]
  simp only [if_true, one_mul]
  refine Finset.prod_congr rfl fun i hi => ?_
  have hij : i ≠ j := (mem_erase.mp hi).1
  simp only [hij, if_false, Lagrange.basisDivisor, eval_mul, eval_C, eval_sub, eval_X]
  rw [div_eq_mul_inv, mul_comm]
  have : node a b e i - node a b e j = -(node a b e j - node a b e i) := by ring
  rw [this, inv_neg]
  ring

/-- **coefficient sum**: `Σ_{j ≤ m} c_{m,j} = 1` for every `m`, every exponent `e ≥ 1` and every interval `a ≠ b` -/
theorem coeff_sum (a b : ℚ) (e m : ℕ) (hab : a ≠ b) (he : 1 ≤ e) :
    sumRange 0 (m + 1) (fun j => coeff a b e m j) = 1 := by
  rw [sumRange_eq]
  simp only [zero_add]
  have hinj : Set.InjOn (node a b e) ↑(range (m + 1)) := (node_injective a b e hab he).injOn
  have h := Lagrange.sum_basis (s := range (m + 1)) (v := node a b e) hinj ⟨0, by simp⟩
  have h0 := congrArg (Polynomial.eval 0) h
  rw [eval_finsetSum, eval_one] at h0
  rw [← h0]
  refine Finset.sum_congr rfl fun j hj => ?_
  exact coeff_eq_basis a b e m j (by have := mem_range.mp hj; omega)

/-- the coefficients reproduce the value at 0 of every polynomial of degree `≤ m` in the node variable -/
theorem coeff_interp (a b : ℚ) (e m : ℕ) (hab : a ≠ b) (he : 1 ≤ e) (p : ℚ[X]) (hp : p.degree < ↑(m + 1)) :
    sumRange 0 (m + 1) (fun j => coeff a b e m j * p.eval (node a b e j)) = p.eval 0 := by
  rw [sumRange_eq]
  simp only [zero_add]
  have hinj : Set.InjOn (node a b e) ↑(range (m + 1)) := (node_injective a b e hab he).injOn
  have h := Lagrange.eq_interpolate (s := range (m + 1)) (v := node a b e) (f := p) hinj (by simpa using hp)
  have h0 := congrArg (Polynomial.eval 0) h
  rw [Lagrange.interpolate_apply, eval_finsetSum] at h0
  rw [h0]
  refine Finset.sum_congr rfl fun j hj => ?_
  rw [eval_mul, eval_C, coeff_eq_basis a b e m j (by have := mem_range.mp hj; omega)]
  ring

/-- the coefficients annihilate the powers `1..m` of the nodes (this is what raises the order of the rule) -/
theorem coeff_annihilates (a b : ℚ) (e m r : ℕ) (hab : a ≠ b) (he : 1 ≤ e) (hr1 : 1 ≤ r) (hrm : r ≤ m) :
    sumRange 0 (m + 1) (fun j => coeff a b e m j * (node a b e j) ^ r) = 0 := by
  have h := coeff_interp a b e m hab he (X ^ r) (by
    rw [degree_X_pow]; exact_mod_cast Nat.lt_succ_of_le hrm)
  simp only [eval_pow, eval_X] at h
  rw [h]
  exact zero_pow (by omega)

end SparseSpace.Romberg
