import SparseSpace.Model.ExtendSplit
import Mathlib.Tactic.Linarith
import Mathlib.Tactic.Ring
import Mathlib.Algebra.Order.Field.Rat
import Mathlib.Algebra.BigOperators.Group.List.Basic
/-!
# Box geometry for the extend–split model (C07)

`Tiles P cs`: the boxes `cs` are proper sub-boxes of `P`, cover `P`, are pairwise separated by a coordinate
hyperplane (hence have disjoint interiors) and their volumes add up to the volume of `P`.
`split_area_arbitrary_dim` and `split_area_single_dim` produce tilings; tilings compose (`tiles_refines`).
-/
namespace SparseSpace

/-- every side has positive length -/
def Proper (b : Box) : Prop := ∀ iv ∈ b, iv.1 < iv.2

/-- `c ⊆ b` side by side (same dimension) -/
def SubBox : Box → Box → Prop
  | [], [] => True
  | a :: as, b :: bs => b.1 ≤ a.1 ∧ a.2 ≤ b.2 ∧ SubBox as bs
  | _, _ => False

/-- some coordinate hyperplane separates the two boxes -/
def Separated : Box → Box → Prop
  | a :: as, b :: bs => a.2 ≤ b.1 ∨ b.2 ≤ a.1 ∨ Separated as bs
  | _, _ => False

theorem boxContains_cons (iv : Rat × Rat) (b : Box) (x : Rat) (xs : EPt) :
    boxContains (iv :: b) (x :: xs) = true ↔ iv.1 ≤ x ∧ x ≤ iv.2 ∧ boxContains b xs = true := by
  simp only [boxContains, Bool.and_eq_true, Bool.not_eq_true', Bool.or_eq_false_iff, decide_eq_false_iff_not,
    not_lt]
  tauto

theorem boxInterior_cons (iv : Rat × Rat) (b : Box) (x : Rat) (xs : EPt) :
    boxInterior (iv :: b) (x :: xs) = true ↔ iv.1 < x ∧ x < iv.2 ∧ boxInterior b xs = true := by
  simp only [boxInterior, Bool.and_eq_true, decide_eq_true_eq]
  tauto

theorem boxContains_length : ∀ (b : Box) (x : EPt), boxContains b x = true → x.length = b.length
  | [], [], _ => rfl
  | [], _ :: _, h => by simp [boxContains] at h
  | _ :: _, [], h => by simp [boxContains] at h
  | iv :: b, x :: xs, h => by
      have := boxContains_length b xs ((boxContains_cons iv b x xs).1 h).2.2
      simp [this]

theorem boxInterior_contains : ∀ (b : Box) (x : EPt), boxInterior b x = true → boxContains b x = true
  | [], [], _ => rfl
  | [], _ :: _, h => by simp [boxInterior] at h
  | _ :: _, [], h => by simp [boxInterior] at h
  | iv :: b, x :: xs, h => by
      obtain ⟨h1, h2, h3⟩ := (boxInterior_cons iv b x xs).1 h
      exact (boxContains_cons iv b x xs).2 ⟨le_of_lt h1, le_of_lt h2, boxInterior_contains b xs h3⟩

theorem subBox_refl : ∀ b : Box, SubBox b b
  | [] => trivial
  | _ :: b => ⟨le_refl _, le_refl _, subBox_refl b⟩

theorem subBox_trans : ∀ a b c : Box, SubBox a b → SubBox b c → SubBox a c
  | [], [], [], _, _ => trivial
  | [], [], _ :: _, _, h => by simp [SubBox] at h
  | [], _ :: _, _, h, _ => by simp [SubBox] at h
  | _ :: _, [], _, h, _ => by simp [SubBox] at h
  | _ :: _, _ :: _, [], _, h => by simp [SubBox] at h
  | x :: a, y :: b, z :: c, h1, h2 =>
      ⟨le_trans h2.1 h1.1, le_trans h1.2.1 h2.2.1, subBox_trans a b c h1.2.2 h2.2.2⟩

theorem subBox_length : ∀ a b : Box, SubBox a b → a.length = b.length
  | [], [], _ => rfl
  | [], _ :: _, h => by simp [SubBox] at h
  | _ :: _, [], h => by simp [SubBox] at h
  | _ :: a, _ :: b, h => by simp [subBox_length a b h.2.2]

theorem subBox_contains : ∀ (c b : Box) (x : EPt), SubBox c b → boxContains c x = true → boxContains b x = true
  | [], [], x, _, h => h
  | [], _ :: _, _, h, _ => by simp [SubBox] at h
  | _ :: _, [], _, h, _ => by simp [SubBox] at h
  | _ :: _, _ :: _, [], _, h => by simp [boxContains] at h
  | u :: c, v :: b, x :: xs, hs, h => by
      obtain ⟨h1, h2, h3⟩ := (boxContains_cons u c x xs).1 h
      exact (boxContains_cons v b x xs).2 ⟨le_trans hs.1 h1, le_trans h2 hs.2.1, subBox_contains c b xs hs.2.2 h3⟩

/-- interiors of sub-boxes are nested -/
theorem subBox_interior : ∀ (c b : Box) (x : EPt), SubBox c b → boxInterior c x = true → boxInterior b x = true
  | [], [], x, _, h => h
  | [], _ :: _, _, h, _ => by simp [SubBox] at h
  | _ :: _, [], _, h, _ => by simp [SubBox] at h
  | _ :: _, _ :: _, [], _, h => by simp [boxInterior] at h
  | u :: c, v :: b, x :: xs, hs, h => by
      obtain ⟨h1, h2, h3⟩ := (boxInterior_cons u c x xs).1 h
      exact (boxInterior_cons v b x xs).2 ⟨lt_of_le_of_lt hs.1 h1, lt_of_lt_of_le h2 hs.2.1, subBox_interior c b xs hs.2.2 h3⟩

theorem separated_symm : ∀ a b : Box, Separated a b → Separated b a
  | [], _, h => by simp [Separated] at h
  | _ :: _, [], h => by simp [Separated] at h
  | _ :: a, _ :: b, h => by
      rcases h with h | h | h
      · exact Or.inr (Or.inl h)
      · exact Or.inl h
      · exact Or.inr (Or.inr (separated_symm a b h))

/-- separated boxes have disjoint interiors -/
theorem separated_disjoint : ∀ (a b : Box) (x : EPt), Separated a b →
    ¬ (boxInterior a x = true ∧ boxInterior b x = true)
  | [], _, _, h, _ => by simp [Separated] at h
  | _ :: _, [], _, h, _ => by simp [Separated] at h
  | _ :: _, _ :: _, [], _, h => by simp [boxInterior] at h
  | u :: a, v :: b, x :: xs, hs, h => by
      obtain ⟨h1, h2, h3⟩ := (boxInterior_cons u a x xs).1 h.1
      obtain ⟨k1, k2, k3⟩ := (boxInterior_cons v b x xs).1 h.2
      rcases hs with hs | hs | hs
      · linarith
      · linarith
      · exact separated_disjoint a b xs hs ⟨h3, k3⟩

/-- separation is inherited by sub-boxes -/
theorem separated_sub : ∀ (a b a' b' : Box), SubBox a' a → SubBox b' b → Separated a b → Separated a' b'
  | [], _, _, _, _, _, h => by simp [Separated] at h
  | _ :: _, [], _, _, _, _, h => by simp [Separated] at h
  | _ :: _, _ :: _, [], _, h, _, _ => by simp [SubBox] at h
  | _ :: _, _ :: _, _ :: _, [], _, h, _ => by simp [SubBox] at h
  | u :: a, v :: b, u' :: a', v' :: b', h1, h2, hs => by
      rcases hs with hs | hs | hs
      · exact Or.inl (le_trans h1.2.1 (le_trans hs h2.1))
      · exact Or.inr (Or.inl (le_trans h2.2.1 (le_trans hs h1.1)))
      · exact Or.inr (Or.inr (separated_sub a b a' b' h1.2.2 h2.2.2 hs))

theorem proper_cons {iv : Rat × Rat} {b : Box} : Proper (iv :: b) ↔ iv.1 < iv.2 ∧ Proper b := by
  simp [Proper]

theorem boxVol_pos : ∀ b : Box, Proper b → 0 < boxVol b
  | [], _ => by simp [boxVol]
  | iv :: b, h => by
      have h' := proper_cons.1 h
      have := boxVol_pos b h'.2
      simp only [boxVol]
      exact mul_pos (by linarith [h'.1]) this

theorem midPt_lt {lo hi : Rat} (h : lo < hi) : lo < midPt lo hi ∧ midPt lo hi < hi := by
  unfold midPt
  constructor <;> linarith

/-- the boxes `cs` tile `P` -/
structure Tiles (P : Box) (cs : List Box) : Prop where
  sub : ∀ c ∈ cs, SubBox c P
  proper : ∀ c ∈ cs, Proper c
  cover : ∀ x, boxContains P x = true → ∃ c ∈ cs, boxContains c x = true
  sep : cs.Pairwise Separated
  vol : (cs.map boxVol).sum = boxVol P

theorem tiles_self (P : Box) (h : Proper P) : Tiles P [P] where
  sub := by intro c hc; simp at hc; subst hc; exact subBox_refl _
  proper := by intro c hc; simp at hc; subst hc; exact h
  cover := by intro x hx; exact ⟨P, by simp, hx⟩
  sep := by simp
  vol := by simp

/-- the union of the tiles is exactly the parent box -/
theorem Tiles.union {P : Box} {cs : List Box} (h : Tiles P cs) (x : EPt) :
    boxContains P x = true ↔ ∃ c ∈ cs, boxContains c x = true :=
  ⟨h.cover x, fun ⟨c, hc, hx⟩ => subBox_contains c P x (h.sub c hc) hx⟩

/-- tiles have pairwise disjoint interiors -/
theorem Tiles.disjoint {P : Box} {cs : List Box} (h : Tiles P cs) :
    cs.Pairwise fun a b => ∀ x, ¬ (boxInterior a x = true ∧ boxInterior b x = true) :=
  h.sep.imp fun hs x => separated_disjoint _ _ x hs

/-! ### `split_area_arbitrary_dim` -/

theorem mem_splitAll_cons (iv : Rat × Rat) (b c : Box) :
    c ∈ splitAll (iv :: b) ↔ ∃ r ∈ splitAll b, c = (iv.1, midPt iv.1 iv.2) :: r ∨ c = (midPt iv.1 iv.2, iv.2) :: r := by
  simp only [splitAll, List.mem_flatMap, List.mem_cons, List.not_mem_nil, or_false]

theorem tiles_splitAll : ∀ b : Box, Proper b → Tiles b (splitAll b)
  | [], _ => by
      simpa [splitAll] using tiles_self [] (by intro iv h; simp at h)
  | iv :: b, hp => by
      obtain ⟨hiv, hb⟩ := proper_cons.1 hp
      have ih := tiles_splitAll b hb
      obtain ⟨m1, m2⟩ := midPt_lt hiv
      refine ⟨?_, ?_, ?_, ?_, ?_⟩
      · intro c hc
        obtain ⟨r, hr, rfl | rfl⟩ := (mem_splitAll_cons iv b c).1 hc
        · exact ⟨le_refl _, le_of_lt m2, ih.sub r hr⟩
        · exact ⟨le_of_lt m1, le_refl _, ih.sub r hr⟩
      · intro c hc
        obtain ⟨r, hr, rfl | rfl⟩ := (mem_splitAll_cons iv b c).1 hc
        · exact proper_cons.2 ⟨m1, ih.proper r hr⟩
        · exact proper_cons.2 ⟨m2, ih.proper r hr⟩
      · intro x hx
        cases x with
        | nil => simp [boxContains] at hx
        | cons x xs =>
          obtain ⟨h1, h2, h3⟩ := (boxContains_cons iv b x xs).1 hx
          obtain ⟨r, hr, hrx⟩ := ih.cover xs h3
          by_cases hm : x ≤ midPt iv.1 iv.2
          · exact ⟨(iv.1, midPt iv.1 iv.2) :: r, (mem_splitAll_cons iv b _).2 ⟨r, hr, Or.inl rfl⟩,
              (boxContains_cons _ r x xs).2 ⟨h1, hm, hrx⟩⟩
          · exact ⟨(midPt iv.1 iv.2, iv.2) :: r, (mem_splitAll_cons iv b _).2 ⟨r, hr, Or.inr rfl⟩,
              (boxContains_cons _ r x xs).2 ⟨le_of_lt (not_le.1 hm), h2, hrx⟩⟩
      · simp only [splitAll]
        rw [List.pairwise_flatMap]
        constructor
        · intro r _
          simp only [List.pairwise_cons, List.mem_cons, List.not_mem_nil, or_false, forall_eq,
            List.Pairwise.nil, and_true, false_imp_iff, implies_true]
          exact Or.inl (le_refl _)
        · refine ih.sep.imp ?_
          intro r r' hs c hc c' hc'
          simp only [List.mem_cons, List.not_mem_nil, or_false] at hc hc'
          rcases hc with rfl | rfl <;> rcases hc' with rfl | rfl <;> exact Or.inr (Or.inr hs)
      · have key : ∀ l : List Box,
            ((l.flatMap fun r => [(iv.1, midPt iv.1 iv.2) :: r, (midPt iv.1 iv.2, iv.2) :: r]).map boxVol).sum
              = (iv.2 - iv.1) * (l.map boxVol).sum := by
          intro l
          induction l with
          | nil => simp
          | cons r l ihl =>
            simp only [List.flatMap_cons, List.map_append, List.sum_append, List.map_cons, List.map_nil,
              List.sum_cons, List.sum_nil, boxVol] at ihl ⊢
            rw [ihl]
            unfold midPt
            ring
        simp only [splitAll, boxVol]
        rw [key, ih.vol]

/-! ### `split_area_single_dim` -/

theorem tiles_splitDim : ∀ (b : Box) (d : Nat), d < b.length → Proper b →
    Tiles b [(splitDim b d).1, (splitDim b d).2]
  | [], _, hd, _ => by simp at hd
  | iv :: b, 0, _, hp => by
      obtain ⟨hiv, hb⟩ := proper_cons.1 hp
      obtain ⟨m1, m2⟩ := midPt_lt hiv
      refine ⟨?_, ?_, ?_, ?_, ?_⟩
      · intro c hc
        simp only [splitDim, List.mem_cons, List.not_mem_nil, or_false] at hc
        rcases hc with rfl | rfl
        · exact ⟨le_refl _, le_of_lt m2, subBox_refl b⟩
        · exact ⟨le_of_lt m1, le_refl _, subBox_refl b⟩
      · intro c hc
        simp only [splitDim, List.mem_cons, List.not_mem_nil, or_false] at hc
        rcases hc with rfl | rfl
        · exact proper_cons.2 ⟨m1, hb⟩
        · exact proper_cons.2 ⟨m2, hb⟩
      · intro x hx
        cases x with
        | nil => simp [boxContains] at hx
        | cons x xs =>
          obtain ⟨h1, h2, h3⟩ := (boxContains_cons iv b x xs).1 hx
          by_cases hm : x ≤ midPt iv.1 iv.2
          · exact ⟨(iv.1, midPt iv.1 iv.2) :: b, by simp [splitDim], (boxContains_cons _ b x xs).2 ⟨h1, hm, h3⟩⟩
          · exact ⟨(midPt iv.1 iv.2, iv.2) :: b, by simp [splitDim],
              (boxContains_cons _ b x xs).2 ⟨le_of_lt (not_le.1 hm), h2, h3⟩⟩
      · simp only [splitDim, List.pairwise_cons, List.mem_cons, List.not_mem_nil, or_false, forall_eq,
          List.Pairwise.nil, and_true, false_imp_iff, implies_true]
        exact Or.inl (le_refl _)
      · simp only [splitDim, List.map_cons, List.map_nil, List.sum_cons, List.sum_nil, boxVol]
        unfold midPt
        ring
  | iv :: b, d + 1, hd, hp => by
      obtain ⟨hiv, hb⟩ := proper_cons.1 hp
      have ih := tiles_splitDim b d (by simpa using hd) hb
      refine ⟨?_, ?_, ?_, ?_, ?_⟩
      · intro c hc
        simp only [splitDim, List.mem_cons, List.not_mem_nil, or_false] at hc
        rcases hc with rfl | rfl
        · exact ⟨le_refl _, le_refl _, ih.sub _ (by simp)⟩
        · exact ⟨le_refl _, le_refl _, ih.sub _ (by simp)⟩
      · intro c hc
        simp only [splitDim, List.mem_cons, List.not_mem_nil, or_false] at hc
        rcases hc with rfl | rfl
        · exact proper_cons.2 ⟨hiv, ih.proper _ (by simp)⟩
        · exact proper_cons.2 ⟨hiv, ih.proper _ (by simp)⟩
      · intro x hx
        cases x with
        | nil => simp [boxContains] at hx
        | cons x xs =>
          obtain ⟨h1, h2, h3⟩ := (boxContains_cons iv b x xs).1 hx
          obtain ⟨r, hr, hrx⟩ := ih.cover xs h3
          simp only [List.mem_cons, List.not_mem_nil, or_false] at hr
          rcases hr with rfl | rfl
          · exact ⟨iv :: (splitDim b d).1, by simp [splitDim], (boxContains_cons _ _ x xs).2 ⟨h1, h2, hrx⟩⟩
          · exact ⟨iv :: (splitDim b d).2, by simp [splitDim], (boxContains_cons _ _ x xs).2 ⟨h1, h2, hrx⟩⟩
      · have := ih.sep
        simp only [List.pairwise_cons, List.mem_cons, List.not_mem_nil, or_false, forall_eq,
          List.Pairwise.nil, and_true, false_imp_iff, implies_true] at this
        simp only [splitDim, List.pairwise_cons, List.mem_cons, List.not_mem_nil, or_false, forall_eq,
          List.Pairwise.nil, and_true, false_imp_iff, implies_true]
        exact Or.inr (Or.inr this)
      · have := ih.vol
        simp only [List.map_cons, List.map_nil, List.sum_cons, List.sum_nil] at this
        simp only [splitDim, List.map_cons, List.map_nil, List.sum_cons, List.sum_nil, boxVol]
        rw [← this]
        ring

theorem splitDim_length : ∀ (b : Box) (d : Nat), (splitDim b d).1.length = b.length ∧ (splitDim b d).2.length = b.length
  | [], _ => by simp [splitDim]
  | _ :: _, 0 => by simp [splitDim]
  | _ :: b, d + 1 => by simp [splitDim, splitDim_length b d]

/-! ### composition of tilings -/

/-- `ls` arises from `cs` by replacing every box by a tiling of it -/
inductive BoxRefines : List Box → List Box → Prop
  | nil : BoxRefines [] []
  | cons {c : Box} {L cs ls : List Box} : Tiles c L → BoxRefines cs ls → BoxRefines (c :: cs) (L ++ ls)

theorem BoxRefines.exists_parent {cs ls : List Box} (h : BoxRefines cs ls) :
    ∀ l ∈ ls, ∃ c ∈ cs, SubBox l c ∧ Proper l := by
  induction h with
  | nil => intro l hl; simp at hl
  | cons ht _ ih =>
    intro l hl
    rcases List.mem_append.1 hl with hl | hl
    · exact ⟨_, List.mem_cons_self .., ht.sub l hl, ht.proper l hl⟩
    · obtain ⟨c, hc, hs⟩ := ih l hl
      exact ⟨c, List.mem_cons_of_mem _ hc, hs⟩

theorem BoxRefines.cover {cs ls : List Box} (h : BoxRefines cs ls) :
    ∀ c ∈ cs, ∀ x, boxContains c x = true → ∃ l ∈ ls, boxContains l x = true := by
  induction h with
  | nil => intro c hc; simp at hc
  | cons ht _ ih =>
    intro c hc x hx
    rcases List.mem_cons.1 hc with rfl | hc
    · obtain ⟨l, hl, hlx⟩ := ht.cover x hx
      exact ⟨l, List.mem_append_left _ hl, hlx⟩
    · obtain ⟨l, hl, hlx⟩ := ih c hc x hx
      exact ⟨l, List.mem_append_right _ hl, hlx⟩

theorem BoxRefines.sep {cs ls : List Box} (h : BoxRefines cs ls) (hs : cs.Pairwise Separated) :
    ls.Pairwise Separated := by
  induction h with
  | nil => exact List.Pairwise.nil
  | cons ht hr ih =>
    rw [List.pairwise_cons] at hs
    rw [List.pairwise_append]
    refine ⟨ht.sep, ih hs.2, ?_⟩
    intro a ha b hb
    obtain ⟨c', hc', hsub, _⟩ := hr.exists_parent b hb
    exact separated_sub _ _ _ _ (ht.sub a ha) hsub (hs.1 c' hc')

theorem BoxRefines.vol {cs ls : List Box} (h : BoxRefines cs ls) : (ls.map boxVol).sum = (cs.map boxVol).sum := by
  induction h with
  | nil => rfl
  | cons ht _ ih => simp [List.sum_append, ih, ht.vol]

/-- tilings compose -/
theorem tiles_refines {P : Box} {cs ls : List Box} (h : Tiles P cs) (hr : BoxRefines cs ls) : Tiles P ls where
  sub := by
    intro l hl
    obtain ⟨c, hc, hs, _⟩ := hr.exists_parent l hl
    exact subBox_trans _ _ _ hs (h.sub c hc)
  proper := by
    intro l hl
    obtain ⟨c, _, _, hp⟩ := hr.exists_parent l hl
    exact hp
  cover := by
    intro x hx
    obtain ⟨c, hc, hcx⟩ := h.cover x hx
    exact hr.cover c hc x hcx
  sep := hr.sep h.sep
  vol := by rw [hr.vol, h.vol]

end SparseSpace
