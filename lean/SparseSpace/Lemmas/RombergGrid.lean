import SparseSpace.Lemmas.RombergCont
import SparseSpace.Lemmas.RombergTree
/-!
# From slices and containers to the weight vector of `ExtrapolationGrid` (C11)
-/
namespace SparseSpace.Romberg
open SparseSpace Finset

/-! ## structure of `slicesRec` -/

/-- consecutive slices starting at `x` -/
def SChain : ℚ → List Slice → Prop
  | _, [] => True
  | x, s :: r => s.xl = x ∧ SChain s.xr r

/-- right end of the last slice (`x` for the empty list) -/
def endOf : ℚ → List Slice → ℚ
  | x, [] => x
  | _, s :: r => endOf s.xr r

theorem schain_append (x : ℚ) (l1 l2 : List Slice) :
    SChain x (l1 ++ l2) ↔ SChain x l1 ∧ SChain (endOf x l1) l2 := by
  induction l1 generalizing x with
  | nil => simp [SChain, endOf]
  | cons s r ih => simp [SChain, endOf, ih, and_assoc]

theorem endOf_append (x : ℚ) (l1 l2 : List Slice) : endOf x (l1 ++ l2) = endOf (endOf x l1) l2 := by
  induction l1 generalizing x with
  | nil => simp [endOf]
  | cons s r ih => simp [endOf, ih]

/-- telescoping over a chain of slices -/
theorem schain_telescope (F : ℚ → ℚ) (x : ℚ) (ss : List Slice) (h : SChain x ss) :
    (ss.map (fun s => F s.xr - F s.xl)).sum = F (endOf x ss) - F x := by
  induction ss generalizing x with
  | nil => simp [endOf]
  | cons s r ih =>
    obtain ⟨h1, h2⟩ := h
    simp only [List.map_cons, List.sum_cons, endOf, ih _ h2, h1]
    ring

/-- the slices produced for a segment form a chain from `L` to `R` -/
theorem slicesRec_chain (fuel : ℕ) (L R : PL) (inner : List PL) (pre : List (ℚ × ℚ)) (hf : inner.length < fuel) :
    SChain L.1 (slicesRec fuel L inner R pre) ∧ endOf L.1 (slicesRec fuel L inner R pre) = R.1
      ∧ slicesRec fuel L inner R pre ≠ [] := by
  induction fuel generalizing L R inner pre with
  | zero => omega
  | succ n ih =>
    simp only [slicesRec]
    cases hs : splitMin inner with
    | none => simp [SChain, endOf]
    | some t =>
      obtain ⟨lp, x, rp⟩ := t
      have hl := splitMin_length hs
      obtain ⟨a1, a2, a3⟩ := ih L x lp (pre ++ [(L.1, x.1)]) (by omega)
      obtain ⟨b1, b2, b3⟩ := ih x R rp (pre ++ [(x.1, R.1)]) (by omega)
      simp only
      refine ⟨?_, ?_, ?_⟩
      · rw [schain_append, a2]; exact ⟨a1, b1⟩
      · rw [endOf_append, a2, b2]
      · simp [a3]

/-- every point that occurs in a slice (end points, support pairs) is a grid point of the segment, or comes from
    the support pairs `pre` collected above the segment -/
theorem slicesRec_points (fuel : ℕ) (L R : PL) (inner : List PL) (pre : List (ℚ × ℚ)) (P : List ℚ)
    (hP : L.1 ∈ P ∧ R.1 ∈ P ∧ ∀ p ∈ inner, p.1 ∈ P) (hpre : ∀ q ∈ pre, q.1 ∈ P ∧ q.2 ∈ P) :
    ∀ s ∈ slicesRec fuel L inner R pre, s.xl ∈ P ∧ s.xr ∈ P ∧ ∀ q ∈ s.seq, q.1 ∈ P ∧ q.2 ∈ P := by
  induction fuel generalizing L R inner pre with
  | zero => simp [slicesRec]
  | succ n ih =>
    simp only [slicesRec]
    cases hs : splitMin inner with
    | none =>
      intro s hs'
      simp only [List.mem_singleton] at hs'
      subst hs'
      exact ⟨hP.1, hP.2.1, hpre⟩
    | some t =>
      obtain ⟨lp, x, rp⟩ := t
      have hin := splitMin_eq hs
      have hx : x.1 ∈ P := hP.2.2 x (by rw [hin]; simp)
      intro s hs'
      simp only [List.mem_append] at hs'
      rcases hs' with h | h
      · refine ih L x lp _ ⟨hP.1, hx, fun p hp => hP.2.2 p (by rw [hin]; simp [hp])⟩ ?_ s h
        intro q hq
        simp only [List.mem_append, List.mem_singleton] at hq
        rcases hq with hq | rfl
        · exact hpre q hq
        · exact ⟨hP.1, hx⟩
      · refine ih x R rp _ ⟨hx, hP.2.1, fun p hp => hP.2.2 p (by rw [hin]; simp [hp])⟩ ?_ s h
        intro q hq
        simp only [List.mem_append, List.mem_singleton] at hq
        rcases hq with hq | rfl
        · exact hpre q hq
        · exact ⟨hx, hP.2.1⟩

/-- if every slice has positive width, the grid points of the segment are strictly increasing -/
theorem slicesRec_sorted (fuel : ℕ) (L R : PL) (inner : List PL) (pre : List (ℚ × ℚ)) (hf : inner.length < fuel)
    (hpos : ∀ s ∈ slicesRec fuel L inner R pre, s.xl < s.xr) :
    L.1 < R.1 ∧ (∀ p ∈ inner, L.1 < p.1 ∧ p.1 < R.1) ∧ (inner.map Prod.fst).Pairwise (· < ·) := by
  induction fuel generalizing L R inner pre with
  | zero => omega
  | succ n ih =>
    simp only [slicesRec] at hpos
    cases hs : splitMin inner with
    | none =>
      rw [hs] at hpos
      have hi : inner = [] := splitMin_eq_none.mp hs
      subst hi
      have := hpos _ (List.mem_singleton.mpr rfl)
      simpa using this
    | some t =>
      obtain ⟨lp, x, rp⟩ := t
      rw [hs] at hpos
      simp only at hpos
      have hl := splitMin_length hs
      have hin := splitMin_eq hs
      obtain ⟨a1, a2, a3⟩ := ih L x lp (pre ++ [(L.1, x.1)]) (by omega)
        (fun s h => hpos s (List.mem_append_left _ h))
      obtain ⟨b1, b2, b3⟩ := ih x R rp (pre ++ [(x.1, R.1)]) (by omega)
        (fun s h => hpos s (List.mem_append_right _ h))
      refine ⟨lt_trans a1 b1, ?_, ?_⟩
      · intro p hp
        rw [hin] at hp
        simp only [List.mem_append, List.mem_cons] at hp
        rcases hp with h | rfl | h
        · exact ⟨(a2 p h).1, lt_trans (a2 p h).2 b1⟩
        · exact ⟨a1, b1⟩
        · exact ⟨lt_trans a1 (b2 p h).1, (b2 p h).2⟩
      · rw [hin, List.map_append, List.map_cons, List.pairwise_append]
        refine ⟨a3, ?_, ?_⟩
        · rw [List.pairwise_cons]
          refine ⟨?_, b3⟩
          intro y hy
          obtain ⟨p, hp, rfl⟩ := List.mem_map.mp hy
          exact (b2 p hp).1
        · intro u hu v hv
          obtain ⟨p, hp, rfl⟩ := List.mem_map.mp hu
          simp only [List.mem_cons, List.mem_map] at hv
          rcases hv with rfl | ⟨q, hq, rfl⟩
          · exact (a2 p hp).2
          · exact lt_trans (a2 p hp).2 (b2 q hq).1

/-! ## containers: grouping and adjustment -/

/-- all slices of the list have the same width -/
def EqW (c : List Slice) : Prop := ∀ s ∈ c, ∀ t ∈ c, s.width = t.width

/-- what `adjust_containers` guarantees for a container: non-empty, `2^k` slices, equal widths -/
def Good (c : List Slice) : Prop := c ≠ [] ∧ (∃ k : ℕ, c.length = 2 ^ k) ∧ EqW c

theorem groupRuns_flatten (u : Bool) (ss : List Slice) : (groupRuns u ss).flatten = ss := by
  induction ss with
  | nil => simp [groupRuns]
  | cons s r ih =>
    simp only [groupRuns]
    cases hg : groupRuns u r with
    | nil => rw [hg] at ih; simp at ih; simp [ih]
    | cons c cs =>
      rw [hg] at ih
      cases c with
      | nil => simp at ih ⊢; exact ih
      | cons t c' =>
        simp only
        split
        · simp at ih ⊢; exact ih
        · simp at ih ⊢; exact ih

theorem groupRuns_runs (u : Bool) (ss : List Slice) : ∀ c ∈ groupRuns u ss, c ≠ [] ∧ EqW c := by
  induction ss with
  | nil => simp [groupRuns]
  | cons s r ih =>
    simp only [groupRuns]
    cases hg : groupRuns u r with
    | nil => intro c hc; simp at hc; subst hc; simp [EqW]
    | cons c cs =>
      rw [hg] at ih
      cases c with
      | nil =>
        intro c hc
        simp only [List.mem_cons] at hc
        rcases hc with rfl | hc
        · simp [EqW]
        · exact ih c (List.mem_cons_of_mem _ hc)
      | cons t c' =>
        simp only
        split
        · rename_i hcond
          intro c hc
          simp only [List.mem_cons] at hc
          rcases hc with rfl | hc
          · refine ⟨by simp, ?_⟩
            have hw : s.width = t.width := by
              simp only [Bool.and_eq_true, decide_eq_true_eq] at hcond; exact hcond.2
            have hE := (ih (t :: c') List.mem_cons_self).2
            intro a ha b hb
            simp only [List.mem_cons] at ha hb
            have h1 : ∀ z, (z = s ∨ z = t ∨ z ∈ c') → z.width = t.width := by
              intro z hz
              rcases hz with rfl | rfl | hz
              · exact hw
              · rfl
              · exact hE z (List.mem_cons_of_mem _ hz) _ List.mem_cons_self
            rw [h1 a ha, h1 b hb]
          · exact ih c (List.mem_cons_of_mem _ hc)
        · intro c hc
          simp only [List.mem_cons] at hc
          rcases hc with rfl | rfl | hc
          · simp [EqW]
          · exact ih _ List.mem_cons_self
          · exact ih c (List.mem_cons_of_mem _ hc)

theorem isPow2_spec (fuel n : ℕ) (h : isPow2 fuel n = true) : ∃ k : ℕ, n = 2 ^ k := by
  induction fuel generalizing n with
  | zero => simp [isPow2] at h; exact ⟨0, by simp [h]⟩
  | succ f ih =>
    simp only [isPow2, Bool.or_eq_true, Bool.and_eq_true, beq_iff_eq, decide_eq_true_eq] at h
    rcases h with h | ⟨⟨h1, h2⟩, h3⟩
    · exact ⟨0, by simp [h]⟩
    · obtain ⟨k, hk⟩ := ih _ h3
      exact ⟨k + 1, by rw [pow_succ]; omega⟩

theorem powBelow_spec (fuel n : ℕ) (hn : 1 ≤ n) : (∃ k : ℕ, powBelow fuel n = 2 ^ k) ∧ powBelow fuel n ≤ n := by
  induction fuel generalizing n with
  | zero => exact ⟨⟨0, by simp [powBelow]⟩, by simp [powBelow]; omega⟩
  | succ f ih =>
    simp only [powBelow]
    by_cases h2 : n < 2
    · simp only [h2, if_true]; exact ⟨⟨0, by simp⟩, hn⟩
    · simp only [h2, if_false]
      obtain ⟨⟨k, hk⟩, hle⟩ := ih (n / 2) (by omega)
      exact ⟨⟨k + 1, by rw [hk, pow_succ]; ring⟩, by omega⟩

theorem splitPow2_spec (fuel : ℕ) (c : List Slice) (hf : c.length ≤ fuel) :
    (splitPow2 fuel c).flatten = c ∧
      ∀ p ∈ splitPow2 fuel c, p ≠ [] ∧ (∃ k : ℕ, p.length = 2 ^ k) ∧ ∀ s ∈ p, s ∈ c := by
  induction fuel generalizing c with
  | zero =>
    have : c = [] := List.length_eq_zero_iff.mp (by omega)
    subst this; simp [splitPow2]
  | succ f ih =>
    simp only [splitPow2]
    cases c with
    | nil => simp
    | cons s r =>
      simp only [List.isEmpty_cons, Bool.false_eq_true, if_false]
      set n := (s :: r).length with hn
      have hn1 : 1 ≤ n := by simp [hn]
      obtain ⟨⟨k, hk⟩, hle⟩ := powBelow_spec n n hn1
      have hk1 : 1 ≤ powBelow n n := by rw [hk]; exact Nat.one_le_two_pow
      have hdl : ((s :: r).drop (powBelow n n)).length ≤ f := by
        rw [List.length_drop]; simp only [List.length_cons] at hf hn ⊢; omega
      obtain ⟨i1, i2⟩ := ih _ hdl
      constructor
      · simp only [List.flatten_cons, i1, List.take_append_drop]
      · intro p hp
        simp only [List.mem_cons] at hp
        rcases hp with rfl | hp
        · refine ⟨?_, ⟨k, ?_⟩, fun x hx => List.mem_of_mem_take hx⟩
          · intro h0
            have := congrArg List.length h0
            rw [List.length_take] at this
            simp only [List.length_nil] at this
            omega
          · rw [List.length_take, ← hk]; omega
        · obtain ⟨j1, j2, j3⟩ := i2 p hp
          exact ⟨j1, j2, fun x hx => List.mem_of_mem_drop (j3 x hx)⟩

theorem adjust_cons (g : Grouping) (c : List Slice) (cs : List (List Slice)) :
    adjust g (c :: cs) =
      (if isPow2 c.length c.length then [c]
       else if g = .optimized then splitPow2 c.length c else c.map fun s => [s]) ++ adjust g cs := by
  simp [adjust]

theorem adjust_spec (g : Grouping) (cs : List (List Slice)) (h : ∀ c ∈ cs, c ≠ [] ∧ EqW c) :
    (adjust g cs).flatten = cs.flatten ∧ ∀ c ∈ adjust g cs, Good c := by
  induction cs with
  | nil => simp [adjust]
  | cons c cs ih =>
    obtain ⟨i1, i2⟩ := ih (fun x hx => h x (List.mem_cons_of_mem _ hx))
    obtain ⟨hc1, hc2⟩ := h c List.mem_cons_self
    rw [adjust_cons]
    by_cases hp : isPow2 c.length c.length = true
    · rw [if_pos hp]
      constructor
      · simp [i1]
      · intro x hx
        simp only [List.singleton_append, List.mem_cons] at hx
        rcases hx with rfl | hx
        · exact ⟨hc1, isPow2_spec _ _ hp, hc2⟩
        · exact i2 x hx
    · rw [if_neg hp]
      by_cases ho : g = .optimized
      · rw [if_pos ho]
        obtain ⟨s1, s2⟩ := splitPow2_spec c.length c (le_refl _)
        constructor
        · rw [List.flatten_append, s1, i1, List.flatten_cons]
        · intro x hx
          rw [List.mem_append] at hx
          rcases hx with hx | hx
          · obtain ⟨j1, j2, j3⟩ := s2 x hx
            exact ⟨j1, j2, fun a ha b hb => hc2 a (j3 a ha) b (j3 b hb)⟩
          · exact i2 x hx
      · rw [if_neg ho]
        constructor
        · rw [List.flatten_append, i1, List.flatten_cons]
          congr 1
          clear hp hc1 hc2 h
          induction c with
          | nil => rfl
          | cons a r ihr => simp [ihr]
        · intro x hx
          rw [List.mem_append] at hx
          rcases hx with hx | hx
          · simp only [List.mem_map] at hx
            obtain ⟨a, _, rfl⟩ := hx
            exact ⟨by simp, ⟨0, by simp⟩, by simp [EqW]⟩
          · exact i2 x hx

/-! ## quadrature sums of containers -/

theorem equi_of_chain (x h : ℚ) (c : List Slice) (hc : SChain x c) (hw : ∀ s ∈ c, s.width = h) : Equi x h c := by
  induction c generalizing x with
  | nil => trivial
  | cons s r ih =>
    obtain ⟨h1, h2⟩ := hc
    have hs : s.xr = x + h := by
      have := hw s List.mem_cons_self
      simp only [Slice.width] at this
      rw [← h1]; linarith
    refine ⟨h1, hs, ?_⟩
    rw [← hs]
    exact ih _ h2 (fun t ht => hw t (List.mem_cons_of_mem _ ht))

theorem endOf_equi (x h : ℚ) (c : List Slice) (hE : Equi x h c) : endOf x c = x + c.length * h := by
  induction c generalizing x with
  | nil => simp [endOf]
  | cons s r ih =>
    obtain ⟨h1, h2, h3⟩ := hE
    simp only [endOf, List.length_cons, Nat.cast_add, Nat.cast_one]
    rw [h2, ih _ h3]; ring

/-- what `set_grid` has checked for every slice -/
def SliceHyp (s : Slice) : Prop := s.maxLevel + 1 = s.seq.length ∧ s.xl < s.xr

/-- a container (default or Simpson, any power-of-two size) integrates affine functions exactly over the interval it
    covers -/
theorem container_wsum (sv : SliceVer) (cv : ContVer) (c : List Slice) (x α β : ℚ) (hg : Good c)
    (hch : SChain x c) (hs : ∀ s ∈ c, SliceHyp s)
    (cs : List (ℚ × ℚ)) (hc : containerContribs sv cv c = some cs) :
    wsum (fun y => α * y + β) cs = prim α β (endOf x c) - prim α β x := by
  obtain ⟨hne, ⟨k, hk⟩, hw⟩ := hg
  cases c with
  | nil => exact absurd rfl hne
  | cons s r =>
    cases r with
    | nil =>
      simp only [containerContribs] at hc
      rw [sliceContribs_wsum sv s α β cs (hs s List.mem_cons_self).1 hc]
      simp only [endOf]
      rw [hch.1]
    | cons s' r' =>
      cases k with
      | zero => simp at hk
      | succ k' =>
        set h := s.width with hh
        have hwid : ∀ t ∈ s :: s' :: r', t.width = h := fun t ht => hw t ht s List.mem_cons_self
        have hE := equi_of_chain x h _ hch hwid
        have hpos : 0 < h := by
          have := (hs s List.mem_cons_self).2
          simp only [hh, Slice.width]; linarith
        rw [containerContribs_wsum sv cv s s' r' k' x h α β hk hE cs hc]
        have hab : x ≠ x + 2 ^ (k' + 1) * h := by
          have : (0 : ℚ) < 2 ^ (k' + 1) * h := mul_pos (pow_pos (by norm_num) _) hpos
          linarith
        have ht : 2 * bwOf cv x (x + 2 ^ (k' + 1) * h) (k' + 1)
            + levelSum (fun l => iwOf cv x (x + 2 ^ (k' + 1) * h) (k' + 1) l) (k' + 1) 1
            = x + 2 ^ (k' + 1) * h - x := by
          cases cv
          · exact default_total x (x + 2 ^ (k' + 1) * h) (k' + 1) hab
          · exact simpson_total x (x + 2 ^ (k' + 1) * h) k' hab
        rw [ht, endOf_equi x h _ hE, hk]
        simp only [prim]
        push_cast
        ring

/-- concatenated containers along a chain integrate affine functions exactly over the union -/
theorem allContribs_wsum (sv : SliceVer) (cv : ContVer) (conts : List (List Slice)) (x α β : ℚ)
    (hg : ∀ c ∈ conts, Good c)
    (hch : SChain x conts.flatten) (hs : ∀ s ∈ conts.flatten, SliceHyp s)
    (cs : List (ℚ × ℚ)) (hc : allContribs sv cv conts = some cs) :
    wsum (fun y => α * y + β) cs = prim α β (endOf x conts.flatten) - prim α β x := by
  induction conts generalizing x cs with
  | nil => simp [allContribs] at hc; subst hc; simp [endOf]
  | cons c rest ih =>
    simp only [allContribs] at hc
    cases h1 : containerContribs sv cv c with
    | none => rw [h1] at hc; simp at hc
    | some c1 =>
      cases h2 : allContribs sv cv rest with
      | none => rw [h1, h2] at hc; simp at hc
      | some c2 =>
        rw [h1, h2] at hc
        simp only [Option.some.injEq] at hc
        subst hc
        rw [List.flatten_cons, schain_append] at hch
        rw [List.flatten_cons, endOf_append, wsum_append]
        rw [container_wsum sv cv c x α β (hg c List.mem_cons_self) hch.1
            (fun s hs' => hs s (by simp [hs'])) c1 h1,
          ih (endOf x c) (fun c' hc' => hg c' (List.mem_cons_of_mem _ hc')) hch.2
            (fun s hs' => hs s (by rw [List.flatten_cons]; exact List.mem_append_right _ hs')) c2 h2]
        ring

/-! ## keys of the weight dictionary -/

theorem rombergContribs_keys (s : Slice) (a b : ℚ) (seq : List (ℚ × ℚ)) (k : ℕ) (cs : List (ℚ × ℚ))
    (h : rombergContribs s a b seq k = some cs) : ∀ e ∈ cs, ∃ q ∈ seq, e.1 = q.1 ∨ e.1 = q.2 := by
  induction seq generalizing k cs with
  | nil => simp [rombergContribs] at h; subst h; simp
  | cons q rest ih =>
    obtain ⟨L, R⟩ := q
    simp only [rombergContribs] at h
    split at h
    · cases hr : rombergContribs s a b rest (k + 1) with
      | none => rw [hr] at h; simp at h
      | some t =>
        rw [hr] at h
        simp only [Option.some.injEq] at h
        subst h
        intro e he
        simp only [List.mem_cons] at he
        rcases he with rfl | rfl | he
        · exact ⟨(L, R), by simp, Or.inl rfl⟩
        · exact ⟨(L, R), by simp, Or.inr rfl⟩
        · obtain ⟨q, hq, hq'⟩ := ih (k + 1) t hr e he
          exact ⟨q, List.mem_cons_of_mem _ hq, hq'⟩
    · simp at h

/-- a point "belongs" to a slice: end point or support point -/
def PointOf (p : ℚ) (s : Slice) : Prop := p = s.xl ∨ p = s.xr ∨ ∃ q ∈ s.seq, p = q.1 ∨ p = q.2

theorem sliceContribs_keys (v : SliceVer) (s : Slice) (cs : List (ℚ × ℚ)) (h : sliceContribs v s = some cs) :
    ∀ e ∈ cs, PointOf e.1 s := by
  cases v with
  | trapezoid =>
    simp only [sliceContribs, Option.some.injEq] at h
    subst h
    intro e he
    simp only [List.mem_cons, List.not_mem_nil, or_false] at he
    rcases he with rfl | rfl
    · exact Or.inl rfl
    · exact Or.inr (Or.inl rfl)
  | romberg =>
    simp only [sliceContribs] at h
    cases hseq : s.seq with
    | nil => rw [hseq] at h; simp at h
    | cons q rest =>
      obtain ⟨a, b⟩ := q
      rw [hseq] at h
      intro e he
      obtain ⟨q, hq, hq'⟩ := rombergContribs_keys s a b _ 0 cs h e he
      exact Or.inr (Or.inr ⟨q, by rw [hseq]; exact hq, hq'⟩)

theorem contPoints_mem (c : List Slice) : ∀ p ∈ contPoints c, ∃ s ∈ c, p = s.xl ∨ p = s.xr := by
  induction c with
  | nil => simp [contPoints]
  | cons s r ih =>
    cases r with
    | nil =>
      intro p hp
      simp only [contPoints, List.mem_cons, List.not_mem_nil, or_false] at hp
      exact ⟨s, by simp, hp⟩
    | cons s' r' =>
      intro p hp
      simp only [contPoints, List.mem_cons] at hp
      rcases hp with rfl | hp
      · exact ⟨s, by simp, Or.inl rfl⟩
      · obtain ⟨t, ht, ht'⟩ := ih p (by simpa [contPoints] using hp)
        exact ⟨t, List.mem_cons_of_mem _ ht, ht'⟩

theorem containerContribs_keys (sv : SliceVer) (cv : ContVer) (c : List Slice) (cs : List (ℚ × ℚ))
    (h : containerContribs sv cv c = some cs) : ∀ e ∈ cs, ∃ s ∈ c, PointOf e.1 s := by
  cases c with
  | nil => simp [containerContribs] at h
  | cons s r =>
    cases r with
    | nil =>
      simp only [containerContribs] at h
      intro e he
      exact ⟨s, by simp, sliceContribs_keys sv s cs h e he⟩
    | cons s' r' =>
      simp only [containerContribs] at h
      split at h
      · simp at h
      · simp only [Option.some.injEq] at h
        subst h
        intro e he
        have := (List.of_mem_zip (a := e.1) (b := e.2) he).1
        obtain ⟨t, ht, ht'⟩ := contPoints_mem _ e.1 this
        refine ⟨t, ht, ?_⟩
        rcases ht' with h | h
        · exact Or.inl h
        · exact Or.inr (Or.inl h)

theorem allContribs_keys (sv : SliceVer) (cv : ContVer) (conts : List (List Slice)) (cs : List (ℚ × ℚ))
    (h : allContribs sv cv conts = some cs) : ∀ e ∈ cs, ∃ s ∈ conts.flatten, PointOf e.1 s := by
  induction conts generalizing cs with
  | nil => simp [allContribs] at h; subst h; simp
  | cons c rest ih =>
    simp only [allContribs] at h
    cases h1 : containerContribs sv cv c with
    | none => rw [h1] at h; simp at h
    | some c1 =>
      cases h2 : allContribs sv cv rest with
      | none => rw [h1, h2] at h; simp at h
      | some c2 =>
        rw [h1, h2] at h
        simp only [Option.some.injEq] at h
        subst h
        intro e he
        rw [List.mem_append] at he
        rcases he with he | he
        · obtain ⟨s, hs, hs'⟩ := containerContribs_keys sv cv c c1 h1 e he
          exact ⟨s, by simp [hs], hs'⟩
        · obtain ⟨s, hs, hs'⟩ := ih c2 h2 e he
          exact ⟨s, by rw [List.flatten_cons]; exact List.mem_append_right _ hs, hs'⟩

/-! ## assembling `set_grid` + `get_weights` -/

theorem ends_spec {α : Type} (l : List α) (f la : α) (i : List α) (h : ends l = some (f, i, la)) :
    l = f :: (i ++ [la]) := by
  cases l with
  | nil => simp [ends] at h
  | cons x rest =>
    simp only [ends] at h
    cases hr : rest.reverse with
    | nil => rw [hr] at h; simp at h
    | cons y ir =>
      rw [hr] at h
      simp only [Option.some.injEq, Prod.mk.injEq] at h
      obtain ⟨rfl, rfl, rfl⟩ := h
      have : rest = (y :: ir).reverse := by rw [← hr, List.reverse_reverse]
      rw [this]; simp

theorem btree_len (t : BTree) (k : ℕ) : t.inorder.length = (t.levels k).length := by
  induction t generalizing k with
  | nil => simp [BTree.inorder, BTree.levels]
  | node l p r ihl ihr => simp [BTree.inorder, BTree.levels, ihl (k + 1), ihr (k + 1)]

theorem effectiveGrid_len (cfg : Cfg) (grid : List ℚ) (lv : List ℕ) (g : List ℚ) (l : List ℕ)
    (h : effectiveGrid cfg grid lv = some (g, l)) : g.length = l.length := by
  simp only [effectiveGrid] at h
  split at h
  · simp at h
  · rename_i hlen
    split at h
    · cases ht : GBT.initTree grid lv with
      | none => rw [ht] at h; simp at h
      | some t =>
        rw [ht] at h
        simp only [Option.some.injEq, Prod.mk.injEq] at h
        obtain ⟨rfl, rfl⟩ := h
        simp [GBT.grid, GBT.gridLevels, GBT.forceFull, btree_len _ 1]
    · simp only [Option.some.injEq, Prod.mk.injEq] at h
      obtain ⟨rfl, rfl⟩ := h
      exact not_not.mp (not_or.mp hlen).1

theorem groupRuns_unit (ss : List Slice) : ∀ c ∈ groupRuns true ss, c.length = 1 := by
  induction ss with
  | nil => simp [groupRuns]
  | cons s r ih =>
    simp only [groupRuns]
    cases hg : groupRuns true r with
    | nil => simp
    | cons c cs =>
      rw [hg] at ih
      cases c with
      | nil =>
        intro c hc
        simp only [List.mem_cons] at hc
        rcases hc with rfl | hc
        · rfl
        · exact ih c (List.mem_cons_of_mem _ hc)
      | cons t c' =>
        simp only [Bool.not_true, Bool.false_and, Bool.false_eq_true, if_false]
        intro c hc
        simp only [List.mem_cons] at hc
        rcases hc with rfl | rfl | hc
        · rfl
        · exact ih _ List.mem_cons_self
        · exact ih c (List.mem_cons_of_mem _ hc)

theorem adjust_unit (g : Grouping) (cs : List (List Slice)) (h : ∀ c ∈ cs, c.length = 1) :
    ∀ c ∈ adjust g cs, c.length = 1 := by
  induction cs with
  | nil => simp [adjust]
  | cons c cs ih =>
    rw [adjust_cons]
    have hc := h c List.mem_cons_self
    have : isPow2 c.length c.length = true := by rw [hc]; rfl
    rw [if_pos this]
    intro x hx
    simp only [List.singleton_append, List.mem_cons] at hx
    rcases hx with rfl | hx
    · exact hc
    · exact ih (fun y hy => h y (List.mem_cons_of_mem _ hy)) x hx

/-- **main lemma**: after a successful `set_grid`, the vector returned by `get_weights` has one entry per grid point
    and integrates every affine function exactly -- for every grouping, slice version and container version -/
theorem setGrid_weights (cfg : Cfg) (grid : List ℚ) (lv : List ℕ) (st : EG) (ws : List ℚ)
    (h1 : setGrid cfg grid lv = some st) (h2 : st.weights cfg = some ws) :
    ws.length = st.grid.length ∧ st.grid.Nodup ∧
      ∀ α β : ℚ, dot ws (st.grid.map (fun y => α * y + β)) = prim α β st.b - prim α β st.a := by
  simp only [setGrid] at h1
  cases he : effectiveGrid cfg grid lv with
  | none => rw [he] at h1; simp at h1
  | some gl =>
    obtain ⟨g, l⟩ := gl
    rw [he] at h1
    simp only at h1
    have hlen := effectiveGrid_len cfg grid lv g l he
    cases hso : slicesOf (g.zip l) with
    | none => rw [hso] at h1; simp at h1
    | some abs =>
      obtain ⟨a, b, ss⟩ := abs
      rw [hso] at h1
      simp only at h1
      split at h1
      · rename_i hok
        simp only [Option.some.injEq] at h1
        subst h1
        simp only [EG.weights] at h2
        cases hall : allContribs cfg.sliceVer cfg.contVer
            (adjust cfg.grouping (groupRuns (decide (cfg.grouping = Grouping.unit)) ss)) with
        | none => rw [hall] at h2; simp at h2
        | some cs =>
          rw [hall] at h2
          simp only [Option.some.injEq] at h2
          subst h2
          -- structure of the slices
          simp only [slicesOf] at hso
          cases hen : ends (g.zip l) with
          | none => rw [hen] at hso; simp at hso
          | some fil =>
            obtain ⟨first, inner, last⟩ := fil
            rw [hen] at hso
            simp only [Option.some.injEq, Prod.mk.injEq] at hso
            obtain ⟨rfl, rfl, rfl⟩ := hso
            have hz := ends_spec _ _ _ _ hen
            have hg : g = first.1 :: (inner.map Prod.fst ++ [last.1]) := by
              have := congrArg (List.map Prod.fst) hz
              rw [List.map_fst_zip (le_of_eq hlen)] at this
              simpa using this
            set ss := slicesRec (inner.length + 1) first inner last [(first.1, last.1)] with hss
            obtain ⟨c1, c2, c3⟩ := slicesRec_chain (inner.length + 1) first last inner [(first.1, last.1)]
              (Nat.lt_succ_self _)
            have hhyp : ∀ s ∈ ss, SliceHyp s := by
              intro s hs
              have := List.all_eq_true.mp hok s hs
              simp only [sliceOk, Bool.and_eq_true, decide_eq_true_eq] at this
              exact ⟨this.2, this.1.2⟩
            obtain ⟨o1, o2, o3⟩ := slicesRec_sorted (inner.length + 1) first last inner [(first.1, last.1)]
              (Nat.lt_succ_self _) (fun s hs => (hhyp s hs).2)
            have hnd : g.Nodup := by
              rw [hg]
              have hpw : (first.1 :: (inner.map Prod.fst ++ [last.1])).Pairwise (· < ·) := by
                rw [List.pairwise_cons]
                constructor
                · intro y hy
                  simp only [List.mem_append, List.mem_map, List.mem_singleton] at hy
                  rcases hy with ⟨p, hp, rfl⟩ | rfl
                  · exact (o2 p hp).1
                  · exact o1
                · rw [List.pairwise_append]
                  refine ⟨o3, by simp, ?_⟩
                  intro u hu v hv
                  obtain ⟨p, hp, rfl⟩ := List.mem_map.mp hu
                  simp only [List.mem_singleton] at hv
                  subst hv
                  exact (o2 p hp).2
              exact hpw.imp (fun h => ne_of_lt h)
            have hpts := slicesRec_points (inner.length + 1) first last inner [(first.1, last.1)] g
              (by rw [hg]; refine ⟨by simp, by simp, fun p hp => ?_⟩
                  simp only [List.mem_cons, List.mem_append, List.mem_map]
                  exact Or.inr (Or.inl ⟨p, hp, rfl⟩))
              (by intro q hq
                  simp only [List.mem_singleton] at hq
                  subst hq
                  rw [hg]; simp)
            -- containers
            obtain ⟨a1, a2⟩ := adjust_spec cfg.grouping _
              (groupRuns_runs (decide (cfg.grouping = Grouping.unit)) ss)
            rw [groupRuns_flatten] at a1
            refine ⟨by simp [finalWeights], hnd, ?_⟩
            intro α β
            have hkeys : ∀ e ∈ cs, e.1 ∈ g := by
              intro e he'
              obtain ⟨s, hs, hp⟩ := allContribs_keys _ _ _ cs hall e he'
              rw [a1] at hs
              obtain ⟨p1, p2, p3⟩ := hpts s hs
              rcases hp with h | h | ⟨q, hq, h | h⟩
              · rw [h]; exact p1
              · rw [h]; exact p2
              · rw [h]; exact (p3 q hq).1
              · rw [h]; exact (p3 q hq).2
            rw [dot_finalWeights g cs _ hnd hkeys]
            have := allContribs_wsum cfg.sliceVer cfg.contVer _ first.1 α β a2
              (by rw [a1]; exact c1) (by rw [a1]; exact hhyp) cs hall
            rw [this, a1, c2]
      · simp at h1

/-- structure after a successful `set_grid` + `get_weights`: the weight vector is the dictionary of container
    contributions read along the grid, the containers are `Good` and chain from `a` to `b` -/
theorem setGrid_struct (cfg : Cfg) (grid : List ℚ) (lv : List ℕ) (st : EG) (ws : List ℚ)
    (h1 : setGrid cfg grid lv = some st) (h2 : st.weights cfg = some ws) :
    ∃ cs, allContribs cfg.sliceVer cfg.contVer st.containers = some cs ∧
      (∀ f : ℚ → ℚ, dot ws (st.grid.map f) = wsum f cs) ∧
      SChain st.a st.containers.flatten ∧ endOf st.a st.containers.flatten = st.b ∧
      (∀ c ∈ st.containers, Good c) ∧ (∀ s ∈ st.containers.flatten, SliceHyp s) := by
  simp only [setGrid] at h1
  cases he : effectiveGrid cfg grid lv with
  | none => rw [he] at h1; simp at h1
  | some gl =>
    obtain ⟨g, l⟩ := gl
    rw [he] at h1
    simp only at h1
    have hlen := effectiveGrid_len cfg grid lv g l he
    cases hso : slicesOf (g.zip l) with
    | none => rw [hso] at h1; simp at h1
    | some abs =>
      obtain ⟨a, b, ss⟩ := abs
      rw [hso] at h1
      simp only at h1
      split at h1
      · rename_i hok
        simp only [Option.some.injEq] at h1
        subst h1
        simp only [EG.weights] at h2
        cases hall : allContribs cfg.sliceVer cfg.contVer
            (adjust cfg.grouping (groupRuns (decide (cfg.grouping = Grouping.unit)) ss)) with
        | none => rw [hall] at h2; simp at h2
        | some cs =>
          rw [hall] at h2
          simp only [Option.some.injEq] at h2
          subst h2
          -- structure of the slices
          simp only [slicesOf] at hso
          cases hen : ends (g.zip l) with
          | none => rw [hen] at hso; simp at hso
          | some fil =>
            obtain ⟨first, inner, last⟩ := fil
            rw [hen] at hso
            simp only [Option.some.injEq, Prod.mk.injEq] at hso
            obtain ⟨rfl, rfl, rfl⟩ := hso
            have hz := ends_spec _ _ _ _ hen
            have hg : g = first.1 :: (inner.map Prod.fst ++ [last.1]) := by
              have := congrArg (List.map Prod.fst) hz
              rw [List.map_fst_zip (le_of_eq hlen)] at this
              simpa using this
            set ss := slicesRec (inner.length + 1) first inner last [(first.1, last.1)] with hss
            obtain ⟨c1, c2, c3⟩ := slicesRec_chain (inner.length + 1) first last inner [(first.1, last.1)]
              (Nat.lt_succ_self _)
            have hhyp : ∀ s ∈ ss, SliceHyp s := by
              intro s hs
              have := List.all_eq_true.mp hok s hs
              simp only [sliceOk, Bool.and_eq_true, decide_eq_true_eq] at this
              exact ⟨this.2, this.1.2⟩
            obtain ⟨o1, o2, o3⟩ := slicesRec_sorted (inner.length + 1) first last inner [(first.1, last.1)]
              (Nat.lt_succ_self _) (fun s hs => (hhyp s hs).2)
            have hnd : g.Nodup := by
              rw [hg]
              have hpw : (first.1 :: (inner.map Prod.fst ++ [last.1])).Pairwise (· < ·) := by
                rw [List.pairwise_cons]
                constructor
                · intro y hy
                  simp only [List.mem_append, List.mem_map, List.mem_singleton] at hy
                  rcases hy with ⟨p, hp, rfl⟩ | rfl
                  · exact (o2 p hp).1
                  · exact o1
                · rw [List.pairwise_append]
                  refine ⟨o3, by simp, ?_⟩
                  intro u hu v hv
                  obtain ⟨p, hp, rfl⟩ := List.mem_map.mp hu
                  simp only [List.mem_singleton] at hv
                  subst hv
                  exact (o2 p hp).2
              exact hpw.imp (fun h => ne_of_lt h)
            have hpts := slicesRec_points (inner.length + 1) first last inner [(first.1, last.1)] g
              (by rw [hg]; refine ⟨by simp, by simp, fun p hp => ?_⟩
                  simp only [List.mem_cons, List.mem_append, List.mem_map]
                  exact Or.inr (Or.inl ⟨p, hp, rfl⟩))
              (by intro q hq
                  simp only [List.mem_singleton] at hq
                  subst hq
                  rw [hg]; simp)
            -- containers
            obtain ⟨a1, a2⟩ := adjust_spec cfg.grouping _
              (groupRuns_runs (decide (cfg.grouping = Grouping.unit)) ss)
            rw [groupRuns_flatten] at a1
            have hkeys : ∀ e ∈ cs, e.1 ∈ g := by
              intro e he'
              obtain ⟨s, hs, hp⟩ := allContribs_keys _ _ _ cs hall e he'
              rw [a1] at hs
              obtain ⟨p1, p2, p3⟩ := hpts s hs
              rcases hp with h | h | ⟨q, hq, h | h⟩
              · rw [h]; exact p1
              · rw [h]; exact p2
              · rw [h]; exact (p3 q hq).1
              · rw [h]; exact (p3 q hq).2
            refine ⟨cs, rfl, fun f => dot_finalWeights g cs f hnd hkeys, ?_, ?_, a2, ?_⟩
            · simp only; rw [a1]; exact c1
            · simp only; rw [a1]; exact c2
            · simp only; rw [a1]; exact hhyp
      · simp at h1

end SparseSpace.Romberg
