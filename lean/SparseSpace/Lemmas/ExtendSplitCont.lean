import SparseSpace.Lemmas.ExtendSplitHist
import Mathlib.Data.List.Nodup
/-!
# Container invariant of the extend–split state (C07)

`EState.Inv2`: object identities are unique and below `next`; the container lists every identity once; the container
minus the positions awaiting removal is exactly the set of leaves of the refinement tree; coarsening values are
bounded by `lmax - lmax0`.  Preserved by every operation; between rounds the container therefore IS (a permutation
of) the leaf list, so the container's areas tile the domain.
-/
namespace SparseSpace

def Forest.ids (f : Forest) : List Nat := f.nodes.map (·.id)

/-! ### `find?`, `attach` and identities -/

theorem Forest.find?_none_iff (i : Nat) : ∀ f : Forest, f.find? i = none ↔ i ∉ f.ids
  | .nil => by simp [Forest.find?, Forest.ids, Forest.nodes]
  | .cons a ch sib => by
      have h1 := Forest.find?_none_iff i ch
      have h2 := Forest.find?_none_iff i sib
      have hids : (Forest.cons a ch sib).ids = a.id :: (ch.ids ++ sib.ids) := by
        simp [Forest.ids, Forest.nodes]
      rw [hids, List.mem_cons, List.mem_append, not_or, not_or]
      by_cases hb : (a.id == i) = true
      · rw [Forest.find?, if_pos hb]
        have : a.id = i := by simpa using hb
        constructor
        · intro h; cases h
        · intro h; exact absurd this.symm h.1
      · rw [Forest.find?, if_neg hb]
        have hne : ¬ i = a.id := fun h => hb (by simp [h])
        cases hc : ch.find? i with
        | some r =>
          constructor
          · intro h; cases h
          · intro h
            rw [h1.2 h.2.1] at hc
            cases hc
        | none =>
          constructor
          · intro h; exact ⟨hne, h1.1 hc, h2.1 h⟩
          · intro h; exact h2.2 h.2.2

theorem Forest.find?_some (i : Nat) : ∀ (f : Forest) (a : ESArea) (ch : Forest), f.find? i = some (a, ch) →
    a ∈ f.nodes ∧ a.id = i
  | .nil, _, _, h => by simp [Forest.find?] at h
  | .cons b c sib, a, ch, h => by
      by_cases hb : (b.id == i) = true
      · rw [Forest.find?, if_pos hb] at h
        simp only [Option.some.injEq, Prod.mk.injEq] at h
        obtain ⟨rfl, _⟩ := h
        exact ⟨by simp [Forest.nodes], by simpa using hb⟩
      · rw [Forest.find?, if_neg hb] at h
        cases hc : c.find? i with
        | some r =>
          rw [hc] at h
          simp only [Option.some.injEq] at h
          subst h
          obtain ⟨h1, h2⟩ := Forest.find?_some i c a ch hc
          exact ⟨by simp [Forest.nodes, h1], h2⟩
        | none =>
          rw [hc] at h
          obtain ⟨h1, h2⟩ := Forest.find?_some i sib a ch h
          exact ⟨by simp [Forest.nodes, h1], h2⟩

theorem Forest.attach_eq_self (i : Nat) (mk : ESArea → Forest) : ∀ f : Forest, i ∉ f.ids → f.attach i mk = f
  | .nil, _ => rfl
  | .cons a ch sib, h => by
      simp only [Forest.ids, Forest.nodes, List.map_cons, List.map_append, List.mem_cons, List.mem_append, not_or] at h
      have hne : ¬ (a.id == i && ch.isNil) = true := by
        intro hh
        simp only [Bool.and_eq_true, beq_iff_eq] at hh
        exact h.1 hh.1.symm
      rw [Forest.attach, if_neg hne, Forest.attach_eq_self i mk ch h.2.1, Forest.attach_eq_self i mk sib h.2.2]

/-- with unique identities, attaching at the childless object `a` adds exactly the nodes of its new children -/
theorem Forest.nodes_attach_perm (i : Nat) (mk : ESArea → Forest) : ∀ (f : Forest) (a : ESArea) (ch : Forest),
    f.ids.Nodup → f.find? i = some (a, ch) → ch.isNil = true →
    (f.attach i mk).nodes.Perm (f.nodes ++ (mk a).nodes)
  | .nil, _, _, _, h, _ => by simp [Forest.find?] at h
  | .cons b c sib, a, ch, hnd, h, hnil => by
      simp only [Forest.ids, Forest.nodes, List.map_cons, List.map_append, List.nodup_cons, List.mem_append,
        not_or, List.nodup_append] at hnd
      obtain ⟨⟨hbc, hbs⟩, hcn, hsn, hdis⟩ := hnd
      by_cases hb : (b.id == i) = true
      · rw [Forest.find?, if_pos hb] at h
        simp only [Option.some.injEq, Prod.mk.injEq] at h
        obtain ⟨rfl, rfl⟩ := h
        have hbi : b.id = i := by simpa using hb
        have hc : (b.id == i && c.isNil) = true := by simp [hbi, hnil]
        have hcnil : c = .nil := (Forest.isNil_iff c).1 hnil
        subst hcnil
        have hs : sib.attach i mk = sib := Forest.attach_eq_self i mk sib (by rw [← hbi]; exact hbs)
        rw [Forest.attach, if_pos hc, hs]
        simp only [Forest.nodes, List.nil_append, List.cons_append]
        exact List.Perm.cons _ List.perm_append_comm
      · have hne : ¬ (b.id == i && c.isNil) = true := by simp [hb]
        rw [Forest.find?, if_neg hb] at h
        rw [Forest.attach, if_neg hne]
        cases hc : c.find? i with
        | some r =>
          rw [hc] at h
          simp only [Option.some.injEq] at h
          subst h
          have hin : i ∈ c.ids := by
            by_contra hh
            rw [(Forest.find?_none_iff i c).2 hh] at hc
            cases hc
          have hs : sib.attach i mk = sib := Forest.attach_eq_self i mk sib (fun hh => hdis i hin i hh rfl)
          have ih := Forest.nodes_attach_perm i mk c a ch hcn hc hnil
          rw [hs]
          simp only [Forest.nodes, List.cons_append]
          refine List.Perm.cons _ ?_
          refine (List.Perm.append_right _ ih).trans ?_
          rw [List.append_assoc, List.append_assoc]
          exact List.Perm.append_left _ List.perm_append_comm
        | none =>
          rw [hc] at h
          have hcs : c.attach i mk = c := Forest.attach_eq_self i mk c ((Forest.find?_none_iff i c).1 hc)
          have ih := Forest.nodes_attach_perm i mk sib a ch hsn h hnil
          rw [hcs]
          simp only [Forest.nodes, List.cons_append]
          refine List.Perm.cons _ ?_
          rw [List.append_assoc]
          exact List.Perm.append_left _ ih

theorem Forest.leaves_sublist_nodes : ∀ f : Forest, f.leaves.Sublist f.nodes
  | .nil => List.Sublist.slnil
  | .cons a ch sib => by
      simp only [Forest.leaves, Forest.nodes]
      by_cases hn : ch.isNil = true
      · have : ch = .nil := (Forest.isNil_iff ch).1 hn
        subst this
        simp only [Forest.isNil, if_true, Forest.nodes, List.nil_append, List.cons_append]
        exact List.Sublist.cons_cons _ (Forest.leaves_sublist_nodes sib)
      · rw [if_neg hn]
        exact List.Sublist.cons _ (List.Sublist.append (Forest.leaves_sublist_nodes ch) (Forest.leaves_sublist_nodes sib))

theorem Forest.leafIds_nodup (f : Forest) (h : f.ids.Nodup) : (f.leaves.map (·.id)).Nodup :=
  List.Nodup.sublist ((Forest.leaves_sublist_nodes f).map _) h

/-- a leaf found by identity -/
theorem Forest.find?_leaf_mem (i : Nat) : ∀ (f : Forest) (a : ESArea) (ch : Forest), f.find? i = some (a, ch) →
    ch.isNil = true → a ∈ f.leaves
  | .nil, _, _, h, _ => by simp [Forest.find?] at h
  | .cons b c sib, a, ch, h, hnil => by
      simp only [Forest.leaves, List.mem_append]
      by_cases hb : (b.id == i) = true
      · rw [Forest.find?, if_pos hb] at h
        simp only [Option.some.injEq, Prod.mk.injEq] at h
        obtain ⟨rfl, rfl⟩ := h
        left; simp [hnil]
      · rw [Forest.find?, if_neg hb] at h
        cases hc : c.find? i with
        | some r =>
          rw [hc] at h
          simp only [Option.some.injEq] at h
          subst h
          have hcn : ¬ c.isNil = true := by
            intro hh
            rw [(Forest.isNil_iff c).1 hh] at hc
            simp [Forest.find?] at hc
          left; rw [if_neg hcn]
          exact Forest.find?_leaf_mem i c a ch hc hnil
        | none =>
          rw [hc] at h
          right
          exact Forest.find?_leaf_mem i sib a ch h hnil

/-- with unique identities, the object found for the identity of a leaf is that leaf (and childless) -/
theorem Forest.find?_of_leaf (f : Forest) (h : f.ids.Nodup) (l : ESArea) (hl : l ∈ f.leaves) :
    ∃ ch, f.find? l.id = some (l, ch) ∧ ch.isNil = true := by
  induction f with
  | nil => simp [Forest.leaves] at hl
  | cons b c sib ih1 ih2 =>
    simp only [Forest.ids, Forest.nodes, List.map_cons, List.map_append, List.nodup_cons, List.mem_append,
      not_or, List.nodup_append] at h
    obtain ⟨⟨hbc, hbs⟩, hcn, hsn, hdis⟩ := h
    simp only [Forest.leaves, List.mem_append] at hl
    by_cases hn : c.isNil = true
    · rw [if_pos hn] at hl
      rcases hl with hl | hl
      · simp only [List.mem_cons, List.not_mem_nil, or_false] at hl
        subst hl
        exact ⟨c, by simp [Forest.find?], hn⟩
      · have hlid : l.id ∈ sib.ids := List.mem_map.2 ⟨l, Forest.leaves_subset_nodes sib l hl, rfl⟩
        have hb : ¬ (b.id == l.id) = true := by
          intro hh
          have : b.id = l.id := by simpa using hh
          exact hbs (this ▸ hlid)
        obtain ⟨ch, h1, h2⟩ := ih2 hsn hl
        have hcf : c.find? l.id = none := by
          rw [(Forest.isNil_iff c).1 hn]; rfl
        exact ⟨ch, by rw [Forest.find?, if_neg hb, hcf]; exact h1, h2⟩
    · rw [if_neg hn] at hl
      rcases hl with hl | hl
      · have hlid : l.id ∈ c.ids := List.mem_map.2 ⟨l, Forest.leaves_subset_nodes c l hl, rfl⟩
        have hb : ¬ (b.id == l.id) = true := by
          intro hh
          have : b.id = l.id := by simpa using hh
          exact hbc (this ▸ hlid)
        obtain ⟨ch, h1, h2⟩ := ih1 hcn hl
        exact ⟨ch, by rw [Forest.find?, if_neg hb, h1], h2⟩
      · have hlid : l.id ∈ sib.ids := List.mem_map.2 ⟨l, Forest.leaves_subset_nodes sib l hl, rfl⟩
        have hb : ¬ (b.id == l.id) = true := by
          intro hh
          have : b.id = l.id := by simpa using hh
          exact hbs (this ▸ hlid)
        have hcf : c.find? l.id = none :=
          (Forest.find?_none_iff _ c).2 (fun hh => hdis _ hh _ hlid rfl)
        obtain ⟨ch, h1, h2⟩ := ih2 hsn hl
        exact ⟨ch, by rw [Forest.find?, if_neg hb, hcf]; exact h1, h2⟩

/-! ### identities of the new children -/

theorem mkChildren_ids (a : ESArea) : ∀ (bs : List Box) (next : Nat),
    (mkChildren a next bs).map (·.id) = List.range' next bs.length
  | [], _ => rfl
  | _ :: bs, next => by simp [mkChildren, mkChild, mkChildren_ids a bs (next + 1), List.range']

theorem splitAll_length : ∀ b : Box, (splitAll b).length = 2 ^ b.length
  | [] => rfl
  | _ :: b => by
      have ih := splitAll_length b
      have : ∀ (l : List Box) (g : Box → List Box), (∀ r, (g r).length = 2) → (l.flatMap g).length = 2 * l.length := by
        intro l g hg
        induction l with
        | nil => rfl
        | cons r l ihl => simp [List.flatMap_cons, hg, ihl]; omega
      rw [splitAll, this _ _ (fun r => rfl), ih, List.length_cons, pow_succ]
      omega

/-- identities of a children forest: unique, in `[next, next')` -/
def FreshIds (K : Forest) (next next' : Nat) : Prop :=
  K.ids.Nodup ∧ (∀ x ∈ K.ids, next ≤ x ∧ x < next') ∧ next ≤ next'

theorem splitDimsForest_fresh : ∀ (ds : List Nat) (a : ESArea) (next : Nat),
    FreshIds (splitDimsForest ds a next).1 next (splitDimsForest ds a next).2
  | [], _, next => by simp [splitDimsForest, FreshIds, Forest.ids, Forest.nodes]
  | d :: ds, a, next => by
      set lo := mkChild a next (splitDim a.box d).1 with hlo
      obtain ⟨l1, l2, l3⟩ := splitDimsForest_fresh ds lo (next + 1)
      set rl := splitDimsForest ds lo (next + 1) with hrl
      set hi := mkChild a rl.2 (splitDim a.box d).2 with hhi
      obtain ⟨h1, h2, h3⟩ := splitDimsForest_fresh ds hi (rl.2 + 1)
      set rh := splitDimsForest ds hi (rl.2 + 1) with hrh
      have hdef : splitDimsForest (d :: ds) a next = (.cons lo rl.1 (.cons hi rh.1 .nil), rh.2) := rfl
      rw [hdef]
      have hloid : lo.id = next := rfl
      have hhiid : hi.id = rl.2 := rfl
      simp only [Forest.ids] at l1 l2 h1 h2
      refine ⟨?_, ?_, by omega⟩
      · simp only [Forest.ids, Forest.nodes, List.map_cons, List.map_append, List.append_nil,
          List.nodup_cons, List.mem_append, List.mem_cons, not_or, List.nodup_append, hloid, hhiid]
        refine ⟨⟨?_, ?_, ?_⟩, l1, ⟨?_, h1⟩, ?_⟩
        · intro hh; have := (l2 _ hh).1; omega
        · omega
        · intro hh; have := (h2 _ hh).1; omega
        · intro hh; have := (h2 _ hh).1; omega
        · intro x hx y hy hxy
          subst hxy
          have := (l2 _ hx).2
          rcases hy with rfl | hy
          · omega
          · have := (h2 _ hy).1; omega
      · intro x hx
        simp only [Forest.ids, Forest.nodes, List.map_cons, List.map_append, List.append_nil,
          List.mem_cons, List.mem_append, hloid, hhiid] at hx
        rcases hx with rfl | hx | rfl | hx
        · omega
        · have := l2 _ hx; omega
        · omega
        · have := h2 _ hx; omega

theorem newChildren_fresh (s : EState) (a : ESArea) (e : Bool) (dims : List Nat) (K : Forest) (n' : Nat) (r : Bool)
    (ha : AreaOK s.dim a) (h : s.newChildren a e dims = some (K, n', r)) : FreshIds K s.next n' := by
  dsimp only [EState.newChildren] at h
  by_cases h1 : (if s.auto = true then e else decide (a.needExtend ≥ s.nrbe)) = true
  · rw [if_pos h1] at h
    simp only [Option.some.injEq, Prod.mk.injEq] at h
    obtain ⟨rfl, rfl, _⟩ := h
    simp [FreshIds, Forest.ids, Forest.nodes, extendChild]
  · rw [if_neg h1] at h
    by_cases h2 : (s.auto || decide (a.needExtend ≥ 0)) = true
    · rw [if_pos h2] at h
      by_cases h3 : s.single = true
      · rw [if_pos h3] at h
        by_cases hv : validDims s.dim dims = true
        · rw [if_pos hv] at h
          simp only [Option.some.injEq, Prod.mk.injEq] at h
          obtain ⟨rfl, rfl, _⟩ := h
          exact splitDimsForest_fresh dims a s.next
        · rw [if_neg hv] at h
          exact absurd h (by simp)
      · rw [if_neg h3] at h
        simp only [Option.some.injEq, Prod.mk.injEq] at h
        obtain ⟨rfl, rfl, _⟩ := h
        have hlen : (splitAll a.box).length = 2 ^ s.dim := by rw [splitAll_length, ha.2]
        unfold FreshIds splitAllForest Forest.ids
        rw [Forest.nodes_ofList, mkChildren_ids, hlen]
        refine ⟨List.nodup_range', ?_, by omega⟩
        intro x hx
        rw [List.mem_range'_1] at hx
        omega
    · rw [if_neg h2] at h
      exact absurd h (by simp)

/-! ### `update_values` -/

theorem bumpObjs_nodes_ids : ∀ (ids : List Nat) (f : Forest), (bumpObjs f ids).ids = f.ids
  | [], _ => rfl
  | i :: ids, f => by
      simp only [bumpObjs, List.foldl_cons]
      rw [show List.foldl _ _ ids = bumpObjs _ ids from rfl, bumpObjs_nodes_ids ids]
      simp only [Forest.ids, Forest.nodes_mapAreas, List.map_map]
      congr 1
      funext a
      simp only [Function.comp]
      split <;> rfl

theorem bumpObjs_leaf_ids : ∀ (ids : List Nat) (f : Forest),
    (bumpObjs f ids).leaves.map (·.id) = f.leaves.map (·.id)
  | [], _ => rfl
  | i :: ids, f => by
      simp only [bumpObjs, List.foldl_cons]
      rw [show List.foldl _ _ ids = bumpObjs _ ids from rfl, bumpObjs_leaf_ids ids]
      simp only [Forest.leaves_mapAreas, List.map_map]
      congr 1
      funext a
      simp only [Function.comp]
      split <;> rfl

/-- every object is updated at most once when the container lists every identity once -/
theorem bumpObjs_bound (B : Int) : ∀ (ids : List Nat) (f : Forest), ids.Nodup →
    f.All (fun b => b.coarsening ≤ B + (if b.id ∈ ids then 0 else 1)) →
    (bumpObjs f ids).All (fun b => b.coarsening ≤ B + 1)
  | [], f, _, h => Forest.All.imp (fun b hb => by simpa using hb) f h
  | i :: ids, f, hnd, h => by
      simp only [bumpObjs, List.foldl_cons]
      rw [List.nodup_cons] at hnd
      refine bumpObjs_bound B ids _ hnd.2 (Forest.all_mapAreas _ ?_ f h)
      intro b hb
      by_cases hbi : b.id = i
      · have h1 : (b.id == i) = true := by simp [hbi]
        rw [if_pos h1]
        have h2 : b.id ∈ i :: ids := by simp [hbi]
        rw [if_pos h2] at hb
        have h3 : b.bump.id ∉ ids := by simp only [ESArea.bump]; rw [hbi]; exact hnd.1
        rw [if_neg h3]
        simp only [ESArea.bump]
        omega
      · have h1 : ¬ (b.id == i) = true := by simp [hbi]
        rw [if_neg h1]
        by_cases h2 : b.id ∈ ids
        · have : b.id ∈ i :: ids := List.mem_cons_of_mem _ h2
          rw [if_pos this] at hb; rw [if_pos h2]; exact hb
        · have : b.id ∉ i :: ids := by simp [hbi, h2]
          rw [if_neg this] at hb; rw [if_neg h2]; exact hb

/-! ### `eraseIdxs` -/

theorem mem_eraseIdxs (l idxs : List Nat) (x : Nat) :
    x ∈ eraseIdxs l idxs ↔ ∃ k, l[k]? = some x ∧ k ∉ idxs := by
  unfold eraseIdxs
  simp only [List.mem_map, List.mem_filter, Bool.not_eq_true', List.contains_eq_mem, decide_eq_false_iff_not,
    Prod.exists, exists_and_right, exists_eq_right]
  constructor
  · rintro ⟨k, hk, hn⟩
    exact ⟨k, by rw [List.mem_zipIdx_iff_getElem?] at hk; simpa using hk, hn⟩
  · rintro ⟨k, hk, hn⟩
    exact ⟨k, by rw [List.mem_zipIdx_iff_getElem?]; simpa using hk, hn⟩

theorem eraseIdxs_sublist (l idxs : List Nat) : (eraseIdxs l idxs).Sublist l := by
  unfold eraseIdxs
  have h1 : (l.zipIdx.filter fun q => !idxs.contains q.2).Sublist l.zipIdx := List.filter_sublist
  have h2 := h1.map (·.1)
  have : l.zipIdx.map (·.1) = l := by simp
  rw [this] at h2
  exact h2

/-! ### the invariant -/

structure EState.Inv2 (s : EState) : Prop where
  idsNodup : s.forest.ids.Nodup
  idsLt : ∀ x ∈ s.forest.ids, x < s.next
  objsNodup : s.objs.Nodup
  objsLt : ∀ x ∈ s.objs, x < s.next
  popLt : ∀ p ∈ s.pop, p < s.objs.length
  live : ∀ x, x ∈ s.forest.leaves.map (·.id) ↔ ∃ k, s.objs[k]? = some x ∧ k ∉ s.pop
  bound : s.forest.All (fun b => b.coarsening ≤ s.lmax - s.lmax0)

theorem Forest.leafIds_sub_ids (f : Forest) : ∀ x ∈ f.leaves.map (·.id), x ∈ f.ids := by
  intro x hx
  obtain ⟨l, hl, rfl⟩ := List.mem_map.1 hx
  exact List.mem_map.2 ⟨l, Forest.leaves_subset_nodes f l hl, rfl⟩

theorem inv2_of_fresh (dim : Nat) (lmin lmax nrbe : Int) (version : Nat) (auto single : Bool) (root : Box)
    (F : Forest) (n : Nat) (hF : FreshIds F 1 n) (hc : F.All (fun b => b.coarsening ≤ 0)) :
    EState.Inv2
      { dim, lmin, lmax, lmax0 := lmax, nrbe, version, auto, single, root, forest := F,
        objs := F.leaves.map (·.id), pop := [], next := n } where
  idsNodup := hF.1
  idsLt := fun x hx => (hF.2.1 x hx).2
  objsNodup := Forest.leafIds_nodup F hF.1
  objsLt := fun x hx => (hF.2.1 x (Forest.leafIds_sub_ids F x hx)).2
  popLt := by intro p hp; simp at hp
  live := by
    intro x
    simp only [List.not_mem_nil, not_false_eq_true, and_true]
    exact List.mem_iff_getElem?
  bound := Forest.All.imp (fun b hb => by simpa using hb) F hc

theorem splitDimsForest_coarsening : ∀ (ds : List Nat) (a : ESArea) (next : Nat),
    (splitDimsForest ds a next).1.All (fun b => b.coarsening = a.coarsening)
  | [], _, _ => trivial
  | d :: ds, a, next => by
      have h1 := splitDimsForest_coarsening ds (mkChild a next (splitDim a.box d).1) (next + 1)
      have h2 := splitDimsForest_coarsening ds
        (mkChild a (splitDimsForest ds (mkChild a next (splitDim a.box d).1) (next + 1)).2 (splitDim a.box d).2)
        ((splitDimsForest ds (mkChild a next (splitDim a.box d).1) (next + 1)).2 + 1)
      exact ⟨rfl, h1, rfl, h2, trivial⟩

theorem newChildren_coarsening (s : EState) (a : ESArea) (e : Bool) (dims : List Nat) (K : Forest) (n' : Nat) (r : Bool)
    (ha : 0 ≤ a.coarsening) (h : s.newChildren a e dims = some (K, n', r)) :
    K.All (fun b => 0 ≤ b.coarsening ∧ b.coarsening ≤ a.coarsening) := by
  dsimp only [EState.newChildren] at h
  by_cases h1 : (if s.auto = true then e else decide (a.needExtend ≥ s.nrbe)) = true
  · rw [if_pos h1] at h
    simp only [Option.some.injEq, Prod.mk.injEq] at h
    obtain ⟨rfl, _, _⟩ := h
    refine ⟨?_, trivial, trivial⟩
    simp only [extendChild]
    split
    · exact ⟨le_refl _, ha⟩
    · rename_i hne
      have : a.coarsening ≠ 0 := by simpa using hne
      omega
  · rw [if_neg h1] at h
    by_cases h2 : (s.auto || decide (a.needExtend ≥ 0)) = true
    · rw [if_pos h2] at h
      by_cases h3 : s.single = true
      · rw [if_pos h3] at h
        by_cases hv : validDims s.dim dims = true
        · rw [if_pos hv] at h
          simp only [Option.some.injEq, Prod.mk.injEq] at h
          obtain ⟨rfl, _, _⟩ := h
          exact Forest.All.imp (fun b hb => by omega) _ (splitDimsForest_coarsening dims a s.next)
        · rw [if_neg hv] at h
          exact absurd h (by simp)
      · rw [if_neg h3] at h
        simp only [Option.some.injEq, Prod.mk.injEq] at h
        obtain ⟨rfl, _, _⟩ := h
        unfold splitAllForest
        apply Forest.all_ofList
        intro c hc
        rw [(mem_mkChildren a _ _ c hc).2.1]
        exact ⟨ha, le_refl _⟩
    · rw [if_neg h2] at h
      exact absurd h (by simp)

theorem mkOf_coarsening (s : EState) (e : Bool) (dims : List Nat) (B : Int) (a' : ESArea)
    (h : 0 ≤ a'.coarsening ∧ a'.coarsening ≤ B) :
    (s.mkOf e dims a').All (fun b => 0 ≤ b.coarsening ∧ b.coarsening ≤ B) := by
  unfold EState.mkOf
  cases hc : s.newChildren a' e dims with
  | none => trivial
  | some r =>
    obtain ⟨K', n'', r'⟩ := r
    exact Forest.All.imp (fun b hb => ⟨hb.1, le_trans hb.2 h.2⟩) _ (newChildren_coarsening s a' e dims K' n'' r' h.1 hc)

theorem inv2_endRound (s : EState) (h : s.Inv2) : s.endRound.Inv2 where
  idsNodup := h.idsNodup
  idsLt := h.idsLt
  objsNodup := List.Nodup.sublist (eraseIdxs_sublist _ _) h.objsNodup
  objsLt := fun x hx => h.objsLt x ((eraseIdxs_sublist _ _).subset hx)
  popLt := by intro p hp; simp [EState.endRound] at hp
  live := by
    intro x
    simp only [EState.endRound, List.not_mem_nil, not_false_eq_true, and_true]
    rw [h.live x, ← mem_eraseIdxs]
    exact List.mem_iff_getElem?
  bound := h.bound

theorem inv2_refine (s : EState) (pos : Nat) (e : Bool) (dims : List Nat) (h1 : s.Inv) (h : s.Inv2) :
    (s.refine pos e dims).Inv2 := by
  unfold EState.refine
  split
  · exact h
  · rename_i i hpos
    split
    · exact h
    · rename_i a ch hfind
      by_cases hnil : ch.isNil = true
      swap
      · simp only [hnil, Bool.not_false, if_true]
        exact h
      · have hn' : (!ch.isNil) = false := by simp [hnil]
        rw [hn']
        simp only [Bool.false_eq_true, if_false]
        split
        · exact h
        · rename_i K n' r hnc
          obtain ⟨haOK, hai⟩ := Forest.all_find i _ a ch h1.all hfind
          have hfresh := newChildren_fresh s a e dims K n' r haOK hnc
          obtain ⟨kWF, kT, kAll, kNil⟩ := newChildren_spec s a e dims K n' r haOK (Forest.wf_find i _ a ch h1.wf hfind) hnc
          have hmk : s.mkOf e dims a = K := by unfold EState.mkOf; rw [hnc]
          have hperm := Forest.nodes_attach_perm i (s.mkOf e dims) s.forest a ch h.idsNodup hfind hnil
          rw [hmk] at hperm
          have hidsP : (s.forest.attach i (s.mkOf e dims)).ids.Perm (s.forest.ids ++ K.ids) := by
            have := hperm.map (·.id)
            simpa [Forest.ids] using this
          have hposlt : pos < s.objs.length := by
            by_contra hh
            rw [List.getElem?_eq_none (by omega)] at hpos
            cases hpos
          have hnodupA : (s.forest.attach i (s.mkOf e dims)).ids.Nodup := by
            rw [hidsP.nodup_iff, List.nodup_append]
            refine ⟨h.idsNodup, hfresh.1, ?_⟩
            intro x hx y hy hxy
            have := h.idsLt x hx
            have := (hfresh.2.1 y hy).1
            omega
          have hltA : ∀ x ∈ (s.forest.attach i (s.mkOf e dims)).ids, x < n' := by
            intro x hx
            rcases List.mem_append.1 (hidsP.subset hx) with hx | hx
            · have := h.idsLt x hx; have := hfresh.2.2; omega
            · exact (hfresh.2.1 x hx).2
          have hnewsub : ∀ x ∈ K.leaves.map (·.id), s.next ≤ x ∧ x < n' :=
            fun x hx => hfresh.2.1 x (Forest.leafIds_sub_ids K x hx)
          have hobjsN : (s.objs ++ K.leaves.map (·.id)).Nodup := by
            rw [List.nodup_append]
            refine ⟨h.objsNodup, Forest.leafIds_nodup K hfresh.1, ?_⟩
            intro x hx y hy hxy
            have := h.objsLt x hx
            have := (hnewsub y hy).1
            omega
          have hobjsLt : ∀ x ∈ s.objs ++ K.leaves.map (·.id), x < n' := by
            intro x hx
            rcases List.mem_append.1 hx with hx | hx
            · have := h.objsLt x hx; have := hfresh.2.2; omega
            · exact (hnewsub x hx).2
          have hpopLt : ∀ p ∈ s.pop ++ [pos], p < (s.objs ++ K.leaves.map (·.id)).length := by
            intro p hp
            rw [List.length_append]
            rcases List.mem_append.1 hp with hp | hp
            · have := h.popLt p hp; omega
            · simp only [List.mem_cons, List.not_mem_nil, or_false] at hp; omega
          have haleaf : a ∈ s.forest.leaves := Forest.find?_leaf_mem i _ a ch hfind hnil
          have hleafN := Forest.leafIds_nodup s.forest h.idsNodup
          have hliveA : ∀ x, x ∈ (s.forest.attach i (s.mkOf e dims)).leaves.map (·.id) ↔
              ∃ k, (s.objs ++ K.leaves.map (·.id))[k]? = some x ∧ k ∉ s.pop ++ [pos] := by
            intro x
            rw [Forest.leaves_attach]
            simp only [List.mem_map, List.mem_flatMap]
            constructor
            · rintro ⟨b, ⟨l, hl, hb⟩, rfl⟩
              by_cases hli : (l.id == i) = true
              · rw [if_pos hli] at hb
                have hla : l = a := List.inj_on_of_nodup_map hleafN hl haleaf (by
                  have : l.id = i := by simpa using hli
                  rw [this, hai])
                subst hla
                rw [hmk, kNil] at hb
                simp only [Bool.false_eq_true, if_false] at hb
                obtain ⟨j, hj⟩ := List.mem_iff_getElem?.1 (List.mem_map.2 ⟨b, hb, rfl⟩)
                refine ⟨s.objs.length + j, ?_, ?_⟩
                · rw [List.getElem?_append_right (by omega)]
                  simpa using hj
                · intro hk
                  rcases List.mem_append.1 hk with hk | hk
                  · have := h.popLt _ hk; omega
                  · simp only [List.mem_cons, List.not_mem_nil, or_false] at hk; omega
              · rw [if_neg hli] at hb
                simp only [List.mem_cons, List.not_mem_nil, or_false] at hb
                subst hb
                obtain ⟨k, hk1, hk2⟩ := (h.live b.id).1 (List.mem_map.2 ⟨b, hl, rfl⟩)
                have hklt : k < s.objs.length := by
                  by_contra hh
                  rw [List.getElem?_eq_none (by omega)] at hk1
                  cases hk1
                refine ⟨k, by rw [List.getElem?_append_left hklt]; exact hk1, ?_⟩
                intro hk
                rcases List.mem_append.1 hk with hk | hk
                · exact hk2 hk
                · simp only [List.mem_cons, List.not_mem_nil, or_false] at hk
                  subst hk
                  rw [hpos] at hk1
                  simp only [Option.some.injEq] at hk1
                  exact hli (by simp [hk1])
            · rintro ⟨k, hk1, hk2⟩
              have hk2' : k ∉ s.pop ∧ k ≠ pos := by
                constructor
                · exact fun hh => hk2 (List.mem_append_left _ hh)
                · exact fun hh => hk2 (List.mem_append_right _ (by simp [hh]))
              by_cases hklt : k < s.objs.length
              · rw [List.getElem?_append_left hklt] at hk1
                obtain ⟨l, hl, hlx⟩ := List.mem_map.1 ((h.live x).2 ⟨k, hk1, hk2'.1⟩)
                have hli : ¬ (l.id == i) = true := by
                  intro hh
                  have hxi : x = i := by rw [← hlx]; simpa using hh
                  have : s.objs[k]? = s.objs[pos]? := by rw [hk1, hpos, hxi]
                  exact hk2'.2 ((List.getElem?_inj hklt h.objsNodup).1 this)
                exact ⟨l, ⟨l, hl, by rw [if_neg hli]; simp⟩, hlx⟩
              · rw [List.getElem?_append_right (by omega)] at hk1
                obtain ⟨b, hb, hbx⟩ := List.mem_map.1 (List.mem_iff_getElem?.2 ⟨_, hk1⟩)
                refine ⟨b, ⟨a, haleaf, ?_⟩, hbx⟩
                have : (a.id == i) = true := by simp [hai]
                rw [if_pos this, hmk, kNil]
                simpa using hb
          have hboundA : (s.forest.attach i (s.mkOf e dims)).All
              (fun b => 0 ≤ b.coarsening ∧ b.coarsening ≤ s.lmax - s.lmax0) := by
            have hboth : s.forest.All (fun b => 0 ≤ b.coarsening ∧ b.coarsening ≤ s.lmax - s.lmax0) := by
              rw [Forest.all_iff_nodes]
              intro b hb
              exact ⟨((Forest.all_iff_nodes _ _).1 h1.all b hb).1, (Forest.all_iff_nodes _ _).1 h.bound b hb⟩
            refine Forest.all_attach i _ ?_ _ hboth
            intro a' ha'
            exact mkOf_coarsening s e dims (s.lmax - s.lmax0) a' ha'
          change EState.Inv2
            { s with lmax := if r = true then s.lmax + 1 else s.lmax,
                     forest := if r = true then bumpObjs (s.forest.attach i (s.mkOf e dims)) s.objs
                               else s.forest.attach i (s.mkOf e dims),
                     objs := s.objs ++ K.leaves.map (·.id), pop := s.pop ++ [pos], next := n' }
          cases r with
          | false =>
            exact ⟨hnodupA, hltA, hobjsN, hobjsLt, hpopLt, hliveA, Forest.All.imp (fun b hb => hb.2) _ hboundA⟩
          | true =>
            refine ⟨?_, ?_, hobjsN, hobjsLt, hpopLt, ?_, ?_⟩
            · simp only [if_true]; rw [bumpObjs_nodes_ids]; exact hnodupA
            · simp only [if_true]; rw [bumpObjs_nodes_ids]; exact hltA
            · intro x
              simp only [if_true]
              rw [bumpObjs_leaf_ids]
              exact hliveA x
            · simp only [if_true]
              have := bumpObjs_bound (s.lmax - s.lmax0) s.objs _ h.objsNodup
                (Forest.All.imp (fun b hb => by split <;> omega) _ hboundA)
              exact Forest.All.imp (fun b hb => by omega) _ this

theorem inv2_step (s : EState) (op : ESOp) (h1 : s.Inv) (h : s.Inv2) : (s.step op).Inv2 := by
  cases op with
  | refine pos e dims => exact inv2_refine s pos e dims h1 h
  | endRound => exact inv2_endRound s h

theorem inv2_run (ops : List ESOp) : ∀ (s : EState), s.Inv → s.Inv2 → (s.run ops).Inv2 := by
  induction ops with
  | nil => intro s _ h; exact h
  | cons op ops ih => intro s h1 h; exact ih _ (es_inv_step s op h1) (inv2_step s op h1 h)

theorem inv2_init (dim : Nat) (lmin lmax nrbe : Int) (version : Nat) (auto single : Bool) (root : Box)
    (hl : root.length = dim) : (EState.init dim lmin lmax nrbe version auto single root).Inv2 := by
  subst hl
  cases single with
  | false =>
    simp only [EState.init, Bool.false_eq_true, if_false]
    apply inv2_of_fresh
    · unfold FreshIds splitAllForest Forest.ids
      rw [Forest.nodes_ofList, mkChildren_ids, splitAll_length]
      have hroot : (rootArea root).box = root := rfl
      rw [hroot]
      refine ⟨List.nodup_range', ?_, Nat.le_add_right _ _⟩
      intro x hx
      rw [List.mem_range'_1] at hx
      omega
    · unfold splitAllForest
      apply Forest.all_ofList
      intro c hc
      rw [(mem_mkChildren _ _ _ c hc).2.1]
      exact le_refl _
  | true =>
    simp only [EState.init, if_true]
    have hf := splitDimsForest_fresh (List.range root.length) (rootArea root) 1
    have hc := splitDimsForest_coarsening (List.range root.length) (rootArea root) 1
    set r := splitDimsForest (List.range root.length) (rootArea root) 1 with hr
    have hleaves : (Forest.ofList r.1.leaves).leaves = r.1.leaves := Forest.leaves_ofList _
    rw [hleaves]
    have key := inv2_of_fresh root.length lmin lmax (nrbe + (root.length : Int)) version auto true root
      (Forest.ofList r.1.leaves) r.2 ?_ ?_
    · rw [hleaves] at key
      exact key
    · unfold FreshIds Forest.ids
      rw [Forest.nodes_ofList]
      refine ⟨Forest.leafIds_nodup _ hf.1, ?_, hf.2.2⟩
      intro x hx
      exact hf.2.1 x (Forest.leafIds_sub_ids _ x hx)
    · apply Forest.all_ofList
      intro a ha
      have := (Forest.all_iff_nodes _ _).1 hc a (Forest.leaves_subset_nodes _ a ha)
      rw [this]
      exact le_refl _

/-! ### between rounds the container is the leaf list -/

theorem Tiles.perm {P : Box} {cs cs' : List Box} (h : Tiles P cs) (hp : cs.Perm cs') : Tiles P cs' where
  sub := fun c hc => h.sub c (hp.mem_iff.2 hc)
  proper := fun c hc => h.proper c (hp.mem_iff.2 hc)
  cover := fun x hx => by
    obtain ⟨c, hc, hcx⟩ := h.cover x hx
    exact ⟨c, hp.mem_iff.1 hc, hcx⟩
  sep := (hp.pairwise_iff (fun {a b} hab => separated_symm a b hab)).1 h.sep
  vol := by rw [← h.vol]; exact (hp.map boxVol).sum_eq.symm

theorem objs_perm_leafIds (s : EState) (h : s.Inv2) (hp : s.pop = []) :
    s.objs.Perm (s.forest.leaves.map (·.id)) := by
  rw [List.perm_ext_iff_of_nodup h.objsNodup (Forest.leafIds_nodup _ h.idsNodup)]
  intro x
  rw [h.live x, hp]
  simp only [List.not_mem_nil, not_false_eq_true, and_true]
  exact List.mem_iff_getElem?

/-- **between refinement rounds the container's objects are exactly the leaves of the tree** -/
theorem objects_perm_leaves (s : EState) (h : s.Inv2) (hp : s.pop = []) : s.objects.Perm s.forest.leaves := by
  have h1 := (objs_perm_leafIds s h hp).filterMap fun i => (s.forest.find? i).map (·.1)
  have h2 : (s.forest.leaves.map (·.id)).filterMap (fun i => (s.forest.find? i).map (·.1)) = s.forest.leaves := by
    rw [List.filterMap_map]
    have : ∀ l ∈ s.forest.leaves, ((fun i => (s.forest.find? i).map (·.1)) ∘ fun a : ESArea => a.id) l = some l := by
      intro l hl
      obtain ⟨ch, hf, _⟩ := Forest.find?_of_leaf s.forest h.idsNodup l hl
      simp [Function.comp, hf]
    rw [List.filterMap_congr this]
    exact List.filterMap_some
  unfold EState.objects
  rw [← h2]
  exact h1

/-- first-wins assignment over a flat list of childless objects -/
theorem assignObjs_spec (f : Forest) (x : EPt) : ∀ (ids : List Nat),
    (∀ i ∈ ids, ∃ l ch, f.find? i = some (l, ch) ∧ ch.isNil = true) →
    (∃ i ∈ ids, ∃ l ch, f.find? i = some (l, ch) ∧ boxContains l.box x = true) →
    ∃ a, assignObjs f x ids = some a ∧ (∃ i ∈ ids, ∃ ch, f.find? i = some (a, ch)) ∧ boxContains a.box x = true
  | [], _, h => by simp at h
  | i :: ids, hleaf, hex => by
      obtain ⟨l, ch, hf, hn⟩ := hleaf i (List.mem_cons_self ..)
      simp only [assignObjs, hf]
      by_cases hc : boxContains l.box x = true
      · rw [if_pos hc, if_pos hn]
        exact ⟨l, rfl, ⟨i, List.mem_cons_self .., ch, hf⟩, hc⟩
      · rw [if_neg hc]
        have hex' : ∃ j ∈ ids, ∃ l ch, f.find? j = some (l, ch) ∧ boxContains l.box x = true := by
          obtain ⟨j, hj, l', ch', hf', hc'⟩ := hex
          rcases List.mem_cons.1 hj with rfl | hj
          · rw [hf] at hf'
            simp only [Option.some.injEq, Prod.mk.injEq] at hf'
            obtain ⟨rfl, _⟩ := hf'
            exact absurd hc' hc
          · exact ⟨j, hj, l', ch', hf', hc'⟩
        obtain ⟨a, h1, ⟨j, hj, ch', hf'⟩, h3⟩ := assignObjs_spec f x ids
          (fun j hj => hleaf j (List.mem_cons_of_mem _ hj)) hex'
        exact ⟨a, h1, ⟨j, List.mem_cons_of_mem _ hj, ch', hf'⟩, h3⟩

end SparseSpace
