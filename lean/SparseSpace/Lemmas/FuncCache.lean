import SparseSpace.Model.FuncCache
import Mathlib.Data.List.Nodup
/-! Helper lemmas for C12: the dictionary cache of `Function.__call__` refines "pure function + set". -/
namespace SparseSpace.FuncCache

/-- the subclass is consistent with its own declaration: `eval` returns `output_length()` components and the
(possibly overridden) `eval_vectorized` computes the rows `eval p_i` -/
def WellDeclared (F : Fn) : Prop :=
  (∀ p, (F.eval p).length = F.outLen) ∧ (∀ ps, F.evalVec ps = some (ps.map F.eval))

/-- every stored value is the pure value of its key -/
def Coherent (F : Fn) (s : St) : Prop :=
  (∀ kv ∈ s.fdict, kv.2 = F.eval kv.1) ∧ (∀ kv ∈ s.old, kv.2 = F.eval kv.1)

/-- the dictionary is the counted set of the history -/
def Link (s : St) (t : Trace) : Prop :=
  keys s.fdict = t.counted ∧ s.doCache = t.cacheOn ∧ s.old = []

theorem dget_some_mem {d : Dict} {p : Pt} {v : Val} (h : dget d p = some v) : (p, v) ∈ d := by
  induction d with
  | nil => simp [dget] at h
  | cons kv r ih =>
    obtain ⟨k, w⟩ := kv
    by_cases hk : k = p
    · simp [dget, hk] at h; simp [hk, h]
    · simp [dget, hk] at h; exact List.mem_cons_of_mem _ (ih h)

theorem dget_none_iff {d : Dict} {p : Pt} : dget d p = none ↔ p ∉ keys d := by
  induction d with
  | nil => simp [dget, keys]
  | cons kv r ih =>
    obtain ⟨k, w⟩ := kv
    by_cases hk : k = p
    · simp [dget, keys, hk]
    · simp only [dget, hk, if_false, ih, keys, List.map_cons, List.mem_cons]
      constructor
      · intro h; rintro (h' | h')
        · exact hk h'.symm
        · exact h h'
      · intro h h'; exact h (Or.inr h')

theorem mem_dset {d : Dict} {p : Pt} {v : Val} {kv : Pt × Val} (h : kv ∈ dset d p v) :
    kv ∈ d ∨ kv = (p, v) := by
  induction d with
  | nil => simp [dset] at h; exact Or.inr h
  | cons kw r ih =>
    obtain ⟨k, w⟩ := kw
    by_cases hk : k = p
    · simp [dset, hk] at h
      rcases h with h | h
      · exact Or.inr h
      · exact Or.inl (List.mem_cons_of_mem _ h)
    · simp [dset, hk] at h
      rcases h with h | h
      · exact Or.inl (by simp [h])
      · rcases ih h with h' | h'
        · exact Or.inl (List.mem_cons_of_mem _ h')
        · exact Or.inr h'

theorem keys_dset (d : Dict) (p : Pt) (v : Val) : keys (dset d p v) = insertNew (keys d) p := by
  induction d with
  | nil => simp [dset, keys, insertNew]
  | cons kw r ih =>
    obtain ⟨k, w⟩ := kw
    by_cases hk : k = p
    · simp [dset, keys, insertNew, hk]
    · have ih' : List.map (·.1) (dset r p v) = insertNew (List.map (·.1) r) p := ih
      by_cases hm : p ∈ List.map (·.1) r
      · have : p ∈ k :: List.map (·.1) r := List.mem_cons_of_mem _ hm
        simp only [dset, hk, if_false, keys, List.map_cons, ih', insertNew, hm, if_true, this]
      · have : p ∉ k :: List.map (·.1) r := by
          intro h; rcases List.mem_cons.1 h with h | h
          · exact hk h.symm
          · exact hm h
        simp only [dset, hk, if_false, keys, List.map_cons, ih', insertNew, hm, this, List.cons_append]

theorem keys_dupdate (d : Dict) (ps : List Pt) (vs : List Val) (h : vs.length = ps.length) :
    keys (dupdate d ps vs) = ps.foldl insertNew (keys d) := by
  induction ps generalizing d vs with
  | nil => cases vs <;> simp [dupdate]
  | cons p ps ih =>
    cases vs with
    | nil => simp at h
    | cons v vs =>
      simp only [dupdate, List.foldl_cons]
      rw [ih _ _ (by simpa using h), keys_dset]

theorem mem_dupdate_map (eval : Pt → Val) (d : Dict) (ps : List Pt) {kv : Pt × Val}
    (h : kv ∈ dupdate d ps (ps.map eval)) : kv ∈ d ∨ kv.2 = eval kv.1 := by
  induction ps generalizing d with
  | nil => simp [dupdate] at h; exact Or.inl h
  | cons p ps ih =>
    simp only [List.map_cons, dupdate] at h
    rcases ih _ h with h' | h'
    · rcases mem_dset h' with h'' | h''
      · exact Or.inl h''
      · exact Or.inr (by rw [h''])
    · exact Or.inr h'

theorem mem_insertNew {l : List Pt} {p q : Pt} : q ∈ insertNew l p ↔ q ∈ l ∨ q = p := by
  unfold insertNew
  by_cases h : p ∈ l
  · simp only [h, if_true]
    constructor
    · exact Or.inl
    · rintro (h' | h')
      · exact h'
      · exact h' ▸ h
  · simp [h]

theorem nodup_insertNew {l : List Pt} (p : Pt) (h : l.Nodup) : (insertNew l p).Nodup := by
  unfold insertNew
  by_cases hm : p ∈ l
  · simpa [hm] using h
  · simp only [hm, if_false]
    exact List.Nodup.append h (List.nodup_singleton p) (by simpa using hm)

theorem mem_foldl_insertNew {l ps : List Pt} {q : Pt} : q ∈ ps.foldl insertNew l ↔ q ∈ l ∨ q ∈ ps := by
  induction ps generalizing l with
  | nil => simp
  | cons p ps ih => simp only [List.foldl_cons, ih, mem_insertNew, List.mem_cons]; tauto

theorem nodup_foldl_insertNew {l : List Pt} (ps : List Pt) (h : l.Nodup) : (ps.foldl insertNew l).Nodup := by
  induction ps generalizing l with
  | nil => simpa using h
  | cons p ps ih => exact ih (nodup_insertNew p h)


/-! ### one step -/

theorem coherent_dset {F : Fn} {s : St} (h : Coherent F s) (p : Pt) :
    Coherent F { s with fdict := dset s.fdict p (F.eval p) } := by
  refine ⟨?_, h.2⟩
  intro kv hkv
  rcases mem_dset hkv with h' | h'
  · exact h.1 kv h'
  · rw [h']

theorem coherent_dset_of {F : Fn} {s : St} (h : Coherent F s) (p : Pt) (v : Val) (hv : v = F.eval p) :
    Coherent F { s with fdict := dset s.fdict p v } := by
  subst hv; exact coherent_dset h p

/-- single point: the pure value comes back, `eval` is called iff the point is not in the dictionary (or caching is
off), the dictionary gains the point iff caching is on; coherence is kept -/
theorem dset_same : ∀ (d : Dict) (p : Pt) (v : Val), dget d p = some v → dset d p v = d := by
  intro d p v
  induction d with
  | nil => intro h; simp [dget] at h
  | cons kw r ih =>
    obtain ⟨k, w⟩ := kw
    intro hg
    by_cases hkp : k = p
    · simp [dget, hkp] at hg; simp [dset, hkp, hg]
    · simp [dget, hkp] at hg
      simp [dset, hkp, ih hg]

theorem single_spec (cfg : Cfg) (F : Fn) (s : St) (p : Pt) (hF : WellDeclared F) (hs : Coherent F s) (hp : p ≠ [])
    (hold : s.old = []) :
    (single cfg F s p).2 = .value (F.eval p) (!(s.doCache && decide (p ∈ keys s.fdict))) ∧
    (single cfg F s p).1 =
      (if s.doCache || cfg.countUncached then { s with fdict := dset s.fdict p (F.eval p) } else s) := by
  have hlen := hF.1 p
  obtain ⟨fd, old, dc⟩ := s
  simp only at hold
  subst hold
  unfold single
  simp only [hp, if_false, dget]
  cases dc
  · cases cfg.countUncached <;> simp [hlen]
  · cases h1 : dget fd p with
    | none =>
      have : p ∉ keys fd := dget_none_iff.1 h1
      simp [hlen, this]
    | some v =>
      have hm : (p, v) ∈ fd := dget_some_mem h1
      have hv : v = F.eval p := hs.1 _ hm
      have hk : p ∈ keys fd := by
        by_contra hk; rw [← dget_none_iff, h1] at hk; cases hk
      subst hv
      simp [hlen, hk, dset_same _ _ _ h1]

/-- with caching off (and without fix-5) a single-point call leaves the state untouched -/
theorem single_off_state (cfg : Cfg) (F : Fn) (s : St) (p : Pt) (h : s.doCache = false)
    (hc : cfg.countUncached = false) : (single cfg F s p).1 = s := by
  unfold single
  by_cases hp : p = []
  · simp [hp]
  · simp only [hp, if_false, h, hc, Bool.false_eq_true, Bool.or_self]
    split <;> rfl

theorem single_coherent (cfg : Cfg) (F : Fn) (s : St) (p : Pt) (hs : Coherent F s) :
    Coherent F (single cfg F s p).1 := by
  unfold single
  by_cases hp : p = []
  · simp [hp, hs]
  · simp only [hp, if_false]
    cases hc : s.doCache
    · simp only [Bool.false_eq_true, if_false, Bool.false_or]
      cases cfg.countUncached
      · simp only [Bool.false_eq_true, if_false]; split <;> exact hs
      · simp only [if_true]; split <;> exact coherent_dset hs p
    · simp only [if_true, Bool.true_or]
      cases h1 : dget s.fdict p with
      | some v => simp only; split <;> exact hs
      | none =>
        cases h2 : dget s.old p with
        | some v =>
          have hv : v = F.eval p := hs.2 _ (dget_some_mem h2)
          simp only
          split <;> exact coherent_dset_of hs p v hv
        | none =>
          simp only
          split <;> exact coherent_dset hs p

/-- value clause for an arbitrary coherent state (also with a non-empty `old_f_dict`) -/
theorem single_value (cfg : Cfg) (F : Fn) (s : St) (p : Pt) (hF : WellDeclared F) (hs : Coherent F s) (hp : p ≠ []) :
    ∃ miss, (single cfg F s p).2 = .value (F.eval p) miss := by
  have hlen := hF.1 p
  unfold single
  simp only [hp, if_false]
  cases hc : s.doCache
  · simp [hlen]
  · simp only [if_true]
    cases h1 : dget s.fdict p with
    | some v =>
      have hv : v = F.eval p := hs.1 _ (dget_some_mem h1)
      subst hv; simp [hlen]
    | none =>
      cases h2 : dget s.old p with
      | some v =>
        have hv : v = F.eval p := hs.2 _ (dget_some_mem h2)
        subst hv; simp [hlen]
      | none => simp [hlen]

theorem all_len_map (F : Fn) (hF : WellDeclared F) (ps : List Pt) :
    (ps.map F.eval).all (fun r => decide (r.length = F.outLen)) = true := by
  simp [List.all_eq_true, hF.1]

/-- batch: the rows are the pure values, the dictionary gains every point, whatever `do_cache` says -/
theorem batch_spec (cfg : Cfg) (F : Fn) (s : St) (ps : List Pt) (hF : WellDeclared F) (hp : ps ≠ []) :
    batch cfg F s ps = ({ s with fdict := dupdate s.fdict ps (ps.map F.eval) }, .values (ps.map F.eval)) := by
  unfold batch
  have := all_len_map F hF ps
  simp only [hp, if_false, hF.2 ps, List.length_map, true_and]
  simp only [List.all_eq_true] at this
  simp only [List.all_eq_true]
  rw [if_pos this]

theorem batch_nil (cfg : Cfg) (F : Fn) (s : St) : batch cfg F s [] = (s, onEmpty cfg) := by simp [batch]

theorem single_nil (cfg : Cfg) (F : Fn) (s : St) : single cfg F s [] = (s, onEmpty cfg) := by simp [single]

theorem batch_coherent (cfg : Cfg) (F : Fn) (s : St) (ps : List Pt) (hF : WellDeclared F) (hs : Coherent F s) :
    Coherent F (batch cfg F s ps).1 := by
  by_cases hp : ps = []
  · simp [batch, hp, hs]
  · rw [batch_spec cfg F s ps hF hp]
    refine ⟨?_, hs.2⟩
    intro kv hkv
    rcases mem_dupdate_map F.eval _ _ hkv with h | h
    · exact hs.1 kv h
    · exact h

theorem step_coherent (cfg : Cfg) (F : Fn) (s : St) (o : Op) (hF : WellDeclared F) (hs : Coherent F s) :
    Coherent F (step cfg F s o).1 := by
  cases o with
  | single p => exact single_coherent cfg F s p hs
  | batch ps => exact batch_coherent cfg F s ps hF hs
  | reset => exact ⟨by simp [step], by simp [step]⟩
  | deactivate => exact hs
  | size => exact hs

theorem step_vals (cfg : Cfg) (F : Fn) (s : St) (o : Op) (hF : WellDeclared F) (hs : Coherent F s)
    (ha : o.accepted cfg = true) : (step cfg F s o).2.vals = specVals F o := by
  cases o with
  | single p =>
    have hp : p ≠ [] := by simpa [Op.accepted] using ha
    obtain ⟨m, hm⟩ := single_value cfg F s p hF hs hp
    simp [step, hm, Out.vals, specVals]
  | batch ps =>
    by_cases hp : ps = []
    · have he : cfg.emptyOk = true := by simpa [Op.accepted, hp] using ha
      simp [step, hp, batch_nil, onEmpty, he, Out.vals, specVals]
    · simp [step, batch_spec cfg F s ps hF hp, Out.vals, specVals]
  | reset => rfl
  | deactivate => rfl
  | size => rfl

theorem step_link (cfg : Cfg) (F : Fn) (s : St) (t : Trace) (o : Op) (hF : WellDeclared F) (hs : Coherent F s)
    (hl : Link s t) : Link (step cfg F s o).1 (t.step cfg o) := by
  obtain ⟨hk, hc, ho⟩ := hl
  cases o with
  | single p =>
    by_cases hp : p = []
    · simp [step, single, Trace.step, hp]; exact ⟨hk, hc, ho⟩
    · have h := (single_spec cfg F s p hF hs hp ho).2
      obtain ⟨ton, tev, tco⟩ := t
      obtain ⟨fd, old, dc⟩ := s
      simp only at hk hc ho h
      subst hc ho
      simp only [step, Trace.step, hp, if_false, h]
      cases hcc : (dc || cfg.countUncached)
      · exact ⟨hk, rfl, rfl⟩
      · exact ⟨by show keys (dset fd p (F.eval p)) = _; rw [keys_dset, hk]; rfl, rfl, rfl⟩
  | batch ps =>
    by_cases hp : ps = []
    · simp [step, batch, Trace.step, hp]; exact ⟨hk, hc, ho⟩
    · simp only [step, batch_spec cfg F s ps hF hp, Trace.step, hp, if_false]
      exact ⟨by show keys (dupdate s.fdict ps (ps.map F.eval)) = _; rw [keys_dupdate _ _ _ (by simp), hk], hc, ho⟩
  | reset => exact ⟨rfl, hc, rfl⟩
  | deactivate => exact ⟨hk, rfl, ho⟩
  | size => exact ⟨hk, hc, ho⟩

/-! ### whole histories -/

theorem run_coherent (cfg : Cfg) (F : Fn) (hF : WellDeclared F) (ops : List Op) (s : St) (hs : Coherent F s) :
    Coherent F (run cfg F s ops).1 := by
  induction ops generalizing s with
  | nil => exact hs
  | cons o os ih => exact ih _ (step_coherent cfg F s o hF hs)

theorem run_length (cfg : Cfg) (F : Fn) (ops : List Op) (s : St) : (run cfg F s ops).2.length = ops.length := by
  induction ops generalizing s with
  | nil => rfl
  | cons o os ih => simp [run, ih]

theorem run_vals (cfg : Cfg) (F : Fn) (hF : WellDeclared F) (ops : List Op) (s : St) (hs : Coherent F s)
    (ha : ∀ o ∈ ops, o.accepted cfg = true) : (run cfg F s ops).2.map Out.vals = ops.map (specVals F) := by
  induction ops generalizing s with
  | nil => rfl
  | cons o os ih =>
    simp only [run, List.map_cons]
    rw [step_vals cfg F s o hF hs (ha o (by simp)),
      ih _ (step_coherent cfg F s o hF hs) (fun o' ho' => ha o' (List.mem_cons_of_mem _ ho'))]

theorem run_link (cfg : Cfg) (F : Fn) (hF : WellDeclared F) (ops : List Op) (s : St) (t : Trace) (hs : Coherent F s)
    (hl : Link s t) : Link (run cfg F s ops).1 (ops.foldl (Trace.step cfg) t) := by
  induction ops generalizing s t with
  | nil => exact hl
  | cons o os ih => exact ih _ _ (step_coherent cfg F s o hF hs) (step_link cfg F s t o hF hs hl)

theorem run_append (cfg : Cfg) (F : Fn) (a b : List Op) (s : St) :
    run cfg F s (a ++ b) = ((run cfg F (run cfg F s a).1 b).1, (run cfg F s a).2 ++ (run cfg F (run cfg F s a).1 b).2) := by
  induction a generalizing s with
  | nil => rfl
  | cons o os ih => simp [run, ih]

/-- the counted points are duplicate-free and have all been evaluated since the last reset -/
def TInv (t : Trace) : Prop := t.counted.Nodup ∧ ∀ p ∈ t.counted, p ∈ t.evaluated

/-- every point evaluated since the last reset is counted -/
def TFull (t : Trace) : Prop := ∀ p ∈ t.evaluated, p ∈ t.counted

theorem tinv_step (cfg : Cfg) (t : Trace) (o : Op) (h : TInv t) : TInv (t.step cfg o) := by
  obtain ⟨hn, hm⟩ := h
  cases o with
  | single p =>
    by_cases hp : p = []
    · simpa [Trace.step, hp] using ⟨hn, hm⟩
    · simp only [Trace.step, hp, if_false]
      cases (t.cacheOn || cfg.countUncached)
      · exact ⟨hn, fun q hq => List.mem_append_left _ (hm q hq)⟩
      · refine ⟨nodup_insertNew p hn, fun q hq => ?_⟩
        rcases mem_insertNew.1 hq with h | h
        · exact List.mem_append_left _ (hm q h)
        · simp [h]
  | batch ps =>
    by_cases hp : ps = []
    · simpa [Trace.step, hp] using ⟨hn, hm⟩
    · simp only [Trace.step, hp, if_false]
      refine ⟨nodup_foldl_insertNew ps hn, fun q hq => ?_⟩
      rcases mem_foldl_insertNew.1 hq with h | h
      · exact List.mem_append_left _ (hm q h)
      · exact List.mem_append_right _ h
  | reset => exact ⟨List.nodup_nil, fun q hq => by simp [Trace.step] at hq⟩
  | deactivate => exact ⟨hn, hm⟩
  | size => exact ⟨hn, hm⟩

theorem tinv_foldl (cfg : Cfg) (ops : List Op) (t : Trace) (h : TInv t) : TInv (ops.foldl (Trace.step cfg) t) := by
  induction ops generalizing t with
  | nil => exact h
  | cons o os ih => exact ih _ (tinv_step cfg t o h)

theorem tfull_foldl (cfg : Cfg) (ops : List Op) (t : Trace) (h : TFull t)
    (hg : cfg.countUncached = true ∨ noSingleWhileOff t.cacheOn ops = true) :
    TFull (ops.foldl (Trace.step cfg) t) := by
  induction ops generalizing t with
  | nil => exact h
  | cons o os ih =>
    cases o with
    | single p =>
      have hon : (t.cacheOn || cfg.countUncached) = true := by
        rcases hg with hg | hg
        · simp [hg]
        · simp only [noSingleWhileOff, Bool.and_eq_true] at hg; simp [hg.1]
      have hg' : cfg.countUncached = true ∨ noSingleWhileOff t.cacheOn os = true := by
        rcases hg with hg | hg
        · exact Or.inl hg
        · simp only [noSingleWhileOff, Bool.and_eq_true] at hg; exact Or.inr hg.2
      refine ih _ ?_ ?_
      · by_cases hp : p = []
        · simpa [Trace.step, hp] using h
        · simp only [Trace.step, hp, if_false, hon, if_true]
          intro q hq
          rcases List.mem_append.1 hq with h' | h'
          · exact mem_insertNew.2 (Or.inl (h q h'))
          · exact mem_insertNew.2 (Or.inr (by simpa using h'))
      · by_cases hp : p = []
        · simpa [Trace.step, hp] using hg'
        · simpa [Trace.step, hp] using hg'
    | batch ps =>
      simp only [noSingleWhileOff] at hg
      refine ih _ ?_ ?_
      · by_cases hp : ps = []
        · simpa [Trace.step, hp] using h
        · simp only [Trace.step, hp, if_false]
          intro q hq
          rcases List.mem_append.1 hq with h' | h'
          · exact mem_foldl_insertNew.2 (Or.inl (h q h'))
          · exact mem_foldl_insertNew.2 (Or.inr h')
      · by_cases hp : ps = []
        · simpa [Trace.step, hp] using hg
        · simpa [Trace.step, hp] using hg
    | reset =>
      simp only [noSingleWhileOff] at hg
      exact ih _ (fun q hq => by simp [Trace.step] at hq) (by simpa [Trace.step] using hg)
    | deactivate =>
      simp only [noSingleWhileOff] at hg
      exact ih _ h (by simpa [Trace.step] using hg)
    | size =>
      simp only [noSingleWhileOff] at hg
      exact ih _ h (by simpa [Trace.step] using hg)

theorem link_init : Link St.init Trace.init := ⟨rfl, rfl, rfl⟩
theorem coherent_init (F : Fn) : Coherent F St.init :=
  ⟨fun kv h => by simp [St.init] at h, fun kv h => by simp [St.init] at h⟩
theorem tinv_init : TInv Trace.init := ⟨List.nodup_nil, fun p h => by simp [Trace.init] at h⟩
theorem tfull_init : TFull Trace.init := fun p h => by simp [Trace.init] at h

/-- the base-class `eval_vectorized` is the map of `eval` when `eval` has the declared length -/
theorem genericVec_eq_map (eval : Pt → Val) (n : Nat) (h : ∀ p, (eval p).length = n) (ps : List Pt) :
    genericVec eval n ps = some (ps.map eval) := by
  induction ps with
  | nil => rfl
  | cons p ps ih => simp [genericVec, fitRow, h p, ih]

end SparseSpace.FuncCache
