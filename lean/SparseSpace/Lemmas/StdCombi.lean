import SparseSpace.Model.StdCombi
import SparseSpace.Lemmas.InterpGrid
import SparseSpace.Lemmas.CombiStd
import SparseSpace.Lemmas.CombAdaptive
/-!
# The combination of nested trapezoidal component grids (C02)

`ValidScheme dim lmin c J`: the coefficient family `c` satisfies the inclusion–exclusion identity for the downward
closed index set `J` (what C01 proves of every reachable adaptive scheme, and `std_valid` of the closed-form standard
scheme).  For every such scheme, on the nested trapezoidal grids:

* `valid_point_coeff_sum` : every point of the union grid has coefficient sum 1;
* `valid_nodal_exact`     : the combined interpolant reproduces an arbitrary table at every point of the union grid;
* `valid_union`           : the union of the component grids is the sparse grid `⋃_{k ∈ J} grid_k`.
-/
namespace SparseSpace

structure ValidScheme (dim : Nat) (lmin : Int) (c : List (LV × Int)) (J : LV → Prop) [DecidablePred J] : Prop where
  shape  : ∀ p ∈ c, p.1.length = dim ∧ geAll lmin p.1
  down   : ∀ a b : LV, a.length = dim → b.length = dim → geAll lmin a → leAll a b = true → J b → J a
  ident  : ∀ t : LV, t.length = dim → geAll lmin t → domSum c t = if J t then 1 else 0
  supp   : ∀ p ∈ c, J p.1
  jshape : ∀ t : LV, J t → t.length = dim ∧ geAll lmin t

theorem domSum_perm {c c' : List (LV × Int)} (h : c.Perm c') (t : LV) : domSum c t = domSum c' t := by
  unfold domSum
  exact ((h.filter _).map _).sum_eq

/-- every state of the adaptive scheme satisfying the invariant gives a valid scheme -/
theorem adaptive_valid (s : CS) (h : SchemeInv s) : ValidScheme s.dim s.lmin s.coeffs (fun t => t ∈ I s) where
  shape := fun p hp => h.shape p.1 ((coeff_support s h).1 p hp).1
  down := fun a b ha _ hmin hle hb => downward_closed s h b a hb ha hmin hle
  ident := fun t ht hmin => coeff_identity s h t ht hmin
  supp := fun p hp => ((coeff_support s h).1 p hp).1
  jshape := fun t ht => h.shape t ht

/-- the closed-form standard scheme is valid for the index set of the freshly initialised adaptive scheme, i.e.
(`mem_I_init`) for the simplex `{l ≥ lmin, |l - lmin|₁ ≤ lmax - lmin}` -/
theorem std_valid (dim : Nat) (lmin lmax : Int) (hd : 1 ≤ dim) (h0 : 0 ≤ lmin) (h : lmin ≤ lmax) :
    ValidScheme dim lmin (stdScheme dim lmin lmax) (fun t => t ∈ I (CS.init dim lmax lmin)) := by
  have hinv := inv_init dim lmin lmax hd h0 h
  have hperm := std_perm_init dim lmin lmax hd h0 h
  have hv := adaptive_valid _ hinv
  have hdim : (CS.init dim lmax lmin).dim = dim := rfl
  have hlm : (CS.init dim lmax lmin).lmin = lmin := rfl
  rw [hdim, hlm] at hv
  exact {
    shape := fun p hp => hv.shape p (hperm.mem_iff.1 hp)
    down := hv.down
    ident := fun t ht hmin => by rw [domSum_perm hperm t]; exact hv.ident t ht hmin
    supp := fun p hp => hv.supp p (hperm.mem_iff.1 hp)
    jshape := hv.jshape }

section
variable {dim : Nat} {lmin : Int} {c : List (LV × Int)} {J : LV → Prop} [DecidablePred J]

theorem mem_unionPoints (a b : List Rat) (bd : Flags) (c : List (LV × Int)) (x : List Rat) :
    x ∈ unionPoints a b bd c ↔ ∃ p ∈ c, x ∈ gridPoints a b p.1 bd := by
  unfold unionPoints
  rw [List.mem_flatMap]

/-- the level vector `k(x)` of a point of the union grid: it lies in the index set, and the component grids that
contain `x` are exactly those of level `≥ k(x)` -/
theorem union_levelvec (hv : ValidScheme dim lmin c J) (h0 : 0 ≤ lmin) (a b : List Rat) (ha : a.length = dim)
    (hb : b.length = dim) (bd : Flags) (x : List Rat) (hx : x ∈ unionPoints a b bd c) :
    ∃ k : LV, k.length = dim ∧ geAll lmin k ∧ J k ∧ InGrid bd a b k x ∧
      ∀ l : LV, l.length = dim → geAll lmin l → (x ∈ gridPoints a b l bd ↔ leAll k l = true) := by
  rw [mem_unionPoints] at hx
  obtain ⟨p, hp, hxp⟩ := hx
  obtain ⟨hlen, hmin⟩ := hv.shape p hp
  rw [mem_gridPoints bd a b p.1 x (by omega) (by omega)] at hxp
  obtain ⟨k, hk1, hk2, hk3, hk4, hk5⟩ := exists_levelvec lmin h0 bd a b p.1 x hmin hxp
  refine ⟨k, by omega, hk2, hv.down k p.1 (by omega) hlen hk2 hk3 (hv.supp p hp), hk4, ?_⟩
  intro l hl hlmin
  rw [mem_gridPoints bd a b l x (by omega) (by omega)]
  exact hk5 l (by omega) hlmin

/-- **point-wise coefficient sums**: at every point of the union grid the coefficients of the component grids that
contain it sum to 1 (what `check_combi_scheme` asserts) -/
theorem valid_point_coeff_sum (hv : ValidScheme dim lmin c J) (h0 : 0 ≤ lmin) (a b : List Rat)
    (ha : a.length = dim) (hb : b.length = dim) (bd : Flags) (x : List Rat) (hx : x ∈ unionPoints a b bd c) :
    pointCoeffSum a b bd c x = 1 := by
  obtain ⟨k, hk1, hk2, hkJ, _, hk5⟩ := union_levelvec hv h0 a b ha hb bd x hx
  have hfil : c.filter (fun p => (gridPoints a b p.1 bd).contains x) = c.filter (fun p => leAll k p.1) := by
    apply List.filter_congr
    intro p hp
    obtain ⟨hlen, hmin⟩ := hv.shape p hp
    rw [Bool.eq_iff_iff, List.contains_iff_mem]
    exact hk5 p.1 hlen hmin
  unfold pointCoeffSum
  rw [hfil]
  have := hv.ident k hk1 hk2
  rw [if_pos hkJ] at this
  exact this

/-- **nodal exactness**: at every point of the union grid the combined interpolant returns the mesh value of an
ARBITRARY function `f` there, i.e. `f x` (or `0` where `points_not_zero` declares `x` a boundary point) -/
theorem valid_nodal_exact (hv : ValidScheme dim lmin c J) (h0 : 0 ≤ lmin) (a b : List Rat) (hab : BoxOK a b)
    (ha : a.length = dim) (bd : Flags) (f : List Rat → Rat) (x : List Rat) (hx : x ∈ unionPoints a b bd c) :
    combiInterp a b bd c f x = meshVal a b bd f x := by
  have hb : b.length = dim := by rw [← BoxOK_length a b hab]; exact ha
  obtain ⟨k, hk1, hk2, hkJ, hk4, _⟩ := union_levelvec hv h0 a b ha hb bd x hx
  have key := comb_collapse_rat dim lmin c J hv.shape hv.down hv.ident k hk1 hk2 hkJ
    (fun l => interpN (meshAxes a b l bd) (meshVal a b bd f) x)
    (fun p hp => interpN_meshAgree _ _ _ x
      (meshAgree_meet bd a b p.1 k x hab (by rw [(hv.shape p hp).1, hk1]) hk4))
  unfold combiInterp
  rw [key]
  exact interpN_exact _ _ x (onMesh_of_inGrid bd a b k x hab hk4)

/-- **the union of the component grids is the sparse grid of the index set** `⋃_{k ∈ J} grid_k` -/
theorem valid_union (hv : ValidScheme dim lmin c J) (a b : List Rat) (ha : a.length = dim) (hb : b.length = dim)
    (bd : Flags) (x : List Rat) :
    x ∈ unionPoints a b bd c ↔ ∃ k : LV, J k ∧ x ∈ gridPoints a b k bd := by
  rw [mem_unionPoints]
  constructor
  · rintro ⟨p, hp, hxp⟩
    exact ⟨p.1, hv.supp p hp, hxp⟩
  · rintro ⟨k, hkJ, hxk⟩
    obtain ⟨hk1, hk2⟩ := hv.jshape k hkJ
    have hid := hv.ident k hk1 hk2
    rw [if_pos hkJ] at hid
    -- some returned grid dominates `k`
    have hex : ∃ p ∈ c, leAll k p.1 = true := by
      by_contra hne
      have hnil : c.filter (fun p => leAll k p.1) = [] := by
        rw [List.filter_eq_nil_iff]
        intro p hp hle
        exact hne ⟨p, hp, hle⟩
      unfold domSum at hid
      rw [hnil] at hid
      simp at hid
    obtain ⟨p, hp, hle⟩ := hex
    obtain ⟨hlen, _⟩ := hv.shape p hp
    refine ⟨p, hp, ?_⟩
    rw [mem_gridPoints bd a b k x (by omega) (by omega)] at hxk
    rw [mem_gridPoints bd a b p.1 x (by omega) (by omega)]
    exact InGrid_nested bd a b k p.1 x hle hxk

end

/-! ## linearity of the combined interpolant in the function -/

theorem meshVal_lin (a b : List Rat) (bd : Flags) (α β : Rat) (f g : List Rat → Rat) (p : List Rat) :
    meshVal a b bd (fun q => α * f q + β * g q) p = α * meshVal a b bd f p + β * meshVal a b bd g p := by
  unfold meshVal
  split <;> ring

theorem sum_map_lin {ι : Type} (l : List ι) (α β : Rat) (u v : ι → Rat) :
    (l.map fun i => α * u i + β * v i).sum = α * (l.map u).sum + β * (l.map v).sum := by
  induction l with
  | nil => simp
  | cons i l ih => simp only [List.map_cons, List.sum_cons, ih]; ring

/-- the combined interpolant is linear in the function (so nodal unit functions / hats determine it) -/
theorem combiInterp_lin (a b : List Rat) (bd : Flags) (c : List (LV × Int)) (α β : Rat) (f g : List Rat → Rat)
    (x : List Rat) :
    combiInterp a b bd c (fun q => α * f q + β * g q) x
      = α * combiInterp a b bd c f x + β * combiInterp a b bd c g x := by
  unfold combiInterp
  rw [← sum_map_lin]
  congr 1
  apply List.map_congr_left
  intro p _
  have h1 : meshVal a b bd (fun q => α * f q + β * g q)
      = fun q => α * meshVal a b bd f q + β * meshVal a b bd g q := by
    funext q; exact meshVal_lin a b bd α β f g q
  rw [h1, interpN_add, interpN_smul, interpN_smul]
  ring

/-! ## the combined quadrature rule -/

theorem zipWith_sum_scale (f : List Rat → Rat) (κ : Rat) : ∀ (P : List (List Rat)) (W : List Rat),
    (List.zipWith (fun x w => f x * (w * κ)) P W).sum = κ * (List.zipWith (fun x w => f x * w) P W).sum
  | [], _ => by simp
  | _ :: _, [] => by simp
  | x :: P, w :: W => by
      simp only [List.zipWith_cons_cons, List.sum_cons, zipWith_sum_scale f κ P W]; ring

/-- the reported combined integral is the combined quadrature rule `get_points_and_weights` applied to `f` -/
theorem combiIntegral_eq_weights (a b : List Rat) (bd : Flags) (c : List (LV × Int)) (f : List Rat → Rat) :
    combiIntegral a b bd c f = ((combiPointsWeights a b bd c).map fun e => f e.1 * e.2).sum := by
  unfold combiIntegral combiPointsWeights
  induction c with
  | nil => simp
  | cons p c ih =>
    simp only [List.map_cons, List.sum_cons, List.flatMap_cons, List.map_append, List.sum_append, ih]
    congr 1
    unfold quadGrid
    rw [List.map_zipWith]
    exact (zipWith_sum_scale f _ _ _).symm

end SparseSpace
