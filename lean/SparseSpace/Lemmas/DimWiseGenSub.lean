import SparseSpace.Lemmas.DimWiseGenV3
/-!
# Translator tie for the dimension-wise strategy, part 3: `get_subtraction_value` (versions 2, 3, 6, 7, 8)
-/
namespace SparseSpace
open SparseSpace.PyRt

/-- the state after `get_subtraction_value`: `self.max_level_dict[(d, i)] = max_level` -/
def dwCached (g : GenDW.State) (k : Nat) (i ml : Int) : GenDW.State :=
  { g with max_level_dict := dictSet g.max_level_dict [Int.ofNat k, i] ml }

theorem ofNat_succ (k : Nat) : Int.ofNat k + 1 = Int.ofNat (k + 1) := rfl

/-- **`get_subtraction_value`** (slice for the versions 2, 3, 6, 7, 8): new state and value agree with the hand model's
`subValue` on the entries of dimension `d`, for the maximum level `get_max_level` returns.  Hypotheses (all met in
every reachable state): `d < dim`, `1 ≤ dim`, `len(max_coarsenings) = dim`, `max_level ≥ 0`. -/
theorem gen_subtraction_value (g : GenDW.State) (obj : GenDW.RefinementObjectSingleDimension)
    (cont : GenDW.RefinementContainer) (i : Int) (mcs : List Int) (k n V : Nat) (lv : List Int)
    (hV : V = 2 ∨ V = 3 ∨ V = 6 ∨ V = 7 ∨ V = 8) (hv : g.version = (V : Int)) (hdim : g.dim = (n : Int))
    (hn : 1 ≤ n) (hk : k < n) (hlen : mcs.length = n)
    (hml : 0 ≤ GenDW.get_max_level g cont obj i (Int.ofNat k)) :
    GenDW.get_subtraction_value g obj cont i mcs (Int.ofNat k) lv
      = (dwCached g k i (GenDW.get_max_level g cont obj i (Int.ofNat k)),
         (subValue V n k v3Exact (g.lmin.getD k 0) (g.lmax.getD k 0) mcs
            (GenDW.get_max_level g cont obj i (Int.ofNat k)).toNat (lv.getD k 0)).1) := by
  generalize hML : GenDW.get_max_level g cont obj i (Int.ofNat k) = ML at hml ⊢
  have hcast : ((ML.toNat : Nat) : Int) = ML := Int.toNat_of_nonneg hml
  have hdimN : g.dim = Int.ofNat n := hdim
  have c1 : ∀ thr, PyRt.sum (List.map (fun (_ : Int) => (1 : Int))
      (List.filter (fun (i : Int) => decide (getItem mcs i ≥ thr)) (PyRt.range (Int.ofNat n)))) = cntGe n mcs thr :=
    fun thr => gen_count mcs n thr (by omega)
  have c2 : ∀ thr, PyRt.sum (List.map (fun (_ : Int) => (1 : Int))
      (List.filter (fun (i : Int) => decide (getItem mcs i ≥ thr)) (PyRt.range (Int.ofNat (k + 1))))) = cntGe (k + 1) mcs thr :=
    fun thr => gen_count mcs (k + 1) thr (by omega)
  unfold GenDW.get_subtraction_value
  simp only [hML, hdimN, ofNat_succ, c1, c2, gen_modify, getItem_ofNat]
  generalize g.lmax.getD k 0 = U
  generalize g.lmin.getD k 0 = Lo
  generalize lv.getD k 0 = L
  rcases hV with rfl | rfl | rfl | rfl | rfl
  · -- version 2
    have hv' : g.version = 2 := by simpa using hv
    simp (config := { decide := true }) only [hv', if_false]
    simp [subValue, dwCached, hcast, hv', hdimN]
  · -- version 3
    have hv' : g.version = 3 := by simpa using hv
    simp (config := { decide := true }) only [hv', if_true, if_false]
    have eN : ∀ m : Nat, Int.ofNat m = (m : Int) := fun _ => rfl
    by_cases h2 : ML > 2
    · have h2' : ML.toNat > 2 := by omega
      have e : ∀ (c : Prop) [Decidable c] (s : GenDW.State) (a b x : Int),
          (if c then (s, min a x) else (s, min b x)) = (s, min (if c then a else b) x) := by
        intros; split <;> rfl
      simp only [h2, decide_true, Bool.and_true, beq_self_eq_true, if_true, eN]
      rw [e, gen_v3 (U - ML) n k hn]
      simp [subValue, dwCached, hcast, h2', hv', hdimN, eN]
    · have h2' : ¬ ML.toNat > 2 := by omega
      simp only [h2, decide_false, Bool.and_false, Bool.false_eq_true, if_false]
      simp [subValue, dwCached, hcast, h2', hv', hdimN]
  · -- version 6
    have hv' : g.version = 6 := by simpa using hv
    simp (config := { decide := true }) only [hv', if_true, if_false]
    rw [whileSt_congr _ (step6 n k mcs (U - ML)) (fun s => by
      rcases s with ⟨ps, m⟩
      simp only [step6]
      split_ifs <;> simp_all)]
    rw [while_step6]
    simp [subValue, subFuel, dwCached, hcast, hv', hdimN]
  · -- version 7
    have hv' : g.version = 7 := by simpa using hv
    simp (config := { decide := true }) only [hv', if_true, if_false]
    rw [whileSt_congr _ (step7 n mcs (U - ML)) (fun s => by
      rcases s with ⟨ps, m⟩
      simp only [step7]
      split_ifs <;> simp_all)]
    rw [while_step7]
    simp [subValue, subFuel, dwCached, hcast, hv', hdimN]
  · -- version 8
    have hv' : g.version = 8 := by simpa using hv
    simp (config := { decide := true }) only [hv', if_true, if_false]
    rw [whileSt_congr _ (step8 n k mcs (U - ML) ML) (fun s => by
      rcases s with ⟨ps, m⟩
      simp only [step8]
      split_ifs <;> simp_all)]
    rw [while_step8]
    simp [subValue, subFuel, dwCached, hcast, hv', hdimN]

end SparseSpace
