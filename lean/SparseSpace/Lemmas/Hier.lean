import SparseSpace.Model.Hier
import Mathlib.Tactic.Ring
import Mathlib.Tactic.Linarith
import Mathlib.Tactic.FieldSimp
import Mathlib.Algebra.Order.Field.Rat
import Mathlib.Data.List.Nodup
/-! Helper lemmas for C10: the Lagrange basis on a knot list (cardinal property, the coded derivative as a
sum of products). -/
namespace SparseSpace.Hier

theorem prodExcept_eq (f : Rat → Rat) (l : List Rat) (i : Nat) : prodExcept f l i = prodAll f (l.eraseIdx i) := by
  induction l generalizing i with
  | nil => simp [prodExcept, prodAll]
  | cons k ks ih =>
    cases i with
    | zero => simp [prodExcept]
    | succ i => simp [prodExcept, prodAll, ih]

theorem prodAll_mul (f g : Rat → Rat) (l : List Rat) :
    prodAll f l * prodAll g l = prodAll (fun k => f k * g k) l := by
  induction l with
  | nil => simp [prodAll]
  | cons k ks ih => simp only [prodAll, ← ih]; ring

theorem prodAll_one (f : Rat → Rat) (l : List Rat) (h : ∀ k ∈ l, f k = 1) : prodAll f l = 1 := by
  induction l with
  | nil => rfl
  | cons k ks ih =>
    simp only [prodAll]
    rw [h k (by simp), ih (fun k hk => h k (by simp [hk]))]; ring

theorem prodAll_zero (f : Rat → Rat) (l : List Rat) (k : Rat) (hk : k ∈ l) (h : f k = 0) : prodAll f l = 0 := by
  induction l with
  | nil => simp at hk
  | cons a as ih =>
    simp only [prodAll]
    rcases List.mem_cons.1 hk with rfl | hk'
    · rw [h]; ring
    · rw [ih hk']; ring

theorem prodAll_congr (f g : Rat → Rat) (l : List Rat) (h : ∀ k ∈ l, f k = g k) : prodAll f l = prodAll g l := by
  induction l with
  | nil => rfl
  | cons k ks ih =>
    simp only [prodAll]
    rw [h k (by simp), ih (fun k hk => h k (by simp [hk]))]

/-- with pairwise distinct knots the own knot is not among the others -/
theorem own_not_mem_others (knots : List Rat) (hn : knots.Nodup) (i : Nat) (hi : i < knots.length) :
    knots[i] ∉ knots.eraseIdx i := by
  intro hm
  obtain ⟨j, hj, hne, he⟩ := List.mem_eraseIdx_iff_getElem.1 hm
  exact hne ((List.Nodup.getElem_inj_iff hn).1 he)

theorem other_mem_others (knots : List Rat) (i j : Nat) (hj : j < knots.length) (hne : j ≠ i) :
    knots[j] ∈ knots.eraseIdx i :=
  List.mem_eraseIdx_iff_getElem.2 ⟨j, hj, hne, rfl⟩

/-- closed form of the model's Lagrange polynomial -/
theorem lagrange_eq (knots : List Rat) (i : Nat) (hi : i < knots.length) (x : Rat) :
    lagrange knots i x =
      prodAll (fun k => x - k) (knots.eraseIdx i) * prodAll (fun k => 1 / (knots[i] - k)) (knots.eraseIdx i) := by
  simp only [lagrange, lagFactor, List.getElem?_eq_getElem hi, prodExcept_eq]

theorem lagrange_own (knots : List Rat) (hn : knots.Nodup) (i : Nat) (hi : i < knots.length) :
    lagrange knots i knots[i] = 1 := by
  rw [lagrange_eq knots i hi, prodAll_mul]
  apply prodAll_one
  intro k hk
  have : knots[i] - k ≠ 0 := by
    intro h
    have : knots[i] = k := by linarith
    exact own_not_mem_others knots hn i hi (this ▸ hk)
  field_simp

theorem lagrange_other (knots : List Rat) (i j : Nat) (hi : i < knots.length) (hj : j < knots.length)
    (hne : j ≠ i) : lagrange knots i knots[j] = 0 := by
  rw [lagrange_eq knots i hi, prodAll_zero _ _ knots[j] (other_mem_others knots i j hj hne) (by ring)]
  ring

/-! ### the coded derivative -/

/-- `Σ_a h(o_a) Π_{b≠a} g(o_b)` by the product-rule recursion -/
def sumProd (g h : Rat → Rat) : List Rat → Rat
  | [] => 0
  | k :: ks => h k * prodAll g ks + g k * sumProd g h ks

theorem prodAll_append (g : Rat → Rat) (a b : List Rat) : prodAll g (a ++ b) = prodAll g a * prodAll g b := by
  induction a with
  | nil => simp [prodAll]
  | cons k ks ih => simp only [List.cons_append, prodAll, ih]; ring

theorem prodExcept_append (g : Rat → Rat) (pre suf : List Rat) (a : Nat) :
    prodExcept g (pre ++ suf) (pre.length + a) = prodAll g pre * prodExcept g suf a := by
  induction pre with
  | nil => simp [prodAll]
  | cons k ks ih =>
    simp only [List.cons_append, List.length_cons]
    rw [show ks.length + 1 + a = (ks.length + a) + 1 by omega]
    simp only [prodExcept, prodAll, ih]; ring

theorem derivLoop_eq (g h : Rat → Rat) (pre suf : List Rat) :
    derivLoop g h (pre ++ suf) suf pre.length = prodAll g pre * sumProd g h suf := by
  induction suf generalizing pre with
  | nil => simp [derivLoop, sumProd]
  | cons k ks ih =>
    simp only [derivLoop, sumProd]
    have e1 := prodExcept_append g pre (k :: ks) 0
    simp only [Nat.add_zero, prodExcept] at e1
    rw [e1]
    have e2 := ih (pre ++ [k])
    simp only [List.append_assoc, List.singleton_append, List.length_append, List.length_cons,
      List.length_nil, Nat.zero_add] at e2
    rw [e2, prodAll_append]
    simp only [prodAll]
    ring

/-- the double loop of `derivative_for_index` is the product-rule sum -/
theorem derivLoop_all (g h : Rat → Rat) (o : List Rat) : derivLoop g h o o 0 = sumProd g h o := by
  have := derivLoop_eq g h [] o
  simpa [prodAll] using this

/-- the product-rule sum of the normalised factors = normalisation × product-rule sum of the linear factors -/
theorem sumProd_factor (x xi : Rat) (o : List Rat) :
    sumProd (fun k => (x - k) / (xi - k)) (fun k => 1 / (xi - k)) o
      = prodAll (fun k => 1 / (xi - k)) o * sumProd (fun k => x - k) (fun _ => 1) o := by
  induction o with
  | nil => simp [sumProd]
  | cons k ks ih =>
    simp only [sumProd, prodAll, ih]
    have : prodAll (fun k => (x - k) / (xi - k)) ks
        = prodAll (fun k => x - k) ks * prodAll (fun k => 1 / (xi - k)) ks := by
      rw [prodAll_mul]; apply prodAll_congr; intro k _; ring
    rw [this]
    ring

theorem lagDeriv_eq (knots : List Rat) (i : Nat) (hi : i < knots.length) (x : Rat) :
    lagDeriv knots i x =
      prodAll (fun k => 1 / (knots[i] - k)) (knots.eraseIdx i)
        * sumProd (fun k => x - k) (fun _ => 1) (knots.eraseIdx i) := by
  simp only [lagDeriv, List.getElem?_eq_getElem hi, derivLoop_all, sumProd_factor]

end SparseSpace.Hier
