import SparseSpace.Generated.AdaptDriverGen
import SparseSpace.Model.AdaptDriver
import SparseSpace.Lemmas.DimWiseGen
/-!
# Translator tie for the adaptive driver (C13 / C14): `continue_adaptive_refinement` and `performSpatiallyAdaptiv`
generated from `spatiallyAdaptiveBase.py` agree with the hand model `Model/AdaptDriver` (`loop`, `run`)

The strategy-specific part of the object is the opaque world `W` with the abstract operations `GenAD.Abstract`;
`machineOf F` is the hand model's `Machine` built from them.
-/
namespace SparseSpace.Adapt
open SparseSpace.PyRt
variable {W R RC EO SCH LM : Type}

/-- the abstract strategy of the hand model made of the abstract operations of the generated code:
`eval` = `evaluate_operation(); initialize_grid(); get_total_num_points()`, `refine` = `refine()` -/
def machineOf (F : GenAD.Abstract W R RC EO SCH LM) : Machine W where
  eval := fun w =>
    (F.initialize_grid (F.evaluate_operation w).1,
     ⟨(F.evaluate_operation w).2.1, (F.get_total_num_points (F.initialize_grid (F.evaluate_operation w).1) false).toNat,
      (F.evaluate_operation w).2.2⟩)
  refine := F.refine

/-- the three history arrays of the generated state -/
def histOf (s : GenAD.State W R RC EO SCH LM) : Hist :=
  ⟨s.error_array, s.num_point_array.map Int.toNat, s.surplus_error_array⟩

/-- one round of the generated `while True` loop on the state `(self, max_evaluations)` -/
def stepAD (F : GenAD.Abstract W R RC EO SCH LM) (tol : Rat) (max_time : Option Rat) (min_evaluations : Int) (start_time : Rat)
    (st : GenAD.State W R RC EO SCH LM × Option Int) : Bool × (GenAD.State W R RC EO SCH LM × Option Int) :=
  let w' := F.initialize_grid (F.evaluate_operation st.1.world).1
  let s1 : GenAD.State W R RC EO SCH LM :=
    { st.1 with world := w', error_array := st.1.error_array ++ [(F.evaluate_operation st.1.world).2.1],
                surplus_error_array := st.1.surplus_error_array ++ [(F.evaluate_operation st.1.world).2.2],
                num_point_array := st.1.num_point_array ++ [F.get_total_num_points w' true] }
  let s2 : GenAD.State W R RC EO SCH LM := { s1 with world := F.refine w' }
  if (decide ((F.evaluate_operation st.1.world).2.1 ≤ tol) && decide (F.get_total_num_points w' false ≥ min_evaluations)) = true then
    (false, (s1, st.2))
  else
    match st.2 with
    | none =>
      (match max_time with
       | none => (true, (s2, st.2))
       | some mt => if decide (F.time_time w' - start_time > mt) = true then (false, (s1, st.2)) else (true, (s2, st.2)))
    | some m =>
      if decide (F.get_total_num_points w' false > m) = true then (false, (s1, some m))
      else
        (match max_time with
         | none => (true, (s2, some m))
         | some mt => if decide (F.time_time w' - start_time > mt) = true then (false, (s1, some m)) else (true, (s2, some m)))

/-- the stop test of the generated loop as one Boolean -/
def stopB (tol e : Rat) (minE n : Int) (maxE : Option Int) : Bool :=
  (decide (e ≤ tol) && decide (n ≥ minE)) || (match maxE with | some m => decide (n > m) | none => false)

theorem stopNow_eq_stopB (tol e sur : Rat) (minE n : Int) (maxE : Option Int) (hn : 0 ≤ n) :
    stopNow ⟨tol, minE, maxE⟩ ⟨e, n.toNat, sur⟩ = stopB tol e minE n maxE := by
  unfold stopNow stopB
  simp only [Int.toNat_of_nonneg hn]
  cases maxE <;> simp [ge_iff_le, gt_iff_lt]

/-- state after the appends of one round / after the refinement of that round -/
def afterEval (F : GenAD.Abstract W R RC EO SCH LM) (s : GenAD.State W R RC EO SCH LM) : GenAD.State W R RC EO SCH LM :=
  { s with world := F.initialize_grid (F.evaluate_operation s.world).1,
           error_array := s.error_array ++ [(F.evaluate_operation s.world).2.1],
           surplus_error_array := s.surplus_error_array ++ [(F.evaluate_operation s.world).2.2],
           num_point_array := s.num_point_array ++ [F.get_total_num_points (F.initialize_grid (F.evaluate_operation s.world).1) true] }

def afterRefine (F : GenAD.Abstract W R RC EO SCH LM) (s : GenAD.State W R RC EO SCH LM) : GenAD.State W R RC EO SCH LM :=
  { afterEval F s with world := F.refine (F.initialize_grid (F.evaluate_operation s.world).1) }

theorem stepAD_none (F : GenAD.Abstract W R RC EO SCH LM) (tol : Rat) (minE : Int) (start : Rat)
    (s : GenAD.State W R RC EO SCH LM) (maxE : Option Int) :
    stepAD F tol none minE start (s, maxE)
      = if stopB tol (F.evaluate_operation s.world).2.1 minE
            (F.get_total_num_points (F.initialize_grid (F.evaluate_operation s.world).1) false) maxE = true
        then (false, (afterEval F s, maxE)) else (true, (afterRefine F s, maxE)) := by
  unfold stepAD stopB afterRefine afterEval
  cases maxE with
  | none =>
    by_cases c : (decide ((F.evaluate_operation s.world).2.1 ≤ tol) &&
        decide (F.get_total_num_points (F.initialize_grid (F.evaluate_operation s.world).1) false ≥ minE)) = true
    · simp [c]
    · simp [c]
  | some m =>
    by_cases c : (decide ((F.evaluate_operation s.world).2.1 ≤ tol) &&
        decide (F.get_total_num_points (F.initialize_grid (F.evaluate_operation s.world).1) false ≥ minE)) = true
    · simp [c]
    · by_cases c2 : F.get_total_num_points (F.initialize_grid (F.evaluate_operation s.world).1) false > m
      · simp [c, c2]
      · simp [c, c2]

theorem histOf_afterEval (F : GenAD.Abstract W R RC EO SCH LM) (s : GenAD.State W R RC EO SCH LM)
    (hpts : ∀ w, F.get_total_num_points w true = F.get_total_num_points w false) :
    histOf (afterEval F s) = (histOf s).push ⟨(F.evaluate_operation s.world).2.1,
      (F.get_total_num_points (F.initialize_grid (F.evaluate_operation s.world).1) false).toNat, (F.evaluate_operation s.world).2.2⟩ := by
  simp [histOf, afterEval, Hist.push, hpts]

/-- the loop of the generated driver in lock-step with the hand model's `loop` (no time limit): if the hand loop stops
within the fuel, the generated loop ends in the same world with the same history arrays and touches nothing else -/
theorem gen_loop (F : GenAD.Abstract W R RC EO SCH LM) (tol : Rat) (minE : Int) (maxE : Option Int) (start : Rat)
    (hpts : ∀ w, F.get_total_num_points w true = F.get_total_num_points w false)
    (hnn : ∀ w, 0 ≤ F.get_total_num_points w false) :
    ∀ (fuel : Nat) (s : GenAD.State W R RC EO SCH LM) (k : Nat) (r : Result W),
      loop (machineOf F) ⟨tol, minE, maxE⟩ fuel s.world (histOf s) k = some r →
      ∃ s', whileSt fuel (s, maxE) (stepAD F tol none minE start) = (s', maxE) ∧ s'.world = r.state ∧ histOf s' = r.hist ∧
        s' = { s with world := s'.world, error_array := s'.error_array, surplus_error_array := s'.surplus_error_array,
                      num_point_array := s'.num_point_array }
  | 0, _, _, _, h => by simp [loop] at h
  | fuel + 1, s, k, r, h => by
    simp only [loop, machineOf] at h
    simp only [stopNow_eq_stopB _ _ _ _ _ _ (hnn _)] at h
    simp only [whileSt, stepAD_none]
    by_cases c : stopB tol (F.evaluate_operation s.world).2.1 minE
        (F.get_total_num_points (F.initialize_grid (F.evaluate_operation s.world).1) false) maxE = true
    · rw [if_pos c] at h
      simp only [c, if_true, Bool.false_eq_true, if_false]
      have hr := Option.some.inj h
      refine ⟨afterEval F s, rfl, ?_, ?_, rfl⟩
      · rw [← hr]; rfl
      · rw [← hr]; exact histOf_afterEval F s hpts
    · rw [if_neg c] at h
      simp only [c, Bool.false_eq_true, if_false, if_true]
      have hh : histOf (afterRefine F s) = (histOf s).push ⟨(F.evaluate_operation s.world).2.1,
          (F.get_total_num_points (F.initialize_grid (F.evaluate_operation s.world).1) false).toNat,
          (F.evaluate_operation s.world).2.2⟩ := histOf_afterEval F s hpts
      have hw : (afterRefine F s).world = F.refine (F.initialize_grid (F.evaluate_operation s.world).1) := rfl
      rw [← hh, ← hw] at h
      obtain ⟨s', h1, h2, h3, h4⟩ := gen_loop F tol minE maxE start hpts hnn fuel (afterRefine F s) (k + 1) r h
      refine ⟨s', h1, h2, h3, ?_⟩
      rw [h4]; rfl

/-- **`continue_adaptive_refinement`** without a time limit, `test_scheme` and `reevaluate_at_end` off: when the hand
model's loop (started on the current arrays) stops within the fuel, the generated function ends in the same world, with
the same history arrays, returns them together with the result / scheme read from that world, and stores the result.
Hypotheses on the abstract strategy: both readings of `get_total_num_points` agree and are non-negative. -/
theorem gen_continue (F : GenAD.Abstract W R RC EO SCH LM) (s : GenAD.State W R RC EO SCH LM) (tol : Rat) (maxE : Option Int)
    (minE fuel : Int) (hpts : ∀ w, F.get_total_num_points w true = F.get_total_num_points w false)
    (hnn : ∀ w, 0 ≤ F.get_total_num_points w false) (ht : s.test_scheme = false) (hre : s.reevaluate_at_end = false)
    (r : Result W) (hl : loop (machineOf F) ⟨tol, minE, maxE⟩ fuel.toNat s.world (histOf s) 0 = some r) :
    (GenAD.continue_adaptive_refinement F s tol none maxE minE fuel).1.world = r.state ∧
    histOf (GenAD.continue_adaptive_refinement F s tol none maxE minE fuel).1 = r.hist ∧
    (GenAD.continue_adaptive_refinement F s tol none maxE minE fuel).1.calculated_solution = some (F.get_result r.state) ∧
    (GenAD.continue_adaptive_refinement F s tol none maxE minE fuel).2
      = (F.refinement r.state, F.scheme r.state, F.lmax r.state, F.get_result r.state, F.evaluationstotal r.state,
         r.hist.errs, (GenAD.continue_adaptive_refinement F s tol none maxE minE fuel).1.num_point_array, r.hist.surs,
         s.interpolation_error_arrayL2, s.interpolation_error_arrayMax) := by
  obtain ⟨s', h1, h2, h3, h4⟩ := gen_loop F tol minE maxE (F.perf_counter s.world) hpts hnn fuel.toNat s 0 r hl
  have hts : s'.test_scheme = false := by rw [h4]; exact ht
  have hres : s'.reevaluate_at_end = false := by rw [h4]; exact hre
  have hL2 : s'.interpolation_error_arrayL2 = s.interpolation_error_arrayL2 := by rw [h4]
  have hMx : s'.interpolation_error_arrayMax = s.interpolation_error_arrayMax := by rw [h4]
  have he : s'.error_array = r.hist.errs := by rw [← h3]; rfl
  have hs : s'.surplus_error_array = r.hist.surs := by rw [← h3]; rfl
  unfold GenAD.continue_adaptive_refinement
  dsimp only
  rw [whileSt_congr _ (stepAD F tol none minE (F.perf_counter s.world)) (fun st => by rfl), h1]
  simp only [hts, hres, Bool.false_eq_true, if_false, h2, he, hs, hL2, hMx]
  refine ⟨trivial, ?_, trivial, trivial⟩
  rw [← h3]; rfl

/-- the state in which `performSpatiallyAdaptiv` enters the loop: arguments stored, history arrays EMPTY, the world
initialised by `init_adaptive_combi(lmin, lmax, refinement_container, tol)` -/
def enterState (F : GenAD.Abstract W R RC EO SCH LM) (s : GenAD.State W R RC EO SCH LM) (lmin lmax : Int) (eo : EO) (tol : Rat) (rc : RC)
    (do_plot recalc test_scheme reeval print_output : Bool) (ss ep : Option Bool) (single : Bool) : GenAD.State W R RC EO SCH LM :=
  { s with errorEstimator := eo, recalculate_frequently := recalc, print_output := print_output,
           reference_solution := F.get_reference_solution s.world,
           world := F.init_adaptive_combi s.world lmin lmax rc tol,
           error_array := [], surplus_error_array := [], interpolation_error_arrayL2 := [], interpolation_error_arrayMax := [],
           num_point_array := [], test_scheme := test_scheme, reevaluate_at_end := reeval, do_plot := do_plot,
           calculated_solution := none, solutions_storage := ss, evaluation_points := ep, single_step := single }

/-- **`performSpatiallyAdaptiv`** stores its arguments, empties the five history arrays, initialises the world and runs
`continue_adaptive_refinement` with EXACTLY its own `tol`, `max_time`, `max_evaluations`, `min_evaluations` -/
theorem gen_perform (F : GenAD.Abstract W R RC EO SCH LM) (s : GenAD.State W R RC EO SCH LM) (lmin lmax : Int) (eo : EO) (tol : Rat)
    (rc : RC) (do_plot recalc test_scheme reeval : Bool) (max_time : Option Rat) (maxE : Option Int) (print_output : Bool)
    (minE : Int) (ss ep : Option Bool) (single : Bool) (fuel : Int) :
    GenAD.performSpatiallyAdaptiv F s lmin lmax eo tol rc do_plot recalc test_scheme reeval max_time maxE print_output minE ss ep single fuel
      = GenAD.continue_adaptive_refinement F
          (enterState F s lmin lmax eo tol rc do_plot recalc test_scheme reeval print_output ss ep single) tol max_time maxE minE fuel := rfl

theorem histOf_enterState (F : GenAD.Abstract W R RC EO SCH LM) (s : GenAD.State W R RC EO SCH LM) (lmin lmax : Int) (eo : EO) (tol : Rat)
    (rc : RC) (a b c d e : Bool) (ss ep : Option Bool) (single : Bool) :
    histOf (enterState F s lmin lmax eo tol rc a b c d e ss ep single) = Hist.empty := rfl

end SparseSpace.Adapt
