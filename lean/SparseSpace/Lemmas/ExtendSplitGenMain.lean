import SparseSpace.Lemmas.ExtendSplitGenLoops
/-!
# Translator tie for the extend–split strategy, part 3: the `while coarsening > 0` loops and `coarsen_grid`
-/
namespace SparseSpace
open SparseSpace.PyRt

/-! ### version 0 -/

/-- one round of the generated `while coarsening > 0` loop of version 0 on the state `(maxLevel, temp, coarsening)` -/
def stepV0 (dimI lmin0 : Int) (st : Int × LV × Int) : Bool × (Int × LV × Int) :=
  if (!decide (st.2.2 > 0)) = true then (false, (st.1, st.2.1, st.2.2))
  else if (PyRt.maxList st.2.1 == lmin0) = true then (false, (PyRt.maxList st.2.1, st.2.1, st.2.2))
  else (true, (PyRt.maxList st.2.1,
    (forBreak (PyRt.range dimI) (st.2.1, st.2.2) (fun (st_2 : LV × Int) (d : Int) =>
      if (getItem st_2.1 d == PyRt.maxList st.2.1) = true then (false, (setItem st_2.1 d (getItem st_2.1 d - 1), st_2.2 - 1))
      else (true, (st_2.1, st_2.2)))).1,
    (forBreak (PyRt.range dimI) (st.2.1, st.2.2) (fun (st_2 : LV × Int) (d : Int) =>
      if (getItem st_2.1 d == PyRt.maxList st.2.1) = true then (false, (setItem st_2.1 d (getItem st_2.1 d - 1), st_2.2 - 1))
      else (true, (st_2.1, st_2.2)))).2))

theorem while_v0 (n : Nat) (lmin0 : Int) (hn : 1 ≤ n) : ∀ (k : Nat) (ml : Int) (temp : LV), temp.length = n →
    (whileSt k (ml, temp, (k : Int)) (stepV0 (Int.ofNat n) lmin0)).2.1 = v0Loop lmin0 k temp
  | 0, _, _, _ => rfl
  | k + 1, ml, temp, hl => by
    have hpos : ((k + 1 : Nat) : Int) > 0 := by omega
    have hne : temp ≠ [] := by intro e; rw [e] at hl; simp at hl; omega
    simp only [whileSt, stepV0, v0Loop, hpos, decide_true, Bool.not_true, Bool.false_eq_true, if_false, maxList_eq_lvMax]
    by_cases hm : (lvMax temp == lmin0) = true
    · simp [hm]
    · simp only [hm, Bool.false_eq_true, if_false, if_true]
      have hfb := forBreak_decFirst_c (lvMax temp) temp [] ((k + 1 : Nat) : Int)
      simp only [List.nil_append, List.length_nil, Nat.add_zero] at hfb
      have hr : PyRt.range (Int.ofNat n) = (List.range temp.length).map (fun k => Int.ofNat k) := by
        rw [range_eq, hl]; rfl
      rw [hr, hfb, if_pos (lvMax_spec temp hne).1]
      have hk : ((k + 1 : Nat) : Int) - 1 = (k : Int) := by push_cast; omega
      rw [hk]
      exact while_v0 n lmin0 hn k _ _ (by rw [length_decFirst]; exact hl)

/-! ### versions 1 and 2 -/

/-- one round of the generated `while coarsening > 0` loop of versions 1 / 2 on the state `(temp, coarsening)` -/
def stepV12 (ver dimI lmin0 lmax0 cSave nsd : Int) (st : LV × Int) : Bool × (LV × Int) :=
  if (!decide (st.2 > 0)) = true then (false, (st.1, st.2))
  else if (PyRt.maxList st.1 == lmin0) = true then (false, (st.1, st.2))
  else if (ver == 1) = true then
    if (decide (cSave ≥ lmax0 + dimI - 1 - PyRt.maxList st.1 - (dimI - 2) - PyRt.maxList st.1 + 1) &&
        decide (st.2 ≥ List.foldl (fun (occ : Int) (i : Int) => if (i == PyRt.maxList st.1) = true then occ + 1 else occ) 0 st.1
          - boolToInt (nsd == 0))) = true
    then (true, List.foldl (fun (st_4 : LV × Int) (d : Int) =>
        if (getItem st_4.1 d == PyRt.maxList st.1) = true then (setItem st_4.1 d (getItem st_4.1 d - 1), st_4.2 - 1) else (st_4.1, st_4.2))
        (st.1, st.2) (PyRt.range dimI))
    else (false, (st.1, st.2))
  else
    if (decide (cSave ≥ lmax0 + dimI - 1 - PyRt.maxList st.1 - (dimI - 2) - PyRt.maxList st.1 + 2) &&
        decide (st.2 ≥ List.foldl (fun (occ : Int) (i : Int) => if (i == PyRt.maxList st.1) = true then occ + 1 else occ) 0 st.1)) = true
    then (true, List.foldl (fun (st_5 : LV × Int) (d : Int) =>
        if (getItem st_5.1 d == PyRt.maxList st.1) = true then (setItem st_5.1 d (getItem st_5.1 d - 1), st_5.2 - 1) else (st_5.1, st_5.2))
        (st.1, st.2) (PyRt.range dimI))
    else (false, (st.1, st.2))

theorem length_decAll (m : Int) (t : LV) : (decAll m t).length = t.length := by simp [decAll]

theorem range_natCast (n : Nat) (temp : LV) (hl : temp.length = n) :
    PyRt.range ((n : Nat) : Int) = (List.range temp.length).map (fun k => Int.ofNat k) := by
  rw [range_eq, hl]; rfl

theorem while_v12 (version n : Nat) (lmin0 lmax0 cSave nsd : Int) (hV : version = 1 ∨ version = 2) :
    ∀ (f : Nat) (c : Int) (temp : LV), temp.length = n →
    (whileSt f (temp, c) (stepV12 (version : Int) (n : Int) lmin0 lmax0 cSave nsd)).1
      = v12Loop version n lmin0 lmax0 cSave (nsd == 0) f c temp
  | 0, _, _, _ => rfl
  | f + 1, c, temp, hl => by
    have hr := range_natCast n temp hl
    have hda := foldl_decAll (lvMax temp) temp [] c
    simp only [List.nil_append, List.length_nil, Nat.add_zero] at hda
    have hcnt := foldl_count (lvMax temp) temp 0
    simp only [Int.zero_add] at hcnt
    have e1 : boolToInt (nsd == 0) = (if (nsd == 0) = true then 1 else 0) := rfl
    simp only [whileSt, stepV12, v12Loop, maxList_eq_lvMax, hr, hda, hcnt, e1]
    by_cases hc : c > 0
    · simp only [hc, decide_true, Bool.not_true, Bool.false_eq_true, if_false, if_true]
      by_cases hm : (lvMax temp == lmin0) = true
      · simp [hm]
      · simp only [hm, Bool.false_eq_true, if_false]
        rcases hV with rfl | rfl
        · have ev : ((((1 : Nat) : Int)) == 1) = true := by decide
          have ev' : ((1 : Nat) == 1) = true := by decide
          simp only [ev, ev', if_true]
          generalize (decide (cSave ≥ lmax0 + (n : Int) - 1 - lvMax temp - ((n : Int) - 2) - lvMax temp + 1) &&
              decide (c ≥ ((countEq (lvMax temp) temp : Nat) : Int) - (if (nsd == 0) = true then 1 else 0))) = b
          cases b
          · simp
          · simp only [if_true]
            exact while_v12 1 n lmin0 lmax0 cSave nsd (Or.inl rfl) f _ _ (by rw [length_decAll]; exact hl)
        · have ev : ((((2 : Nat) : Int)) == 1) = false := by decide
          have ev' : ((2 : Nat) == 1) = false := by decide
          simp only [ev, ev', Bool.false_eq_true, if_false]
          generalize (decide (cSave ≥ lmax0 + (n : Int) - 1 - lvMax temp - ((n : Int) - 2) - lvMax temp + 2) &&
              decide (c ≥ ((countEq (lvMax temp) temp : Nat) : Int))) = b
          cases b
          · simp
          · simp only [if_true]
            exact while_v12 2 n lmin0 lmax0 cSave nsd (Or.inr rfl) f _ _ (by rw [length_decAll]; exact hl)
    · simp [hc]

/-! ### `coarsen_grid` -/

theorem getItem_replicate_zero (n : Nat) (x : Int) (hn : 1 ≤ n) : getItem (List.replicate n x) 0 = x := by
  cases n with
  | zero => omega
  | succ k => simp [List.replicate_succ, getItem, pos?]

theorem length_v0Loop (lmin : Int) : ∀ (k : Nat) (t : LV), (v0Loop lmin k t).length = t.length
  | 0, _ => rfl
  | k + 1, t => by
    unfold v0Loop
    split
    · rfl
    · rw [length_v0Loop lmin k, length_decFirst]

theorem length_v12Loop (version dim : Nat) (lmin lmax cSave : Int) (td : Bool) :
    ∀ (f : Nat) (c : Int) (t : LV), (v12Loop version dim lmin lmax cSave td f c t).length = t.length
  | 0, _, _ => rfl
  | f + 1, c, t => by
    have ih := fun c' t' => length_v12Loop version dim lmin lmax cSave td f c' t'
    unfold v12Loop
    simp only []
    split_ifs <;> simp [ih, length_decAll]

theorem while_v0_int (n : Nat) (lmin0 : Int) (hn : 1 ≤ n) (ml c : Int) (temp : LV) (hl : temp.length = n) :
    (whileSt c.toNat (ml, temp, c) (stepV0 (Int.ofNat n) lmin0)).2.1 = v0Loop lmin0 c.toNat temp := by
  by_cases hc : 0 ≤ c
  · have : c = ((c.toNat : Nat) : Int) := (Int.toNat_of_nonneg hc).symm
    conv_lhs => rw [this]
    rw [Int.toNat_natCast]
    exact while_v0 n lmin0 hn c.toNat ml temp hl
  · have : c.toNat = 0 := by omega
    rw [this]; rfl

theorem pyrt_sum_eq (l : LV) : PyRt.sum l = l.sum := by
  unfold PyRt.sum; rw [foldl_add_eq_sum]; omega

/-- **`coarsen_grid(levelvector, area)`** (slice for the versions 0, 1, 2) as an equation: the result is determined by the
hand model's `coarsenGrid` on `(levelvector, area.coarseningValue, area.levelvec_dict)`; only the collision dictionary
of the area changes.  Hypotheses: `dim ≥ 2`, `len(levelvector) = dim`, `lmin` constant (the code itself assumes this),
`noInitialSplitting` off, and for versions 1 / 2 the code's own `assert num_sub_diagonal < dim`. -/
theorem gen_coarsen_grid (g : GenES.State) (lv : LV) (area : GenRO.Area) (V n : Nat) (lmin lmax : Int)
    (hV : V = 0 ∨ V = 1 ∨ V = 2) (hv : g.version = (V : Int)) (hdim : g.dim = (n : Int)) (hn : 2 ≤ n) (hlen : lv.length = n)
    (hlmin : g.lmin = List.replicate n lmin) (hlmax : getItem g.lmax 0 = lmax) (hnis : g.noInitialSplitting = false)
    (hnsd : V ≠ 0 → lmax + (n : Int) - 1 - lv.sum < (n : Int)) :
    ∃ co dc d', coarsenGrid V n lmin lmax lv area.coarseningValue area.levelvec_dict = some (co, dc, d') ∧
      GenES.coarsen_grid g lv area = ({ area with levelvec_dict := d' }, (co, dc)) := by
  have hl0 : getItem g.lmin 0 = lmin := by rw [hlmin]; exact getItem_replicate_zero n lmin (by omega)
  have hg1 : ¬ n < 2 := by omega
  unfold GenES.coarsen_grid coarsenGrid
  simp only [hl0, hlmax, hnis, hdim, gen_is_already_calculated, gen_add_level, maxList_eq_lvMax, pyrt_sum_eq]
  rcases hV with rfl | rfl | rfl
  · have hv' : g.version = 0 := by simpa using hv
    simp (config := { decide := true }) only [hv', if_true, if_false]
    have hs := gen_sorted_top lv (by omega)
    rw [hs.1, hs.2]
    have hfb := forBreak_decFirst (lvMax lv) area.coarseningValue lv []
    simp only [List.nil_append, List.length_nil, Nat.add_zero] at hfb
    rw [← range_natCast n lv hlen] at hfb
    rw [whileSt_congr _ (stepV0 (Int.ofNat n) lmin) (fun s => by rfl)]
    simp only [hfb, while_v0_int n lmin (by omega) _ _ lv hlen, hlmin]
    rw [gen_level_coarse _ lmin n (by rw [length_v0Loop]; omega), gen_level_coarse _ lmin n (by rw [length_decFirst]; omega)]
    simp only [hg1, hlen, decide_false, bne_self_eq_false, Bool.or_false, Bool.false_eq_true, if_false]
    by_cases hc : lvMax lv - lvSecond lv < area.coarseningValue
    · simp [hc]
    · simp only [hc, decide_false, Bool.false_eq_true, if_false]
      cases hac : alreadyCalculated area.levelvec_dict (decFirst (lvMax lv) area.coarseningValue lv) lv <;> simp
  · have hv' : g.version = 1 := by simpa using hv
    simp (config := { decide := true }) only [hv', if_true, if_false]
    rw [whileSt_congr _ (stepV12 ((1 : Nat) : Int) (n : Int) lmin lmax area.coarseningValue (lmax + (n : Int) - 1 - lv.sum))
      (fun s => by simp only [stepV12]; rfl)]
    rw [while_v12 1 n lmin lmax area.coarseningValue _ (by decide) _ _ lv hlen, hlmin,
      gen_level_coarse _ lmin n (by rw [length_v12Loop]; omega)]
    have hns := hnsd (by decide)
    simp only [hg1, hlen, decide_false, bne_self_eq_false, Bool.or_false, Bool.false_eq_true, if_false, hns, if_true]
    exact ⟨_, _, _, rfl, rfl⟩
  · have hv' : g.version = 2 := by simpa using hv
    simp (config := { decide := true }) only [hv', if_true, if_false]
    rw [whileSt_congr _ (stepV12 ((2 : Nat) : Int) (n : Int) lmin lmax area.coarseningValue (lmax + (n : Int) - 1 - lv.sum))
      (fun s => by simp only [stepV12]; rfl)]
    rw [while_v12 2 n lmin lmax area.coarseningValue _ (by decide) _ _ lv hlen, hlmin,
      gen_level_coarse _ lmin n (by rw [length_v12Loop]; omega)]
    have hns := hnsd (by decide)
    simp only [hg1, hlen, decide_false, bne_self_eq_false, Bool.or_false, Bool.false_eq_true, if_false, hns, if_true]
    exact ⟨_, _, _, rfl, rfl⟩

end SparseSpace
