import SparseSpace.Lemmas.ClassifyArgmax
import SparseSpace.Lemmas.ClassifyScale
/-!
Lemmas for C19, part 3: the operations `__call__`, `test_data`, `evaluate` and histories of them.
-/
namespace SparseSpace.Classify

theorem take_append_sub {α : Type} (l r : List α) (n : Nat) (h : r.length = n) :
    (l ++ r).take ((l ++ r).length - n) = l := by
  subst h
  simp

theorem zip_map_self {α β : Type} (l : List α) (f : α → β) : l.zip (l.map f) = l.map (fun x => (x, f x)) := by
  induction l with
  | nil => rfl
  | cons a l ih => simp [ih]

theorem densRows_length (dens : Nat → Pt → Rat) (k : Nat) (d : Data) : (densRows dens k d).length = d.length := by
  simp [densRows]

/-- the class `_classificate` assigns to one (scaled) sample -/
abbrev classAt (dens : Nat → Pt → Rat) (st : State) (p : Pt) : Int :=
  classOf (labelSet st.learning) (densRow dens st.k p)

theorem map_classOf_densRows (dens : Nat → Pt → Rat) (st : State) (d : Data) :
    List.map (classOf (labelSet st.learning)) (densRows dens st.k d) = d.map (fun s => classAt dens st s.pt) := by
  simp [densRows]

/-- what a successful `__call__` returns, and that it leaves the object exactly as it was -/
theorem call_ok {dens : Nat → Pt → Rat} {st st' : State} {inp : Input} {r : CallResult}
    (h : call dens st inp = .ok (st', r)) :
    st.performed = true ∧ inp.data ≠ [] ∧ ∃ pts, internalPts st inp = .ok pts ∧ keptOf pts ≠ [] ∧ st' = st ∧
      r.evaluated = (keptOf pts).map (fun s => (s.pt, classAt dens st s.pt)) ∧
      r.removed = removedOf pts := by
  unfold call at h
  split at h
  · exact absurd h (by simp)
  next hp =>
  split at h
  · exact absurd h (by simp)
  next he =>
  split at h
  · exact absurd h (by simp)
  next pts hpts =>
  dsimp only at h
  split at h
  · exact absurd h (by simp)
  next hk =>
  simp only [Except.ok.injEq, Prod.mk.injEq] at h
  obtain ⟨h1, h2⟩ := h
  refine ⟨by simpa using hp, by simpa using he, pts, hpts, by simpa using hk, ?_, ?_, ?_⟩
  · rw [← h1, take_append_sub _ _ _ (densRows_length dens st.k (keptOf pts))]
  · rw [← h2]
    simp [densRows, List.zip_map']
  · rw [← h2]

/-- what a successful `test_data` returns and how it changes the object: set-aside samples, tested samples, their
classes and density rows are APPENDED to the four collections; nothing else changes -/
theorem test_ok {dens : Nat → Pt → Rat} {st st' : State} {inp : Input} {r : TestResult}
    (h : test dens st inp = .ok (st', r)) :
    st.performed = true ∧ inp.data ≠ [] ∧ ∃ pts, internalPts st inp = .ok pts ∧ labelled (keptOf pts) ≠ [] ∧
      st' = { st with omitted := st.omitted ++ unlabelled (keptOf pts),
                      testing := st.testing ++ labelled (keptOf pts),
                      densities := st.densities ++ densRows dens st.k (labelled (keptOf pts)),
                      classes := st.classes ++ (labelled (keptOf pts)).map (fun s => classAt dens st s.pt) } ∧
      r.used = (labelled (keptOf pts)).map (fun s => (s, classAt dens st s.pt)) ∧
      r.omitted = unlabelled (keptOf pts) ∧ r.removed = removedOf pts ∧
      summarize ((labelled (keptOf pts)).map (·.label))
        ((labelled (keptOf pts)).map (fun s => classAt dens st s.pt)) = .ok r.summary := by
  unfold test at h
  split at h
  · exact absurd h (by simp)
  next hp =>
  split at h
  · exact absurd h (by simp)
  next he =>
  split at h
  · exact absurd h (by simp)
  next pts hpts =>
  dsimp only at h
  split at h
  · exact absurd h (by simp)
  next hk =>
  split at h
  · exact absurd h (by simp)
  next hu =>
  rw [map_classOf_densRows] at h
  split at h
  · exact absurd h (by simp)
  next sm hsm =>
  simp only [Except.ok.injEq, Prod.mk.injEq] at h
  obtain ⟨h1, h2⟩ := h
  refine ⟨by simpa using hp, by simpa using he, pts, hpts, by simpa using hu, h1.symm, ?_, ?_, ?_, ?_⟩
  · rw [← h2, zip_map_self]
  · rw [← h2]
  · rw [← h2]
  · rw [← h2]; exact hsm

theorem mismatches_le (labels : List Int) (cls : List Int) : mismatches labels cls ≤ cls.length := by
  induction labels generalizing cls with
  | nil => simp [mismatches]
  | cons l ls ih =>
    cases cls with
    | nil => simp [mismatches]
    | cons c cs =>
      simp only [mismatches, List.length_cons]
      have := ih cs
      split <;> omega

/-- `wrong` is the number of positions at which label and returned class differ -/
theorem mismatches_eq_countP (labels : List Int) (cls : List Int) :
    mismatches labels cls = (labels.zip cls).countP (fun p => decide (p.1 ≠ p.2)) := by
  induction labels generalizing cls with
  | nil => simp [mismatches]
  | cons l ls ih =>
    cases cls with
    | nil => simp [mismatches]
    | cons c cs =>
      simp only [mismatches, List.zip_cons_cons, List.countP_cons, ih cs]
      by_cases h : l = c <;> simp [h]; omega

theorem mismatches_append (l1 l2 : List Int) (c1 c2 : List Int) (h : l1.length = c1.length) :
    mismatches (l1 ++ l2) (c1 ++ c2) = mismatches l1 c1 + mismatches l2 c2 := by
  induction l1 generalizing c1 with
  | nil =>
    cases c1 with
    | nil => simp [mismatches]
    | cons c cs => simp at h
  | cons l ls ih =>
    cases c1 with
    | nil => simp at h
    | cons c cs =>
      simp only [List.cons_append, mismatches]
      rw [ih cs (by simpa using h)]
      omega

theorem summarize_ok {labels : List Int} {cls : List Int} {sm : Summary} (h : summarize labels cls = .ok sm) :
    labels.length = cls.length ∧ 0 < cls.length ∧ sm.total = cls.length ∧ sm.wrong = mismatches labels cls ∧
      sm.pct = 1 - (sm.wrong : Rat) / (sm.total : Rat) := by
  unfold summarize at h
  split at h
  · exact absurd h (by simp)
  next h1 =>
  split at h
  · exact absurd h (by simp)
  next h2 =>
  simp only [Except.ok.injEq] at h
  subst h
  exact ⟨by simpa using h1, by omega, rfl, rfl, rfl⟩

/-- everything fixed at learning time -/
structure SameLearned (a b : State) : Prop where
  sc : a.sc = b.sc
  fitted : a.fitted = b.fitted
  k : a.k = b.k
  performed : a.performed = b.performed
  learning : a.learning = b.learning

theorem SameLearned.refl (a : State) : SameLearned a a := ⟨rfl, rfl, rfl, rfl, rfl⟩

theorem SameLearned.trans {a b c : State} (h1 : SameLearned a b) (h2 : SameLearned b c) : SameLearned a c :=
  ⟨h1.sc.trans h2.sc, h1.fitted.trans h2.fitted, h1.k.trans h2.k, h1.performed.trans h2.performed,
   h1.learning.trans h2.learning⟩

/-- what a later call may do to the object: everything fixed at learning time stays, the four collections are only
EXTENDED, and the test set and its stored classes grow together -/
structure Extends (a b : State) : Prop where
  same : SameLearned a b
  classes : a.classes <+: b.classes
  densities : a.densities <+: b.densities
  testing : a.testing <+: b.testing
  omitted : a.omitted <+: b.omitted
  balance : b.testing.length + a.classes.length = a.testing.length + b.classes.length

theorem Extends.refl (a : State) : Extends a a :=
  ⟨SameLearned.refl a, List.prefix_refl _, List.prefix_refl _, List.prefix_refl _, List.prefix_refl _, rfl⟩

theorem Extends.trans {a b c : State} (h1 : Extends a b) (h2 : Extends b c) : Extends a c :=
  ⟨h1.same.trans h2.same, h1.classes.trans h2.classes, h1.densities.trans h2.densities,
   h1.testing.trans h2.testing, h1.omitted.trans h2.omitted, by have := h1.balance; have := h2.balance; omega⟩

theorem testFailState_extends (st : State) (inp : Input) : Extends st (testFailState st inp) := by
  unfold testFailState
  split
  · exact Extends.refl st
  · split
    · exact Extends.refl st
    · split
      · exact Extends.refl st
      · split
        · exact ⟨⟨rfl, rfl, rfl, rfl, rfl⟩, List.prefix_refl _, List.prefix_refl _, List.prefix_refl _,
            List.prefix_append _ _, rfl⟩
        · exact Extends.refl st

theorem testFailState_stored (st : State) (inp : Input) :
    (testFailState st inp).classes = st.classes ∧ (testFailState st inp).densities = st.densities := by
  unfold testFailState
  split
  · exact ⟨rfl, rfl⟩
  · split
    · exact ⟨rfl, rfl⟩
    · split
      · exact ⟨rfl, rfl⟩
      · split
        · exact ⟨rfl, rfl⟩
        · exact ⟨rfl, rfl⟩

theorem step_extends (dens : Nat → Pt → Rat) (st : State) (op : Op) : Extends st (step dens st op) := by
  cases op with
  | call inp =>
    cases h : call dens st inp with
    | error e =>
      simp only [step, h]
      exact Extends.refl st
    | ok r =>
      obtain ⟨st', res⟩ := r
      obtain ⟨_, _, pts, _, _, hst, _, _⟩ := call_ok h
      simp only [step, h]
      subst hst
      exact Extends.refl _
  | test inp =>
    cases h : test dens st inp with
    | error e =>
      simp only [step, h]
      exact testFailState_extends st inp
    | ok r =>
      obtain ⟨st', res⟩ := r
      obtain ⟨_, _, pts, _, _, hst, _, _⟩ := test_ok h
      simp only [step, h]
      subst hst
      exact ⟨⟨rfl, rfl, rfl, rfl, rfl⟩, List.prefix_append _ _, List.prefix_append _ _, List.prefix_append _ _,
        List.prefix_append _ _, by simp; omega⟩
  | evaluate => exact Extends.refl st

theorem run_extends (dens : Nat → Pt → Rat) (st : State) (ops : List Op) : Extends st (run dens st ops) := by
  induction ops generalizing st with
  | nil => exact Extends.refl st
  | cons op ops ih =>
    have h2 := ih (step dens st op)
    simp only [run, List.foldl_cons] at h2 ⊢
    exact (step_extends dens st op).trans h2

theorem internalPts_congr {a b : State} (h : SameLearned a b) (inp : Input) : internalPts a inp = internalPts b inp := by
  unfold internalPts sameScaling
  rw [h.sc, h.fitted]

/-- the RESULT of `__call__` depends on the object only through what was fixed at learning time -/
theorem call_congr (dens : Nat → Pt → Rat) {a b : State} (h : SameLearned a b) (inp : Input) :
    (call dens a inp).map (·.2) = (call dens b inp).map (·.2) := by
  unfold call
  rw [internalPts_congr h inp, h.k, h.performed, h.learning]
  cases b.performed
  · rfl
  cases inp.data.isEmpty
  swap
  · rfl
  cases internalPts b inp with
  | error e => rfl
  | ok pts =>
    dsimp only
    cases (keptOf pts).isEmpty
    swap
    · rfl
    rfl

/-- the RESULT of `test_data` depends on the object only through what was fixed at learning time -/
theorem test_congr (dens : Nat → Pt → Rat) {a b : State} (h : SameLearned a b) (inp : Input) :
    (test dens a inp).map (·.2) = (test dens b inp).map (·.2) := by
  unfold test
  rw [internalPts_congr h inp, h.k, h.performed, h.learning]
  cases b.performed
  · rfl
  cases inp.data.isEmpty
  swap
  · rfl
  cases internalPts b inp with
  | error e => rfl
  | ok pts =>
    dsimp only
    cases (keptOf pts).isEmpty
    swap
    · rfl
    cases (labelled (keptOf pts)).isEmpty
    swap
    · rfl
    cases summarize (List.map (fun x => x.label) (labelled (keptOf pts)))
      (List.map (classOf (labelSet b.learning)) (densRows dens b.k (labelled (keptOf pts)))) with
    | error e => rfl
    | ok sm => rfl

/-! ### stored results -/

/-- the stored classes are, entry by entry, the class of the first arg-max of the stored density rows -/
def Aligned (st : State) : Prop := st.classes = st.densities.map (classOf (labelSet st.learning))

theorem step_aligned (dens : Nat → Pt → Rat) (st : State) (op : Op) (h : Aligned st) : Aligned (step dens st op) := by
  cases op with
  | call inp =>
    cases hc : call dens st inp with
    | error e => simpa only [step, hc] using h
    | ok r =>
      obtain ⟨st', res⟩ := r
      obtain ⟨_, _, pts, _, _, hst, _, _⟩ := call_ok hc
      simp only [step, hc]
      subst hst
      exact h
  | test inp =>
    cases hc : test dens st inp with
    | error e =>
      simp only [step, hc]
      have he := testFailState_extends st inp
      unfold Aligned at h ⊢
      obtain ⟨hc', hd'⟩ := testFailState_stored st inp
      rw [hc', hd', ← he.same.learning]; exact h
    | ok r =>
      obtain ⟨st', res⟩ := r
      obtain ⟨_, _, pts, _, _, hst, _, _⟩ := test_ok hc
      simp only [step, hc]
      subst hst
      unfold Aligned at h ⊢
      simp [h, densRows]
  | evaluate => exact h

theorem run_aligned (dens : Nat → Pt → Rat) (st : State) (ops : List Op) (h : Aligned st) : Aligned (run dens st ops) := by
  induction ops generalizing st with
  | nil => exact h
  | cons op ops ih =>
    simp only [run, List.foldl_cons]
    exact ih (step dens st op) (step_aligned dens st op h)

/-- what learning (`_process_performed_classification`) does to a fresh object -/
theorem perform_ok {dens : Nat → Pt → Rat} {st st' : State} (h : perform dens st = .ok st') :
    st.performed = false ∧ st'.performed = true ∧ st'.k = (labelSet st.learning).length ∧
      st'.sc = st.sc ∧ st'.fitted = st.fitted ∧ st'.testing = st.testing ∧ st'.omitted = st.omitted ∧
      st'.learning = st.learning ∧
      (st.testing = [] → st'.classes = st.classes ∧ st'.densities = st.densities) ∧
      (st.testing ≠ [] → st'.classes = st.testing.map (fun s => classAt dens st' s.pt) ∧
        st'.densities = st.densities ++ densRows dens st'.k st.testing) := by
  unfold perform at h
  split at h
  · exact absurd h (by simp)
  next hp =>
  dsimp only at h
  split at h
  next ht =>
    simp only [Except.ok.injEq] at h
    subst h
    have ht' : st.testing = [] := by simpa using ht
    refine ⟨by simpa using hp, rfl, rfl, rfl, rfl, rfl, rfl, rfl, fun _ => ⟨rfl, rfl⟩, fun hne => absurd ht' hne⟩
  next ht =>
    simp only [Except.ok.injEq] at h
    subst h
    have ht' : st.testing ≠ [] := by simpa using ht
    refine ⟨by simpa using hp, rfl, rfl, rfl, rfl, rfl, rfl, rfl, fun he => absurd he ht', fun _ => ⟨?_, rfl⟩⟩
    simp [densRows]

theorem evaluate_ok {st : State} {sm : Summary} (h : evaluate st = .ok sm) :
    st.performed = true ∧ st.testing ≠ [] ∧ st.testing.length = st.classes.length ∧
      summarize (st.testing.map (·.label)) st.classes = .ok sm := by
  unfold evaluate at h
  split at h
  · exact absurd h (by simp)
  next hp =>
  split at h
  · exact absurd h (by simp)
  next ht =>
  split at h
  · exact absurd h (by simp)
  next hl =>
  exact ⟨by simpa using hp, by simpa using ht, by simpa using hl, h⟩

/-- with as many stored classes as test samples (and at least one), `evaluate()` returns the summary of all of them -/
theorem evaluate_of_balanced (st : State) (hp : st.performed = true) (hne : st.testing ≠ [])
    (hlen : st.testing.length = st.classes.length) :
    ∃ sm, evaluate st = .ok sm ∧ summarize (st.testing.map (·.label)) st.classes = .ok sm := by
  have hpos : st.classes.length ≠ 0 := by
    rw [← hlen]; exact fun h => hne (List.length_eq_zero_iff.mp h)
  unfold evaluate summarize
  simp [hp, hne, hlen, hpos]

end SparseSpace.Classify
