import SparseSpace.Lemmas.Combi
import Mathlib.Algebra.Group.Defs
import Mathlib.Algebra.BigOperators.Group.List.Basic
/-!
# L2 — the combination lemma (pure mathematics, no code counterpart)

If the dominated sums of a finitely supported coefficient family `c` are the indicator of a downward closed
set `J` (this is what C01 proves of the adaptive scheme), `k ∈ J`, and `F` only depends on `l ⊓ k` on the
support, then the combination `Σ c_l • F l` collapses to `F k`.
Instances: `F = const` (coefficients sum to 1), `F l = [x ∈ grid_l]` (point-wise coefficient sums),
`F l = (I_l f)(x)` (nodal exactness), `F l = Q_l u` (exactness on a function space).
-/
namespace SparseSpace

/-- componentwise minimum -/
def meet (a b : LV) : LV := List.zipWith min a b

theorem comb_collapse {V : Type} [AddCommGroup V]
    (dim : Nat) (lmin : Int) (c : List (LV × Int)) (J : LV → Prop) [DecidablePred J]
    (hshape : ∀ p ∈ c, p.1.length = dim ∧ geAll lmin p.1)
    (hJdown : ∀ a b : LV, a.length = dim → b.length = dim → geAll lmin a → leAll a b = true → J b → J a)
    (hid : ∀ t : LV, t.length = dim → geAll lmin t → domSum c t = if J t then 1 else 0)
    (k : LV) (hk : k.length = dim) (hkmin : geAll lmin k) (hkJ : J k)
    (F : LV → V) (hF : ∀ p ∈ c, F p.1 = F (meet p.1 k)) :
    (c.map fun p => p.2 • F p.1).sum = F k := sorry

end SparseSpace
