import SparseSpace.Lemmas.Combi
import Mathlib.Algebra.Group.Defs
import Mathlib.Algebra.Group.Basic
import Mathlib.Algebra.BigOperators.Group.List.Basic
import Mathlib.Tactic.Abel
import Mathlib.Algebra.Ring.Rat
import Mathlib.Data.Int.Cast.Lemmas
/-!
# L2 — the combination lemma (pure mathematics, no code counterpart)

If the dominated sums of a finitely supported coefficient family `c` are the indicator of a downward closed
set `J` (this is what C01 proves of the adaptive scheme), `k ∈ J`, and `F` only depends on `l ⊓ k` on the
support, then the combination `Σ c_l • F l` collapses to `F k`.
Instances: `F = const` (coefficients sum to 1), `F l = [x ∈ grid_l]` (point-wise coefficient sums),
`F l = (I_l f)(x)` (nodal exactness), `F l = Q_l u` (exactness on a function space).

Proof: induction on the dimension (`collapse_aux`); in each dimension the first coordinate is capped at
`lmin + j` and `j` is raised one by one (`collapse_step`, using the one-step difference `wsum_cap_succ`), the
two correction terms being weighted sums over the tails of the level vectors with first coordinate
`≥ lmin + j + 1` (`tlGe`), whose dominated sums are dominated sums of `c` (`domSum_tlGe`).
-/
namespace SparseSpace

/-- componentwise minimum -/
def meet (a b : LV) : LV := List.zipWith min a b

theorem meet_idem : ∀ (l k : LV), meet (meet l k) k = meet l k
  | [], _ => by simp [meet]
  | _ :: _, [] => by simp [meet]
  | a :: l, b :: k => by
      have h := meet_idem l k
      simp only [meet, List.zipWith_cons_cons] at h ⊢
      rw [h]
      congr 1
      omega

theorem meet_self : ∀ (k : LV), meet k k = k
  | [] => by simp [meet]
  | a :: k => by
      have h := meet_self k
      simp only [meet, List.zipWith_cons_cons] at h ⊢
      rw [h]
      congr 1
      omega

theorem meet_cons (a b : Int) (l k : LV) : meet (a :: l) (b :: k) = min a b :: meet l k := rfl

theorem domSum_nil (t : LV) : domSum [] t = 0 := rfl

theorem domSum_cons (p : LV × Int) (c : List (LV × Int)) (t : LV) :
    domSum (p :: c) t = (if leAll t p.1 = true then p.2 else 0) + domSum c t := by
  unfold domSum
  by_cases h : leAll t p.1 = true <;> simp [h]

/-- tails (with weights) of the entries whose first coordinate is `≥ y` -/
def tlGe (y : Int) (c : List (LV × Int)) : List (LV × Int) :=
  (c.filter (fun p => decide (y ≤ p.1.headD 0))).map (fun p => (p.1.tail, p.2))

theorem tlGe_nil (y : Int) : tlGe y [] = [] := rfl

theorem tlGe_cons (y : Int) (p : LV × Int) (c : List (LV × Int)) :
    tlGe y (p :: c) = if y ≤ p.1.headD 0 then (p.1.tail, p.2) :: tlGe y c else tlGe y c := by
  simp only [tlGe, List.filter_cons, decide_eq_true_eq]
  split <;> simp only [List.map_cons]

/-- first coordinate capped at `κ` -/
def cap (κ : Int) (c : List (LV × Int)) : List (LV × Int) :=
  c.map (fun p => (min (p.1.headD 0) κ :: p.1.tail, p.2))

theorem cap_nil (κ : Int) : cap κ [] = [] := rfl

theorem cap_cons (κ : Int) (p : LV × Int) (c : List (LV × Int)) :
    cap κ (p :: c) = (min (p.1.headD 0) κ :: p.1.tail, p.2) :: cap κ c := rfl

theorem domSum_tlGe (y : Int) (t : LV) (c : List (LV × Int)) (hne : ∀ p ∈ c, p.1 ≠ []) :
    domSum (tlGe y c) t = domSum c (y :: t) := by
  induction c with
  | nil => rfl
  | cons p c ih =>
    have ih' := ih (fun q hq => hne q (List.mem_cons_of_mem _ hq))
    obtain ⟨l, w⟩ := p
    cases l with
    | nil => exact absurd rfl (hne ([], w) (List.mem_cons_self ..))
    | cons x l =>
      rw [tlGe_cons, domSum_cons]
      by_cases h : y ≤ x
      · simp only [List.headD_cons, h, if_true, List.tail_cons, leAll, decide_true, Bool.true_and]
        rw [domSum_cons, ih']
      · simp only [List.headD_cons, h, if_false, leAll, decide_false, Bool.false_and]
        rw [ih']
        simp

theorem shape_tlGe (lmin : Int) (n : Nat) (y : Int) (c : List (LV × Int))
    (hshape : ∀ p ∈ c, p.1.length = n + 1 ∧ geAll lmin p.1) :
    ∀ q ∈ tlGe y c, q.1.length = n ∧ geAll lmin q.1 := by
  intro q hq
  unfold tlGe at hq
  rw [List.mem_map] at hq
  obtain ⟨p, hp, rfl⟩ := hq
  have hp' := hshape p (List.mem_of_mem_filter hp)
  constructor
  · simp [hp'.1]
  · intro x hx
    exact hp'.2 x (List.mem_of_mem_tail hx)

section
variable {V : Type} [AddCommGroup V]

/-- the weighted sum `Σ_{(l,w) ∈ c} w • G l` -/
def wsum (c : List (LV × Int)) (G : LV → V) : V := (c.map fun p => p.2 • G p.1).sum

theorem wsum_nil (G : LV → V) : wsum [] G = 0 := rfl

theorem wsum_cons (p : LV × Int) (c : List (LV × Int)) (G : LV → V) :
    wsum (p :: c) G = p.2 • G p.1 + wsum c G := by
  simp [wsum]

theorem wsum_congr (c : List (LV × Int)) (G H : LV → V) (h : ∀ p ∈ c, G p.1 = H p.1) :
    wsum c G = wsum c H := by
  unfold wsum
  congr 1
  apply List.map_congr_left
  intro p hp
  rw [h p hp]

/-- dimension 0 -/
theorem wsum_dim0 (c : List (LV × Int)) (G : LV → V) (h0 : ∀ p ∈ c, p.1 = []) :
    wsum c G = domSum c [] • G [] := by
  induction c with
  | nil => simp [wsum_nil, domSum_nil]
  | cons p c ih =>
    rw [wsum_cons, domSum_cons, ih (fun q hq => h0 q (List.mem_cons_of_mem _ hq)),
      h0 p (List.mem_cons_self ..)]
    simp [leAll, add_zsmul]

/-- raising the cap of the first coordinate by one -/
theorem wsum_cap_succ (y : Int) (c : List (LV × Int)) (G : LV → V) :
    wsum (cap (y + 1) c) G
      = wsum (cap y c) G + wsum (tlGe (y + 1) c) (fun l => G ((y + 1) :: l))
          - wsum (tlGe (y + 1) c) (fun l => G (y :: l)) := by
  induction c with
  | nil => simp [cap_nil, tlGe_nil, wsum_nil]
  | cons p c ih =>
    rw [cap_cons, cap_cons, tlGe_cons, wsum_cons, wsum_cons, ih]
    by_cases h : y + 1 ≤ p.1.headD 0
    · rw [if_pos h, wsum_cons, wsum_cons]
      have h1 : min (p.1.headD 0) (y + 1) = y + 1 := by omega
      have h2 : min (p.1.headD 0) y = y := by omega
      simp only [h1, h2]
      abel
    · rw [if_neg h]
      have h1 : min (p.1.headD 0) (y + 1) = min (p.1.headD 0) y := by omega
      simp only [h1]
      abel

/-- cap at (or below) all first coordinates -/
theorem wsum_cap_base (y : Int) (c : List (LV × Int)) (G : LV → V) (hge : ∀ p ∈ c, y ≤ p.1.headD 0) :
    wsum (cap y c) G = wsum (tlGe y c) (fun l => G (y :: l)) := by
  induction c with
  | nil => simp [cap_nil, tlGe_nil, wsum_nil]
  | cons p c ih =>
    have h := hge p (List.mem_cons_self ..)
    rw [cap_cons, tlGe_cons, if_pos h, wsum_cons, wsum_cons,
      ih (fun q hq => hge q (List.mem_cons_of_mem _ hq))]
    have h1 : min (p.1.headD 0) y = y := by omega
    simp only [h1]

/-- a cap that `G` does not see -/
theorem wsum_cap_eq (κ : Int) (k' : LV) (c : List (LV × Int)) (G : LV → V)
    (hne : ∀ p ∈ c, p.1 ≠ []) (hG : ∀ l, G l = G (meet l (κ :: k'))) :
    wsum (cap κ c) G = wsum c G := by
  induction c with
  | nil => rfl
  | cons p c ih =>
    rw [cap_cons, wsum_cons, wsum_cons, ih (fun q hq => hne q (List.mem_cons_of_mem _ hq))]
    congr 2
    obtain ⟨l, w⟩ := p
    cases l with
    | nil => exact absurd rfl (hne ([], w) (List.mem_cons_self ..))
    | cons x l =>
      simp only [List.headD_cons, List.tail_cons]
      rw [hG (x :: l), hG (min x κ :: l), meet_cons, meet_cons]
      congr 2
      omega

/-- the statement in one dimension more, first coordinate capped at `lmin + j` -/
theorem collapse_step (lmin : Int) (k' : LV)
    (IH : ∀ (c : List (LV × Int)) (G : LV → V),
      (∀ p ∈ c, p.1.length = k'.length ∧ geAll lmin p.1) →
      (∀ l, G l = G (meet l k')) →
      (∀ t : LV, t.length = k'.length → geAll lmin t → leAll t k' = true → domSum c t = 1) →
      wsum c G = G k')
    (c : List (LV × Int)) (hshape : ∀ p ∈ c, p.1.length = k'.length + 1 ∧ geAll lmin p.1)
    (G : LV → V) (hG : ∀ (z : Int) (l : LV), G (z :: l) = G (z :: meet l k'))
    (j : Nat)
    (hD : ∀ (y : Int) (t : LV), lmin ≤ y → y ≤ lmin + j → t.length = k'.length → geAll lmin t →
      leAll t k' = true → domSum c (y :: t) = 1) :
    wsum (cap (lmin + j) c) G = G ((lmin + j) :: k') := by
  have hne : ∀ p ∈ c, p.1 ≠ [] := by
    intro p hp h
    have := (hshape p hp).1
    rw [h] at this
    simp at this
  have key : ∀ (y z : Int), lmin ≤ y → y ≤ lmin + j →
      wsum (tlGe y c) (fun l => G (z :: l)) = G (z :: k') := by
    intro y z h1 h2
    apply IH (tlGe y c) (fun l => G (z :: l)) (shape_tlGe lmin k'.length y c hshape)
    · intro l; exact hG z l
    · intro t ht hmin hle
      rw [domSum_tlGe y t c hne]
      exact hD y t h1 h2 ht hmin hle
  induction j with
  | zero =>
    have hge : ∀ p ∈ c, lmin ≤ p.1.headD 0 := by
      intro p hp
      obtain ⟨l, w⟩ := p
      cases l with
      | nil => exact absurd rfl (hne ([], w) hp)
      | cons x l => exact (hshape _ hp).2 x (List.mem_cons_self ..)
    simp only [Nat.cast_zero, add_zero] at key ⊢
    rw [wsum_cap_base lmin c G hge]
    exact key lmin lmin (le_refl _) (le_refl _)
  | succ j ih =>
    have hcast : lmin + ((j + 1 : Nat) : Int) = (lmin + j) + 1 := by push_cast; ring
    rw [hcast] at key ⊢
    have hj : (0 : Int) ≤ j := Int.natCast_nonneg j
    rw [wsum_cap_succ, key (lmin + j + 1) (lmin + j + 1) (by omega) (le_refl _),
      key (lmin + j + 1) (lmin + j) (by omega) (le_refl _)]
    rw [ih (fun y t h1 h2 => hD y t h1 (by push_cast; omega))
        (fun y z h1 h2 => key y z h1 (by omega))]
    abel

theorem collapse_aux (lmin : Int) : ∀ (k : LV) (c : List (LV × Int)) (G : LV → V),
    geAll lmin k →
    (∀ p ∈ c, p.1.length = k.length ∧ geAll lmin p.1) →
    (∀ l, G l = G (meet l k)) →
    (∀ t : LV, t.length = k.length → geAll lmin t → leAll t k = true → domSum c t = 1) →
    wsum c G = G k
  | [], c, G, _, hshape, _, hD => by
      rw [wsum_dim0 c G (fun p hp => List.eq_nil_of_length_eq_zero (hshape p hp).1),
        hD [] rfl (fun x hx => by simp at hx) rfl, one_zsmul]
  | κ :: k', c, G, hk, hshape, hG, hD => by
      have hκ : lmin ≤ κ := hk κ (List.mem_cons_self ..)
      have hk' : geAll lmin k' := fun x hx => hk x (List.mem_cons_of_mem _ hx)
      have hne : ∀ p ∈ c, p.1 ≠ [] := by
        intro p hp h
        have := (hshape p hp).1
        rw [h] at this
        simp at this
      obtain ⟨j, rfl⟩ : ∃ j : Nat, κ = lmin + j := ⟨(κ - lmin).toNat, by omega⟩
      rw [← wsum_cap_eq (lmin + j) k' c G hne hG]
      apply collapse_step lmin k'
        (fun c G h1 h2 h3 => collapse_aux lmin k' c G hk' h1 h2 h3) c hshape G
      · intro z l
        rw [hG (z :: l), hG (z :: meet l k'), meet_cons, meet_cons, meet_idem]
      · intro y t h1 h2 ht hmin hle
        apply hD (y :: t)
        · simp [ht]
        · intro x hx
          rcases List.mem_cons.1 hx with rfl | hx
          · exact h1
          · exact hmin x hx
        · simp [leAll, h2, hle]

end

theorem comb_collapse {V : Type} [AddCommGroup V]
    (dim : Nat) (lmin : Int) (c : List (LV × Int)) (J : LV → Prop) [DecidablePred J]
    (hshape : ∀ p ∈ c, p.1.length = dim ∧ geAll lmin p.1)
    (hJdown : ∀ a b : LV, a.length = dim → b.length = dim → geAll lmin a → leAll a b = true → J b → J a)
    (hid : ∀ t : LV, t.length = dim → geAll lmin t → domSum c t = if J t then 1 else 0)
    (k : LV) (hk : k.length = dim) (hkmin : geAll lmin k) (hkJ : J k)
    (F : LV → V) (hF : ∀ p ∈ c, F p.1 = F (meet p.1 k)) :
    (c.map fun p => p.2 • F p.1).sum = F k := by
  subst hk
  have h := collapse_aux lmin k c (fun l => F (meet l k)) hkmin hshape
    (fun l => by simp only [meet_idem])
    (fun t ht hmin hle => by
      rw [hid t ht hmin, if_pos (hJdown t k ht rfl hmin hle hkJ)])
  simp only [meet_self] at h
  rw [← h]
  exact wsum_congr c F (fun l => F (meet l k)) hF

/-- coefficients sum to 1 -/
theorem comb_sum_one
    (dim : Nat) (lmin : Int) (c : List (LV × Int)) (J : LV → Prop) [DecidablePred J]
    (hshape : ∀ p ∈ c, p.1.length = dim ∧ geAll lmin p.1)
    (hJdown : ∀ a b : LV, a.length = dim → b.length = dim → geAll lmin a → leAll a b = true → J b → J a)
    (hid : ∀ t : LV, t.length = dim → geAll lmin t → domSum c t = if J t then 1 else 0)
    (k : LV) (hk : k.length = dim) (hkmin : geAll lmin k) (hkJ : J k) :
    (c.map (·.2)).sum = 1 := by
  have h := comb_collapse (V := Int) dim lmin c J hshape hJdown hid k hk hkmin hkJ (fun _ => 1)
    (fun _ _ => rfl)
  simpa using h

/-- point-wise coefficient sum: if membership of a point in the component grid of level `l` is `leAll k l`
for a level `k ∈ J` (`k` = the level of the point), the coefficients of the grids containing the point sum
to 1 (this is `hid` at `t = k`) -/
theorem comb_pointwise
    (dim : Nat) (lmin : Int) (c : List (LV × Int)) (J : LV → Prop) [DecidablePred J]
    (hid : ∀ t : LV, t.length = dim → geAll lmin t → domSum c t = if J t then 1 else 0)
    (k : LV) (hk : k.length = dim) (hkmin : geAll lmin k) (hkJ : J k) :
    ((c.filter (fun p => leAll k p.1)).map (·.2)).sum = 1 := by
  have h := hid k hk hkmin
  rw [if_pos hkJ] at h
  exact h

/-- rational-valued `F`: multiplication instead of `•` -/
theorem comb_collapse_rat
    (dim : Nat) (lmin : Int) (c : List (LV × Int)) (J : LV → Prop) [DecidablePred J]
    (hshape : ∀ p ∈ c, p.1.length = dim ∧ geAll lmin p.1)
    (hJdown : ∀ a b : LV, a.length = dim → b.length = dim → geAll lmin a → leAll a b = true → J b → J a)
    (hid : ∀ t : LV, t.length = dim → geAll lmin t → domSum c t = if J t then 1 else 0)
    (k : LV) (hk : k.length = dim) (hkmin : geAll lmin k) (hkJ : J k)
    (F : LV → Rat) (hF : ∀ p ∈ c, F p.1 = F (meet p.1 k)) :
    (c.map fun p => (p.2 : Rat) * F p.1).sum = F k := by
  have h := comb_collapse dim lmin c J hshape hJdown hid k hk hkmin hkJ F hF
  simpa only [zsmul_eq_mul] using h

/-- integer-valued `F` -/
theorem comb_collapse_int
    (dim : Nat) (lmin : Int) (c : List (LV × Int)) (J : LV → Prop) [DecidablePred J]
    (hshape : ∀ p ∈ c, p.1.length = dim ∧ geAll lmin p.1)
    (hJdown : ∀ a b : LV, a.length = dim → b.length = dim → geAll lmin a → leAll a b = true → J b → J a)
    (hid : ∀ t : LV, t.length = dim → geAll lmin t → domSum c t = if J t then 1 else 0)
    (k : LV) (hk : k.length = dim) (hkmin : geAll lmin k) (hkJ : J k)
    (F : LV → Int) (hF : ∀ p ∈ c, F p.1 = F (meet p.1 k)) :
    (c.map fun p => p.2 * F p.1).sum = F k := by
  have h := comb_collapse dim lmin c J hshape hJdown hid k hk hkmin hkJ F hF
  simpa only [zsmul_eq_mul, Int.cast_id] using h

/-- The hypotheses are satisfiable on a non-trivial family: the 2-D scheme with index set
`{(1,1),(1,2),(2,1)}`, `lmin = 1`, and the point level `k = (1,2)`. -/
example {V : Type} [AddCommGroup V] (F : LV → V) (h21 : F [2, 1] = F [1, 1]) :
    (([([1, 2], 1), ([2, 1], 1), ([1, 1], -1)] : List (LV × Int)).map fun p => p.2 • F p.1).sum
      = F [1, 2] := by
  apply comb_collapse 2 1 [([1, 2], 1), ([2, 1], 1), ([1, 1], -1)]
    (fun t => t ∈ ([[1, 1], [1, 2], [2, 1]] : List LV))
  · intro p hp
    simp only [List.mem_cons, List.not_mem_nil, or_false] at hp
    rcases hp with rfl | rfl | rfl <;> simp [geAll]
  · intro a b ha hb hmin hle hJ
    obtain ⟨x, y, rfl⟩ : ∃ x y, a = [x, y] := by
      match a, ha with
      | [x, y], _ => exact ⟨x, y, rfl⟩
    have hx : 1 ≤ x := hmin x (by simp)
    have hy : 1 ≤ y := hmin y (by simp)
    simp only [List.mem_cons, List.not_mem_nil, or_false] at hJ
    rcases hJ with rfl | rfl | rfl <;>
      simp only [leAll, Bool.and_eq_true, decide_eq_true_eq, and_true] at hle <;>
      obtain ⟨h1, h2⟩ := hle
    · have : x = 1 := by omega
      have : y = 1 := by omega
      subst_vars; simp
    · have : x = 1 := by omega
      have : y = 1 ∨ y = 2 := by omega
      rcases this with rfl | rfl <;> subst_vars <;> simp
    · have : y = 1 := by omega
      have : x = 1 ∨ x = 2 := by omega
      rcases this with rfl | rfl <;> subst_vars <;> simp
  · intro t ht hmin
    obtain ⟨x, y, rfl⟩ : ∃ x y, t = [x, y] := by
      match t, ht with
      | [x, y], _ => exact ⟨x, y, rfl⟩
    have hx : 1 ≤ x := hmin x (by simp)
    have hy : 1 ≤ y := hmin y (by simp)
    have hx' : x = 1 ∨ x = 2 ∨ 3 ≤ x := by omega
    have hy' : y = 1 ∨ y = 2 ∨ 3 ≤ y := by omega
    rcases hx' with rfl | rfl | hx' <;> rcases hy' with rfl | rfl | hy' <;>
      simp [domSum_cons, domSum_nil, leAll] <;> omega
  · rfl
  · intro x hx; simp at hx; omega
  · simp
  · intro p hp
    simp only [List.mem_cons, List.not_mem_nil, or_false] at hp
    rcases hp with rfl | rfl | rfl
    · rfl
    · exact h21
    · rfl

end SparseSpace

