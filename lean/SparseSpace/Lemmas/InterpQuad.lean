import SparseSpace.Lemmas.InterpPL
/-!
# The trapezoidal rule on the level grids

* `trap1` : the 1-D rule as the model computes it (points · weights)
* `trap1_eq_cellSum` : it is the sum of the cell trapezoids (with boundary points; without them if `u` vanishes at
  the ends)
* `cellSum_refine`, `trap1_PL` : refining the grid does not change the value on `V_k`
* `quadGrid_tprod` : the tensor rule of a product function is the product of the 1-D rules
-/
namespace SparseSpace

/-- the 1-D rule of level `l`: `Σ u(x_i) w_i` over the returned points and weights -/
def trap1 (a b : Rat) (l : Nat) (bd : Bool) (u : Rat → Rat) : Rat :=
  (List.zipWith (fun x w => u x * w) (levelPoints a b l bd) (levelWeights a b l bd)).sum

/-- sum of the trapezoids of the `n` cells with node values `g 0 … g n` and width `h` -/
def cellSumG (g : Nat → Rat) (h : Rat) (n : Nat) : Rat := ((List.range n).map fun i => (g i + g (i + 1)) / 2 * h).sum

/-- sum of the cell trapezoids of `u` on the level-`l` grid: the exact integral of the level-`l` interpolant -/
def cellSum (a b : Rat) (l : Nat) (u : Rat → Rat) : Rat :=
  cellSumG (fun i => u (linPt a b (2 ^ l) i)) ((b - a) / ((2 ^ l : Nat) : Rat)) (2 ^ l)

theorem zipWith_map_map {α β γ δ : Type} (f : β → γ → δ) (g : α → β) (h : α → γ) (l : List α) :
    List.zipWith f (l.map g) (l.map h) = l.map fun i => f (g i) (h i) := by
  induction l with
  | nil => rfl
  | cons x l ih => simp [ih]

theorem sum_map_mul_right' {ι : Type} (l : List ι) (f : ι → Rat) (c : Rat) :
    (l.map fun i => f i * c).sum = (l.map f).sum * c := by
  induction l with
  | nil => simp
  | cons i l ih => simp only [List.map_cons, List.sum_cons, ih]; ring

/-- inner sum `Σ_{1 ≤ i < n} g i` -/
def innerSum (g : Nat → Rat) (n : Nat) : Rat := ((List.range (n - 1)).map fun j => g (j + 1)).sum

theorem cellSumG_eq (g : Nat → Rat) (h : Rat) : ∀ m : Nat,
    cellSumG g h (m + 1) = (innerSum g (m + 1) + (g 0 + g (m + 1)) / 2) * h
  | 0 => by simp [cellSumG, innerSum]
  | m + 1 => by
      have ih := cellSumG_eq g h m
      unfold cellSumG innerSum at ih ⊢
      rw [List.range_succ, List.map_append, List.sum_append, ih]
      simp only [Nat.add_sub_cancel, List.map_cons, List.map_nil, List.sum_cons, List.sum_nil]
      rw [List.range_succ, List.map_append, List.sum_append]
      simp only [List.map_cons, List.map_nil, List.sum_cons, List.sum_nil]
      ring

/-- with boundary points: the rule is the sum of the cell trapezoids -/
theorem trap1_true (a b : Rat) (l : Nat) (u : Rat → Rat) : trap1 a b l true u = cellSum a b l u := by
  obtain ⟨m, hm⟩ : ∃ m, 2 ^ l = m + 1 := ⟨2 ^ l - 1, by have : 0 < 2 ^ l := Nat.pos_of_ne_zero (by positivity); omega⟩
  unfold trap1 cellSum levelPoints levelWeights levelIdx
  simp only [if_true]
  rw [zipWith_map_map, hm, cellSumG_eq]
  have hr : List.range (m + 1 + 1) = 0 :: ((List.range m).map (· + 1) ++ [m + 1]) := by
    rw [List.range_eq_range', List.range'_succ, List.range'_concat, List.range'_eq_map_range]
    simp [Nat.add_comm]
  rw [hr]
  simp only [List.map_cons, List.map_append, List.map_map, List.map_nil, List.sum_cons, List.sum_append,
    List.sum_nil]
  have hmid : (List.range m).map ((fun i => u (linPt a b (m + 1) i) * ((b - a) / ((m + 1 : Nat) : Rat) *
        if (i == 0 || i == m + 1) = true then 1 / 2 else 1)) ∘ fun x => x + 1)
      = (List.range m).map fun j => u (linPt a b (m + 1) (j + 1)) * ((b - a) / ((m + 1 : Nat) : Rat)) := by
    apply List.map_congr_left
    intro j hj
    rw [List.mem_range] at hj
    have hc : (j + 1 == 0 || j + 1 == m + 1) = false := by simp; omega
    simp only [Function.comp, hc, Bool.false_eq_true, if_false, mul_one]
  rw [hmid, sum_map_mul_right']
  unfold innerSum
  simp only [Nat.add_sub_cancel]
  have h3 : ((0 : Nat) == 0 || (0 : Nat) == m + 1) = true := by simp
  have h4 : (m + 1 == 0 || m + 1 == m + 1) = true := by simp
  simp only [h3, h4, if_true]
  ring

/-- without boundary points: the rule is the sum of the cell trapezoids if `u` vanishes at both ends -/
theorem trap1_false (a b : Rat) (l : Nat) (u : Rat → Rat) (hua : u a = 0) (hub : u b = 0) :
    trap1 a b l false u = cellSum a b l u := by
  have hn : 0 < 2 ^ l := Nat.pos_of_ne_zero (by positivity)
  obtain ⟨m, hm⟩ : ∃ m, 2 ^ l = m + 1 := ⟨2 ^ l - 1, by omega⟩
  have h0 : u (linPt a b (2 ^ l) 0) = 0 := by rw [linPt_zero]; exact hua
  have h1 : u (linPt a b (2 ^ l) (2 ^ l)) = 0 := by rw [linPt_last a b _ hn]; exact hub
  unfold trap1 cellSum levelPoints levelWeights levelIdx
  simp only [Bool.false_eq_true, if_false]
  rw [zipWith_map_map]
  rw [hm] at h0 h1 ⊢
  rw [cellSumG_eq, h0, h1]
  unfold innerSum
  simp only [Nat.add_sub_cancel, List.map_map]
  have hmid : (List.range m).map ((fun i => u (linPt a b (m + 1) i) * ((b - a) / ((m + 1 : Nat) : Rat) *
        if (i == 0 || i == m + 1) = true then 1 / 2 else 1)) ∘ fun x => x + 1)
      = (List.range m).map fun j => u (linPt a b (m + 1) (j + 1)) * ((b - a) / ((m + 1 : Nat) : Rat)) := by
    apply List.map_congr_left
    intro j hj
    rw [List.mem_range] at hj
    have hc : (j + 1 == 0 || j + 1 == m + 1) = false := by simp; omega
    simp only [Function.comp, hc, Bool.false_eq_true, if_false, mul_one]
  rw [hmid, sum_map_mul_right']
  ring

theorem sum_range_pairs (f : Nat → Rat) : ∀ n : Nat,
    ((List.range (2 * n)).map f).sum = ((List.range n).map fun i => f (2 * i) + f (2 * i + 1)).sum
  | 0 => by simp
  | n + 1 => by
      have h : 2 * (n + 1) = 2 * n + 1 + 1 := by ring
      rw [h, List.range_succ, List.range_succ, List.range_succ]
      simp only [List.map_append, List.sum_append, List.map_cons, List.map_nil, List.sum_cons, List.sum_nil]
      rw [sum_range_pairs f n]
      ring

/-- value of an affine function at the midpoint -/
theorem AffOn.mid {g : Rat → Rat} {y y' : Rat} (h : AffOn g y y') (hy : y ≤ y') :
    g ((y + y') / 2) = (g y + g y') / 2 := by
  obtain ⟨α, β, hg⟩ := h
  rw [hg _ (by linarith) (by linarith), hg y (le_refl _) hy, hg y' hy (le_refl _)]
  ring

/-- one refinement step does not change the sum of the cell trapezoids of `u ∈ V_l` -/
theorem cellSum_succ (a b : Rat) (hab : a < b) (l : Nat) (u : Rat → Rat) (hu : PLk a b l u) :
    cellSum a b (l + 1) u = cellSum a b l u := by
  have hn : 0 < 2 ^ l := Nat.pos_of_ne_zero (by positivity)
  unfold cellSum cellSumG
  have h2 : 2 ^ (l + 1) = 2 * 2 ^ l := by ring
  rw [h2, sum_range_pairs]
  apply congrArg
  apply List.map_congr_left
  intro i hi
  rw [List.mem_range] at hi
  have e0 : linPt a b (2 * 2 ^ l) (2 * i) = linPt a b (2 ^ l) i := by
    have := linPt_refine a b l 1 i
    simpa [pow_succ, Nat.mul_comm] using this
  have e2 : linPt a b (2 * 2 ^ l) (2 * i + 1 + 1) = linPt a b (2 ^ l) (i + 1) := by
    have := linPt_refine a b l 1 (i + 1)
    have h : (i + 1) * 2 ^ 1 = 2 * i + 1 + 1 := by ring
    rw [h] at this
    simpa [pow_succ, Nat.mul_comm] using this
  have e1 : linPt a b (2 * 2 ^ l) (2 * i + 1) = (linPt a b (2 ^ l) i + linPt a b (2 ^ l) (i + 1)) / 2 := by
    unfold linPt
    have hne : ((2 ^ l : Nat) : Rat) ≠ 0 := by positivity
    push_cast
    have hne' : (2 : Rat) ^ l ≠ 0 := by positivity
    field_simp
    ring
  have hmid := (hu i hi).mid (linPt_le a b hab _ hn (Nat.le_succ i))
  beta_reduce
  rw [e0, e2, e1, hmid]
  have hne : ((2 ^ l : Nat) : Rat) ≠ 0 := by positivity
  push_cast
  have hne' : (2 : Rat) ^ l ≠ 0 := by positivity
  field_simp
  ring

theorem cellSum_refine (a b : Rat) (hab : a < b) {k : Nat} {u : Rat → Rat} (hu : PLk a b k u) :
    ∀ m : Nat, cellSum a b (k + m) u = cellSum a b k u
  | 0 => rfl
  | m + 1 => by
      rw [← cellSum_refine a b hab hu m, ← Nat.add_assoc]
      exact cellSum_succ a b hab (k + m) u (PLk_mono a b hab (Nat.le_add_right k m) hu)

/-- `u` vanishes at both ends of `[a,b]` when boundary points are off -/
def ZeroEnds (a b : Rat) (bd : Bool) (u : Rat → Rat) : Prop := bd = false → u a = 0 ∧ u b = 0

theorem trap1_eq_cellSum (a b : Rat) (l : Nat) (bd : Bool) (u : Rat → Rat) (hz : ZeroEnds a b bd u) :
    trap1 a b l bd u = cellSum a b l u := by
  cases bd
  · exact trap1_false a b l u (hz rfl).1 (hz rfl).2
  · exact trap1_true a b l u

/-- **refining the grid does not change the trapezoidal value of `u ∈ V_k`** -/
theorem trap1_PL (a b : Rat) (hab : a < b) {k l : Nat} (hkl : k ≤ l) (bd : Bool) {u : Rat → Rat} (hu : PLk a b k u)
    (hz : ZeroEnds a b bd u) : trap1 a b l bd u = trap1 a b k bd u := by
  obtain ⟨m, rfl⟩ : ∃ m, l = k + m := ⟨l - k, by omega⟩
  rw [trap1_eq_cellSum a b _ bd u hz, trap1_eq_cellSum a b _ bd u hz, cellSum_refine a b hab hu m]

/-! ## tensor rule of a product function -/

/-- the product of the 1-D rules -/
def trapProd : Flags → List Rat → List Rat → List Int → List (Rat → Rat) → Rat
  | _, [], [], [], [] => 1
  | bd, a :: as, b :: bs, l :: ls, u :: us => trap1 a b l.toNat (bd 0) u * trapProd bd.tl as bs ls us
  | _, _, _, _, _ => 0

theorem foldl_mul_init (ws : List Rat) (w : Rat) : ws.foldl (· * ·) w = w * ws.foldl (· * ·) 1 := by
  induction ws generalizing w with
  | nil => simp
  | cons x ws ih => simp only [List.foldl_cons, one_mul]; rw [ih (w * x), ih x]; ring

theorem zipWith_flatMap_sum {α β : Type} (g : List α → β → Rat) :
    ∀ (xs : List α) (ws : List β) (A : α → List (List α)) (B : β → List β),
      (∀ x w, (A x).length = (B w).length) →
      (List.zipWith g (xs.flatMap A) (ws.flatMap B)).sum
        = (List.zipWith (fun x w => (List.zipWith g (A x) (B w)).sum) xs ws).sum
  | [], _, _, _, _ => by simp
  | _ :: _, [], _, _, _ => by simp
  | x :: xs, w :: ws, A, B, h => by
      simp only [List.flatMap_cons, List.zipWith_cons_cons, List.sum_cons]
      rw [List.zipWith_append (h x w), List.sum_append, zipWith_flatMap_sum g xs ws A B h]

theorem zipWith_sum_mul_right {α β : Type} (f : α → β → Rat) (c : Rat) : ∀ (xs : List α) (ws : List β),
    (List.zipWith (fun x w => f x w * c) xs ws).sum = (List.zipWith f xs ws).sum * c
  | [], _ => by simp
  | _ :: _, [] => by simp
  | x :: xs, w :: ws => by
      simp only [List.zipWith_cons_cons, List.sum_cons, zipWith_sum_mul_right f c xs ws]; ring

theorem quad_inner (u : Rat → Rat) (us : List (Rat → Rat)) (x w : Rat) : ∀ (C W : List (List Rat)),
    (List.zipWith (fun p w' => tprod (u :: us) p * w') (C.map (x :: ·))
        ((W.map (w :: ·)).map fun ws => ws.foldl (· * ·) 1)).sum
      = (u x * w) * (List.zipWith (fun p w' => tprod us p * w') C (W.map fun ws => ws.foldl (· * ·) 1)).sum
  | [], _ => by simp
  | _ :: _, [] => by simp
  | p :: C, ws :: W => by
      simp only [List.map_cons, List.zipWith_cons_cons, List.sum_cons, quad_inner u us x w C W, tprod,
        List.foldl_cons, one_mul]
      rw [foldl_mul_init ws w]
      ring

/-- the tensor rule of a product function is the product of the 1-D rules -/
theorem quadGrid_tprod : ∀ (bd : Flags) (a b : List Rat) (lv : List Int) (us : List (Rat → Rat)),
    a.length = lv.length → b.length = lv.length → us.length = lv.length →
    quadGrid a b lv bd (tprod us) = trapProd bd a b lv us
  | bd, [], [], [], [], _, _, _ => by simp [quadGrid, gridPoints, gridWeights, gridAxes, weightAxes, cross, tprod, trapProd]
  | bd, a :: as, b :: bs, l :: ls, u :: us, ha, hb, hu => by
      have ih := quadGrid_tprod bd.tl as bs ls us (by simpa using ha) (by simpa using hb) (by simpa using hu)
      have hcl : (cross (gridAxes as bs ls bd.tl)).length = (cross (weightAxes as bs ls bd.tl)).length := by
        rw [cross_length, cross_length, gridAxes_map_length bd.tl as bs ls (by simpa using ha) (by simpa using hb),
          weightAxes_map_length bd.tl as bs ls (by simpa using ha) (by simpa using hb)]
      unfold quadGrid gridPoints gridWeights at ih ⊢
      simp only [gridAxes, weightAxes, cross, trapProd]
      rw [List.map_flatMap]
      rw [zipWith_flatMap_sum _ _ _ _ _ (by intro x w; simp [hcl])]
      unfold trap1
      rw [← ih]
      simp only [quad_inner]
      rw [zipWith_sum_mul_right (fun x w => u x * w)]
  | bd, [], _ :: _, [], _, _, hb, _ => by simp at hb
  | bd, _ :: _, _, [], _, ha, _, _ => by simp at ha
  | bd, [], _, _ :: _, _, ha, _, _ => by simp at ha
  | bd, _ :: _, [], _ :: _, _, _, hb, _ => by simp at hb
  | bd, _, _, [], _ :: _, _, _, hu => by simp at hu
  | bd, _, _, _ :: _, [], _, _, hu => by simp at hu

end SparseSpace
