import SparseSpace.Lemmas.DimWisePoints
import SparseSpace.Model.Exactness
/-!
# Bridge from the dimension-wise refinement model to C04's observed state, and what is (not) kept of the initial grids

`toExact` builds C04's `DWState` (Model/Exactness) from a state of `Model/DimWise`: scheme, index set and, per
dimension, the node list `dimCoords d l` of every component level `lmin ≤ l ≤ lmax_d`.  So C04's monitored predicate
`keepsInitial` can be evaluated on (and, where possible, proved about) the states of the refinement model.
-/
namespace SparseSpace

/-- the component levels of dimension `d` that are tabulated: `lmin .. lmax_d` -/
def DW.levelsOf (st : DW) (d : Nat) : List Int :=
  (List.range ((st.lmax.getD d 0 - st.lmin).toNat + 1)).map fun (n : Nat) => st.lmin + (n : Int)

/-- C04's observed state of a state of the refinement model -/
def DW.toExact (st : DW) (cfg : PtCfg) (a b : List Rat) (lmax0 : Int) : Exact.DWState :=
  { dim := st.dim, lmin := st.lmin, lmax0 := lmax0, dom := a.zip b,
    scheme := st.cs.coeffs, idx := st.cs.old ++ st.cs.active,
    tbl := (List.range st.dim).map fun d => (st.levelsOf d).map fun l => (l, st.dimCoords cfg d l) }

/-! ## the part that holds in every state: nothing of level `≤ max(lmin, 1)` is ever dropped -/

theorem modifyLv_le (m l lmin lmaxd ml : Int) : modifyLv m l lmin lmaxd ml ≤ l - lmin := by
  unfold modifyLv
  simp only []
  omega

/-- versions 3 (after fix 891031b), 6, 7, 8: an interval end of level `≤ max(lmin, 1)` is kept at EVERY component level
(`modify_according_to_levelvec` caps the subtraction value at `levelvec[d] - lmin[d]`) -/
theorem keep_low_levels (version dim d : Nat) (v3r : Int → Nat → Nat → Int) (lmin lmaxd : Int) (mcs : List Int)
    (ml : Nat) (l : Int) (l1 : Nat) (hv : version = 3 ∨ version = 6 ∨ version = 7 ∨ version = 8)
    (h1 : (l1 : Int) ≤ max lmin 1) :
    keepEnd l1 l (subValue version dim d v3r lmin lmaxd mcs ml l).1 = true := by
  have key : ∀ m : Int, keepEnd l1 l (modifyLv m l lmin lmaxd ml) = true := by
    intro m
    have := modifyLv_le m l lmin lmaxd ml
    simp only [keepEnd, decide_eq_true_eq]
    omega
  rcases hv with rfl | rfl | rfl | rfl
  · simp only [subValue, keepEnd, decide_eq_true_eq]; omega
  · simp only [subValue]; exact key _
  · simp only [subValue]; exact key _
  · simp only [subValue]; exact key _

/-- in EVERY state, for the versions 3, 6, 7, 8: every interval end of level `≤ max(lmin, 1)` is a point of every
component level (so the nodes of the initial level-`lmin` grid — and the domain ends — are never lost) -/
theorem dimPoints_keep_low (st : DW) (cfg : PtCfg) (hv : cfg.version = 3 ∨ cfg.version = 6 ∨ cfg.version = 7 ∨ cfg.version = 8)
    (d : Nat) (l : Int) (x : Ival) (hx : x ∈ st.objsOf d) (h1 : (x.l1 : Int) ≤ max st.lmin 1) :
    (x.e, x.l1) ∈ st.dimPoints cfg d l := by
  unfold DW.dimPoints
  simp only []
  cases hobjs : st.objsOf d with
  | nil => rw [hobjs] at hx; simp at hx
  | cons x0 xs =>
    rw [hobjs] at hx
    simp only []
    apply List.mem_cons_of_mem
    rw [List.mem_filterMap]
    obtain ⟨i, hi, hxi⟩ := List.getElem_of_mem hx
    refine ⟨(x, i), ?_, ?_⟩
    · rw [List.mem_zipIdx_iff_getElem?]
      simp [List.getElem?_eq_getElem hi, hxi]
    · have : (st.keepAt cfg d (x0 :: xs) i x l).1 = true := by
        unfold DW.keepAt
        exact keep_low_levels _ _ _ _ _ _ _ _ _ _ hv h1
      simp [this]

end SparseSpace
