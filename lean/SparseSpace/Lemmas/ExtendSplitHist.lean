import SparseSpace.Lemmas.ExtendSplitTree
/-!
# Invariant of the extend–split state over arbitrary refinement histories (C07), tree level

`EState.Inv`: the root is a proper box of the right dimension, the top-level areas tile it, the forest is well formed
(children tile their parent), every coarsening value is non-negative, every box has the dimension of the domain.
It holds initially and is preserved by every operation with ARBITRARY arguments (position, decisions, dimensions).
-/
namespace SparseSpace

/-! ### `mapAreas`, `attach` -/

theorem Forest.isNil_mapAreas (h : ESArea → ESArea) (f : Forest) : (f.mapAreas h).isNil = f.isNil := by
  cases f <;> rfl

theorem Forest.tops_mapAreas (h : ESArea → ESArea) : ∀ f : Forest, (f.mapAreas h).tops = f.tops.map h
  | .nil => rfl
  | .cons _ _ sib => by simp [Forest.mapAreas, Forest.tops, Forest.tops_mapAreas h sib]

theorem Forest.leaves_mapAreas (h : ESArea → ESArea) : ∀ f : Forest, (f.mapAreas h).leaves = f.leaves.map h
  | .nil => rfl
  | .cons a ch sib => by
      simp only [Forest.mapAreas, Forest.leaves, Forest.isNil_mapAreas, List.map_append,
        Forest.leaves_mapAreas h ch, Forest.leaves_mapAreas h sib]
      by_cases hn : ch.isNil = true <;> simp [hn]

theorem Forest.nodes_mapAreas (h : ESArea → ESArea) : ∀ f : Forest, (f.mapAreas h).nodes = f.nodes.map h
  | .nil => rfl
  | .cons a ch sib => by
      simp [Forest.mapAreas, Forest.nodes, Forest.nodes_mapAreas h ch, Forest.nodes_mapAreas h sib]

theorem Forest.wf_mapAreas (h : ESArea → ESArea) (hb : ∀ a, (h a).box = a.box) : ∀ f : Forest, f.WF → (f.mapAreas h).WF
  | .nil, _ => trivial
  | .cons a ch sib, hw => by
      obtain ⟨hp, hch, hwc, hws⟩ := hw
      refine ⟨by rw [hb]; exact hp, ?_, Forest.wf_mapAreas h hb ch hwc, Forest.wf_mapAreas h hb sib hws⟩
      rcases hch with hch | hch
      · left; rw [Forest.isNil_mapAreas]; exact hch
      · right
        rw [hb, Forest.tops_mapAreas, List.map_map]
        have : ((fun x : ESArea => x.box) ∘ h) = fun x => x.box := by funext x; simp [hb]
        rw [this]; exact hch

theorem Forest.all_mapAreas {P Q : ESArea → Prop} (h : ESArea → ESArea) (hpq : ∀ a, P a → Q (h a)) :
    ∀ f : Forest, f.All P → (f.mapAreas h).All Q
  | .nil, _ => trivial
  | .cons _ ch sib, hf => ⟨hpq _ hf.1, Forest.all_mapAreas h hpq ch hf.2.1, Forest.all_mapAreas h hpq sib hf.2.2⟩

theorem Forest.isNil_attach (i : Nat) (mk : ESArea → Forest) (f : Forest) : (f.attach i mk).isNil = f.isNil := by
  cases f <;> rfl

theorem Forest.tops_attach (i : Nat) (mk : ESArea → Forest) : ∀ f : Forest, (f.attach i mk).tops = f.tops
  | .nil => rfl
  | .cons _ _ sib => by simp [Forest.attach, Forest.tops, Forest.tops_attach i mk sib]

/-- attaching children that tile the object keeps the forest well formed -/
theorem Forest.wf_attach {P : ESArea → Prop} (i : Nat) (mk : ESArea → Forest)
    (hmk : ∀ a, P a → Proper a.box → (mk a).WF ∧ ((mk a).isNil = true ∨ Tiles a.box ((mk a).tops.map (·.box)))) :
    ∀ f : Forest, f.WF → f.All P → (f.attach i mk).WF
  | .nil, _, _ => trivial
  | .cons a ch sib, hw, hall => by
      obtain ⟨hp, hch, hwc, hws⟩ := hw
      obtain ⟨hPa, hac, has⟩ := hall
      refine ⟨hp, ?_, ?_, Forest.wf_attach i mk hmk sib hws has⟩
      · by_cases hc : (a.id == i && ch.isNil) = true
        · rw [if_pos hc]
          exact (hmk a hPa hp).2
        · rw [if_neg hc]
          rcases hch with hch | hch
          · left; rw [Forest.isNil_attach]; exact hch
          · right; rw [Forest.tops_attach]; exact hch
      · by_cases hc : (a.id == i && ch.isNil) = true
        · rw [if_pos hc]
          exact (hmk a hPa hp).1
        · rw [if_neg hc]
          exact Forest.wf_attach i mk hmk ch hwc hac

theorem Forest.all_attach {P : ESArea → Prop} (i : Nat) (mk : ESArea → Forest) (hmk : ∀ a, P a → (mk a).All P) :
    ∀ f : Forest, f.All P → (f.attach i mk).All P
  | .nil, _ => trivial
  | .cons a ch sib, hall => by
      obtain ⟨hPa, hac, has⟩ := hall
      refine ⟨hPa, ?_, Forest.all_attach i mk hmk sib has⟩
      by_cases hc : (a.id == i && ch.isNil) = true
      · rw [if_pos hc]; exact hmk a hPa
      · rw [if_neg hc]; exact Forest.all_attach i mk hmk ch hac

/-- the leaves after attaching: the matching leaves are replaced by the leaves of their new children -/
theorem Forest.leaves_attach (i : Nat) (mk : ESArea → Forest) :
    ∀ f : Forest, (f.attach i mk).leaves =
      f.leaves.flatMap fun l => if l.id == i then (if (mk l).isNil then [l] else (mk l).leaves) else [l]
  | .nil => rfl
  | .cons a ch sib => by
      simp only [Forest.attach, Forest.leaves, List.flatMap_append, Forest.leaves_attach i mk sib]
      congr 1
      by_cases hn : ch.isNil = true
      · have hch : ch = .nil := (Forest.isNil_iff ch).1 hn
        subst hch
        by_cases hi : (a.id == i) = true
        · have : (a.id == i && Forest.nil.isNil) = true := by simp [hi, Forest.isNil]
          rw [if_pos this]
          simp only [Forest.isNil, if_true, List.flatMap_cons, List.flatMap_nil, List.append_nil, hi]
        · have : ¬ (a.id == i && Forest.nil.isNil) = true := by simp [hi]
          rw [if_neg this]
          simp only [Forest.attach, Forest.isNil, if_true, List.flatMap_cons, List.flatMap_nil, List.append_nil, hi]
          simp
      · have : ¬ (a.id == i && ch.isNil) = true := by simp [hn]
        rw [if_neg this, Forest.isNil_attach, if_neg hn, if_neg hn]
        exact Forest.leaves_attach i mk ch

theorem Forest.all_find {P : ESArea → Prop} (i : Nat) : ∀ (f : Forest) (a : ESArea) (ch : Forest),
    f.All P → f.find? i = some (a, ch) → P a ∧ a.id = i
  | .nil, _, _, _, h => by simp [Forest.find?] at h
  | .cons b c sib, a, ch, hall, h => by
      by_cases hb : (b.id == i) = true
      · rw [Forest.find?, if_pos hb] at h
        simp only [Option.some.injEq, Prod.mk.injEq] at h
        obtain ⟨rfl, _⟩ := h
        exact ⟨hall.1, by simpa using hb⟩
      · rw [Forest.find?, if_neg hb] at h
        cases hc : c.find? i with
        | some r =>
          rw [hc] at h
          simp only [Option.some.injEq] at h
          subst h
          exact Forest.all_find i c a ch hall.2.1 hc
        | none =>
          rw [hc] at h
          exact Forest.all_find i sib a ch hall.2.2 h

theorem Forest.wf_find (i : Nat) : ∀ (f : Forest) (a : ESArea) (ch : Forest),
    f.WF → f.find? i = some (a, ch) → Proper a.box
  | .nil, _, _, _, h => by simp [Forest.find?] at h
  | .cons b c sib, a, ch, hw, h => by
      by_cases hb : (b.id == i) = true
      · rw [Forest.find?, if_pos hb] at h
        simp only [Option.some.injEq, Prod.mk.injEq] at h
        obtain ⟨rfl, _⟩ := h
        exact hw.1
      · rw [Forest.find?, if_neg hb] at h
        cases hc : c.find? i with
        | some r =>
          rw [hc] at h
          simp only [Option.some.injEq] at h
          subst h
          exact Forest.wf_find i c a ch hw.2.2.1 hc
        | none =>
          rw [hc] at h
          exact Forest.wf_find i sib a ch hw.2.2.2 h

/-! ### the children forests -/

theorem Forest.tops_ofList : ∀ l : List ESArea, (Forest.ofList l).tops = l
  | [] => rfl
  | _ :: l => by simp [Forest.ofList, Forest.tops, Forest.tops_ofList l]

theorem Forest.leaves_ofList : ∀ l : List ESArea, (Forest.ofList l).leaves = l
  | [] => rfl
  | _ :: l => by simp [Forest.ofList, Forest.leaves, Forest.isNil, Forest.leaves_ofList l]

theorem Forest.nodes_ofList : ∀ l : List ESArea, (Forest.ofList l).nodes = l
  | [] => rfl
  | _ :: l => by simp [Forest.ofList, Forest.nodes, Forest.nodes_ofList l]

theorem Forest.wf_ofList : ∀ l : List ESArea, (∀ a ∈ l, Proper a.box) → (Forest.ofList l).WF
  | [], _ => trivial
  | a :: l, h => ⟨h a (List.mem_cons_self ..), Or.inl rfl, trivial,
      Forest.wf_ofList l fun b hb => h b (List.mem_cons_of_mem _ hb)⟩

theorem Forest.all_ofList {P : ESArea → Prop} : ∀ l : List ESArea, (∀ a ∈ l, P a) → (Forest.ofList l).All P
  | [], _ => trivial
  | a :: l, h => ⟨h a (List.mem_cons_self ..), trivial,
      Forest.all_ofList l fun b hb => h b (List.mem_cons_of_mem _ hb)⟩

theorem mkChildren_boxes (a : ESArea) : ∀ (bs : List Box) (next : Nat), (mkChildren a next bs).map (·.box) = bs
  | [], _ => rfl
  | _ :: bs, next => by simp [mkChildren, mkChild, mkChildren_boxes a bs (next + 1)]

theorem mem_mkChildren (a : ESArea) : ∀ (bs : List Box) (next : Nat) (c : ESArea), c ∈ mkChildren a next bs →
    c.box ∈ bs ∧ c.coarsening = a.coarsening ∧ c.needExtend = a.needExtend + 1
  | [], _, _, h => by simp [mkChildren] at h
  | b :: bs, next, c, h => by
      simp only [mkChildren, List.mem_cons] at h
      rcases h with rfl | h
      · simp [mkChild]
      · obtain ⟨h1, h2⟩ := mem_mkChildren a bs (next + 1) c h
        exact ⟨List.mem_cons_of_mem _ h1, h2⟩

theorem splitAll_ne_nil : ∀ b : Box, splitAll b ≠ []
  | [] => by simp [splitAll]
  | iv :: b => by
      have := splitAll_ne_nil b
      cases h : splitAll b with
      | nil => exact absurd h this
      | cons r rs => simp [splitAll, h]

/-- the property every area of a reachable state has -/
def AreaOK (dim : Nat) (a : ESArea) : Prop := 0 ≤ a.coarsening ∧ a.box.length = dim

theorem splitAllForest_spec (dim : Nat) (a : ESArea) (next : Nat) (ha : AreaOK dim a) (hp : Proper a.box) :
    (splitAllForest a next).WF ∧ Tiles a.box ((splitAllForest a next).tops.map (·.box)) ∧
    (splitAllForest a next).All (AreaOK dim) ∧ (splitAllForest a next).isNil = false := by
  have ht := tiles_splitAll a.box hp
  unfold splitAllForest
  refine ⟨?_, ?_, ?_, ?_⟩
  · apply Forest.wf_ofList
    intro c hc
    exact ht.proper _ (mem_mkChildren a _ _ c hc).1
  · rw [Forest.tops_ofList, mkChildren_boxes]; exact ht
  · apply Forest.all_ofList
    intro c hc
    obtain ⟨h1, h2, _⟩ := mem_mkChildren a _ _ c hc
    exact ⟨by rw [h2]; exact ha.1, by rw [subBox_length _ _ (ht.sub _ h1)]; exact ha.2⟩
  · cases h : splitAll a.box with
    | nil => exact absurd h (splitAll_ne_nil _)
    | cons r rs => simp [mkChildren, Forest.ofList, Forest.isNil]

theorem validDims_lt : ∀ (dim : Nat) (ds : List Nat), validDims dim ds = true → ∀ d ∈ ds, d < dim
  | _, [], h, _, _ => by simp [validDims] at h
  | dim, [d], h, e, he => by
      simp only [List.mem_cons, List.not_mem_nil, or_false] at he
      subst he
      simpa [validDims] using h
  | dim, d :: e :: ds, h, x, hx => by
      simp only [validDims, Bool.and_eq_true, decide_eq_true_eq] at h
      have ih := validDims_lt dim (e :: ds) h.2
      rcases List.mem_cons.1 hx with rfl | hx
      · exact lt_trans h.1 (ih e (List.mem_cons_self ..))
      · exact ih x hx

theorem splitDimsForest_spec (dim : Nat) : ∀ (ds : List Nat) (a : ESArea) (next : Nat),
    (∀ d ∈ ds, d < dim) → AreaOK dim a → Proper a.box →
    (splitDimsForest ds a next).1.WF ∧
    (ds ≠ [] → Tiles a.box ((splitDimsForest ds a next).1.tops.map (·.box))) ∧
    (splitDimsForest ds a next).1.All (AreaOK dim) ∧
    ((splitDimsForest ds a next).1.isNil = true ↔ ds = [])
  | [], _, _, _, _, _ => by simp [splitDimsForest, Forest.WF, Forest.All, Forest.isNil]
  | d :: ds, a, next, hd, ha, hp => by
      have hdl : d < a.box.length := by rw [ha.2]; exact hd d (List.mem_cons_self ..)
      have ht := tiles_splitDim a.box d hdl hp
      have hlen := splitDim_length a.box d
      have hds : ∀ e ∈ ds, e < dim := fun e he => hd e (List.mem_cons_of_mem _ he)
      set lo := mkChild a next (splitDim a.box d).1 with hlo
      have hloOK : AreaOK dim lo := ⟨ha.1, by simp [hlo, mkChild, hlen.1, ha.2]⟩
      have hloP : Proper lo.box := ht.proper _ (by simp [hlo, mkChild])
      obtain ⟨l1, l2, l3, l4⟩ := splitDimsForest_spec dim ds lo (next + 1) hds hloOK hloP
      set rl := splitDimsForest ds lo (next + 1) with hrl
      set hi := mkChild a rl.2 (splitDim a.box d).2 with hhi
      have hhiOK : AreaOK dim hi := ⟨ha.1, by simp [hhi, mkChild, hlen.2, ha.2]⟩
      have hhiP : Proper hi.box := ht.proper _ (by simp [hhi, mkChild])
      obtain ⟨h1, h2, h3, h4⟩ := splitDimsForest_spec dim ds hi (rl.2 + 1) hds hhiOK hhiP
      set rh := splitDimsForest ds hi (rl.2 + 1) with hrh
      have hdef : splitDimsForest (d :: ds) a next = (.cons lo rl.1 (.cons hi rh.1 .nil), rh.2) := rfl
      rw [hdef]
      refine ⟨?_, ?_, ?_, ?_⟩
      · refine ⟨hloP, ?_, l1, hhiP, ?_, h1, trivial⟩
        · by_cases hn : ds = []
          · exact Or.inl (l4.2 hn)
          · exact Or.inr (l2 hn)
        · by_cases hn : ds = []
          · exact Or.inl (h4.2 hn)
          · exact Or.inr (h2 hn)
      · intro _
        simpa [Forest.tops, hlo, hhi, mkChild] using ht
      · exact ⟨hloOK, l3, hhiOK, h3, trivial⟩
      · simp [Forest.isNil]

/-! ### the state invariant -/

structure EState.Inv (s : EState) : Prop where
  dimPos : 1 ≤ s.dim
  rootProper : Proper s.root
  rootLen : s.root.length = s.dim
  tops : Tiles s.root (s.forest.tops.map (·.box))
  wf : s.forest.WF
  all : s.forest.All (AreaOK s.dim)

theorem validDims_range : ∀ n : Nat, 1 ≤ n → validDims n (List.range n) = true := by
  have aux : ∀ (k m : Nat), m + k + 1 ≤ m + k + 1 → ∀ n, n = m + k + 1 →
      validDims n ((List.range' m (k + 1))) = true := by
    intro k
    induction k with
    | zero => intro m _ n hn; simp [List.range', validDims]; omega
    | succ k ih =>
      intro m _ n hn
      have := ih (m + 1) (le_refl _) n (by omega)
      simp only [List.range'] at this ⊢
      simp only [validDims, Bool.and_eq_true, decide_eq_true_eq]
      exact ⟨by omega, this⟩
  intro n hn
  obtain ⟨k, rfl⟩ : ∃ k, n = k + 1 := ⟨n - 1, by omega⟩
  rw [List.range_eq_range']
  exact aux k 0 (le_refl _) (k + 1) (by omega)

theorem rootArea_ok (root : Box) : AreaOK root.length (rootArea root) := ⟨le_refl _, rfl⟩

theorem es_inv_init (dim : Nat) (lmin lmax nrbe : Int) (version : Nat) (auto single : Bool) (root : Box)
    (hd : 1 ≤ dim) (hp : Proper root) (hl : root.length = dim) :
    (EState.init dim lmin lmax nrbe version auto single root).Inv := by
  subst hl
  cases single with
  | false =>
    obtain ⟨h1, h2, h3, _⟩ := splitAllForest_spec root.length (rootArea root) 1 (rootArea_ok root) hp
    exact ⟨hd, hp, rfl, h2, h1, h3⟩
  | true =>
    have hv := validDims_lt _ _ (validDims_range root.length hd)
    obtain ⟨h1, h2, h3, h4⟩ := splitDimsForest_spec root.length (List.range root.length) (rootArea root) 1 hv
      (rootArea_ok root) hp
    have hne : List.range root.length ≠ [] := by
      intro h
      rw [List.range_eq_nil] at h
      omega
    have hT := leaves_tile_forest _ (rootArea root).box h1 (h2 hne)
    refine ⟨hd, hp, rfl, ?_, ?_, ?_⟩
    · simp only [EState.init, if_true, Forest.tops_ofList]
      exact hT
    · simp only [EState.init, if_true]
      apply Forest.wf_ofList
      intro a ha
      exact hT.proper _ (List.mem_map.2 ⟨a, ha, rfl⟩)
    · simp only [EState.init, if_true]
      apply Forest.all_ofList
      intro a ha
      exact (Forest.all_iff_nodes _ _).1 h3 a (Forest.leaves_subset_nodes _ a ha)

theorem newChildren_spec (s : EState) (a : ESArea) (e : Bool) (dims : List Nat) (K : Forest) (n' : Nat) (r : Bool)
    (ha : AreaOK s.dim a) (hp : Proper a.box) (h : s.newChildren a e dims = some (K, n', r)) :
    K.WF ∧ Tiles a.box (K.tops.map (·.box)) ∧ K.All (AreaOK s.dim) ∧ K.isNil = false := by
  dsimp only [EState.newChildren] at h
  by_cases h1 : (if s.auto = true then e else decide (a.needExtend ≥ s.nrbe)) = true
  · rw [if_pos h1] at h
    simp only [Option.some.injEq, Prod.mk.injEq] at h
    obtain ⟨rfl, _, _⟩ := h
    refine ⟨⟨hp, Or.inl rfl, trivial, trivial⟩, ?_, ⟨⟨?_, ha.2⟩, trivial, trivial⟩, rfl⟩
    · simpa [Forest.tops, extendChild] using tiles_self a.box hp
    · simp only [extendChild]
      split
      · exact le_refl _
      · rename_i hne
        have h0 := ha.1
        have : a.coarsening ≠ 0 := by simpa using hne
        omega
  · rw [if_neg h1] at h
    by_cases h2 : (s.auto || decide (a.needExtend ≥ 0)) = true
    · rw [if_pos h2] at h
      by_cases h3 : s.single = true
      · rw [if_pos h3] at h
        by_cases hv : validDims s.dim dims = true
        · rw [if_pos hv] at h
          simp only [Option.some.injEq, Prod.mk.injEq] at h
          obtain ⟨rfl, _, _⟩ := h
          obtain ⟨k1, k2, k3, k4⟩ := splitDimsForest_spec s.dim dims a s.next (validDims_lt _ _ hv) ha hp
          have hne : dims ≠ [] := by
            intro hd
            rw [hd] at hv
            simp [validDims] at hv
          refine ⟨k1, k2 hne, k3, ?_⟩
          cases hnil : (splitDimsForest dims a s.next).1.isNil with
          | false => rfl
          | true => exact absurd (k4.1 hnil) hne
        · rw [if_neg hv] at h
          exact absurd h (by simp)
      · rw [if_neg h3] at h
        simp only [Option.some.injEq, Prod.mk.injEq] at h
        obtain ⟨rfl, _, _⟩ := h
        exact splitAllForest_spec s.dim a s.next ha hp
    · rw [if_neg h2] at h
      exact absurd h (by simp)

theorem bumpObjs_wf : ∀ (ids : List Nat) (f : Forest), f.WF → (bumpObjs f ids).WF
  | [], _, h => h
  | i :: ids, f, h => by
      simp only [bumpObjs, List.foldl_cons]
      exact bumpObjs_wf ids _ (Forest.wf_mapAreas _ (by intro a; split <;> rfl) f h)

theorem bumpObjs_tops_box : ∀ (ids : List Nat) (f : Forest), (bumpObjs f ids).tops.map (·.box) = f.tops.map (·.box)
  | [], _ => rfl
  | i :: ids, f => by
      simp only [bumpObjs, List.foldl_cons]
      rw [show List.foldl _ _ ids = bumpObjs _ ids from rfl, bumpObjs_tops_box ids, Forest.tops_mapAreas, List.map_map]
      congr 1
      funext a
      simp only [Function.comp]
      split <;> rfl

theorem bumpObjs_all (dim : Nat) : ∀ (ids : List Nat) (f : Forest), f.All (AreaOK dim) → (bumpObjs f ids).All (AreaOK dim)
  | [], _, h => h
  | i :: ids, f, h => by
      simp only [bumpObjs, List.foldl_cons]
      refine bumpObjs_all dim ids _ (Forest.all_mapAreas _ ?_ f h)
      intro a ha
      split
      · exact ⟨by simp only [ESArea.bump]; have := ha.1; omega, ha.2⟩
      · exact ha

/-- the children builder used by `EState.refine` -/
def EState.mkOf (s : EState) (e : Bool) (dims : List Nat) : ESArea → Forest := fun a' =>
  match s.newChildren a' e dims with
  | some r => r.1
  | none => Forest.nil

theorem mkOf_spec (s : EState) (e : Bool) (dims : List Nat) (a' : ESArea) (h1 : AreaOK s.dim a') (h2 : Proper a'.box) :
    (s.mkOf e dims a').WF ∧ ((s.mkOf e dims a').isNil = true ∨ Tiles a'.box ((s.mkOf e dims a').tops.map (·.box))) ∧
    (s.mkOf e dims a').All (AreaOK s.dim) := by
  unfold EState.mkOf
  cases hc : s.newChildren a' e dims with
  | none => exact ⟨trivial, Or.inl rfl, trivial⟩
  | some r =>
    obtain ⟨K', n'', r'⟩ := r
    have := newChildren_spec s a' e dims K' n'' r' h1 h2 hc
    exact ⟨this.1, Or.inr this.2.1, this.2.2.1⟩

theorem es_inv_attach (s : EState) (i : Nat) (e : Bool) (dims : List Nat) (h : s.Inv) :
    Tiles s.root ((s.forest.attach i (s.mkOf e dims)).tops.map (·.box)) ∧ (s.forest.attach i (s.mkOf e dims)).WF ∧
    (s.forest.attach i (s.mkOf e dims)).All (AreaOK s.dim) := by
  refine ⟨by rw [Forest.tops_attach]; exact h.tops, ?_, ?_⟩
  · exact Forest.wf_attach (P := AreaOK s.dim) i _ (fun a h1 h2 => ⟨(mkOf_spec s e dims a h1 h2).1, (mkOf_spec s e dims a h1 h2).2.1⟩)
      _ h.wf h.all
  · -- `All` needs properness of the box as well: carry both
    have hboth : s.forest.All (fun a => AreaOK s.dim a ∧ Proper a.box) := by
      have : ∀ f : Forest, f.WF → f.All (AreaOK s.dim) → f.All (fun a => AreaOK s.dim a ∧ Proper a.box) := by
        intro f
        induction f with
        | nil => intro _ _; trivial
        | cons a ch sib ih1 ih2 =>
          intro hw ha
          exact ⟨⟨ha.1, hw.1⟩, ih1 hw.2.2.1 ha.2.1, ih2 hw.2.2.2 ha.2.2⟩
      exact this _ h.wf h.all
    have hmk : ∀ a, (AreaOK s.dim a ∧ Proper a.box) → (s.mkOf e dims a).All (fun a => AreaOK s.dim a ∧ Proper a.box) := by
      intro a ha
      obtain ⟨k1, _, k3⟩ := mkOf_spec s e dims a ha.1 ha.2
      have : ∀ f : Forest, f.WF → f.All (AreaOK s.dim) → f.All (fun a => AreaOK s.dim a ∧ Proper a.box) := by
        intro f
        induction f with
        | nil => intro _ _; trivial
        | cons a ch sib ih1 ih2 =>
          intro hw ha
          exact ⟨⟨ha.1, hw.1⟩, ih1 hw.2.2.1 ha.2.1, ih2 hw.2.2.2 ha.2.2⟩
      exact this _ k1 k3
    exact Forest.All.imp (fun a ha => ha.1) _ (Forest.all_attach i _ hmk _ hboth)

theorem es_inv_refine (s : EState) (pos : Nat) (e : Bool) (dims : List Nat) (h : s.Inv) : (s.refine pos e dims).Inv := by
  unfold EState.refine
  split
  · exact h
  · rename_i i _
    split
    · exact h
    · split
      · exact h
      · split
        · exact h
        · rename_i K n' r hnc
          obtain ⟨k1, k2, k3⟩ := es_inv_attach s i e dims h
          change Tiles s.root ((s.forest.attach i fun a' => match s.newChildren a' e dims with
            | some r => r.1 | none => Forest.nil).tops.map (·.box)) at k1
          cases r with
          | false => exact ⟨h.dimPos, h.rootProper, h.rootLen, k1, k2, k3⟩
          | true =>
            refine ⟨h.dimPos, h.rootProper, h.rootLen, ?_, bumpObjs_wf _ _ k2, bumpObjs_all _ _ _ k3⟩
            simp only [if_true]
            rw [bumpObjs_tops_box]
            exact k1

theorem es_inv_endRound (s : EState) (h : s.Inv) : s.endRound.Inv :=
  ⟨h.dimPos, h.rootProper, h.rootLen, h.tops, h.wf, h.all⟩

theorem es_inv_step (s : EState) (op : ESOp) (h : s.Inv) : (s.step op).Inv := by
  cases op with
  | refine pos e dims => exact es_inv_refine s pos e dims h
  | endRound => exact es_inv_endRound s h

theorem es_inv_run (ops : List ESOp) : ∀ (s : EState), s.Inv → (s.run ops).Inv := by
  induction ops with
  | nil => intro s h; exact h
  | cons op ops ih => intro s h; exact ih _ (es_inv_step s op h)

end SparseSpace
