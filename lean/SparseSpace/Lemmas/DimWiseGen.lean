import SparseSpace.Generated.DimWiseGen
import SparseSpace.Model.DimWise
import SparseSpace.Lemmas.CombiGenRt
import SparseSpace.Lemmas.CombiIdent
/-!
# Translator tie for the dimension-wise strategy, part 1: `modify_according_to_levelvec`, `is_child`, the counting
comprehensions and the `while True` loops of versions 6, 7, 8

`Generated/DimWiseGen.lean` is produced by `tools/py2lean` (spec `specs/dimwise.json`) from
`spatiallyAdaptiveSingleDimension2.py`.  The lemmas rewrite the generated shapes into the hand model `Model/DimWise`.
-/
namespace SparseSpace
open SparseSpace.PyRt

/-! ### `while` -/

theorem whileSt_congr {σ : Type} (step step' : σ → Bool × σ) (h : ∀ s, step s = step' s) :
    ∀ (f : Nat) (s : σ), whileSt f s step = whileSt f s step'
  | 0, _ => rfl
  | f + 1, s => by simp only [whileSt, h s, whileSt_congr step step' h f]

/-! ### `modify_according_to_levelvec`, `is_child` -/

/-- **`modify_according_to_levelvec`** for a dimension index `d = 0, 1, …`: the hand model's `modifyLv` on the entries
`levelvec[d]`, `lmin[d]`, `lmax[d]` -/
theorem gen_modify (g : GenDW.State) (m : Int) (k : Nat) (ml : Int) (lv : List Int) :
    GenDW.modify_according_to_levelvec g m (Int.ofNat k) ml lv
      = modifyLv m (lv.getD k 0) (g.lmin.getD k 0) (g.lmax.getD k 0) ml := by
  unfold GenDW.modify_according_to_levelvec modifyLv
  simp only [getItem_ofNat]
  generalize lv.getD k 0 = l
  generalize g.lmax.getD k 0 = u
  generalize g.lmin.getD k 0 = lo
  by_cases h1 : l - m ≥ ml <;> by_cases h2 : l < u <;> simp [h1, h2]

/-- `is_child`: both neighbours have a smaller level and the level is above 1 -/
theorem gen_is_child (g : GenDW.State) (a p b : Int) :
    GenDW.is_child g a p b = (decide (a < p) && decide (b < p) && decide (1 < p)) := by
  unfold GenDW.is_child
  simp

/-! ### `sum([1 for i in range(bound) if max_coarsenings[i] >= thr])` -/

theorem sum_map_one {α : Type} (l : List α) : PyRt.sum (l.map fun _ => (1 : Int)) = (l.length : Int) := by
  unfold PyRt.sum
  rw [foldl_add_eq_sum]
  induction l with
  | nil => simp
  | cons x xs ih => simp only [List.map_cons, List.sum_cons, List.length_cons]; omega

theorem take_eq_map_range : ∀ (l : List Int) (n : Nat), n ≤ l.length → l.take n = (List.range n).map fun k => l.getD k 0
  | _, 0, _ => by simp
  | [], n + 1, h => by simp at h
  | x :: l, n + 1, h => by
    rw [List.range_succ_eq_map]
    simp only [List.take_succ_cons, List.map_cons, List.map_map, List.getD_cons_zero]
    congr 1
    rw [take_eq_map_range l n (by simpa using h)]
    apply List.map_congr_left
    intro k _
    simp

/-- the counting comprehension of the generated code is the hand model's `cntGe` (the bound must not exceed the
length of `max_coarsenings`: Python would raise an `IndexError` there) -/
theorem gen_count (mcs : List Int) (n : Nat) (thr : Int) (h : n ≤ mcs.length) :
    PyRt.sum (List.map (fun (_ : Int) => (1 : Int))
      (List.filter (fun (i : Int) => decide (getItem mcs i ≥ thr)) (PyRt.range (Int.ofNat n)))) = cntGe n mcs thr := by
  rw [sum_map_one, range_eq]
  unfold cntGe
  have e : (Int.ofNat n).toNat = n := rfl
  rw [e, take_eq_map_range mcs n h, List.filter_map, List.filter_map, List.length_map, List.length_map]
  congr 2
  apply List.filter_congr
  intro k _
  simp only [Function.comp, getItem_ofNat]

/-! ### the `while True` loops -/

/-- one round of the version-6 loop on the state `(partial_sum, m)` -/
def step6 (dim d : Nat) (mcs : List Int) (sv : Int) (st : Int × Int) : Bool × (Int × Int) :=
  let ps := if st.2 > 0 then st.1 + cntGe dim mcs (sv - (st.2 - 1)) else st.1
  let pst := cntGe (d + 1) mcs (sv - st.2)
  (!decide (ps + pst ≥ sv), (ps, if ps + pst ≤ sv then st.2 + 1 else st.2))

def step7 (dim : Nat) (mcs : List Int) (sv : Int) (st : Int × Int) : Bool × (Int × Int) :=
  let ps := st.1 + cntGe dim mcs (sv - st.2)
  (!decide (ps ≥ sv), (ps, if ps ≤ sv then st.2 + 1 else st.2))

def step8 (dim d : Nat) (mcs : List Int) (sv ml : Int) (st : Int × Int) : Bool × (Int × Int) :=
  let ps := if st.2 > 0 then st.1 + min (ml - 1) (cntGe dim mcs (sv - (st.2 - 1))) else st.1
  let pst := min (ml - 1) (cntGe (d + 1) mcs (sv - st.2))
  (!decide (ps + pst ≥ sv), (ps, if ps + pst ≤ sv then st.2 + 1 else st.2))

theorem while_step6 (dim d : Nat) (mcs : List Int) (sv : Int) : ∀ (f : Nat) (ps m : Int),
    (whileSt f (ps, m) (step6 dim d mcs sv)).2 = (subLoop6 dim d mcs sv f m ps).1
  | 0, _, _ => rfl
  | f + 1, ps, m => by
    simp only [whileSt, subLoop6, step6]
    generalize (if m > 0 then ps + cntGe dim mcs (sv - (m - 1)) else ps) = ps'
    generalize cntGe (d + 1) mcs (sv - m) = pst
    by_cases h : ps' + pst ≥ sv
    · simp [h]
    · simp only [h, decide_false, Bool.not_false, if_true, if_false]
      exact while_step6 dim d mcs sv f _ _

theorem while_step7 (dim : Nat) (mcs : List Int) (sv : Int) : ∀ (f : Nat) (ps m : Int),
    (whileSt f (ps, m) (step7 dim mcs sv)).2 = (subLoop7 dim mcs sv f m ps).1
  | 0, _, _ => rfl
  | f + 1, ps, m => by
    simp only [whileSt, subLoop7, step7]
    generalize ps + cntGe dim mcs (sv - m) = ps'
    by_cases h : ps' ≥ sv
    · simp [h]
    · simp only [h, decide_false, Bool.not_false, if_true, if_false]
      exact while_step7 dim mcs sv f _ _

theorem while_step8 (dim d : Nat) (mcs : List Int) (sv ml : Int) : ∀ (f : Nat) (ps m : Int),
    (whileSt f (ps, m) (step8 dim d mcs sv ml)).2 = (subLoop8 dim d mcs sv ml f m ps).1
  | 0, _, _ => rfl
  | f + 1, ps, m => by
    simp only [whileSt, subLoop8, step8]
    generalize (if m > 0 then ps + min (ml - 1) (cntGe dim mcs (sv - (m - 1))) else ps) = ps'
    generalize min (ml - 1) (cntGe (d + 1) mcs (sv - m)) = pst
    by_cases h : ps' + pst ≥ sv
    · simp [h]
    · simp only [h, decide_false, Bool.not_false, if_true, if_false]
      exact while_step8 dim d mcs sv ml f _ _

end SparseSpace
