import SparseSpace.Lemmas.ExactnessLocal
import SparseSpace.Lemmas.ExactnessComb
/-!
# C04: the dyadic hats belong to the spaces the theorems talk about

`hat_plOn`: the hat of level `k`, index `i` on `[a,b]` is affine on every cell of the dyadic grid of level `k`
(so `PLFrom` holds for tensor hats of level `k0` on `dyadicLists dom 0 k0`).
-/
namespace SparseSpace.Exact

/-- `max(0, 1 - |x - c| / h)` -/
def hatFn (h c x : Rat) : Rat :=
  let v := 1 - absR (x - c) / h
  if v < 0 then 0 else v

theorem hatVal_eq_hatFn (a b : Rat) (k i : Nat) (x : Rat) :
    hatVal a b k i x = hatFn ((b - a) / ((2 ^ k : Nat) : Rat)) (a + (i : Rat) * ((b - a) / ((2 ^ k : Nat) : Rat))) x := rfl

theorem hatFn_zero_left (h c x : Rat) (hh : 0 < h) (hx : x ≤ c - h) : hatFn h c x = 0 := by
  unfold hatFn absR
  have h1 : x - c < 0 := by linarith
  simp only [h1, if_true]
  have h2 : 1 - -(x - c) / h ≤ 0 := by
    rw [sub_nonpos, le_div_iff₀ hh]
    linarith
  split
  · rfl
  · next hn => exact le_antisymm h2 (not_lt.1 hn)

theorem hatFn_zero_right (h c x : Rat) (hh : 0 < h) (hx : c + h ≤ x) : hatFn h c x = 0 := by
  unfold hatFn absR
  have h1 : ¬ x - c < 0 := by linarith
  simp only [h1, if_false]
  have h2 : 1 - (x - c) / h ≤ 0 := by
    rw [sub_nonpos, le_div_iff₀ hh]
    linarith
  split
  · rfl
  · next hn => exact le_antisymm h2 (not_lt.1 hn)

theorem hatFn_rise (h c x : Rat) (hh : 0 < h) (h1 : c - h ≤ x) (h2 : x ≤ c) : hatFn h c x = (x - (c - h)) / h := by
  unfold hatFn absR
  have hne : h ≠ 0 := ne_of_gt hh
  by_cases hx : x - c < 0
  · simp only [hx, if_true]
    have hv : ¬ 1 - -(x - c) / h < 0 := by
      rw [not_lt, sub_nonneg, div_le_iff₀ hh]
      linarith
    rw [if_neg hv]
    field_simp
    ring
  · have : x = c := le_antisymm h2 (by linarith)
    subst this
    have h10 : ¬ (1 : Rat) < 0 := by norm_num
    simp [h10, div_self hne]

theorem hatFn_fall (h c x : Rat) (hh : 0 < h) (h1 : c ≤ x) (h2 : x ≤ c + h) : hatFn h c x = ((c + h) - x) / h := by
  unfold hatFn absR
  have hne : h ≠ 0 := ne_of_gt hh
  have hx : ¬ x - c < 0 := by linarith
  simp only [hx, if_false]
  have hv : ¬ 1 - (x - c) / h < 0 := by
    rw [not_lt, sub_nonneg, div_le_iff₀ hh]
    linarith
  rw [if_neg hv]
  field_simp
  ring

/-- the hat centred at `c` with half-width `h` is affine on every interval `[p, p+h]` of the grid `c + ℤ h` -/
theorem hatFn_affOn (h c p : Rat) (hh : 0 < h)
    (hcase : p + h ≤ c - h ∨ p + h = c ∨ p = c ∨ c + h ≤ p) : AffOn (hatFn h c) p (p + h) := by
  have hne : h ≠ 0 := ne_of_gt hh
  intro x hx1 hx2
  rcases hcase with hc | hc | hc | hc
  · rw [hatFn_zero_left h c x hh (by linarith), hatFn_zero_left h c p hh (by linarith),
      hatFn_zero_left h c (p + h) hh hc]
    ring
  · rw [hatFn_rise h c x hh (by linarith) (by linarith), hatFn_rise h c p hh (by linarith) (by linarith),
      hatFn_rise h c (p + h) hh (by linarith) (by linarith)]
    subst hc
    field_simp
    ring
  · rw [hatFn_fall h c x hh (by linarith) (by linarith), hatFn_fall h c p hh (by linarith) (by linarith),
      hatFn_fall h c (p + h) hh (by linarith) (by linarith)]
    subst hc
    field_simp
    ring
  · rw [hatFn_zero_right h c x hh (by linarith), hatFn_zero_right h c p hh hc,
      hatFn_zero_right h c (p + h) hh (by linarith)]
    ring

theorem plOn_mapRange' (u : Rat → Rat) (f : Nat → Rat) (hf : ∀ j, AffOn u (f j) (f (j + 1))) : ∀ (n s : Nat),
    PLOn u ((List.range' s (n + 1)).map f)
  | 0, s => by simp [List.range', PLOn]
  | n + 1, s => by
      have ih := plOn_mapRange' u f hf n (s + 1)
      have e : (List.range' s (n + 1 + 1)).map f = f s :: (List.range' (s + 1) (n + 1)).map f := by simp [List.range']
      have e2 : (List.range' (s + 1) (n + 1)).map f = f (s + 1) :: (List.range' (s + 1 + 1) n).map f := by simp [List.range']
      rw [e, e2]
      rw [e2] at ih
      exact ⟨hf s, ih⟩

/-- **the dyadic hat of level `k` is piecewise linear w.r.t. the dyadic grid of level `k`** -/
theorem hat_plOn (a b : Rat) (k i : Nat) (hab : a < b) : PLOn (hatVal a b k i) (dyadic a b k) := by
  have hn : (0 : Rat) < ((2 ^ k : Nat) : Rat) := by exact_mod_cast Nat.pos_of_ne_zero (by positivity)
  have hh : 0 < (b - a) / ((2 ^ k : Nat) : Rat) := div_pos (sub_pos.2 hab) hn
  unfold dyadic
  rw [List.range_eq_range']
  apply plOn_mapRange'
  intro j
  have hu : hatVal a b k i = hatFn ((b - a) / ((2 ^ k : Nat) : Rat)) (a + (i : Rat) * ((b - a) / ((2 ^ k : Nat) : Rat))) := by
    funext x; rfl
  rw [hu]
  generalize (b - a) / ((2 ^ k : Nat) : Rat) = h at hh ⊢
  have hq : a + ((j + 1 : Nat) : Rat) * h = (a + (j : Rat) * h) + h := by push_cast; ring
  rw [hq]
  apply hatFn_affOn h _ _ hh
  rcases Nat.lt_trichotomy (j + 1) i with hlt | heq | hgt
  · left
    have : ((j : Rat) + 1) + 1 ≤ (i : Rat) := by exact_mod_cast hlt
    nlinarith
  · right; left
    have : (i : Rat) = (j : Rat) + 1 := by exact_mod_cast heq.symm
    rw [this]; ring
  · rcases Nat.lt_or_ge i j with hij | hij
    · right; right; right
      have : (i : Rat) + 1 ≤ (j : Rat) := by exact_mod_cast hij
      nlinarith
    · right; right; left
      have : i = j := by omega
      rw [this]

theorem dyadic_sorted_len (a b : Rat) (k : Nat) (hab : a < b) :
    StrictSorted (dyadic a b k) ∧ 2 ≤ (dyadic a b k).length := by
  obtain ⟨xs', h, hs, hl⟩ := dyadic_wf a b k hab
  rw [h]
  refine ⟨hs, ?_⟩
  cases xs' with
  | nil => simp only [lastOf] at hl; exact absurd hl (ne_of_lt hab)
  | cons y rest => simp

/-- **tensor hats of level `k0` satisfy the function hypothesis `PLFrom` of the `keepsInitial` theorems** -/
theorem hats_plFrom (dom : List (Rat × Rat)) (lev idx : Nat → Nat) : ∀ (k0 : LV) (d : Nat),
    (∀ e, e < k0.length → (k0.getD e 0).toNat = lev (d + e) ∧ (dom.getD (d + e) (0, 0)).1 < (dom.getD (d + e) (0, 0)).2) →
    PLFrom (fun d' => hatVal (dom.getD d' (0, 0)).1 (dom.getD d' (0, 0)).2 (lev d') (idx d')) d (dyadicLists dom d k0)
  | [], _, _ => trivial
  | kd :: k, d, h => by
      have h0 := h 0 (by simp)
      simp only [List.getD_cons_zero, Nat.add_zero] at h0
      obtain ⟨hs, hl⟩ := dyadic_sorted_len _ _ kd.toNat h0.2
      refine ⟨⟨hs, hl, ?_⟩, ?_⟩
      · rw [h0.1]
        exact hat_plOn _ _ (lev d) (idx d) h0.2
      · apply hats_plFrom dom lev idx k (d + 1)
        intro e he
        have := h (e + 1) (by simpa using he)
        simp only [List.getD_cons_succ] at this
        have hd : d + 1 + e = d + (e + 1) := by omega
        rw [hd]
        exact this

end SparseSpace.Exact
