import SparseSpace.Lemmas.DimWiseKeepAll
import SparseSpace.Lemmas.DimWiseKeep
import SparseSpace.Lemmas.DimWiseFuel
/-!
# The subtraction values of two dimensions never exceed the growth of the index set (versions 6, 7, 8)

`subLoop6_post` / `subLoop7_post` / `subLoop8_post`: what the `while True` loops of `get_subtraction_value` guarantee about
their result `m`, for arbitrary lower bounds of the counted dimensions.  With the two dimensions `d < e` themselves as
lower bound this gives `m_d + m_e ≤ max(max_coarsening_d, max_coarsening_e)` (`pair_bound`), whatever the other
dimensions are.
-/
namespace SparseSpace

/-! ## counting lemmas -/

theorem filter_cons_len (p : Int → Bool) (x : Int) (xs : List Int) :
    ((x :: xs).filter p).length = (if p x then 1 else 0) + (xs.filter p).length := by
  by_cases hx : p x = true
  · simp [hx]; omega
  · simp [hx]

theorem filter_len_one (p : Int → Bool) : ∀ (l : List Int) (d : Nat), d < l.length →
    (if p (l.getD d 0) then 1 else 0) ≤ (l.filter p).length
  | [], d, h => by simp at h
  | x :: xs, 0, _ => by
    rw [filter_cons_len]
    simp only [List.getD_cons_zero]
    omega
  | x :: xs, d + 1, h => by
    have ih := filter_len_one p xs d (by simpa using h)
    rw [filter_cons_len]
    simp only [List.getD_cons_succ]
    omega

theorem filter_len_two (p : Int → Bool) : ∀ (l : List Int) (d e : Nat), d < e → e < l.length →
    (if p (l.getD d 0) then 1 else 0) + (if p (l.getD e 0) then 1 else 0) ≤ (l.filter p).length
  | [], _, _, _, h => by simp at h
  | x :: xs, 0, 0, h, _ => by omega
  | x :: xs, 0, e + 1, _, h => by
    have ih := filter_len_one p xs e (by simpa using h)
    rw [filter_cons_len]
    simp only [List.getD_cons_zero, List.getD_cons_succ]
    omega
  | x :: xs, d + 1, 0, h, _ => by omega
  | x :: xs, d + 1, e + 1, h, h2 => by
    have ih := filter_len_two p xs d e (by omega) (by simpa using h2)
    rw [filter_cons_len]
    simp only [List.getD_cons_succ]
    omega

/-- indicator `1` if `c ≥ thr` -/
def indGe (c thr : Int) : Int := if c ≥ thr then 1 else 0

theorem getD_take (l : List Int) (bound d : Nat) (h : d < bound) : (l.take bound).getD d 0 = l.getD d 0 := by
  simp [List.getD_eq_getElem?_getD, h]

theorem cntGe_one (bound : Nat) (mcs : List Int) (thr : Int) (d : Nat) (hd : d < bound) (hl : d < mcs.length) :
    indGe (mcs.getD d 0) thr ≤ cntGe bound mcs thr := by
  unfold cntGe indGe
  have := filter_len_one (fun c => decide (c ≥ thr)) (mcs.take bound) d (by simp; omega)
  rw [getD_take _ _ _ hd] at this
  simp only [decide_eq_true_eq] at this
  split
  · rw [if_pos (by assumption)] at this; exact_mod_cast this
  · exact Int.natCast_nonneg _

theorem cntGe_two (bound : Nat) (mcs : List Int) (thr : Int) (d e : Nat) (hde : d < e) (he : e < bound)
    (hl : e < mcs.length) : indGe (mcs.getD d 0) thr + indGe (mcs.getD e 0) thr ≤ cntGe bound mcs thr := by
  unfold cntGe indGe
  have := filter_len_two (fun c => decide (c ≥ thr)) (mcs.take bound) d e hde (by simp; omega)
  rw [getD_take _ _ _ he, getD_take _ _ _ (by omega)] at this
  simp only [decide_eq_true_eq] at this
  have h2 : (((if mcs.getD d 0 ≥ thr then 1 else 0) + (if mcs.getD e 0 ≥ thr then 1 else 0) : Nat) : Int)
      ≤ ((List.filter (fun c => decide (c ≥ thr)) (List.take bound mcs)).length : Int) := by exact_mod_cast this
  refine le_trans (le_of_eq ?_) h2
  split <;> split <;> simp

/-! ## the loop of version 6 -/

/-- what the loop of version 6 guarantees: for every lower bound `L` of the accumulated count and `b` of the
position-dependent last term, the result `r` satisfies `L (r-1) + b (r-1) ≤ sv` (if `r ≥ 1`) -/
theorem subLoop6_post (dim d : Nat) (mcs : List Int) (sv : Int) (L b : Int → Int)
    (hL : ∀ t, 0 ≤ t → L (t + 1) ≤ L t + cntGe dim mcs (sv - t))
    (hb : ∀ t, 0 ≤ t → b t ≤ cntGe (d + 1) mcs (sv - t)) :
    ∀ (fuel : Nat) (m ps : Int), 0 ≤ m →
      L m ≤ (if m > 0 then ps + cntGe dim mcs (sv - (m - 1)) else ps) →
      (1 ≤ m → L (m - 1) + b (m - 1) ≤ sv) →
      0 ≤ (subLoop6 dim d mcs sv fuel m ps).1 ∧
      (1 ≤ (subLoop6 dim d mcs sv fuel m ps).1 →
        L ((subLoop6 dim d mcs sv fuel m ps).1 - 1) + b ((subLoop6 dim d mcs sv fuel m ps).1 - 1) ≤ sv)
  | 0, m, ps, hm, _, hpost => ⟨hm, hpost⟩
  | f + 1, m, ps, hm, hinv, hpost => by
    simp only [subLoop6]
    generalize hps : (if m > 0 then ps + cntGe dim mcs (sv - (m - 1)) else ps) = ps' at hinv ⊢
    have hbm := hb m hm
    have hLm := hL m hm
    by_cases h1 : ps' + cntGe (d + 1) mcs (sv - m) ≤ sv
    · simp only [h1, if_true]
      by_cases h2 : ps' + cntGe (d + 1) mcs (sv - m) ≥ sv
      · simp only [h2, if_true]
        refine ⟨by omega, fun _ => ?_⟩
        have : m + 1 - 1 = m := by omega
        rw [this]; omega
      · simp only [h2, if_false]
        apply subLoop6_post dim d mcs sv L b hL hb f (m + 1) ps' (by omega)
        · have hpos : m + 1 > 0 := by omega
          have : m + 1 - 1 = m := by omega
          simp only [hpos, if_true, this]; omega
        · intro _
          have : m + 1 - 1 = m := by omega
          rw [this]; omega
    · simp only [h1, if_false]
      have h2 : ps' + cntGe (d + 1) mcs (sv - m) ≥ sv := by omega
      simp only [h2, if_true]
      exact ⟨hm, hpost⟩

theorem indGe_eq_one {c thr : Int} (h : thr ≤ c) : indGe c thr = 1 := by
  unfold indGe; simp [h]

/-- the loop value of version 6 in a dimension whose own `max_coarsening` is at least `sv`: `0 ≤ m`, and `m ≤ sv` unless `m = 0` -/
theorem loop6_le_sv (dim d : Nat) (mcs : List Int) (sv : Int) (fuel : Nat) (hd : d < dim) (hl : d < mcs.length)
    (hc : sv ≤ mcs.getD d 0) :
    0 ≤ (subLoop6 dim d mcs sv fuel 0 0).1 ∧
    (1 ≤ (subLoop6 dim d mcs sv fuel 0 0).1 → (subLoop6 dim d mcs sv fuel 0 0).1 ≤ sv) := by
  have h := subLoop6_post dim d mcs sv (fun t => t) (fun _ => 1)
    (by
      intro t ht
      have h1 := cntGe_one dim mcs (sv - t) d hd hl
      rw [indGe_eq_one (by omega)] at h1
      omega)
    (by
      intro t ht
      have h1 := cntGe_one (d + 1) mcs (sv - t) d (by omega) hl
      rw [indGe_eq_one (by omega)] at h1
      exact h1)
    fuel 0 0 (le_refl _) (by simp) (by omega)
  exact ⟨h.1, fun h1 => by have := h.2 h1; omega⟩

/-- version 6, dimension `d` together with a LATER dimension `e > d` -/
theorem loop6_first (dim d e : Nat) (mcs : List Int) (sv : Int) (fuel : Nat) (hde : d < e) (he : e < dim)
    (hl : e < mcs.length) (hc : sv ≤ mcs.getD d 0) :
    1 ≤ (subLoop6 dim d mcs sv fuel 0 0).1 →
      (subLoop6 dim d mcs sv fuel 0 0).1 +
        max 0 ((subLoop6 dim d mcs sv fuel 0 0).1 - 1 - max 0 (sv - mcs.getD e 0)) ≤ sv := by
  have h := subLoop6_post dim d mcs sv (fun t => t + max 0 (t - max 0 (sv - mcs.getD e 0))) (fun _ => 1)
    (by
      intro t ht
      have h1 := cntGe_two dim mcs (sv - t) d e hde he hl
      rw [indGe_eq_one (by omega : sv - t ≤ mcs.getD d 0)] at h1
      unfold indGe at h1
      split at h1 <;> omega)
    (by
      intro t ht
      have h1 := cntGe_one (d + 1) mcs (sv - t) d (by omega) (by omega)
      rw [indGe_eq_one (by omega)] at h1
      exact h1)
    fuel 0 0 (le_refl _) (by simp) (by omega)
  intro h1
  have := h.2 h1
  omega

/-- version 6, dimension `d` together with an EARLIER dimension `e < d` -/
theorem loop6_second (dim d e : Nat) (mcs : List Int) (sv : Int) (fuel : Nat) (hde : e < d) (hd : d < dim)
    (hl : d < mcs.length) (hc : sv ≤ mcs.getD d 0) :
    1 ≤ (subLoop6 dim d mcs sv fuel 0 0).1 →
      (subLoop6 dim d mcs sv fuel 0 0).1 +
        max 0 ((subLoop6 dim d mcs sv fuel 0 0).1 - max 0 (sv - mcs.getD e 0)) ≤ sv := by
  have h := subLoop6_post dim d mcs sv (fun t => t + max 0 (t - max 0 (sv - mcs.getD e 0)))
    (fun t => 1 + indGe (mcs.getD e 0) (sv - t))
    (by
      intro t ht
      have h1 := cntGe_two dim mcs (sv - t) e d hde hd hl
      rw [indGe_eq_one (by omega : sv - t ≤ mcs.getD d 0)] at h1
      unfold indGe at h1
      split at h1 <;> omega)
    (by
      intro t ht
      have h1 := cntGe_two (d + 1) mcs (sv - t) e d hde (by omega) hl
      rw [indGe_eq_one (by omega : sv - t ≤ mcs.getD d 0)] at h1
      omega)
    fuel 0 0 (le_refl _) (by simp) (by omega)
  intro h1
  have := h.2 h1
  unfold indGe at this
  split at this <;> omega

/-! ## the loop of version 7 -/

theorem subLoop7_post (dim : Nat) (mcs : List Int) (sv : Int) (L : Int → Int)
    (hL : ∀ t, 0 ≤ t → L (t + 1) ≤ L t + cntGe dim mcs (sv - t)) :
    ∀ (fuel : Nat) (m ps : Int), 0 ≤ m → L m ≤ ps → (1 ≤ m → L m ≤ sv) →
      0 ≤ (subLoop7 dim mcs sv fuel m ps).1 ∧
      (1 ≤ (subLoop7 dim mcs sv fuel m ps).1 → L (subLoop7 dim mcs sv fuel m ps).1 ≤ sv)
  | 0, m, ps, hm, _, hpost => ⟨hm, hpost⟩
  | f + 1, m, ps, hm, hinv, hpost => by
    simp only [subLoop7]
    have hLm := hL m hm
    by_cases h1 : ps + cntGe dim mcs (sv - m) ≤ sv
    · simp only [h1, if_true]
      by_cases h2 : ps + cntGe dim mcs (sv - m) ≥ sv
      · simp only [h2, if_true]
        exact ⟨by omega, fun _ => by omega⟩
      · simp only [h2, if_false]
        exact subLoop7_post dim mcs sv L hL f (m + 1) _ (by omega) (by omega) (fun _ => by omega)
    · simp only [h1, if_false]
      have h2 : ps + cntGe dim mcs (sv - m) ≥ sv := by omega
      simp only [h2, if_true]
      exact ⟨hm, hpost⟩

theorem loop7_le_sv (dim d : Nat) (mcs : List Int) (sv : Int) (fuel : Nat) (hd : d < dim) (hl : d < mcs.length)
    (hc : sv ≤ mcs.getD d 0) :
    0 ≤ (subLoop7 dim mcs sv fuel 0 0).1 ∧
    (1 ≤ (subLoop7 dim mcs sv fuel 0 0).1 → (subLoop7 dim mcs sv fuel 0 0).1 ≤ sv) := by
  have h := subLoop7_post dim mcs sv (fun t => t)
    (by
      intro t ht
      have h1 := cntGe_one dim mcs (sv - t) d hd hl
      rw [indGe_eq_one (by omega)] at h1
      omega)
    fuel 0 0 (le_refl _) (le_refl _) (by omega)
  exact ⟨h.1, fun h1 => h.2 h1⟩

/-- version 7, dimension `d` together with any other dimension `e` -/
theorem loop7_pair (dim d e : Nat) (mcs : List Int) (sv : Int) (fuel : Nat) (hde : d ≠ e) (hd : d < dim) (he : e < dim)
    (hld : d < mcs.length) (hle : e < mcs.length) (hc : sv ≤ mcs.getD d 0) :
    1 ≤ (subLoop7 dim mcs sv fuel 0 0).1 →
      (subLoop7 dim mcs sv fuel 0 0).1 + max 0 ((subLoop7 dim mcs sv fuel 0 0).1 - max 0 (sv - mcs.getD e 0)) ≤ sv := by
  have h := subLoop7_post dim mcs sv (fun t => t + max 0 (t - max 0 (sv - mcs.getD e 0)))
    (by
      intro t ht
      have h1 : indGe (mcs.getD d 0) (sv - t) + indGe (mcs.getD e 0) (sv - t) ≤ cntGe dim mcs (sv - t) := by
        rcases Nat.lt_or_gt_of_ne hde with hlt | hgt
        · exact cntGe_two dim mcs (sv - t) d e hlt he hle
        · have := cntGe_two dim mcs (sv - t) e d hgt hd hld; omega
      rw [indGe_eq_one (by omega : sv - t ≤ mcs.getD d 0)] at h1
      unfold indGe at h1
      split at h1 <;> omega)
    fuel 0 0 (le_refl _) (by simp) (by omega)
  intro h1
  have := h.2 h1
  omega

/-! ## the loop of version 8 -/

theorem subLoop8_post (dim d : Nat) (mcs : List Int) (sv ml : Int) (L b : Int → Int)
    (hL : ∀ t, 0 ≤ t → L (t + 1) ≤ L t + min (ml - 1) (cntGe dim mcs (sv - t)))
    (hb : ∀ t, 0 ≤ t → b t ≤ min (ml - 1) (cntGe (d + 1) mcs (sv - t))) :
    ∀ (fuel : Nat) (m ps : Int), 0 ≤ m →
      L m ≤ (if m > 0 then ps + min (ml - 1) (cntGe dim mcs (sv - (m - 1))) else ps) →
      (1 ≤ m → L (m - 1) + b (m - 1) ≤ sv) →
      0 ≤ (subLoop8 dim d mcs sv ml fuel m ps).1 ∧
      (1 ≤ (subLoop8 dim d mcs sv ml fuel m ps).1 →
        L ((subLoop8 dim d mcs sv ml fuel m ps).1 - 1) + b ((subLoop8 dim d mcs sv ml fuel m ps).1 - 1) ≤ sv)
  | 0, m, ps, hm, _, hpost => ⟨hm, hpost⟩
  | f + 1, m, ps, hm, hinv, hpost => by
    simp only [subLoop8]
    generalize hps : (if m > 0 then ps + min (ml - 1) (cntGe dim mcs (sv - (m - 1))) else ps) = ps' at hinv ⊢
    have hbm := hb m hm
    have hLm := hL m hm
    generalize hpst : min (ml - 1) (cntGe (d + 1) mcs (sv - m)) = pst at hbm ⊢
    generalize hA : min (ml - 1) (cntGe dim mcs (sv - m)) = A at hLm
    by_cases h1 : ps' + pst ≤ sv
    · simp only [h1, if_true]
      by_cases h2 : ps' + pst ≥ sv
      · simp only [h2, if_true]
        refine ⟨by omega, fun _ => ?_⟩
        have : m + 1 - 1 = m := by omega
        rw [this]; omega
      · simp only [h2, if_false]
        apply subLoop8_post dim d mcs sv ml L b hL hb f (m + 1) ps' (by omega)
        · have hpos : m + 1 > 0 := by omega
          have : m + 1 - 1 = m := by omega
          simp only [hpos, if_true, this, hA]; omega
        · intro _
          have : m + 1 - 1 = m := by omega
          rw [this]; omega
    · simp only [h1, if_false]
      have h2 : ps' + pst ≥ sv := by omega
      simp only [h2, if_true]
      exact ⟨hm, hpost⟩

theorem loop8_le_sv (dim d : Nat) (mcs : List Int) (sv ml : Int) (fuel : Nat) (hd : d < dim) (hl : d < mcs.length)
    (hc : sv ≤ mcs.getD d 0) (hml : 2 ≤ ml) :
    0 ≤ (subLoop8 dim d mcs sv ml fuel 0 0).1 ∧
    (1 ≤ (subLoop8 dim d mcs sv ml fuel 0 0).1 → (subLoop8 dim d mcs sv ml fuel 0 0).1 ≤ sv) := by
  have h := subLoop8_post dim d mcs sv ml (fun t => t) (fun _ => 1)
    (by
      intro t ht
      have h1 := cntGe_one dim mcs (sv - t) d hd hl
      rw [indGe_eq_one (by omega)] at h1
      omega)
    (by
      intro t ht
      have h1 := cntGe_one (d + 1) mcs (sv - t) d (by omega) hl
      rw [indGe_eq_one (by omega)] at h1
      omega)
    fuel 0 0 (le_refl _) (by simp) (by omega)
  exact ⟨h.1, fun h1 => by have := h.2 h1; omega⟩

theorem loop8_first (dim d e : Nat) (mcs : List Int) (sv ml : Int) (fuel : Nat) (hde : d < e) (he : e < dim)
    (hl : e < mcs.length) (hc : sv ≤ mcs.getD d 0) (hml : 3 ≤ ml) :
    1 ≤ (subLoop8 dim d mcs sv ml fuel 0 0).1 →
      (subLoop8 dim d mcs sv ml fuel 0 0).1 +
        max 0 ((subLoop8 dim d mcs sv ml fuel 0 0).1 - 1 - max 0 (sv - mcs.getD e 0)) ≤ sv := by
  have h := subLoop8_post dim d mcs sv ml (fun t => t + max 0 (t - max 0 (sv - mcs.getD e 0))) (fun _ => 1)
    (by
      intro t ht
      have h1 := cntGe_two dim mcs (sv - t) d e hde he hl
      rw [indGe_eq_one (by omega : sv - t ≤ mcs.getD d 0)] at h1
      unfold indGe at h1
      split at h1 <;> omega)
    (by
      intro t ht
      have h1 := cntGe_one (d + 1) mcs (sv - t) d (by omega) (by omega)
      rw [indGe_eq_one (by omega)] at h1
      omega)
    fuel 0 0 (le_refl _) (by simp) (by omega)
  intro h1
  have := h.2 h1
  omega

theorem loop8_second (dim d e : Nat) (mcs : List Int) (sv ml : Int) (fuel : Nat) (hde : e < d) (hd : d < dim)
    (hl : d < mcs.length) (hc : sv ≤ mcs.getD d 0) (hml : 3 ≤ ml) :
    1 ≤ (subLoop8 dim d mcs sv ml fuel 0 0).1 →
      (subLoop8 dim d mcs sv ml fuel 0 0).1 +
        max 0 ((subLoop8 dim d mcs sv ml fuel 0 0).1 - max 0 (sv - mcs.getD e 0)) ≤ sv := by
  have h := subLoop8_post dim d mcs sv ml (fun t => t + max 0 (t - max 0 (sv - mcs.getD e 0)))
    (fun t => 1 + indGe (mcs.getD e 0) (sv - t))
    (by
      intro t ht
      have h1 := cntGe_two dim mcs (sv - t) e d hde hd hl
      rw [indGe_eq_one (by omega : sv - t ≤ mcs.getD d 0)] at h1
      unfold indGe at h1
      split at h1 <;> omega)
    (by
      intro t ht
      have h1 := cntGe_two (d + 1) mcs (sv - t) e d hde (by omega) hl
      rw [indGe_eq_one (by omega : sv - t ≤ mcs.getD d 0)] at h1
      unfold indGe at h1 ⊢
      split at h1 <;> split <;> omega)
    fuel 0 0 (le_refl _) (by simp) (by omega)
  intro h1
  have := h.2 h1
  unfold indGe at this
  split at this <;> omega

/-- **the pair bound**: the arithmetic behind "two dimensions never ask for more than the index set grew" -/
theorem pair_bound (m1 m2 s1 s2 c1 c2 : Int) (h1 : 0 ≤ m1) (h2 : 0 ≤ m2) (hc1 : 0 ≤ c1) (hs1 : s1 ≤ c1) (hs2 : s2 ≤ c2)
    (k1 : 1 ≤ m1 → m1 + max 0 (m1 - 1 - max 0 (s1 - c2)) ≤ s1)
    (k2 : 1 ≤ m2 → m2 + max 0 (m2 - max 0 (s2 - c1)) ≤ s2) : m1 + m2 ≤ max c1 c2 := by
  by_cases a1 : 1 ≤ m1
  · by_cases a2 : 1 ≤ m2
    · have := k1 a1; have := k2 a2; omega
    · have := k1 a1; omega
  · by_cases a2 : 1 ≤ m2
    · have := k2 a2; omega
    · omega

end SparseSpace
