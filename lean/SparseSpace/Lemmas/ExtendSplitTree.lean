import SparseSpace.Lemmas.ExtendSplitBox
/-!
# The refinement tree of the extend–split model (C07)

`Forest.WF`: every area is a proper box and the children of every inner node tile it.  Then the leaves tile
whatever the top-level siblings tile (`leaves_tile`) and the first-child-wins assignment sends every point of the
tiled box to a leaf that contains it (`assign_spec`), namely THE leaf whose interior contains it if there is one
(`assign_interior`).
-/
namespace SparseSpace

def Forest.WF : Forest → Prop
  | .nil => True
  | .cons a ch sib => Proper a.box ∧ (ch.isNil = true ∨ Tiles a.box (ch.tops.map (·.box))) ∧ ch.WF ∧ sib.WF

/-- a property of every area of the forest (inner nodes included) -/
def Forest.All (P : ESArea → Prop) : Forest → Prop
  | .nil => True
  | .cons a ch sib => P a ∧ ch.All P ∧ sib.All P

theorem Forest.isNil_iff (f : Forest) : f.isNil = true ↔ f = .nil := by
  cases f <;> simp [Forest.isNil]

theorem Forest.All.imp {P Q : ESArea → Prop} (h : ∀ a, P a → Q a) : ∀ f : Forest, f.All P → f.All Q
  | .nil, _ => trivial
  | .cons _ ch sib, hf => ⟨h _ hf.1, Forest.All.imp h ch hf.2.1, Forest.All.imp h sib hf.2.2⟩

theorem Forest.all_iff_nodes (P : ESArea → Prop) : ∀ f : Forest, f.All P ↔ ∀ a ∈ f.nodes, P a
  | .nil => by simp [Forest.All, Forest.nodes]
  | .cons a ch sib => by
      simp only [Forest.All, Forest.nodes, List.mem_cons, List.mem_append, Forest.all_iff_nodes P ch,
        Forest.all_iff_nodes P sib]
      constructor
      · rintro ⟨h1, h2, h3⟩ b (rfl | hb | hb)
        · exact h1
        · exact h2 b hb
        · exact h3 b hb
      · intro h
        exact ⟨h a (Or.inl rfl), fun b hb => h b (Or.inr (Or.inl hb)), fun b hb => h b (Or.inr (Or.inr hb))⟩

theorem Forest.leaves_subset_nodes : ∀ (f : Forest) (a : ESArea), a ∈ f.leaves → a ∈ f.nodes
  | .nil, _, h => by simp [Forest.leaves] at h
  | .cons b ch sib, a, h => by
      simp only [Forest.leaves, List.mem_append] at h
      simp only [Forest.nodes, List.mem_cons, List.mem_append]
      rcases h with h | h
      · by_cases hn : ch.isNil = true
        · simp [hn] at h; exact Or.inl h
        · simp [hn] at h; exact Or.inr (Or.inl (Forest.leaves_subset_nodes ch a h))
      · exact Or.inr (Or.inr (Forest.leaves_subset_nodes sib a h))

/-- the leaves refine the top-level sibling list -/
theorem refines_leaves : ∀ f : Forest, f.WF → BoxRefines (f.tops.map (·.box)) (f.leaves.map (·.box))
  | .nil, _ => BoxRefines.nil
  | .cons a ch sib, h => by
      obtain ⟨hp, hch, hwc, hws⟩ := h
      simp only [Forest.tops, Forest.leaves, List.map_cons, List.map_append]
      refine BoxRefines.cons ?_ (refines_leaves sib hws)
      by_cases hn : ch.isNil = true
      · simpa [hn] using tiles_self a.box hp
      · simp only [hn]
        rcases hch with hch | hch
        · exact absurd hch hn
        · exact tiles_refines hch (refines_leaves ch hwc)

/-- **the leaves tile the box tiled by the top-level areas** -/
theorem leaves_tile_forest (f : Forest) (P : Box) (hwf : f.WF) (ht : Tiles P (f.tops.map (·.box))) :
    Tiles P (f.leaves.map (·.box)) :=
  tiles_refines ht (refines_leaves f hwf)

/-- first-child-wins assignment: a point covered by the top-level areas goes to a leaf that contains it -/
theorem assign_spec (x : EPt) : ∀ f : Forest, f.WF → (∃ t ∈ f.tops, boxContains t.box x = true) →
    ∃ a, f.assign x = some a ∧ a ∈ f.leaves ∧ boxContains a.box x = true
  | .nil, _, h => by simp [Forest.tops] at h
  | .cons a ch sib, hwf, h => by
      obtain ⟨_, hch, hwc, hws⟩ := hwf
      simp only [Forest.assign, Forest.leaves]
      by_cases hc : boxContains a.box x = true
      · simp only [hc, if_true]
        by_cases hn : ch.isNil = true
        · simp only [hn, if_true]
          exact ⟨a, rfl, by simp, hc⟩
        · simp only [hn]
          rcases hch with hch | hch
          · exact absurd hch hn
          · obtain ⟨c, hcm, hcx⟩ := hch.cover x hc
            obtain ⟨t, ht, rfl⟩ := List.mem_map.1 hcm
            obtain ⟨l, h1, h2, h3⟩ := assign_spec x ch hwc ⟨t, ht, hcx⟩
            exact ⟨l, h1, List.mem_append_left _ h2, h3⟩
      · simp only [hc]
        obtain ⟨t, ht, htx⟩ := h
        simp only [Forest.tops, List.mem_cons] at ht
        rcases ht with rfl | ht
        · exact absurd htx hc
        · obtain ⟨l, h1, h2, h3⟩ := assign_spec x sib hws ⟨t, ht, htx⟩
          exact ⟨l, h1, List.mem_append_right _ h2, h3⟩

theorem es_pairwise_mem {α : Type} {R : α → α → Prop} (hsym : ∀ a b, R a b → R b a) :
    ∀ (l : List α), l.Pairwise R → ∀ u ∈ l, ∀ v ∈ l, u ≠ v → R u v
  | [], _, u, hu, _, _, _ => by simp at hu
  | w :: l, h, u, hu, v, hv, hne => by
      rw [List.pairwise_cons] at h
      rcases List.mem_cons.1 hu with hu' | hu' <;> rcases List.mem_cons.1 hv with hv' | hv'
      · exact absurd (hu'.trans hv'.symm) hne
      · subst hu'; exact h.1 v hv'
      · subst hv'; exact hsym _ _ (h.1 u hu')
      · exact es_pairwise_mem hsym l h.2 u hu' v hv' hne

/-- a closed box and the interior of a box separated from it do not meet -/
theorem separated_closed_interior : ∀ (a b : Box) (x : EPt), Separated a b →
    ¬ (boxContains a x = true ∧ boxInterior b x = true)
  | [], _, _, h, _ => by simp [Separated] at h
  | _ :: _, [], _, h, _ => by simp [Separated] at h
  | _ :: _, _ :: _, [], _, h => by simp [boxContains] at h
  | u :: a, v :: b, x :: xs, hs, h => by
      obtain ⟨h1, h2, h3⟩ := (boxContains_cons u a x xs).1 h.1
      obtain ⟨k1, k2, k3⟩ := (boxInterior_cons v b x xs).1 h.2
      rcases hs with hs | hs | hs
      · linarith
      · linarith
      · exact separated_closed_interior a b xs hs ⟨h3, k3⟩

/-- a point in the interior of a leaf is assigned to (a leaf with the box of) that leaf -/
theorem assign_interior (x : EPt) (f : Forest) (P : Box) (hwf : f.WF) (ht : Tiles P (f.tops.map (·.box)))
    (l : ESArea) (hl : l ∈ f.leaves) (hx : boxInterior l.box x = true) :
    ∃ a, f.assign x = some a ∧ a ∈ f.leaves ∧ a.box = l.box := by
  have hT := leaves_tile_forest f P hwf ht
  have hxP : boxContains P x = true :=
    subBox_contains _ _ x (hT.sub _ (List.mem_map.2 ⟨l, hl, rfl⟩)) (boxInterior_contains _ x hx)
  obtain ⟨c, hc, hcx⟩ := ht.cover x hxP
  obtain ⟨t, htm, rfl⟩ := List.mem_map.1 hc
  obtain ⟨a, h1, h2, h3⟩ := assign_spec x f hwf ⟨t, htm, hcx⟩
  refine ⟨a, h1, h2, ?_⟩
  by_contra hne
  have hsep := es_pairwise_mem separated_symm _ hT.sep a.box (List.mem_map.2 ⟨a, h2, rfl⟩) l.box
    (List.mem_map.2 ⟨l, hl, rfl⟩) hne
  exact separated_closed_interior _ _ x hsep ⟨h3, hx⟩

/-- the list version `get_points_in_areas_recursive(area, points)` agrees with the single-point function:
a point is in the list handed to leaf `a` iff it is one of the given points and `assign` sends it to `a`.
(Stated for the membership in the result; leaves are compared as values.) -/
theorem assignAll_spec : ∀ (f : Forest) (pts : List EPt) (a : ESArea) (p : EPt),
    (∃ ps, (a, ps) ∈ f.assignAll pts ∧ p ∈ ps) → p ∈ pts ∧ ∃ a', f.assign p = some a' ∧ a'.box = a.box
  | .nil, _, _, _, h => by simp [Forest.assignAll] at h
  | .cons b ch sib, pts, a, p, h => by
      obtain ⟨ps, hmem, hp⟩ := h
      simp only [Forest.assignAll, List.mem_append] at hmem
      simp only [Forest.assign]
      rcases hmem with hmem | hmem
      · by_cases hn : ch.isNil = true
        · simp only [hn, if_true, List.mem_cons, List.not_mem_nil, or_false, Prod.mk.injEq] at hmem
          obtain ⟨rfl, rfl⟩ := hmem
          rw [List.mem_filter] at hp
          exact ⟨hp.1, a, by simp [hp.2, hn], rfl⟩
        · simp only [hn] at hmem
          obtain ⟨h1, a', h2, h3⟩ := assignAll_spec ch _ a p ⟨ps, hmem, hp⟩
          rw [List.mem_filter] at h1
          exact ⟨h1.1, a', by simp [h1.2, hn, h2], h3⟩
      · obtain ⟨h1, a', h2, h3⟩ := assignAll_spec sib _ a p ⟨ps, hmem, hp⟩
        rw [List.mem_filter] at h1
        have : boxContains b.box p = false := by simpa using h1.2
        exact ⟨h1.1, a', by simp [this, h2], h3⟩

/-- conversely every offered point that `assign` sends to a leaf is in the list handed to that leaf -/
theorem assignAll_complete : ∀ (f : Forest) (pts : List EPt) (p : EPt) (a : ESArea), p ∈ pts → f.assign p = some a →
    ∃ ps, (a, ps) ∈ f.assignAll pts ∧ p ∈ ps
  | .nil, _, _, _, _, h => by simp [Forest.assign] at h
  | .cons b ch sib, pts, p, a, hp, h => by
      simp only [Forest.assign] at h
      simp only [Forest.assignAll, List.mem_append]
      by_cases hc : boxContains b.box p = true
      · rw [if_pos hc] at h
        have hpf : p ∈ pts.filter (boxContains b.box) := List.mem_filter.2 ⟨hp, hc⟩
        by_cases hn : ch.isNil = true
        · rw [if_pos hn] at h
          simp only [Option.some.injEq] at h
          subst h
          exact ⟨_, Or.inl (by rw [if_pos hn]; exact List.mem_cons_self ..), hpf⟩
        · rw [if_neg hn] at h
          obtain ⟨ps, h1, h2⟩ := assignAll_complete ch _ p a hpf h
          exact ⟨ps, Or.inl (by rw [if_neg hn]; exact h1), h2⟩
      · rw [if_neg hc] at h
        have hpf : p ∈ pts.filter (fun q => !boxContains b.box q) := by
          rw [List.mem_filter]
          exact ⟨hp, by simpa using hc⟩
        obtain ⟨ps, h1, h2⟩ := assignAll_complete sib _ p a hpf h
        exact ⟨ps, Or.inr h1, h2⟩

end SparseSpace
