import SparseSpace.Model.Classify
import Mathlib.Algebra.Order.Field.Rat
import Mathlib.Tactic.Linarith
/-!
Lemmas for C19, part 1: `np.argmax` (first maximum) and the density rows.  
-/
namespace SparseSpace.Classify

theorem argmaxAux_spec (vs : List Rat) : ∀ (pre : List Rat) (b : Rat) (bi : Nat),
    pre[bi]? = some b → (∀ v ∈ pre, v ≤ b) → (∀ i, i < bi → ∀ v, pre[i]? = some v → v < b) →
    ∃ m, (pre ++ vs)[argmaxAux vs pre.length b bi]? = some m ∧ (∀ v ∈ pre ++ vs, v ≤ m) ∧
      (∀ i, i < argmaxAux vs pre.length b bi → ∀ v, (pre ++ vs)[i]? = some v → v < m) := by
  induction vs with
  | nil =>
    intro pre b bi hb hmax hfirst
    refine ⟨b, ?_, ?_, ?_⟩
    · simpa [argmaxAux] using hb
    · simpa using hmax
    · simpa [argmaxAux] using hfirst
  | cons v vs ih =>
    intro pre b bi hb hmax hfirst
    have hbi : bi < pre.length := by
      have := List.getElem?_eq_some_iff.mp hb
      exact this.1
    have hlen : (pre ++ [v]).length = pre.length + 1 := by simp
    have happ : pre ++ v :: vs = (pre ++ [v]) ++ vs := by simp
    unfold argmaxAux
    by_cases hlt : b < v
    · rw [if_pos hlt, happ, ← hlen]
      apply ih (pre ++ [v]) v pre.length
      · simp
      · intro u hu
        rcases List.mem_append.mp hu with h | h
        · exact le_trans (hmax u h) (le_of_lt hlt)
        · have : u = v := by simpa using h
          subst this; exact le_refl _
      · intro i hi u hu
        have : pre[i]? = some u := by
          rw [List.getElem?_append_left hi] at hu; exact hu
        have hmem : u ∈ pre := List.mem_of_getElem? this
        exact lt_of_le_of_lt (hmax u hmem) hlt
    · rw [if_neg hlt, happ, ← hlen]
      have hvb : v ≤ b := not_lt.mp hlt
      apply ih (pre ++ [v]) b bi
      · rw [List.getElem?_append_left hbi]; exact hb
      · intro u hu
        rcases List.mem_append.mp hu with h | h
        · exact hmax u h
        · have : u = v := by simpa using h
          subst this; exact hvb
      · intro i hi u hu
        have hi' : i < pre.length := Nat.lt_trans hi hbi
        rw [List.getElem?_append_left hi'] at hu
        exact hfirst i hi u hu

/-- `np.argmax` on a non-empty row returns a position holding a maximal entry, and every earlier entry is
strictly smaller (first maximum). -/
theorem argmaxFirst_spec (row : List Rat) (h : row ≠ []) :
    ∃ m, row[argmaxFirst row]? = some m ∧ (∀ v ∈ row, v ≤ m) ∧
      (∀ i, i < argmaxFirst row → ∀ v, row[i]? = some v → v < m) := by
  cases row with
  | nil => exact absurd rfl h
  | cons v vs =>
    have := argmaxAux_spec vs [v] v 0 (by simp) (by intro u hu; have : u = v := by simpa using hu
                                                    subst this; exact le_refl _) (by intro i hi; omega)
    simpa [argmaxFirst] using this

theorem densRow_getElem? (dens : Nat → Pt → Rat) (k : Nat) (p : Pt) (c : Nat) :
    (densRow dens k p)[c]? = if c < k then some (dens c p) else none := by
  unfold densRow
  rw [List.getElem?_map]
  by_cases h : c < k
  · simp [h]
  · simp [h]

theorem densRow_length (dens : Nat → Pt → Rat) (k : Nat) (p : Pt) : (densRow dens k p).length = k := by
  simp [densRow]

/-- the class index computed for a position: below `k`, its density is maximal, every smaller index has a
strictly smaller density -/
theorem argmax_densRow (dens : Nat → Pt → Rat) (k : Nat) (hk : 0 < k) (p : Pt) :
    argmaxFirst (densRow dens k p) < k ∧
    (∀ c, c < k → dens c p ≤ dens (argmaxFirst (densRow dens k p)) p) ∧
    (∀ c, c < argmaxFirst (densRow dens k p) → dens c p < dens (argmaxFirst (densRow dens k p)) p) := by
  have hne : densRow dens k p ≠ [] := by
    intro h
    have := densRow_length dens k p
    rw [h] at this
    simp at this
    omega
  obtain ⟨m, hm, hmax, hfirst⟩ := argmaxFirst_spec (densRow dens k p) hne
  rw [densRow_getElem?] at hm
  by_cases hj : argmaxFirst (densRow dens k p) < k
  · rw [if_pos hj] at hm
    have hm' : dens (argmaxFirst (densRow dens k p)) p = m := by simpa using hm
    refine ⟨hj, ?_, ?_⟩
    · intro c hc
      rw [hm']
      apply hmax
      apply List.mem_of_getElem? (i := c)
      rw [densRow_getElem?, if_pos hc]
    · intro c hc
      rw [hm']
      apply hfirst c hc
      rw [densRow_getElem?, if_pos (Nat.lt_trans hc hj)]
  · rw [if_neg hj] at hm
    exact absurd hm (by simp)

end SparseSpace.Classify
