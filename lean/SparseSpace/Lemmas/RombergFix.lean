import SparseSpace.Lemmas.RombergCont
/-!
# The proposed repair of the Simpson level-0 row is correct (C11)

`simpBoundaryFixed` is what `RombergSimpsonWeights.get_boundary_point_weight` computes after the proposed fix
(`(coefficient * step_width) / (2 if j == 0 else 3)`): the level-0 row becomes the trapezoidal row `h/2, h/2`.
With it a container of `2^(k+1)` equal slices weighs exactly its length and integrates affine functions exactly.
These statements are about the PROPOSED code, not about the code under test (`simpBoundary` mirrors that).
-/
namespace SparseSpace.Romberg
open Finset

def simpBoundaryFixed (a b : ℚ) (m : ℕ) : ℚ :=
  coeff a b 3 m 0 * stepWidth a b 0 / 2
    + sumRange 1 m (fun j => coeff a b 3 m j * stepWidth a b j) / 3

theorem simpBoundaryFixed_eq (a b : ℚ) (m : ℕ) :
    simpBoundaryFixed a b m = simpBoundary a b m + coeff a b 3 m 0 * (b - a) / 6 := by
  simp only [simpBoundaryFixed, simpBoundary, sumRange_eq, zero_add]
  rw [Finset.sum_range_succ' _ m]
  simp only [stepWidth_eq, pow_zero, div_one]
  have : ∀ i, 1 + i = i + 1 := fun i => by omega
  simp only [this]
  ring

theorem simpson_fixed_total (a b : ℚ) (k : ℕ) (hab : a ≠ b) :
    2 * simpBoundaryFixed a b (k + 1) + levelSum (fun l => simpInner a b l (k + 1)) (k + 1) 1 = b - a := by
  have := simpson_total a b k hab
  rw [simpBoundaryFixed_eq]
  linarith

/-- the repaired container: weights `bw' :: inner ++ [bw']` on `2^(k+1)` equal slices integrate affine functions
    exactly over `[x, x + 2^(k+1) h]` -/
theorem simpson_fixed_container (k : ℕ) (x h α β : ℚ) (hpos : 0 < h) :
    wsum (fun y => α * y + β)
      ((apPoints x h (2 ^ (k + 1) + 1)).zip
        (simpBoundaryFixed x (x + 2 ^ (k + 1) * h) (k + 1)
          :: ((perfect (k + 1) 1).map (fun l => simpInner x (x + 2 ^ (k + 1) * h) l (k + 1))
              ++ [simpBoundaryFixed x (x + 2 ^ (k + 1) * h) (k + 1)])))
      = prim α β (x + 2 ^ (k + 1) * h) - prim α β x := by
  have hab : x ≠ x + 2 ^ (k + 1) * h := by
    have : (0 : ℚ) < 2 ^ (k + 1) * h := mul_pos (pow_pos (by norm_num) _) hpos
    linarith
  rw [wsum_block, simpson_fixed_total _ _ k hab]
  simp only [prim]
  ring

end SparseSpace.Romberg
