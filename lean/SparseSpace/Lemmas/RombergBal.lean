import SparseSpace.Lemmas.RombergSlice
import SparseSpace.Lemmas.RombergTree
/-!
# Balanced extrapolation grid (C11): Romberg table of composite midpoint rules on the truncated trees
-/
namespace SparseSpace.Romberg
open SparseSpace

/-- the level list describes a bisection tree of `[L, R]`: the first minimal level of every window sits at the
    midpoint of the window's enclosing interval ("dyadic spacing") -/
inductive MidSeg : ℚ → List PL → ℚ → Prop
  | nil (L R : ℚ) : MidSeg L [] R
  | split (L R : ℚ) (inner pre post : List PL) (x : PL) :
      splitMin inner = some (pre, x, post) → x.1 = (L + R) / 2 → MidSeg L pre x.1 → MidSeg x.1 post R →
      MidSeg L inner R

def keys (d : Dict) : List ℚ := d.map Prod.fst

/-! ## dictionaries -/

theorem dictHas_iff (d : Dict) (k : ℚ) : dictHas d k = true ↔ k ∈ keys d := by
  induction d with
  | nil => simp [dictHas, keys]
  | cons e d ih =>
    simp only [dictHas, keys, List.map_cons, List.mem_cons, Bool.or_eq_true, decide_eq_true_eq] at ih ⊢
    rw [ih]
    constructor
    · rintro (h | h)
      · exact Or.inl h.symm
      · exact Or.inr h
    · rintro (h | h)
      · exact Or.inl h.symm
      · exact Or.inr h

theorem dictGet_not_mem (d : Dict) (k : ℚ) (h : k ∉ keys d) : dictGet d k = 0 := by
  induction d with
  | nil => rfl
  | cons e d ih =>
    simp only [keys, List.map_cons, List.mem_cons, not_or] at h
    simp only [dictGet]
    rw [if_neg (fun h' => h.1 h'.symm)]
    exact ih h.2

theorem dictSet_new (d : Dict) (k v : ℚ) (h : k ∉ keys d) : dictSet d k v = d ++ [(k, v)] := by
  induction d with
  | nil => rfl
  | cons e d ih =>
    simp only [keys, List.map_cons, List.mem_cons, not_or] at h
    simp only [dictSet]
    rw [if_neg (fun h' => h.1 h'.symm), ih h.2]
    rfl

theorem foldl_dictSet (acc ls : Dict) (h : (keys (acc ++ ls)).Nodup) :
    ls.foldl (fun d e => dictSet d e.1 e.2) acc = acc ++ ls := by
  induction ls generalizing acc with
  | nil => simp
  | cons e ls ih =>
    simp only [List.foldl_cons]
    have hk : e.1 ∉ keys acc := by
      simp only [keys, List.map_append, List.map_cons] at h
      rw [List.nodup_append] at h
      intro hm
      exact h.2.2 _ hm _ List.mem_cons_self rfl
    rw [dictSet_new acc e.1 e.2 hk, ih]
    · simp
    · simpa using h

/-- `Σ_{k ∈ K} d[k] · g k` counts every entry of `d` whose key is in `K` exactly once -/
theorem sum_dictGet (K : List ℚ) (d : Dict) (g : ℚ → ℚ) (hK : K.Nodup) (hd : (keys d).Nodup) :
    (K.map (fun k => dictGet d k * g k)).sum = wsum g (d.filter (fun e => decide (e.1 ∈ K))) := by
  induction d with
  | nil => simp [dictGet]
  | cons e d ih =>
    simp only [keys, List.map_cons, List.nodup_cons] at hd
    have h0 : ∀ k, dictGet (e :: d) k = (if e.1 = k then e.2 else 0) + (if e.1 = k then 0 else dictGet d k) := by
      intro k; simp only [dictGet]; split <;> simp
    have h1 : (K.map (fun k => dictGet (e :: d) k * g k)).sum
        = (K.map (fun k => (if e.1 = k then e.2 else 0) * g k)).sum + (K.map (fun k => dictGet d k * g k)).sum := by
      rw [← List.sum_map_add]
      congr 1
      apply List.map_congr_left
      intro k _
      rw [h0 k]
      by_cases hk : e.1 = k
      · subst hk
        have : dictGet d e.1 = 0 := dictGet_not_mem d e.1 hd.1
        simp [this]
      · simp [hk]
    rw [h1, ih hd.2, List.filter_cons]
    by_cases hm : e.1 ∈ K
    · rw [sum_indicator K e.1 e.2 g hK hm]
      simp [hm]
    · have : (K.map (fun k => (if e.1 = k then e.2 else 0) * g k)).sum = 0 := by
        apply List.sum_eq_zero
        intro x hx
        obtain ⟨k, hk, rfl⟩ := List.mem_map.mp hx
        have : e.1 ≠ k := fun h => hm (h ▸ hk)
        simp [this]
      rw [this]
      simp [hm]

theorem wsum_filter_split (g : ℚ → ℚ) (d : Dict) (p : ℚ × ℚ → Bool) :
    wsum g (d.filter p) + wsum g (d.filter (fun e => !p e)) = wsum g d := by
  induction d with
  | nil => simp
  | cons e d ih =>
    simp only [List.filter_cons]
    cases hp : p e <;> simp [← ih] <;> ring

/-- one Romberg step on dictionaries is the same linear combination of the quadrature sums -/
theorem extrapStep_wsum (left top : Dict) (k : ℕ) (g : ℚ → ℚ) (hl : (keys left).Nodup) (ht : (keys top).Nodup) :
    wsum g (extrapStep left top k)
      = (1 - (-1) / (rpow 4 k - 1)) * wsum g left + (-1) / (rpow 4 k - 1) * wsum g top := by
  simp only [extrapStep, wsum_append]
  set c : ℚ := (-1) / (rpow 4 k - 1) with hc
  have h1 : wsum g (left.map (fun e => (e.1, (1 - c) * e.2 + c * dictGet top e.1)))
      = (1 - c) * wsum g left + c * ((keys left).map (fun k => dictGet top k * g k)).sum := by
    simp only [wsum, keys, List.map_map]
    rw [← List.sum_map_mul_left, ← List.sum_map_mul_left, ← List.sum_map_add]
    congr 1
    apply List.map_congr_left
    intro e _
    simp only [Function.comp]
    ring
  have h2 : wsum g ((top.filter (fun e => !dictHas left e.1)).map (fun e => (e.1, c * e.2)))
      = c * wsum g (top.filter (fun e => !decide (e.1 ∈ keys left))) := by
    have hf : (fun e : ℚ × ℚ => !dictHas left e.1) = (fun e => !decide (e.1 ∈ keys left)) := by
      funext e
      by_cases h : e.1 ∈ keys left
      · simp [h, (dictHas_iff left e.1).mpr h]
      · have : dictHas left e.1 = false := by
          cases hh : dictHas left e.1 with
          | false => rfl
          | true => exact absurd ((dictHas_iff left e.1).mp hh) h
        simp [h, this]
    rw [hf]
    simp only [wsum, List.map_map]
    rw [← List.sum_map_mul_left]
    congr 1
    apply List.map_congr_left
    intro e _
    simp only [Function.comp]
    ring
  rw [h1, h2, sum_dictGet (keys left) top g hl ht]
  have := wsum_filter_split g top (fun e => decide (e.1 ∈ keys left))
  rw [← this]
  ring

theorem extrapStep_keys (left top : Dict) (k : ℕ) (hl : (keys left).Nodup) (ht : (keys top).Nodup) :
    (keys (extrapStep left top k)).Nodup ∧ ∀ x ∈ keys (extrapStep left top k), x ∈ keys left ∨ x ∈ keys top := by
  simp only [extrapStep, keys, List.map_append, List.map_map]
  have e1 : (Prod.fst ∘ fun e : ℚ × ℚ => (e.1, (1 - (-1) / (rpow 4 k - 1)) * e.2
      + (-1) / (rpow 4 k - 1) * dictGet top e.1)) = Prod.fst := by funext e; rfl
  have e2 : (Prod.fst ∘ fun e : ℚ × ℚ => (e.1, (-1) / (rpow 4 k - 1) * e.2)) = Prod.fst := by funext e; rfl
  rw [e1, e2]
  constructor
  · rw [List.nodup_append]
    refine ⟨hl, ?_, ?_⟩
    · exact (List.Nodup.sublist (List.Sublist.map _ List.filter_sublist) ht)
    · intro a ha b hb hab
      subst hab
      obtain ⟨e, he, rfl⟩ := List.mem_map.mp hb
      have := (List.mem_filter.mp he).2
      have hh : dictHas left e.1 = true := (dictHas_iff left e.1).mpr ha
      simp [hh] at this
  · intro x hx
    rw [List.mem_append] at hx
    rcases hx with h | h
    · exact Or.inl h
    · obtain ⟨e, he, rfl⟩ := List.mem_map.mp h
      exact Or.inr (List.mem_map.mpr ⟨e, (List.mem_filter.mp he).1, rfl⟩)

/-! ## the Romberg table -/

/-- invariant of every dictionary of the table: distinct keys, keys are points of `G`, exact on affine functions -/
def RowOK (G : List ℚ) (L R : ℚ) (d : Dict) : Prop :=
  (keys d).Nodup ∧ (∀ x ∈ keys d, x ∈ G) ∧ ∀ α β : ℚ, wsum (fun y => α * y + β) d = prim α β R - prim α β L

theorem extrapStep_ok (G : List ℚ) (L R : ℚ) (left top : Dict) (k : ℕ) (hl : RowOK G L R left) (ht : RowOK G L R top) :
    RowOK G L R (extrapStep left top k) := by
  obtain ⟨k1, k2⟩ := extrapStep_keys left top k hl.1 ht.1
  refine ⟨k1, ?_, ?_⟩
  · intro x hx
    rcases k2 x hx with h | h
    · exact hl.2.1 x h
    · exact ht.2.1 x h
  · intro α β
    rw [extrapStep_wsum left top k _ hl.1 ht.1, hl.2.2 α β, ht.2.2 α β]
    ring

theorem nextCol_ok (G : List ℚ) (L R : ℚ) (j : ℕ) (col : List Dict) (h : ∀ d ∈ col, RowOK G L R d) :
    ∀ d ∈ nextCol j col, RowOK G L R d := by
  induction col with
  | nil => simp [nextCol]
  | cons top rest ih =>
    cases rest with
    | nil => simp [nextCol]
    | cons left rest' =>
      intro d hd
      simp only [nextCol, List.mem_cons] at hd
      rcases hd with rfl | hd
      · exact extrapStep_ok G L R left top j (h left (by simp)) (h top (by simp))
      · exact ih (fun d' hd' => h d' (List.mem_cons_of_mem _ hd')) d hd

theorem table_ok (G : List ℚ) (L R : ℚ) (n j : ℕ) (col : List Dict) (h : ∀ d ∈ col, RowOK G L R d) :
    ∀ d ∈ table n j col, RowOK G L R d := by
  induction n generalizing j col with
  | zero => simpa [table] using h
  | succ n ih => simp only [table]; exact ih (j + 1) _ (nextCol_ok G L R j col h)

/-- reading the final dictionary at the grid points loses nothing -/
theorem dot_dictGet (G : List ℚ) (L R : ℚ) (d : Dict) (hG : G.Nodup) (hd : RowOK G L R d) (f : ℚ → ℚ) :
    dot (G.map (dictGet d)) (G.map f) = wsum f d := by
  rw [dot_map, sum_dictGet G d f hG hd.1]
  congr 1
  apply List.filter_eq_self.mpr
  intro e he
  have : e.1 ∈ keys d := List.mem_map.mpr ⟨e, he, rfl⟩
  simpa using hd.2.1 _ this

/-! ## the rows: composite midpoint rules on the truncated trees -/

theorem itree_isNil_iff (fuel : ℕ) (L R : ℚ) (l : List PL) (h : l.length < fuel) :
    (ITree.build fuel L l R).isNil = true ↔ l = [] := by
  cases fuel with
  | zero => omega
  | succ n =>
    simp only [ITree.build]
    cases hs : splitMin l with
    | none => simp [splitMin_eq_none.mp hs, ITree.isNil]
    | some t =>
      obtain ⟨pre, x, post⟩ := t
      have := splitMin_eq hs
      simp only [ITree.isNil, Bool.false_eq_true, false_iff]
      intro h0; subst h0; simp at this

theorem midSeg_sorted {L R : ℚ} {inner : List PL} (h : MidSeg L inner R) (hLR : L < R) :
    (∀ p ∈ inner, L < p.1 ∧ p.1 < R) ∧ (inner.map Prod.fst).Pairwise (· < ·) := by
  induction h with
  | nil L R => simp
  | split L R inner pre post x hs hx _ _ ih1 ih2 =>
    have h1 : L < x.1 := by rw [hx]; linarith
    have h2 : x.1 < R := by rw [hx]; linarith
    obtain ⟨a1, a2⟩ := ih1 h1
    obtain ⟨b1, b2⟩ := ih2 h2
    have hin := splitMin_eq hs
    constructor
    · intro p hp
      rw [hin] at hp
      simp only [List.mem_append, List.mem_cons] at hp
      rcases hp with h | rfl | h
      · exact ⟨(a1 p h).1, lt_trans (a1 p h).2 h2⟩
      · exact ⟨h1, h2⟩
      · exact ⟨lt_trans h1 (b1 p h).1, (b1 p h).2⟩
    · rw [hin, List.map_append, List.map_cons, List.pairwise_append]
      refine ⟨a2, ?_, ?_⟩
      · rw [List.pairwise_cons]
        refine ⟨?_, b2⟩
        intro y hy
        obtain ⟨p, hp, rfl⟩ := List.mem_map.mp hy
        exact (b1 p hp).1
      · intro u hu v hv
        obtain ⟨p, hp, rfl⟩ := List.mem_map.mp hu
        simp only [List.mem_cons, List.mem_map] at hv
        rcases hv with rfl | ⟨q, hq, rfl⟩
        · exact (a1 p hp).2
        · exact lt_trans (a1 p hp).2 (b1 q hq).1

/-- the leaves of the tree truncated at level `i` carry a composite midpoint rule on a partition of `[L, R]` -/
theorem leafs_spec {L R : ℚ} {inner : List PL} (h : MidSeg L inner R) :
    ∀ fuel lvl i : ℕ, inner.length < fuel → L < R → inner ≠ [] →
      (ITree.build fuel L inner R).isFull = true → lvl ≤ i →
      (∀ α β : ℚ, wsum (fun y => α * y + β) ((ITree.build fuel L inner R).leafsOrMax lvl i)
          = prim α β R - prim α β L) ∧
      (∀ e ∈ (ITree.build fuel L inner R).leafsOrMax lvl i, L < e.1 ∧ e.1 < R ∧ e.1 ∈ inner.map Prod.fst) ∧
      (((ITree.build fuel L inner R).leafsOrMax lvl i).map Prod.fst).Pairwise (· < ·) := by
  induction h with
  | nil L R => intro fuel lvl i _ _ hne; exact absurd rfl hne
  | split L R inner pre post x hs hx _ _ ih1 ih2 =>
    intro fuel lvl i hf hLR _ hfull hlvl
    cases fuel with
    | zero => omega
    | succ f =>
      have hl := splitMin_length hs
      have hin := splitMin_eq hs
      have h1 : L < x.1 := by rw [hx]; linarith
      have h2 : x.1 < R := by rw [hx]; linarith
      have hxin : x.1 ∈ inner.map Prod.fst := by rw [hin]; simp
      simp only [ITree.build, hs] at hfull ⊢
      simp only [ITree.isFull, Bool.and_eq_true, beq_iff_eq] at hfull
      obtain ⟨⟨hnil, hfl⟩, hfr⟩ := hfull
      simp only [ITree.leafsOrMax]
      have hgt : ¬ lvl > i := by omega
      rw [if_neg hgt]
      by_cases hc : lvl = i ∨ ((ITree.build f L pre x.1).isNil = true ∧ (ITree.build f x.1 post R).isNil = true)
      · rw [if_pos hc]
        refine ⟨?_, ?_, by simp⟩
        · intro α β
          simp only [wsum_cons, wsum_nil, ITree.mid, prim]
          ring
        · intro e he
          simp only [List.mem_singleton] at he
          subst he
          simp only [ITree.mid]
          rw [← hx]
          exact ⟨h1, h2, hxin⟩
      · rw [if_neg hc]
        have hlt : lvl + 1 ≤ i := by
          have : lvl ≠ i := fun h => hc (Or.inl h)
          omega
        have hnn : (ITree.build f L pre x.1).isNil = false ∧ (ITree.build f x.1 post R).isNil = false := by
          cases ha : (ITree.build f L pre x.1).isNil <;> cases hb : (ITree.build f x.1 post R).isNil
          · exact ⟨rfl, rfl⟩
          · rw [ha, hb] at hnil; simp at hnil
          · rw [ha, hb] at hnil; simp at hnil
          · exact absurd (Or.inr ⟨ha, hb⟩) hc
        have hpre : pre ≠ [] := by
          intro h0
          have := (itree_isNil_iff f L x.1 pre (by omega)).mpr h0
          rw [hnn.1] at this; simp at this
        have hpost : post ≠ [] := by
          intro h0
          have := (itree_isNil_iff f x.1 R post (by omega)).mpr h0
          rw [hnn.2] at this; simp at this
        obtain ⟨a1, a2, a3⟩ := ih1 f (lvl + 1) i (by omega) h1 hpre hfl hlt
        obtain ⟨b1, b2, b3⟩ := ih2 f (lvl + 1) i (by omega) h2 hpost hfr hlt
        refine ⟨?_, ?_, ?_⟩
        · intro α β
          rw [wsum_append, a1, b1]; ring
        · intro e he
          rw [List.mem_append] at he
          rcases he with he | he
          · obtain ⟨p1, p2, p3⟩ := a2 e he
            refine ⟨p1, lt_trans p2 h2, ?_⟩
            rw [hin]; simp only [List.map_append, List.mem_append]; exact Or.inl p3
          · obtain ⟨p1, p2, p3⟩ := b2 e he
            refine ⟨lt_trans h1 p1, p2, ?_⟩
            rw [hin]; simp only [List.map_append, List.map_cons, List.mem_append, List.mem_cons]
            exact Or.inr (Or.inr p3)
        · rw [List.map_append, List.pairwise_append]
          refine ⟨a3, b3, ?_⟩
          intro u hu v hv
          obtain ⟨e1, he1, rfl⟩ := List.mem_map.mp hu
          obtain ⟨e2, he2, rfl⟩ := List.mem_map.mp hv
          exact lt_trans (a2 e1 he1).2.1 (b2 e2 he2).1

/-- **balanced extrapolation weights**: for a grid `a :: inner ++ [b]`, `a < b`, whose levels describe a bisection
    tree with dyadic spacing (`MidSeg`), whenever `BalancedExtrapolationGrid` returns weights (its assertions —
    boundary levels 0, every node has zero or two children — hold), they sum to `b - a` and integrate every affine
    function exactly -/
theorem balancedWeights_exact (grid : List ℚ) (lv : List ℕ) (ws : List ℚ) (a b : ℚ) (inner : List PL) (la lb : ℕ)
    (hz : grid.zip lv = (a, la) :: (inner ++ [(b, lb)])) (hlen : grid.length = lv.length) (hab : a < b)
    (hm : MidSeg a inner b) (h : balancedWeights grid lv = some ws) :
    ws.length = grid.length ∧ ∀ α β : ℚ, dot ws (grid.map fun y => α * y + β) = prim α β b - prim α β a := by
  simp only [balancedWeights] at h
  rw [if_neg (not_not.mpr hlen)] at h
  have hends : ends (grid.zip lv) = some ((a, la), inner, (b, lb)) := by
    rw [hz]; simp [ends]
  rw [hends] at h
  simp only at h
  split at h
  · simp at h
  · split at h
    · simp at h
    · rename_i hbad
      simp only [Bool.or_eq_true, Bool.not_eq_true', not_or, Bool.not_eq_true, Bool.not_eq_false] at hbad
      obtain ⟨hnn, hfull⟩ := hbad
      cases hl : (table (listMax lv - 1) 1 ((List.range (listMax lv)).map
          (fun i => rowDict (ITree.build (inner.length + 1) a inner b) (i + 1)))).getLast? with
      | none => rw [hl] at h; simp at h
      | some d =>
        rw [hl] at h
        simp only [Option.some.injEq] at h
        subst h
        have hg : grid = a :: (inner.map Prod.fst ++ [b]) := by
          have := congrArg (List.map Prod.fst) hz
          rw [List.map_fst_zip (le_of_eq hlen)] at this
          simpa using this
        obtain ⟨s1, s2⟩ := midSeg_sorted hm hab
        have hG : grid.Nodup := by
          rw [hg]
          have hpw : (a :: (inner.map Prod.fst ++ [b])).Pairwise (· < ·) := by
            rw [List.pairwise_cons]
            constructor
            · intro y hy
              simp only [List.mem_append, List.mem_map, List.mem_singleton] at hy
              rcases hy with ⟨p, hp, rfl⟩ | rfl
              · exact (s1 p hp).1
              · exact hab
            · rw [List.pairwise_append]
              refine ⟨s2, by simp, ?_⟩
              intro u hu v hv
              obtain ⟨p, hp, rfl⟩ := List.mem_map.mp hu
              simp only [List.mem_singleton] at hv
              subst hv
              exact (s1 p hp).2
          exact hpw.imp (fun h => ne_of_lt h)
        have hinner : inner ≠ [] := by
          intro h0
          have := (itree_isNil_iff (inner.length + 1) a b inner (Nat.lt_succ_self _)).mpr h0
          rw [hnn] at this; simp at this
        have hrows : ∀ d' ∈ (List.range (listMax lv)).map
            (fun i => rowDict (ITree.build (inner.length + 1) a inner b) (i + 1)), RowOK grid a b d' := by
          intro d' hd'
          obtain ⟨i, _, rfl⟩ := List.mem_map.mp hd'
          obtain ⟨r1, r2, r3⟩ := leafs_spec hm (inner.length + 1) 1 (i + 1) (Nat.lt_succ_self _) hab hinner hfull
            (by omega)
          have hnd : (keys ([] ++ (ITree.build (inner.length + 1) a inner b).leafsOrMax 1 (i + 1))).Nodup := by
            simp only [List.nil_append, keys]
            exact r3.imp (fun h => ne_of_lt h)
          have hrow : rowDict (ITree.build (inner.length + 1) a inner b) (i + 1)
              = (ITree.build (inner.length + 1) a inner b).leafsOrMax 1 (i + 1) := by
            rw [rowDict, foldl_dictSet [] _ hnd]; simp
          rw [hrow]
          refine ⟨by simpa [keys] using hnd, ?_, r1⟩
          intro x hx
          obtain ⟨e, he, rfl⟩ := List.mem_map.mp hx
          rw [hg]
          simp only [List.mem_cons, List.mem_append]
          exact Or.inr (Or.inl (r2 e he).2.2)
        have hd : RowOK grid a b d :=
          table_ok grid a b _ 1 _ hrows d (List.mem_of_getLast? hl)
        refine ⟨by simp, fun α β => ?_⟩
        rw [dot_dictGet grid a b d hG hd, hd.2.2 α β]

end SparseSpace.Romberg
