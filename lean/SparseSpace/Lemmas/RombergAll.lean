import SparseSpace.Lemmas.RombergValid
import SparseSpace.Lemmas.RombergBal
import SparseSpace.Lemmas.RombergDegree
/-!
# Valid refinement trees and the balanced extrapolation grid (C11)
-/
namespace SparseSpace.Romberg
open SparseSpace

/-- a valid refinement tree has dyadic spacing in the sense of `MidSeg` -/
theorem refSeg_midSeg {L R : PL} {inner : List PL} (h : RefSeg L inner R) : MidSeg L.1 inner R.1 := by
  induction h with
  | leaf L R => exact MidSeg.nil _ _
  | bisect L R m lp rp hmid hm h1 h2 ih1 ih2 =>
    exact MidSeg.split _ _ _ lp rp m (refSeg_split hm h1 h2) hmid ih1 ih2

theorem nextCol_length (j : ℕ) (col : List Dict) : (nextCol j col).length = col.length - 1 := by
  induction col with
  | nil => rfl
  | cons top rest ih =>
    cases rest with
    | nil => rfl
    | cons left rest' =>
      simp only [nextCol, List.length_cons] at ih ⊢
      omega

theorem table_length (n j : ℕ) (col : List Dict) : (table n j col).length = col.length - n := by
  induction n generalizing j col with
  | zero => simp [table]
  | succ n ih => simp only [table]; rw [ih, nextCol_length]; omega

theorem listMax_zip_ge (grid : List ℚ) (lv : List ℕ) (p : PL) (h : p ∈ grid.zip lv) : p.2 ≤ listMax lv :=
  le_listMax lv p.2 (List.of_mem_zip (a := p.1) (b := p.2) h).2

/-- the balanced extrapolation grid returns weights on every valid refinement tree with an inner point in which
    every node has zero or two children -/
theorem balanced_defined (grid : List ℚ) (lv : List ℕ) (a b : ℚ) (inner : List PL) (hlen : grid.length = lv.length)
    (hz : grid.zip lv = (a, 0) :: (inner ++ [(b, 0)])) (href : RefSeg (a, 0) inner (b, 0)) (hne : inner ≠ [])
    (hfull : (ITree.build (inner.length + 1) a inner b).isFull = true) :
    ∃ ws, balancedWeights grid lv = some ws := by
  have hends : ends (grid.zip lv) = some ((a, 0), inner, (b, 0)) := by rw [hz]; exact ends_cons_append _ _ _
  have hnn : (ITree.build (inner.length + 1) a inner b).isNil = false := by
    cases hh : (ITree.build (inner.length + 1) a inner b).isNil with
    | false => rfl
    | true => exact absurd ((itree_isNil_iff _ a b inner (Nat.lt_succ_self _)).mp hh) hne
  have hM : 1 ≤ listMax lv := by
    cases inner with
    | nil => exact absurd rfl hne
    | cons p ps =>
      have h1 := refSeg_levels href p List.mem_cons_self
      have h2 := listMax_zip_ge grid lv p (by rw [hz]; simp)
      simp only at h1
      omega
  have hlast : (table (listMax lv - 1) 1 ((List.range (listMax lv)).map
      (fun i => rowDict (ITree.build (inner.length + 1) a inner b) (i + 1)))).getLast? ≠ none := by
    intro h0
    have := List.getLast?_eq_none_iff.mp h0
    have hl := table_length (listMax lv - 1) 1 ((List.range (listMax lv)).map
      (fun i => rowDict (ITree.build (inner.length + 1) a inner b) (i + 1)))
    rw [this] at hl
    simp only [List.length_nil, List.length_map, List.length_range] at hl
    omega
  obtain ⟨d, hd⟩ := Option.ne_none_iff_exists'.mp hlast
  refine ⟨grid.map (dictGet d), ?_⟩
  simp only [balancedWeights]
  rw [if_neg (not_not.mpr hlen), hends]
  simp only [ne_eq, not_true_eq_false, or_self, if_false, hnn, hfull, Bool.not_true, Bool.or_self,
    Bool.false_eq_true, hd]

/-- **degree clause, partial, at the level of `get_weights`**: if all slices of the grid end up in one default
    container (which is what `GROUPED` / `GROUPED_OPTIMIZED` do on a complete dyadic grid of depth `m ≥ 1`), the
    returned weights integrate every cubic polynomial exactly -/
theorem single_container_cubic (cfg : Cfg) (grid : List ℚ) (lv : List ℕ) (st : EG) (ws : List ℚ)
    (hcv : cfg.contVer = .default) (h1 : setGrid cfg grid lv = some st) (h2 : st.weights cfg = some ws)
    (c : List Slice) (hc : st.containers = [c]) (h2c : 2 ≤ c.length) (p0 p1 p2 p3 : ℚ) :
    dot ws (st.grid.map (cubic p0 p1 p2 p3)) = cubicPrim p0 p1 p2 p3 st.b - cubicPrim p0 p1 p2 p3 st.a := by
  obtain ⟨cs, hall, hdot, hch, hend, hgood, hhyp⟩ := setGrid_struct cfg grid lv st ws h1 h2
  rw [hc] at hall hch hend hgood hhyp
  simp only [List.flatten_cons, List.flatten_nil, List.append_nil] at hch hend hhyp
  rw [hdot]
  simp only [allContribs, hcv] at hall
  cases hcc : containerContribs cfg.sliceVer .default c with
  | none => rw [hcc] at hall; simp at hall
  | some c1 =>
    rw [hcc] at hall
    simp only [List.append_nil, Option.some.injEq] at hall
    subst hall
    obtain ⟨hne, ⟨k, hk⟩, hw⟩ := hgood c (by simp)
    cases c with
    | nil => exact absurd rfl hne
    | cons s r =>
      cases r with
      | nil => simp at h2c
      | cons s' r' =>
        cases k with
        | zero => simp at hk
        | succ k' =>
          have hwid : ∀ t ∈ s :: s' :: r', t.width = s.width := fun t ht => hw t ht s List.mem_cons_self
          have hE := equi_of_chain st.a s.width _ hch hwid
          have hpos : 0 < s.width := by
            have := (hhyp s List.mem_cons_self).2
            simp only [Slice.width]; linarith
          rw [container_cubic_exact cfg.sliceVer s s' r' k' st.a s.width hpos p0 p1 p2 p3 hk hE c1 hcc]
          have := endOf_equi st.a s.width _ hE
          rw [hend, hk] at this
          rw [this]
          push_cast
          ring_nf

end SparseSpace.Romberg
